/-
Request dispatch for `Driver.lean`.
-/
import ToastyVerif.Gen.Pyramid
import ToastyVerif.Gen.Study

namespace Driver

def ints (xs : List String) : Option (List Int) := xs.mapM String.toInt?

def showPos (p : Int × Int × Int) : String := s!"({p.1},{p.2.1},{p.2.2})"

def showStudy (t : Gen.StudyTiling) : String :=
  s!"w={t.width} h={t.height} p2n={t.p2n} ts={t.tile_size} lv={t.tile_levels} gx0={t.img_gx0} gy0={t.img_gy0}"

def showEntry (e : (Int × Int × Int) × Int × Int × Int × Int × Int × Int) : String :=
  s!"{showPos e.1}:{e.2.1},{e.2.2.1},{e.2.2.2.1},{e.2.2.2.2.1},{e.2.2.2.2.2.1},{e.2.2.2.2.2.2}"

def mkStudy (a : List Int) : Option Gen.StudyTiling :=
  match a with
  | [w, h] => Gen.StudyTiling.init w h
  | [w, h, ix, iy, sw, sh] => (Gen.StudyTiling.init w h).bind (fun t => t.compute_for_subimage ix iy sw sh)
  | _ => none

def handleGen (op : String) (a : List Int) : String :=
  match op, a with
  | "nhp2", [n] => toString (Gen.next_highest_power_of_2 n)
  | "depth2tiles", [d] => toString (Gen.depth2tiles d)
  | "tiles_at_depth", [d] => toString (Gen.tiles_at_depth d)
  | "pos_parent", [n, x, y] =>
      match Gen.pos_parent (n, x, y) with
      | none => "value-error"
      | some (p, ix, iy) => s!"{showPos p} {ix} {iy}"
  | "pos_children", [n, x, y] => " ".intercalate ((Gen.pos_children (n, x, y)).map showPos)
  | "walk_bit_num", [x, y] => toString (Gen.walk_bit_num x.toNat y.toNat)
  | "walk_flags_update", [f, b] => toString (Gen.walk_flags_update f.toNat b.toNat)
  | "walk_release", [f] => toString (Gen.walk_release f.toNat)
  | "walk_pre_readied_update", [f, i] => toString (Gen.walk_pre_readied_update f.toNat i.toNat)
  | "walk_seed_level", [n, d] => toString (Gen.walk_seed_level n d)
  | "red_slot", [ix, iy] => toString (Gen.red_slot ix.toNat iy.toNat)
  | "study_init", [w, h] =>
      match Gen.StudyTiling.init w h with
      | none => "value-error"
      | some t => showStudy t
  | "study_sub", [w, h, ix, iy, sw, sh] =>
      match Gen.StudyTiling.init w h with
      | none => "value-error"
      | some t => match t.compute_for_subimage ix iy sw sh with
        | none => "value-error"
        | some s => showStudy s
  | "flip_tile", [ty, h] =>
      let y1 := Gen.StudyTiling.flip_tile_y1 ty
      s!"{y1} {Gen.StudyTiling.flip_tile_y0 y1 h}"
  | _, _ => "bad-op"

/-- ops whose leading integer arguments describe a tiling: `w h` or `w h ix iy sw sh`, after a count -/
def handleStudy (op : String) (a : List Int) : String :=
  match op, a with
  | "count", args => match mkStudy args with
      | none => "value-error"
      | some t => toString t.count_populated_positions
  | "rects", args => match mkStudy args with
      | none => "value-error"
      | some t => " ".intercalate (t.generate_populated_positions.map showEntry)
  | "i2t", u :: v :: args => match mkStudy args with
      | none => "value-error"
      | some t => let r := t.image_to_tile u v; s!"{r.1} {r.2.1} {r.2.2.1} {r.2.2.2}"
  | _, _ => "bad-op"

def handle (toks : List String) : String :=
  match toks with
  | "gen" :: op :: args => match ints args with
      | some a => handleGen op a
      | none => "bad-op"
  | "study" :: op :: args => match ints args with
      | some a => handleStudy op a
      | none => "bad-op"
  | _ => "bad-op"

end Driver
