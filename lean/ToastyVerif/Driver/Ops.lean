/-
Request dispatch for `Driver.lean`.
-/
import ToastyVerif.Gen.Pyramid
import ToastyVerif.Gen.Study
import ToastyVerif.Model.Pyramid
import ToastyVerif.Model.Select
import ToastyVerif.Gen.Parity
import ToastyVerif.Gen.Samplers
import ToastyVerif.Model.Publish
import ToastyVerif.Gen.Paths
import ToastyVerif.Model.Pixels
import ToastyVerif.Model.Cascade
import ToastyVerif.Props.C14
import ToastyVerif.Model.Stage
import ToastyVerif.Model.Lock
import ToastyVerif.Model.Walk
import ToastyVerif.Model.Toast
import ToastyVerif.Model.Lookup
import ToastyVerif.Model.Sample
import ToastyVerif.Model.Filter
import ToastyVerif.Gen.Filter
import ToastyVerif.Model.Mosaic

namespace Driver

def ints (xs : List String) : Option (List Int) := xs.mapM String.toInt?

def showPos (p : Int × Int × Int) : String := s!"({p.1},{p.2.1},{p.2.2})"

def showStudy (t : Gen.StudyTiling) : String :=
  s!"w={t.width} h={t.height} p2n={t.p2n} ts={t.tile_size} lv={t.tile_levels} gx0={t.img_gx0} gy0={t.img_gy0}"

def showEntry (e : (Int × Int × Int) × Int × Int × Int × Int × Int × Int) : String :=
  s!"{showPos e.1}:{e.2.1},{e.2.2.1},{e.2.2.2.1},{e.2.2.2.2.1},{e.2.2.2.2.2.1},{e.2.2.2.2.2.2}"

def mkStudy (a : List Int) : Option Gen.StudyTiling :=
  match a with
  | [w, h] => Gen.StudyTiling.init w h
  | [w, h, ix, iy, sw, sh] => (Gen.StudyTiling.init w h).bind (fun t => t.compute_for_subimage ix iy sw sh)
  | _ => none

def handleGen (op : String) (a : List Int) : String :=
  match op, a with
  | "nhp2", [n] => toString (Gen.next_highest_power_of_2 n)
  | "depth2tiles", [d] => toString (Gen.depth2tiles d)
  | "tiles_at_depth", [d] => toString (Gen.tiles_at_depth d)
  | "pos_parent", [n, x, y] =>
      match Gen.pos_parent (n, x, y) with
      | none => "value-error"
      | some (p, ix, iy) => s!"{showPos p} {ix} {iy}"
  | "pos_children", [n, x, y] => " ".intercalate ((Gen.pos_children (n, x, y)).map showPos)
  | "walk_bit_num", [x, y] => toString (Gen.walk_bit_num x.toNat y.toNat)
  | "walk_flags_update", [f, b] => toString (Gen.walk_flags_update f.toNat b.toNat)
  | "walk_release", [f] => toString (Gen.walk_release f.toNat)
  | "walk_pre_readied_update", [f, i] => toString (Gen.walk_pre_readied_update f.toNat i.toNat)
  | "walk_seed_level", [n, d] => toString (Gen.walk_seed_level n d)
  | "red_slot", [ix, iy] => toString (Gen.red_slot ix.toNat iy.toNat)
  | "study_init", [w, h] =>
      match Gen.StudyTiling.init w h with
      | none => "value-error"
      | some t => showStudy t
  | "study_sub", [w, h, ix, iy, sw, sh] =>
      match Gen.StudyTiling.init w h with
      | none => "value-error"
      | some t => match t.compute_for_subimage ix iy sw sh with
        | none => "value-error"
        | some s => showStudy s
  | "flip_tile", [ty, h] =>
      let y1 := Gen.StudyTiling.flip_tile_y1 ty
      s!"{y1} {Gen.StudyTiling.flip_tile_y0 y1 h}"
  | _, _ => "bad-op"

/-- ops whose leading integer arguments describe a tiling: `w h` or `w h ix iy sw sh`, after a count -/
def handleStudy (op : String) (a : List Int) : String :=
  match op, a with
  | "count", args => match mkStudy args with
      | none => "value-error"
      | some t => toString t.count_populated_positions
  | "rects", args => match mkStudy args with
      | none => "value-error"
      | some t => " ".intercalate (t.generate_populated_positions.map showEntry)
  | "i2t", u :: v :: args => match mkStudy args with
      | none => "value-error"
      | some t => let r := t.image_to_tile u v; s!"{r.1} {r.2.1} {r.2.2.1} {r.2.2.2}"
  | _, _ => "bad-op"

/-! ### pyramid model -/

def showP (p : Pos) : String := s!"({p.n},{p.x},{p.y})"
def showPs (ps : List Pos) : String := " ".intercalate (ps.map showP)

def parsePos (s : String) : Option Pos :=
  match (s.splitOn ".").mapM String.toNat? with
  | some [n, x, y] => some ⟨n, x, y⟩
  | _ => none

/-- accept-set: `*` (everything) or `n.x.y;n.x.y;…` (possibly empty: `-`) -/
def parseAcc (s : String) : Option (Pos → Bool) :=
  if s = "*" then some (fun _ => true)
  else if s = "-" then some (fun _ => false)
  else match (s.splitOn ";").mapM parsePos with
    | some ps => some (fun p => ps.contains p)
    | none => none

/-- `<depth> <apex n.x.y> <kind: g|t> <acc>` -/
def parsePyr (a : List String) : Option (Nat × Pos × Option (Pos → Bool)) :=
  match a with
  | [d, ap, "g"] => do
      let d ← d.toNat?; let ap ← parsePos ap
      if ap.n > d then none else some (d, ap, none)
  | [d, ap, "t", acc] => do
      let d ← d.toNat?; let ap ← parsePos ap; let acc ← parseAcc acc
      if ap.n > d then none else some (d, ap, some acc)
  | _ => none

def showErr : Pyr.RErr → String
  | .assertLen => "assert-failed:len"
  | .assertXY => "assert-failed:xy"
  | .assertParentXY => "assert-failed:parent-xy"

def showYields {α} (sh : α → String) (ys : List (Pos × Bool × (Nat → α))) : String :=
  " ".intercalate (ys.map fun y => s!"{showP y.1}{if y.2.1 then "L" else "N"}[{sh (y.2.2 0)},{sh (y.2.2 1)},{sh (y.2.2 2)},{sh (y.2.2 3)}]")

def handlePyr (op : String) (a : List String) : String :=
  match op, a with
  | "genpos", [d] => match d.toNat? with
      | some d => showPs (Pyr.genPos d)
      | none => "bad-op"
  | "parent", [p] => match parsePos p with
      | some p => if p.n < 1 then "value-error" else s!"{showP p.parent} {p.x % 2} {p.y % 2} {p.slot}"
      | none => "bad-op"
  | "children", [p] => match parsePos p with
      | some p => showPs p.children
      | none => "bad-op"
  | "issub", [d, s] => match parsePos d, parsePos s with
      | some d, some s => match Pos.isSub d s with
        | none => "value-error"
        | some b => toString b
      | _, _ => "bad-op"
  | "generator", args => match parsePyr args with
      | some (d, ap, t) => showPs (Pyr.generator d ap t)
      | none => "bad-op"
  | "walk", args => match parsePyr args with
      | some (d, ap, t) => match Pyr.serialWalk d ap t with
        | .ok ps => showPs ps
        | .error e => showErr e
      | none => "bad-op"
  | "leaves", args => match parsePyr args with
      | some (d, ap, t) => match Pyr.serialLeaves d ap t with
        | .ok ps => showPs ps
        | .error e => showErr e
      | none => "bad-op"
  | "red", fn :: args => match parsePyr args with
      | some (d, ap, t) =>
        let g := Pyr.generator d ap t
        match fn with
        | "leaf" => match Pyr.runRed d ap 0 Pyr.fLeaf g (Pyr.RState.init 0) with
          | .ok (ys, s) => s!"{showYields toString ys} => {s.final} {!s.active}"
          | .error e => showErr e
        | "live" => match Pyr.runRed d ap 0 Pyr.fLive g (Pyr.RState.init 0) with
          | .ok (ys, s) => s!"{showYields toString ys} => {s.final} {!s.active}"
          | .error e => showErr e
        | "ops" => match Pyr.runRed d ap (false, 0) Pyr.fOps g (Pyr.RState.init (false, 0)) with
          | .ok (ys, s) => s!"{showYields (fun v => s!"{v.1}/{v.2}") ys} => {s.final.1}/{s.final.2} {!s.active}"
          | .error e => showErr e
        | _ => "bad-op"
      | none => "bad-op"
  | _, _ => "bad-op"

/-! ### HDU / WCS-key selection -/

def parseHduSpec (s : String) : Option Select.HduSpec :=
  if s = "g" then some .guess
  else if s.startsWith "s:" then (s.drop 2).toString.toInt?.map .scalar
  else if s = "l:" then some (.list [])
  else if s.startsWith "l:" then (((s.drop 2).toString.splitOn ",").mapM String.toInt?).map .list
  else none

def parseKinds (s : String) : Option (List Select.HduKind) :=
  if s = "-" then some [] else
  (s.splitOn ",").mapM fun t =>
    match (t.splitOn ":").mapM String.toNat? with
    | some [a, n, b] => some ⟨a != 0, n, b != 0⟩
    | _ => none

def unblank (s : String) : String := if s = "_" then " " else s
def reblank (s : String) : String := if s = " " then "_" else s

def parseKeySpec (s : String) : Option Select.KeySpec :=
  if s = "d" then some .default
  else if s.startsWith "s:" then some (.scalar (unblank (s.drop 2).toString))
  else if s.startsWith "l:" then some (.list (((s.drop 2).toString.splitOn ",").map unblank))
  else none

/-- `CollectionLoader.create_from_args` on `--hdu-index` (canonical decimal strings only) -/
def cliHdu (s : String) : String :=
  match s.toInt? with
  | some k => s!"s:{k}"
  | none => match (s.splitOn ",").mapM String.toInt? with
    | some ks => "l:" ++ ",".intercalate (ks.map toString)
    | none => "error"

def allowedKey (k : String) : Bool :=
  k.length == 1 && (k == " " || (k.toList.all fun c => 'A' ≤ c && c ≤ 'Z'))

/-- `create_from_args` on `--wcs-key` -/
def cliKey (s : String) : String :=
  let keys := (s.splitOn ",").map unblank
  if keys.all allowedKey then
    match keys with
    | [k] => "s:" ++ reblank k
    | ks => "l:" ++ ",".intercalate (ks.map reblank)
  else "error"

def handleScan (op : String) (a : List String) : String :=
  match op, a with
  | "select", [spec, i, kinds] =>
      match parseHduSpec spec, i.toNat?, parseKinds kinds with
      | some sp, some i, some ks => match Select.select sp i ks with
        | .ok rep rd => s!"ok {rep} {rd}"
        | .indexError => "index-error"
        | .rejectedTable => "rejected-table"
      | _, _, _ => "bad-op"
  | "key", [spec, i] =>
      match parseKeySpec spec, i.toNat? with
      | some sp, some i => match Select.key sp i with
        | some k => reblank k
        | none => "index-error"
      | _, _ => "bad-op"
  | "cli_hdu", [s] => cliHdu s
  | "cli_key", [s] => cliKey s
  | _, _ => "bad-op"

/-! ### parity (exact rationals `p/q`) -/

def parseRat (s : String) : Option Rat :=
  match s.splitOn "/" with
  | [a] => a.toInt?.map (fun n => (n : Rat))
  | [a, b] => match a.toInt?, b.toNat? with
    | some n, some d => if d = 0 then none else some ((n : Rat) / (d : Rat))
    | _, _ => none
  | _ => none

def showRat (r : Rat) : String := if r.den = 1 then toString r.num else s!"{r.num}/{r.den}"

def handleParity (op : String) (a : List String) : String :=
  match op, a.mapM parseRat with
  | "sign", some [c1, c2, p11, p12, p21, p22] => toString (Gen.Parity.sign c1 c2 p11 p12 p21 p22)
  | "flip", some [c1, c2, p11, p12, p21, p22, x1, x2, h] =>
      let f := fun (g : Rat → Rat → Rat → Rat → Rat → Rat → Rat → Rat → Rat → Rat) => showRat (g c1 c2 p11 p12 p21 p22 x1 x2 h)
      s!"{f Gen.Parity.flip_cd1_1} {f Gen.Parity.flip_cd1_2} {f Gen.Parity.flip_cd2_1} {f Gen.Parity.flip_cd2_2} {f Gen.Parity.flip_crpix1} {f Gen.Parity.flip_crpix2}"
  | _, _ => "bad-op"

/-! ### plate-carrée samplers (angles in turns, exact) -/

def handleSampler (variant : String) (a : List String) : String :=
  match a with
  | [nx, ny, u, v] =>
    match nx.toInt?, ny.toInt?, parseRat u, parseRat v with
    | some nx, some ny, some u, some v =>
      let r? : Option (Int × Int) := match variant with
        | "sky" => some (Gen.Sampler.sky nx ny u v)
        | "zeroright" => some (Gen.Sampler.zeroright nx ny u v)
        | "planet" => some (Gen.Sampler.planet nx ny u v)
        | "zeroleft" => some (Gen.Sampler.zeroleft nx ny u v)
        | "galactic" => some (Gen.Sampler.galactic nx ny u v)
        | "ecliptic" => some (Gen.Sampler.ecliptic nx ny u v)
        | _ => none
      match r? with
      | some r => s!"{r.1} {r.2}"
      | none => "bad-op"
    | _, _, _, _ => "bad-op"
  | _ => "bad-op"

/-! ### publish histories: `pub hist <files,comma> <run> <run> …`, run = `<listing,comma>:<k>:<mid 0/1>:<renamed 0/1>` -/

def showSt : Pub.St → String
  | .absent => "A" | .part => "P" | .complete => "C"

def parseRun (s : String) : Option Pub.Run :=
  match s.splitOn ":" with
  | [l, k, m, r] => match k.toNat? with
    | some k => some ⟨l.splitOn ",", k, m == "1", r == "1"⟩
    | none => none
  | _ => none

def handlePub (op : String) (a : List String) : String :=
  match op, a with
  | "reorder", [l] => ",".intercalate (Gen.Publish.reorder (l.splitOn ","))
  | "hist", files :: runs =>
    match runs.mapM parseRun with
    | none => "bad-op"
    | some rs =>
      let fs := files.splitOn ","
      let step := fun (acc : Pub.World × List String) (r : Pub.Run) =>
        let w := Pub.applyRun Gen.Publish.put_atomic acc.1 r
        (w, acc.2 ++ [s!"{"".intercalate (fs.map fun f => showSt (w.store f))}{if w.moved then "M" else "-"}{if decide (Pub.Safe fs w) then "" else "!"}"])
      " ".intercalate (rs.foldl step (Pub.World.init, [])).2
  | _, _ => "bad-op"

/-! ### tile paths and URL templates -/

def handlePath (op : String) (a : List String) : String :=
  match op, a with
  | "dec", [n] => match n.toNat? with
      | some n => String.ofList (PathModel.dec n)
      | none => "bad-op"
  | "render", [scheme, n, x, y, ext] =>
      match n.toNat?, x.toNat?, y.toNat? with
      | some n, some x, some y =>
        let segs? := if scheme = "LsYsYX" then some Gen.Paths.path_LsYsYX else if scheme = "LXY" then some Gen.Paths.path_LXY else none
        match segs? with
        | some segs => String.ofList (PathModel.render segs n x y ext.toList)
        | none => "bad-op"
      | _, _, _ => "bad-op"
  | "expand", [n, x, y, tmpl] =>
      match n.toNat?, x.toNat?, y.toNat? with
      | some n, some x, some y => String.ofList (PathModel.expand n x y tmpl.toList)
      | _, _, _ => "bad-op"
  | "url", [scheme, ext] =>
      let segs? := if scheme = "LsYsYX" then some Gen.Paths.url_LsYsYX else if scheme = "LXY" then some Gen.Paths.url_LXY else none
      match segs? with
      | some segs => String.ofList (PathModel.render segs 0 0 0 ext.toList)
      | none => "bad-op"
  | _, _ => "bad-op"

/-! ### maskable buffers: images are `row;row;…`, rows `px|px|…`, pixels `c,c,…`, channel `n` = NaN -/

def parseCh (s : String) : Option PixelBase.Ch :=
  if s = "n" then some none else s.toInt?.map some

def parseImg (s : String) : Option (List (List PixelBase.Px)) :=
  (s.splitOn ";").mapM fun row => (row.splitOn "|").mapM fun px => (px.splitOn ",").mapM parseCh

def imgOf (rows : List (List PixelBase.Px)) : Pixels.Img := fun r c => (rows.getD r []).getD c []

def showCh : PixelBase.Ch → String
  | none => "n" | some v => toString v

def showImg (h w : Nat) (img : Pixels.Img) : String :=
  ";".intercalate ((List.range h).map fun r => "|".intercalate ((List.range w).map fun c => ",".intercalate ((img r c).map showCh)))

def modeOf (s : String) : Option Pixels.ModeSem := Pixels.allModes.find? (·.name == s)

/-- `<f|r> <bstart> <s0> <len>` -/
def parseSlice (a : List String) : Option (Nat → Option Nat) :=
  match a with
  | [d, b, s0, len] => match b.toNat?, s0.toNat?, len.toNat? with
    | some b, some s0, some len =>
      if d = "f" then some (Pixels.sliceFwd b s0 len) else if d = "r" then some (Pixels.sliceRev b s0 len) else none
    | _, _, _ => none
  | _ => none

def handlePx (op : String) (a : List String) : String :=
  match op, a with
  | "fill", [mode, bh, bw, yd, yb, ys, yl, xd, xb, xs, xl, src] =>
    match modeOf mode, bh.toNat?, bw.toNat?, parseSlice [yd, yb, ys, yl], parseSlice [xd, xb, xs, xl], parseImg src with
    | some m, some bh, some bw, some ry, some rx, some src =>
      showImg bh bw (Pixels.fill m ⟨ry, rx⟩ (imgOf src))
    | _, _, _, _, _, _ => "bad-op"
  | "update", [mode, bh, bw, yd, yb, ys, yl, xd, xb, xs, xl, src, buf] =>
    match modeOf mode, bh.toNat?, bw.toNat?, parseSlice [yd, yb, ys, yl], parseSlice [xd, xb, xs, xl], parseImg src, parseImg buf with
    | some m, some bh, some bw, some ry, some rx, some src, some buf =>
      showImg bh bw (Pixels.update m ⟨ry, rx⟩ (imgOf buf) (imgOf src))
    | _, _, _, _, _, _, _ => "bad-op"
  | "masked", [mode, bh, bw, buf] =>
    match modeOf mode, bh.toNat?, bw.toNat?, parseImg buf with
    | some m, some bh, some bw, some buf => toString (Pixels.completelyMasked m bh bw (imgOf buf))
    | _, _, _, _ => "bad-op"
  | "clear", [mode, bh, bw] =>
    match modeOf mode, bh.toNat?, bw.toNat? with
    | some m, some bh, some bw => showImg bh bw (Pixels.clear m)
    | _, _, _ => "bad-op"
  | _, _ => "bad-op"

/-! ### cascade index map: which stored child pixels feed stored parent pixel (i, j) -/

def handleCasc (op : String) (a : List String) : String :=
  match op, a with
  | "map", [sign, i, j, present] =>
    match sign.toInt?, i.toNat?, j.toNat? with
    | some sign, some i, some j =>
      -- child k's stored pixel (r, c) is tagged k*65536 + r*256 + c; `present` is a 4-character 0/1 string
      let pres := present.toList.map (· == '1')
      let ch : Nat → Option Pixels.Img := fun k =>
        if pres.getD k false then some (fun r c => [some ((k * 65536 + r * 256 + c : Nat) : Int)]) else none
      let g : PixelBase.Px → PixelBase.Px → PixelBase.Px → PixelBase.Px → PixelBase.Px := fun a b c d => a ++ b ++ c ++ d
      let px := Cascade.merged g (Cascade.mosaic Pixels.F64 (Cascade.slicesFor sign) ch) i j
      " ".intercalate (px.map fun c => match c with
        | some v => let v := v.toNat; s!"{v / 65536}:{v % 65536 / 256}:{v % 256}"
        | none => "-")
    | _, _, _ => "bad-op"
  | _, _ => "bad-op"

/-! ### FITS data range: prefix-coded tree, `N t t t t` | `L v,v,…` | `L -` -/

partial def parseTree : List String → Option (C14.T × List String)
  | "L" :: v :: rest =>
    if v = "-" then some (.leaf [], rest)
    else match (v.splitOn ",").mapM String.toInt? with
      | some vs => some (.leaf vs, rest)
      | none => none
  | "N" :: rest => do
    let (a, r1) ← parseTree rest
    let (b, r2) ← parseTree r1
    let (c, r3) ← parseTree r2
    let (d, r4) ← parseTree r3
    some (.node a b c d, r4)
  | _ => none

def showHdr (h : Option (Option Int × Option Int)) : String :=
  match h with
  | none => "x"
  | some (a, b) => s!"{match a with | some v => toString v | none => "?"}:{match b with | some v => toString v | none => "?"}"

/-- headers of all nodes in preorder -/
def allHdrs : C14.T → List String
  | .leaf v => [showHdr (C14.hdr (fun _ => (none, none)) (.leaf v))]
  | .node a b c d => showHdr (C14.hdr (fun _ => (none, none)) (.node a b c d)) :: (allHdrs a ++ allHdrs b ++ allHdrs c ++ allHdrs d)

def handleRange (a : List String) : String :=
  match parseTree a with
  | some (t, []) => " ".intercalate (allHdrs t)
  | _ => "bad-op"

/-! ### hand-off stage: replay of a recorded trace -/

def parseStageLabel (t : String) : Option Stage.L :=
  match t.splitOn ":" with
  | ["start", k] => k.toNat?.map .start
  | ["begin", k] => k.toNat?.map .begin
  | ["put", i] => i.toNat?.map .put
  | ["flush"] => some .flush
  | ["close"] => some .close
  | ["jt"] => some .joinThread
  | ["set"] => some .setFlag
  | ["join", k] => k.toNat?.map .join
  | ["fq", k, b] => k.toNat?.map (fun k => .flagQ k (b == "1"))
  | ["rl", k] => k.toNat?.map .rlock
  | ["rt", k] => k.toNat?.map .rlockTimeout
  | ["rv", k, i] => match k.toNat?, i.toNat? with
    | some k, some i => some (.recv k i)
    | _, _ => none
  | ["em", k] => k.toNat?.map .empty
  | ["cb", k, i] => match k.toNat?, i.toNat? with
    | some k, some i => some (.cb k i)
    | _, _ => none
  | _ => none

def showPC : Stage.PC → String
  | .starting k => s!"starting{k}" | .putting => "putting" | .closed => "closed" | .joined => "joined"
  | .joining k => s!"joining{k}" | .returned => "returned"

def replayStage (s : Stage.S) (idx : Nat) : List String → String
  | [] =>
    let exited := (List.range s.n).all fun k => s.ws k == .exited
    s!"ok {showPC s.pc} exited={exited} processed={",".intercalate (s.processed.map fun e => s!"{e.1}@{e.2}")} left={s.pipe.length + s.buf.length + s.todo.length}"
  | t :: ts =>
    match parseStageLabel t with
    | none => "bad-op"
    | some l => match Stage.step s l with
      | some s' => replayStage s' (idx + 1) ts
      | none => s!"reject {idx} {t}"

def handleStage (a : List String) : String :=
  match a with
  | n :: cap :: ff :: items :: labels =>
    match n.toNat?, cap.toNat?, (if items = "-" then some [] else (items.splitOn ",").mapM String.toNat?) with
    | some n, some cap, some its => replayStage (Stage.init n cap (ff == "1") its) 0 labels
    | _, _, _ => "bad-op"
  | _ => "bad-op"

/-! ### locked read-modify-write: replay -/

def parseLockLabel (t : String) : Option Lock.L :=
  match t.splitOn ":" with
  | ["lk", i] => i.toNat?.map .lock
  | ["rb", i] => i.toNat?.map .readBegin
  | ["re", i] => i.toNat?.map .readEnd
  | ["wb", i] => i.toNat?.map .writeBegin
  | ["we", i] => i.toNat?.map .writeEnd
  | ["ul", i] => i.toNat?.map .unlock
  | _ => none

def replayLock (s : Lock.S) (idx : Nat) : List String → String
  | [] =>
    let fileS := match s.file with
      | .stable v => ",".intercalate (v.map toString)
      | .part => "PARTIAL"
    let alldone := (List.range s.n).all fun i => s.us i == .done
    s!"ok file={fileS} done={alldone} partial_reads={s.partialReads}"
  | t :: ts =>
    match parseLockLabel t with
    | none => "bad-op"
    | some l => match Lock.step s l with
      | some s' => replayLock s' (idx + 1) ts
      | none => s!"reject {idx} {t}"

def handleLock (a : List String) : String :=
  match a with
  | n :: labels => match n.toNat? with
    | some n => replayLock (Lock.init n) 0 labels
    | none => "bad-op"
  | _ => "bad-op"

/-! ### parallel walk: prologue from the model's reducer, then replay of a recorded trace -/

def parseWalkLabel (t : String) : Option Walk.L :=
  match t.splitOn ":" with
  | ["seed", p] => (parsePos p).map .seed
  | ["start", k] => k.toNat?.map .start
  | ["begin", k] => k.toNat?.map .begin
  | ["rflush", p] => (parsePos p).map .rflush
  | ["dflush", k, p] => match k.toNat?, parsePos p with
    | some k, some p => some (.dflush k p)
    | _, _ => none
  | ["dlock"] => some .dlock
  | ["dempty"] => some .dempty
  | ["drecv", p] => (parsePos p).map .drecv
  | ["release", p] => (parsePos p).map .release
  | ["close"] => some .close
  | ["jt"] => some .joinThread
  | ["set"] => some .setFlag
  | ["join", k] => k.toNat?.map .join
  | ["rl", k] => k.toNat?.map .rlock
  | ["rt", k] => k.toNat?.map .rlockTimeout
  | ["re", k] => k.toNat?.map .rempty
  | ["rr", k, p] => match k.toNat?, parsePos p with
    | some k, some p => some (.rrecv k p)
    | _, _ => none
  | ["fq", k, b] => k.toNat?.map (fun k => .flagQ k (b == "1"))
  | ["cbb", k, p] => match k.toNat?, parsePos p with
    | some k, some p => some (.cbBegin k p)
    | _, _ => none
  | ["cbe", k, p] => match k.toNat?, parsePos p with
    | some k, some p => some (.cbEnd k p)
    | _, _ => none
  | ["dput", k, p] => match k.toNat?, parsePos p with
    | some k, some p => some (.dput k p)
    | _, _ => none
  | _ => none

def showWalkPC : Walk.PC → String
  | .seeding r => s!"seeding{r.length}" | .starting k => s!"starting{k}" | .idle => "idle" | .dlocked => "dlocked"
  | .releasing p => s!"releasing{showP p}" | .closing => "closing" | .closed => "closed" | .joined => "joined"
  | .joining k => s!"joining{k}" | .returned => "returned"

def replayWalk (s : Walk.S) (idx : Nat) : List String → String
  | [] =>
    let evs := s.log.map fun e => match e with
      | .cbBegin p => s!"B{showP p}"
      | .cbEnd p => s!"E{showP p}"
    let exited := (List.range s.n).all fun k => s.ws k == .exited
    s!"ok {showWalkPC s.pc} exited={exited} log={",".intercalate evs}"
  | t :: ts =>
    match parseWalkLabel t with
    | none => "bad-op"
    | some l => match Walk.step s l with
      | some s' => replayWalk s' (idx + 1) ts
      | none => s!"reject {idx} {t}"

/-- `walk pro <pyr…>` prints the model's prologue; `walk replay <par> <pyr…> :: labels` replays -/
def handleWalk (a : List String) : String :=
  match a with
  | "pro" :: pyr => match parsePyr pyr with
    | some (d, ap, t) => match Walk.prologue d ap t with
      | .ok pr => s!"total={pr.total} seeds={showPs pr.seeds}"
      | .error e => showErr e
    | none => "bad-op"
  | "replay" :: par :: rest =>
    let pyr := rest.takeWhile (· ≠ "::")
    let labels := (rest.dropWhile (· ≠ "::")).drop 1
    match par.toNat?, parsePyr pyr with
    | some par, some (d, ap, t) => match Walk.prologue d ap t with
      | .ok pr => replayWalk (Walk.init par (2 * par) ap pr.seeds pr.pre) 0 labels
      | .error e => showErr e
    | _, _ => "bad-op"
  | _ => "bad-op"

/-! ### TOAST geometry over the free term algebra -/

def tmid (a b : Toast.Term) : Toast.Term := .m a b
def tvtx (v : ToastBase.Vtx) : Toast.Term := .v v

def handleToast (a : List String) : String :=
  match a with
  | ["single", pl, p] => match parsePos p with
    | some p => match Toast.single tmid tvtx (pl == "p") p with
      | some t => t.str
      | none => "error"
    | none => "bad-op"
  | ["tileat", pl, p] => match parsePos p with
    | some p => (Toast.tileAt tmid tvtx (pl == "p") p.n p.x p.y).str
    | none => "bad-op"
  | ["gen", pl, depth, bo, acc] => match depth.toNat?, parseAcc acc with
    | some d, some acc =>
      " | ".intercalate ((Toast.generate tmid tvtx (pl == "p") (fun t => acc t.pos) (bo == "1") d).map Toast.Tile.str)
    | _, _ => "bad-op"
  | "descend" :: pl :: start :: choices => match start.toNat?, choices.mapM String.toNat? with
    | some s, some cs =>
      let t1 := (Toast.level1 tvtx (pl == "p")).getD s (Toast.dummy tvtx)
      (Toast.descend tmid (fun t => cs.getD (t.pos.n - 1) 0) cs.length t1).str
    | _, _ => "bad-op"
  | ["level1", pl, lon] => match parseRat lon with
    | some l =>
      let i := Lookup.selectLevel1 (pl == "p") l
      let r := (Toast.level1Table (pl == "p")).getD i ((9, 9), (.N, .N, .N, .N), false)
      s!"({r.1.1},{r.1.2})"
    | none => "bad-op"
  | "pick" :: scores => match scores.mapM String.toInt? with
    | some sc => toString (Toast.pick sc)
    | none => "bad-op"
  | "lookup" :: pl :: start :: scores => match start.toNat?, scores.mapM String.toInt? with
    | some s, some sc =>
      let t1 := (Toast.level1 tvtx (pl == "p")).getD s (Toast.dummy tvtx)
      let k := sc.length / 4
      (Toast.lookup tmid (fun t => (sc.drop (4 * (t.pos.n - 1))).take 4) k t1).str
    | _, _ => "bad-op"
  | ["sub", pl, p, k] => match parsePos p, k.toNat? with
    | some p, some k =>
      let t := Toast.tileAt tmid tvtx (pl == "p") p.n p.x p.y
      " ".intercalate (((List.range (2 ^ k)).flatMap (fun i => (List.range (2 ^ k)).map (fun j => (i, j)))).map
        (fun ij => (Toast.subsample tmid t.inc k t.q ij.1 ij.2).str))
    | _, _ => "bad-op"
  | ["centre", pl, p] => match parsePos p with
    | some p =>
      let t := Toast.tileAt tmid tvtx (pl == "p") p.n p.x p.y
      (Toast.childQuad tmid t.inc t.q 0).lr.str
    | none => "bad-op"
  | ["level0", pl, k, i, j] => match k.toNat?, i.toNat?, j.toNat? with
    | some k, some i, some j => (Toast.level0Coords tmid tvtx (pl == "p") k i j).str
    | _, _, _ => "bad-op"
  | _ => "bad-op"

/-! ### TOAST sampling: one stored pixel -/

def parsePx (s : String) : Option PixelBase.Px := (s.splitOn ",").mapM parseCh

/-- `px <mode> <default format> <override|-> <clobber 0|1> <old stored pixel|-> <sampled at display row r> <sampled at display row 255-r>`:
the pixel stored at row r -/
def handleSample (a : List String) : String :=
  match a with
  | ["px", mode, dflt, ov, clob, old, same, mirrored] =>
    match modeOf mode, parsePx same, parsePx mirrored with
    | some m, some same, some mirrored =>
      let inv := Sample.invert dflt.toList (if ov = "-" then none else some ov.toList)
      let new := if inv then mirrored else same
      if clob = "1" then ",".intercalate (new.map showCh)
      else
        let basis := if old = "-" then some m.clearPx else parsePx old
        match basis with
        | some b => ",".intercalate ((m.updatePx b new).map showCh)
        | none => "bad-op"
    | _, _, _ => "bad-op"
  | _ => "bad-op"

/-! ### tile filters and chunked maps -/

def handleFilter (a : List String) : String :=
  match a with
  | "bbox" :: fuel :: rest => match fuel.toNat?, rest.mapM parseRat with
    | some f, some [tau, pi, pole, l0, l1, l2, l3, b0, b1, b2, b3, lonmin, lonmax, latmin, latmax] =>
      match Filter.intersects tau pi pole f ⟨l0, l1, l2, l3⟩ ⟨b0, b1, b2, b3⟩ ⟨lonmin, lonmax, latmin, latmax⟩ with
      | some true => "true"
      | some false => "false"
      | none => "fuel"
    | _, _ => "bad-op"
  | ["chunkspec", gw, gh, tw, th, i] => match [gw, gh, tw, th, i].mapM String.toInt? with
    | some [gw, gh, tw, th, i] =>
      if i < 0 || i ≥ Gen.Filter.n_chunks gw gh tw th then "ValueError"
      else let s := Gen.Filter.chunk_spec gw gh tw th i; s!"{s.1} {s.2.1} {s.2.2.1} {s.2.2.2}"
    | _ => "bad-op"
  | ["nchunks", gw, gh, tw, th] => match [gw, gh, tw, th].mapM String.toInt? with
    | some [gw, gh, tw, th] => toString (Gen.Filter.n_chunks gw gh tw th)
    | _ => "bad-op"
  | ["bounds", gw, gh, cx, cy, cw, ch] => match [gw, gh, cx, cy, cw, ch].mapM String.toInt? with
    | some [gw, gh, cx, cy, cw, ch] =>
      let b := Gen.Filter.chunk_bounds gw gh cx cy cw ch
      s!"{showRat b.1} {showRat b.2.1} {showRat b.2.2.1} {showRat b.2.2.2}"
    | _ => "bad-op"
  | ["index", gw, gh, cx, cy, cw, ch, lon, lat] => match [gw, gh, cx, cy, cw, ch].mapM String.toInt?, parseRat lon, parseRat lat with
    | some [gw, gh, cx, cy, cw, ch], some lon, some lat =>
      let b := Gen.Filter.chunk_bounds gw gh cx cy cw ch
      let r := Gen.Filter.chunk_index cw ch b.1 b.2.1 b.2.2.1 b.2.2.2 lon lat
      s!"{r.1} {r.2.1} {r.2.2}"
    | _, _, _ => "bad-op"
  | _ => "bad-op"

/-! ### multi-TAN mosaics: global pixelisation -/

def handleMosaic (a : List String) : String :=
  match a with
  | "place" :: ins =>
    match ins.mapM (fun s => (s.splitOn ",").mapM String.toInt?) with
    | some rows =>
      let inputs : List Mosaic.Input := rows.filterMap fun r => match r with
        | [c1, c2, w, h] => some ⟨c1, c2, w, h, fun _ _ => []⟩
        | _ => none
      if inputs.length ≠ rows.length then "bad-op" else
      match Mosaic.bounds inputs, inputs.getLast? with
      | some b, some last =>
        let sz := Mosaic.size b
        let pl := inputs.map fun i => let p := Mosaic.place b i; s!"{p.1},{p.2.1},{p.2.2.1},{p.2.2.2}"
        let cp := Gen.MultiTan.global_crpix last.c1 last.c2 (Mosaic.ext last).1 (Mosaic.ext last).2.2.1 b.1 b.2.2.1
        s!"{sz.1} {sz.2} | {" ".intercalate pl} | {cp.1} {cp.2}"
      | _, _ => "empty"
    | none => "bad-op"
  | _ => "bad-op"

def handle (toks : List String) : String :=
  match toks with
  | "gen" :: op :: args => match ints args with
      | some a => handleGen op a
      | none => "bad-op"
  | "study" :: op :: args => match ints args with
      | some a => handleStudy op a
      | none => "bad-op"
  | "pyr" :: op :: args => handlePyr op args
  | "scan" :: op :: args => handleScan op args
  | "parity" :: op :: args => handleParity op args
  | "sampler" :: variant :: args => handleSampler variant args
  | "pub" :: op :: args => handlePub op args
  | "path" :: op :: args => handlePath op args
  | "px" :: op :: args => handlePx op args
  | "casc" :: op :: args => handleCasc op args
  | "range" :: args => handleRange args
  | "stage" :: args => handleStage args
  | "lock" :: args => handleLock args
  | "walk" :: args => handleWalk args
  | "toast" :: args => handleToast args
  | "sample" :: args => handleSample args
  | "filter" :: args => handleFilter args
  | "mosaic" :: args => handleMosaic args
  | _ => "bad-op"

end Driver
