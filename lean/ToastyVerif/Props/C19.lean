/-
C19 — An error while processing any tile is reported, never swallowed by parallelism.

How failures are handled is re-extracted from the five parallel code paths on every run
(`Gen/Stage`, `Gen/WalkWorker`): a worker catches the exception of the per-item work, sets a shared
error event and *continues its loop exactly as after a successful item*; the parent, after joining
its workers, raises when the event is set.  Because the control flow of a failing item coincides
with that of a successful one, every execution with failures projects onto an execution of the
failure-free protocol — so the safety theorems of C03 / C01 (all workers exit, the stage winds down,
nothing is left in the queues) carry over — and the outcome is decided by the error flag alone.
-/
import ToastyVerif.Model.Stage
import ToastyVerif.Props.C03
import ToastyVerif.Gen.WalkWorker
import ToastyVerif.Gen.Plumbing

namespace C19
open Stage

/-- the hand-off stage with failing callbacks -/
structure SE where
  base : S
  failed : List Nat            -- items whose processing raised, in order
  loadFailed : Bool := false   -- an input could not be loaded: the parent itself raised while producing
  outcome : Option Bool        -- `none`: the parent has not finished; `some true`: raised; `some false`: returned normally

inductive LE where
  | base (l : L)
  | cbFail (k i : Nat)         -- worker `k`'s callback raises on item `i`
  | check                      -- the parent, after joining the workers, looks at the error event
  | loadFail                   -- the parent's own iteration over the inputs raises (an image cannot be loaded)

def stepE (s : SE) : LE → Option SE
  | .base l => if s.outcome = none then (step s.base l).map (fun b => { s with base := b }) else none
  | .cbFail k i =>
    if s.outcome = none then (step s.base (.cb k i)).map (fun b => { s with base := b, failed := s.failed ++ [i] }) else none
  | .check =>
    if s.base.pc = .returned ∧ s.outcome = none then some { s with outcome := some (decide (s.failed ≠ [])) } else none
  | .loadFail =>
    -- the exception propagates out of the producing loop at once (the workers are daemons)
    if s.base.pc = .putting ∧ s.outcome = none then some { s with loadFailed := true, outcome := some true } else none

def runE (s : SE) : List LE → Option SE
  | [] => some s
  | l :: ls => match stepE s l with
    | some s' => runE s' ls
    | none => none

def proj : LE → List L
  | .base l => [l]
  | .cbFail k i => [.cb k i]
  | .check => []
  | .loadFail => []

def initE (n cap : Nat) (items : List Nat) : SE := { base := init n cap true items, failed := [], loadFailed := false, outcome := none }

theorem run_append' : ∀ (t1 t2 : List L) (a : S), run a (t1 ++ t2) = (run a t1).bind (fun b => run b t2) := by
  intro t1
  induction t1 with
  | nil => intro t2 a; rfl
  | cons x xs ih =>
    intro t2 a
    simp only [List.cons_append, run]
    cases hx : step a x with
    | none => rfl
    | some a1 => exact ih t2 a1

/-- every execution with failures is an execution of the failure-free protocol -/
theorem projects : ∀ (tr : List LE) (s s' : SE), runE s tr = some s' →
    run s.base (tr.flatMap proj) = some s'.base := by
  intro tr
  induction tr with
  | nil => intro s s' h; simp only [runE, Option.some.injEq] at h; subst h; rfl
  | cons l ls ih =>
    intro s s' h
    simp only [runE] at h
    split at h
    · rename_i s1 hs1
      have hrest := ih s1 s' h
      simp only [List.flatMap_cons, run_append']
      cases l with
      | base b =>
        simp only [stepE] at hs1
        split at hs1
        · cases hb : step s.base b with
          | none => simp [hb] at hs1
          | some b1 =>
            simp only [hb, Option.map_some, Option.some.injEq] at hs1
            subst hs1
            simp only [proj, run, hb]
            exact hrest
        · cases hs1
      | cbFail k i =>
        simp only [stepE] at hs1
        split at hs1
        · cases hb : step s.base (.cb k i) with
          | none => simp [hb] at hs1
          | some b1 =>
            simp only [hb, Option.map_some, Option.some.injEq] at hs1
            subst hs1
            simp only [proj, run, hb]
            exact hrest
        · cases hs1
      | check =>
        simp only [stepE] at hs1
        split at hs1
        · cases hs1
          simp only [proj, run]
          exact hrest
        · cases hs1
      | loadFail =>
        simp only [stepE] at hs1
        split at hs1
        · cases hs1
          simp only [proj, run]
          exact hrest
        · cases hs1
    · cases h

/-- hence the stage winds down as in C03: when the parent has decided its outcome, all workers have
exited, the queue is empty and every item was handed to a callback (failed or not) exactly as often
as it was produced -/
theorem winds_down (n cap : Nat) (items : List Nat) (hn : 0 < n) (tr : List LE) (s : SE)
    (hr : runE (initE n cap items) tr = some s) (hret : s.base.pc = .returned) :
    (∀ k, k < s.base.n → s.base.ws k = .exited) ∧ (s.base.processed.map Prod.fst).Perm items ∧ s.base.pipe = [] := by
  have hb : Reachable n cap true items s.base := ⟨tr.flatMap proj, projects tr _ s hr⟩
  exact ⟨C03.returned_all_exited n cap items hn s.base hb hret, (C03.stage_no_loss n cap items hn s.base hb hret).1,
    (C03.stage_no_loss n cap items hn s.base hb hret).2.1⟩

theorem failed_mono : ∀ (tr : List LE) (s s' : SE), runE s tr = some s' →
    (s.failed ≠ [] → s'.failed ≠ []) ∧
    (s.outcome ≠ none → s'.outcome = s.outcome ∧ s'.failed = s.failed ∧ s'.loadFailed = s.loadFailed) := by
  intro tr
  induction tr with
  | nil => intro s s' h; simp only [runE, Option.some.injEq] at h; subst h; exact ⟨id, fun _ => ⟨rfl, rfl, rfl⟩⟩
  | cons l ls ih =>
    intro s s' h
    simp only [runE] at h
    split at h
    · rename_i s1 hs1
      have hrest := ih s1 s' h
      cases l with
      | base b =>
        simp only [stepE] at hs1
        split at hs1
        · rename_i ho
          cases hb : step s.base b with
          | none => simp [hb] at hs1
          | some b1 =>
            simp only [hb, Option.map_some, Option.some.injEq] at hs1
            subst hs1
            exact ⟨hrest.1, fun hne => absurd ho hne⟩
        · cases hs1
      | cbFail k i =>
        simp only [stepE] at hs1
        split at hs1
        · rename_i ho
          cases hb : step s.base (.cb k i) with
          | none => simp [hb] at hs1
          | some b1 =>
            simp only [hb, Option.map_some, Option.some.injEq] at hs1
            subst hs1
            exact ⟨fun _ => hrest.1 (by simp), fun hne => absurd ho hne⟩
        · cases hs1
      | check =>
        simp only [stepE] at hs1
        split at hs1
        · rename_i hg
          cases hs1
          exact ⟨hrest.1, fun hne => absurd hg.2 hne⟩
        · cases hs1
      | loadFail =>
        simp only [stepE] at hs1
        split at hs1
        · rename_i hg
          cases hs1
          exact ⟨hrest.1, fun hne => absurd hg.2 hne⟩
        · cases hs1
    · cases h

/-- **error_visible**: in every execution (any workers, items, interleaving, any set of failing
callbacks, an input that cannot be loaded at any point of the production), once the parent has finished, it has
*raised* exactly when some callback failed or an input could not be loaded; it never returns normally after a failure. -/
theorem error_visible : ∀ (tr : List LE) (s s' : SE), s.outcome = none → s.loadFailed = false → runE s tr = some s' →
    ∀ r, s'.outcome = some r → (r = true ↔ (s'.failed ≠ [] ∨ s'.loadFailed = true)) := by
  intro tr
  induction tr with
  | nil => intro s s' ho _ h r hr; simp only [runE, Option.some.injEq] at h; subst h; rw [ho] at hr; cases hr
  | cons l ls ih =>
    intro s s' ho hlf h r hr
    simp only [runE] at h
    split at h
    · rename_i s1 hs1
      cases l with
      | base b =>
        simp only [stepE, ho, if_true] at hs1
        cases hb : step s.base b with
        | none => simp [hb] at hs1
        | some b1 =>
          simp only [hb, Option.map_some, Option.some.injEq] at hs1
          subst hs1
          exact ih { base := b1, failed := s.failed, loadFailed := s.loadFailed, outcome := none } s' rfl hlf h r hr
      | cbFail k i =>
        simp only [stepE, ho, if_true] at hs1
        cases hb : step s.base (.cb k i) with
        | none => simp [hb] at hs1
        | some b1 =>
          simp only [hb, Option.map_some, Option.some.injEq] at hs1
          subst hs1
          exact ih { base := b1, failed := s.failed ++ [i], loadFailed := s.loadFailed, outcome := none } s' rfl hlf h r hr
      | check =>
        simp only [stepE] at hs1
        split at hs1
        · cases hs1
          -- the outcome is fixed from here on
          have := (failed_mono ls _ s' h).2 (by simp)
          obtain ⟨e1, e2, e3⟩ := this
          simp only at e1 e2 e3
          rw [e1] at hr
          simp only [Option.some.injEq] at hr
          rw [e2, e3, hlf, ← hr]
          simp
        · cases hs1
      | loadFail =>
        simp only [stepE] at hs1
        split at hs1
        · cases hs1
          have := (failed_mono ls _ s' h).2 (by simp)
          obtain ⟨e1, e2, e3⟩ := this
          simp only at e1 e2 e3
          rw [e1] at hr
          simp only [Option.some.injEq] at hr
          rw [e3, ← hr]
          simp
        · cases hs1
    · cases h

/-- the five code paths handle a failing item this way (facts re-extracted from the source) -/
theorem code_reports_errors : Gen.Stage.visit_reports_errors = true ∧ Gen.Stage.transform_reports_errors = true ∧
    Gen.Stage.multi_tan_reports_errors = true ∧ Gen.Stage.multi_wcs_reports_errors = true ∧
    Gen.WalkWorker.reports_errors = true ∧ Gen.WalkWorker.loop_shape_ok = true ∧
    Gen.WalkWorker.raise_helper_raises_when_set = true ∧
    Gen.Stage.visit_producer_unguarded = true ∧ Gen.Stage.transform_producer_unguarded = true ∧
    Gen.Stage.multi_tan_producer_unguarded = true ∧ Gen.Stage.multi_wcs_producer_unguarded = true := by decide

/-! non-vacuity: one worker, two items, the first one fails -/
example : ∃ s, runE (initE 1 2 [4, 5])
    [.base (.start 0), .base (.begin 0), .base (.put 4), .base (.put 5), .base .flush, .base .flush, .base (.flagQ 0 false),
     .base (.rlock 0), .base (.recv 0 4), .cbFail 0 4, .base (.flagQ 0 false), .base (.rlock 0), .base (.recv 0 5),
     .base (.cb 0 5), .base .close, .base .joinThread, .base .setFlag, .base (.flagQ 0 true), .base (.rlock 0),
     .base (.empty 0), .base (.join 0), .check] = some s ∧ s.outcome = some true ∧ s.failed = [4] := ⟨_, rfl, rfl, rfl⟩

/-! non-vacuity: the second input cannot be loaded -/
example : ∃ s, runE (initE 2 2 [4, 5]) [.base (.start 0), .base (.start 1), .base (.put 4), .loadFail] = some s ∧
    s.outcome = some true ∧ s.failed = [] ∧ s.loadFailed = true := ⟨_, rfl, rfl, rfl, rfl⟩

/-- **entry_points**: the call sites through which this property's workflows reach the modelled functions have, in the source as
it is now, the argument plumbing the model assumes (facts re-extracted on every run, `Gen/Plumbing.lean`) -/
theorem entry_points : Gen.Plumbing.cli_entrypoint_lets_errors_out = true := by decide

end C19
