/-
C04 — TOAST tiles: documented layout, exact nesting, shared corners and edges, route independence.

Everything here is proved for an arbitrary point type `P` and an arbitrary midpoint operation
`mid`; the only property of `mid` that is ever assumed is commutativity (`hcomm`), and only where
two *different* tiles have to agree about a shared edge midpoint (the code writes `mid(ll, ul)` in
one tile and `mid(ur, lr)` in its neighbour).  The subdivision tables are `Gen.Toast.*`,
re-extracted from the source on every run; the lemmas of the first section are the obligations
that tie those tables to the shape the later proofs use.

Not provable here (and validated numerically by the harness instead): that `_mid` on floats is the
great-circle midpoint, and the tile areas (spherical trigonometry on floats).
-/
import ToastyVerif.Model.Toast
import ToastyVerif.Props.C13
import ToastyVerif.Gen.Plumbing

namespace C04
open Toast ToastBase

variable {P : Type} (mid : P → P → P) (vtx : Vtx → P) (pl : Bool)

theorem getD_eq_getElem' {α : Type} (l : List α) (d : α) {i : Nat} (h : i < l.length) : l.getD i d = l[i] := by
  simp [List.getD_eq_getElem?_getD, h]

/-! ### Obligations on the extracted tables -/

theorem childQuad_inc (q : Quad P) :
    childQuad mid true q 0 = ⟨q.ul, mid q.ul q.ur, mid q.ll q.ur, mid q.ll q.ul⟩ ∧
    childQuad mid true q 1 = ⟨mid q.ul q.ur, q.ur, mid q.ur q.lr, mid q.ll q.ur⟩ ∧
    childQuad mid true q 2 = ⟨mid q.ll q.ul, mid q.ll q.ur, mid q.lr q.ll, q.ll⟩ ∧
    childQuad mid true q 3 = ⟨mid q.ll q.ur, mid q.ur q.lr, q.lr, mid q.lr q.ll⟩ :=
  ⟨rfl, rfl, rfl, rfl⟩

theorem childQuad_dec (q : Quad P) :
    childQuad mid false q 0 = ⟨q.ul, mid q.ul q.ur, mid q.ul q.lr, mid q.ll q.ul⟩ ∧
    childQuad mid false q 1 = ⟨mid q.ul q.ur, q.ur, mid q.ur q.lr, mid q.ul q.lr⟩ ∧
    childQuad mid false q 2 = ⟨mid q.ll q.ul, mid q.ul q.lr, mid q.lr q.ll, q.ll⟩ ∧
    childQuad mid false q 3 = ⟨mid q.ul q.lr, mid q.ur q.lr, q.lr, mid q.lr q.ll⟩ :=
  ⟨rfl, rfl, rfl, rfl⟩

theorem div4_eq (t : Tile P) :
    div4 mid t = [⟨t.pos.child 0, childQuad mid t.inc t.q 0, t.inc⟩, ⟨t.pos.child 1, childQuad mid t.inc t.q 1, t.inc⟩,
                  ⟨t.pos.child 2, childQuad mid t.inc t.q 2, t.inc⟩, ⟨t.pos.child 3, childQuad mid t.inc t.q 3, t.inc⟩] := rfl

theorem div4_getD (t d : Tile P) (k : Nat) (hk : k < 4) :
    (div4 mid t).getD k d = ⟨t.pos.child k, childQuad mid t.inc t.q k, t.inc⟩ := by
  rw [div4_eq]
  have : k = 0 ∨ k = 1 ∨ k = 2 ∨ k = 3 := by omega
  rcases this with h | h | h | h <;> subst h <;> rfl

theorem div4_length (t : Tile P) : (div4 mid t).length = 4 := rfl

theorem mem_div4 (t c : Tile P) : c ∈ div4 mid t ↔ ∃ k, k < 4 ∧ c = ⟨t.pos.child k, childQuad mid t.inc t.q k, t.inc⟩ := by
  rw [div4_eq]
  constructor
  · intro h
    simp only [List.mem_cons, List.mem_nil_iff, or_false] at h
    rcases h with h | h | h | h
    · exact ⟨0, by omega, h⟩
    · exact ⟨1, by omega, h⟩
    · exact ⟨2, by omega, h⟩
    · exact ⟨3, by omega, h⟩
  · rintro ⟨k, hk, rfl⟩
    have : k = 0 ∨ k = 1 ∨ k = 2 ∨ k = 3 := by omega
    rcases this with h | h | h | h <;> subst h <;> simp

/-- the level-1 tiles are the four cells of the documented 3 × 3 layout (`grid1`): south pole at
the corners, north pole at the centre, equator on the diamond, longitude 0 on the right for the
astronomical and on the left for the planetary system, increasing counter-clockwise; the diagonal
is increasing in the quadrants (0,0) and (1,1) -/
theorem level1_layout :
    level1 vtx pl =
      [⟨⟨1, 0, 0⟩, ⟨vtx (grid1 pl 0 0), vtx (grid1 pl 1 0), vtx (grid1 pl 1 1), vtx (grid1 pl 0 1)⟩, true⟩,
       ⟨⟨1, 1, 0⟩, ⟨vtx (grid1 pl 1 0), vtx (grid1 pl 2 0), vtx (grid1 pl 2 1), vtx (grid1 pl 1 1)⟩, false⟩,
       ⟨⟨1, 0, 1⟩, ⟨vtx (grid1 pl 0 1), vtx (grid1 pl 1 1), vtx (grid1 pl 1 2), vtx (grid1 pl 0 2)⟩, false⟩,
       ⟨⟨1, 1, 1⟩, ⟨vtx (grid1 pl 1 1), vtx (grid1 pl 2 1), vtx (grid1 pl 2 2), vtx (grid1 pl 1 2)⟩, true⟩] := by
  cases pl <;> rfl

/-- longitudes around the equator of the square, counter-clockwise from the right-hand middle:
right, top, left, bottom = 0°, 90°, 180°, 270° (astronomical) and 180°, 270°, 0°, 90° (planetary) -/
theorem level1_longitudes :
    (grid1 false 2 1, grid1 false 1 0, grid1 false 0 1, grid1 false 1 2) = (.E0, .E90, .E180, .E270) ∧
    (grid1 true 2 1, grid1 true 1 0, grid1 true 0 1, grid1 true 1 2) = (.E180, .E270, .E0, .E90) := by
  decide

theorem level1_getD (k : Nat) (hk : k < 4) :
    (level1 vtx pl).getD k (dummy vtx) = ⟨⟨1, k % 2, k / 2⟩, cell mid vtx pl 1 (k % 2) (k / 2), incOf 1 (k % 2) (k / 2)⟩ := by
  rw [level1_layout]
  have : k = 0 ∨ k = 1 ∨ k = 2 ∨ k = 3 := by omega
  rcases this with h | h | h | h <;> subst h <;> rfl

/-! ### Positions and validity -/

def Good (t : Tile P) : Prop :=
  1 ≤ t.pos.n ∧ t.pos.valid ∧ t = tileAt mid vtx pl t.pos.n t.pos.x t.pos.y

theorem tileAt_succ (n x y : Nat) (hn : 1 ≤ n) :
    tileAt mid vtx pl (n + 1) x y =
      (div4 mid (tileAt mid vtx pl n (x / 2) (y / 2))).getD ((y % 2) * 2 + x % 2) (dummy vtx) := by
  obtain ⟨m, rfl⟩ : ∃ m, n = m + 1 := ⟨n - 1, by omega⟩
  rfl

theorem good_level1 (t : Tile P) (h : t ∈ level1 vtx pl) : Good mid vtx pl t := by
  rw [level1_layout] at h
  simp only [List.mem_cons, List.mem_nil_iff, or_false] at h
  rcases h with h | h | h | h <;> subst h <;>
    refine ⟨by simp, ⟨by simp, by simp⟩, ?_⟩ <;>
    simp only [tileAt] <;> rw [level1_layout] <;> rfl

theorem good_child (t : Tile P) (h : Good mid vtx pl t) (k : Nat) (hk : k < 4) :
    Good mid vtx pl ⟨t.pos.child k, childQuad mid t.inc t.q k, t.inc⟩ := by
  obtain ⟨hn, hv, ht⟩ := h
  refine ⟨by simp [Pos.child], ?_, ?_⟩
  · have := C13.child_valid t.pos k hk hv
    exact this
  · show _ = tileAt mid vtx pl (t.pos.n + 1) (2 * t.pos.x + k % 2) (2 * t.pos.y + k / 2)
    rw [tileAt_succ mid vtx pl _ _ _ hn]
    have e1 : (2 * t.pos.x + k % 2) / 2 = t.pos.x := by omega
    have e2 : (2 * t.pos.y + k / 2) / 2 = t.pos.y := by omega
    have e3 : ((2 * t.pos.y + k / 2) % 2) * 2 + (2 * t.pos.x + k % 2) % 2 = k := by omega
    rw [e1, e2, e3, ← ht, div4_getD mid t _ k hk]

theorem good_div4 (t : Tile P) (h : Good mid vtx pl t) (c : Tile P) (hc : c ∈ div4 mid t) : Good mid vtx pl c := by
  obtain ⟨k, hk, rfl⟩ := (mem_div4 mid t c).1 hc
  exact good_child mid vtx pl t h k hk

/-- every valid position carries a good tile: `tileAt` has the position it was asked for -/
theorem tileAt_good : ∀ (n x y : Nat), 1 ≤ n → x < 2 ^ n → y < 2 ^ n →
    Good mid vtx pl (tileAt mid vtx pl n x y) ∧ (tileAt mid vtx pl n x y).pos = ⟨n, x, y⟩ := by
  intro n
  induction n with
  | zero => intro x y h; omega
  | succ n ih =>
    intro x y _ hx hy
    by_cases hn : n = 0
    · subst hn
      have hx' : x < 2 := by simpa using hx
      have hy' : y < 2 := by simpa using hy
      have hm : tileAt mid vtx pl 1 x y ∈ level1 vtx pl := by
        simp only [tileAt]
        have hk : (y % 2) * 2 + x % 2 < (level1 vtx pl).length := by rw [level1_layout]; simp; omega
        rw [getD_eq_getElem' _ _ hk]
        exact List.getElem_mem _
      refine ⟨good_level1 mid vtx pl _ hm, ?_⟩
      simp only [tileAt]
      rw [level1_getD mid vtx pl _ (by omega)]
      have : ((y % 2) * 2 + x % 2) % 2 = x := by omega
      have : ((y % 2) * 2 + x % 2) / 2 = y := by omega
      simp [*]
    · have h1 : 1 ≤ n := by omega
      have hx2 : x / 2 < 2 ^ n := by rw [Nat.pow_succ] at hx; omega
      have hy2 : y / 2 < 2 ^ n := by rw [Nat.pow_succ] at hy; omega
      obtain ⟨hg, hp⟩ := ih (x / 2) (y / 2) h1 hx2 hy2
      rw [tileAt_succ mid vtx pl _ _ _ h1, div4_getD mid _ _ _ (by omega)]
      refine ⟨good_child mid vtx pl _ hg _ (by omega), ?_⟩
      rw [hp]
      simp only [Pos.child]
      have a1 : 2 * (x / 2) + ((y % 2) * 2 + x % 2) % 2 = x := by omega
      have a2 : 2 * (y / 2) + ((y % 2) * 2 + x % 2) / 2 = y := by omega
      rw [a1, a2]

/-! ### Route 1: `create_single_tile` returns `tileAt` -/

/-- the children list held by the loop after `c` levels have been consumed -/
def kids (n x y c : Nat) : List (Tile P) :=
  if c = 0 then level1 vtx pl else div4 mid (tileAt mid vtx pl c (x >>> (n - c)) (y >>> (n - c)))

theorem kids_length (n x y c : Nat) : (kids mid vtx pl n x y c).length = 4 := by
  unfold kids; split
  · rw [level1_layout]; rfl
  · rfl

theorem kids_pick (n x y c : Nat) (hc : c < n) :
    (kids mid vtx pl n x y c)[((y >>> (n - (c + 1))) &&& 1) * 2 + ((x >>> (n - (c + 1))) &&& 1)]? =
      some (tileAt mid vtx pl (c + 1) (x >>> (n - (c + 1))) (y >>> (n - (c + 1)))) := by
  have hx : (x >>> (n - (c + 1))) &&& 1 = (x >>> (n - (c + 1))) % 2 := Nat.and_one_is_mod _
  have hy : (y >>> (n - (c + 1))) &&& 1 = (y >>> (n - (c + 1))) % 2 := Nat.and_one_is_mod _
  rw [hx, hy]
  have hlt : ((y >>> (n - (c + 1))) % 2) * 2 + (x >>> (n - (c + 1))) % 2 < (kids mid vtx pl n x y c).length := by
    rw [kids_length]; omega
  rw [List.getElem?_eq_getElem hlt, ← getD_eq_getElem' _ (dummy vtx) hlt]
  congr 1
  by_cases h0 : c = 0
  · subst h0
    simp [kids, tileAt]
  · have h1 : 1 ≤ c := by omega
    simp only [kids, h0, if_false]
    rw [tileAt_succ mid vtx pl _ _ _ h1]
    have sx : (x >>> (n - (c + 1))) / 2 = x >>> (n - c) := by
      rw [Nat.shiftRight_eq_div_pow, Nat.shiftRight_eq_div_pow, Nat.div_div_eq_div_mul, ← Nat.pow_succ]
      congr 2; omega
    have sy : (y >>> (n - (c + 1))) / 2 = y >>> (n - c) := by
      rw [Nat.shiftRight_eq_div_pow, Nat.shiftRight_eq_div_pow, Nat.div_div_eq_div_mul, ← Nat.pow_succ]
      congr 2; omega
    rw [sx, sy]

theorem singleLoop_spec (n x y : Nat) : ∀ (fuel c : Nat), c < n → n - c ≤ fuel →
    singleLoop mid n x y fuel c (kids mid vtx pl n x y c) = some (tileAt mid vtx pl n x y) := by
  intro fuel
  induction fuel with
  | zero => intro c h1 h2; omega
  | succ f ih =>
    intro c hc hf
    simp only [singleLoop]
    rw [kids_pick mid vtx pl n x y c hc]
    simp only
    by_cases he : c + 1 = n
    · rw [if_pos he]
      subst he
      simp
    · rw [if_neg he]
      have := ih (c + 1) (by omega) (by omega)
      simpa [kids] using this

/-- **Route independence, single-tile construction.**  For every position with `n ≥ 1` (any `x`,
`y`; the code reads only their low `n` bits) `create_single_tile` returns the tile that the
recursive subdivision puts at that position. -/
theorem single_eq_tileAt (p : Pos) (h : 1 ≤ p.n) :
    single mid vtx pl p = some (tileAt mid vtx pl p.n p.x p.y) := by
  unfold single
  rw [if_neg (by omega)]
  have := singleLoop_spec mid vtx pl p.n p.x p.y p.n 0 (by omega) (by omega)
  simpa [kids] using this

theorem single_zero (p : Pos) (h : p.n = 0) : single mid vtx pl p = none := by
  simp [single, h]

/-! ### Routes 2 and 3: (filtered) enumeration -/

theorem postfixCorner_good (filter : Tile P → Bool) (bo : Bool) (depth : Nat) :
    ∀ (fuel : Nat) (t : Tile P), Good mid vtx pl t → ∀ u ∈ postfixCorner mid filter bo depth fuel t,
      Good mid vtx pl u ∧ u.pos.n ≤ depth := by
  intro fuel
  induction fuel with
  | zero => intro t _ u hu; simp [postfixCorner] at hu
  | succ f ih =>
    intro t ht u hu
    simp only [postfixCorner] at hu
    split at hu
    · simp at hu
    · split at hu
      · simp at hu
      · rw [List.mem_append] at hu
        rcases hu with hu | hu
        · rw [List.mem_flatMap] at hu
          obtain ⟨c, hc, hu⟩ := hu
          exact ih c (good_div4 mid vtx pl t ht c hc) u hu
        · split at hu
          · simp at hu; subst hu; exact ⟨ht, by omega⟩
          · simp at hu

/-- **Route independence, enumeration.**  Every tile yielded by `generate_tiles_filtered` (any
filter, either `bottom_only`, any depth, either coordinate system) is the tile `tileAt` puts at its
position; in particular it equals what `create_single_tile` returns for that position. -/
theorem generate_route (filter : Tile P → Bool) (bo : Bool) (depth : Nat) (u : Tile P)
    (hu : u ∈ generate mid vtx pl filter bo depth) :
    1 ≤ u.pos.n ∧ u.pos.n ≤ depth ∧ u.pos.valid ∧ u = tileAt mid vtx pl u.pos.n u.pos.x u.pos.y ∧
      single mid vtx pl u.pos = some u := by
  unfold generate at hu
  rw [List.mem_flatMap] at hu
  obtain ⟨t, ht, hu⟩ := hu
  have htg := good_level1 mid vtx pl t (List.mem_filter.1 ht).1
  obtain ⟨⟨h1, hv, he⟩, hd⟩ := postfixCorner_good mid vtx pl filter bo depth _ t htg u hu
  refine ⟨h1, hd, hv, he, ?_⟩
  rw [single_eq_tileAt mid vtx pl u.pos h1, ← he]

/-- the filter only prunes: the filtered enumeration is a sublist of the unfiltered one -/
theorem postfixCorner_sublist (filter : Tile P → Bool) (bo : Bool) (depth : Nat) :
    ∀ (fuel : Nat) (t : Tile P),
      (postfixCorner mid filter bo depth fuel t).Sublist (postfixCorner mid (fun _ => true) bo depth fuel t) := by
  intro fuel
  induction fuel with
  | zero => intro t; simp [postfixCorner]
  | succ f ih =>
    intro t
    simp only [postfixCorner]
    by_cases h1 : t.pos.n > depth
    · simp [h1]
    · by_cases h2 : t.pos.n > 1 ∧ filter t = false
      · simp [h1, h2]
      · have h3 : ¬ (t.pos.n > 1 ∧ (true = false)) := by simp
        rw [if_neg h1, if_neg h2, if_neg h1, if_neg h3]
        refine List.Sublist.append ?_ (List.Sublist.refl _)
        rw [div4_eq]
        simp only [List.flatMap_cons, List.flatMap_nil, List.append_nil]
        exact (ih _).append ((ih _).append ((ih _).append (ih _)))

theorem flatMap_filter_sublist {α β : Type} (l : List α) (f : α → Bool) (g g' : α → List β)
    (h : ∀ a, (g a).Sublist (g' a)) : ((l.filter f).flatMap g).Sublist (l.flatMap g') := by
  induction l with
  | nil => simp
  | cons a l ih =>
    simp only [List.filter_cons, List.flatMap_cons]
    split
    · simp only [List.flatMap_cons]; exact (h a).append ih
    · exact ih.trans (List.sublist_append_right _ _)

theorem generate_sublist (filter : Tile P → Bool) (bo : Bool) (depth : Nat) :
    (generate mid vtx pl filter bo depth).Sublist (generate mid vtx pl (fun _ => true) bo depth) := by
  unfold generate
  have : (level1 vtx pl).filter (fun _ => true) = level1 vtx pl := by simp
  rw [this]
  exact flatMap_filter_sublist _ _ _ _ (postfixCorner_sublist mid filter bo depth _)

/-! ### Route 4: the descent of `toast_tile_for_point` -/

/-- **Route independence and nesting, point lookup.**  Whatever child the containment scores select
at each level, after `k` levels of descent from a good tile `t` the tile in hand is the `tileAt`
tile of its position, `k` levels deeper, and a descendant of `t`. -/
theorem descend_good (choose : Tile P → Nat) : ∀ (k : Nat) (t : Tile P), Good mid vtx pl t →
    Good mid vtx pl (descend mid choose k t) ∧ (descend mid choose k t).pos.n = t.pos.n + k ∧
      (descend mid choose k t).pos.x / 2 ^ k = t.pos.x ∧ (descend mid choose k t).pos.y / 2 ^ k = t.pos.y ∧
      (descend mid choose k t).inc = t.inc := by
  intro k
  induction k with
  | zero => intro t ht; simp [descend, ht]
  | succ k ih =>
    intro t ht
    simp only [descend]
    have hk : choose t % 4 < 4 := Nat.mod_lt _ (by omega)
    rw [div4_getD mid t t _ hk]
    obtain ⟨g, hn, hx, hy, hi⟩ := ih _ (good_child mid vtx pl t ht _ hk)
    refine ⟨g, ?_, ?_, ?_, hi⟩
    · rw [hn]; simp [Pos.child]; omega
    · have : (descend mid choose k ⟨t.pos.child (choose t % 4), childQuad mid t.inc t.q (choose t % 4), t.inc⟩).pos.x / 2 ^ (k + 1)
          = ((descend mid choose k ⟨t.pos.child (choose t % 4), childQuad mid t.inc t.q (choose t % 4), t.inc⟩).pos.x / 2 ^ k) / 2 := by
        rw [Nat.pow_succ, Nat.div_div_eq_div_mul]
      rw [this, hx]; simp [Pos.child]; omega
    · have : (descend mid choose k ⟨t.pos.child (choose t % 4), childQuad mid t.inc t.q (choose t % 4), t.inc⟩).pos.y / 2 ^ (k + 1)
          = ((descend mid choose k ⟨t.pos.child (choose t % 4), childQuad mid t.inc t.q (choose t % 4), t.inc⟩).pos.y / 2 ^ k) / 2 := by
        rw [Nat.pow_succ, Nat.div_div_eq_div_mul]
      rw [this, hy]; simp [Pos.child]; omega

/-- one more level of lookup refines the previous answer: `lookup (d+1)` is a child of `lookup d` -/
theorem descend_succ (choose : Tile P → Nat) : ∀ (k : Nat) (t : Tile P),
    descend mid choose (k + 1) t =
      (div4 mid (descend mid choose k t)).getD (choose (descend mid choose k t) % 4) (descend mid choose k t) := by
  intro k
  induction k with
  | zero => intro t; rfl
  | succ k ih => intro t; rw [descend, ih]; rfl

/-! ### The global vertex grid: shared corners, shared edges, exact nesting -/

theorem V_succ (n i j : Nat) (hn : 1 ≤ n) :
    V mid vtx pl (n + 1) i j =
      (if i % 2 = 0 then
        if j % 2 = 0 then V mid vtx pl n (i / 2) (j / 2) else mid (V mid vtx pl n (i / 2) (j / 2 + 1)) (V mid vtx pl n (i / 2) (j / 2))
      else
        if j % 2 = 0 then mid (V mid vtx pl n (i / 2) (j / 2)) (V mid vtx pl n (i / 2 + 1) (j / 2))
        else if incOf n (i / 2) (j / 2) then mid (V mid vtx pl n (i / 2) (j / 2 + 1)) (V mid vtx pl n (i / 2 + 1) (j / 2))
        else mid (V mid vtx pl n (i / 2) (j / 2)) (V mid vtx pl n (i / 2 + 1) (j / 2 + 1))) := by
  obtain ⟨m, rfl⟩ : ∃ m, n = m + 1 := ⟨n - 1, by omega⟩
  rfl

/-- a vertex of the level-`n` grid is a vertex of every deeper grid (**exact nesting of corners**) -/
theorem V_ee (n a b : Nat) (hn : 1 ≤ n) : V mid vtx pl (n + 1) (2 * a) (2 * b) = V mid vtx pl n a b := by
  rw [V_succ mid vtx pl n _ _ hn]
  have : 2 * a % 2 = 0 := by omega
  have : 2 * b % 2 = 0 := by omega
  have : 2 * a / 2 = a := by omega
  have : 2 * b / 2 = b := by omega
  simp [*]

/-- the new vertex on a horizontal edge is the midpoint of that edge's end points (**shared edges
across depths**: the two half-edges lie on the parent's edge) -/
theorem V_oe (n a b : Nat) (hn : 1 ≤ n) :
    V mid vtx pl (n + 1) (2 * a + 1) (2 * b) = mid (V mid vtx pl n a b) (V mid vtx pl n (a + 1) b) := by
  rw [V_succ mid vtx pl n _ _ hn]
  have : (2 * a + 1) % 2 = 1 := by omega
  have : 2 * b % 2 = 0 := by omega
  have : (2 * a + 1) / 2 = a := by omega
  have : 2 * b / 2 = b := by omega
  simp [*]

theorem V_eo (n a b : Nat) (hn : 1 ≤ n) :
    V mid vtx pl (n + 1) (2 * a) (2 * b + 1) = mid (V mid vtx pl n a (b + 1)) (V mid vtx pl n a b) := by
  rw [V_succ mid vtx pl n _ _ hn]
  have : (2 * b + 1) % 2 = 1 := by omega
  have : 2 * a % 2 = 0 := by omega
  have : (2 * b + 1) / 2 = b := by omega
  have : 2 * a / 2 = a := by omega
  simp [*]

theorem V_oo (n a b : Nat) (hn : 1 ≤ n) :
    V mid vtx pl (n + 1) (2 * a + 1) (2 * b + 1) =
      if incOf n a b then mid (V mid vtx pl n a (b + 1)) (V mid vtx pl n (a + 1) b)
      else mid (V mid vtx pl n a b) (V mid vtx pl n (a + 1) (b + 1)) := by
  rw [V_succ mid vtx pl n _ _ hn]
  have : (2 * b + 1) % 2 = 1 := by omega
  have : (2 * a + 1) % 2 = 1 := by omega
  have : (2 * b + 1) / 2 = b := by omega
  have : (2 * a + 1) / 2 = a := by omega
  simp [*]

theorem V_e0 (n a : Nat) (hn : 1 ≤ n) : V mid vtx pl (n + 1) (2 * a) 0 = V mid vtx pl n a 0 := by
  simpa using V_ee mid vtx pl n a 0 hn

theorem V_0e (n b : Nat) (hn : 1 ≤ n) : V mid vtx pl (n + 1) 0 (2 * b) = V mid vtx pl n 0 b := by
  simpa using V_ee mid vtx pl n 0 b hn

theorem V_o0 (n a : Nat) (hn : 1 ≤ n) :
    V mid vtx pl (n + 1) (2 * a + 1) 0 = mid (V mid vtx pl n a 0) (V mid vtx pl n (a + 1) 0) := by
  simpa using V_oe mid vtx pl n a 0 hn

theorem V_0o (n b : Nat) (hn : 1 ≤ n) :
    V mid vtx pl (n + 1) 0 (2 * b + 1) = mid (V mid vtx pl n 0 (b + 1)) (V mid vtx pl n 0 b) := by
  simpa using V_eo mid vtx pl n 0 b hn

theorem incOf_succ (n x y : Nat) (hn : 1 ≤ n) : incOf (n + 1) x y = incOf n (x / 2) (y / 2) := by
  unfold incOf
  have e : ∀ z : Nat, (z / 2) >>> (n - 1) = z >>> (n + 1 - 1) := by
    intro z
    rw [Nat.shiftRight_eq_div_pow, Nat.shiftRight_eq_div_pow, Nat.div_div_eq_div_mul]
    congr 1
    have : n + 1 - 1 = (n - 1) + 1 := by omega
    rw [this, Nat.pow_succ, Nat.mul_comm]
  rw [e, e]

set_option linter.unusedSimpArgs false in
/-- **The tiles of a level are the cells of one vertex grid.**  Under commutativity of the midpoint,
the tile at `(n, x, y)` has corners `V n x y`, `V n (x+1) y`, `V n (x+1) (y+1)`, `V n x (y+1)` and
the diagonal orientation of its level-1 quadrant. -/
theorem tileAt_cell (hcomm : ∀ a b, mid a b = mid b a) : ∀ (n x y : Nat), 1 ≤ n → x < 2 ^ n → y < 2 ^ n →
    (tileAt mid vtx pl n x y).q = cell mid vtx pl n x y ∧ (tileAt mid vtx pl n x y).inc = incOf n x y := by
  intro n
  induction n with
  | zero => intro x y h; omega
  | succ n ih =>
    intro x y _ hx hy
    by_cases hn : n = 0
    · subst hn
      have hx' : x < 2 := by simpa using hx
      have hy' : y < 2 := by simpa using hy
      simp only [tileAt]
      rw [level1_getD mid vtx pl _ (by omega)]
      have e1 : ((y % 2) * 2 + x % 2) % 2 = x := by omega
      have e2 : ((y % 2) * 2 + x % 2) / 2 = y := by omega
      simp [e1, e2]
    · have h1 : 1 ≤ n := by omega
      have hx2 : x / 2 < 2 ^ n := by rw [Nat.pow_succ] at hx; omega
      have hy2 : y / 2 < 2 ^ n := by rw [Nat.pow_succ] at hy; omega
      obtain ⟨hq, hi⟩ := ih (x / 2) (y / 2) h1 hx2 hy2
      rw [tileAt_succ mid vtx pl _ _ _ h1, div4_getD mid _ _ _ (by omega)]
      simp only
      rw [hq, hi, incOf_succ n x y h1]
      refine ⟨?_, rfl⟩
      generalize hinc : incOf n (x / 2) (y / 2) = inc
      obtain ⟨a, rx, hrx, rfl⟩ : ∃ a r, r < 2 ∧ x = 2 * a + r := ⟨x / 2, x % 2, by omega, by omega⟩
      obtain ⟨b, ry, hry, rfl⟩ : ∃ b r, r < 2 ∧ y = 2 * b + r := ⟨y / 2, y % 2, by omega, by omega⟩
      have ea : (2 * a + rx) / 2 = a := by omega
      have eb : (2 * b + ry) / 2 = b := by omega
      have ek : (2 * b + ry) % 2 * 2 + (2 * a + rx) % 2 = ry * 2 + rx := by omega
      rw [ea, eb] at hinc ⊢
      rw [ek]
      have s1 : 2 * a + 1 + 1 = 2 * (a + 1) := by omega
      have s2 : 2 * b + 1 + 1 = 2 * (b + 1) := by omega
      have s3 : 2 * a + 0 = 2 * a := by omega
      have s4 : 2 * b + 0 = 2 * b := by omega
      have cUL := hcomm
      have rx2 : rx = 0 ∨ rx = 1 := by omega
      have ry2 : ry = 0 ∨ ry = 1 := by omega
      rcases rx2 with rfl | rfl <;> rcases ry2 with rfl | rfl <;> cases inc <;>
        simp only [cell, s1, s2, s3, s4, V_ee mid vtx pl n _ _ h1, V_oe mid vtx pl n _ _ h1,
          V_eo mid vtx pl n _ _ h1, V_oo mid vtx pl n _ _ h1, hinc, Quad.mk.injEq,
          (childQuad_inc mid _).1, (childQuad_inc mid _).2.1, (childQuad_inc mid _).2.2.1, (childQuad_inc mid _).2.2.2,
          (childQuad_dec mid _).1, (childQuad_dec mid _).2.1, (childQuad_dec mid _).2.2.1, (childQuad_dec mid _).2.2.2,
          Nat.reduceMul, Nat.reduceAdd, Nat.zero_mod, Nat.zero_add, Nat.mul_zero, Nat.add_zero, Nat.one_mod, Nat.zero_mul, Nat.one_mul, if_true,
          Bool.false_eq_true, if_false, true_and, and_true] <;>
        first
          | trivial
          | (refine ⟨?_, ?_⟩ <;> first | rfl | exact hcomm _ _)
          | (refine ⟨?_, ?_, ?_⟩ <;> first | rfl | exact hcomm _ _)
          | (refine ⟨?_, ?_, ?_, ?_⟩ <;> first | rfl | exact hcomm _ _)
          | exact hcomm _ _

/-- **Neighbouring tiles of one level share their corner points** (hence the great-circle edge
between them): the right-hand neighbour's left edge is this tile's right edge, the lower
neighbour's top edge is this tile's bottom edge. -/
theorem neighbours_share (hcomm : ∀ a b, mid a b = mid b a) (n x y : Nat) (hn : 1 ≤ n) (hx : x + 1 < 2 ^ n) (hy : y + 1 < 2 ^ n) :
    (tileAt mid vtx pl n x y).q.ur = (tileAt mid vtx pl n (x + 1) y).q.ul ∧
    (tileAt mid vtx pl n x y).q.lr = (tileAt mid vtx pl n (x + 1) y).q.ll ∧
    (tileAt mid vtx pl n x y).q.ll = (tileAt mid vtx pl n x (y + 1)).q.ul ∧
    (tileAt mid vtx pl n x y).q.lr = (tileAt mid vtx pl n x (y + 1)).q.ur ∧
    (tileAt mid vtx pl n x y).q.lr = (tileAt mid vtx pl n (x + 1) (y + 1)).q.ul := by
  rw [(tileAt_cell mid vtx pl hcomm n x y hn (by omega) (by omega)).1,
    (tileAt_cell mid vtx pl hcomm n (x + 1) y hn (by omega) (by omega)).1,
    (tileAt_cell mid vtx pl hcomm n x (y + 1) hn (by omega) (by omega)).1,
    (tileAt_cell mid vtx pl hcomm n (x + 1) (y + 1) hn (by omega) (by omega)).1]
  simp [cell]

/-- **Each tile is exactly tiled by its four children**: the children's outer corners are the
parent's corners, the other outer corners are the midpoints of the parent's edges (so each child edge
lies on a parent edge), and the four children meet in one point, the midpoint of the parent's diagonal. -/
theorem children_tile_parent (hcomm : ∀ a b, mid a b = mid b a) (n x y : Nat) (hn : 1 ≤ n) (hx : x < 2 ^ n) (hy : y < 2 ^ n) :
    let p := (tileAt mid vtx pl n x y).q
    let c0 := (tileAt mid vtx pl (n + 1) (2 * x) (2 * y)).q
    let c1 := (tileAt mid vtx pl (n + 1) (2 * x + 1) (2 * y)).q
    let c2 := (tileAt mid vtx pl (n + 1) (2 * x) (2 * y + 1)).q
    let c3 := (tileAt mid vtx pl (n + 1) (2 * x + 1) (2 * y + 1)).q
    c0.ul = p.ul ∧ c1.ur = p.ur ∧ c3.lr = p.lr ∧ c2.ll = p.ll ∧
    c0.ur = mid p.ul p.ur ∧ c1.ul = mid p.ul p.ur ∧
    c1.lr = mid p.ur p.lr ∧ c3.ur = mid p.ur p.lr ∧
    c3.ll = mid p.lr p.ll ∧ c2.lr = mid p.lr p.ll ∧
    c2.ul = mid p.ll p.ul ∧ c0.ll = mid p.ll p.ul ∧
    c0.lr = c1.ll ∧ c0.lr = c2.ur ∧ c0.lr = c3.ul ∧
    c0.lr = (if incOf n x y then mid p.ll p.ur else mid p.ul p.lr) := by
  have hp : (2 : Nat) ^ (n + 1) = 2 * 2 ^ n := by rw [Nat.pow_succ, Nat.mul_comm]
  intro p c0 c1 c2 c3
  have e0 := (tileAt_cell mid vtx pl hcomm (n + 1) (2 * x) (2 * y) (by omega) (by omega) (by omega)).1
  have e1 := (tileAt_cell mid vtx pl hcomm (n + 1) (2 * x + 1) (2 * y) (by omega) (by omega) (by omega)).1
  have e2 := (tileAt_cell mid vtx pl hcomm (n + 1) (2 * x) (2 * y + 1) (by omega) (by omega) (by omega)).1
  have e3 := (tileAt_cell mid vtx pl hcomm (n + 1) (2 * x + 1) (2 * y + 1) (by omega) (by omega) (by omega)).1
  have ep := (tileAt_cell mid vtx pl hcomm n x y hn hx hy).1
  have s1 : 2 * x + 1 + 1 = 2 * (x + 1) := by omega
  have s2 : 2 * y + 1 + 1 = 2 * (y + 1) := by omega
  simp only [p, c0, c1, c2, c3, e0, e1, e2, e3, ep, cell, s1, s2, V_ee mid vtx pl n _ _ hn, V_oe mid vtx pl n _ _ hn,
    V_eo mid vtx pl n _ _ hn, V_oo mid vtx pl n _ _ hn, true_and, and_true]
  and_intros <;> first | rfl | exact hcomm _ _ | (split <;> first | rfl | exact hcomm _ _)

/-- a vertex of level `n` is a vertex of every deeper level: **tiles at different depths share the
same corner points** -/
theorem V_pow (n i j : Nat) (hn : 1 ≤ n) : ∀ k : Nat,
    V mid vtx pl (n + k) (2 ^ k * i) (2 ^ k * j) = V mid vtx pl n i j := by
  intro k
  induction k with
  | zero => simp
  | succ k ih =>
    have e1 : 2 ^ (k + 1) * i = 2 * (2 ^ k * i) := by rw [Nat.pow_succ]; ac_rfl
    have e2 : 2 ^ (k + 1) * j = 2 * (2 ^ k * j) := by rw [Nat.pow_succ]; ac_rfl
    have e3 : n + (k + 1) = (n + k) + 1 := by omega
    rw [e1, e2, e3, V_ee mid vtx pl (n + k) _ _ (by omega), ih]

/-- **The outer edges of the square are glued pairwise**: each side of the square is folded at its
middle (an equator point) onto itself, so the tiles on the boundary of the square share their
boundary vertices and edges too and the tiling closes up to a sphere with the south pole at the four corners. -/
theorem outer_edges_glued (hcomm : ∀ a b, mid a b = mid b a) : ∀ (n : Nat), 1 ≤ n → ∀ i, i ≤ 2 ^ n →
    V mid vtx pl n i 0 = V mid vtx pl n (2 ^ n - i) 0 ∧
    V mid vtx pl n i (2 ^ n) = V mid vtx pl n (2 ^ n - i) (2 ^ n) ∧
    V mid vtx pl n 0 i = V mid vtx pl n 0 (2 ^ n - i) ∧
    V mid vtx pl n (2 ^ n) i = V mid vtx pl n (2 ^ n) (2 ^ n - i) := by
  intro n
  induction n with
  | zero => intro h; omega
  | succ n ih =>
    intro _ i hi
    by_cases hn : n = 0
    · subst hn
      have : i = 0 ∨ i = 1 ∨ i = 2 := by simp at hi; omega
      rcases this with h | h | h <;> subst h <;> simp [V, grid1]
    · have h1 : 1 ≤ n := by omega
      have hp : (2 : Nat) ^ (n + 1) = 2 * 2 ^ n := by rw [Nat.pow_succ, Nat.mul_comm]
      rw [hp] at hi ⊢
      obtain ⟨a, r, hr, rfl⟩ : ∃ a r, r < 2 ∧ i = 2 * a + r := ⟨i / 2, i % 2, by omega, by omega⟩
      have r2 : r = 0 ∨ r = 1 := by omega
      rcases r2 with rfl | rfl
      · have ha : a ≤ 2 ^ n := by omega
        have e : 2 * 2 ^ n - (2 * a + 0) = 2 * (2 ^ n - a) := by omega
        obtain ⟨g1, g2, g3, g4⟩ := ih h1 a ha
        simp only [Nat.add_zero] at e ⊢
        rw [e]
        refine ⟨?_, ?_, ?_, ?_⟩
        · rw [V_e0 mid vtx pl n _ h1, V_e0 mid vtx pl n _ h1]; exact g1
        · rw [V_ee mid vtx pl n _ _ h1, V_ee mid vtx pl n _ _ h1]; exact g2
        · rw [V_0e mid vtx pl n _ h1, V_0e mid vtx pl n _ h1]; exact g3
        · rw [V_ee mid vtx pl n _ _ h1, V_ee mid vtx pl n _ _ h1]; exact g4
      · have ha : a + 1 ≤ 2 ^ n := by omega
        have e : 2 * 2 ^ n - (2 * a + 1) = 2 * (2 ^ n - (a + 1)) + 1 := by omega
        have e' : 2 ^ n - (a + 1) + 1 = 2 ^ n - a := by omega
        obtain ⟨g1, g2, g3, g4⟩ := ih h1 a (by omega)
        obtain ⟨k1, k2, k3, k4⟩ := ih h1 (a + 1) ha
        rw [e]
        refine ⟨?_, ?_, ?_, ?_⟩
        · rw [V_o0 mid vtx pl n _ h1, V_o0 mid vtx pl n _ h1, e', g1, k1]; exact hcomm _ _
        · rw [V_oe mid vtx pl n _ _ h1, V_oe mid vtx pl n _ _ h1, e', g2, k2]; exact hcomm _ _
        · rw [V_0o mid vtx pl n _ h1, V_0o mid vtx pl n _ h1, e', g3, k3]; exact hcomm _ _
        · rw [V_eo mid vtx pl n _ _ h1, V_eo mid vtx pl n _ _ h1, e', g4, k4]; exact hcomm _ _

/-! ### The planetary system is the astronomical one rotated by 180° in longitude -/

def rot180 : Vtx → Vtx
  | .E0 => .E180 | .E90 => .E270 | .E180 => .E0 | .E270 => .E90 | .N => .N | .S => .S

def Quad.map {Q : Type} (r : P → Q) (q : Quad P) : Quad Q := ⟨r q.ul, r q.ur, r q.lr, r q.ll⟩

theorem grid1_planetary (i j : Nat) : grid1 true i j = rot180 (grid1 false i j) := by
  unfold grid1; split <;> rfl

/-- for every map `r` of points that commutes with the midpoint operation and acts on the octahedron
vertices as the half-turn about the polar axis, the planetary vertex grid is the image of the
astronomical one: same tile positions, same orientation, longitudes shifted by 180° -/
theorem planetary_is_rotation (r : P → P) (hr : ∀ a b, r (mid a b) = mid (r a) (r b))
    (hv : ∀ v, r (vtx v) = vtx (rot180 v)) : ∀ (n i j : Nat), 1 ≤ n →
    V mid vtx true n i j = r (V mid vtx false n i j) := by
  intro n
  induction n with
  | zero => intro i j h; omega
  | succ n ih =>
    intro i j _
    by_cases hn : n = 0
    · subst hn
      simp only [V]
      rw [hv, grid1_planetary]
    · have h1 : 1 ≤ n := by omega
      rw [V_succ mid vtx true n i j h1, V_succ mid vtx false n i j h1]
      split <;> split <;> (try split) <;> simp only [hr, ih _ _ h1]

/-! ### The enumeration visits the positions of the pyramid model (C13), each exactly once -/

theorem postorderT_true : ∀ (f : Nat) (p : Pos), Pyr.postorderT (fun _ => true) f p = Pyr.postorder f p := by
  intro f
  induction f with
  | zero => intro p; rfl
  | succ f ih => intro p; simp [Pyr.postorderT, Pyr.postorder, ih]

theorem genToast_true (depth : Nat) : Pyr.genToast depth (fun _ => true) = Pyr.genPos depth := by
  simp [Pyr.genToast, Pyr.genPos, Pyr.level1, Pyr.postorder, postorderT_true, Pos.child, Pos.root]

/-- the position filter induced by a tile filter: the filter is a function of the tile, and the tile
is a function of its position -/
def accOf (filter : Tile P → Bool) (p : Pos) : Bool := filter (tileAt mid vtx pl p.n p.x p.y)

theorem postfixCorner_positions (filter : Tile P → Bool) (depth : Nat) : ∀ (f : Nat) (t : Tile P),
    Good mid vtx pl t → t.pos.n + f = depth + 1 →
    (postfixCorner mid filter false depth (f + 1) t).map (·.pos) = Pyr.postorderT (accOf mid vtx pl filter) f t.pos := by
  intro f
  induction f with
  | zero =>
    intro t _ hn
    simp only [postfixCorner, Pyr.postorderT]
    rw [if_pos (by omega)]; rfl
  | succ f ih =>
    intro t ht hn
    have hacc : accOf mid vtx pl filter t.pos = filter t := by unfold accOf; rw [← ht.2.2]
    rw [postfixCorner, Pyr.postorderT]
    rw [if_neg (by omega), hacc]
    by_cases hc : t.pos.n > 1 ∧ filter t = false
    · rw [if_pos hc, if_pos hc]; rfl
    · rw [if_neg hc, if_neg hc, div4_eq]
      have g := fun k hk => ih _ (good_child mid vtx pl t ht k hk) (by simp [Pos.child]; omega)
      have g0 := g 0 (by omega)
      have g1 := g 1 (by omega)
      have g2 := g 2 (by omega)
      have g3 := g 3 (by omega)
      simp only at g0 g1 g2 g3
      simp only [List.flatMap_cons, List.flatMap_nil, List.append_nil, List.map_append, g0, g1, g2, g3,
        or_true, if_true, List.map_cons, List.map_nil, List.append_assoc]

/-- **The enumeration visits the positions the pyramid model says** (`Pyr.genToast`, the generator
whose order, completeness and uniqueness C13 and C01 reason about). -/
theorem generate_positions (filter : Tile P → Bool) (depth : Nat) :
    (generate mid vtx pl filter false depth).map (·.pos) ++ [Pos.root] =
      Pyr.genToast depth (accOf mid vtx pl filter) := by
  unfold generate Pyr.genToast
  congr 1
  have hl : ∀ (l : List (Tile P)), (∀ t ∈ l, Good mid vtx pl t ∧ t.pos.n = 1) →
      ((l.filter filter).flatMap (postfixCorner mid filter false depth (depth + 1))).map (·.pos) =
        ((l.map (·.pos)).filter (accOf mid vtx pl filter)).flatMap (Pyr.postorderT (accOf mid vtx pl filter) depth) := by
    intro l
    induction l with
    | nil => intro _; rfl
    | cons t l ih =>
      intro h
      obtain ⟨ht, hn⟩ := h t (by simp)
      have hacc : accOf mid vtx pl filter t.pos = filter t := by unfold accOf; rw [← ht.2.2]
      have ih' := ih (fun u hu => h u (by simp [hu]))
      simp only [List.filter_cons, List.map_cons, hacc]
      split
      · simp only [List.flatMap_cons, List.map_append, ih']
        rw [postfixCorner_positions mid vtx pl filter depth depth t ht (by omega)]
      · exact ih'
  have hlv : (level1 vtx pl).map (·.pos) = Pyr.level1 := by rw [level1_layout]; rfl
  rw [hl _ (fun t ht => ⟨good_level1 mid vtx pl t ht, by
    rw [level1_layout] at ht
    simp only [List.mem_cons, List.mem_nil_iff, or_false] at ht
    rcases ht with h | h | h | h <;> subst h <;> rfl⟩), hlv]

/-- **Every depth has its `4^n` tiles, each once.**  The unfiltered enumeration (`bottom_only = False`)
yields, at every level `1 ≤ n ≤ depth`, every valid position exactly once; with `generate_route`,
the tile yielded at a position is `tileAt` of it. -/
theorem generate_all_positions (depth : Nat) (p : Pos) :
    (p ∈ (generate mid vtx pl (fun _ => true) false depth).map (·.pos) ↔ 1 ≤ p.n ∧ p.n ≤ depth ∧ p.valid) ∧
    ((generate mid vtx pl (fun _ => true) false depth).map (·.pos)).Nodup := by
  have h := generate_positions mid vtx pl (fun _ => true) depth
  have hacc : accOf mid vtx pl (fun _ => true) = fun _ => true := rfl
  rw [hacc, genToast_true] at h
  have hm := C13.mem_genPos depth
  have hnd := C13.nodup_genPos depth
  rw [← h] at hm hnd
  constructor
  · have := hm p
    simp only [List.mem_append, List.mem_cons, List.mem_nil_iff, or_false] at this
    constructor
    · intro hp
      obtain ⟨u, hu, rfl⟩ := List.mem_map.1 hp
      have := generate_route mid vtx pl (fun _ => true) false depth u hu
      exact ⟨this.1, this.2.1, this.2.2.1⟩
    · rintro ⟨h1, h2, h3⟩
      rcases this.2 ⟨h2, h3⟩ with h | h
      · exact h
      · subst h; simp [Pos.root] at h1
  · exact (List.nodup_append.1 hnd).1

/-- `bottom_only = True` keeps exactly the tiles of the last level, in the same order -/
theorem postfixCorner_bottom (filter : Tile P → Bool) (depth : Nat) : ∀ (f : Nat) (t : Tile P),
    postfixCorner mid filter true depth f t =
      (postfixCorner mid filter false depth f t).filter (fun u => u.pos.n == depth) := by
  intro f
  induction f with
  | zero => intro t; rfl
  | succ f ih =>
    intro t
    simp only [postfixCorner]
    split
    · rfl
    · split
      · rfl
      · rw [div4_eq]
        simp only [List.flatMap_cons, List.flatMap_nil, List.append_nil, List.filter_append, ih,
          or_true, if_true, Bool.true_eq_false, or_false]
        by_cases hd : t.pos.n = depth <;> simp [hd, List.filter_cons]

/-! ### non-vacuity: a commutative midpoint exists, and the theorems say something concrete about it -/

/-- points = natural numbers, midpoint = sum (commutative), the six vertices numbered 1, 2, 4, 8, 16, 32 -/
def vtxN : Vtx → Nat
  | .N => 1 | .S => 2 | .E0 => 4 | .E90 => 8 | .E180 => 16 | .E270 => 32

example : ∀ a b : Nat, a + b = b + a := Nat.add_comm

/-- the tile at (2, 1, 3) of the astronomical system, by the recursive definition, by `create_single_tile`, and as a grid cell -/
example : (tileAt (· + ·) vtxN false 2 1 3).q = ⟨48, 33, 32, 34⟩ ∧
    single (· + ·) vtxN false ⟨2, 1, 3⟩ = some (tileAt (· + ·) vtxN false 2 1 3) ∧
    cell (· + ·) vtxN false 2 1 3 = ⟨48, 33, 32, 34⟩ := by decide

/-- the enumeration of depth 2 yields 16 + 4 tiles, the bottom-only one 16 -/
example : (generate (· + ·) vtxN true (fun _ => true) false 2).length = 20 ∧
    (generate (· + ·) vtxN true (fun _ => true) true 2).length = 16 := by decide

/-- **entry_points**: the call sites through which this property's workflows reach the modelled functions have, in the source as
it is now, the argument plumbing the model assumes (facts re-extracted on every run, `Gen/Plumbing.lean`) -/
theorem entry_points : Gen.Plumbing.pyramid_generator_forwards_coordsys = true ∧ Gen.Plumbing.builder_toast_base_forwards_coordsys = true := by decide

end C04
