/-
C07 — tile filters never drop a tile that holds data: the decision logic.

Part 1: `_tile_intersects_latlon_bbox` in exact arithmetic has no false negatives with respect to
the tile's own corner bounding box (latitude range of the corners; longitude range of the corners
after the code's unwrapping), for every bounding box — any longitude origin, any width, wrap-around
included.  Part 2: the chunks of a chunked map partition its pixels, each chunk's sampler keeps
exactly the sky positions whose whole-map pixel lies in the chunk and reads the same pixel, and a
chunk's bounds contain all its pixel centres.  Part 3: the shape of the image-bounds refinement.

Outside the model (validated numerically by the harness): that a tile's pixel centres lie within its
corner bounding box, and astropy's WCS evaluations in `_image_bounds`.
-/
import ToastyVerif.Model.Filter
import ToastyVerif.Gen.Filter
import ToastyVerif.Lemmas.RatArith
import ToastyVerif.Gen.Samplers
import ToastyVerif.Gen.Plumbing

namespace C07
open Filter

/-! ### Part 1: the bounding-box test -/

def Sorted (l : L4) : Prop := l.a ≤ l.b ∧ l.b ≤ l.c ∧ l.c ≤ l.d

/-- the values held, as a predicate -/
def Mem (x : Rat) (l : L4) : Prop := x = l.a ∨ x = l.b ∨ x = l.c ∨ x = l.d

theorem orderPair_cases (l : L4) (i j : Nat) :
    orderPair l i j = l ∨ (l.get i > l.get j ∧ orderPair l i j = (l.set j (l.get i)).set i (l.get j)) := by
  unfold orderPair; split
  · right; exact ⟨by assumption, rfl⟩
  · left; rfl

/-- **the sorting network sorts** every input -/
theorem sort4_sorted (l : L4) : Sorted (sort4 l) := by
  obtain ⟨a, b, c, d⟩ := l
  simp only [sort4, orderPair, L4.get, L4.set, Sorted]
  repeat' split
  all_goals (simp only []; grind)

/-- … and only permutes the four values -/
theorem sort4_mem (l : L4) (x : Rat) : Mem x (sort4 l) ↔ Mem x l := by
  obtain ⟨a, b, c, d⟩ := l
  simp only [sort4, orderPair, L4.get, L4.set, Mem]
  repeat' split
  all_goals first | (simp only []; done) | (simp only []; grind)

theorem shuffleStep_sorted (tau : Rat) (l : L4) (h : Sorted l) : Sorted (shuffleStep tau l) := by
  obtain ⟨a, b, c, d⟩ := l
  simp only [Sorted] at h
  simp only [shuffleStep, Sorted]
  split
  · grind
  · split
    · grind
    · split <;> grind

theorem shuffleStep_mem (tau : Rat) (l : L4) (x : Rat) :
    Mem x (shuffleStep tau l) ↔ (x = l.a + tau ∨ x = l.b ∨ x = l.c ∨ x = l.d) := by
  obtain ⟨a, b, c, d⟩ := l
  simp only [shuffleStep, Mem]
  split
  · grind
  · split
    · grind
    · split <;> grind

/-- **the unwrapping loop**: if it finishes, the result is sorted, spans at most `pi`, and every original
longitude appears in it up to a whole number of turns -/
theorem shuffle_spec (tau pi : Rat) : ∀ (fuel : Nat) (l r : L4), Sorted l → shuffle tau pi fuel l = some r →
    Sorted r ∧ r.d - r.a ≤ pi ∧ ∀ x, Mem x l → ∃ k : Nat, Mem (x + (k : Rat) * tau) r := by
  intro fuel
  induction fuel with
  | zero => intro l r _ h; simp [shuffle] at h
  | succ f ih =>
    intro l r hs h
    simp only [shuffle] at h
    split at h
    · obtain ⟨h1, h2, h3⟩ := ih _ r (shuffleStep_sorted tau l hs) h
      refine ⟨h1, h2, ?_⟩
      intro x hx
      have : Mem x (shuffleStep tau l) ∨ x = l.a := by
        rw [shuffleStep_mem]; unfold Mem at hx; grind
      rcases this with hm | ha
      · exact h3 x hm
      · have hm : Mem (x + tau) (shuffleStep tau l) := by rw [shuffleStep_mem]; left; rw [ha]
        obtain ⟨k, hk⟩ := h3 _ hm
        refine ⟨k + 1, ?_⟩
        have e : x + ((k + 1 : Nat) : Rat) * tau = x + tau + (k : Rat) * tau := by
          have : ((k + 1 : Nat) : Rat) = (k : Rat) + 1 := by simp [Rat.natCast_add]
          rw [this]; grind
        rw [e]; exact hk
    · cases h
      refine ⟨hs, by grind, ?_⟩
      intro x hx
      refine ⟨0, ?_⟩
      have : x + ((0 : Nat) : Rat) * tau = x := by simp; grind
      rw [this]; exact hx

theorem raiseLoop_spec (tau bmin : Rat) : ∀ (fuel : Nat) (t r : Rat × Rat), raiseLoop tau bmin fuel t = some r →
    bmin ≤ r.1 ∧ ∃ m : Nat, r.1 = t.1 + (m : Rat) * tau ∧ r.2 = t.2 + (m : Rat) * tau := by
  intro fuel
  induction fuel with
  | zero => intro t r h; simp [raiseLoop] at h
  | succ f ih =>
    intro t r h
    simp only [raiseLoop] at h
    split at h
    · obtain ⟨h1, m, h2, h3⟩ := ih _ r h
      refine ⟨h1, m + 1, ?_, ?_⟩
      · have : ((m + 1 : Nat) : Rat) = (m : Rat) + 1 := by simp [Rat.natCast_add]
        rw [h2, this]; simp only []; grind
      · have : ((m + 1 : Nat) : Rat) = (m : Rat) + 1 := by simp [Rat.natCast_add]
        rw [h3, this]; simp only []; grind
    · cases h
      exact ⟨by grind, 0, by simp; grind, by simp; grind⟩

theorem lowerLoop_spec (tau bmin : Rat) (htau : 0 < tau) : ∀ (fuel : Nat) (t r : Rat × Rat), bmin ≤ t.1 →
    lowerLoop tau bmin fuel t = some r →
    bmin ≤ r.1 ∧ r.1 - bmin ≤ tau ∧ ∃ m : Nat, r.1 = t.1 - (m : Rat) * tau ∧ r.2 = t.2 - (m : Rat) * tau := by
  intro fuel
  induction fuel with
  | zero => intro t r _ h; simp [lowerLoop] at h
  | succ f ih =>
    intro t r hb h
    simp only [lowerLoop] at h
    split at h
    · obtain ⟨h1, h1', m, h2, h3⟩ := ih _ r (by simp only []; grind) h
      refine ⟨h1, h1', m + 1, ?_, ?_⟩
      · have : ((m + 1 : Nat) : Rat) = (m : Rat) + 1 := by simp [Rat.natCast_add]
        rw [h2, this]; simp only []; grind
      · have : ((m + 1 : Nat) : Rat) = (m : Rat) + 1 := by simp [Rat.natCast_add]
        rw [h3, this]; simp only []; grind
    · cases h
      exact ⟨hb, by grind, 0, by simp; grind, by simp; grind⟩

theorem int_mul_pos (j : Int) (tau : Rat) (htau : 0 < tau) (h : 0 < (j : Rat) * tau) : tau ≤ (j : Rat) * tau := by
  have hj : 0 < (j : Rat) := (Rat.mul_pos_iff_of_pos_right htau).1 h
  have hj' : (0 : Int) < j := by
    have : ((0 : Int) : Rat) < (j : Rat) := by simpa using hj
    exact Rat.intCast_lt_intCast.mp this
  have h1 : (1 : Rat) ≤ (j : Rat) := by
    have : ((1 : Int) : Rat) ≤ (j : Rat) := Rat.intCast_le_intCast.mpr (by omega)
    simpa using this
  have := Rat.mul_le_mul_of_nonneg_right h1 (Rat.le_of_lt htau)
  simpa using this

/-- **Steps 3 and 4 have no false negatives**: if some longitude strictly inside the tile's unwrapped range
coincides, up to whole turns, with a longitude of the box, the test answers `true` — whatever the
longitude origin and width of the box. -/
theorem lonOverlap_complete (tau : Rat) (htau : 0 < tau) (fuel : Nat) (t : Rat × Rat) (bmin bmax : Rat)
    (x : Rat) (k : Int) (hx1 : t.1 < x) (hx2 : x < t.2) (hb1 : bmin ≤ x + (k : Rat) * tau) (hb2 : x + (k : Rat) * tau ≤ bmax)
    (res : Bool) (h : lonOverlap tau fuel t bmin bmax = some res) : res = true := by
  unfold lonOverlap at h
  split at h
  · cases h
  · rename_i t1 h1
    split at h
    · cases h
    · rename_i t2 h2
      obtain ⟨r1, m1, e1, e1'⟩ := raiseLoop_spec tau bmin fuel t t1 h1
      obtain ⟨l1, l2, m2, e2, e2'⟩ := lowerLoop_spec tau bmin htau fuel t1 t2 r1 h2
      cases h
      by_cases c1 : t2.1 < bmax
      · simp [c1]
      · by_cases c2 : t2.2 > bmin + tau
        · simp [c2]
        · exfalso
          -- y = x shifted like the tile; z = x shifted into the box
          let j : Int := (m1 : Int) - (m2 : Int) - k
          have hj : (j : Rat) = (m1 : Rat) - (m2 : Rat) - (k : Rat) := by
            simp [j, Rat.intCast_sub, Rat.intCast_natCast]
          have hy1 : t2.1 < x + (m1 : Rat) * tau - (m2 : Rat) * tau := by rw [e2, e1]; grind
          have hy2 : x + (m1 : Rat) * tau - (m2 : Rat) * tau < t2.2 := by rw [e2', e1']; grind
          have hpos : 0 < (j : Rat) * tau := by rw [hj]; grind
          have := int_mul_pos j tau htau hpos
          rw [hj] at this
          grind

/-- **The bounding-box filter has no false negatives.**  If the latitude `φ` lies within the latitude range of
the tile's corners and within the box, and the longitude `x` lies strictly within the tile's unwrapped
longitude range (the range the code itself computes from the corners) and, up to whole turns, within
the box, then the filter accepts the tile. -/
theorem intersects_complete (tau pi poleLat : Rat) (htau : 0 < tau) (fuel : Nat) (lons lats : L4) (bb : BBox)
    (res : Bool) (h : intersects tau pi poleLat fuel lons lats bb = some res)
    (φ : Rat) (hφ1 : min4 lats ≤ φ) (hφ2 : φ ≤ max4 lats) (hφ3 : bb.latMin ≤ φ) (hφ4 : φ ≤ bb.latMax)
    (x : Rat) (k : Int)
    (hx : ∀ l, shuffle tau pi fuel (sort4 lons) = some l → l.a < x ∧ x < l.d)
    (hb1 : bb.lonMin ≤ x + (k : Rat) * tau) (hb2 : x + (k : Rat) * tau ≤ bb.lonMax) : res = true := by
  unfold intersects at h
  simp only at h
  split at h
  · exfalso; grind
  · split at h
    · exfalso; grind
    · split at h
      · cases h; rfl
      · split at h
        · cases h
        · rename_i l hl
          obtain ⟨h1, h2⟩ := hx l hl
          exact lonOverlap_complete tau htau fuel (l.a, l.d) bb.lonMin bb.lonMax x k h1 h2 hb1 hb2 res h

/-- a tile with a corner at (or within rounding of) a pole is accepted whenever its latitude range meets the box -/
theorem pole_tile_accepted (tau pi poleLat : Rat) (fuel : Nat) (lons lats : L4) (bb : BBox)
    (hp : max4 lats > poleLat ∨ min4 lats < -poleLat) (h1 : ¬ bb.latMin > max4 lats) (h2 : ¬ bb.latMax < min4 lats) :
    intersects tau pi poleLat fuel lons lats bb = some true := by
  unfold intersects
  simp only [h1, h2, if_false, hp, if_true]

/-- the unwrapped range covers every corner longitude up to whole turns and is at most `pi` wide -/
theorem unwrapped_range_covers (tau pi : Rat) (fuel : Nat) (lons l : L4) (h : shuffle tau pi fuel (sort4 lons) = some l) :
    l.d - l.a ≤ pi ∧ ∀ x, Mem x lons → ∃ k : Nat, l.a ≤ x + (k : Rat) * tau ∧ x + (k : Rat) * tau ≤ l.d := by
  obtain ⟨hs, hw, hm⟩ := shuffle_spec tau pi fuel (sort4 lons) l (sort4_sorted lons) h
  refine ⟨hw, ?_⟩
  intro x hx
  obtain ⟨k, hk⟩ := hm x ((sort4_mem lons x).2 hx)
  refine ⟨k, ?_⟩
  unfold Sorted at hs
  unfold Mem at hk
  grind

/-! ### Part 2: chunked maps -/

/-- index of the chunk whose rectangle contains global pixel (X, Y) -/
def chunkOf (gw tw th X Y : Int) : Int := (Y / th) * ((gw + tw - 1) / tw) + X / tw

theorem ceil_div_pos (g t : Int) (hg : 0 < g) (ht : 0 < t) : 0 < (g + t - 1) / t ∧ g ≤ t * ((g + t - 1) / t) := by
  have h1 := @Int.lt_mul_ediv_self_add (g + t - 1) t ht
  have h2 : t * ((g + t - 1) / t) ≥ g := by omega
  refine ⟨?_, h2⟩
  apply Int.lt_of_not_ge
  intro hle
  have : t * ((g + t - 1) / t) ≤ 0 := Int.mul_nonpos_of_nonneg_of_nonpos (Int.le_of_lt ht) hle
  omega

theorem div_lt_ceil (g t X : Int) (ht : 0 < t) (hX : X < g) : X / t < (g + t - 1) / t := by
  have h1 := @Int.lt_mul_ediv_self_add (g + t - 1) t ht
  rw [Int.ediv_lt_iff_lt_mul ht, Int.mul_comm]
  omega

theorem chunkOf_divmod (gw tw th X Y : Int) (htw : 0 < tw) (hgw : 0 < gw) (hX0 : 0 ≤ X) (hX : X < gw) :
    chunkOf gw tw th X Y / ((gw + tw - 1) / tw) = Y / th ∧ chunkOf gw tw th X Y % ((gw + tw - 1) / tw) = X / tw := by
  have hc := (ceil_div_pos gw tw hgw htw).1
  apply (Int.ediv_emod_unique hc).2
  refine ⟨?_, Int.ediv_nonneg hX0 (Int.le_of_lt htw), div_lt_ceil gw tw X htw hX⟩
  unfold chunkOf
  rw [Int.mul_comm]; omega

/-- **Every pixel of the map lies in a chunk**, namely chunk `chunkOf`, which is a valid chunk index. -/
theorem chunk_contains (gw gh tw th X Y : Int) (htw : 0 < tw) (hth : 0 < th)
    (hX0 : 0 ≤ X) (hX : X < gw) (hY0 : 0 ≤ Y) (hY : Y < gh) :
    0 ≤ chunkOf gw tw th X Y ∧ chunkOf gw tw th X Y < Gen.Filter.n_chunks gw gh tw th ∧
    (Gen.Filter.chunk_spec gw gh tw th (chunkOf gw tw th X Y)).1 ≤ X ∧
    X < (Gen.Filter.chunk_spec gw gh tw th (chunkOf gw tw th X Y)).1 + (Gen.Filter.chunk_spec gw gh tw th (chunkOf gw tw th X Y)).2.2.1 ∧
    (Gen.Filter.chunk_spec gw gh tw th (chunkOf gw tw th X Y)).2.1 ≤ Y ∧
    Y < (Gen.Filter.chunk_spec gw gh tw th (chunkOf gw tw th X Y)).2.1 + (Gen.Filter.chunk_spec gw gh tw th (chunkOf gw tw th X Y)).2.2.2 := by
  have hgw : 0 < gw := by omega
  have hgh : 0 < gh := by omega
  obtain ⟨hc, _⟩ := ceil_div_pos gw tw hgw htw
  obtain ⟨hd, hm⟩ := chunkOf_divmod gw tw th X Y htw hgw hX0 hX
  have ha0 : 0 ≤ X / tw := Int.ediv_nonneg hX0 (Int.le_of_lt htw)
  have hb0 : 0 ≤ Y / th := Int.ediv_nonneg hY0 (Int.le_of_lt hth)
  have hb : Y / th < (gh + th - 1) / th := div_lt_ceil gh th Y hth hY
  have ha : X / tw < (gw + tw - 1) / tw := div_lt_ceil gw tw X htw hX
  have x1 := @Int.mul_ediv_self_le X tw (Int.ne_of_gt htw)
  have x2 := @Int.lt_mul_ediv_self_add X tw htw
  have y1 := @Int.mul_ediv_self_le Y th (Int.ne_of_gt hth)
  have y2 := @Int.lt_mul_ediv_self_add Y th hth
  have hprod0 : 0 ≤ (Y / th) * ((gw + tw - 1) / tw) := Int.mul_nonneg hb0 (Int.le_of_lt hc)
  refine ⟨by unfold chunkOf; omega, ?_, ?_⟩
  · unfold Gen.Filter.n_chunks
    have : (Y / th + 1) * ((gw + tw - 1) / tw) ≤ ((gh + th - 1) / th) * ((gw + tw - 1) / tw) :=
      Int.mul_le_mul_of_nonneg_right (by omega) (Int.le_of_lt hc)
    have e : (Y / th + 1) * ((gw + tw - 1) / tw) = (Y / th) * ((gw + tw - 1) / tw) + (gw + tw - 1) / tw := by
      rw [Int.add_mul, Int.one_mul]
    unfold chunkOf
    omega
  · simp only [Gen.Filter.chunk_spec]
    have e1 : gw + tw - (1 : Int) = gw + tw - 1 := rfl
    rw [hd, hm]
    have m1 : tw * (X / tw + 1) = tw * (X / tw) + tw := by rw [Int.mul_add, Int.mul_one]
    have m2 : th * (Y / th + 1) = th * (Y / th) + th := by rw [Int.mul_add, Int.mul_one]
    rw [m1, m2]
    refine ⟨x1, ?_, y1, ?_⟩ <;> omega

/-- **… and in no other chunk**: a valid chunk whose rectangle contains the pixel is `chunkOf`. -/
theorem chunk_unique (gw gh tw th X Y i : Int) (htw : 0 < tw) (hth : 0 < th) (hgw : 0 < gw)
    (hX0 : 0 ≤ X) (hX : X < gw) (hi0 : 0 ≤ i)
    (h1 : (Gen.Filter.chunk_spec gw gh tw th i).1 ≤ X)
    (h2 : X < (Gen.Filter.chunk_spec gw gh tw th i).1 + (Gen.Filter.chunk_spec gw gh tw th i).2.2.1)
    (h3 : (Gen.Filter.chunk_spec gw gh tw th i).2.1 ≤ Y)
    (h4 : Y < (Gen.Filter.chunk_spec gw gh tw th i).2.1 + (Gen.Filter.chunk_spec gw gh tw th i).2.2.2) :
    i = chunkOf gw tw th X Y := by
  obtain ⟨hc, _⟩ := ceil_div_pos gw tw hgw htw
  simp only [Gen.Filter.chunk_spec] at h1 h2 h3 h4
  have m1 : tw * (i % ((gw + tw - 1) / tw) + 1) = tw * (i % ((gw + tw - 1) / tw)) + tw := by rw [Int.mul_add, Int.mul_one]
  have m2 : th * (i / ((gw + tw - 1) / tw) + 1) = th * (i / ((gw + tw - 1) / tw)) + th := by rw [Int.mul_add, Int.mul_one]
  rw [m1] at h2
  rw [m2] at h4
  have hx : X / tw = i % ((gw + tw - 1) / tw) := by
    have := (Int.ediv_emod_unique (a := X) (r := X - tw * (i % ((gw + tw - 1) / tw))) (q := i % ((gw + tw - 1) / tw)) htw).2
      ⟨by omega, by omega, by omega⟩
    exact this.1
  have hy : Y / th = i / ((gw + tw - 1) / tw) := by
    have := (Int.ediv_emod_unique (a := Y) (r := Y - th * (i / ((gw + tw - 1) / tw))) (q := i / ((gw + tw - 1) / tw)) hth).2
      ⟨by omega, by omega, by omega⟩
    exact this.1
  unfold chunkOf
  rw [hx, hy]
  have := Int.emod_add_mul_ediv i ((gw + tw - 1) / tw)
  rw [Int.mul_comm] at this
  omega

/-- the continuous pixel coordinates of a sky position in a `gw × gh` planetary plate-carrée map (pixel centres at integers) -/
def mapU (gw : Int) (lon : Rat) : Rat := (ratMod (lon + 1 / 2) 1 - 1 / 2 + 1 / 2) * (gw : Rat) - 1 / 2
def mapV (gh : Int) (lat : Rat) : Rat := (1 / 4 - lat) * (2 * (gh : Rat)) - 1 / 2

theorem dy_eq (gh cy ch : Rat) (g2 : gh ≠ 0) (g4 : ch ≠ 0) :
    ch / ((1 / 4 - (1 / 2) / gh * cy) - (1 / 4 - (1 / 2) / gh * (cy + ch))) = 2 * gh := by
  grind

theorem dx_eq (gw cx cw : Rat) (g1 : gw ≠ 0) (g3 : cw ≠ 0) :
    cw / ((1 / gw * (cx + cw) - 1 / 2) - (1 / gw * cx - 1 / 2)) = gw := by
  grind

theorem ey_eq (gh cy lat : Rat) (g2 : gh ≠ 0) :
    ((1 / 4 - (1 / 2) / gh * cy) - (1 / 2) / (2 * gh) - lat) * (2 * gh) = (1 / 4 - lat) * (2 * gh) - 1 / 2 - cy := by
  grind

theorem ex_eq (gw cx l : Rat) (g1 : gw ≠ 0) :
    (l - ((1 / gw * cx - 1 / 2) + (1 / 2) / gw)) * gw = (l + 1 / 2) * gw - 1 / 2 - cx := by
  grind

theorem roundHE_sub_int (q : Rat) (k : Int) (hnt : ∀ m : Int, q ≠ (m : Rat) + 1 / 2) : roundHE (q - (k : Rat)) = roundHE q - k := by
  have hb := roundHE_bounds q
  have h1 : (roundHE q : Rat) - 1 / 2 < q := by
    by_cases h : q = (roundHE q : Rat) - 1 / 2
    · exfalso; exact hnt (roundHE q - 1) (by rw [Rat.intCast_sub]; simp; grind)
    · grind
  have h2 : q < (roundHE q : Rat) + 1 / 2 := by
    by_cases h : q = (roundHE q : Rat) + 1 / 2
    · exfalso; exact hnt (roundHE q) h
    · grind
  apply roundHE_eq_of_strict
  · rw [Rat.intCast_sub]; grind
  · rw [Rat.intCast_sub]; grind

/-- **A chunk's sampler and the whole-map sampler read the same pixel.**  For a chunk at `(cx, cy)` of size
`cw × ch` of a `gw × gh` map, with the chunk's own bounds, a sky position that is not exactly on a pixel
boundary is mapped to the chunk-local index `(IY − cy, IX − cx)` where `(IY, IX)` is the whole-map pixel;
it is kept (`ok`) exactly when that pixel lies in the chunk. -/
theorem chunk_index_spec (gw gh cx cy cw ch : Int) (hgw : 0 < gw) (hgh : 0 < gh) (hcw : 0 < cw) (hch : 0 < ch)
    (lon lat : Rat) (hu : ∀ m : Int, mapU gw lon ≠ (m : Rat) + 1 / 2) (hv : ∀ m : Int, mapV gh lat ≠ (m : Rat) + 1 / 2) :
    let b := Gen.Filter.chunk_bounds gw gh cx cy cw ch
    let r := Gen.Filter.chunk_index cw ch b.1 b.2.1 b.2.2.1 b.2.2.2 lon lat
    r.2.1 = roundHE (mapU gw lon) - cx ∧ r.1 = roundHE (mapV gh lat) - cy ∧
    (r.2.2 = true ↔ (cx ≤ roundHE (mapU gw lon) ∧ roundHE (mapU gw lon) < cx + cw ∧
                     cy ≤ roundHE (mapV gh lat) ∧ roundHE (mapV gh lat) < cy + ch)) := by
  have g1 : (gw : Rat) ≠ 0 := by
    intro h; have : (gw : Rat) = ((0 : Int) : Rat) := by simpa using h
    have := Rat.intCast_inj.1 this; omega
  have g2 : (gh : Rat) ≠ 0 := by
    intro h; have : (gh : Rat) = ((0 : Int) : Rat) := by simpa using h
    have := Rat.intCast_inj.1 this; omega
  have g3 : (cw : Rat) ≠ 0 := by
    intro h; have : (cw : Rat) = ((0 : Int) : Rat) := by simpa using h
    have := Rat.intCast_inj.1 this; omega
  have g4 : (ch : Rat) ≠ 0 := by
    intro h; have : (ch : Rat) = ((0 : Int) : Rat) := by simpa using h
    have := Rat.intCast_inj.1 this; omega
  have ex : ((ratMod (lon + 1 / 2) 1 - 1 / 2) -
      ((1 / (gw : Rat) * (cx : Rat) - 1 / 2) + (1 / 2) / ((cw : Rat) / ((1 / (gw : Rat) * ((cx : Rat) + (cw : Rat)) - 1 / 2) - (1 / (gw : Rat) * (cx : Rat) - 1 / 2))))) *
      ((cw : Rat) / ((1 / (gw : Rat) * ((cx : Rat) + (cw : Rat)) - 1 / 2) - (1 / (gw : Rat) * (cx : Rat) - 1 / 2)))
      = mapU gw lon - (cx : Rat) := by
    rw [dx_eq _ _ _ g1 g3, ex_eq _ _ _ g1]; unfold mapU; grind
  have ey : ((1 / 4 - (1 / 2) / (gh : Rat) * (cy : Rat)) -
      (1 / 2) / ((ch : Rat) / ((1 / 4 - (1 / 2) / (gh : Rat) * (cy : Rat)) - (1 / 4 - (1 / 2) / (gh : Rat) * ((cy : Rat) + (ch : Rat))))) - lat) *
      ((ch : Rat) / ((1 / 4 - (1 / 2) / (gh : Rat) * (cy : Rat)) - (1 / 4 - (1 / 2) / (gh : Rat) * ((cy : Rat) + (ch : Rat)))))
      = mapV gh lat - (cy : Rat) := by
    rw [dy_eq _ _ _ g2 g4, ey_eq _ _ _ g2]; unfold mapV; grind
  intro b r
  have hx : r.2.1 = roundHE (mapU gw lon - (cx : Rat)) := by
    simp only [r, b, Gen.Filter.chunk_index, Gen.Filter.chunk_bounds, Rat.intCast_add]
    rw [ex]
  have hy : r.1 = roundHE (mapV gh lat - (cy : Rat)) := by
    simp only [r, b, Gen.Filter.chunk_index, Gen.Filter.chunk_bounds, Rat.intCast_add]
    rw [ey]
  have hok : r.2.2 = (decide (0 ≤ r.2.1) && decide (r.2.1 < cw) && decide (0 ≤ r.1) && decide (r.1 < ch)) := rfl
  rw [roundHE_sub_int _ _ hu] at hx
  rw [roundHE_sub_int _ _ hv] at hy
  refine ⟨hx, hy, ?_⟩
  rw [hok, hx, hy]
  simp only [Bool.and_eq_true, decide_eq_true_eq]
  omega

/-- the whole-map sampler of C11 (`plate_carree_planet_sampler`) reads pixel `(roundHE V, roundHE U)`, clipped into the map -/
theorem whole_map_index (gw gh : Int) (hgw : 0 < gw) (hgh : 0 < gh) (lon lat : Rat) :
    Gen.Sampler.planet gw gh lon lat =
      (clipI (roundHE (mapV gh lat)) 0 (gh - 1), clipI (roundHE (mapU gw lon)) 0 (gw - 1)) := by
  have g1 : (gw : Rat) ≠ 0 := by
    intro h; have : (gw : Rat) = ((0 : Int) : Rat) := by simpa using h
    have := Rat.intCast_inj.1 this; omega
  have g2 : (gh : Rat) ≠ 0 := by
    intro h; have : (gh : Rat) = ((0 : Int) : Rat) := by simpa using h
    have := Rat.intCast_inj.1 this; omega
  have ex : ((ratMod (lon + 1 / 2) 1 - 1 / 2) - (-(1 / 2) + (1 / 2) / ((gw : Rat) / 1))) * ((gw : Rat) / 1) = mapU gw lon := by
    unfold mapU; grind
  have ey : ((1 / 4 - (1 / 2) / ((gh : Rat) / (1 / 2))) - lat) * ((gh : Rat) / (1 / 2)) = mapV gh lat := by
    unfold mapV; grind
  simp only [Gen.Sampler.planet]
  rw [ex, ey]

/-- **The bounds of a chunk contain the centres of all its pixels** (so a tile with a pixel centre on a chunk's
pixel passes the chunk's latitude/longitude box test of Part 1). -/
theorem chunk_bounds_contain_centres (gw gh cx cy cw ch : Int) (hgw : 0 < gw) (hgh : 0 < gh) (i j : Int)
    (hi0 : 0 ≤ i) (hi : i < cw) (hj0 : 0 ≤ j) (hj : j < ch) :
    let b := Gen.Filter.chunk_bounds gw gh cx cy cw ch
    let lon := ((cx + i : Int) : Rat) / (gw : Rat) + (1 / 2) / (gw : Rat) - 1 / 2
    let lat := 1 / 4 - (((cy + j : Int) : Rat) / (2 * (gh : Rat)) + (1 / 2) / (2 * (gh : Rat)))
    b.1 < lon ∧ lon < b.2.1 ∧ b.2.2.1 < lat ∧ lat < b.2.2.2 := by
  have g1 : (0 : Rat) < (gw : Rat) := by
    have : ((0 : Int) : Rat) < (gw : Rat) := Rat.intCast_lt_intCast.2 hgw
    simpa using this
  have g2 : (0 : Rat) < (gh : Rat) := by
    have : ((0 : Int) : Rat) < (gh : Rat) := Rat.intCast_lt_intCast.2 hgh
    simpa using this
  have i0 : (0 : Rat) ≤ (i : Rat) := by
    have : ((0 : Int) : Rat) ≤ (i : Rat) := Rat.intCast_le_intCast.2 hi0
    simpa using this
  have i1 : (i : Rat) + 1 ≤ (cw : Rat) := by
    have : ((i + 1 : Int) : Rat) ≤ (cw : Rat) := Rat.intCast_le_intCast.2 (by omega)
    rw [Rat.intCast_add] at this; simpa using this
  have j0 : (0 : Rat) ≤ (j : Rat) := by
    have : ((0 : Int) : Rat) ≤ (j : Rat) := Rat.intCast_le_intCast.2 hj0
    simpa using this
  have j1 : (j : Rat) + 1 ≤ (ch : Rat) := by
    have : ((j + 1 : Int) : Rat) ≤ (ch : Rat) := Rat.intCast_le_intCast.2 (by omega)
    rw [Rat.intCast_add] at this; simpa using this
  have ig : (0 : Rat) < 1 / (gw : Rat) := by
    have := Rat.inv_pos.2 g1
    have e : 1 / (gw : Rat) = (gw : Rat)⁻¹ := by grind
    rw [e]; exact this
  have ih : (0 : Rat) < 1 / (gh : Rat) := by
    have := Rat.inv_pos.2 g2
    have e : 1 / (gh : Rat) = (gh : Rat)⁻¹ := by grind
    rw [e]; exact this
  intro b lon lat
  simp only [b, lon, lat, Gen.Filter.chunk_bounds, Rat.intCast_add]
  -- all four are linear in i, j once 1/gw and 1/gh are named
  generalize hA : 1 / (gw : Rat) = A at ig
  generalize hB : 1 / (gh : Rat) = B at ih
  have eA : ∀ z : Rat, z / (gw : Rat) = z * A := by intro z; rw [← hA]; grind
  have eB : ∀ z : Rat, z / (2 * (gh : Rat)) = z * B / 2 := by intro z; rw [← hB]; grind
  have eB2 : (1 : Rat) / 2 / (gh : Rat) = B / 2 := by rw [← hB]; grind
  rw [eA, eA, eB, eB, eB2]
  have p1 : 0 ≤ (i : Rat) * A := Rat.mul_nonneg i0 (Rat.le_of_lt ig)
  have p2 : ((i : Rat) + 1) * A ≤ (cw : Rat) * A := Rat.mul_le_mul_of_nonneg_right i1 (Rat.le_of_lt ig)
  have p3 : 0 ≤ (j : Rat) * B := Rat.mul_nonneg j0 (Rat.le_of_lt ih)
  have p4 : ((j : Rat) + 1) * B ≤ (ch : Rat) * B := Rat.mul_le_mul_of_nonneg_right j1 (Rat.le_of_lt ih)
  refine ⟨?_, ?_, ?_, ?_⟩ <;> grind

/-! ### Part 3: extracted shapes -/

theorem filters_shape : Gen.Filter.filters_are_bbox_tests = true ∧ Gen.Filter.chunk_data_is_subarray = true := ⟨rfl, rfl⟩

/-- the edge refinement of `_image_bounds`: along each edge the samples run over the axis of that edge, their end
points and their number are read from that axis's own coarse grid, at least two samples are taken (both ends of the
interval), and the other coordinate is held at the edge: top = first row of axis 2, right = last column of axis 1,
bottom = last row, left = first column -/
theorem refine_edges_consistent :
    Gen.Filter.refine_lon_edges.length = 4 ∧
    (∀ r ∈ Gen.Filter.refine_lon_edges, r.1 = r.2.1 ∧ r.1 = r.2.2.1 ∧ 2 ≤ r.2.2.2.1 ∧ r.2.2.2.2.1 = r.2.2.2.2.2.1 ∧ r.1 ≠ r.2.2.2.2.1) ∧
    Gen.Filter.refine_lon_edges.map (fun r => (r.1, r.2.2.2.2.2.2)) = [(1, false), (2, true), (1, true), (2, false)] ∧
    2 ≤ Gen.Filter.refine_lat_min_samples.1 ∧ 2 ≤ Gen.Filter.refine_lat_min_samples.2 := by
  decide

theorem refine_facts : Gen.Filter.refine_gap_at_most_one_pixel = true ∧ Gen.Filter.pole_inside_sets_bound = true := ⟨rfl, rfl⟩

/-- `np.linspace(lo, hi, ceil(hi − lo) + 1)` leaves gaps of at most one pixel: a span of `s > 0` pixels divided into
`ceil(s)` intervals -/
theorem sample_gap (s : Rat) (hs : 0 < s) : 0 < (s.ceil : Rat) ∧ s / (s.ceil : Rat) ≤ 1 := by
  have h1 : s ≤ (s.ceil : Rat) := Rat.le_ceil
  have h2 : (0 : Rat) < (s.ceil : Rat) := by grind
  refine ⟨h2, ?_⟩
  have h3 := Rat.mul_le_mul_of_nonneg_right h1 (Rat.le_of_lt (Rat.inv_pos.2 h2))
  have e1 : s / (s.ceil : Rat) = s * ((s.ceil : Rat))⁻¹ := Rat.div_def ..
  have hne : (s.ceil : Rat) ≠ 0 := fun h => by rw [h] at h2; exact absurd h2 (by decide)
  have e2 : (s.ceil : Rat) * ((s.ceil : Rat))⁻¹ = 1 := Rat.mul_inv_cancel _ hne
  rw [e1]; rw [e2] at h3; exact h3

/-! ### non-vacuity -/

/-- a tile spanning longitudes 1 … 3/2 against a box at 5 … 6 (the same longitudes as −1.28 … −0.28): no overlap;
against a box at 7 … 8 (= 0.72 … 1.72): overlap — with τ = 6283185307/10⁹ -/
example : intersects (6283185307 / 1000000000) (3141592653 / 1000000000) (15707963 / 10000000) 20
      ⟨1, 3/2, 3/2, 1⟩ ⟨0, 0, 1/2, 1/2⟩ ⟨5, 6, -1, 1⟩ = some false ∧
    intersects (6283185307 / 1000000000) (3141592653 / 1000000000) (15707963 / 10000000) 20
      ⟨1, 3/2, 3/2, 1⟩ ⟨0, 0, 1/2, 1/2⟩ ⟨7, 8, -1, 1⟩ = some true := by decide +kernel

/-- a 10 × 6 map in 4 × 4 chunks: pixel (9, 5) lies in chunk 5, whose rectangle is (8, 4, 2, 2) -/
example : chunkOf 10 4 4 9 5 = 5 ∧ Gen.Filter.chunk_spec 10 6 4 4 5 = (8, 4, 2, 2) ∧ Gen.Filter.n_chunks 10 6 4 4 = 6 := by decide

/-- **entry_points**: the call sites through which this property's workflows reach the modelled functions have, in the source as
it is now, the argument plumbing the model assumes (facts re-extracted on every run, `Gen/Plumbing.lean`) -/
theorem entry_points : Gen.Plumbing.tile_toast_filters = true := by decide

end C07
