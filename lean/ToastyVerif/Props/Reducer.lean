/-
The reduction iterator (`PyramidReductionIterator`, model `Pyr.redStep` / `Pyr.runRed`) computes the
bottom-up fold over the tree of positions a pyramid's generator yields.

`trav yld f p` is the post-order of the sub-tree of `p` that the predicate `yld` accepts (fuel `f`);
`val` is the fold of the caller's function `F` over that tree, `cdata` the four child values a node
is shown.  The theorem `run_subtree` says: fed the traversal of `p`'s sub-tree, the iterator never
trips an assertion, yields every node with exactly the values of its accepted children (and the
default for the others), and hands `val p` to the parent's slot (or, at the apex, stops with it).
Everything downstream that was "validated differentially only" (the counters, the serial walk, the
prologue of the parallel walk) becomes a corollary.
-/
import ToastyVerif.Model.Pyramid
import ToastyVerif.Props.C13

namespace Red
open Pos Pyr

variable {α : Type}

/-! ### The tree and its fold -/

def trav (yld : Pos → Bool) : Nat → Pos → List Pos
  | 0, _ => []
  | f + 1, p =>
    if yld p then
      trav yld f (p.child 0) ++ trav yld f (p.child 1) ++ trav yld f (p.child 2) ++ trav yld f (p.child 3) ++ [p]
    else []

/-- `p` is yielded when visited with fuel `f` -/
def live (yld : Pos → Bool) (f : Nat) (p : Pos) : Bool := decide (0 < f) && yld p

def val (yld : Pos → Bool) (depth : Nat) (d : α) (F : Pos → Bool → (Nat → α) → α) : Nat → Pos → α
  | 0, _ => d
  | f + 1, p => F p (decide (p.n = depth))
      (fun k => if k < 4 ∧ live yld f (p.child k) = true then val yld depth d F f (p.child k) else d)

/-- the child values shown to `p` (fuel of the children) -/
def cdata (yld : Pos → Bool) (depth : Nat) (d : α) (F : Pos → Bool → (Nat → α) → α) (f : Nat) (p : Pos) : Nat → α :=
  fun k => if k < 4 ∧ live yld f (p.child k) = true then val yld depth d F f (p.child k) else d

theorem val_succ (yld : Pos → Bool) (depth : Nat) (d : α) (F : Pos → Bool → (Nat → α) → α) (f : Nat) (p : Pos) :
    val yld depth d F (f + 1) p = F p (decide (p.n = depth)) (cdata yld depth d F f p) := rfl

/-- what the iterator yields for the sub-tree of `p`, in order -/
def travI (yld : Pos → Bool) (depth : Nat) (d : α) (F : Pos → Bool → (Nat → α) → α) :
    Nat → Pos → List (Pos × Bool × (Nat → α))
  | 0, _ => []
  | f + 1, p =>
    if yld p then
      travI yld depth d F f (p.child 0) ++ travI yld depth d F f (p.child 1) ++ travI yld depth d F f (p.child 2)
        ++ travI yld depth d F f (p.child 3) ++ [(p, decide (p.n = depth), cdata yld depth d F f p)]
    else []

theorem trav_of_not_live (yld : Pos → Bool) (f : Nat) (p : Pos) (h : live yld f p = false) : trav yld f p = [] := by
  cases f with
  | zero => rfl
  | succ f => simp [live] at h; simp [trav, h]

theorem travI_of_not_live (yld : Pos → Bool) (depth : Nat) (d : α) (F : Pos → Bool → (Nat → α) → α) (f : Nat) (p : Pos)
    (h : live yld f p = false) : travI yld depth d F f p = [] := by
  cases f with
  | zero => rfl
  | succ f => simp [live] at h; simp [travI, h]

theorem travI_fst (yld : Pos → Bool) (depth : Nat) (d : α) (F : Pos → Bool → (Nat → α) → α) :
    ∀ (f : Nat) (p : Pos), (travI yld depth d F f p).map (·.1) = trav yld f p := by
  intro f
  induction f with
  | zero => intro p; rfl
  | succ f ih =>
    intro p
    simp only [travI, trav]
    split
    · simp [ih]
    · rfl

/-! ### Ancestors -/

theorem anc_self (p : Pos) : p.anc p.n = p := by
  cases p; simp [anc]

theorem anc_child (p : Pos) (i k : Nat) (hi : i < 4) (hk : k ≤ p.n) : (p.child i).anc k = p.anc k := by
  simp only [anc, child, Pos.mk.injEq, true_and]
  have e : p.n + 1 - k = (p.n - k) + 1 := by omega
  rw [e, Nat.pow_succ]
  have hx : (2 * p.x + i % 2) / (2 ^ (p.n - k) * 2) = ((2 * p.x + i % 2) / 2) / 2 ^ (p.n - k) := by
    rw [Nat.div_div_eq_div_mul, Nat.mul_comm 2 (2 ^ (p.n - k))]
  have hy : (2 * p.y + i / 2) / (2 ^ (p.n - k) * 2) = ((2 * p.y + i / 2) / 2) / 2 ^ (p.n - k) := by
    rw [Nat.div_div_eq_div_mul, Nat.mul_comm 2 (2 ^ (p.n - k))]
  have ex : (2 * p.x + i % 2) / 2 = p.x := by omega
  have ey : (2 * p.y + i / 2) / 2 = p.y := by omega
  rw [hx, hy, ex, ey]
  exact ⟨rfl, rfl⟩

theorem anc_pred (p : Pos) (h : 1 ≤ p.n) : p.anc (p.n - 1) = p.parent := by
  simp only [anc, parent, Pos.mk.injEq, true_and]
  have e : p.n - (p.n - 1) = 1 := by omega
  rw [e]; simp

/-- `q` lies in the sub-tree of `c` (or is `c`) -/
def Under (q c : Pos) : Prop := c.n ≤ q.n ∧ ∀ k, k ≤ c.n → q.anc k = c.anc k

theorem under_refl (c : Pos) : Under c c := ⟨Nat.le_refl _, fun _ _ => rfl⟩

theorem under_child (q c : Pos) (i : Nat) (hi : i < 4) (h : Under q (c.child i)) : Under q c := by
  refine ⟨by have := h.1; simp [child] at this; omega, ?_⟩
  intro k hk
  rw [h.2 k (by simp [child]; omega), anc_child c i k hi hk]

theorem mem_trav_under (yld : Pos → Bool) : ∀ (f : Nat) (p q : Pos), q ∈ trav yld f p → Under q p := by
  intro f
  induction f with
  | zero => intro p q h; cases h
  | succ f ih =>
    intro p q h
    simp only [trav] at h
    split at h
    · simp only [List.mem_append, List.mem_singleton] at h
      rcases h with (((h | h) | h) | h) | h
      · exact under_child q p 0 (by omega) (ih _ _ h)
      · exact under_child q p 1 (by omega) (ih _ _ h)
      · exact under_child q p 2 (by omega) (ih _ _ h)
      · exact under_child q p 3 (by omega) (ih _ _ h)
      · subst h; exact under_refl _
    · cases h

/-! ### States -/

/-- coordinates of the existing levels are those of `c`'s ancestors -/
def CoordsOk (s : RState α) (c : Pos) : Prop := ∀ k, k < s.len → (s.lv k).x = (c.anc k).x ∧ (s.lv k).y = (c.anc k).y

theorem ensure_ensure (d : α) (s : RState α) (c q : Pos) (hlen : s.len ≤ c.n + 1) (hq : Under q c) :
    ensureLevels d (ensureLevels d s c) q = ensureLevels d s q := by
  obtain ⟨hn, ha⟩ := hq
  unfold ensureLevels
  by_cases h1 : c.n < s.len
  · simp only [h1, if_true]
  · simp only [h1, if_false]
    have h2 : ¬ q.n < s.len := by omega
    simp only [h2, if_false]
    by_cases h3 : q.n < c.n + 1
    · simp only [h3, if_true]
      have e : q.n = c.n := by omega
      have hqc : q = c := by rw [← anc_self q, e, ha c.n (Nat.le_refl _), anc_self]
      subst hqc
      rfl
    · simp only [h3, if_false]
      congr 1
      funext k
      by_cases a : c.n + 1 ≤ k ∧ k ≤ q.n
      · have b : s.len ≤ k ∧ k ≤ q.n := by omega
        simp only [a, b, and_self, if_true]
      · simp only [a, if_false]
        by_cases b : s.len ≤ k ∧ k ≤ c.n
        · have b' : s.len ≤ k ∧ k ≤ q.n := by omega
          simp only [b, b', and_self, if_true]
          rw [ha k b.2]
        · have b' : ¬ (s.len ≤ k ∧ k ≤ q.n) := by omega
          simp only [b, b', if_false]

theorem redStep_norm (depth : Nat) (apex : Pos) (d : α) (F : Pos → Bool → (Nat → α) → α) (s : RState α) (c q : Pos)
    (hlen : s.len ≤ c.n + 1) (hq : Under q c) :
    redStep depth apex d F (ensureLevels d s c) q = redStep depth apex d F s q := by
  have hact : (ensureLevels d s c).active = s.active := by unfold ensureLevels; split <;> rfl
  unfold redStep
  rw [hact, ensure_ensure d s c q hlen hq]

theorem runRed_norm (depth : Nat) (apex : Pos) (d : α) (F : Pos → Bool → (Nat → α) → α) (s : RState α) (c q : Pos) (L : List Pos)
    (hlen : s.len ≤ c.n + 1) (hq : Under q c) (hact : s.active = true) (hqa : ¬ q.n < apex.n) :
    runRed depth apex d F (q :: L) (ensureLevels d s c) = runRed depth apex d F (q :: L) s := by
  simp only [runRed, redStep_norm depth apex d F s c q hlen hq]
  -- the only place the *old* state is used is the stop branch, which an active state under the apex never takes
  cases hr : redStep depth apex d F s q with
  | error e => rfl
  | ok o =>
    cases o with
    | some v => rfl
    | none =>
      exfalso
      unfold redStep at hr
      rw [hact] at hr
      simp only [Bool.true_eq_false, if_false, hqa] at hr
      repeat' split at hr
      all_goals cases hr

theorem runRed_append (depth : Nat) (apex : Pos) (d : α) (F : Pos → Bool → (Nat → α) → α) :
    ∀ (L1 L2 : List Pos) (s s1 : RState α) (ys1 : List (Pos × Bool × (Nat → α))),
      runRed depth apex d F L1 s = .ok (ys1, s1) → s1.active = true →
      runRed depth apex d F (L1 ++ L2) s =
        (match runRed depth apex d F L2 s1 with
         | .error e => .error e
         | .ok (ys2, s2) => .ok (ys1 ++ ys2, s2)) := by
  intro L1
  induction L1 with
  | nil =>
    intro L2 s s1 ys1 h hact
    simp only [runRed, Except.ok.injEq, Prod.mk.injEq] at h
    obtain ⟨rfl, rfl⟩ := h
    simp only [List.nil_append]
    cases runRed depth apex d F L2 s with
    | error e => rfl
    | ok r => rfl
  | cons p ps ih =>
    intro L2 s s1 ys1 h hact
    simp only [List.cons_append, runRed] at h ⊢
    cases hr : redStep depth apex d F s p with
    | error e => rw [hr] at h; cases h
    | ok o =>
      rw [hr] at h
      cases o with
      | none =>
        simp only [Except.ok.injEq, Prod.mk.injEq] at h
        obtain ⟨_, rfl⟩ := h
        simp at hact
      | some v =>
        obtain ⟨s', y⟩ := v
        simp only at h ⊢
        cases hr2 : runRed depth apex d F ps s' with
        | error e => rw [hr2] at h; cases h
        | ok r =>
          obtain ⟨ys, sf⟩ := r
          rw [hr2] at h
          simp only [Except.ok.injEq, Prod.mk.injEq] at h
          obtain ⟨rfl, rfl⟩ := h
          rw [ih L2 s' sf ys hr2 hact]
          cases runRed depth apex d F L2 sf with
          | error e => rfl
          | ok r2 => rfl

/-! ### The sub-tree lemma -/

/-- normalised input state for the sub-tree of `p`: levels `0 … p.n` exist with the coordinates of `p`'s
ancestors, and level `p.n` is fresh -/
structure ReadyN (d : α) (s : RState α) (p : Pos) : Prop where
  active : s.active = true
  len : s.len = p.n + 1
  coords : CoordsOk s p
  fresh : (s.lv p.n).data = fun _ => d

/-- the state after the sub-tree of a node `p` below the apex: one level popped, `v` stored in the parent's slot -/
structure Done (s s' : RState α) (p : Pos) (v : α) : Prop where
  active : s'.active = true
  len : s'.len = p.n
  below : ∀ k, k + 1 < p.n → s'.lv k = s.lv k
  par : s'.lv (p.n - 1) = { s.lv (p.n - 1) with data := fun j => if j = p.slot then v else (s.lv (p.n - 1)).data j }

/-- between the children of `p`: `i` of them done -/
structure Mid (yld : Pos → Bool) (depth : Nat) (d : α) (F : Pos → Bool → (Nat → α) → α) (f : Nat)
    (s t : RState α) (p : Pos) (i : Nat) : Prop where
  active : t.active = true
  len : t.len = p.n + 1
  below : ∀ k, k < p.n → t.lv k = s.lv k
  topx : (t.lv p.n).x = p.x ∧ (t.lv p.n).y = p.y
  data : ∀ j, (t.lv p.n).data j = if j < i ∧ j < 4 ∧ live yld f (p.child j) = true then val yld depth d F f (p.child j) else d

theorem mid_zero (yld : Pos → Bool) (depth : Nat) (d : α) (F : Pos → Bool → (Nat → α) → α) (f : Nat) (s : RState α) (p : Pos)
    (h : ReadyN d s p) : Mid yld depth d F f s s p 0 := by
  refine ⟨h.active, h.len, fun _ _ => rfl, ?_, ?_⟩
  · have := h.coords p.n (by rw [h.len]; omega)
    rw [anc_self] at this; exact this
  · intro j; rw [h.fresh]; simp

theorem trav_head_under (yld : Pos → Bool) (f : Nat) (c : Pos) (hl : live yld f c = true) :
    ∃ q L, trav yld f c = q :: L ∧ Under q c := by
  have hne : trav yld f c ≠ [] := by
    cases f with
    | zero => simp [live] at hl
    | succ f => simp [live] at hl; simp [trav, hl]
  cases hL : trav yld f c with
  | nil => exact absurd hL hne
  | cons q L => exact ⟨q, L, rfl, mem_trav_under yld f c q (by rw [hL]; simp)⟩

section
variable (yld : Pos → Bool) (depth : Nat) (apex : Pos) (d : α) (F : Pos → Bool → (Nat → α) → α)

/-- the statement proved by induction on the fuel -/
def SubOK (f : Nat) : Prop :=
  ∀ (p : Pos) (s : RState α), ReadyN d s p → live yld f p = true → apex.n ≤ p.n → (p ≠ apex → apex.n < p.n) →
    (p = apex → ∃ sf, runRed depth apex d F (trav yld f p) s = .ok (travI yld depth d F f p, sf) ∧
        sf.active = false ∧ sf.final = val yld depth d F f p) ∧
    (p ≠ apex → ∃ s', runRed depth apex d F (trav yld f p) s = .ok (travI yld depth d F f p, s') ∧
        Done s s' p (val yld depth d F f p))

theorem child_step (f : Nat) (ih : SubOK yld depth apex d F f) (s t : RState α) (p : Pos) (i : Nat) (hi : i < 4)
    (hs : ReadyN d s p) (hap : apex.n ≤ p.n) (hm : Mid yld depth d F f s t p i) :
    ∃ t', runRed depth apex d F (trav yld f (p.child i)) t = .ok (travI yld depth d F f (p.child i), t') ∧
      Mid yld depth d F f s t' p (i + 1) := by
  by_cases hl : live yld f (p.child i) = true
  · -- a live child: normalise, apply the induction hypothesis
    obtain ⟨q, L, hqL, hqu⟩ := trav_head_under yld f (p.child i) hl
    have hcn : (p.child i).n = p.n + 1 := rfl
    have hnorm : runRed depth apex d F (trav yld f (p.child i)) (ensureLevels d t (p.child i)) =
        runRed depth apex d F (trav yld f (p.child i)) t := by
      rw [hqL]
      exact runRed_norm depth apex d F t (p.child i) q L (by rw [hm.len, hcn]; omega) hqu hm.active
        (by have := hqu.1; rw [hcn] at this; omega)
    -- the normalised state
    have hens : ensureLevels d t (p.child i) =
        { t with len := p.n + 2, lv := fun k => if t.len ≤ k ∧ k ≤ p.n + 1 then
            ⟨((p.child i).anc k).x, ((p.child i).anc k).y, fun _ => d⟩ else t.lv k } := by
      unfold ensureLevels
      rw [if_neg (by rw [hm.len, hcn]; omega)]
      rfl
    have hready : ReadyN d (ensureLevels d t (p.child i)) (p.child i) := by
      rw [hens]
      refine ⟨hm.active, rfl, ?_, ?_⟩
      · intro k hk
        simp only at hk ⊢
        by_cases a : t.len ≤ k ∧ k ≤ p.n + 1
        · simp only [a, and_self, if_true]
        · simp only [a, if_false]
          have hk' : k ≤ p.n := by rw [hm.len] at a; omega
          rw [anc_child p i k hi hk']
          by_cases b : k < p.n
          · rw [hm.below k b]; exact hs.coords k (by rw [hs.len]; omega)
          · have : k = p.n := by omega
            subst this; rw [anc_self]; exact hm.topx
      · simp only [hcn]
        have a : t.len ≤ p.n + 1 ∧ p.n + 1 ≤ p.n + 1 := by rw [hm.len]; omega
        simp only [a, and_self, if_true]
    have hne : p.child i ≠ apex := by intro h; rw [← h, hcn] at hap; omega
    obtain ⟨t', hrun, hd⟩ := (ih (p.child i) _ hready hl (by rw [hcn]; omega) (fun _ => by rw [hcn]; omega)).2 hne
    rw [hnorm] at hrun
    refine ⟨t', hrun, ?_⟩
    have hlow : ∀ k, k ≤ p.n → (ensureLevels d t (p.child i)).lv k = t.lv k := by
      intro k hk
      rw [hens]
      simp only
      rw [if_neg (by rw [hm.len]; omega)]
    refine ⟨hd.active, by rw [hd.len, hcn], ?_, ?_, ?_⟩
    · intro k hk
      rw [hd.below k (by rw [hcn]; omega), hlow k (by omega), hm.below k hk]
    · have := hd.par
      rw [hcn] at this
      simp only [Nat.add_sub_cancel] at this
      rw [this, hlow p.n (Nat.le_refl _)]
      exact hm.topx
    · intro j
      have := hd.par
      rw [hcn] at this
      simp only [Nat.add_sub_cancel] at this
      rw [this, hlow p.n (Nat.le_refl _)]
      simp only
      rw [(C13.parent_child p i hi).2.1]
      by_cases hj : j = i
      · subst hj
        simp [hl, hi]
      · rw [if_neg hj, hm.data j]
        have : (j < i + 1 ∧ j < 4 ∧ live yld f (p.child j) = true) ↔ (j < i ∧ j < 4 ∧ live yld f (p.child j) = true) := by
          constructor
          · rintro ⟨a, b, c⟩; exact ⟨by omega, b, c⟩
          · rintro ⟨a, b, c⟩; exact ⟨by omega, b, c⟩
        simp only [this]
  · -- a pruned child: nothing is fed
    have hl' : live yld f (p.child i) = false := by simpa using hl
    refine ⟨t, by rw [trav_of_not_live yld f _ hl', travI_of_not_live yld depth d F f _ hl']; rfl, ?_⟩
    refine ⟨hm.active, hm.len, hm.below, hm.topx, ?_⟩
    intro j
    rw [hm.data j]
    by_cases hj : j = i
    · subst hj; simp [hl']
    · have : (j < i + 1 ∧ j < 4 ∧ live yld f (p.child j) = true) ↔ (j < i ∧ j < 4 ∧ live yld f (p.child j) = true) := by
        constructor
        · rintro ⟨a, b, c⟩; exact ⟨by omega, b, c⟩
        · rintro ⟨a, b, c⟩; exact ⟨by omega, b, c⟩
      simp only [this]

theorem final_step (f : Nat) (s t : RState α) (p : Pos) (hs : ReadyN d s p) (hm : Mid yld depth d F f s t p 4)
    (hap : apex.n ≤ p.n) :
    (p = apex → ∃ sf, redStep depth apex d F t p = .ok (some (sf, (p, decide (p.n = depth), cdata yld depth d F f p))) ∧
        sf.active = false ∧ sf.final = val yld depth d F (f + 1) p) ∧
    (p ≠ apex → 1 ≤ p.n → ∃ s', redStep depth apex d F t p = .ok (some (s', (p, decide (p.n = depth), cdata yld depth d F f p))) ∧
        Done s s' p (val yld depth d F (f + 1) p)) := by
  have hcd : (t.lv p.n).data = cdata yld depth d F f p := by
    funext j
    rw [hm.data j]
    unfold cdata
    have : (j < 4 ∧ j < 4 ∧ live yld f (p.child j) = true) ↔ (j < 4 ∧ live yld f (p.child j) = true) := by
      constructor
      · rintro ⟨a, _, c⟩; exact ⟨a, c⟩
      · rintro ⟨a, c⟩; exact ⟨a, a, c⟩
    simp only [this]
  have hens : ensureLevels d t p = t := by
    unfold ensureLevels; rw [if_pos (by rw [hm.len]; omega)]
  have h1 : ¬ (t.active = false) := by rw [hm.active]; simp
  have h2 : ¬ (p.n < apex.n) := by omega
  have h3 : ¬ (t.len ≠ p.n + 1) := by rw [hm.len]; simp
  have h4 : ¬ ((t.lv p.n).x ≠ p.x ∨ (t.lv p.n).y ≠ p.y) := by rw [hm.topx.1, hm.topx.2]; simp
  constructor
  · intro hpa
    refine ⟨{ t with len := p.n, active := false, final := F p (decide (p.n = depth)) (t.lv p.n).data }, ?_, rfl, ?_⟩
    · unfold redStep
      rw [if_neg h1, if_neg h2]
      simp only [hens]
      rw [if_neg h3, if_neg h4, if_pos hpa, hcd]
    · simp only [hcd]; rfl
  · intro hpa h1n
    have hpn : p.parent.n = p.n - 1 := rfl
    have hpc : ¬ ((t.lv p.parent.n).x ≠ p.parent.x ∨ (t.lv p.parent.n).y ≠ p.parent.y) := by
      rw [hpn, hm.below (p.n - 1) (by omega)]
      have := hs.coords (p.n - 1) (by rw [hs.len]; omega)
      rw [anc_pred p h1n] at this
      rw [this.1, this.2]; simp
    refine ⟨{ t with len := p.n, lv := (fun k => if k = p.parent.n then
        ({ t.lv p.parent.n with data := (fun j => if j = p.slot then F p (decide (p.n = depth)) (t.lv p.n).data else (t.lv p.parent.n).data j) } : Lvl α)
        else t.lv k) }, ?_, ?_⟩
    · unfold redStep
      rw [if_neg h1, if_neg h2]
      simp only [hens]
      rw [if_neg h3, if_neg h4, if_neg hpa]
      rw [if_neg hpc, hcd]
    · refine ⟨hm.active, rfl, ?_, ?_⟩
      · intro k hk
        simp only
        rw [if_neg (by rw [hpn]; omega), hm.below k (by omega)]
      · simp only [hpn, if_true]
        rw [hm.below (p.n - 1) (by omega), hcd]
        rfl

theorem sub_succ (f : Nat) (ih : SubOK yld depth apex d F f) : SubOK yld depth apex d F (f + 1) := by
  intro p s hs hl hap hne
  have hy : yld p = true := by simp [live] at hl; exact hl
  -- the four children
  obtain ⟨t1, r1, m1⟩ := child_step yld depth apex d F f ih s s p 0 (by omega) hs hap (mid_zero yld depth d F f s p hs)
  obtain ⟨t2, r2, m2⟩ := child_step yld depth apex d F f ih s t1 p 1 (by omega) hs hap m1
  obtain ⟨t3, r3, m3⟩ := child_step yld depth apex d F f ih s t2 p 2 (by omega) hs hap m2
  obtain ⟨t4, r4, m4⟩ := child_step yld depth apex d F f ih s t3 p 3 (by omega) hs hap m3
  have htrav : trav yld (f + 1) p = trav yld f (p.child 0) ++ (trav yld f (p.child 1) ++ (trav yld f (p.child 2) ++ (trav yld f (p.child 3) ++ [p]))) := by
    simp only [trav, hy, if_true, List.append_assoc]
  have htravI : travI yld depth d F (f + 1) p = travI yld depth d F f (p.child 0) ++ (travI yld depth d F f (p.child 1) ++
      (travI yld depth d F f (p.child 2) ++ (travI yld depth d F f (p.child 3) ++ [(p, decide (p.n = depth), cdata yld depth d F f p)]))) := by
    simp only [travI, hy, if_true, List.append_assoc]
  have chain : ∀ (sf : RState α), redStep depth apex d F t4 p = .ok (some (sf, (p, decide (p.n = depth), cdata yld depth d F f p))) →
      runRed depth apex d F (trav yld (f + 1) p) s = .ok (travI yld depth d F (f + 1) p, sf) := by
    intro sf hstep
    have hlast : runRed depth apex d F [p] t4 = .ok ([(p, decide (p.n = depth), cdata yld depth d F f p)], sf) := by
      simp only [runRed, hstep]
    rw [htrav, htravI]
    rw [runRed_append depth apex d F _ _ s t1 _ r1 m1.active]
    rw [runRed_append depth apex d F _ _ t1 t2 _ r2 m2.active]
    rw [runRed_append depth apex d F _ _ t2 t3 _ r3 m3.active]
    rw [runRed_append depth apex d F _ _ t3 t4 _ r4 m4.active]
    rw [hlast]
  obtain ⟨fa, fb⟩ := final_step yld depth apex d F f s t4 p hs m4 hap
  constructor
  · intro hpa
    obtain ⟨sf, hstep, h1, h2⟩ := fa hpa
    exact ⟨sf, chain sf hstep, h1, h2⟩
  · intro hpa
    obtain ⟨s', hstep, hd⟩ := fb hpa (by have := hne hpa; omega)
    exact ⟨s', chain s' hstep, hd⟩

theorem sub_all : ∀ f, SubOK yld depth apex d F f := by
  intro f
  induction f with
  | zero => intro p s _ hl; simp [live] at hl
  | succ f ih => exact sub_succ yld depth apex d F f ih

end

/-! ### Whole runs -/

theorem runRed_inactive (depth : Nat) (apex : Pos) (d : α) (F : Pos → Bool → (Nat → α) → α) (L : List Pos) (s : RState α)
    (h : s.active = false) : ∃ s', runRed depth apex d F L s = .ok ([], s') ∧ s'.active = false ∧ s'.final = s.final := by
  cases L with
  | nil => exact ⟨s, rfl, h, rfl⟩
  | cons q L =>
    refine ⟨{ s with active := false }, ?_, rfl, rfl⟩
    simp only [runRed]
    have : redStep depth apex d F s q = .ok none := by unfold redStep; rw [if_pos h]
    rw [this]

theorem runRed_append_stop (depth : Nat) (apex : Pos) (d : α) (F : Pos → Bool → (Nat → α) → α) :
    ∀ (L1 L2 : List Pos) (s s1 : RState α) (ys1 : List (Pos × Bool × (Nat → α))),
      runRed depth apex d F L1 s = .ok (ys1, s1) → s1.active = false →
      ∃ s2, runRed depth apex d F (L1 ++ L2) s = .ok (ys1, s2) ∧ s2.active = false ∧ s2.final = s1.final := by
  intro L1
  induction L1 with
  | nil =>
    intro L2 s s1 ys1 h hact
    simp only [runRed, Except.ok.injEq, Prod.mk.injEq] at h
    obtain ⟨rfl, rfl⟩ := h
    simpa using runRed_inactive depth apex d F L2 s hact
  | cons p ps ih =>
    intro L2 s s1 ys1 h hact
    simp only [List.cons_append, runRed] at h ⊢
    cases hr : redStep depth apex d F s p with
    | error e => rw [hr] at h; cases h
    | ok o =>
      rw [hr] at h
      cases o with
      | none =>
        simp only [Except.ok.injEq, Prod.mk.injEq] at h
        obtain ⟨rfl, rfl⟩ := h
        exact ⟨_, rfl, rfl, rfl⟩
      | some v =>
        obtain ⟨s', y⟩ := v
        simp only at h ⊢
        cases hr2 : runRed depth apex d F ps s' with
        | error e => rw [hr2] at h; cases h
        | ok r =>
          obtain ⟨ys, sf⟩ := r
          rw [hr2] at h
          simp only [Except.ok.injEq, Prod.mk.injEq] at h
          obtain ⟨rfl, rfl⟩ := h
          obtain ⟨s2, h2, a2, f2⟩ := ih L2 s' sf ys hr2 hact
          exact ⟨s2, by rw [h2], a2, f2⟩

/-- **The iterator computes the fold.**  Started fresh and fed the post-order of the sub-tree under the apex (followed by
anything), the iterator trips no assertion, yields every node of the sub-tree with the values of its accepted children
(the default for the others), stops at the apex, and its final value is the fold at the apex. -/
theorem run_tree (yld : Pos → Bool) (depth : Nat) (apex : Pos) (d : α) (F : Pos → Bool → (Nat → α) → α) (f : Nat)
    (hv : apex.valid) (hl : live yld f apex = true) (rest : List Pos) :
    ∃ sf, runRed depth apex d F (trav yld f apex ++ rest) (RState.init d) = .ok (travI yld depth d F f apex, sf) ∧
      sf.active = false ∧ sf.final = val yld depth d F f apex := by
  obtain ⟨q, L, hqL, hqu⟩ := trav_head_under yld f apex hl
  -- normalise the initial state
  have hnorm : runRed depth apex d F (trav yld f apex ++ rest) (ensureLevels d (RState.init d) apex) =
      runRed depth apex d F (trav yld f apex ++ rest) (RState.init d) := by
    rw [hqL, List.cons_append]
    exact runRed_norm depth apex d F (RState.init d) apex q (L ++ rest) (by simp [RState.init]) hqu rfl (by have := hqu.1; omega)
  have hready : ReadyN d (ensureLevels d (RState.init d) apex) apex := by
    unfold ensureLevels
    by_cases h0 : apex.n < (RState.init d).len
    · rw [if_pos h0]
      have hn : apex.n = 0 := by simp [RState.init] at h0; omega
      refine ⟨rfl, by simp [RState.init, hn], ?_, by simp [RState.init]⟩
      intro k hk
      have hk0 : k = 0 := by simp [RState.init] at hk; omega
      subst hk0
      obtain ⟨hx, hy⟩ := hv
      simp only [anc, RState.init, hn] at *
      simp at hx hy
      simp [hx, hy]
    · rw [if_neg h0]
      refine ⟨rfl, rfl, ?_, ?_⟩
      · intro k hk
        simp only at hk ⊢
        by_cases a : (RState.init d).len ≤ k ∧ k ≤ apex.n
        · simp only [a, and_self, if_true]
        · simp only [a, if_false]
          have hk0 : k = 0 := by simp [RState.init] at a; omega
          subst hk0
          obtain ⟨hx, hy⟩ := hv
          simp only [anc, RState.init, Nat.sub_zero]
          exact ⟨(Nat.div_eq_of_lt hx).symm, (Nat.div_eq_of_lt hy).symm⟩
      · simp only
        have a : (RState.init d).len ≤ apex.n ∧ apex.n ≤ apex.n := by simp [RState.init] at h0 ⊢; omega
        simp only [a, and_self, if_true]
  obtain ⟨sf, hrun, h1, h2⟩ := (sub_all yld depth apex d F f apex _ hready hl (Nat.le_refl _) (fun h => absurd rfl h)).1 rfl
  obtain ⟨s2, hr2, a2, f2⟩ := runRed_append_stop depth apex d F _ rest _ sf _ hrun h1
  rw [hnorm] at hr2
  exact ⟨s2, hr2, a2, by rw [f2, h2]⟩

/-! ### The generators are such traversals -/

theorem postorder_eq_trav : ∀ (f : Nat) (p : Pos), postorder f p = trav (fun _ => true) f p := by
  intro f
  induction f with
  | zero => intro p; rfl
  | succ f ih => intro p; simp only [postorder, trav, ih, if_true]

/-- the acceptance predicate of the TOAST enumeration: levels 0 and 1 are not asked -/
def yldT (acc : Pos → Bool) (p : Pos) : Bool := !(decide (1 < p.n) && !acc p)

theorem postorderT_eq_trav (acc : Pos → Bool) : ∀ (f : Nat) (p : Pos), postorderT acc f p = trav (yldT acc) f p := by
  intro f
  induction f with
  | zero => intro p; rfl
  | succ f ih =>
    intro p
    by_cases h : p.n > 1 ∧ acc p = false
    · have hy : yldT acc p = false := by simp [yldT, h.1, h.2]
      simp [postorderT, trav, h, hy]
    · have hy : yldT acc p = true := by
        by_cases a : 1 < p.n
        · have : acc p = true := by
            cases hb : acc p
            · exact absurd ⟨a, hb⟩ h
            · rfl
          simp [yldT, a, this]
        · simp [yldT, a]
      simp only [postorderT, trav, if_neg h, hy, if_true, ih]

/-- the acceptance predicate of a whole TOAST pyramid (apex = root): the root always, level 1 and below by the filter -/
def yldRoot (acc : Pos → Bool) (p : Pos) : Bool := decide (p.n = 0) || acc p

theorem trav_congr (y1 y2 : Pos → Bool) : ∀ (f : Nat) (p : Pos), (∀ q, Under q p → y1 q = y2 q) → trav y1 f p = trav y2 f p := by
  intro f
  induction f with
  | zero => intro p _; rfl
  | succ f ih =>
    intro p h
    simp only [trav]
    rw [h p (under_refl p)]
    have hc : ∀ i, i < 4 → trav y1 f (p.child i) = trav y2 f (p.child i) :=
      fun i hi => ih _ (fun q hq => h q (under_child q p i hi hq))
    rw [hc 0 (by omega), hc 1 (by omega), hc 2 (by omega), hc 3 (by omega)]

theorem flatMap_filter_eq {β γ : Type} (l : List β) (pr : β → Bool) (g : β → List γ) :
    (l.filter pr).flatMap g = l.flatMap (fun c => if pr c then g c else []) := by
  induction l with
  | nil => rfl
  | cons c l ih =>
    simp only [List.filter_cons, List.flatMap_cons]
    by_cases h : pr c = true
    · simp [h, ih]
    · have h' : pr c = false := by simpa using h
      simp [h', ih]

/-- `generate_tiles_filtered(depth, acc, bottom_only=False)` followed by the root = the post-order of the accepted tree -/
theorem genToast_eq_trav (depth : Nat) (acc : Pos → Bool) :
    genToast depth acc = trav (yldRoot acc) (depth + 1) Pos.root := by
  have hchild : ∀ i, i < 4 → (if acc (Pos.root.child i) = true then postorderT acc depth (Pos.root.child i) else [])
      = trav (yldRoot acc) depth (Pos.root.child i) := by
    intro i hi
    have hcn : (Pos.root.child i).n = 1 := rfl
    cases depth with
    | zero => simp [postorderT, trav]
    | succ f =>
      by_cases ha : acc (Pos.root.child i) = true
      · rw [if_pos ha, postorderT_eq_trav]
        apply trav_congr
        intro q hq
        have hqn : 1 ≤ q.n := by have := hq.1; rw [hcn] at this; exact this
        by_cases h1 : q.n = 1
        · have hqc : q = Pos.root.child i := by
            have := hq.2 1 (by rw [hcn]; omega)
            have e1 : q.anc 1 = q := by rw [← h1]; exact anc_self q
            have e2 : (Pos.root.child i).anc 1 = Pos.root.child i := anc_self _
            rw [e1, e2] at this; exact this
          rw [hqc]
          simp only [yldT, yldRoot, hcn, ha]
          decide
        · have : 1 < q.n := by omega
          have h0 : ¬ (q.n = 0) := by omega
          simp [yldT, yldRoot, this, h0]
      · have ha' : acc (Pos.root.child i) = false := by simpa using ha
        rw [if_neg ha]
        simp only [trav, yldRoot, hcn, ha']
        simp
  have hl : level1 = [Pos.root.child 0, Pos.root.child 1, Pos.root.child 2, Pos.root.child 3] := by
    simp [level1, child, Pos.root]
  unfold genToast
  rw [flatMap_filter_eq, hl]
  simp only [List.flatMap_cons, List.flatMap_nil, List.append_nil]
  rw [hchild 0 (by omega), hchild 1 (by omega), hchild 2 (by omega), hchild 3 (by omega)]
  have hr : yldRoot acc Pos.root = true := by simp [yldRoot, Pos.root]
  simp only [trav, hr, if_true, List.append_assoc]

/-! ### What is in a traversal -/

/-- every position on the way from `p` down to `q` is accepted -/
def PathOk (yld : Pos → Bool) (p q : Pos) : Prop := ∀ k, p.n ≤ k → k ≤ q.n → yld (q.anc k) = true

theorem under_n_eq (q p : Pos) (h : Under q p) (hn : q.n = p.n) : q = p := by
  have := h.2 p.n (Nat.le_refl _)
  rw [← hn, anc_self] at this
  rw [this, hn, anc_self]

/-- a proper descendant of `p` lies under exactly one child of `p` -/
theorem under_child_of (q p : Pos) (h : Under q p) (hn : p.n < q.n) :
    ∃ i, i < 4 ∧ Under q (p.child i) ∧ q.anc (p.n + 1) = p.child i := by
  -- the ancestor of q one level below p
  have hpar : (q.anc (p.n + 1)).parent = p := by
    have e : (q.anc (p.n + 1)).parent = q.anc p.n := by
      simp only [anc, parent, Pos.mk.injEq, Nat.add_sub_cancel, true_and]
      have e1 : q.n - p.n = (q.n - (p.n + 1)) + 1 := by omega
      rw [e1, Nat.pow_succ]
      exact ⟨by rw [Nat.div_div_eq_div_mul], by rw [Nat.div_div_eq_div_mul]⟩
    rw [e, h.2 p.n (Nat.le_refl _), anc_self]
  have hc := C13.child_parent (q.anc (p.n + 1)) (by simp [anc])
  rw [hpar] at hc
  refine ⟨(q.anc (p.n + 1)).slot, by simp only [slot]; omega, ?_, hc.symm⟩
  rw [hc]
  refine ⟨by simp [anc]; omega, ?_⟩
  intro k hk
  simp only [anc] at hk ⊢
  simp only [Pos.mk.injEq, true_and]
  have e1 : q.n - k = (q.n - (p.n + 1)) + (p.n + 1 - k) := by omega
  rw [e1, Nat.pow_add]
  exact ⟨by rw [Nat.div_div_eq_div_mul], by rw [Nat.div_div_eq_div_mul]⟩

theorem anc_anc_under (q c : Pos) (h : Under q c) (k : Nat) (hk : k ≤ c.n) : q.anc k = c.anc k := h.2 k hk

theorem mem_trav (yld : Pos → Bool) : ∀ (f : Nat) (p q : Pos),
    q ∈ trav yld f p ↔ (Under q p ∧ q.n < p.n + f ∧ PathOk yld p q) := by
  intro f
  induction f with
  | zero =>
    intro p q
    simp only [trav, List.not_mem_nil, false_iff]
    rintro ⟨h, hn, _⟩
    have := h.1; omega
  | succ f ih =>
    intro p q
    constructor
    · intro hq
      have hu := mem_trav_under yld (f + 1) p q hq
      simp only [trav] at hq
      split at hq
      · rename_i hy
        simp only [List.mem_append, List.mem_singleton] at hq
        have key : ∀ i, i < 4 → q ∈ trav yld f (p.child i) → (Under q p ∧ q.n < p.n + (f + 1) ∧ PathOk yld p q) := by
          intro i hi hm
          obtain ⟨a, b, c⟩ := (ih (p.child i) q).1 hm
          refine ⟨hu, by simp [child] at b; omega, ?_⟩
          intro k hk1 hk2
          by_cases e : k = p.n
          · subst e; rw [hu.2 p.n (Nat.le_refl _), anc_self]; exact hy
          · exact c k (by simp [child]; omega) hk2
        rcases hq with (((h | h) | h) | h) | h
        · exact key 0 (by omega) h
        · exact key 1 (by omega) h
        · exact key 2 (by omega) h
        · exact key 3 (by omega) h
        · subst h
          refine ⟨hu, by omega, ?_⟩
          intro k hk1 hk2
          have : k = q.n := by omega
          subst this; rw [anc_self]; exact hy
      · cases hq
    · rintro ⟨hu, hn, hp⟩
      have hy : yld p = true := by
        have := hp p.n (Nat.le_refl _) hu.1
        rw [hu.2 p.n (Nat.le_refl _), anc_self] at this; exact this
      simp only [trav, hy, if_true, List.mem_append, List.mem_singleton]
      by_cases e : q.n = p.n
      · right; exact under_n_eq q p hu e
      · have hlt : p.n < q.n := by have := hu.1; omega
        obtain ⟨i, hi, hci, _⟩ := under_child_of q p hu hlt
        have hm : q ∈ trav yld f (p.child i) := by
          rw [ih]
          refine ⟨hci, by simp [child]; omega, ?_⟩
          intro k hk1 hk2
          exact hp k (by simp [child] at hk1; omega) hk2
        have : i = 0 ∨ i = 1 ∨ i = 2 ∨ i = 3 := by omega
        rcases this with rfl | rfl | rfl | rfl
        · left; left; left; left; exact hm
        · left; left; left; right; exact hm
        · left; left; right; exact hm
        · left; right; exact hm

theorem trav_sublist (yld : Pos → Bool) : ∀ (f : Nat) (p : Pos), (trav yld f p).Sublist (trav (fun _ => true) f p) := by
  intro f
  induction f with
  | zero => intro p; exact List.Sublist.refl _
  | succ f ih =>
    intro p
    simp only [trav, if_true]
    split
    · exact ((((ih _).append (ih _)).append (ih _)).append (ih _)).append (List.Sublist.refl _)
    · exact List.nil_sublist _

theorem trav_nodup (yld : Pos → Bool) (f : Nat) (p : Pos) : (trav yld f p).Nodup := by
  have h := C13.nodup_postorder f p
  rw [postorder_eq_trav] at h
  exact (trav_sublist yld f p).nodup h

/-! ### Fuel aligned with the depth: what is yielded, as a function of the position alone -/

/-- the entry yielded for position `q` when the traversal is cut at `depth` -/
def entry (yld : Pos → Bool) (depth : Nat) (d : α) (F : Pos → Bool → (Nat → α) → α) (q : Pos) : Pos × Bool × (Nat → α) :=
  (q, decide (q.n = depth), cdata yld depth d F (depth - q.n) q)

theorem travI_eq_map (yld : Pos → Bool) (depth : Nat) (d : α) (F : Pos → Bool → (Nat → α) → α) :
    ∀ (f : Nat) (p : Pos), f + p.n = depth + 1 →
      travI yld depth d F f p = (trav yld f p).map (entry yld depth d F) := by
  intro f
  induction f with
  | zero => intro p _; rfl
  | succ f ih =>
    intro p hal
    have hc : ∀ i, travI yld depth d F f (p.child i) = (trav yld f (p.child i)).map (entry yld depth d F) :=
      fun i => ih (p.child i) (by simp [child]; omega)
    simp only [travI, trav]
    split
    · simp only [List.map_append, List.map_cons, List.map_nil, hc]
      have : f = depth - p.n := by omega
      simp only [entry, this]
    · rfl

/-- the value of the fold at a yielded position (fuel aligned with the depth) -/
def valAt (yld : Pos → Bool) (depth : Nat) (d : α) (F : Pos → Bool → (Nat → α) → α) (q : Pos) : α :=
  val yld depth d F (depth + 1 - q.n) q

theorem F_entry (yld : Pos → Bool) (depth : Nat) (d : α) (F : Pos → Bool → (Nat → α) → α) (q : Pos) (hq : q.n ≤ depth) :
    F (entry yld depth d F q).1 (entry yld depth d F q).2.1 (entry yld depth d F q).2.2 = valAt yld depth d F q := by
  unfold valAt entry
  have : depth + 1 - q.n = (depth - q.n) + 1 := by omega
  rw [this, val_succ]

theorem mem_trav_level (yld : Pos → Bool) (f : Nat) (p q : Pos) (depth : Nat) (hal : f + p.n = depth + 1)
    (h : q ∈ trav yld f p) : q.n ≤ depth := by
  have := ((mem_trav yld f p q).1 h).2.1; omega

/-! ### The walk's liveness flag: "some leaf at the target depth lies below" -/

theorem valW_iff (yld : Pos → Bool) (depth : Nat) : ∀ (f : Nat) (p : Pos), f + p.n = depth + 1 → live yld f p = true →
    (val yld depth false fWalk f p = true ↔ ∃ q ∈ trav yld f p, q.n = depth) := by
  intro f
  induction f with
  | zero => intro p _ hl; simp [live] at hl
  | succ f ih =>
    intro p hal hl
    have hy : yld p = true := by simp [live] at hl; exact hl
    rw [val_succ]
    simp only [fWalk]
    by_cases hd : p.n = depth
    · simp only [hd, decide_true, if_true, true_iff]
      exact ⟨p, by simp [trav, hy], hd⟩
    · simp only [hd, decide_false, Bool.false_eq_true, if_false]
      have hcd : ∀ i, i < 4 → (cdata yld depth false fWalk f p i = true ↔ ∃ q ∈ trav yld f (p.child i), q.n = depth) := by
        intro i hi
        unfold cdata
        by_cases hli : live yld f (p.child i) = true
        · rw [if_pos ⟨hi, hli⟩]
          exact ih (p.child i) (by simp [child]; omega) hli
        · have hli' : live yld f (p.child i) = false := by simpa using hli
          rw [if_neg (fun h => hli h.2), trav_of_not_live yld f _ hli']
          simp
      simp only [Bool.or_eq_true]
      rw [hcd 0 (by omega), hcd 1 (by omega), hcd 2 (by omega), hcd 3 (by omega)]
      simp only [trav, hy, if_true, List.mem_append, List.mem_singleton]
      constructor
      · rintro (((⟨q, hq, hn⟩ | ⟨q, hq, hn⟩) | ⟨q, hq, hn⟩) | ⟨q, hq, hn⟩)
        · exact ⟨q, Or.inl (Or.inl (Or.inl (Or.inl hq))), hn⟩
        · exact ⟨q, Or.inl (Or.inl (Or.inl (Or.inr hq))), hn⟩
        · exact ⟨q, Or.inl (Or.inl (Or.inr hq)), hn⟩
        · exact ⟨q, Or.inl (Or.inr hq), hn⟩
      · rintro ⟨q, hq, hn⟩
        rcases hq with (((hq | hq) | hq) | hq) | hq
        · exact Or.inl (Or.inl (Or.inl ⟨q, hq, hn⟩))
        · exact Or.inl (Or.inl (Or.inr ⟨q, hq, hn⟩))
        · exact Or.inl (Or.inr ⟨q, hq, hn⟩)
        · exact Or.inr ⟨q, hq, hn⟩
        · subst hq; exact absurd hn hd

/-! ### The generic generator -/

def shift (apex q : Pos) : Pos := ⟨q.n + apex.n, q.x + apex.x * 2 ^ q.n, q.y + apex.y * 2 ^ q.n⟩

theorem shift_child (apex q : Pos) (k : Nat) : shift apex (q.child k) = (shift apex q).child k := by
  simp only [shift, child, Pos.mk.injEq, Nat.pow_succ]
  refine ⟨by omega, ?_, ?_⟩
  · have : apex.x * (2 ^ q.n * 2) = 2 * (apex.x * 2 ^ q.n) := by ac_rfl
    omega
  · have : apex.y * (2 ^ q.n * 2) = 2 * (apex.y * 2 ^ q.n) := by ac_rfl
    omega

theorem map_shift_postorder (apex : Pos) : ∀ (f : Nat) (q : Pos),
    (postorder f q).map (shift apex) = postorder f (shift apex q) := by
  intro f
  induction f with
  | zero => intro q; rfl
  | succ f ih => intro q; simp only [postorder, List.map_append, List.map_cons, List.map_nil, ih, shift_child]

theorem genSub_form (depth : Nat) (apex : Pos) (hv : apex.valid) (hd : apex.n ≤ depth) :
    ∃ rest, genSub depth apex = trav (fun _ => true) (depth + 1 - apex.n) apex ++ rest := by
  unfold genSub
  by_cases h0 : apex.n = 0
  · rw [if_pos h0]
    have : apex = Pos.root := by
      obtain ⟨hx, hy⟩ := hv
      cases apex with | mk n x y =>
      simp only at h0 hx hy
      subst h0
      simp at hx hy
      simp [Pos.root, hx, hy]
    subst this
    exact ⟨[], by simp [genPos, postorder_eq_trav, Pos.root]⟩
  · rw [if_neg h0]
    refine ⟨ancestorsUp apex.n apex, ?_⟩
    congr 1
    have e : (fun p : Pos => (⟨p.n + apex.n, p.x + apex.x * 2 ^ p.n, p.y + apex.y * 2 ^ p.n⟩ : Pos)) = shift apex := rfl
    rw [e, genPos, map_shift_postorder, postorder_eq_trav]
    have e2 : shift apex Pos.root = apex := by cases apex; simp [shift, Pos.root]
    have e3 : depth - apex.n + 1 = depth + 1 - apex.n := by omega
    rw [e2, e3]

/-! ### Serial `visit_leaves` and serial `walk` -/

/-- whether the tree below `q` (cut at `depth`) contains a position of level `depth` -/
def hasLeaf (yld : Pos → Bool) (depth : Nat) (q : Pos) : Bool := valAt yld depth false fWalk q

theorem hasLeaf_iff (yld : Pos → Bool) (depth : Nat) (q : Pos) (hq : q.n ≤ depth) (hy : yld q = true) :
    hasLeaf yld depth q = true ↔ ∃ r ∈ trav yld (depth + 1 - q.n) q, r.n = depth := by
  unfold hasLeaf valAt
  exact valW_iff yld depth (depth + 1 - q.n) q (by omega) (by simp [live, hy]; omega)

theorem leaves_of_run (yld : Pos → Bool) (depth : Nat) (apex : Pos) (hv : apex.valid) (hd : apex.n ≤ depth) (hy : yld apex = true)
    (rest : List Pos) (L : List Pos) (hL : L = trav yld (depth + 1 - apex.n) apex ++ rest) :
    (match runRed depth apex () (fun _ _ _ => ()) L (RState.init ()) with
      | .error e => .error e
      | .ok (ys, _) => .ok ((ys.filter (fun y => y.2.1)).map (·.1)))
      = (.ok ((trav yld (depth + 1 - apex.n) apex).filter (fun q => q.n == depth)) : Except RErr (List Pos)) := by
  obtain ⟨sf, hrun, _, _⟩ := run_tree yld depth apex () (fun _ _ _ => ()) (depth + 1 - apex.n) hv (by simp [live, hy]; omega) rest
  rw [hL, hrun]
  simp only
  rw [travI_eq_map yld depth () _ _ apex (by omega)]
  congr 1
  rw [List.filter_map, List.map_map]
  have : (Prod.fst ∘ entry yld depth () fun _ _ _ => ()) = id := by funext q; rfl
  rw [this, List.map_id]
  apply List.filter_congr
  intro q _
  simp only [entry, Function.comp]
  by_cases hd' : q.n = depth <;> simp [hd']

theorem walk_of_run (yld : Pos → Bool) (depth : Nat) (apex : Pos) (hv : apex.valid) (hd : apex.n ≤ depth) (hy : yld apex = true)
    (rest : List Pos) (L : List Pos) (hL : L = trav yld (depth + 1 - apex.n) apex ++ rest) :
    (match runRed depth apex false fWalk L (RState.init false) with
      | .error e => .error e
      | .ok (ys, _) => .ok ((ys.filter (fun y => !y.2.1 && fWalk y.1 y.2.1 y.2.2)).map (·.1)))
      = (.ok ((trav yld (depth + 1 - apex.n) apex).filter (fun q => !(q.n == depth) && hasLeaf yld depth q)) : Except RErr (List Pos)) := by
  obtain ⟨sf, hrun, _, _⟩ := run_tree yld depth apex false fWalk (depth + 1 - apex.n) hv (by simp [live, hy]; omega) rest
  rw [hL, hrun]
  simp only
  rw [travI_eq_map yld depth false fWalk _ apex (by omega)]
  congr 1
  rw [List.filter_map, List.map_map]
  have : (Prod.fst ∘ entry yld depth false fWalk) = id := by funext q; rfl
  rw [this, List.map_id]
  apply List.filter_congr
  intro q hq
  have hqd := mem_trav_level yld _ apex q depth (by omega) hq
  simp only [Function.comp]
  rw [F_entry yld depth false fWalk q hqd]
  simp only [entry, hasLeaf]
  by_cases hd' : q.n = depth <;> simp [hd']

/-- **Serial `visit_leaves` on a generic (sub-)pyramid** visits exactly the positions of level `depth` below the apex,
in generator order. -/
theorem serialLeaves_generic (depth : Nat) (apex : Pos) (hv : apex.valid) (hd : apex.n ≤ depth) :
    serialLeaves depth apex none = .ok ((trav (fun _ => true) (depth + 1 - apex.n) apex).filter (fun q => q.n == depth)) := by
  obtain ⟨rest, hg⟩ := genSub_form depth apex hv hd
  exact leaves_of_run (fun _ => true) depth apex hv hd rfl rest _ hg

/-- **Serial `visit_leaves` on a (filtered) TOAST pyramid** visits exactly the accepted positions of level `depth`
whose ancestors from level 1 on are all accepted. -/
theorem serialLeaves_toast (depth : Nat) (acc : Pos → Bool) :
    serialLeaves depth Pos.root (some acc) =
      .ok ((trav (yldRoot acc) (depth + 1) Pos.root).filter (fun q => q.n == depth)) := by
  have hg : generator depth Pos.root (some acc) = trav (yldRoot acc) (depth + 1 - Pos.root.n) Pos.root ++ [] := by
    simp only [generator, Pos.root, decide_true, Bool.true_or, Bool.true_and, List.append_nil]
    exact genToast_eq_trav depth acc
  exact leaves_of_run (yldRoot acc) depth Pos.root (by simp [valid, Pos.root]) (Nat.zero_le _) (by simp [yldRoot, Pos.root]) [] _ hg

/-- **Serial `walk`**: the callback runs for exactly the non-leaf positions that have a leaf of level `depth` below them,
in post-order (children before parents). -/
theorem serialWalk_generic (depth : Nat) (apex : Pos) (hv : apex.valid) (hd : apex.n ≤ depth) :
    serialWalk depth apex none =
      .ok ((trav (fun _ => true) (depth + 1 - apex.n) apex).filter (fun q => !(q.n == depth) && hasLeaf (fun _ => true) depth q)) := by
  obtain ⟨rest, hg⟩ := genSub_form depth apex hv hd
  exact walk_of_run (fun _ => true) depth apex hv hd rfl rest _ hg

theorem serialWalk_toast (depth : Nat) (acc : Pos → Bool) :
    serialWalk depth Pos.root (some acc) =
      .ok ((trav (yldRoot acc) (depth + 1) Pos.root).filter (fun q => !(q.n == depth) && hasLeaf (yldRoot acc) depth q)) := by
  have hg : generator depth Pos.root (some acc) = trav (yldRoot acc) (depth + 1 - Pos.root.n) Pos.root ++ [] := by
    simp only [generator, Pos.root, decide_true, Bool.true_or, Bool.true_and, List.append_nil]
    exact genToast_eq_trav depth acc
  exact walk_of_run (yldRoot acc) depth Pos.root (by simp [valid, Pos.root]) (Nat.zero_le _) (by simp [yldRoot, Pos.root]) [] _ hg

/-! ### non-vacuity -/

/-- the leaf counter of a generic pyramid of depth 2, run through the iterator model, ends with 16 -/
example : (match runRed 2 Pos.root 0 fLeaf (genPos 2) (RState.init 0) with
    | .ok (ys, sf) => some (ys.length, sf.final, sf.active)
    | .error _ => none) = some (21, 16, false) := by decide

/-- a filtered TOAST pyramid of depth 2 accepting (1,1,0) and its child (2,2,1): serial walk = [(1,1,0), root] -/
example : (match serialWalk 2 Pos.root (some (fun p => p == ⟨1, 1, 0⟩ || p == ⟨2, 2, 1⟩)) with
    | .ok l => some l
    | .error _ => none) = some [⟨1, 1, 0⟩, ⟨0, 0, 0⟩] := by decide

end Red
