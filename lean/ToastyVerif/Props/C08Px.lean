/-
C08, pixel level — what `StudyTiling.tile_image` writes into each tile.

`tile_image` fills a (reused) 256×256 maskable buffer from the image rectangle of each populated
position and writes it; for bottom-up formats the buffer rows are addressed by the reversed slice
`255 − tile_y : 255 − tile_y − height : −1`.  With the C15 model of `fill_into_maskable_buffer`
(generated from image.py) this file states, for every rectangle, mode and parity, what the written
tile shows at each display position, and — with the C08 rectangle theorems — that the tiles
reassemble to the image centred in the square with everything else undefined.
-/
import ToastyVerif.Props.C08
import ToastyVerif.Props.C15

namespace C08Px
open PixelBase Pixels Gen Gen.StudyTiling

/-- the indexers `tile_image` hands to `fill_into_maskable_buffer` for a rectangle of `w × h` pixels at image
`(ix, iy)` and tile `(bx, by)` (top-down coordinates) -/
def rectOf (invert : Bool) (ix iy bx by_ w h : Nat) : Rect :=
  ⟨if invert then sliceRev (255 - by_) iy h else sliceFwd by_ iy h, sliceFwd bx ix w⟩

/-- the tile as stored -/
def storedTile (m : ModeSem) (invert : Bool) (ix iy bx by_ w h : Nat) (src : Img) : Img :=
  fill m (rectOf invert ix iy bx by_ w h) src

/-- the tile as displayed: bottom-up formats show stored row `255 − r` at display row `r` -/
def displayed (invert : Bool) (t : Img) : Img := fun r c => if invert then t (255 - r) c else t r c

/-- the reversed slice is the generated `by_row`: image row `iy + k` goes to buffer row `by_row invert by h k` -/
theorem by_row_matches (invert : Bool) (by_ h k : Nat) (hk : k < h) (hfit : by_ + h ≤ 256) :
    (by_row invert (by_ : Int) (h : Int) (k : Int)) = (if invert then ((255 - by_ - k : Nat) : Int) else ((by_ + k : Nat) : Int)) := by
  unfold by_row flip_tile_y1
  cases invert <;> simp <;> omega

theorem sliceRev_flip (by_ iy h r : Nat) (hr : r < 256) (hfit : by_ + h ≤ 256) :
    sliceRev (255 - by_) iy h (255 - r) = if by_ ≤ r ∧ r < by_ + h then some (iy + (r - by_)) else none := by
  unfold sliceRev
  by_cases h1 : by_ ≤ r ∧ r < by_ + h
  · have a : 255 - r ≤ 255 - by_ ∧ 255 - by_ < 255 - r + h := by omega
    have e : 255 - by_ - (255 - r) = r - by_ := by omega
    rw [if_pos a, if_pos h1, e]
  · have a : ¬ (255 - r ≤ 255 - by_ ∧ 255 - by_ < 255 - r + h) := by omega
    rw [if_neg a, if_neg h1]

theorem ite_congr_both {β : Type} (A B : Prop) [Decidable A] [Decidable B] (x y o : β) (hiff : A ↔ B) (hxy : A → x = y) :
    (if A then x else o) = (if B then y else o) := by
  by_cases hA : A
  · rw [if_pos hA, if_pos (hiff.1 hA), hxy hA]
  · rw [if_neg hA, if_neg (fun hB => hA (hiff.2 hB))]

/-- **What a written tile shows.**  For every mode and both parities, display position `(r, c)` of the tile holds the
image pixel `(iy + (r − by), ix + (c − bx))` (through the mode's `fillInside`) when it lies in the rectangle, and the
mode's undefined value otherwise. -/
theorem tile_display_pixel (m : ModeSem) (invert : Bool) (ix iy bx by_ w h : Nat) (src : Img)
    (hfy : by_ + h ≤ 256) (r c : Nat) (hr : r < 256) :
    displayed invert (storedTile m invert ix iy bx by_ w h src) r c =
      if by_ ≤ r ∧ r < by_ + h ∧ bx ≤ c ∧ c < bx + w then m.fillInside (src (iy + (r - by_)) (ix + (c - bx)))
      else m.fillOutside := by
  have hrow : (if invert then sliceRev (255 - by_) iy h else sliceFwd by_ iy h) (if invert then 255 - r else r) =
      if by_ ≤ r ∧ r < by_ + h then some (iy + (r - by_)) else none := by
    cases invert
    · rfl
    · exact sliceRev_flip by_ iy h r hr hfy
  have hcol : sliceFwd bx ix w c = if bx ≤ c ∧ c < bx + w then some (ix + (c - bx)) else none := rfl
  have hd : displayed invert (storedTile m invert ix iy bx by_ w h src) r c =
      storedTile m invert ix iy bx by_ w h src (if invert then 255 - r else r) c := by
    unfold displayed; cases invert <;> rfl
  rw [hd]
  unfold storedTile fill rectOf Rect.src
  simp only [hrow, hcol]
  by_cases h1 : by_ ≤ r ∧ r < by_ + h
  · by_cases h2 : bx ≤ c ∧ c < bx + w
    · have h12 : by_ ≤ r ∧ r < by_ + h ∧ bx ≤ c ∧ c < bx + w := ⟨h1.1, h1.2, h2.1, h2.2⟩
      rw [if_pos h1, if_pos h2, if_pos h12]
    · have h12 : ¬ (by_ ≤ r ∧ r < by_ + h ∧ bx ≤ c ∧ c < bx + w) := fun x => h2 ⟨x.2.2.1, x.2.2.2⟩
      rw [if_pos h1, if_neg h2, if_neg h12]
  · have h12 : ¬ (by_ ≤ r ∧ r < by_ + h ∧ bx ≤ c ∧ c < bx + w) := fun x => h1 ⟨x.1, x.2.1⟩
    rw [if_neg h1, if_neg h12]

/-- **Reassembly.**  Let `t` be the tiling of a `W × H` image.  For a populated position `e` of `t` and a display
position `(r, c)` of its tile, the written tile shows the image pixel at global coordinates
`(256·tx + c − gx0, 256·ty + r − gy0)` when that lies inside the image, and the undefined value otherwise — for both
parities.  Since the rectangles partition the image (`C08.rects_partition`), the tiles put side by side are the image
centred in the power-of-two square with everything around it undefined. -/
theorem reassemble (m : ModeSem) (invert : Bool) (t : StudyTiling) (hwf : C08.WF t) (e : C08.Entry)
    (he : e ∈ generate_populated_positions t) (src : Img) (r c : Nat) (hr : r < 256) (hc : c < 256) :
    displayed invert (storedTile m invert e.ix.toNat e.iy.toNat e.bx.toNat e.by.toNat e.w.toNat e.h.toNat src) r c =
      (if 0 ≤ 256 * e.tx + (c : Int) - t.img_gx0 ∧ 256 * e.tx + (c : Int) - t.img_gx0 < t.width ∧
          0 ≤ 256 * e.ty + (r : Int) - t.img_gy0 ∧ 256 * e.ty + (r : Int) - t.img_gy0 < t.height
       then m.fillInside (src (256 * e.ty + (r : Int) - t.img_gy0).toNat (256 * e.tx + (c : Int) - t.img_gx0).toNat)
       else m.fillOutside) := by
  obtain ⟨h1, h2, h3, h4, h5, h6, h7, h8, h9, h10, h11, h12, _, h14, h15⟩ := C08.rects_inside t hwf e he
  obtain ⟨w1, hh1, gx, gy⟩ := hwf
  rw [tile_display_pixel m invert _ _ _ _ _ _ src (by omega) r c hr]
  obtain ⟨ity, itx, a1, a2, a3, a4, rfl⟩ := (C08.mem_rects t e).1 he
  simp only [C08.entryOf, C08.Entry.w, C08.Entry.h, C08.Entry.bx, C08.Entry.by, C08.Entry.ix, C08.Entry.iy, C08.Entry.tx, C08.Entry.ty]
  apply ite_congr_both
  · omega
  · intro hA
    congr 2 <;> omega

/-! ### non-vacuity -/

/-- a 3-row rectangle at tile row 10 in a bottom-up tile: display row 11 shows image row `iy + 1`, which is stored row 244 -/
example : sliceRev (255 - 10) 7 3 244 = some 8 ∧ sliceRev (255 - 10) 7 3 (255 - 11) = some (7 + (11 - 10)) := by decide

end C08Px
