/-
C19, liveness half, second part — a failing stage has no livelock either.

`C19.projects` maps every execution with failing callbacks onto an execution of the failure-free hand-off protocol;
`C03Bound.effective_steps_bounded` bounds the non-polling transitions of the latter.  The two extra kinds of transition (the
parent's final look at the error event, the parent's own loop raising) end the execution: nothing is enabled after them.
-/
import ToastyVerif.Props.C19Live
import ToastyVerif.Props.C03Bound

namespace C19Bound
open Stage C19

/-- the transitions of a failing stage that are not steps of a worker's polling loop -/
def effE : LE → Bool
  | .base l => C03Bound.eff l
  | _ => true

/-- the two transitions by which the parent finishes -/
def isFinal : LE → Bool
  | .check => true
  | .loadFail => true
  | _ => false

/-- once the parent has finished (raised or returned) nothing more happens -/
theorem finished_stops (s : SE) (h : s.outcome ≠ none) (l : LE) : stepE s l = none := by
  cases l <;> simp [stepE, h]

/-- `check` and `loadFail` end the execution: the rest of the trace is empty -/
theorem final_is_last : ∀ (tr : List LE) (s s' : SE), runE s tr = some s' →
    (tr.filter isFinal).length ≤ 1 := by
  intro tr
  induction tr with
  | nil => intro _ _ _; simp
  | cons l ls ih =>
    intro s s' h
    simp only [runE] at h
    cases hst : stepE s l with
    | none => rw [hst] at h; cases h
    | some z =>
      rw [hst] at h
      have hrest := ih z s' h
      by_cases hl : isFinal l = true
      · -- after `l` the outcome is set, so `ls` must be empty
        have hz : z.outcome ≠ none := by
          cases l with
          | base b => simp [isFinal] at hl
          | cbFail k i => simp [isFinal] at hl
          | check =>
            simp only [stepE] at hst
            split at hst
            · simp only [Option.some.injEq] at hst; subst hst; simp
            · cases hst
          | loadFail =>
            simp only [stepE] at hst
            split at hst
            · simp only [Option.some.injEq] at hst; subst hst; simp
            · cases hst
        cases ls with
        | nil => simp [List.filter_cons, hl]
        | cons m ms =>
          simp only [runE] at h
          rw [finished_stops z hz m] at h; cases h
      · simp only [List.filter_cons, hl]; exact hrest

theorem filter_effE_le (tr : List LE) :
    (tr.filter effE).length ≤ ((tr.flatMap proj).filter C03Bound.eff).length + (tr.filter isFinal).length := by
  induction tr with
  | nil => simp
  | cons l ls ih =>
    cases l with
    | base b =>
      by_cases hb : C03Bound.eff b = true
      · simp [List.filter_cons, effE, proj, hb, isFinal]; omega
      · simp [List.filter_cons, effE, proj, hb, isFinal]; omega
    | cbFail k i => simp [List.filter_cons, effE, proj, C03Bound.eff, isFinal]; omega
    | check => simp [List.filter_cons, effE, proj, isFinal]; omega
    | loadFail => simp [List.filter_cons, effE, proj, isFinal]; omega

/-- **failing_effective_steps_bounded**: whatever fails and whenever, an execution of a stage with `n` workers over `items`
contains at most `4·|items| + 4·n + 6` transitions outside the workers' polling loop. -/
theorem failing_effective_steps_bounded (n cap : Nat) (items : List Nat) (tr : List LE) (s : SE)
    (h : runE (initE n cap items) tr = some s) : (tr.filter effE).length ≤ 4 * items.length + 4 * n + 6 := by
  have h1 := projects tr _ s h
  have h2 := C03Bound.effective_steps_bounded n cap true items _ _ h1
  have h3 := final_is_last tr _ s h
  have h4 := filter_effE_le tr
  omega

/-- non-vacuity: one worker, one item whose callback raises -/
example : ∃ s, runE (initE 1 0 [7]) [.base (.start 0), .base (.begin 0), .base (.put 7), .base .flush, .base (.flagQ 0 false),
    .base (.rlock 0), .base (.recv 0 7), .cbFail 0 7] = some s ∧ s.failed = [7] := ⟨_, rfl, rfl⟩

end C19Bound
