/-
C05 — the pixel grid of a tile is the set of centres of the tiles eight levels deeper.

`Toast.subsample` is the recursion of `_libtoasty._subsample` with the sub-corner tables extracted
from the .pyx text on every run (`Gen.Toast.sub4_*`, `sub_centre_*`); `Toast.tileAt` is the Python
side (`_div4`).  The two subdivisions are written independently in the code base (`mid(ul, ll)` in
one, `mid(ll, ul)` in the other) and agree exactly when the midpoint is commutative — the one
hypothesis `hcomm`.  The theorems hold for every grid size `2^k`, every tile and every pixel.

Numerical part left to the harness: the pixel centre lies inside the tile and inside the latitude
range of its corners (a statement about `_mid` on floats).
-/
import ToastyVerif.Props.C04
import ToastyVerif.Gen.Plumbing

namespace C05
open Toast ToastBase

variable {P : Type} (mid : P → P → P) (vtx : Vtx → P) (pl : Bool)

/-! ### Obligations on the extracted tables -/

theorem sub4_inc (q : Quad P) :
    applyRow mid q ((sub4Table true).getD 0 idRow) = ⟨q.ul, mid q.ul q.ur, mid q.ll q.ur, mid q.ul q.ll⟩ ∧
    applyRow mid q ((sub4Table true).getD 1 idRow) = ⟨mid q.ul q.ur, q.ur, mid q.ur q.lr, mid q.ll q.ur⟩ ∧
    applyRow mid q ((sub4Table true).getD 2 idRow) = ⟨mid q.ul q.ll, mid q.ll q.ur, mid q.ll q.lr, q.ll⟩ ∧
    applyRow mid q ((sub4Table true).getD 3 idRow) = ⟨mid q.ll q.ur, mid q.ur q.lr, q.lr, mid q.ll q.lr⟩ ∧
    evalCE mid q (subCentre true) = mid q.ll q.ur :=
  ⟨rfl, rfl, rfl, rfl, rfl⟩

theorem sub4_dec (q : Quad P) :
    applyRow mid q ((sub4Table false).getD 0 idRow) = ⟨q.ul, mid q.ul q.ur, mid q.ul q.lr, mid q.ul q.ll⟩ ∧
    applyRow mid q ((sub4Table false).getD 1 idRow) = ⟨mid q.ul q.ur, q.ur, mid q.ur q.lr, mid q.ul q.lr⟩ ∧
    applyRow mid q ((sub4Table false).getD 2 idRow) = ⟨mid q.ul q.ll, mid q.ul q.lr, mid q.ll q.lr, q.ll⟩ ∧
    applyRow mid q ((sub4Table false).getD 3 idRow) = ⟨mid q.ul q.lr, mid q.ur q.lr, q.lr, mid q.ll q.lr⟩ ∧
    evalCE mid q (subCentre false) = mid q.ul q.lr :=
  ⟨rfl, rfl, rfl, rfl, rfl⟩

/-- the extracted wrapper fact: `toast_tile_get_coords(tile)` is `subsample(corners, 256, increasing)` -/
theorem get_coords_is_subsample : Gen.Toast.get_coords_is_subsample_256 = true := rfl

/-- **The compiled subdivision and the Python subdivision agree** (for both diagonal orientations):
the quadrant (row-half, column-half) of the output arrays is filled from the corners of the child
`2·row-half + column-half`, i.e. the child at (x, y) = (column-half, row-half). -/
theorem sub4_eq_div4 (hcomm : ∀ a b, mid a b = mid b a) (inc : Bool) (q : Quad P) (r : Nat) (hr : r < 4) :
    applyRow mid q ((sub4Table inc).getD r idRow) = childQuad mid inc q r := by
  have : r = 0 ∨ r = 1 ∨ r = 2 ∨ r = 3 := by omega
  cases inc <;> rcases this with h | h | h | h <;> subst h
  · rw [(sub4_dec mid q).1, (C04.childQuad_dec mid q).1, hcomm q.ul q.ll]
  · rw [(sub4_dec mid q).2.1, (C04.childQuad_dec mid q).2.1]
  · rw [(sub4_dec mid q).2.2.1, (C04.childQuad_dec mid q).2.2.1, hcomm q.ul q.ll, hcomm q.ll q.lr]
  · rw [(sub4_dec mid q).2.2.2.1, (C04.childQuad_dec mid q).2.2.2, hcomm q.ll q.lr]
  · rw [(sub4_inc mid q).1, (C04.childQuad_inc mid q).1, hcomm q.ul q.ll]
  · rw [(sub4_inc mid q).2.1, (C04.childQuad_inc mid q).2.1]
  · rw [(sub4_inc mid q).2.2.1, (C04.childQuad_inc mid q).2.2.1, hcomm q.ul q.ll, hcomm q.ll q.lr]
  · rw [(sub4_inc mid q).2.2.2.1, (C04.childQuad_inc mid q).2.2.2, hcomm q.ll q.lr]

/-- the centre of a tile: the point its four children share -/
def centre (t : Tile P) : P := (childQuad mid t.inc t.q 0).lr

theorem subCentre_eq (inc : Bool) (q : Quad P) : evalCE mid q (subCentre inc) = (childQuad mid inc q 0).lr := by
  cases inc
  · rw [(sub4_dec mid q).2.2.2.2, (C04.childQuad_dec mid q).1]
  · rw [(sub4_inc mid q).2.2.2.2, (C04.childQuad_inc mid q).1]

/-! ### The theorem -/

/-- **Pixel (row `i`, column `j`) of the `2^k × 2^k` grid of the tile at `(n, x, y)` is the centre
of the tile at `(n + k, 2^k·x + j, 2^k·y + i)`.** -/
theorem subsample_eq_centres (hcomm : ∀ a b, mid a b = mid b a) : ∀ (k n x y i j : Nat),
    1 ≤ n → x < 2 ^ n → y < 2 ^ n → i < 2 ^ k → j < 2 ^ k →
    subsample mid (tileAt mid vtx pl n x y).inc k (tileAt mid vtx pl n x y).q i j =
      centre mid (tileAt mid vtx pl (n + k) (2 ^ k * x + j) (2 ^ k * y + i)) := by
  intro k
  induction k with
  | zero =>
    intro n x y i j _ _ _ hi hj
    have : i = 0 := by simpa using hi
    have : j = 0 := by simpa using hj
    subst_vars
    simp only [subsample, centre, Nat.pow_zero, Nat.one_mul, Nat.add_zero]
    exact subCentre_eq mid _ _
  | succ k ih =>
    intro n x y i j hn hx hy hi hj
    have hp : (2 : Nat) ^ (k + 1) = 2 * 2 ^ k := by rw [Nat.pow_succ, Nat.mul_comm]
    have hpn : (2 : Nat) ^ (n + 1) = 2 * 2 ^ n := by rw [Nat.pow_succ, Nat.mul_comm]
    have hpos : 0 < 2 ^ k := Nat.pos_of_ne_zero (by simp)
    obtain ⟨hg, _⟩ := C04.tileAt_good mid vtx pl n x y hn hx hy
    -- the quadrant and the child it is filled from
    let bi := if i < 2 ^ k then 0 else 1
    let bj := if j < 2 ^ k then 0 else 1
    have hbi : bi < 2 := by simp only [bi]; split <;> omega
    have hbj : bj < 2 := by simp only [bj]; split <;> omega
    have hr : (if i < 2 ^ k then 0 else 2) + (if j < 2 ^ k then 0 else 1) = 2 * bi + bj := by
      simp only [bi, bj]; split <;> split <;> rfl
    have hi' : i = bi * 2 ^ k + i % 2 ^ k := by
      simp only [bi]; split
      · rw [Nat.mod_eq_of_lt (by assumption)]; omega
      · rw [Nat.mod_eq_sub_mod (by omega), Nat.mod_eq_of_lt (by omega)]; omega
    have hj' : j = bj * 2 ^ k + j % 2 ^ k := by
      simp only [bj]; split
      · rw [Nat.mod_eq_of_lt (by assumption)]; omega
      · rw [Nat.mod_eq_sub_mod (by omega), Nat.mod_eq_of_lt (by omega)]; omega
    have hchild := (C04.good_child mid vtx pl _ hg (2 * bi + bj) (by omega)).2.2
    simp only [Pos.child] at hchild
    have e1 : (2 * bi + bj) % 2 = bj := by omega
    have e2 : (2 * bi + bj) / 2 = bi := by omega
    rw [(C04.tileAt_good mid vtx pl n x y hn hx hy).2] at hchild
    simp only [e1, e2] at hchild
    -- unfold one level of the compiled recursion
    rw [subsample]
    rw [hr, sub4_eq_div4 mid hcomm _ _ _ (by omega)]
    have hq : childQuad mid (tileAt mid vtx pl n x y).inc (tileAt mid vtx pl n x y).q (2 * bi + bj)
        = (tileAt mid vtx pl (n + 1) (2 * x + bj) (2 * y + bi)).q := by rw [← hchild]
    have hinc : (tileAt mid vtx pl n x y).inc = (tileAt mid vtx pl (n + 1) (2 * x + bj) (2 * y + bi)).inc := by
      rw [← hchild]
    rw [hq, hinc]
    rw [ih (n + 1) (2 * x + bj) (2 * y + bi) (i % 2 ^ k) (j % 2 ^ k) (by omega) (by omega) (by omega)
      (Nat.mod_lt _ hpos) (Nat.mod_lt _ hpos)]
    have a1 : n + 1 + k = n + (k + 1) := by omega
    have a2 : 2 ^ k * (2 * x + bj) + j % 2 ^ k = 2 ^ (k + 1) * x + j := by
      rw [hp, Nat.mul_add]
      have : 2 ^ k * (2 * x) = 2 * 2 ^ k * x := by ac_rfl
      rw [this]
      have : 2 ^ k * bj = bj * 2 ^ k := Nat.mul_comm _ _
      omega
    have a3 : 2 ^ k * (2 * y + bi) + i % 2 ^ k = 2 ^ (k + 1) * y + i := by
      rw [hp, Nat.mul_add]
      have : 2 ^ k * (2 * y) = 2 * 2 ^ k * y := by ac_rfl
      rw [this]
      have : 2 ^ k * bi = bi * 2 ^ k := Nat.mul_comm _ _
      omega
    rw [a1, a2, a3]

/-- **C05 as stated**: the coordinates `toast_tile_get_coords` reports for pixel (row `i`, column `j`)
of the tile at `(n, x, y)` are the centre of the tile at `(n + 8, 256·x + j, 256·y + i)`. -/
theorem pixel_is_deep_centre (hcomm : ∀ a b, mid a b = mid b a) (n x y i j : Nat)
    (hn : 1 ≤ n) (hx : x < 2 ^ n) (hy : y < 2 ^ n) (hi : i < 256) (hj : j < 256) :
    subsample mid (tileAt mid vtx pl n x y).inc 8 (tileAt mid vtx pl n x y).q i j =
      centre mid (tileAt mid vtx pl (n + 8) (256 * x + j) (256 * y + i)) :=
  subsample_eq_centres mid vtx pl hcomm 8 n x y i j hn hx hy (by simpa using hi) (by simpa using hj)

/-- the centre of the tile at `(m, X, Y)` is the vertex `(2X+1, 2Y+1)` of the next grid -/
theorem centre_is_vertex (hcomm : ∀ a b, mid a b = mid b a) (m X Y : Nat) (hm : 1 ≤ m) (hX : X < 2 ^ m) (hY : Y < 2 ^ m) :
    centre mid (tileAt mid vtx pl m X Y) = V mid vtx pl (m + 1) (2 * X + 1) (2 * Y + 1) := by
  have := (C04.children_tile_parent mid vtx pl hcomm m X Y hm hX hY)
  simp only at this
  have h0 := (C04.tileAt_cell mid vtx pl hcomm (m + 1) (2 * X) (2 * Y) (by omega)
    (by rw [Nat.pow_succ]; omega) (by rw [Nat.pow_succ]; omega)).1
  obtain ⟨hg, hp⟩ := C04.tileAt_good mid vtx pl m X Y hm hX hY
  have hc := (C04.good_child mid vtx pl _ hg 0 (by omega)).2.2
  simp only [Pos.child, hp] at hc
  unfold centre
  have : (childQuad mid (tileAt mid vtx pl m X Y).inc (tileAt mid vtx pl m X Y).q 0)
      = (tileAt mid vtx pl (m + 1) (2 * X + 0 % 2) (2 * Y + 0 / 2)).q := by rw [← hc]
  rw [this]
  simp only [Nat.zero_mod, Nat.zero_div, Nat.add_zero]
  rw [h0]
  rfl

/-- **One global pixelisation.**  The value at pixel (row `i`, column `j`) of tile `(n, x, y)` is a
function of the depth `n + 8` and the global pixel coordinates `(256·x + j, 256·y + i)` alone: it is
the vertex `(2·(256x+j)+1, 2·(256y+i)+1)` of the level-`(n+9)` vertex grid. -/
theorem pixel_global (hcomm : ∀ a b, mid a b = mid b a) (n x y i j : Nat)
    (hn : 1 ≤ n) (hx : x < 2 ^ n) (hy : y < 2 ^ n) (hi : i < 256) (hj : j < 256) :
    subsample mid (tileAt mid vtx pl n x y).inc 8 (tileAt mid vtx pl n x y).q i j =
      V mid vtx pl (n + 9) (2 * (256 * x + j) + 1) (2 * (256 * y + i) + 1) := by
  rw [pixel_is_deep_centre mid vtx pl hcomm n x y i j hn hx hy hi hj]
  have h8 : (2 : Nat) ^ (n + 8) = 256 * 2 ^ n := by rw [Nat.pow_add]; omega
  rw [centre_is_vertex mid vtx pl hcomm (n + 8) _ _ (by omega) (by omega) (by omega)]

/-- the level-0 tile (`_level0_coords`): pixel (row `i`, column `j`) of the whole-sphere tile sampled
at `2^(k+1)` pixels is the centre of the level-`(k+1)` tile at `(j, i)`; with `k = 7`, the 256 × 256
pixels of tile (0,0,0) are the centres of the 65536 level-8 tiles, as for every other tile. -/
theorem level0_is_deep_centre (hcomm : ∀ a b, mid a b = mid b a) (k i j : Nat) (hi : i < 2 ^ (k + 1)) (hj : j < 2 ^ (k + 1)) :
    level0Coords mid vtx pl k i j = centre mid (tileAt mid vtx pl (1 + k) j i) := by
  have hp : (2 : Nat) ^ (k + 1) = 2 * 2 ^ k := by rw [Nat.pow_succ, Nat.mul_comm]
  have hpos : 0 < 2 ^ k := Nat.pos_of_ne_zero (by simp)
  have hi2 : i / 2 ^ k < 2 := by rw [Nat.div_lt_iff_lt_mul hpos]; omega
  have hj2 : j / 2 ^ k < 2 := by rw [Nat.div_lt_iff_lt_mul hpos]; omega
  unfold level0Coords
  simp only
  have ht : (level1 vtx pl).getD ((i / 2 ^ k) * 2 + j / 2 ^ k) (dummy vtx) = tileAt mid vtx pl 1 (j / 2 ^ k) (i / 2 ^ k) := by
    simp only [tileAt]
    rw [Nat.mod_eq_of_lt hi2, Nat.mod_eq_of_lt hj2]
  rw [ht, subsample_eq_centres mid vtx pl hcomm k 1 (j / 2 ^ k) (i / 2 ^ k) (i % 2 ^ k) (j % 2 ^ k) (by omega)
    (by simpa using hj2) (by simpa using hi2) (Nat.mod_lt _ hpos) (Nat.mod_lt _ hpos)]
  have e1 : 2 ^ k * (j / 2 ^ k) + j % 2 ^ k = j := Nat.div_add_mod _ _
  have e2 : 2 ^ k * (i / 2 ^ k) + i % 2 ^ k = i := Nat.div_add_mod _ _
  rw [e1, e2]

/-! ### non-vacuity -/

/-- with the commutative midpoint of `C04.vtxN`: the 4 × 4 grid of tile (1, 1, 0), row 2, column 3, is the centre of tile (3, 7, 2) -/
example : subsample (· + ·) (tileAt (· + ·) C04.vtxN false 1 1 0).inc 2 (tileAt (· + ·) C04.vtxN false 1 1 0).q 2 3 =
    centre (· + ·) (tileAt (· + ·) C04.vtxN false 3 7 2) := by decide

/-- **entry_points**: the call sites through which this property's workflows reach the modelled functions have, in the source as
it is now, the argument plumbing the model assumes (facts re-extracted on every run, `Gen/Plumbing.lean`) -/
theorem entry_points : Gen.Plumbing.sample_layer_forwards_coordsys = true ∧ Gen.Plumbing.sample_layer_filtered_forwards_coordsys = true ∧ Gen.Plumbing.builder_toast_base_forwards_coordsys = true := by decide

end C05
