/-
C01, liveness half, second part — in every execution of the parallel walk only polling can repeat.

Counterpart of `Props/C03Bound.lean` for the walk dispatcher and its workers.  A potential (distance of every operation's
phase from `retired`, the dispatcher's remaining program, the workers' start-up) that no transition increases and that every
transition outside the two polling loops decreases: of the 22 kinds of transition only the dispatcher's `dlock` / `dempty`
and the workers' `rlock` / `rlockTimeout` / `rempty` / `flagQ` can occur more than `8·|ops| + 4·n + 11` times altogether in
any execution.
-/
import ToastyVerif.Props.C01Live

namespace C01Bound
open Walk C01 C01Live

def startW : W → Nat
  | .notStarted => 2
  | .ready => 1
  | _ => 0

/-- the dispatcher's remaining program; the three states of its polling loop weigh the same -/
def pcVal (n : Nat) : PC → Nat
  | .seeding _ => 2 * n + 11
  | .starting j => 2 * n + 10 - j
  | .idle => n + 8
  | .dlocked => n + 8
  | .releasing _ => n + 8
  | .closing => n + 7
  | .closed => n + 6
  | .joined => n + 5
  | .joining j => n + 1 - j
  | .returned => 0

def pcPot (s : S) : Nat := pcVal s.n s.pc

def psi (ops : List Pos) (s : S) : Nat := phaseW ops s + pcPot s + sumWk s startW

/-- the transitions outside the polling loops -/
def eff : L → Bool
  | .dlock | .dempty | .rlock _ | .rlockTimeout _ | .rempty _ | .flagQ _ _ => false
  | _ => true

theorem phase_dec (ops : List Pos) (s s' : S) (p : Pos) (f : Phase) (hnd : ops.Nodup) (hp : p ∈ ops)
    (hph : s'.ph = fun q => if q = p then f else s.ph q) (hr : f.rank = (s.ph p).rank + 1) :
    phaseW ops s' + 1 = phaseW ops s := by
  have := sumP_setPh ops s s' phW p f hnd hp hph
  have h8 : f.rank ≤ 8 := by cases f <;> simp [Phase.rank]
  unfold phaseW
  simp only [phW] at this
  omega

theorem phase_same (ops : List Pos) (s s' : S) (hph : s'.ph = s.ph) : phaseW ops s' = phaseW ops s := by
  unfold phaseW sumP; rw [hph]

theorem sumWk_same (s s' : S) (hn : s'.n = s.n) (hws : s'.ws = s.ws) : sumWk s' startW = sumWk s startW := by
  unfold sumWk; rw [hn, hws]

theorem sumWk_w0 (s s' : S) (k : Nat) (w : W) (hk : k < s.n) (hn : s'.n = s.n)
    (hws : s'.ws = fun j => if j = k then w else s.ws j) (h0 : startW (s.ws k) = 0) (h1 : startW w = 0) :
    sumWk s' startW = sumWk s startW := by
  have := sumWk_setW s s' startW k w hk hn hws
  omega

theorem pcPot_same (s s' : S) (hn : s'.n = s.n) (hpc : s'.pc = s.pc) : pcPot s' = pcPot s := by
  unfold pcPot; rw [hpc, hn]

/-- **psi_step**: no transition increases the potential; every transition outside the polling loops decreases it -/
theorem psi_step (ops : List Pos) (depth : Nat) (s s' : S) (l : L) (hnd : ops.Nodup) (hi : InvPh ops depth s)
    (hs : step s l = some s') : psi ops s' + (if eff l then 1 else 0) ≤ psi ops s := by
  cases l with
  | seed p =>
    obtain ⟨rest, hpc, hw, hph, hpc', _, _, hws, hn, _⟩ := seed_effect s s' p hs
    have hp : p ∈ ops := (hi.seeding _ hpc p (by simp)).1
    have e1 := phase_dec ops s s' p .rbuf hnd hp hph (by rw [hw]; rfl)
    have e2 := sumWk_same s s' hn hws
    have e3 : pcPot s' ≤ pcPot s := by
      unfold pcPot; rw [hpc', hpc, hn]
      by_cases e : rest = []
      · simp only [e, if_true, pcVal]; omega
      · simp only [e, if_false, pcVal]; omega
    show psi ops s' + 1 ≤ psi ops s
    unfold psi; omega
  | start k =>
    simp only [step] at hs
    split at hs
    · rename_i hg
      obtain ⟨hpc, hk, hw⟩ := hg
      simp only [Option.some.injEq] at hs
      have h := hs
      have e1 := phase_same ops s s' (by subst h; rfl)
      have e2 := sumWk_setW s s' startW k .ready hk (by subst h; rfl) (by subst h; rfl)
      rw [hw] at e2
      have e2' : sumWk s' startW + 2 = sumWk s startW + 1 := e2
      have e3 : pcPot s' + 1 ≤ pcPot s := by
        unfold pcPot; rw [show s'.n = s.n from (by subst h; rfl), show s'.pc = (if k + 1 = s.n then PC.idle else PC.starting (k + 1)) from (by subst h; rfl), hpc]
        by_cases e : k + 1 = s.n
        · simp only [e, if_true, pcVal]; omega
        · simp only [e, if_false, pcVal]; omega
      show psi ops s' + 1 ≤ psi ops s
      unfold psi; omega
    · cases hs
  | begin k =>
    simp only [step] at hs
    split at hs
    · rename_i hg
      obtain ⟨hk, hw⟩ := hg
      simp only [Option.some.injEq] at hs
      have h := hs
      have e1 := phase_same ops s s' (by subst h; rfl)
      have e2 := sumWk_setW s s' startW k .top hk (by subst h; rfl) (by subst h; rfl)
      rw [hw] at e2
      have e2' : sumWk s' startW + 1 = sumWk s startW + 0 := e2
      have e3 := pcPot_same s s' (by subst h; rfl) (by subst h; rfl)
      show psi ops s' + 1 ≤ psi ops s
      unfold psi; omega
    · cases hs
  | rflush p =>
    simp only [step] at hs
    split at hs
    · rename_i hg
      simp only [Option.some.injEq] at hs
      have h := hs
      have hp : p ∈ ops := (by
        by_cases hp : p ∈ ops
        · exact hp
        · have hw := hi.outside p hp
          rw [hw] at hg; cases hg)
      have e1 := phase_dec ops s s' p .rpipe hnd hp (by subst h; rfl) (by rw [hg]; rfl)
      have e2 := sumWk_same s s' (by subst h; rfl) (by subst h; rfl)
      have e3 := pcPot_same s s' (by subst h; rfl) (by subst h; rfl)
      show psi ops s' + 1 ≤ psi ops s
      unfold psi; omega
    · cases hs
  | dflush k p =>
    simp only [step] at hs
    split at hs
    · rename_i hg
      simp only [Option.some.injEq] at hs
      have h := hs
      have hp : p ∈ ops := (by
        by_cases hp : p ∈ ops
        · exact hp
        · have hw := hi.outside p hp
          rw [hw] at hg; cases hg)
      have e1 := phase_dec ops s s' p .dpipe hnd hp (by subst h; rfl) (by rw [hg]; rfl)
      have e2 := sumWk_same s s' (by subst h; rfl) (by subst h; rfl)
      have e3 := pcPot_same s s' (by subst h; rfl) (by subst h; rfl)
      show psi ops s' + 1 ≤ psi ops s
      unfold psi; omega
    · cases hs
  | dlock =>
    simp only [step] at hs
    split at hs
    · rename_i hg
      simp only [Option.some.injEq] at hs
      have h := hs
      have e1 := phase_same ops s s' (by subst h; rfl)
      have e2 := sumWk_same s s' (by subst h; rfl) (by subst h; rfl)
      have e3 : pcPot s' = pcPot s := by
        unfold pcPot; rw [show s'.n = s.n from (by subst h; rfl), show s'.pc = PC.dlocked from (by subst h; rfl), hg]; simp only [pcVal] <;> omega
      show psi ops s' + 0 ≤ psi ops s
      unfold psi; omega
    · cases hs
  | dempty =>
    simp only [step] at hs
    split at hs
    · rename_i hg
      simp only [Option.some.injEq] at hs
      have h := hs
      have e1 := phase_same ops s s' (by subst h; rfl)
      have e2 := sumWk_same s s' (by subst h; rfl) (by subst h; rfl)
      have e3 : pcPot s' = pcPot s := by
        unfold pcPot; rw [show s'.n = s.n from (by subst h; rfl), show s'.pc = PC.idle from (by subst h; rfl), hg]; simp only [pcVal] <;> omega
      show psi ops s' + 0 ≤ psi ops s
      unfold psi; omega
    · cases hs
  | drecv p =>
    obtain ⟨hpc, hd, hph, _, hws, hn, _, _, _, _, hcase⟩ := drecv_effect s s' p hs
    have hp : p ∈ ops := (by
        by_cases hp : p ∈ ops
        · exact hp
        · have hw := hi.outside p hp
          rw [hw] at hd; cases hd)
    have e1 := phase_dec ops s s' p .retired hnd hp hph (by rw [hd]; rfl)
    have e2 := sumWk_same s s' hn hws
    have e3 : pcPot s' ≤ pcPot s := by
      unfold pcPot; rw [hpc, hn]
      rcases hcase with ⟨_, hc, _⟩ | ⟨_, _, ⟨_, hc⟩ | ⟨_, hc⟩⟩
      · rw [hc]; simp only [pcVal] <;> omega
      · rw [hc]; simp only [pcVal] <;> omega
      · rw [hc]; simp only [pcVal] <;> omega
    show psi ops s' + 1 ≤ psi ops s
    unfold psi; omega
  | release p =>
    simp only [step] at hs
    split at hs
    · rename_i hg
      obtain ⟨hpc, hw⟩ := hg
      simp only [Option.some.injEq] at hs
      have h := hs
      have hp : p ∈ ops := (hi.releasing p hpc).1
      have e1 := phase_dec ops s s' p .rbuf hnd hp (by subst h; rfl) (by rw [hw]; rfl)
      have e2 := sumWk_same s s' (by subst h; rfl) (by subst h; rfl)
      have e3 : pcPot s' = pcPot s := by
        unfold pcPot; rw [show s'.n = s.n from (by subst h; rfl), show s'.pc = PC.idle from (by subst h; rfl), hpc]; simp only [pcVal] <;> omega
      show psi ops s' + 1 ≤ psi ops s
      unfold psi; omega
    · cases hs
  | close =>
    simp only [step] at hs
    split at hs
    · rename_i hg
      simp only [Option.some.injEq] at hs
      have h := hs
      have e1 := phase_same ops s s' (by subst h; rfl)
      have e2 := sumWk_same s s' (by subst h; rfl) (by subst h; rfl)
      have e3 : pcPot s' + 1 = pcPot s := by
        unfold pcPot; rw [show s'.n = s.n from (by subst h; rfl), show s'.pc = PC.closed from (by subst h; rfl), hg]; simp only [pcVal] <;> omega
      show psi ops s' + 1 ≤ psi ops s
      unfold psi; omega
    · cases hs
  | joinThread =>
    simp only [step] at hs
    split at hs
    · rename_i hg
      simp only [Option.some.injEq] at hs
      have h := hs
      have e1 := phase_same ops s s' (by subst h; rfl)
      have e2 := sumWk_same s s' (by subst h; rfl) (by subst h; rfl)
      have e3 : pcPot s' + 1 = pcPot s := by
        unfold pcPot; rw [show s'.n = s.n from (by subst h; rfl), show s'.pc = PC.joined from (by subst h; rfl), hg]; simp only [pcVal] <;> omega
      show psi ops s' + 1 ≤ psi ops s
      unfold psi; omega
    · cases hs
  | setFlag =>
    simp only [step] at hs
    split at hs
    · rename_i hg
      simp only [Option.some.injEq] at hs
      have h := hs
      have e1 := phase_same ops s s' (by subst h; rfl)
      have e2 := sumWk_same s s' (by subst h; rfl) (by subst h; rfl)
      have e3 : pcPot s' + 1 ≤ pcPot s := by
        unfold pcPot; rw [show s'.n = s.n from (by subst h; rfl), show s'.pc = PC.joining 0 from (by subst h; rfl), hg]; simp only [pcVal] <;> omega
      show psi ops s' + 1 ≤ psi ops s
      unfold psi; omega
    · cases hs
  | join k =>
    simp only [step] at hs
    split at hs
    · rename_i hg
      obtain ⟨hpc, hk, _⟩ := hg
      simp only [Option.some.injEq] at hs
      have h := hs
      have e1 := phase_same ops s s' (by subst h; rfl)
      have e2 := sumWk_same s s' (by subst h; rfl) (by subst h; rfl)
      have e3 : pcPot s' + 1 ≤ pcPot s := by
        unfold pcPot; rw [show s'.n = s.n from (by subst h; rfl), show s'.pc = (if k + 1 = s.n then PC.returned else PC.joining (k + 1)) from (by subst h; rfl), hpc]
        by_cases e : k + 1 = s.n
        · simp only [e, if_true, pcVal]; omega
        · simp only [e, if_false, pcVal]; omega
      show psi ops s' + 1 ≤ psi ops s
      unfold psi; omega
    · cases hs
  | rlock k =>
    simp only [step] at hs
    split at hs
    · rename_i hg
      obtain ⟨hk, _, hw⟩ := hg
      simp only [Option.some.injEq] at hs
      have h := hs
      have e1 := phase_same ops s s' (by subst h; rfl)
      have e2 := sumWk_w0 s s' k .locked hk (by subst h; rfl) (by subst h; rfl) (by rw [hw]; rfl) rfl
      have e3 := pcPot_same s s' (by subst h; rfl) (by subst h; rfl)
      show psi ops s' + 0 ≤ psi ops s
      unfold psi; omega
    · cases hs
  | rlockTimeout k =>
    simp only [step] at hs
    split at hs
    · rename_i hg
      obtain ⟨hk, _, hw⟩ := hg
      simp only [Option.some.injEq] at hs
      have h := hs
      have e1 := phase_same ops s s' (by subst h; rfl)
      have e2 := sumWk_w0 s s' k .afterEmpty hk (by subst h; rfl) (by subst h; rfl) (by rw [hw]; rfl) rfl
      have e3 := pcPot_same s s' (by subst h; rfl) (by subst h; rfl)
      show psi ops s' + 0 ≤ psi ops s
      unfold psi; omega
    · cases hs
  | rempty k =>
    simp only [step] at hs
    split at hs
    · rename_i hg
      obtain ⟨hk, _, hw⟩ := hg
      simp only [Option.some.injEq] at hs
      have h := hs
      have e1 := phase_same ops s s' (by subst h; rfl)
      have e2 := sumWk_w0 s s' k .afterEmpty hk (by subst h; rfl) (by subst h; rfl) (by rw [hw]; rfl) rfl
      have e3 := pcPot_same s s' (by subst h; rfl) (by subst h; rfl)
      show psi ops s' + 0 ≤ psi ops s
      unfold psi; omega
    · cases hs
  | rrecv k p =>
    simp only [step] at hs
    split at hs
    · rename_i hg
      obtain ⟨hk, _, hw, hr⟩ := hg
      simp only [Option.some.injEq] at hs
      have h := hs
      have hp : p ∈ ops := (by
        by_cases hp : p ∈ ops
        · exact hp
        · have hw := hi.outside p hp
          rw [hw] at hr; cases hr)
      have e1 := phase_dec ops s s' p (.have k) hnd hp (by subst h; rfl) (by rw [hr]; rfl)
      have e2 := sumWk_w0 s s' k .busy hk (by subst h; rfl) (by subst h; rfl) (by rw [hw]; rfl) rfl
      have e3 := pcPot_same s s' (by subst h; rfl) (by subst h; rfl)
      show psi ops s' + 1 ≤ psi ops s
      unfold psi; omega
    · cases hs
  | flagQ k b =>
    simp only [step] at hs
    split at hs
    · rename_i hg
      obtain ⟨hk, _, hw⟩ := hg
      simp only [Option.some.injEq] at hs
      have h := hs
      have e1 := phase_same ops s s' (by subst h; rfl)
      have e2 := sumWk_w0 s s' k (if b then .exited else .top) hk (by subst h; rfl) (by subst h; rfl) (by rw [hw]; rfl) (by cases b <;> rfl)
      have e3 := pcPot_same s s' (by subst h; rfl) (by subst h; rfl)
      show psi ops s' + 0 ≤ psi ops s
      unfold psi; omega
    · cases hs
  | cbBegin k p =>
    simp only [step] at hs
    split at hs
    · rename_i hg
      obtain ⟨hk, hr⟩ := hg
      simp only [Option.some.injEq] at hs
      have h := hs
      have hp : p ∈ ops := (by
        by_cases hp : p ∈ ops
        · exact hp
        · have hw := hi.outside p hp
          rw [hw] at hr; cases hr)
      have e1 := phase_dec ops s s' p (.running k) hnd hp (by subst h; rfl) (by rw [hr]; rfl)
      have e2 := sumWk_same s s' (by subst h; rfl) (by subst h; rfl)
      have e3 := pcPot_same s s' (by subst h; rfl) (by subst h; rfl)
      show psi ops s' + 1 ≤ psi ops s
      unfold psi; omega
    · cases hs
  | cbEnd k p =>
    simp only [step] at hs
    split at hs
    · rename_i hg
      obtain ⟨hk, hr⟩ := hg
      simp only [Option.some.injEq] at hs
      have h := hs
      have hp : p ∈ ops := (by
        by_cases hp : p ∈ ops
        · exact hp
        · have hw := hi.outside p hp
          rw [hw] at hr; cases hr)
      have e1 := phase_dec ops s s' p (.ran k) hnd hp (by subst h; rfl) (by rw [hr]; rfl)
      have e2 := sumWk_same s s' (by subst h; rfl) (by subst h; rfl)
      have e3 := pcPot_same s s' (by subst h; rfl) (by subst h; rfl)
      show psi ops s' + 1 ≤ psi ops s
      unfold psi; omega
    · cases hs
  | dput k p =>
    simp only [step] at hs
    split at hs
    · rename_i hg
      obtain ⟨hk, hr, hw, _⟩ := hg
      simp only [Option.some.injEq] at hs
      have h := hs
      have hp : p ∈ ops := (by
        by_cases hp : p ∈ ops
        · exact hp
        · have hw := hi.outside p hp
          rw [hw] at hr; cases hr)
      have e1 := phase_dec ops s s' p (.dbuf k) hnd hp (by subst h; rfl) (by rw [hr]; rfl)
      have e2 := sumWk_w0 s s' k .top hk (by subst h; rfl) (by subst h; rfl) (by rw [hw]; rfl) rfl
      have e3 := pcPot_same s s' (by subst h; rfl) (by subst h; rfl)
      show psi ops s' + 1 ≤ psi ops s
      unfold psi; omega
    · cases hs

/-- along any execution from a state satisfying the invariants, the transitions outside the polling loops are paid for by
the potential -/
theorem run_eff_bound (ops : List Pos) (apex : Pos) (depth : Nat) (seeds : List Pos) (pre : Pos → Nat)
    (cfg : Cfg ops apex depth seeds pre) : ∀ (tr : List L) (s s' : S), AllInv ops apex depth s → run s tr = some s' →
    (tr.filter eff).length + psi ops s' ≤ psi ops s := by
  intro tr
  induction tr with
  | nil => intro s s' _ h; simp only [run, Option.some.injEq] at h; subst h; simp
  | cons l ls ih =>
    intro s s' hall h
    simp only [run] at h
    cases hst : step s l with
    | none => rw [hst] at h; cases h
    | some z =>
      rw [hst] at h
      have h1 := ih z s' (all_step ops apex depth seeds pre cfg s z l hall hst) h
      have h2 := psi_step ops depth s z l cfg.nodup hall.ph hst
      by_cases he : eff l = true
      · simp only [he, if_true] at h2
        simp only [List.filter_cons, he, if_true, List.length_cons]; omega
      · simp only [he] at h2
        simp only [List.filter_cons, he]; simp only [Bool.false_eq_true, if_false] at h2 ⊢; omega

theorem sumP_const (ops : List Pos) (s : S) (g : Phase → Nat) (c : Nat) (h : ∀ q ∈ ops, g (s.ph q) = c) :
    sumP ops s g = c * ops.length := by
  unfold sumP
  induction ops with
  | nil => simp
  | cons a as ih =>
    simp only [List.map_cons, List.sum_cons, List.length_cons]
    rw [ih (fun q hq => h q (List.mem_cons_of_mem a hq)), h a (by simp), Nat.mul_succ]; omega

theorem sumWk_const (s : S) (g : W → Nat) (c : Nat) (h : ∀ k, g (s.ws k) = c) : sumWk s g = c * s.n := by
  unfold sumWk
  generalize s.n = n
  induction n with
  | zero => rfl
  | succ n ih =>
    rw [List.range_succ, List.map_append, List.sum_append, ih]
    simp only [List.map_cons, List.map_nil, List.sum_cons, List.sum_nil, h]
    rw [Nat.mul_succ]; omega

theorem psi_init (ops : List Pos) (n cap : Nat) (apex : Pos) (seeds : List Pos) (pre : Pos → Nat) :
    psi ops (init n cap apex seeds pre) ≤ 8 * ops.length + 4 * n + 11 := by
  have h1 : phaseW ops (init n cap apex seeds pre) = 8 * ops.length := sumP_const ops _ phW 8 (fun _ _ => rfl)
  have h2 : sumWk (init n cap apex seeds pre) startW = 2 * n := sumWk_const _ startW 2 (fun _ => rfl)
  have h3 : pcPot (init n cap apex seeds pre) ≤ 2 * n + 11 := by
    unfold pcPot
    show pcVal n (if seeds = [] then PC.starting 0 else PC.seeding seeds) ≤ 2 * n + 11
    by_cases e : seeds = []
    · simp only [e, if_true, pcVal]; omega
    · simp only [e, if_false, pcVal]; omega
  unfold psi; omega

/-- **effective_steps_bounded**: in ANY execution of the parallel walk over the operations `ops` with `n` workers — whatever
the interleaving and however long — at most `8·|ops| + 4·n + 11` transitions are not steps of the dispatcher's or a worker's
polling loop. -/
theorem effective_steps_bounded (ops : List Pos) (apex : Pos) (depth : Nat) (seeds : List Pos) (pre : Pos → Nat)
    (cfg : Cfg ops apex depth seeds pre) (hsn : seeds.Nodup)
    (hchild : ∀ p ∈ ops, p.n + 1 < depth → ∃ k, k < 4 ∧ p.child k ∈ ops)
    (n cap : Nat) (hn : 0 < n) (tr : List L) (s : S) (h : run (init n cap apex seeds pre) tr = some s) :
    (tr.filter eff).length ≤ 8 * ops.length + 4 * n + 11 := by
  have h1 := run_eff_bound ops apex depth seeds pre cfg tr _ s (all_init ops apex depth seeds pre cfg hsn hchild n cap hn) h
  have h2 := psi_init ops n cap apex seeds pre
  omega

/-- **only_polling_can_repeat**: every execution prefix of the walk contains a bounded number of non-polling transitions and
can still be completed (`par_walk_progress`) with the callback run exactly once for every operation: an unfair scheduler can
keep the dispatcher and the workers polling, and nothing else. -/
theorem only_polling_can_repeat (ops : List Pos) (apex : Pos) (depth : Nat) (seeds : List Pos) (pre : Pos → Nat)
    (cfg : Cfg ops apex depth seeds pre) (hsn : seeds.Nodup)
    (hchild : ∀ p ∈ ops, p.n + 1 < depth → ∃ k, k < 4 ∧ p.child k ∈ ops)
    (n cap : Nat) (hn : 0 < n) (tr : List L) (s : S) (h : run (init n cap apex seeds pre) tr = some s) :
    (tr.filter eff).length ≤ 8 * ops.length + 4 * n + 11 ∧
      ∃ tr' s', run s tr' = some s' ∧ s'.pc = .returned ∧ (∀ p, Ev.cbEnd p ∈ s'.log ↔ p ∈ ops) := by
  refine ⟨effective_steps_bounded ops apex depth seeds pre cfg hsn hchild n cap hn tr s h, ?_⟩
  obtain ⟨tr', s', h1, h2, _, _, _, h6⟩ := par_walk_progress ops apex depth seeds pre cfg hsn hchild n cap hn s ⟨tr, h⟩
  exact ⟨tr', s', h1, h2, h6⟩

/-- non-vacuity: the bound holds of a concrete walk (depth 2, the apex and one live level-1 tile; two workers) -/
example (tr : List L) (s : S)
    (h : run (init 2 1 ⟨0, 0, 0⟩ [⟨1, 1, 0⟩] (fun p => if p = ⟨0, 0, 0⟩ then 13 else 0)) tr = some s) :
    (tr.filter eff).length ≤ 35 := by
  have cfg : Cfg [⟨1, 1, 0⟩, ⟨0, 0, 0⟩] ⟨0, 0, 0⟩ 2 [⟨1, 1, 0⟩] (fun p => if p = ⟨0, 0, 0⟩ then 13 else 0) := by
    refine ⟨by decide, by decide, by decide, by decide, ?_, ?_, by decide⟩
    · intro p
      constructor
      · intro h; simp at h; subst h; decide
      · rintro ⟨h1, h2⟩
        simp at h1
        rcases h1 with e | e
        · subst e; simp
        · subst e; simp at h2
    · intro p hp hl
      simp at hp
      rcases hp with e | e
      · subst e; simp at hl
      · subst e
        refine ⟨by decide, ?_⟩
        decide
  exact effective_steps_bounded _ _ _ _ _ cfg (by decide) (by decide) 2 1 (by omega) tr s h

end C01Bound
