/-
C11 — Plate-carrée samplers return the source pixel containing each sky point.

`Gen/Samplers.lean` holds the index computations of the five sampler variants as translated
from toasty/samplers.py on every run, with angles in turns (exact rationals).  For each variant
the documented layout is stated as the *position of the point in pixel units* measured from the
left / top edge of the map; the theorems say the returned index is a cell containing that position
(closed cell: a point on a boundary may resolve to either neighbour), is in range, and is
1-periodic in longitude.
-/
import ToastyVerif.Gen.Samplers
import ToastyVerif.Lemmas.RatArith

namespace C11
open Gen.Sampler

/-- index of the cell of width 1 containing position `t` (pixel units from the edge), as the
samplers compute it: round `t - 1/2` half-to-even, clip to `[0, n-1]` -/
def cellOf (n : Int) (t : Rat) : Int := clipI (roundHE (t - 1 / 2)) 0 (n - 1)

theorem cellOf_spec (n : Int) (t : Rat) (hn : 1 ≤ n) (h0 : 0 ≤ t) (h1 : t ≤ (n : Rat)) :
    0 ≤ cellOf n t ∧ cellOf n t < n ∧ ((cellOf n t : Int) : Rat) ≤ t ∧ t ≤ ((cellOf n t : Int) : Rat) + 1 := by
  unfold cellOf
  have hb := roundHE_bounds (t - 1 / 2)
  generalize roundHE (t - 1 / 2) = r at *
  have hr := clipI_range r 0 (n - 1) (by omega)
  rcases clipI_cases r 0 (n - 1) (by omega) with ⟨hlt, he⟩ | ⟨hgt, he⟩ | ⟨hlo, hhi, he⟩
  · rw [he]
    have : (r : Rat) ≤ -1 := by
      have h' : r ≤ -1 := by omega
      have h'' : ((r : Int) : Rat) ≤ ((-1 : Int) : Rat) := Rat.intCast_le_intCast.mpr h'
      simpa using h''
    have z : ((0 : Int) : Rat) = 0 := by simp
    refine ⟨by omega, by omega, ?_, ?_⟩
    · rw [z]; exact h0
    · rw [z]; grind
  · rw [he]
    have hr' : ((n : Int) : Rat) ≤ (r : Rat) := by
      have h' : n ≤ r := by omega
      exact Rat.intCast_le_intCast.mpr h'
    have hc : (((n - 1 : Int)) : Rat) = (n : Rat) - 1 := by simp [Rat.intCast_sub]
    refine ⟨by omega, by omega, ?_, ?_⟩
    · rw [hc]; grind
    · rw [hc]; grind
  · rw [he]
    refine ⟨hlo, by omega, ?_, ?_⟩ <;> grind

theorem mul_bounds (a b : Rat) (ha0 : 0 ≤ a) (ha1 : a ≤ 1) (hb : 0 ≤ b) : 0 ≤ a * b ∧ a * b ≤ b := by
  have h1 := Rat.mul_le_mul_of_nonneg_right ha1 hb
  have h0 := Rat.mul_nonneg ha0 hb
  constructor
  · exact h0
  · grind

/-! ### the four layouts, as positions in pixel units -/

/-- sky map, longitude 0 at the centre, increasing to the left: left edge at +1/2 turn -/
def txSky (nx : Int) (u : Rat) : Rat := (1 - ratMod (u + 1 / 2) 1) * nx
/-- sky map, longitude 0 at the right edge, increasing to the left: left edge at 1 turn -/
def txZeroRight (nx : Int) (u : Rat) : Rat := (1 - ratMod u 1) * nx
/-- planetary map, longitude 0 at the centre, increasing to the right: left edge at −1/2 turn -/
def txPlanet (nx : Int) (u : Rat) : Rat := ratMod (u + 1 / 2) 1 * nx
/-- planetary map, longitude 0 at the left edge, increasing to the right -/
def txZeroLeft (nx : Int) (u : Rat) : Rat := ratMod u 1 * nx
/-- latitude +1/4 turn (+90°) at the top edge, decreasing downwards; `ny` rows per half turn -/
def tyLat (ny : Int) (v : Rat) : Rat := (1 / 4 - v) * (2 * ny)

theorem tyLat_range (ny : Int) (v : Rat) (hny : 1 ≤ ny) (hv : -(1 / 4) ≤ v ∧ v ≤ 1 / 4) :
    0 ≤ tyLat ny v ∧ tyLat ny v ≤ (ny : Rat) := by
  unfold tyLat
  have hn : (0 : Rat) ≤ (ny : Rat) := by
    have h' : (0 : Int) ≤ ny := by omega
    have := Rat.intCast_le_intCast.mpr h'
    simpa using this
  have := mul_bounds (2 * (1 / 4 - v)) ny (by grind) (by grind) hn
  constructor <;> grind

theorem tx_range (nx : Int) (m : Rat) (hnx : 1 ≤ nx) (hm : 0 ≤ m ∧ m ≤ 1) :
    0 ≤ m * nx ∧ m * nx ≤ (nx : Rat) := by
  have hn : (0 : Rat) ≤ (nx : Rat) := by
    have h' : (0 : Int) ≤ nx := by omega
    have := Rat.intCast_le_intCast.mpr h'
    simpa using this
  exact mul_bounds m nx hm.1 hm.2 hn

/-! ### what the code computes, in terms of the layouts -/

theorem ne_zero_of_pos (n : Int) (h : 1 ≤ n) : ((n : Int) : Rat) ≠ 0 := by
  have h' : (0 : Int) < n := by omega
  have h'' := Rat.intCast_lt_intCast.mpr h'
  have z : ((0 : Int) : Rat) = 0 := by simp
  rw [z] at h''
  grind

theorem sky_eq (nx ny : Int) (u v : Rat) (hx : 1 ≤ nx) (hy : 1 ≤ ny) :
    sky nx ny u v = (cellOf ny (tyLat ny v), cellOf nx (txSky nx u)) := by
  have hx' := ne_zero_of_pos nx hx
  have hy' := ne_zero_of_pos ny hy
  unfold sky cellOf tyLat txSky
  simp only
  congr 3 <;> grind

theorem zeroright_eq (nx ny : Int) (u v : Rat) (hx : 1 ≤ nx) (hy : 1 ≤ ny) :
    zeroright nx ny u v = (cellOf ny (tyLat ny v), cellOf nx (txZeroRight nx u)) := by
  have hx' := ne_zero_of_pos nx hx
  have hy' := ne_zero_of_pos ny hy
  unfold zeroright cellOf tyLat txZeroRight
  simp only
  congr 3 <;> grind

theorem planet_eq (nx ny : Int) (u v : Rat) (hx : 1 ≤ nx) (hy : 1 ≤ ny) :
    planet nx ny u v = (cellOf ny (tyLat ny v), cellOf nx (txPlanet nx u)) := by
  have hx' := ne_zero_of_pos nx hx
  have hy' := ne_zero_of_pos ny hy
  unfold planet cellOf tyLat txPlanet
  simp only
  congr 3 <;> grind

theorem zeroleft_eq (nx ny : Int) (u v : Rat) (hx : 1 ≤ nx) (hy : 1 ≤ ny) :
    zeroleft nx ny u v = (cellOf ny (tyLat ny v), cellOf nx (txZeroLeft nx u)) := by
  have hx' := ne_zero_of_pos nx hx
  have hy' := ne_zero_of_pos ny hy
  unfold zeroleft cellOf tyLat txZeroLeft
  simp only
  congr 3 <;> grind

/-- the Galactic sampler indexes exactly like the sky sampler (after its rotation) -/
theorem galactic_eq_sky (nx ny : Int) (l b : Rat) : galactic nx ny l b = sky nx ny l b := rfl

/-- the ecliptic sampler indexes exactly like the zero-at-the-right-edge sky sampler (after its rotation): its
`lon % 2π − π` with origin `π − ½/dx` is the zero-right layout written with a half-turn shift on both sides -/
theorem ecliptic_eq_zeroright (nx ny : Int) (l b : Rat) (hx : 1 ≤ nx) : ecliptic nx ny l b = zeroright nx ny l b := by
  have hx' := ne_zero_of_pos nx hx
  unfold ecliptic zeroright
  simp only
  congr 3 <;> grind

/-- containment + range for a pair of positions -/
def InCell (n : Int) (i : Int) (t : Rat) : Prop := 0 ≤ i ∧ i < n ∧ (i : Rat) ≤ t ∧ t ≤ (i : Rat) + 1

/-- **sampler_cell / sampler_in_range**, sky (centre-zero) variant: for every map shape (including
1-pixel axes), every longitude (any rational number of turns) and every latitude in
[−1/4, 1/4] turn, the returned `(iy, ix)` is in range and its cell contains the point. -/
theorem sky_cell (nx ny : Int) (u v : Rat) (hx : 1 ≤ nx) (hy : 1 ≤ ny) (hv : -(1 / 4) ≤ v ∧ v ≤ 1 / 4) :
    InCell ny (sky nx ny u v).1 (tyLat ny v) ∧ InCell nx (sky nx ny u v).2 (txSky nx u) := by
  rw [sky_eq nx ny u v hx hy]
  have hm := ratMod_one_range (u + 1 / 2)
  have ht := tx_range nx (1 - ratMod (u + 1 / 2) 1) hx (by constructor <;> grind)
  have hl := tyLat_range ny v hy hv
  exact ⟨cellOf_spec ny _ hy hl.1 hl.2, cellOf_spec nx _ hx ht.1 ht.2⟩

theorem zeroright_cell (nx ny : Int) (u v : Rat) (hx : 1 ≤ nx) (hy : 1 ≤ ny) (hv : -(1 / 4) ≤ v ∧ v ≤ 1 / 4) :
    InCell ny (zeroright nx ny u v).1 (tyLat ny v) ∧ InCell nx (zeroright nx ny u v).2 (txZeroRight nx u) := by
  rw [zeroright_eq nx ny u v hx hy]
  have hm := ratMod_one_range u
  have ht := tx_range nx (1 - ratMod u 1) hx (by constructor <;> grind)
  have hl := tyLat_range ny v hy hv
  exact ⟨cellOf_spec ny _ hy hl.1 hl.2, cellOf_spec nx _ hx ht.1 ht.2⟩

theorem planet_cell (nx ny : Int) (u v : Rat) (hx : 1 ≤ nx) (hy : 1 ≤ ny) (hv : -(1 / 4) ≤ v ∧ v ≤ 1 / 4) :
    InCell ny (planet nx ny u v).1 (tyLat ny v) ∧ InCell nx (planet nx ny u v).2 (txPlanet nx u) := by
  rw [planet_eq nx ny u v hx hy]
  have hm := ratMod_one_range (u + 1 / 2)
  have ht := tx_range nx (ratMod (u + 1 / 2) 1) hx (by constructor <;> grind)
  have hl := tyLat_range ny v hy hv
  exact ⟨cellOf_spec ny _ hy hl.1 hl.2, cellOf_spec nx _ hx ht.1 ht.2⟩

theorem zeroleft_cell (nx ny : Int) (u v : Rat) (hx : 1 ≤ nx) (hy : 1 ≤ ny) (hv : -(1 / 4) ≤ v ∧ v ≤ 1 / 4) :
    InCell ny (zeroleft nx ny u v).1 (tyLat ny v) ∧ InCell nx (zeroleft nx ny u v).2 (txZeroLeft nx u) := by
  rw [zeroleft_eq nx ny u v hx hy]
  have hm := ratMod_one_range u
  have ht := tx_range nx (ratMod u 1) hx (by constructor <;> grind)
  have hl := tyLat_range ny v hy hv
  exact ⟨cellOf_spec ny _ hy hl.1 hl.2, cellOf_spec nx _ hx ht.1 ht.2⟩

/-- **sampler_periodic**: shifting the longitude by any whole number of turns changes nothing -/
theorem periodic (nx ny : Int) (u v : Rat) (k : Int) (hx : 1 ≤ nx) (hy : 1 ≤ ny) :
    sky nx ny (u + k) v = sky nx ny u v ∧ zeroright nx ny (u + k) v = zeroright nx ny u v ∧
    planet nx ny (u + k) v = planet nx ny u v ∧ zeroleft nx ny (u + k) v = zeroleft nx ny u v := by
  have e : u + k + 1 / 2 = (u + 1 / 2) + k := by grind
  refine ⟨?_, ?_, ?_, ?_⟩
  · rw [sky_eq _ _ _ _ hx hy, sky_eq _ _ _ _ hx hy]; unfold txSky; rw [e, ratMod_one_add_int]
  · rw [zeroright_eq _ _ _ _ hx hy, zeroright_eq _ _ _ _ hx hy]; unfold txZeroRight; rw [ratMod_one_add_int]
  · rw [planet_eq _ _ _ _ hx hy, planet_eq _ _ _ _ hx hy]; unfold txPlanet; rw [e, ratMod_one_add_int]
  · rw [zeroleft_eq _ _ _ _ hx hy, zeroleft_eq _ _ _ _ hx hy]; unfold txZeroLeft; rw [ratMod_one_add_int]

/-- strictly inside a cell the answer is forced (no freedom left to the rounding rule) -/
theorem cellOf_unique (n : Int) (t : Rat) (i : Int) (hn : 1 ≤ n) (hi : 0 ≤ i ∧ i < n)
    (h1 : (i : Rat) < t) (h2 : t < (i : Rat) + 1) : cellOf n t = i := by
  unfold cellOf
  have := roundHE_eq_of_strict (t - 1 / 2) i (by grind) (by grind)
  rw [this]
  rcases clipI_cases i 0 (n - 1) (by omega) with ⟨h, _⟩ | ⟨h, _⟩ | ⟨_, _, he⟩
  · omega
  · omega
  · exact he

/-! non-vacuity: the hypotheses are satisfiable (an odd-width map, a 1×1 map, the poles) -/
example : (1 : Int) ≤ 5 ∧ (1 : Int) ≤ 3 ∧ (-(1 / 4) : Rat) ≤ 1 / 8 ∧ (1 / 8 : Rat) ≤ 1 / 4 := by
  refine ⟨by decide, by decide, by grind, by grind⟩
example : InCell 1 (sky 1 1 (7 / 3) (-(1 / 4))).2 (txSky 1 (7 / 3)) :=
  (sky_cell 1 1 (7 / 3) (-(1 / 4)) (by decide) (by decide) ⟨by grind, by grind⟩).2

end C11
