/-
C01 — Cascade walk: each live parent exactly once, only after all its live children.

Part 1 (this file): the parallel dispatcher/worker protocol, for every number of workers and every
interleaving, over an abstract configuration `Cfg` (what the prologue hands over).
Part 2 (`Props/C01Red.lean`): the reduction iterator and the serial walk.
-/
import ToastyVerif.Model.Walk
import ToastyVerif.Props.C13
import ToastyVerif.Gen.WalkWorker

namespace C01
open Walk

/-! ### the 4-bit readiness masks (finite facts about the extracted formulas) -/

theorem bits_update : ∀ f, f < 16 → ∀ b, b < 4 →
    Gen.walk_flags_update f b < 16 ∧ ∀ j, j < 4 → (Gen.walk_flags_update f b).testBit j = (f.testBit j || decide (j = b)) := by
  decide

theorem bits_release : ∀ f, f < 16 → (Gen.walk_release f = true ↔ ∀ j, j < 4 → f.testBit j = true) := by
  decide

theorem stop_on_apex : Gen.walk_stop_on_apex = true ∧ Gen.walk_pre_readied_when_dead = true := by decide

/-- the worker loop has the shape the model's worker has: poll; on Empty exit iff the done flag is set, else
poll again; on an item run the callback once, report the tile, loop -/
theorem worker_loop : Gen.WalkWorker.loop_shape_ok = true := by decide

/-! ### what the prologue must deliver -/

structure Cfg (ops : List Pos) (apex : Pos) (depth : Nat) (seeds : List Pos) (pre : Pos → Nat) : Prop where
  nodup : ops.Nodup
  level : ∀ p ∈ ops, p.n < depth
  apexIn : apex ∈ ops
  parentIn : ∀ p ∈ ops, p ≠ apex → 1 ≤ p.n ∧ p.parent ∈ ops
  seedsSpec : ∀ p, p ∈ seeds ↔ (p ∈ ops ∧ p.n + 1 = depth)
  preSpec : ∀ p ∈ ops, p.n + 1 < depth → pre p < 16 ∧ ∀ k, k < 4 → ((pre p).testBit k = true ↔ p.child k ∉ ops)
  apexTop : ∀ q ∈ ops, ∀ k, k < 4 → q.child k ≠ apex

/-! ### the invariant on phases, masks and the callback log -/

def allBits (m : Nat) : Prop := ∀ j, j < 4 → m.testBit j = true

structure InvPh (ops : List Pos) (depth : Nat) (s : S) : Prop where
  outside : ∀ p, p ∉ ops → s.ph p = .waiting
  begun : ∀ p, Ev.cbBegin p ∈ s.log ↔ 4 ≤ (s.ph p).rank
  ended : ∀ p, Ev.cbEnd p ∈ s.log ↔ 5 ≤ (s.ph p).rank
  logNodup : s.log.Nodup
  masks : ∀ p ∈ ops, p.n + 1 < depth → s.ph p = .waiting →
    s.mask p < 16 ∧ ∀ k, k < 4 → ((s.mask p).testBit k = true ↔ (p.child k ∉ ops ∨ s.ph (p.child k) = .retired))
  past : ∀ p ∈ ops, p.n + 1 < depth → s.ph p ≠ .waiting → ∀ k, k < 4 → p.child k ∈ ops → s.ph (p.child k) = .retired
  releasing : ∀ p, s.pc = .releasing p → p ∈ ops ∧ p.n + 1 < depth ∧ s.ph p = .waiting ∧ allBits (s.mask p)
  seeding : ∀ rest, s.pc = .seeding rest → ∀ p ∈ rest, p ∈ ops ∧ p.n + 1 = depth

theorem rank_waiting (f : Phase) : f.rank = 0 ↔ f = .waiting := by cases f <;> simp [Phase.rank]
theorem rank_retired (f : Phase) : f.rank = 8 ↔ f = .retired := by cases f <;> simp [Phase.rank]

/-- the child relation is injective in the parent -/
theorem child_inj_parent (q p : Pos) (k : Nat) (hk : k < 4) (h : q.child k = p) : q = p.parent := by
  rw [← h]; exact ((C13.parent_child q k hk).1).symm

theorem child_ne_self (p : Pos) (k : Nat) : p.child k ≠ p := by
  intro h; have := congrArg Pos.n h; simp [Pos.child] at this

theorem child_inj_slot (p : Pos) (a b : Nat) (ha : a < 4) (hb : b < 4) (h : p.child a = p.child b) : a = b := by
  have h1 := (C13.parent_child p a ha).2.1
  have h2 := (C13.parent_child p b hb).2.1
  rw [h] at h1; omega

/-! ### steps that do not touch phases, masks or the log -/

theorem invph_congr (ops : List Pos) (depth : Nat) (s s' : S) (h : InvPh ops depth s)
    (hph : s'.ph = s.ph) (hm : s'.mask = s.mask) (hl : s'.log = s.log)
    (hrel : ∀ p, s'.pc = .releasing p → s.pc = .releasing p)
    (hseed : ∀ r, s'.pc = .seeding r → ∃ r', s.pc = .seeding r' ∧ ∀ p ∈ r, p ∈ r') : InvPh ops depth s' := by
  refine ⟨?_, ?_, ?_, ?_, ?_, ?_, ?_, ?_⟩
  · rw [hph]; exact h.outside
  · rw [hph, hl]; exact h.begun
  · rw [hph, hl]; exact h.ended
  · rw [hl]; exact h.logNodup
  · rw [hph, hm]; exact h.masks
  · rw [hph]; exact h.past
  · intro p hp; rw [hph, hm]; exact h.releasing p (hrel p hp)
  · intro r hr p hp
    obtain ⟨r', hr', hsub⟩ := hseed r hr
    exact h.seeding r' hr' p (hsub p hp)

/-! ### a position moves between two phases that are neither `waiting` nor `retired` -/

theorem invph_move (ops : List Pos) (depth : Nat) (s s' : S) (p : Pos) (f1 : Phase) (h : InvPh ops depth s)
    (hph : s'.ph = fun q => if q = p then f1 else s.ph q) (hm : s'.mask = s.mask)
    (h0w : s.ph p ≠ .waiting) (h0r : s.ph p ≠ .retired) (h1w : f1 ≠ .waiting) (h1r : f1 ≠ .retired)
    (hlogB : ∀ q, Ev.cbBegin q ∈ s'.log ↔ 4 ≤ (if q = p then f1 else s.ph q).rank)
    (hlogE : ∀ q, Ev.cbEnd q ∈ s'.log ↔ 5 ≤ (if q = p then f1 else s.ph q).rank)
    (hnd : s'.log.Nodup)
    (hrel : ∀ q, s'.pc = .releasing q → s.pc = .releasing q)
    (hseed : ∀ r, s'.pc = .seeding r → ∃ r', s.pc = .seeding r' ∧ ∀ q ∈ r, q ∈ r') : InvPh ops depth s' := by
  have hpin : p ∈ ops := by
    by_cases hp : p ∈ ops
    · exact hp
    · exact absurd (h.outside p hp) h0w
  refine ⟨?_, ?_, ?_, hnd, ?_, ?_, ?_, ?_⟩
  · intro q hq
    rw [hph]
    have : q ≠ p := by intro e; subst e; exact hq hpin
    simp only [this, if_false]; exact h.outside q hq
  · intro q; rw [hph]; exact hlogB q
  · intro q; rw [hph]; exact hlogE q
  · intro q hq hlv hw
    rw [hph] at hw
    have hqp : q ≠ p := by
      intro e; subst e; simp only [if_true] at hw; exact h1w hw
    simp only [hqp, if_false] at hw
    rw [hm]
    obtain ⟨a, b⟩ := h.masks q hq hlv hw
    refine ⟨a, ?_⟩
    intro k hk
    rw [b k hk, hph]
    by_cases hc : q.child k = p
    · simp only [hc, if_true]
      constructor
      · rintro (h1 | h1)
        · exact Or.inl h1
        · exact absurd h1 h0r
      · rintro (h1 | h1)
        · exact Or.inl h1
        · exact absurd h1 h1r
    · simp only [hc, if_false]
  · intro q hq hlv hnw k hk hc
    rw [hph] at hnw ⊢
    have hold : s.ph q ≠ .waiting := by
      by_cases hqp : q = p
      · subst hqp; exact h0w
      · simp only [hqp, if_false] at hnw; exact hnw
    have := h.past q hq hlv hold k hk hc
    by_cases hcp : q.child k = p
    · rw [hcp] at this; exact absurd this h0r
    · simp only [hcp, if_false]; exact this
  · intro q hq
    obtain ⟨a, b, c, d⟩ := h.releasing q (hrel q hq)
    refine ⟨a, b, ?_, ?_⟩
    · rw [hph]
      have : q ≠ p := by intro e; subst e; exact h0w c
      simp only [this, if_false]; exact c
    · rw [hm]; exact d
  · intro r hr q hq
    obtain ⟨r', hr', hsub⟩ := hseed r hr
    exact h.seeding r' hr' q (hsub q hq)


theorem invph_init (ops : List Pos) (apex : Pos) (depth : Nat) (seeds : List Pos) (pre : Pos → Nat)
    (cfg : Cfg ops apex depth seeds pre) (n cap : Nat) : InvPh ops depth (init n cap apex seeds pre) := by
  refine ⟨?_, ?_, ?_, ?_, ?_, ?_, ?_, ?_⟩
  · intro p _; rfl
  · intro p; simp [init, Phase.rank]
  · intro p; simp [init, Phase.rank]
  · simp [init]
  · intro p hp hl _
    obtain ⟨a, b⟩ := cfg.preSpec p hp hl
    refine ⟨a, ?_⟩
    intro k hk
    rw [show (init n cap apex seeds pre).mask p = pre p from rfl, b k hk]
    simp [init]
  · intro p _ _ hw; exact absurd rfl hw
  · intro p hp
    simp only [init] at hp
    by_cases hs : seeds = [] <;> simp [hs] at hp
  · intro r hr p hp
    simp only [init] at hr
    by_cases hs : seeds = []
    · simp [hs] at hr
    · simp only [hs, if_false, PC.seeding.injEq] at hr
      subst hr
      exact (cfg.seedsSpec p).mp hp

theorem invph_seed (ops : List Pos) (depth : Nat) (s s' : S) (p : Pos) (h : InvPh ops depth s)
    (hs : step s (.seed p) = some s') : InvPh ops depth s' := by
  simp only [step] at hs
  split at hs
  · rename_i q rest hpc
    split at hs
    · rename_i hg
      obtain ⟨hpq, hw⟩ := hg
      cases hs
      subst hpq
      obtain ⟨hpin, hplv⟩ := h.seeding _ hpc p (by simp)
      refine ⟨?_, ?_, ?_, h.logNodup, ?_, ?_, ?_, ?_⟩
      · intro q hq
        simp only [setPh]
        have : q ≠ p := by intro e; subst e; exact hq hpin
        simp only [this, if_false]; exact h.outside q hq
      · intro q
        simp only [setPh]
        by_cases hqp : q = p
        · subst hqp
          simp only [if_true, Phase.rank]
          have := h.begun q; rw [hw] at this; simp only [Phase.rank] at this
          constructor
          · intro a; have := this.mp a; omega
          · intro a; omega
        · simp only [hqp, if_false]; exact h.begun q
      · intro q
        simp only [setPh]
        by_cases hqp : q = p
        · subst hqp
          simp only [if_true, Phase.rank]
          have := h.ended q; rw [hw] at this; simp only [Phase.rank] at this
          constructor
          · intro a; have := this.mp a; omega
          · intro a; omega
        · simp only [hqp, if_false]; exact h.ended q
      · intro q hq hlv hqw
        simp only [setPh] at hqw ⊢
        have hqp : q ≠ p := by intro e; subst e; omega
        simp only [hqp, if_false] at hqw
        obtain ⟨a, b⟩ := h.masks q hq hlv hqw
        refine ⟨a, ?_⟩
        intro k hk
        rw [b k hk]
        by_cases hc : q.child k = p
        · simp only [hc, if_true, hw]
          simp
        · simp only [hc, if_false]
      · intro q hq hlv hnw k hk hc
        simp only [setPh] at hnw ⊢
        have hqp : q ≠ p := by intro e; subst e; omega
        simp only [hqp, if_false] at hnw
        have := h.past q hq hlv hnw k hk hc
        by_cases hcp : q.child k = p
        · rw [hcp, hw] at this; cases this
        · simp only [hcp, if_false]; exact this
      · intro q hq
        simp only [setPh] at hq
        by_cases hr : rest = [] <;> simp [hr] at hq
      · intro r hr x hx
        simp only [setPh] at hr
        by_cases hrest : rest = []
        · simp [hrest] at hr
        · simp only [hrest, if_false, PC.seeding.injEq] at hr
          subst hr
          exact h.seeding _ hpc x (by simp [hx])
    · cases hs
  all_goals cases hs

theorem invph_release (ops : List Pos) (depth : Nat) (s s' : S) (p : Pos) (h : InvPh ops depth s)
    (hs : step s (.release p) = some s') : InvPh ops depth s' := by
  simp only [step] at hs
  split at hs
  · rename_i hg
    obtain ⟨hpc, hw⟩ := hg
    cases hs
    obtain ⟨hpin, hplv, _, hbits⟩ := h.releasing p hpc
    refine ⟨?_, ?_, ?_, h.logNodup, ?_, ?_, ?_, ?_⟩
    · intro q hq
      simp only [setPh]
      have : q ≠ p := by intro e; subst e; exact hq hpin
      simp only [this, if_false]; exact h.outside q hq
    · intro q
      simp only [setPh]
      by_cases hqp : q = p
      · subst hqp
        simp only [if_true, Phase.rank]
        have := h.begun q; rw [hw] at this; simp only [Phase.rank] at this
        constructor
        · intro a; have := this.mp a; omega
        · intro a; omega
      · simp only [hqp, if_false]; exact h.begun q
    · intro q
      simp only [setPh]
      by_cases hqp : q = p
      · subst hqp
        simp only [if_true, Phase.rank]
        have := h.ended q; rw [hw] at this; simp only [Phase.rank] at this
        constructor
        · intro a; have := this.mp a; omega
        · intro a; omega
      · simp only [hqp, if_false]; exact h.ended q
    · intro q hq hlv hqw
      simp only [setPh] at hqw ⊢
      have hqp : q ≠ p := by intro e; subst e; simp at hqw
      simp only [hqp, if_false] at hqw
      obtain ⟨a, b⟩ := h.masks q hq hlv hqw
      refine ⟨a, ?_⟩
      intro k hk
      rw [b k hk]
      by_cases hc : q.child k = p
      · simp only [hc, if_true, hw]; simp
      · simp only [hc, if_false]
    · intro q hq hlv hnw k hk hc
      simp only [setPh] at hnw ⊢
      by_cases hqp : q = p
      · subst hqp
        have hcq : q.child k ≠ q := child_ne_self q k
        simp only [hcq, if_false]
        have := (h.masks q hpin hplv hw).2 k hk
        rcases this.mp (hbits k hk) with hd | hr
        · exact absurd hc hd
        · exact hr
      · simp only [hqp, if_false] at hnw
        have := h.past q hq hlv hnw k hk hc
        by_cases hcp : q.child k = p
        · rw [hcp, hw] at this; cases this
        · simp only [hcp, if_false]; exact this
    · intro q hq; simp only [setPh] at hq; cases hq
    · intro r hr; simp only [setPh] at hr; cases hr
  · cases hs


theorem rank_mono_retire (f : Phase) (hf : f = .dpipe) : (4 ≤ f.rank ↔ 4 ≤ Phase.retired.rank) ∧ (5 ≤ f.rank ↔ 5 ≤ Phase.retired.rank) := by
  subst hf; simp [Phase.rank]

/-- the dispatcher receives a finished tile -/
theorem invph_drecv (ops : List Pos) (apex : Pos) (depth : Nat) (seeds : List Pos) (pre : Pos → Nat)
    (cfg : Cfg ops apex depth seeds pre) (s s' : S) (p : Pos) (hap : s.apex = apex)
    (h : InvPh ops depth s) (hs : step s (.drecv p) = some s') : InvPh ops depth s' := by
  simp only [step] at hs
  split at hs
  · rename_i hg
    obtain ⟨hpc, hdp⟩ := hg
    have hpin : p ∈ ops := by
      by_cases hp : p ∈ ops
      · exact hp
      · have := h.outside p hp; rw [hdp] at this; cases this
    -- facts shared by both branches: only `p` changes phase, to `retired`
    have hB : ∀ (lg : List Ev), lg = s.log → ∀ q, Ev.cbBegin q ∈ lg ↔ 4 ≤ (if q = p then Phase.retired else s.ph q).rank := by
      intro lg hlg q; subst hlg
      by_cases hqp : q = p
      · subst hqp; simp only [if_true]; rw [h.begun q]; exact (rank_mono_retire _ hdp).1
      · simp only [hqp, if_false]; exact h.begun q
    have hE : ∀ (lg : List Ev), lg = s.log → ∀ q, Ev.cbEnd q ∈ lg ↔ 5 ≤ (if q = p then Phase.retired else s.ph q).rank := by
      intro lg hlg q; subst hlg
      by_cases hqp : q = p
      · subst hqp; simp only [if_true]; rw [h.ended q]; exact (rank_mono_retire _ hdp).2
      · simp only [hqp, if_false]; exact h.ended q
    have hpast : ∀ q ∈ ops, q.n + 1 < depth → (if q = p then Phase.retired else s.ph q) ≠ .waiting →
        ∀ k, k < 4 → q.child k ∈ ops → (if q.child k = p then Phase.retired else s.ph (q.child k)) = .retired := by
      intro q hq hlv hnw k hk hc
      have hold : s.ph q ≠ .waiting := by
        by_cases hqp : q = p
        · subst hqp; rw [hdp]; intro e; cases e
        · simp only [hqp, if_false] at hnw; exact hnw
      have := h.past q hq hlv hold k hk hc
      by_cases hcp : q.child k = p
      · simp [hcp]
      · simp only [hcp, if_false]; exact this
    split at hs
    · -- the apex: the dispatcher leaves its loop
      rename_i hgap
      obtain ⟨_, hpa⟩ := hgap
      cases hs
      refine ⟨?_, ?_, ?_, h.logNodup, ?_, ?_, ?_, ?_⟩
      · intro q hq
        simp only [setPh]
        have : q ≠ p := by intro e; subst e; exact hq hpin
        simp only [this, if_false]; exact h.outside q hq
      · intro q; simp only [setPh]; exact hB _ rfl q
      · intro q; simp only [setPh]; exact hE _ rfl q
      · intro q hq hlv hqw
        simp only [setPh] at hqw ⊢
        have hqp : q ≠ p := by intro e; subst e; simp at hqw
        simp only [hqp, if_false] at hqw
        obtain ⟨a, b⟩ := h.masks q hq hlv hqw
        refine ⟨a, ?_⟩
        intro k hk
        rw [b k hk]
        have hc : q.child k ≠ p := by rw [hpa, hap]; exact cfg.apexTop q hq k hk
        simp only [hc, if_false]
      · intro q hq hlv hnw k hk hc
        simp only [setPh] at hnw ⊢
        exact hpast q hq hlv hnw k hk hc
      · intro q hq; simp only [setPh] at hq; cases hq
      · intro r hr; simp only [setPh] at hr; cases hr
    · -- any other tile: bump the parent's mask
      rename_i hnap
      have hpne : p ≠ apex := by
        intro e
        apply hnap
        exact ⟨stop_on_apex.1, by rw [hap]; exact e⟩
      obtain ⟨hpn, hppin⟩ := cfg.parentIn p hpin hpne
      have hplv := cfg.level p hpin
      have hpplv : p.parent.n + 1 < depth := by simp only [Pos.parent]; omega
      have hchild : p.parent.child p.slot = p := C13.child_parent p hpn
      have hslot : p.slot < 4 := by simp only [Pos.slot]; omega
      -- the parent is still waiting: its child `p` is live and not yet retired
      have hppw : s.ph p.parent = .waiting := by
        by_cases hw : s.ph p.parent = .waiting
        · exact hw
        · have := h.past p.parent hppin hpplv hw p.slot hslot (by rw [hchild]; exact hpin)
          rw [hchild, hdp] at this; cases this
      have hppne : p.parent ≠ p := by intro e; have := congrArg Pos.n e; simp only [Pos.parent] at this; omega
      obtain ⟨hm16, hmbits⟩ := h.masks p.parent hppin hpplv hppw
      have hbit : Gen.walk_bit_num (p.x % 2) (p.y % 2) = p.slot := C13.gen_walk_bit p
      obtain ⟨hm16', hupd⟩ := bits_update (s.mask p.parent) hm16 p.slot hslot
      -- the new mask of the parent describes the new phases
      have hnewmask : ∀ k, k < 4 → ((Gen.walk_flags_update (s.mask p.parent) p.slot).testBit k = true ↔
          (p.parent.child k ∉ ops ∨ (if p.parent.child k = p then Phase.retired else s.ph (p.parent.child k)) = .retired)) := by
        intro k hk
        rw [hupd k hk]
        by_cases hks : k = p.slot
        · subst hks; simp [hchild]
        · have hck : p.parent.child k ≠ p := by
            intro e
            exact hks (child_inj_slot p.parent k p.slot hk hslot (e.trans hchild.symm))
          simp only [hks, decide_false, Bool.or_false, hck, if_false]
          exact hmbits k hk
      have hmasks' : ∀ (mk : Pos → Nat), mk = (fun q => if q = p.parent then Gen.walk_flags_update (s.mask p.parent) p.slot else s.mask q) →
          ∀ q ∈ ops, q.n + 1 < depth → (if q = p then Phase.retired else s.ph q) = .waiting →
          mk q < 16 ∧ ∀ k, k < 4 → ((mk q).testBit k = true ↔
            (q.child k ∉ ops ∨ (if q.child k = p then Phase.retired else s.ph (q.child k)) = .retired)) := by
        intro mk hmk q hq hlv hqw
        subst hmk
        have hqp : q ≠ p := by intro e; subst e; simp at hqw
        simp only [hqp, if_false] at hqw
        by_cases hqpp : q = p.parent
        · subst hqpp
          simp only [if_true]
          exact ⟨hm16', hnewmask⟩
        · simp only [hqpp, if_false]
          obtain ⟨a, b⟩ := h.masks q hq hlv hqw
          refine ⟨a, ?_⟩
          intro k hk
          rw [b k hk]
          have hc : q.child k ≠ p := by
            intro e
            exact hqpp (child_inj_parent q p k hk e)
          simp only [hc, if_false]
      simp only [bump, hbit] at hs
      split at hs
      · -- released: the parent goes to the ready queue next
        rename_i hrel
        cases hs
        refine ⟨?_, ?_, ?_, h.logNodup, ?_, ?_, ?_, ?_⟩
        · intro q hq
          simp only [setPh]
          have : q ≠ p := by intro e; subst e; exact hq hpin
          simp only [this, if_false]; exact h.outside q hq
        · intro q; simp only [setPh]; exact hB _ rfl q
        · intro q; simp only [setPh]; exact hE _ rfl q
        · intro q hq hlv hqw
          simp only [setPh] at hqw ⊢
          exact hmasks' _ rfl q hq hlv hqw
        · intro q hq hlv hnw k hk hc
          simp only [setPh] at hnw ⊢
          exact hpast q hq hlv hnw k hk hc
        · intro q hq
          simp only [setPh, PC.releasing.injEq] at hq
          subst hq
          refine ⟨hppin, hpplv, ?_, ?_⟩
          · simp only [setPh, hppne, if_false]; exact hppw
          · simp only [setPh, if_true]
            exact (bits_release _ hm16').mp hrel
        · intro r hr; simp only [setPh] at hr; cases hr
      · cases hs
        refine ⟨?_, ?_, ?_, h.logNodup, ?_, ?_, ?_, ?_⟩
        · intro q hq
          simp only [setPh]
          have : q ≠ p := by intro e; subst e; exact hq hpin
          simp only [this, if_false]; exact h.outside q hq
        · intro q; simp only [setPh]; exact hB _ rfl q
        · intro q; simp only [setPh]; exact hE _ rfl q
        · intro q hq hlv hqw
          simp only [setPh] at hqw ⊢
          exact hmasks' _ rfl q hq hlv hqw
        · intro q hq hlv hnw k hk hc
          simp only [setPh] at hnw ⊢
          exact hpast q hq hlv hnw k hk hc
        · intro q hq; simp only [setPh] at hq; cases hq
        · intro r hr; simp only [setPh] at hr; cases hr
  · cases hs


/-! ### assembling: every step preserves the phase invariant -/

theorem mem_append_single {α} (l : List α) (a b : α) : b ∈ l ++ [a] ↔ b ∈ l ∨ b = a := by simp

theorem invph_step (ops : List Pos) (apex : Pos) (depth : Nat) (seeds : List Pos) (pre : Pos → Nat)
    (cfg : Cfg ops apex depth seeds pre) (s s' : S) (l : L) (hap : s.apex = apex)
    (h : InvPh ops depth s) (hs : step s l = some s') : InvPh ops depth s' := by
  cases l with
  | seed p => exact invph_seed ops depth s s' p h hs
  | release p => exact invph_release ops depth s s' p h hs
  | drecv p => exact invph_drecv ops apex depth seeds pre cfg s s' p hap h hs
  | start k =>
    simp only [step] at hs
    split at hs
    · rename_i hg
      cases hs
      exact invph_congr ops depth s _ h rfl rfl rfl
        (by intro p hp; simp only [setW] at hp; by_cases hn : k + 1 = s.n <;> simp [hn] at hp)
        (by intro r hr; simp only [setW] at hr; by_cases hn : k + 1 = s.n <;> simp [hn] at hr)
    · cases hs
  | begin k =>
    simp only [step] at hs
    split at hs
    · cases hs; exact invph_congr ops depth s _ h rfl rfl rfl (fun p hp => hp) (fun r hr => ⟨r, hr, fun _ hq => hq⟩)
    · cases hs
  | dlock =>
    simp only [step] at hs
    split at hs
    · cases hs; exact invph_congr ops depth s _ h rfl rfl rfl (by intro p hp; cases hp) (by intro r hr; cases hr)
    · cases hs
  | dempty =>
    simp only [step] at hs
    split at hs
    · cases hs; exact invph_congr ops depth s _ h rfl rfl rfl (by intro p hp; cases hp) (by intro r hr; cases hr)
    · cases hs
  | close =>
    simp only [step] at hs
    split at hs
    · cases hs; exact invph_congr ops depth s _ h rfl rfl rfl (by intro p hp; cases hp) (by intro r hr; cases hr)
    · cases hs
  | joinThread =>
    simp only [step] at hs
    split at hs
    · cases hs; exact invph_congr ops depth s _ h rfl rfl rfl (by intro p hp; cases hp) (by intro r hr; cases hr)
    · cases hs
  | setFlag =>
    simp only [step] at hs
    split at hs
    · cases hs; exact invph_congr ops depth s _ h rfl rfl rfl (by intro p hp; cases hp) (by intro r hr; cases hr)
    · cases hs
  | join k =>
    simp only [step] at hs
    split at hs
    · cases hs
      exact invph_congr ops depth s _ h rfl rfl rfl
        (by intro p hp; simp only at hp; by_cases hn : k + 1 = s.n <;> simp [hn] at hp)
        (by intro r hr; simp only at hr; by_cases hn : k + 1 = s.n <;> simp [hn] at hr)
    · cases hs
  | rlock k =>
    simp only [step] at hs
    split at hs
    · cases hs; exact invph_congr ops depth s _ h rfl rfl rfl (fun p hp => hp) (fun r hr => ⟨r, hr, fun _ hq => hq⟩)
    · cases hs
  | rlockTimeout k =>
    simp only [step] at hs
    split at hs
    · cases hs; exact invph_congr ops depth s _ h rfl rfl rfl (fun p hp => hp) (fun r hr => ⟨r, hr, fun _ hq => hq⟩)
    · cases hs
  | rempty k =>
    simp only [step] at hs
    split at hs
    · cases hs; exact invph_congr ops depth s _ h rfl rfl rfl (fun p hp => hp) (fun r hr => ⟨r, hr, fun _ hq => hq⟩)
    · cases hs
  | flagQ k b =>
    simp only [step] at hs
    split at hs
    · cases hs; exact invph_congr ops depth s _ h rfl rfl rfl (fun p hp => hp) (fun r hr => ⟨r, hr, fun _ hq => hq⟩)
    · cases hs
  | rflush p =>
    simp only [step] at hs
    split at hs
    · rename_i hp
      cases hs
      refine invph_move ops depth s _ p .rpipe h rfl rfl (by rw [hp]; simp) (by rw [hp]; simp) (by simp) (by simp) ?_ ?_ h.logNodup
        (fun q hq => hq) (fun r hr => ⟨r, hr, fun _ hq => hq⟩)
      · intro q; simp only [setPh]
        by_cases hqp : q = p
        · subst hqp; simp only [if_true]; rw [h.begun q, hp]; simp [Phase.rank]
        · simp only [hqp, if_false]; exact h.begun q
      · intro q; simp only [setPh]
        by_cases hqp : q = p
        · subst hqp; simp only [if_true]; rw [h.ended q, hp]; simp [Phase.rank]
        · simp only [hqp, if_false]; exact h.ended q
    · cases hs
  | dflush k p =>
    simp only [step] at hs
    split at hs
    · rename_i hp
      cases hs
      refine invph_move ops depth s _ p .dpipe h rfl rfl (by rw [hp]; simp) (by rw [hp]; simp) (by simp) (by simp) ?_ ?_ h.logNodup
        (fun q hq => hq) (fun r hr => ⟨r, hr, fun _ hq => hq⟩)
      · intro q; simp only [setPh]
        by_cases hqp : q = p
        · subst hqp; simp only [if_true]; rw [h.begun q, hp]; simp [Phase.rank]
        · simp only [hqp, if_false]; exact h.begun q
      · intro q; simp only [setPh]
        by_cases hqp : q = p
        · subst hqp; simp only [if_true]; rw [h.ended q, hp]; simp [Phase.rank]
        · simp only [hqp, if_false]; exact h.ended q
    · cases hs
  | rrecv k p =>
    simp only [step] at hs
    split at hs
    · rename_i hg
      obtain ⟨_, _, _, hp⟩ := hg
      cases hs
      refine invph_move ops depth s _ p (.have k) h rfl rfl (by rw [hp]; simp) (by rw [hp]; simp) (by simp) (by simp) ?_ ?_ h.logNodup
        (fun q hq => hq) (fun r hr => ⟨r, hr, fun _ hq => hq⟩)
      · intro q; simp only [setPh, setW]
        by_cases hqp : q = p
        · subst hqp; simp only [if_true]; rw [h.begun q, hp]; simp [Phase.rank]
        · simp only [hqp, if_false]; exact h.begun q
      · intro q; simp only [setPh, setW]
        by_cases hqp : q = p
        · subst hqp; simp only [if_true]; rw [h.ended q, hp]; simp [Phase.rank]
        · simp only [hqp, if_false]; exact h.ended q
    · cases hs
  | dput k p =>
    simp only [step] at hs
    split at hs
    · rename_i hg
      obtain ⟨_, hp, _, _⟩ := hg
      cases hs
      refine invph_move ops depth s _ p (.dbuf k) h rfl rfl (by rw [hp]; simp) (by rw [hp]; simp) (by simp) (by simp) ?_ ?_ h.logNodup
        (fun q hq => hq) (fun r hr => ⟨r, hr, fun _ hq => hq⟩)
      · intro q; simp only [setPh, setW]
        by_cases hqp : q = p
        · subst hqp; simp only [if_true]; rw [h.begun q, hp]; simp [Phase.rank]
        · simp only [hqp, if_false]; exact h.begun q
      · intro q; simp only [setPh, setW]
        by_cases hqp : q = p
        · subst hqp; simp only [if_true]; rw [h.ended q, hp]; simp [Phase.rank]
        · simp only [hqp, if_false]; exact h.ended q
    · cases hs
  | cbBegin k p =>
    simp only [step] at hs
    split at hs
    · rename_i hg
      obtain ⟨_, hp⟩ := hg
      cases hs
      have hnot : Ev.cbBegin p ∉ s.log := by rw [h.begun p, hp]; simp [Phase.rank]
      refine invph_move ops depth s _ p (.running k) h rfl rfl (by rw [hp]; simp) (by rw [hp]; simp) (by simp) (by simp) ?_ ?_ ?_
        (fun q hq => hq) (fun r hr => ⟨r, hr, fun _ hq => hq⟩)
      · intro q; simp only [setPh, mem_append_single]
        by_cases hqp : q = p
        · subst hqp; simp [Phase.rank]
        · simp only [hqp, if_false, Ev.cbBegin.injEq, or_false]; exact h.begun q
      · intro q; simp only [setPh, mem_append_single, reduceCtorEq, or_false]
        by_cases hqp : q = p
        · subst hqp; simp only [if_true]; rw [h.ended q, hp]; simp [Phase.rank]
        · simp only [hqp, if_false]; exact h.ended q
      · simp only [setPh]
        rw [List.nodup_append]
        refine ⟨h.logNodup, by simp, ?_⟩
        intro a ha b hb
        simp only [List.mem_singleton] at hb
        subst hb
        intro e; subst e; exact hnot ha
    · cases hs
  | cbEnd k p =>
    simp only [step] at hs
    split at hs
    · rename_i hg
      obtain ⟨_, hp⟩ := hg
      cases hs
      have hnot : Ev.cbEnd p ∉ s.log := by rw [h.ended p, hp]; simp [Phase.rank]
      refine invph_move ops depth s _ p (.ran k) h rfl rfl (by rw [hp]; simp) (by rw [hp]; simp) (by simp) (by simp) ?_ ?_ ?_
        (fun q hq => hq) (fun r hr => ⟨r, hr, fun _ hq => hq⟩)
      · intro q; simp only [setPh, mem_append_single, reduceCtorEq, or_false]
        by_cases hqp : q = p
        · subst hqp; simp only [if_true]; rw [h.begun q, hp]; simp [Phase.rank]
        · simp only [hqp, if_false]; exact h.begun q
      · intro q; simp only [setPh, mem_append_single]
        by_cases hqp : q = p
        · subst hqp; simp [Phase.rank]
        · simp only [hqp, if_false, Ev.cbEnd.injEq, or_false]; exact h.ended q
      · simp only [setPh]
        rw [List.nodup_append]
        refine ⟨h.logNodup, by simp, ?_⟩
        intro a ha b hb
        simp only [List.mem_singleton] at hb
        subst hb
        intro e; subst e; exact hnot ha
    · cases hs


/-! ### program counter / worker bookkeeping -/

def late : PC → Bool
  | .closing | .closed | .joined | .joining _ | .returned => true
  | _ => false

structure InvW (apex : Pos) (s : S) : Prop where
  apexC : s.apex = apex
  apexRetired : late s.pc = true → s.ph apex = .retired
  joinedSoFar : ∀ k, s.pc = .joining k → ∀ j, j < k → s.ws j = .exited
  returnedAll : s.pc = .returned → ∀ j, j < s.n → s.ws j = .exited

theorem invw_init (n cap : Nat) (apex : Pos) (seeds : List Pos) (pre : Pos → Nat) : InvW apex (init n cap apex seeds pre) := by
  refine ⟨rfl, ?_, ?_, ?_⟩
  · intro h; simp only [init] at h; by_cases hs : seeds = [] <;> simp [hs, late] at h
  · intro k h; simp only [init] at h; by_cases hs : seeds = [] <;> simp [hs] at h
  · intro h; simp only [init] at h; by_cases hs : seeds = [] <;> simp [hs] at h

/-- a step that keeps `pc`, `apex` and only changes the phase of a position that was not retired,
and the state of a worker that had not exited -/
theorem invw_keep (apex : Pos) (s s' : S) (h : InvW apex s) (hpc : s'.pc = s.pc) (hap : s'.apex = s.apex) (hn : s'.n = s.n)
    (hph : ∀ q, s.ph q = .retired → s'.ph q = .retired)
    (hws : ∀ j, s.ws j = .exited → s'.ws j = .exited) : InvW apex s' := by
  refine ⟨by rw [hap]; exact h.apexC, ?_, ?_, ?_⟩
  · intro hl; rw [hpc] at hl; exact hph apex (h.apexRetired hl)
  · intro k hk j hj; rw [hpc] at hk; exact hws j (h.joinedSoFar k hk j hj)
  · intro hr j hj; rw [hpc] at hr; rw [hn] at hj; exact hws j (h.returnedAll hr j hj)

theorem invw_early (apex : Pos) (s' : S) (hap : s'.apex = apex) (hpc : late s'.pc = false) : InvW apex s' := by
  refine ⟨hap, ?_, ?_, ?_⟩
  · intro hl; rw [hpc] at hl; cases hl
  · intro k hk; rw [hk] at hpc; cases hpc
  · intro hk; rw [hk] at hpc; cases hpc

theorem invw_step (apex : Pos) (s s' : S) (l : L) (h : InvW apex s) (hs : step s l = some s') : InvW apex s' := by
  cases l with
  | seed p =>
    simp only [step] at hs
    split at hs
    · rename_i q rest hpc
      split at hs
      · rename_i hg
        cases hs
        refine ⟨h.apexC, ?_, ?_, ?_⟩
        · intro hl; simp only [setPh] at hl; by_cases hr : rest = [] <;> simp [hr, late] at hl
        · intro k hk; simp only [setPh] at hk; by_cases hr : rest = [] <;> simp [hr] at hk
        · intro hk; simp only [setPh] at hk; by_cases hr : rest = [] <;> simp [hr] at hk
      · cases hs
    all_goals cases hs
  | start k =>
    simp only [step] at hs
    split at hs
    · rename_i hg
      cases hs
      refine ⟨h.apexC, ?_, ?_, ?_⟩
      · intro hl; simp only [setW] at hl; by_cases hn : k + 1 = s.n <;> simp [hn, late] at hl
      · intro k' hk; simp only [setW] at hk; by_cases hn : k + 1 = s.n <;> simp [hn] at hk
      · intro hk; simp only [setW] at hk; by_cases hn : k + 1 = s.n <;> simp [hn] at hk
    · cases hs
  | begin k =>
    simp only [step] at hs
    split at hs
    · rename_i hg
      cases hs
      exact invw_keep apex s _ h rfl rfl rfl (fun q hq => hq)
        (by intro j hj; simp only [setW]; by_cases hjk : j = k
            · subst hjk; rw [hg.2] at hj; cases hj
            · simp [hjk, hj])
    · cases hs
  | rflush p =>
    simp only [step] at hs
    split at hs
    · rename_i hp
      cases hs
      exact invw_keep apex s _ h rfl rfl rfl
        (by intro q hq; simp only [setPh]; by_cases hqp : q = p
            · subst hqp; rw [hp] at hq; cases hq
            · simp [hqp, hq])
        (fun j hj => hj)
    · cases hs
  | dflush k p =>
    simp only [step] at hs
    split at hs
    · rename_i hp
      cases hs
      exact invw_keep apex s _ h rfl rfl rfl
        (by intro q hq; simp only [setPh]; by_cases hqp : q = p
            · subst hqp; rw [hp] at hq; cases hq
            · simp [hqp, hq])
        (fun j hj => hj)
    · cases hs
  | dlock =>
    simp only [step] at hs
    split at hs
    · cases hs
      exact invw_early apex _ h.apexC rfl
    · cases hs
  | dempty =>
    simp only [step] at hs
    split at hs
    · cases hs
      exact invw_early apex _ h.apexC rfl
    · cases hs
  | drecv p =>
    simp only [step] at hs
    split at hs
    · rename_i hg
      split at hs
      · rename_i hgap
        cases hs
        refine ⟨h.apexC, ?_, (by intro k hk; cases hk), (by intro hk; cases hk)⟩
        intro _
        simp only [setPh]
        rw [hgap.2, h.apexC]; simp
      · simp only [bump] at hs
        by_cases hrel : Gen.walk_release (Gen.walk_flags_update (s.mask p.parent) (Gen.walk_bit_num (p.x % 2) (p.y % 2))) = true
        · simp only [hrel, if_true, Option.some.injEq] at hs; subst hs; exact invw_early apex _ h.apexC rfl
        · simp only [hrel, Bool.false_eq_true, if_false, Option.some.injEq] at hs; subst hs; exact invw_early apex _ h.apexC rfl
    · cases hs
  | release p =>
    simp only [step] at hs
    split at hs
    · cases hs
      exact invw_early apex _ h.apexC rfl
    · cases hs
  | close =>
    simp only [step] at hs
    split at hs
    · rename_i hpc
      cases hs
      exact ⟨h.apexC, fun _ => h.apexRetired (by rw [hpc]; rfl), (by intro k hk; cases hk), (by intro hk; cases hk)⟩
    · cases hs
  | joinThread =>
    simp only [step] at hs
    split at hs
    · rename_i hpc
      cases hs
      exact ⟨h.apexC, fun _ => h.apexRetired (by rw [hpc]; rfl), (by intro k hk; cases hk), (by intro hk; cases hk)⟩
    · cases hs
  | setFlag =>
    simp only [step] at hs
    split at hs
    · rename_i hpc
      cases hs
      refine ⟨h.apexC, fun _ => h.apexRetired (by rw [hpc]; rfl), ?_, (by intro hk; cases hk)⟩
      intro k hk j hj; simp only [PC.joining.injEq] at hk; omega
    · cases hs
  | join k =>
    simp only [step] at hs
    split at hs
    · rename_i hg
      obtain ⟨hpc, hk, hex⟩ := hg
      cases hs
      refine ⟨h.apexC, fun _ => h.apexRetired (by rw [hpc]; rfl), ?_, ?_⟩
      · intro k' hk' j hj
        simp only at hk'
        by_cases hn : k + 1 = s.n <;> simp only [hn, if_true, if_false, PC.joining.injEq] at hk'
        · cases hk'
        · subst hk'
          by_cases hjk : j = k
          · subst hjk; exact hex
          · exact h.joinedSoFar k hpc j (by omega)
      · intro hr j hj
        simp only at hr hj
        by_cases hn : k + 1 = s.n
        · by_cases hjk : j = k
          · subst hjk; exact hex
          · exact h.joinedSoFar k hpc j (by omega)
        · simp [hn] at hr
    · cases hs
  | rlock k =>
    simp only [step] at hs
    split at hs
    · rename_i hg
      cases hs
      exact invw_keep apex s _ h rfl rfl rfl (fun q hq => hq)
        (by intro j hj; simp only [setW]; by_cases hjk : j = k
            · subst hjk; rw [hg.2.2] at hj; cases hj
            · simp [hjk, hj])
    · cases hs
  | rlockTimeout k =>
    simp only [step] at hs
    split at hs
    · rename_i hg
      cases hs
      exact invw_keep apex s _ h rfl rfl rfl (fun q hq => hq)
        (by intro j hj; simp only [setW]; by_cases hjk : j = k
            · subst hjk; rw [hg.2.2] at hj; cases hj
            · simp [hjk, hj])
    · cases hs
  | rempty k =>
    simp only [step] at hs
    split at hs
    · rename_i hg
      cases hs
      exact invw_keep apex s _ h rfl rfl rfl (fun q hq => hq)
        (by intro j hj; simp only [setW]; by_cases hjk : j = k
            · subst hjk; rw [hg.2.2] at hj; cases hj
            · simp [hjk, hj])
    · cases hs
  | rrecv k p =>
    simp only [step] at hs
    split at hs
    · rename_i hg
      obtain ⟨_, _, hw, hp⟩ := hg
      cases hs
      exact invw_keep apex s _ h rfl rfl rfl
        (by intro q hq; simp only [setPh, setW]; by_cases hqp : q = p
            · subst hqp; rw [hp] at hq; cases hq
            · simp [hqp, hq])
        (by intro j hj; simp only [setPh, setW]; by_cases hjk : j = k
            · subst hjk; rw [hw] at hj; cases hj
            · simp [hjk, hj])
    · cases hs
  | flagQ k b =>
    simp only [step] at hs
    split at hs
    · rename_i hg
      cases hs
      exact invw_keep apex s _ h rfl rfl rfl (fun q hq => hq)
        (by intro j hj; simp only [setW]; by_cases hjk : j = k
            · subst hjk; rw [hg.2.2] at hj; cases hj
            · simp [hjk, hj])
    · cases hs
  | cbBegin k p =>
    simp only [step] at hs
    split at hs
    · rename_i hg
      cases hs
      exact invw_keep apex s _ h rfl rfl rfl
        (by intro q hq; simp only [setPh]; by_cases hqp : q = p
            · subst hqp; rw [hg.2] at hq; cases hq
            · simp [hqp, hq])
        (fun j hj => hj)
    · cases hs
  | cbEnd k p =>
    simp only [step] at hs
    split at hs
    · rename_i hg
      cases hs
      exact invw_keep apex s _ h rfl rfl rfl
        (by intro q hq; simp only [setPh]; by_cases hqp : q = p
            · subst hqp; rw [hg.2] at hq; cases hq
            · simp [hqp, hq])
        (fun j hj => hj)
    · cases hs
  | dput k p =>
    simp only [step] at hs
    split at hs
    · rename_i hg
      obtain ⟨_, hp, hw, _⟩ := hg
      cases hs
      exact invw_keep apex s _ h rfl rfl rfl
        (by intro q hq; simp only [setPh, setW]; by_cases hqp : q = p
            · subst hqp; rw [hp] at hq; cases hq
            · simp [hqp, hq])
        (by intro j hj; simp only [setPh, setW]; by_cases hjk : j = k
            · subst hjk; rw [hw] at hj; cases hj
            · simp [hjk, hj])
    · cases hs

/-! ### reachable states -/

def Reachable (n cap : Nat) (apex : Pos) (seeds : List Pos) (pre : Pos → Nat) (s : S) : Prop :=
  ∃ tr, run (init n cap apex seeds pre) tr = some s

theorem inv_run (ops : List Pos) (apex : Pos) (depth : Nat) (seeds : List Pos) (pre : Pos → Nat)
    (cfg : Cfg ops apex depth seeds pre) : ∀ (tr : List L) (s s' : S),
    InvPh ops depth s → InvW apex s → run s tr = some s' → InvPh ops depth s' ∧ InvW apex s' := by
  intro tr
  induction tr with
  | nil => intro s s' a b hr; simp only [run, Option.some.injEq] at hr; subst hr; exact ⟨a, b⟩
  | cons l ls ih =>
    intro s s' a b hr
    simp only [run] at hr
    split at hr
    · rename_i s1 hs1
      exact ih s1 s' (invph_step ops apex depth seeds pre cfg s s1 l b.apexC a hs1) (invw_step apex s s1 l b hs1) hr
    · cases hr

theorem inv_reachable (ops : List Pos) (apex : Pos) (depth : Nat) (seeds : List Pos) (pre : Pos → Nat)
    (cfg : Cfg ops apex depth seeds pre) (n cap : Nat) (s : S) (hr : Reachable n cap apex seeds pre s) :
    InvPh ops depth s ∧ InvW apex s := by
  obtain ⟨tr, htr⟩ := hr
  exact inv_run ops apex depth seeds pre cfg tr _ s (invph_init ops apex depth seeds pre cfg n cap) (invw_init n cap apex seeds pre) htr

/-! ### the property -/

/-- **par_walk_order**: in every reachable state (any number of workers, any interleaving), whenever a
worker is about to start the callback of tile `p`, the callbacks of all of `p`'s live non-leaf
children have already *completed*. -/
theorem par_walk_order (ops : List Pos) (apex : Pos) (depth : Nat) (seeds : List Pos) (pre : Pos → Nat)
    (cfg : Cfg ops apex depth seeds pre) (n cap : Nat) (s s' : S) (hr : Reachable n cap apex seeds pre s)
    (k : Nat) (p : Pos) (hs : step s (.cbBegin k p) = some s') :
    ∀ j, j < 4 → p.child j ∈ ops → Ev.cbEnd (p.child j) ∈ s.log := by
  obtain ⟨h, _⟩ := inv_reachable ops apex depth seeds pre cfg n cap s hr
  simp only [step] at hs
  split at hs
  · rename_i hg
    obtain ⟨_, hp⟩ := hg
    intro j hj hc
    have hpin : p ∈ ops := by
      by_cases hpo : p ∈ ops
      · exact hpo
      · have := h.outside p hpo; rw [hp] at this; cases this
    have hlvc := cfg.level _ hc
    have hplv : p.n + 1 < depth := by simp only [Pos.child] at hlvc; exact hlvc
    have := h.past p hpin hplv (by rw [hp]; simp) j hj hc
    rw [h.ended, this]; simp [Phase.rank]
  · cases hs

/-- **exactly once, never for anything else**: in every reachable state the callback has been started at
most once per tile and only for live non-leaf tiles of the selected sub-pyramid. -/
theorem par_walk_at_most_once (ops : List Pos) (apex : Pos) (depth : Nat) (seeds : List Pos) (pre : Pos → Nat)
    (cfg : Cfg ops apex depth seeds pre) (n cap : Nat) (s : S) (hr : Reachable n cap apex seeds pre s) :
    s.log.Nodup ∧ ∀ p, (Ev.cbBegin p ∈ s.log ∨ Ev.cbEnd p ∈ s.log) → p ∈ ops := by
  obtain ⟨h, _⟩ := inv_reachable ops apex depth seeds pre cfg n cap s hr
  refine ⟨h.logNodup, ?_⟩
  intro p hp
  by_cases hpo : p ∈ ops
  · exact hpo
  · have hw := h.outside p hpo
    rcases hp with hp | hp
    · rw [h.begun, hw] at hp; simp [Phase.rank] at hp
    · rw [h.ended, hw] at hp; simp [Phase.rank] at hp

/-- everything under a retired tile is retired -/
theorem retired_down (ops : List Pos) (apex : Pos) (depth : Nat) (seeds : List Pos) (pre : Pos → Nat)
    (cfg : Cfg ops apex depth seeds pre) (s : S) (h : InvPh ops depth s) (hap : s.ph apex = .retired) :
    ∀ (d : Nat) (p : Pos), p ∈ ops → p.n = apex.n + d → s.ph p = .retired := by
  intro d
  induction d with
  | zero =>
    intro p hp hn
    by_cases hpa : p = apex
    · rw [hpa]; exact hap
    · -- a tile of `ops` at the apex's level is the apex: its ancestors stay in `ops` and shrink in level
      exfalso
      -- climb: p ≠ apex → parent ∈ ops with smaller level; but every tile of ops has level ≥ apex.n (shown below)
      have key : ∀ (m : Nat) (q : Pos), q ∈ ops → q.n = m → apex.n ≤ q.n := by
        intro m
        induction m using Nat.strongRecOn with
        | _ m ih =>
          intro q hq hm
          by_cases hqa : q = apex
          · rw [hqa]; exact Nat.le_refl _
          · obtain ⟨h1, h2⟩ := cfg.parentIn q hq hqa
            have := ih (q.parent.n) (by simp only [Pos.parent]; omega) q.parent h2 rfl
            simp only [Pos.parent] at this; omega
      obtain ⟨h1, h2⟩ := cfg.parentIn p hp hpa
      have := key _ p.parent h2 rfl
      simp only [Pos.parent] at this; omega
  | succ d ih =>
    intro p hp hn
    have hpa : p ≠ apex := by intro e; subst e; omega
    obtain ⟨h1, h2⟩ := cfg.parentIn p hp hpa
    have hpr := ih p.parent h2 (by simp only [Pos.parent]; omega)
    have hlv : p.parent.n + 1 < depth := by
      have := cfg.level p hp
      simp only [Pos.parent]; omega
    have hslot : p.slot < 4 := by simp only [Pos.slot]; omega
    have := h.past p.parent h2 hlv (by rw [hpr]; simp) p.slot hslot (by rw [C13.child_parent p h1]; exact hp)
    rw [C13.child_parent p h1] at this
    exact this

/-- **par_walk_terminal**: when `walk` has returned, every worker has exited and the callback has been
started and has completed exactly once for every live non-leaf tile — and for nothing else. -/
theorem par_walk_terminal (ops : List Pos) (apex : Pos) (depth : Nat) (seeds : List Pos) (pre : Pos → Nat)
    (cfg : Cfg ops apex depth seeds pre) (n cap : Nat) (s : S) (hr : Reachable n cap apex seeds pre s)
    (hret : s.pc = .returned) :
    (∀ k, k < s.n → s.ws k = .exited) ∧ s.log.Nodup ∧
    (∀ p, Ev.cbBegin p ∈ s.log ↔ p ∈ ops) ∧ (∀ p, Ev.cbEnd p ∈ s.log ↔ p ∈ ops) := by
  obtain ⟨h, hw⟩ := inv_reachable ops apex depth seeds pre cfg n cap s hr
  have hap : s.ph apex = .retired := hw.apexRetired (by rw [hret]; rfl)
  have hall : ∀ p ∈ ops, s.ph p = .retired := by
    intro p hp
    have hge : apex.n ≤ p.n := by
      -- every tile of ops is at or below the apex's level
      have key : ∀ (m : Nat) (q : Pos), q ∈ ops → q.n = m → apex.n ≤ q.n := by
        intro m
        induction m using Nat.strongRecOn with
        | _ m ih =>
          intro q hq hm
          by_cases hqa : q = apex
          · rw [hqa]; exact Nat.le_refl _
          · obtain ⟨h1, h2⟩ := cfg.parentIn q hq hqa
            have := ih (q.parent.n) (by simp only [Pos.parent]; omega) q.parent h2 rfl
            simp only [Pos.parent] at this; omega
      exact key _ p hp rfl
    exact retired_down ops apex depth seeds pre cfg s h hap (p.n - apex.n) p hp (by omega)
  have hmost := par_walk_at_most_once ops apex depth seeds pre cfg n cap s hr
  refine ⟨hw.returnedAll hret, h.logNodup, ?_, ?_⟩
  · intro p
    constructor
    · intro hb; exact hmost.2 p (Or.inl hb)
    · intro hp; rw [h.begun, hall p hp]; simp [Phase.rank]
  · intro p
    constructor
    · intro hb; exact hmost.2 p (Or.inr hb)
    · intro hp; rw [h.ended, hall p hp]; simp [Phase.rank]


/-! ### the order, read off the callback log -/

/-- in the log, the end of every live child's callback precedes the begin of its parent's -/
def OrderOK (ops : List Pos) (log : List Ev) : Prop :=
  ∀ pre post p, log = pre ++ Ev.cbBegin p :: post → ∀ j, j < 4 → p.child j ∈ ops → Ev.cbEnd (p.child j) ∈ pre

theorem orderOK_append (ops : List Pos) (log : List Ev) (e : Ev) (h : OrderOK ops log)
    (hnew : ∀ p, e = Ev.cbBegin p → ∀ j, j < 4 → p.child j ∈ ops → Ev.cbEnd (p.child j) ∈ log) :
    OrderOK ops (log ++ [e]) := by
  intro pre post p hdec j hj hc
  -- either the decomposition lies inside `log`, or `cbBegin p` is the appended event
  rcases List.append_eq_append_iff.mp hdec with ⟨as, h1, h2⟩ | ⟨bs, h1, h2⟩
  · -- pre = log ++ as, [e] = as ++ cbBegin p :: post
    cases as with
    | nil =>
      simp only [List.nil_append, List.cons.injEq] at h2
      simp only [List.append_nil] at h1
      rw [h1]
      exact hnew p h2.1 j hj hc
    | cons a as' =>
      simp only [List.cons_append, List.cons.injEq] at h2
      have := h2.2
      cases as' <;> simp at this
  · -- log = pre ++ bs, cbBegin p :: post = bs ++ [e]
    cases bs with
    | nil =>
      simp only [List.nil_append, List.cons.injEq] at h2
      simp only [List.append_nil] at h1
      rw [← h1]
      exact hnew p h2.1.symm j hj hc
    | cons b bs' =>
      simp only [List.cons_append, List.cons.injEq] at h2
      obtain ⟨hb, hpost⟩ := h2
      subst hb
      exact h pre bs' p h1 j hj hc

theorem log_step (s s' : S) (l : L) (hs : step s l = some s') :
    s'.log = s.log ∨ (∃ k p, l = .cbBegin k p ∧ s'.log = s.log ++ [.cbBegin p]) ∨ (∃ k p, l = .cbEnd k p ∧ s'.log = s.log ++ [.cbEnd p]) := by
  cases l <;> simp only [step] at hs
  case cbBegin k p =>
    split at hs
    · cases hs; exact Or.inr (Or.inl ⟨k, p, rfl, rfl⟩)
    · cases hs
  case cbEnd k p =>
    split at hs
    · cases hs; exact Or.inr (Or.inr ⟨k, p, rfl, rfl⟩)
    · cases hs
  case drecv p =>
    left
    split at hs
    · split at hs
      · cases hs; rfl
      · simp only [bump] at hs
        by_cases hrel : Gen.walk_release (Gen.walk_flags_update (s.mask p.parent) (Gen.walk_bit_num (p.x % 2) (p.y % 2))) = true
        · simp only [hrel, if_true, Option.some.injEq] at hs; subst hs; rfl
        · simp only [hrel, Bool.false_eq_true, if_false, Option.some.injEq] at hs; subst hs; rfl
    · cases hs
  case seed p =>
    left
    split at hs
    · split at hs
      · cases hs; rfl
      · cases hs
    all_goals cases hs
  all_goals
    left
    split at hs
    · cases hs; rfl
    · cases hs

theorem run_append : ∀ (t1 t2 : List L) (a : S), run a (t1 ++ t2) = (run a t1).bind (fun b => run b t2) := by
  intro t1
  induction t1 with
  | nil => intro t2 a; rfl
  | cons x xs ih =>
    intro t2 a
    simp only [List.cons_append, run]
    cases hx : step a x with
    | none => rfl
    | some a1 => exact ih t2 a1

/-- **par_walk_order, on the log**: in every reachable state the callback log is ordered: for every tile
whose callback has begun, the callbacks of all its live non-leaf children ended earlier in the log. -/
theorem par_walk_log_order (ops : List Pos) (apex : Pos) (depth : Nat) (seeds : List Pos) (pre : Pos → Nat)
    (cfg : Cfg ops apex depth seeds pre) (n cap : Nat) : ∀ (tr : List L) (s : S),
    run (init n cap apex seeds pre) tr = some s → OrderOK ops s.log := by
  -- induction over the trace from the right
  suffices aux : ∀ (tr : List L) (s0 s : S), Reachable n cap apex seeds pre s0 → OrderOK ops s0.log →
      run s0 tr = some s → OrderOK ops s.log by
    intro tr s hr
    exact aux tr _ s ⟨[], rfl⟩ (by intro pre' post p hdec; simp [init] at hdec) hr
  intro tr
  induction tr with
  | nil => intro s0 s _ ho hr; simp only [run, Option.some.injEq] at hr; subst hr; exact ho
  | cons l ls ih =>
    intro s0 s hreach ho hr
    simp only [run] at hr
    split at hr
    · rename_i s1 hs1
      have hreach1 : Reachable n cap apex seeds pre s1 := by
        obtain ⟨t0, ht0⟩ := hreach
        refine ⟨t0 ++ [l], ?_⟩
        rw [run_append, ht0]
        simp [run, hs1]
      have ho1 : OrderOK ops s1.log := by
        rcases log_step s0 s1 l hs1 with h | ⟨k, p, hl, h⟩ | ⟨k, p, hl, h⟩
        · rw [h]; exact ho
        · rw [h]
          apply orderOK_append ops s0.log _ ho
          intro p' hp' j hj hc
          simp only [Ev.cbBegin.injEq] at hp'
          subst hp'; subst hl
          exact par_walk_order ops apex depth seeds pre cfg n cap s0 s1 hreach k p hs1 j hj hc
        · rw [h]
          apply orderOK_append ops s0.log _ ho
          intro p' hp'; cases hp'
      exact ih s1 s hreach1 ho1 hr
    · cases hr

/-! non-vacuity: depth 2, the apex and one live level-1 tile whose siblings are dead; two workers -/
example : ∃ s, run (init 2 4 ⟨0, 0, 0⟩ [⟨1, 1, 0⟩] (fun p => if p = ⟨0, 0, 0⟩ then 13 else 0))
    [.seed ⟨1, 1, 0⟩, .start 0, .start 1, .begin 1, .rflush ⟨1, 1, 0⟩, .rlock 1, .rrecv 1 ⟨1, 1, 0⟩, .cbBegin 1 ⟨1, 1, 0⟩,
     .cbEnd 1 ⟨1, 1, 0⟩, .dput 1 ⟨1, 1, 0⟩, .dflush 1 ⟨1, 1, 0⟩, .dlock, .drecv ⟨1, 1, 0⟩, .release ⟨0, 0, 0⟩,
     .rflush ⟨0, 0, 0⟩, .rlock 1, .rrecv 1 ⟨0, 0, 0⟩, .cbBegin 1 ⟨0, 0, 0⟩, .cbEnd 1 ⟨0, 0, 0⟩, .dput 1 ⟨0, 0, 0⟩,
     .dflush 1 ⟨0, 0, 0⟩, .dlock, .drecv ⟨0, 0, 0⟩, .close, .joinThread, .setFlag, .begin 0, .rlock 0, .rempty 0,
     .flagQ 0 true, .rlock 1, .rempty 1, .flagQ 1 true, .join 0, .join 1] = some s ∧ s.pc = .returned ∧
    s.log = [.cbBegin ⟨1, 1, 0⟩, .cbEnd ⟨1, 1, 0⟩, .cbBegin ⟨0, 0, 0⟩, .cbEnd ⟨0, 0, 0⟩] := ⟨_, rfl, rfl, rfl⟩

end C01
