/-
C18 — Publishing is crash-safe: index.wtml reaches the store only after all else.
-/
import ToastyVerif.Model.Publish
import ToastyVerif.Gen.Plumbing

namespace C18
open Pub Gen.Publish

/-! ### the reorder -/

theorem reorder_of_not_mem (fs : List String) (h : index_name ∉ fs) : reorder fs = fs := by
  unfold reorder pyIndex
  have : fs.findIdx? (· == "index.wtml") = none := by
    rw [List.findIdx?_eq_none_iff]
    intro x hx
    by_cases e : x = "index.wtml"
    · subst e; exact absurd hx h
    · simp [e]
  rw [this]

/-- what the reorder does when `index.wtml` is listed: swap it with the last entry -/
theorem reorder_eq (fs : List String) (i : Nat) (hi : i < fs.length) (hidx : fs[i] = index_name)
    (hfirst : fs.findIdx? (· == "index.wtml") = some i) :
    reorder fs = (fs.set (fs.length - 1) fs[i]).set i (fs[fs.length - 1]'(by omega)) := by
  unfold reorder pyIndex
  rw [hfirst]
  simp only [pySet, pyGet, pyNorm, List.length_set]
  have h1 : ((-1 : Int) < 0) := by decide
  have h2 : ¬ (((i : Nat) : Int) < 0) := by omega
  simp only [h1, h2, if_true, if_false]
  have e1 : ((-1 : Int) + (fs.length : Int)).toNat = fs.length - 1 := by omega
  have e2 : ((i : Nat) : Int).toNat = i := by omega
  rw [e1, e2, hidx]
  congr 1
  rw [List.getD_eq_getElem?_getD, List.getElem?_eq_getElem (by omega)]
  rfl

/-- **swap_perm_last**: for every listing that contains `index.wtml`, the transfer list is a
permutation of the listing with `index.wtml` last. -/
theorem swap_perm_last (fs : List String) (h : index_name ∈ fs) :
    (reorder fs).Perm fs ∧ (reorder fs).getLast? = some index_name := by
  have hex : ∃ i, fs.findIdx? (· == "index.wtml") = some i := by
    cases hf : fs.findIdx? (· == "index.wtml") with
    | some i => exact ⟨i, rfl⟩
    | none =>
      rw [List.findIdx?_eq_none_iff] at hf
      have := hf _ h
      simp [index_name] at this
  obtain ⟨i, hfi⟩ := hex
  have hspec := List.findIdx?_eq_some_iff_getElem.mp hfi
  obtain ⟨hi, hp, _⟩ := hspec
  have hidx : fs[i] = index_name := by simpa [index_name] using hp
  have hn : fs.length - 1 < fs.length := by omega
  rw [reorder_eq fs i hi hidx hfi]
  refine ⟨List.set_set_perm hn hi, ?_⟩
  rw [List.getLast?_eq_getElem?]
  simp only [List.length_set]
  by_cases hlast : i = fs.length - 1
  · subst hlast
    rw [List.getElem?_set_self (by simp; omega)]
    simp only [Option.some.injEq]
    exact hidx
  · rw [List.getElem?_set_ne (by omega), List.getElem?_set_self (by omega), hidx]

theorem reorder_length (fs : List String) : (reorder fs).length = fs.length := by
  by_cases h : index_name ∈ fs
  · exact (swap_perm_last fs h).1.length_eq
  · rw [reorder_of_not_mem fs h]

theorem mem_reorder (fs : List String) (f : String) : f ∈ reorder fs ↔ f ∈ fs := by
  by_cases h : index_name ∈ fs
  · exact (swap_perm_last fs h).1.mem_iff
  · rw [reorder_of_not_mem fs h]

/-- `index.wtml` is in a prefix of the transfer list only if the prefix is the whole list -/
theorem index_in_take (fs : List String) (hnd : fs.Nodup) (h : index_name ∈ fs) (k : Nat)
    (hk : index_name ∈ (reorder fs).take k) : fs.length ≤ k := by
  have ⟨hperm, hlast⟩ := swap_perm_last fs h
  have hnd' : (reorder fs).Nodup := hperm.nodup_iff.mpr hnd
  have hlen := reorder_length fs
  generalize reorder fs = o at *
  by_cases hc : fs.length ≤ k
  · exact hc
  · exfalso
    -- index is at position length-1, a prefix of length k < length cannot contain it (no duplicates)
    rw [List.getLast?_eq_getElem?] at hlast
    have hk' : k < o.length := by omega
    obtain ⟨j, hj, hje⟩ := List.getElem_of_mem hk
    have hj' : j < k := by
      have : j < (o.take k).length := hj
      rw [List.length_take] at this; omega
    rw [List.getElem_take] at hje
    have hl : o[o.length - 1]'(by omega) = index_name := by
      have := List.getElem?_eq_getElem (l := o) (i := o.length - 1) (by omega)
      rw [this] at hlast
      exact Option.some.inj hlast
    have := (List.getElem_inj (i := j) (j := o.length - 1) (h₀ := by omega) (h₁ := by omega) hnd').mp (hje.trans hl.symm)
    omega

/-! ### safety over all histories -/

/-- a well-formed run: it lists exactly the image's files, in some order, without repetition -/
def RunOK (files : List String) (r : Run) : Prop := r.listing.Perm files

/-- everything the store holds is complete or absent, except possibly what is allowed when `put`
is not atomic -/
def NoPartial (w : World) : Prop := ∀ f, w.store f ≠ .part

theorem midStore_atomic (s1 : String → St) (o : Option String) : midStore true s1 o = s1 := by
  cases o <;> rfl

theorem applyRun_store_atomic (w : World) (r : Run) (hmv : w.moved = false) :
    (applyRun true w r).store = doneStore (reorder r.listing) r.k w.store ∧
    (applyRun true w r).moved = (decide ((reorder r.listing).length ≤ r.k) && !r.mid && r.renamed) := by
  unfold applyRun
  simp only [hmv, Bool.false_eq_true, if_false, midStore_atomic]
  cases r.mid <;> simp

theorem applyRun_atomic_preserves (files : List String) (hnd : files.Nodup) (hidx : index_name ∈ files)
    (w : World) (r : Run) (hr : RunOK files r)
    (hs : Safe files w) (hp : NoPartial w) (hm : w.moved = true → ∀ f ∈ files, w.store f = .complete) :
    Safe files (applyRun true w r) ∧ NoPartial (applyRun true w r) ∧
      ((applyRun true w r).moved = true → ∀ f ∈ files, (applyRun true w r).store f = .complete) := by
  by_cases hmoved : w.moved = true
  · have : applyRun true w r = w := by unfold applyRun; simp [hmoved]
    rw [this]; exact ⟨hs, hp, hm⟩
  · have hmv : w.moved = false := by simpa using hmoved
    obtain ⟨hst, hmvd⟩ := applyRun_store_atomic w r hmv
    have hlnd : r.listing.Nodup := hr.nodup_iff.mpr hnd
    have hlidx : index_name ∈ r.listing := hr.mem_iff.mpr hidx
    have hfull : r.listing.length ≤ r.k → ∀ f ∈ files, f ∈ (reorder r.listing).take r.k := by
      intro hall f hf
      rw [List.take_of_length_le (by rw [reorder_length]; exact hall)]
      exact (mem_reorder _ _).mpr (hr.mem_iff.mpr hf)
    refine ⟨?_, ?_, ?_⟩
    · intro hne f hf hfi
      rw [hst] at hne ⊢
      unfold doneStore at hne ⊢
      by_cases hin : index_name ∈ (reorder r.listing).take r.k
      · have hall := index_in_take r.listing hlnd hlidx r.k hin
        simp [hfull hall f hf]
      · simp only [hin, if_false] at hne
        have := hs hne f hf hfi
        by_cases hfm : f ∈ (reorder r.listing).take r.k
        · simp [hfm]
        · simp [hfm, this]
    · intro f
      rw [hst]
      unfold doneStore
      by_cases hfm : f ∈ (reorder r.listing).take r.k
      · simp [hfm]
      · simp only [hfm, if_false]; exact hp f
    · intro hmv' f hf
      rw [hmvd] at hmv'
      simp only [Bool.and_eq_true, decide_eq_true_eq] at hmv'
      have hall : r.listing.length ≤ r.k := by rw [← reorder_length]; exact hmv'.1.1
      rw [hst]
      unfold doneStore
      simp [hfull hall f hf]

/-- **publish_inv** (atomic store writes): for every file set, every sequence of publish
invocations — each seeing the directory in an arbitrary order and stopped before, inside or after
any transfer, or not at all — the store never holds an `index.wtml` whose companions are missing
or incomplete, and an image moved to `published/` is completely stored. -/
theorem publish_inv_atomic (files : List String) (hnd : files.Nodup) (hidx : index_name ∈ files)
    (rs : List Run) (hrs : ∀ r ∈ rs, RunOK files r) :
    Safe files (runAll true World.init rs) ∧
      ((runAll true World.init rs).moved = true → ∀ f ∈ files, (runAll true World.init rs).store f = .complete) := by
  suffices h : ∀ (w : World), Safe files w → NoPartial w → (w.moved = true → ∀ f ∈ files, w.store f = .complete) →
      Safe files (runAll true w rs) ∧ NoPartial (runAll true w rs) ∧
        ((runAll true w rs).moved = true → ∀ f ∈ files, (runAll true w rs).store f = .complete) by
    have := h World.init (by intro h; simp [World.init] at h) (by intro f; simp [World.init])
      (by intro h; simp [World.init] at h)
    exact ⟨this.1, this.2.2⟩
  induction rs with
  | nil => intro w a b c; exact ⟨a, b, c⟩
  | cons r rs ih =>
    intro w a b c
    have hr := hrs r (List.mem_cons_self)
    obtain ⟨a', b', c'⟩ := applyRun_atomic_preserves files hnd hidx w r hr a b c
    exact ih (fun r' hr' => hrs r' (List.mem_cons_of_mem _ hr')) _ a' b' c'

/-- **first publication** (any store): as long as `index.wtml` has never reached the store, a single
run — interrupted anywhere, with in-place (non-atomic) writes — keeps the store safe. -/
theorem publish_first_run_safe (files : List String) (hnd : files.Nodup) (hidx : index_name ∈ files)
    (atomic : Bool) (w : World) (r : Run) (hr : RunOK files r) (hmv : w.moved = false)
    (habs : w.store index_name = .absent) :
    Safe files (applyRun atomic w r) := by
  have hlnd : r.listing.Nodup := hr.nodup_iff.mpr hnd
  have hlidx : index_name ∈ r.listing := hr.mem_iff.mpr hidx
  have ⟨hperm, hlast⟩ := swap_perm_last r.listing hlidx
  have hnd' : (reorder r.listing).Nodup := hperm.nodup_iff.mpr hlnd
  have hlen := reorder_length r.listing
  have hlast' : ∃ p : r.listing.length - 1 < (reorder r.listing).length, (reorder r.listing)[r.listing.length - 1] = index_name := by
    rw [List.getLast?_eq_getElem?, hlen] at hlast
    exact List.getElem?_eq_some_iff.mp hlast
  obtain ⟨plast, elast⟩ := hlast'
  have hstore : (applyRun atomic w r).store =
      if r.mid then midStore atomic (doneStore (reorder r.listing) r.k w.store) (reorder r.listing)[r.k]?
      else doneStore (reorder r.listing) r.k w.store := by
    unfold applyRun; simp [hmv]
  intro hne f hf hfi
  rw [hstore] at hne ⊢
  -- (1) every file other than index.wtml that is in the done-prefix is complete and not the one cut off
  -- (2) index.wtml non-absent forces k ≥ n-1
  have hkey : r.listing.length - 1 ≤ r.k := by
    by_cases hc : r.listing.length - 1 ≤ r.k
    · exact hc
    · exfalso
      apply hne
      have hnot : index_name ∉ (reorder r.listing).take r.k := by
        intro hin
        have := index_in_take r.listing hlnd hlidx r.k hin
        omega
      have hdone : doneStore (reorder r.listing) r.k w.store index_name = .absent := by
        unfold doneStore; simp [hnot, habs]
      cases hmid : r.mid with
      | false => simp [hdone]
      | true =>
        simp only [if_true]
        cases hg : (reorder r.listing)[r.k]? with
        | none => simp [midStore, hdone]
        | some g =>
          have hgne : index_name ≠ g := by
            intro he
            obtain ⟨p1, e1⟩ := List.getElem?_eq_some_iff.mp hg
            have := (List.getElem_inj (h₀ := p1) (h₁ := plast) hnd').mp (e1.trans (he.symm.trans elast.symm))
            omega
          cases atomic <;> simp [midStore, hdone, hgne]
  have hfm : f ∈ reorder r.listing := (mem_reorder _ _).mpr (hr.mem_iff.mpr hf)
  obtain ⟨j, hj, hje⟩ := List.getElem_of_mem hfm
  have hjl : j ≠ r.listing.length - 1 := by
    intro he; subst he; exact hfi (hje.symm.trans elast)
  have hjk : j < r.k := by omega
  have hfpos : f ∈ (reorder r.listing).take r.k := by
    rw [List.mem_take_iff_getElem]
    exact ⟨j, by omega, hje⟩
  have hdone : doneStore (reorder r.listing) r.k w.store f = .complete := by
    unfold doneStore; simp [hfpos]
  cases hmid : r.mid with
  | false => simp [hdone]
  | true =>
    simp only [if_true]
    cases hg : (reorder r.listing)[r.k]? with
    | none => simp [midStore, hdone]
    | some g =>
      have hgne : f ≠ g := by
        intro he
        obtain ⟨p1, e1⟩ := List.getElem?_eq_some_iff.mp hg
        have := (List.getElem_inj (h₀ := hj) (h₁ := p1) hnd').mp (hje.trans (he.trans e1.symm))
        omega
      cases atomic <;> simp [midStore, hdone, hgne]

/-- **rerun_completes**: a run that is not interrupted stores everything and moves the image -/
theorem rerun_completes (files : List String) (atomic : Bool) (w : World) (listing : List String)
    (hl : listing.Perm files) (hmv : w.moved = false) :
    (applyRun atomic w ⟨listing, listing.length, false, true⟩).moved = true ∧
    ∀ f ∈ files, (applyRun atomic w ⟨listing, listing.length, false, true⟩).store f = .complete := by
  unfold applyRun
  simp only [hmv, Bool.false_eq_true, if_false, reorder_length]
  refine ⟨by simp, ?_⟩
  intro f hf
  have : f ∈ (reorder listing).take listing.length := by
    rw [List.take_of_length_le (by rw [reorder_length]; exact Nat.le_refl _)]
    exact (mem_reorder _ _).mpr (hl.mem_iff.mpr hf)
  simp [doneStore, this]

/-- **refresh_never_skips_partial**: whenever `refresh` would skip the image, every other file is
complete in the store (histories as in `publish_inv_atomic`). -/
theorem refresh_never_skips_partial (files : List String) (hnd : files.Nodup) (hidx : index_name ∈ files)
    (rs : List Run) (hrs : ∀ r ∈ rs, RunOK files r) (hskip : refreshSkips (runAll true World.init rs) = true) :
    ∀ f ∈ files, f ≠ index_name → (runAll true World.init rs).store f = .complete := by
  have := (publish_inv_atomic files hnd hidx rs hrs).1
  unfold refreshSkips at hskip
  simp only [Bool.and_eq_true, decide_eq_true_eq] at hskip
  exact this hskip.2

/-- the local store writes items atomically (temp file + `os.replace`): extracted from local_io.py -/
theorem put_is_atomic : put_atomic = true := by decide

/-- **publish_inv**, for the store as implemented now (`Gen.Publish.put_atomic`) -/
theorem publish_inv (files : List String) (hnd : files.Nodup) (hidx : index_name ∈ files)
    (rs : List Run) (hrs : ∀ r ∈ rs, RunOK files r) :
    Safe files (runAll put_atomic World.init rs) ∧
      ((runAll put_atomic World.init rs).moved = true → ∀ f ∈ files, (runAll put_atomic World.init rs).store f = .complete) := by
  rw [put_is_atomic]
  exact publish_inv_atomic files hnd hidx rs hrs

/-- structural facts re-extracted from the source on every run -/
theorem source_facts : transfers_in_list_order = true ∧ rename_after_loop = true ∧ put_unconditional = true ∧
    refresh_skips_on_index = true := by decide

/-! ### in-place writes: the full-strength statement fails for histories with two interruptions -/

/-- With in-place (`open(path, 'wb')`) writes, interrupt the first run *inside* the transfer of
`index.wtml`, then interrupt the re-run inside the transfer of the first file: the store holds an
`index.wtml` next to a truncated tile.  (Replayed on the real LocalPipelineIo by the harness.) -/
theorem inplace_double_fault_unsafe :
    ¬ Safe ["a.png", "index.wtml"]
      (runAll false World.init [⟨["a.png", "index.wtml"], 1, true, false⟩, ⟨["a.png", "index.wtml"], 0, true, false⟩]) := by
  decide

/-! non-vacuity -/
example : reorder ["index.wtml", "b", "c"] = ["c", "b", "index.wtml"] := by decide
example : RunOK ["a", "index.wtml", "t"] ⟨["index.wtml", "t", "a"], 2, true, false⟩ := by
  unfold RunOK; decide

/-- **entry_points**: the call sites through which this property's workflows reach the modelled functions have, in the source as
it is now, the argument plumbing the model assumes (facts re-extracted on every run, `Gen/Plumbing.lean`) -/
theorem entry_points : Gen.Plumbing.pipeline_refresh_asks_for_index = true := by decide

end C18
