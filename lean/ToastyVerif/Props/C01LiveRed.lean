/-
C01, liveness end to end — the configuration delivered by the real prologue (reduction iterator, seeds, pre-readied
masks) satisfies the two extra facts the liveness theorem `C01Live.par_walk_progress` needs (the seed list has no
duplicates; every non-leaf operation has an operation among its children), so for generic (sub-)pyramids and
(filtered) TOAST (sub-)pyramids the parallel walk can always finish, from every reachable state.
-/
import ToastyVerif.Props.C01Red
import ToastyVerif.Props.C01Live

namespace C01LiveRed
open Pos Pyr Red Walk C01Red

/-- every non-leaf operation has an operation among its four children: the leaf below it lies below one of them -/
theorem opsOf_childIn (yld : Pos → Bool) (depth : Nat) (apex : Pos) (hd : apex.n ≤ depth) :
    ∀ p ∈ opsOf yld depth apex, p.n + 1 < depth → ∃ k, k < 4 ∧ p.child k ∈ opsOf yld depth apex := by
  intro p hp hl
  obtain ⟨hu, hn, hpath, hleaf⟩ := (mem_opsOf yld depth apex p hd).1 hp
  have hyp : yld p = true := by have := hpath p.n hu.1 (Nat.le_refl _); rw [anc_self] at this; exact this
  rw [hasLeaf_iff yld depth p (by omega) hyp] at hleaf
  obtain ⟨r, hr, hrn⟩ := hleaf
  obtain ⟨ru, _, rpath⟩ := (mem_trav yld _ p r).1 hr
  obtain ⟨i, hi, rci, hanc⟩ := under_child_of r p ru (by omega)
  have hcn : (p.child i).n = p.n + 1 := rfl
  have hyc : yld (p.child i) = true := by
    have := rpath (p.n + 1) (by omega) (by omega)
    rw [hanc] at this; exact this
  refine ⟨i, hi, ?_⟩
  rw [mem_opsOf yld depth apex (p.child i) hd]
  refine ⟨?_, by rw [hcn]; omega, ?_, ?_⟩
  · refine ⟨by rw [hcn]; have := hu.1; omega, ?_⟩
    intro k hk
    rw [anc_child p i k hi (by have := hu.1; omega)]
    exact hu.2 k hk
  · intro k h1 h2
    rw [hcn] at h2
    by_cases e : k = p.n + 1
    · subst e; rw [← hcn, anc_self]; exact hyc
    · rw [anc_child p i k hi (by omega)]
      exact hpath k h1 (by omega)
  · rw [hasLeaf_iff yld depth (p.child i) (by rw [hcn]; omega) hyc]
    refine ⟨r, ?_, hrn⟩
    rw [mem_trav]
    refine ⟨rci, by omega, ?_⟩
    intro k h1 h2
    exact rpath k (by rw [hcn] at h1; omega) h2

/-- the prologue's seed list has no duplicates (it is a filtered traversal) -/
theorem prologue_seeds_nodup (yld : Pos → Bool) (depth : Nat) (apex : Pos) (toast : Option (Pos → Bool))
    (hv : apex.valid) (hd : apex.n < depth) (hy : yld apex = true)
    (rest : List Pos) (hg : generator depth apex toast = trav yld (depth + 1 - apex.n) apex ++ rest)
    (pr : Prologue) (hpr : prologue depth apex toast = .ok pr) : pr.seeds.Nodup := by
  obtain ⟨sf, hrun, _, _⟩ := run_tree yld depth apex (false, 0) fPro (depth + 1 - apex.n) hv (by simp [live, hy]; omega) rest
  rw [travI_eq_map yld depth (false, 0) fPro _ apex (by omega)] at hrun
  unfold prologue at hpr
  rw [hg, hrun] at hpr
  simp only [Except.ok.injEq] at hpr
  subst hpr
  simp only [List.filter_map, List.map_map]
  have hid : (Prod.fst ∘ entry yld depth (false, 0) fPro) = id := by funext q; rfl
  rw [hid, List.map_id]
  exact (trav_nodup yld _ apex).filter _

/-- **Liveness from the real prologue.**  Same hypotheses as `C01Red.prologue_cfg`; for every number of workers `n > 0`
and every capacity, from every reachable state of the parallel walk some continuation ends with `walk` returned, all
workers exited and the callback run exactly once for every operation. -/
theorem par_walk_live_of (yld : Pos → Bool) (depth : Nat) (apex : Pos) (toast : Option (Pos → Bool))
    (hv : apex.valid) (hd : apex.n < depth) (hy : yld apex = true) (hleaf : hasLeaf yld depth apex = true)
    (rest : List Pos) (hg : generator depth apex toast = trav yld (depth + 1 - apex.n) apex ++ rest) :
    ∃ pr, prologue depth apex toast = .ok pr ∧
      ∀ (n cap : Nat), 0 < n → ∀ (s : S), C01.Reachable n cap apex pr.seeds pr.pre s →
        ∃ tr s', run s tr = some s' ∧ s'.pc = .returned ∧ (∀ k, k < s'.n → s'.ws k = .exited) ∧ s'.log.Nodup ∧
          (∀ p, Ev.cbBegin p ∈ s'.log ↔ p ∈ opsOf yld depth apex) ∧ (∀ p, Ev.cbEnd p ∈ s'.log ↔ p ∈ opsOf yld depth apex) := by
  obtain ⟨pr, hpr, cfg⟩ := prologue_cfg yld depth apex toast hv hd hy hleaf rest hg
  refine ⟨pr, hpr, ?_⟩
  intro n cap hn s hr
  exact C01Live.par_walk_progress _ apex depth pr.seeds pr.pre cfg
    (prologue_seeds_nodup yld depth apex toast hv hd hy rest hg pr hpr)
    (opsOf_childIn yld depth apex (Nat.le_of_lt hd)) n cap hn s hr

/-- generic pyramids and sub-pyramids -/
theorem par_walk_live_generic (depth : Nat) (apex : Pos) (hv : apex.valid) (hd : apex.n < depth) :
    ∃ pr, prologue depth apex none = .ok pr ∧
      ∀ (n cap : Nat), 0 < n → ∀ (s : S), C01.Reachable n cap apex pr.seeds pr.pre s →
        ∃ tr s', run s tr = some s' ∧ s'.pc = .returned ∧ (∀ k, k < s'.n → s'.ws k = .exited) ∧ s'.log.Nodup ∧
          (∀ p, Ev.cbBegin p ∈ s'.log ↔ p ∈ opsOf (fun _ => true) depth apex) ∧
          (∀ p, Ev.cbEnd p ∈ s'.log ↔ p ∈ opsOf (fun _ => true) depth apex) := by
  obtain ⟨rest, hg⟩ := genSub_form depth apex hv (Nat.le_of_lt hd)
  exact par_walk_live_of (fun _ => true) depth apex none hv hd rfl (hasLeaf_generic depth (depth - apex.n) apex (by omega)) rest hg

/-- (filtered) TOAST pyramids -/
theorem par_walk_live_toast (depth : Nat) (acc : Pos → Bool) (hd : 1 ≤ depth) (hleaf : hasLeaf (yldRoot acc) depth Pos.root = true) :
    ∃ pr, prologue depth Pos.root (some acc) = .ok pr ∧
      ∀ (n cap : Nat), 0 < n → ∀ (s : S), C01.Reachable n cap Pos.root pr.seeds pr.pre s →
        ∃ tr s', run s tr = some s' ∧ s'.pc = .returned ∧ (∀ k, k < s'.n → s'.ws k = .exited) ∧ s'.log.Nodup ∧
          (∀ p, Ev.cbBegin p ∈ s'.log ↔ p ∈ opsOf (yldRoot acc) depth Pos.root) ∧
          (∀ p, Ev.cbEnd p ∈ s'.log ↔ p ∈ opsOf (yldRoot acc) depth Pos.root) := by
  have hg : generator depth Pos.root (some acc) = trav (yldRoot acc) (depth + 1 - Pos.root.n) Pos.root ++ [] := by
    simp only [generator, Pos.root, decide_true, Bool.true_or, Bool.true_and, List.append_nil]
    exact genToast_eq_trav depth acc
  exact par_walk_live_of (yldRoot acc) depth Pos.root (some acc) (by simp [valid, Pos.root]) (by simp [Pos.root]; omega)
    (by simp [yldRoot, Pos.root]) hleaf [] hg

/-- TOAST sub-pyramids -/
theorem par_walk_live_toast_sub (depth : Nat) (apex : Pos) (acc : Pos → Bool) (hv : apex.valid) (h1 : 1 ≤ apex.n) (hd : apex.n < depth)
    (hline : ∀ k, 1 ≤ k → k ≤ apex.n → acc (apex.anc k) = true) (hleaf : hasLeaf (yldRoot acc) depth apex = true) :
    ∃ pr, prologue depth apex (some acc) = .ok pr ∧
      ∀ (n cap : Nat), 0 < n → ∀ (s : S), C01.Reachable n cap apex pr.seeds pr.pre s →
        ∃ tr s', run s tr = some s' ∧ s'.pc = .returned ∧ (∀ k, k < s'.n → s'.ws k = .exited) ∧ s'.log.Nodup ∧
          (∀ p, Ev.cbBegin p ∈ s'.log ↔ p ∈ opsOf (yldRoot acc) depth apex) ∧
          (∀ p, Ev.cbEnd p ∈ s'.log ↔ p ∈ opsOf (yldRoot acc) depth apex) := by
  obtain ⟨rest, hg⟩ := generator_toast_sub depth apex acc hv h1 (Nat.le_of_lt hd) hline
  have hy : yldRoot acc apex = true := by
    have := hline apex.n h1 (Nat.le_refl _); rw [anc_self] at this; simp [yldRoot, this]
  exact par_walk_live_of (yldRoot acc) depth apex (some acc) hv hd hy hleaf rest hg

end C01LiveRed
