/-
C13 — Quadtree enumeration and tile counts are consistent and match what is visited.

Position algebra and the generic enumeration are proved here for every depth and position.
The bridge lemmas tie `Model/Pyramid.lean` to `Gen/Pyramid.lean` (re-extracted from
toasty/pyramid.py on every run).  The statements about the *filtered* counters go through the
reduction iterator and live in `Props/C01.lean` (`red_refines_fold` and its corollaries).
-/
import ToastyVerif.Gen.Pyramid
import ToastyVerif.Model.Pyramid
import ToastyVerif.Gen.Plumbing

namespace C13
open Pos Pyr

/-! ### parent / child / slot -/

theorem parent_child (p : Pos) (k : Nat) (hk : k < 4) :
    (p.child k).parent = p ∧ (p.child k).slot = k ∧ (p.child k).n = p.n + 1 := by
  refine ⟨?_, ?_, rfl⟩
  · cases p with | mk n x y =>
    simp only [child, parent, Pos.mk.injEq]
    omega
  · simp only [child, slot]; omega

theorem child_parent (p : Pos) (h : 1 ≤ p.n) : p.parent.child p.slot = p := by
  cases p with | mk n x y =>
  simp only [child, parent, slot, Pos.mk.injEq] at *
  omega

theorem children_eq (p : Pos) :
    p.children = [⟨p.n + 1, 2 * p.x, 2 * p.y⟩, ⟨p.n + 1, 2 * p.x + 1, 2 * p.y⟩,
                  ⟨p.n + 1, 2 * p.x, 2 * p.y + 1⟩, ⟨p.n + 1, 2 * p.x + 1, 2 * p.y + 1⟩] := by
  simp [children, child]

theorem child_valid (p : Pos) (k : Nat) (hk : k < 4) (hv : p.valid) : (p.child k).valid := by
  unfold valid child at *
  simp only [Nat.pow_succ]
  omega

/-! ### bridge to the generated definitions (the code's own `pos_parent`, `pos_children`,
slot / bit formulas) -/

theorem gen_pos_parent (p : Pos) :
    Gen.pos_parent p.toI =
      if p.n < 1 then none else some (p.parent.toI, ((p.x % 2 : Nat) : Int), ((p.y % 2 : Nat) : Int)) := by
  cases p with | mk n x y =>
  simp only [Gen.pos_parent, toI, parent]
  by_cases h : n < 1
  · have : (n : Int) < 1 := by omega
    simp [h, this]
  · have : ¬ (n : Int) < 1 := by omega
    simp only [h, this, if_false, Option.some.injEq, Prod.mk.injEq]
    refine ⟨⟨?_, ?_, ?_⟩, ?_, ?_⟩ <;> omega

theorem gen_pos_children (p : Pos) : Gen.pos_children p.toI = p.children.map toI := by
  cases p with | mk n x y =>
  simp only [Gen.pos_children, toI, children, child, List.map]
  simp only [List.cons.injEq, Prod.mk.injEq, and_true]
  refine ⟨⟨?_, ?_, ?_⟩, ⟨?_, ?_, ?_⟩, ⟨?_, ?_, ?_⟩, ⟨?_, ?_, ?_⟩⟩ <;> omega

/-- the iterator's `set_data` stores a child's value at list index `2 + slot` of its parent's entry -/
theorem gen_red_slot (p : Pos) : Gen.red_slot (p.x % 2) (p.y % 2) = 2 + p.slot := by
  unfold Gen.red_slot slot; omega

/-- the dispatcher's readiness bit of a finished child is the child's slot -/
theorem gen_walk_bit (p : Pos) : Gen.walk_bit_num (p.x % 2) (p.y % 2) = p.slot := by
  unfold Gen.walk_bit_num slot; omega

/-! ### is_subtile -/

/-- `q` is a descendant of `p`, `j` levels below -/
def Desc (q p : Pos) (j : Nat) : Prop := q.n = p.n + j ∧ q.x / 2 ^ j = p.x ∧ q.y / 2 ^ j = p.y

instance (q p : Pos) (j : Nat) : Decidable (Desc q p j) := by unfold Desc; infer_instance

theorem desc_zero (q p : Pos) : Desc q p 0 ↔ q = p := by
  cases q; cases p
  simp only [Desc, Nat.pow_zero, Nat.div_one, Nat.add_zero, Pos.mk.injEq]

theorem desc_succ (q p : Pos) (j : Nat) : Desc q p (j + 1) ↔ ∃ k, k < 4 ∧ Desc q (p.child k) j := by
  unfold Desc child
  have hx : q.x / 2 ^ (j + 1) = q.x / 2 ^ j / 2 := by rw [Nat.pow_succ, Nat.div_div_eq_div_mul]
  have hy : q.y / 2 ^ (j + 1) = q.y / 2 ^ j / 2 := by rw [Nat.pow_succ, Nat.div_div_eq_div_mul]
  rw [hx, hy]
  constructor
  · rintro ⟨h1, h2, h3⟩
    refine ⟨(q.x / 2 ^ j) % 2 + 2 * ((q.y / 2 ^ j) % 2), by omega, ?_, ?_, ?_⟩
    · simp only; omega
    · simp only; omega
    · simp only; omega
  · rintro ⟨k, hk, h1, h2, h3⟩
    simp only at h1 h2 h3
    refine ⟨by omega, by omega, by omega⟩

/-- stepping up from the deeper end: the parent of a proper descendant is a descendant -/
theorem desc_parent (q p : Pos) (j : Nat) : Desc q p (j + 1) ↔ (1 ≤ q.n ∧ Desc q.parent p j) := by
  unfold Desc parent
  have hx : q.x / 2 ^ (j + 1) = q.x / 2 / 2 ^ j := by
    rw [Nat.pow_succ, Nat.mul_comm, Nat.div_div_eq_div_mul]
  have hy : q.y / 2 ^ (j + 1) = q.y / 2 / 2 ^ j := by
    rw [Nat.pow_succ, Nat.mul_comm, Nat.div_div_eq_div_mul]
  rw [hx, hy]
  simp only
  constructor
  · rintro ⟨h1, h2, h3⟩; exact ⟨by omega, by omega, h2, h3⟩
  · rintro ⟨h0, h1, h2, h3⟩; exact ⟨by omega, h2, h3⟩

theorem desc_same_level (d s : Pos) (h : d.n = s.n) : Desc d s (d.n - s.n) ↔ (d.x = s.x ∧ d.y = s.y) := by
  have : d.n - s.n = 0 := by omega
  rw [this]
  simp only [Desc, Nat.pow_zero, Nat.div_one, Nat.add_zero, h, true_and]

theorem isSubFuel_spec : ∀ (f : Nat) (d s : Pos), d.n ≤ s.n + f →
    Pos.isSubFuel f d s = if d.n < s.n then none else some (decide (Desc d s (d.n - s.n))) := by
  intro f
  induction f with
  | zero =>
    intro d s h
    unfold Pos.isSubFuel
    by_cases h1 : d.n < s.n
    · rw [if_pos h1, if_pos h1]
    · have h2 : d.n = s.n := by omega
      rw [if_neg h1, if_pos h2, if_neg h1]
      congr 1
      rw [decide_eq_decide]
      exact (desc_same_level d s h2).symm
  | succ f ih =>
    intro d s h
    unfold Pos.isSubFuel
    by_cases h1 : d.n < s.n
    · rw [if_pos h1, if_pos h1]
    · by_cases h2 : d.n = s.n
      · rw [if_neg h1, if_pos h2, if_neg h1]
        congr 1
        rw [decide_eq_decide]
        exact (desc_same_level d s h2).symm
      · rw [if_neg h1, if_neg h2, if_neg h1]
        have hp : d.parent.n = d.n - 1 := rfl
        rw [ih d.parent s (by omega)]
        have h3 : ¬ d.parent.n < s.n := by omega
        rw [if_neg h3]
        congr 1
        have e : d.n - s.n = (d.parent.n - s.n) + 1 := by omega
        rw [e, decide_eq_decide, desc_parent]
        constructor
        · intro hd; exact ⟨by omega, hd⟩
        · intro hd; exact hd.2

/-- **is_subtile** agrees with the shift characterisation and with iterated `parent`:
it raises exactly when the first argument is shallower, and otherwise answers whether the
shallower position is the ancestor of the deeper one at that level. -/
theorem isSub_spec (d s : Pos) :
    Pos.isSub d s = if d.n < s.n then none else some (decide (Desc d s (d.n - s.n))) :=
  isSubFuel_spec d.n d s (by omega)

/-! ### generic enumeration is a duplicate-free post-order of exactly the in-scope positions -/

theorem postorder_succ (f : Nat) (p : Pos) :
    postorder (f + 1) p = postorder f (p.child 0) ++ postorder f (p.child 1) ++ postorder f (p.child 2)
      ++ postorder f (p.child 3) ++ [p] := rfl

theorem mem_postorder : ∀ (f : Nat) (p q : Pos), q ∈ postorder f p ↔ ∃ j, j < f ∧ Desc q p j := by
  intro f
  induction f with
  | zero => intro p q; simp [postorder]
  | succ f ih =>
    intro p q
    rw [postorder_succ]
    simp only [List.mem_append, List.mem_singleton, ih]
    constructor
    · rintro ((((⟨j, hj, hd⟩ | ⟨j, hj, hd⟩) | ⟨j, hj, hd⟩) | ⟨j, hj, hd⟩) | rfl)
      · exact ⟨j + 1, by omega, (desc_succ q p j).2 ⟨0, by omega, hd⟩⟩
      · exact ⟨j + 1, by omega, (desc_succ q p j).2 ⟨1, by omega, hd⟩⟩
      · exact ⟨j + 1, by omega, (desc_succ q p j).2 ⟨2, by omega, hd⟩⟩
      · exact ⟨j + 1, by omega, (desc_succ q p j).2 ⟨3, by omega, hd⟩⟩
      · exact ⟨0, by omega, (desc_zero q q).2 rfl⟩
    · rintro ⟨j, hj, hd⟩
      cases j with
      | zero => right; exact (desc_zero q p).1 hd
      | succ j =>
        obtain ⟨k, hk, hd'⟩ := (desc_succ q p j).1 hd
        have hj' : j < f := by omega
        left
        have : k = 0 ∨ k = 1 ∨ k = 2 ∨ k = 3 := by omega
        rcases this with rfl | rfl | rfl | rfl
        · exact Or.inl (Or.inl (Or.inl ⟨j, hj', hd'⟩))
        · exact Or.inl (Or.inl (Or.inr ⟨j, hj', hd'⟩))
        · exact Or.inl (Or.inr ⟨j, hj', hd'⟩)
        · exact Or.inr ⟨j, hj', hd'⟩

theorem desc_child_disjoint (q p : Pos) (a b j1 j2 : Nat) (ha : a < 4) (hb : b < 4)
    (h1 : Desc q (p.child a) j1) (h2 : Desc q (p.child b) j2) : a = b := by
  unfold Desc child at *
  simp only at h1 h2
  have : j1 = j2 := by omega
  subst this
  omega

theorem nodup_postorder : ∀ (f : Nat) (p : Pos), (postorder f p).Nodup := by
  intro f
  induction f with
  | zero => intro p; simp [postorder]
  | succ f ih =>
    intro p
    rw [postorder_succ]
    have hne : ∀ a b, a < 4 → b < 4 → a ≠ b → ∀ x ∈ postorder f (p.child a), ∀ y ∈ postorder f (p.child b), x ≠ y := by
      intro a b ha hb hab x hx y hy hxy
      subst hxy
      obtain ⟨j1, _, d1⟩ := (mem_postorder f _ x).1 hx
      obtain ⟨j2, _, d2⟩ := (mem_postorder f _ x).1 hy
      exact hab (desc_child_disjoint x p a b j1 j2 ha hb d1 d2)
    have hp : ∀ a, a < 4 → ∀ x ∈ postorder f (p.child a), x ≠ p := by
      intro a ha x hx hxp
      subst hxp
      obtain ⟨j, _, d⟩ := (mem_postorder f _ x).1 hx
      unfold Desc child at d
      simp only at d
      omega
    have hA := ih (p.child 0); have hB := ih (p.child 1); have hC := ih (p.child 2); have hD := ih (p.child 3)
    have n01 : (postorder f (p.child 0) ++ postorder f (p.child 1)).Nodup :=
      List.nodup_append.2 ⟨hA, hB, hne 0 1 (by omega) (by omega) (by omega)⟩
    have n012 : (postorder f (p.child 0) ++ postorder f (p.child 1) ++ postorder f (p.child 2)).Nodup := by
      refine List.nodup_append.2 ⟨n01, hC, ?_⟩
      intro x hx y hy
      rcases List.mem_append.1 hx with hx | hx
      · exact hne 0 2 (by omega) (by omega) (by omega) x hx y hy
      · exact hne 1 2 (by omega) (by omega) (by omega) x hx y hy
    have n0123 : (postorder f (p.child 0) ++ postorder f (p.child 1) ++ postorder f (p.child 2)
        ++ postorder f (p.child 3)).Nodup := by
      refine List.nodup_append.2 ⟨n012, hD, ?_⟩
      intro x hx y hy
      rcases List.mem_append.1 hx with hx | hx
      · rcases List.mem_append.1 hx with hx | hx
        · exact hne 0 3 (by omega) (by omega) (by omega) x hx y hy
        · exact hne 1 3 (by omega) (by omega) (by omega) x hx y hy
      · exact hne 2 3 (by omega) (by omega) (by omega) x hx y hy
    refine List.nodup_append.2 ⟨n0123, by simp, ?_⟩
    intro x hx y hy
    rw [List.mem_singleton] at hy
    subst hy
    rcases List.mem_append.1 hx with hx | hx
    · rcases List.mem_append.1 hx with hx | hx
      · rcases List.mem_append.1 hx with hx | hx
        · exact hp 0 (by omega) x hx
        · exact hp 1 (by omega) x hx
      · exact hp 2 (by omega) x hx
    · exact hp 3 (by omega) x hx

/-- **generate_pos yields exactly the in-scope positions**: `(n, x, y)` with `n ≤ depth`, `x, y < 2ⁿ`. -/
theorem mem_genPos (depth : Nat) (q : Pos) : q ∈ genPos depth ↔ q.n ≤ depth ∧ q.valid := by
  unfold genPos
  rw [mem_postorder]
  constructor
  · rintro ⟨j, hj, hn, hx, hy⟩
    simp only [Pos.root] at hn hx hy
    refine ⟨by omega, ?_, ?_⟩
    · have : q.n = j := by omega
      rw [this]; exact (Nat.div_eq_zero_iff_lt (Nat.two_pow_pos j)).1 hx |> fun h => h
    · have : q.n = j := by omega
      rw [this]; exact (Nat.div_eq_zero_iff_lt (Nat.two_pow_pos j)).1 hy |> fun h => h
  · rintro ⟨hn, hx, hy⟩
    refine ⟨q.n, by omega, by simp [Pos.root], ?_, ?_⟩
    · simp only [Pos.root]; exact (Nat.div_eq_zero_iff_lt (Nat.two_pow_pos _)).2 hx
    · simp only [Pos.root]; exact (Nat.div_eq_zero_iff_lt (Nat.two_pow_pos _)).2 hy

/-- **… exactly once** -/
theorem nodup_genPos (depth : Nat) : (genPos depth).Nodup := nodup_postorder _ _

/-- **children before parents**: if `q` is enumerated and is not at the deepest level, each of its
four children is enumerated before it (as a sublist `[child, q]` of the duplicate-free output). -/
theorem children_before : ∀ (f : Nat) (p q : Pos) (k : Nat), k < 4 → q ∈ postorder f p →
    q.n + 1 < p.n + f → List.Sublist [q.child k, q] (postorder f p) := by
  intro f
  induction f with
  | zero => intro p q k _ hq; simp [postorder] at hq
  | succ f ih =>
    intro p q k hk hq hn
    rw [postorder_succ] at hq ⊢
    simp only [List.mem_append, List.mem_singleton] at hq
    have hsub : ∀ a, a < 4 → q ∈ postorder f (p.child a) → List.Sublist [q.child k, q] (postorder f (p.child a)) := by
      intro a _ hqa
      exact ih (p.child a) q k hk hqa (by simp only [child]; omega)
    rcases hq with (((hq | hq) | hq) | hq) | rfl
    · exact ((hsub 0 (by omega) hq).trans (List.sublist_append_left _ _)).trans
        ((List.sublist_append_left _ _).trans ((List.sublist_append_left _ _).trans (List.sublist_append_left _ _)))
    · exact ((hsub 1 (by omega) hq).trans (List.sublist_append_right _ _)).trans
        ((List.sublist_append_left _ _).trans ((List.sublist_append_left _ _).trans (List.sublist_append_left _ _)))
    · exact ((hsub 2 (by omega) hq).trans (List.sublist_append_right _ _)).trans
        ((List.sublist_append_left _ _).trans (List.sublist_append_left _ _))
    · exact ((hsub 3 (by omega) hq).trans (List.sublist_append_right _ _)).trans (List.sublist_append_left _ _)
    · -- q is the root of this subtree: the child is in the corresponding block, q is last
      have hf : 1 ≤ f := by omega
      have hc : q.child k ∈ postorder f (q.child 0) ++ postorder f (q.child 1) ++ postorder f (q.child 2)
          ++ postorder f (q.child 3) := by
        have hself : ∀ a, q.child a ∈ postorder f (q.child a) :=
          fun a => (mem_postorder f _ _).2 ⟨0, by omega, (desc_zero _ _).2 rfl⟩
        have : k = 0 ∨ k = 1 ∨ k = 2 ∨ k = 3 := by omega
        simp only [List.mem_append]
        rcases this with rfl | rfl | rfl | rfl
        · exact Or.inl (Or.inl (Or.inl (hself 0)))
        · exact Or.inl (Or.inl (Or.inr (hself 1)))
        · exact Or.inl (Or.inr (hself 2))
        · exact Or.inr (hself 3)
      have h1 : List.Sublist [q.child k] (postorder f (q.child 0) ++ postorder f (q.child 1)
          ++ postorder f (q.child 2) ++ postorder f (q.child 3)) := List.singleton_sublist.2 hc
      exact List.Sublist.append h1 (List.Sublist.refl [q])

theorem genPos_children_before (depth : Nat) (q : Pos) (k : Nat) (hk : k < 4)
    (hq : q ∈ genPos depth) (hn : q.n < depth) : List.Sublist [q.child k, q] (genPos depth) :=
  children_before (depth + 1) Pos.root q k hk hq (by simp only [Pos.root]; omega)

/-! ### closed-form counts -/

theorem length_postorder : ∀ (f : Nat) (p : Pos), 3 * (postorder f p).length + 1 = 4 ^ f := by
  intro f
  induction f with
  | zero => intro p; simp [postorder]
  | succ f ih =>
    intro p
    rw [postorder_succ]
    simp only [List.length_append, List.length_singleton]
    have h0 := ih (p.child 0); have h1 := ih (p.child 1); have h2 := ih (p.child 2); have h3 := ih (p.child 3)
    rw [Nat.pow_succ]; omega

/-- number of positions at relative level `j` below `p` in the enumeration -/
theorem count_level : ∀ (f : Nat) (p : Pos) (j : Nat), j < f →
    ((postorder f p).filter (fun q => q.n = p.n + j)).length = 4 ^ j := by
  intro f
  induction f with
  | zero => intro p j hj; omega
  | succ f ih =>
    intro p j hj
    rw [postorder_succ]
    simp only [List.filter_append, List.length_append]
    cases j with
    | zero =>
      have hz : ∀ a, ((postorder f (p.child a)).filter (fun q => decide (q.n = p.n + 0))).length = 0 := by
        intro a
        rw [List.length_eq_zero_iff, List.filter_eq_nil_iff]
        intro q hq
        obtain ⟨i, _, d⟩ := (mem_postorder f _ q).1 hq
        unfold Desc child at d; simp only at d
        simp only [decide_eq_true_eq]; omega
      rw [hz 0, hz 1, hz 2, hz 3]
      simp
    | succ j =>
      have hc : ∀ a, ((postorder f (p.child a)).filter (fun q => decide (q.n = p.n + (j + 1)))).length = 4 ^ j := by
        intro a
        have := ih (p.child a) j (by omega)
        simp only [child] at this
        have e : ∀ q : Pos, decide (q.n = p.n + (j + 1)) = decide (q.n = p.n + 1 + j) := by
          intro q; congr 1; simp only [eq_iff_iff]; omega
        simp only [e]; exact this
      have hp : ([p].filter (fun q => decide (q.n = p.n + (j + 1)))).length = 0 := by
        simp only [List.filter_cons, List.filter_nil]
        have : ¬ p.n = p.n + (j + 1) := by omega
        simp [this]
      rw [hc 0, hc 1, hc 2, hc 3, hp, Nat.pow_succ]; omega

/-- **counts, no filter**: the enumeration has `depth2tiles depth` positions (the code's closed form),
`tiles_at_depth depth` of them leaves, and `depth2tiles (depth-1)` operations (non-leaves), with
`operations + leaves = live`.  `depth2tiles (-1) = 0` covers `depth = 0`. -/
theorem counts_closed_form (depth : Nat) :
    ((genPos depth).length : Int) = Gen.depth2tiles depth ∧
    (((genPos depth).filter (fun q => q.n = depth)).length : Int) = Gen.tiles_at_depth depth ∧
    (((genPos depth).filter (fun q => q.n ≠ depth)).length : Int) = Gen.depth2tiles ((depth : Int) - 1) ∧
    ((genPos depth).filter (fun q => q.n ≠ depth)).length + ((genPos depth).filter (fun q => q.n = depth)).length
      = (genPos depth).length := by
  have hlen := length_postorder (depth + 1) Pos.root
  have hleaf : ((postorder (depth + 1) Pos.root).filter (fun q => decide (q.n = depth))).length = 4 ^ depth := by
    have := count_level (depth + 1) Pos.root depth (by omega)
    have e : (Pos.root).n + depth = depth := by simp [Pos.root]
    rw [e] at this
    exact this
  have hsplit : ((genPos depth).filter (fun q => q.n ≠ depth)).length + ((genPos depth).filter (fun q => q.n = depth)).length
      = (genPos depth).length := by
    have := List.length_eq_countP_add_countP (fun q : Pos => decide (q.n = depth)) (l := genPos depth)
    simp only [List.countP_eq_length_filter] at this
    have e : (fun q : Pos => decide (¬ (decide (q.n = depth)) = true)) = (fun q : Pos => decide (q.n ≠ depth)) := by
      funext q; simp
    rw [e] at this
    omega
  unfold genPos at *
  have h4 : (4 : Int) ^ (depth + 1) = ((4 ^ (depth + 1) : Nat) : Int) := by simp
  have h4' : (4 : Int) ^ depth = ((4 ^ depth : Nat) : Int) := by simp
  refine ⟨?_, ?_, ?_, hsplit⟩
  · simp only [Gen.depth2tiles]
    have : Int.toNat ((depth : Int) + 1) = depth + 1 := by omega
    rw [this, h4]; omega
  · simp only [Gen.tiles_at_depth]
    have : Int.toNat (depth : Int) = depth := by omega
    rw [this, h4']
    exact_mod_cast hleaf
  · simp only [Gen.depth2tiles]
    have : Int.toNat ((depth : Int) - 1 + 1) = depth := by omega
    rw [this, h4']
    rw [Nat.pow_succ] at hlen
    omega

/-! ### non-vacuity -/
example : genPos 1 = [⟨1,0,0⟩, ⟨1,1,0⟩, ⟨1,0,1⟩, ⟨1,1,1⟩, ⟨0,0,0⟩] := by decide
example : Pos.isSub ⟨3, 5, 2⟩ ⟨1, 1, 0⟩ = some true ∧ Pos.isSub ⟨3, 5, 2⟩ ⟨1, 0, 0⟩ = some false
    ∧ Pos.isSub ⟨1, 0, 0⟩ ⟨2, 0, 0⟩ = none := by decide

/-- **entry_points**: the call sites through which this property's workflows reach the modelled functions have, in the source as
it is now, the argument plumbing the model assumes (facts re-extracted on every run, `Gen/Plumbing.lean`) -/
theorem entry_points : Gen.Plumbing.pyramid_generator_forwards_coordsys = true ∧ Gen.Plumbing.sample_layer_filtered_forwards_coordsys = true := by decide

end C13
