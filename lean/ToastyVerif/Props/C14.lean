/-
C14 — FITS pyramids carry the leaves' true data range up to the root and the WTML.

Values are abstract, linearly ordered (`Int` stands for the finite float32 values; NaNs are simply
not in the lists).  How the range travels (explicit range else the array's own finite range on
save; header → `data_min/max` on load; min of the children's mins / max of their maxes in the
merger; root → image set) is re-extracted from the source on every run (`Gen/Range`, `Gen/Merge`).
-/
import ToastyVerif.Gen.Range
import ToastyVerif.Gen.Merge
import ToastyVerif.Gen.Plumbing

namespace C14

/-- a pyramid of FITS tiles: a leaf holds its finite pixel values (NaNs dropped; an empty list = an
all-NaN leaf, which is not stored), a node has four children -/
inductive T where
  | leaf (vals : List Int)
  | node (c0 c1 c2 c3 : T)

def T.leafVals : T → List Int
  | .leaf v => v
  | .node a b c d => a.leafVals ++ b.leafVals ++ c.leafVals ++ d.leafVals

/-- minimum of two optional values, `none` = not recorded -/
def omin : Option Int → Option Int → Option Int
  | none, b => b
  | a, none => a
  | some a, some b => some (min a b)
def omax : Option Int → Option Int → Option Int
  | none, b => b
  | a, none => a
  | some a, some b => some (max a b)

/-- finite range of an array (`np.nanmin` / `np.nanmax` with the `isfinite` guard) -/
def lmin (l : List Int) : Option Int := l.foldr (fun v acc => omin (some v) acc) none
def lmax (l : List Int) : Option Int := l.foldr (fun v acc => omax (some v) acc) none

/-- What the code records for a tile: `none` = no file (the tile is completely masked / missing).
A leaf written by toasty without an explicit range gets its own finite range.
A parent gets `min(min_values)` / `max(max_values)` over the children that exist and carry a range,
falling back to the merged array's own range (`fb`) when no child supplies one; it exists iff some
child exists (the average of non-NaN data is non-NaN). -/
def hdr (fb : T → Option Int × Option Int) : T → Option (Option Int × Option Int)
  | .leaf v => if v.isEmpty then none else some (lmin v, lmax v)
  | .node a b c d =>
    let hs := [hdr fb a, hdr fb b, hdr fb c, hdr fb d]
    if hs.all Option.isNone then none
    else
      let mins := hs.foldr (fun h acc => omin (h.bind (·.1)) acc) none
      let maxs := hs.foldr (fun h acc => omax (h.bind (·.2)) acc) none
      some (if mins.isSome then mins else (fb (.node a b c d)).1, if maxs.isSome then maxs else (fb (.node a b c d)).2)

theorem omin_assoc (a b c : Option Int) : omin (omin a b) c = omin a (omin b c) := by
  cases a <;> cases b <;> cases c <;> simp [omin] <;> omega
theorem omax_assoc (a b c : Option Int) : omax (omax a b) c = omax a (omax b c) := by
  cases a <;> cases b <;> cases c <;> simp [omax] <;> omega
theorem omin_none_right (a : Option Int) : omin a none = a := by cases a <;> rfl
theorem omax_none_right (a : Option Int) : omax a none = a := by cases a <;> rfl

theorem lmin_append (l1 l2 : List Int) : lmin (l1 ++ l2) = omin (lmin l1) (lmin l2) := by
  induction l1 with
  | nil => simp [lmin, omin]
  | cons a l ih =>
    simp only [lmin, List.cons_append, List.foldr_cons] at ih ⊢
    rw [ih, omin_assoc]
theorem lmax_append (l1 l2 : List Int) : lmax (l1 ++ l2) = omax (lmax l1) (lmax l2) := by
  induction l1 with
  | nil => simp [lmax, omax]
  | cons a l ih =>
    simp only [lmax, List.cons_append, List.foldr_cons] at ih ⊢
    rw [ih, omax_assoc]

theorem lmin_isSome (l : List Int) : (lmin l).isSome = !l.isEmpty := by
  cases l with
  | nil => rfl
  | cons a l => simp only [lmin, List.foldr_cons]; cases (List.foldr (fun v acc => omin (some v) acc) none l) <;> simp [omin]
theorem lmax_isSome (l : List Int) : (lmax l).isSome = !l.isEmpty := by
  cases l with
  | nil => rfl
  | cons a l => simp only [lmax, List.foldr_cons]; cases (List.foldr (fun v acc => omax (some v) acc) none l) <;> simp [omax]

/-- `lmin` really is the least element -/
theorem lmin_spec (l : List Int) (m : Int) (h : lmin l = some m) : m ∈ l ∧ ∀ v ∈ l, m ≤ v := by
  induction l generalizing m with
  | nil => simp [lmin] at h
  | cons a l ih =>
    simp only [lmin, List.foldr_cons] at h
    cases hr : List.foldr (fun v acc => omin (some v) acc) none l with
    | none =>
      rw [hr] at h
      simp only [omin, Option.some.injEq] at h
      subst h
      have hl : l = [] := by
        cases l with
        | nil => rfl
        | cons b l' =>
          have := lmin_isSome (b :: l')
          simp only [lmin] at this
          rw [hr] at this
          simp at this
      subst hl
      simp
    | some r =>
      rw [hr] at h
      simp only [omin, Option.some.injEq] at h
      have := ih r hr
      subst h
      refine ⟨?_, ?_⟩
      · by_cases hle : a ≤ r
        · simp [Int.min_eq_left hle]
        · have : min a r = r := Int.min_eq_right (by omega)
          rw [this]; exact List.mem_cons_of_mem _ (ih r hr).1
      · intro v hv
        rcases List.mem_cons.mp hv with rfl | hv
        · exact Int.min_le_left _ _
        · exact Int.le_trans (Int.min_le_right _ _) ((ih r hr).2 v hv)

/-- **range_is_leaf_range**: whatever the fallback (it is never consulted for toasty-written leaves),
every tile the cascade stores records exactly the minimum and maximum over all finite leaf values
beneath it; a tile is absent exactly when there is no finite leaf value beneath it (all-NaN leaves
are absent and contribute nothing). -/
theorem range_is_leaf_range (fb : T → Option Int × Option Int) (t : T) :
    hdr fb t = if t.leafVals.isEmpty then none else some (lmin t.leafVals, lmax t.leafVals) := by
  induction t with
  | leaf v => simp [hdr, T.leafVals]
  | node a b c d iha ihb ihc ihd =>
    simp only [hdr, T.leafVals, iha, ihb, ihc, ihd]
    generalize fb (.node a b c d) = F
    have key : ∀ (l : List Int), ((if l.isEmpty then none else some (lmin l, lmax l)) : Option (Option Int × Option Int)).bind (·.1) = lmin l := by
      intro l; cases l with
      | nil => rfl
      | cons x xs => simp
    have key2 : ∀ (l : List Int), ((if l.isEmpty then none else some (lmin l, lmax l)) : Option (Option Int × Option Int)).bind (·.2) = lmax l := by
      intro l; cases l with
      | nil => rfl
      | cons x xs => simp
    have keyn : ∀ (l : List Int), ((if l.isEmpty then none else some (lmin l, lmax l)) : Option (Option Int × Option Int)).isNone = l.isEmpty := by
      intro l; cases l <;> simp
    simp only [List.foldr_cons, List.foldr_nil, key, key2, omin_none_right, omax_none_right, List.all_cons, List.all_nil,
      Bool.and_true, keyn]
    rw [lmin_append, lmin_append, lmin_append, lmax_append, lmax_append, lmax_append]
    simp only [omin_assoc, omax_assoc]
    by_cases he : (a.leafVals ++ b.leafVals ++ c.leafVals ++ d.leafVals).isEmpty = true
    · have h4 : a.leafVals = [] ∧ b.leafVals = [] ∧ c.leafVals = [] ∧ d.leafVals = [] := by
        simp only [List.isEmpty_iff, List.append_eq_nil_iff] at he
        exact ⟨he.1.1.1, he.1.1.2, he.1.2, he.2⟩
      simp [h4.1, h4.2.1, h4.2.2.1, h4.2.2.2]
    · have hne : ¬ (a.leafVals.isEmpty && (b.leafVals.isEmpty && (c.leafVals.isEmpty && d.leafVals.isEmpty))) = true := by
        intro h
        simp only [Bool.and_eq_true, List.isEmpty_iff] at h
        simp [h.1, h.2.1, h.2.2.1, h.2.2.2] at he
      simp only [he, hne, Bool.false_eq_true, if_false]
      have s1 : (omin (lmin a.leafVals) (omin (lmin b.leafVals) (omin (lmin c.leafVals) (lmin d.leafVals)))).isSome = true := by
        have := lmin_isSome (a.leafVals ++ b.leafVals ++ c.leafVals ++ d.leafVals)
        rw [lmin_append, lmin_append, lmin_append] at this
        simp only [omin_assoc] at this
        rw [this]; simpa using he
      have s2 : (omax (lmax a.leafVals) (omax (lmax b.leafVals) (omax (lmax c.leafVals) (lmax d.leafVals)))).isSome = true := by
        have := lmax_isSome (a.leafVals ++ b.leafVals ++ c.leafVals ++ d.leafVals)
        rw [lmax_append, lmax_append, lmax_append] at this
        simp only [omax_assoc] at this
        rw [this]; simpa using he
      rw [if_pos s1, if_pos s2]

/-- the plumbing the model relies on, as found in the source now -/
theorem plumbing : Gen.Range.save_explicit_else_array_range = true ∧ Gen.Range.load_reads_header_range = true ∧
    Gen.Range.from_array_keeps_given_range = true ∧ Gen.Range.builder_copies_root_range = true ∧
    Gen.Merge.minmax_only_for_fits = true ∧ Gen.Merge.collects_non_none_child_ranges = true ∧
    Gen.Merge.min_of_mins_max_of_maxes = true := by decide

/-! non-vacuity: a node with an all-NaN leaf, a zero extreme and a missing quadrant -/
example : hdr (fun _ => (some 99, some 99)) (.node (.leaf [3, 0, 7]) (.leaf []) (.leaf [5]) (.leaf [])) = some (some 0, some 7) := by
  decide

/-- **entry_points**: the call sites through which this property's workflows reach the modelled functions have, in the source as
it is now, the argument plumbing the model assumes (facts re-extracted on every run, `Gen/Plumbing.lean`) -/
theorem entry_points : Gen.Plumbing.tile_toast_filters = true ∧ Gen.Plumbing.update_image_writes_back_plainly = true := by decide

end C14
