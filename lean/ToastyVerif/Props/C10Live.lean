/-
C10, liveness half — the locked read-modify-write never deadlocks.

From every reachable state of the lock model (any number of updaters, any interleaving so far) some continuation lets
every updater finish; the tile is then stable and holds every contribution exactly once (`C10.rmw_serialisable`).
-/
import ToastyVerif.Props.C10

namespace C10Live
open Lock C10

def urank : U → Nat
  | .idle => 6 | .locked => 5 | .reading => 4 | .read _ => 3 | .writing _ => 2 | .written => 1 | .done => 0

def work (s : S) : Nat := ((List.range s.n).map (fun i => urank (s.us i))).sum

theorem sum_range_upd {α : Type} (us : Nat → α) (g : α → Nat) (k : Nat) (w : α) : ∀ n, k < n →
    ((List.range n).map (fun j => g (if j = k then w else us j))).sum + g (us k)
      = ((List.range n).map (fun j => g (us j))).sum + g w := by
  intro n
  induction n with
  | zero => intro h; omega
  | succ n ih =>
    intro h
    rw [List.range_succ, List.map_append, List.map_append, List.sum_append, List.sum_append]
    simp only [List.map_cons, List.map_nil, List.sum_cons, List.sum_nil, Nat.add_zero]
    by_cases hk : k = n
    · subst hk
      have hsame : (List.range k).map (fun j => g (if j = k then w else us j)) = (List.range k).map (fun j => g (us j)) := by
        apply List.map_congr_left
        intro j hj
        have : j ≠ k := by have := List.mem_range.1 hj; omega
        simp [this]
      rw [hsame]; simp; omega
    · have := ih (by omega)
      have hn : ¬ (n = k) := fun e => hk e.symm
      simp only [hn, if_false]
      omega

/-- updater `i` moves to a state of smaller rank; nothing else about the updaters changes -/
theorem work_lt (s s' : S) (i : Nat) (u : U) (hi : i < s.n) (hn : s'.n = s.n)
    (hus : s'.us = fun j => if j = i then u else s.us j) (hr : urank u < urank (s.us i)) : work s' < work s := by
  have := sum_range_upd s.us urank i u s.n hi
  unfold work; rw [hn, hus]; simp only; omega

theorem sum_zero (us : Nat → U) : ∀ n, ((List.range n).map (fun i => urank (us i))).sum = 0 → ∀ i, i < n → us i = .done := by
  intro n
  induction n with
  | zero => intro _ i hi; omega
  | succ n ih =>
    intro h i hi
    rw [List.range_succ, List.map_append, List.sum_append] at h
    simp only [List.map_cons, List.map_nil, List.sum_cons, List.sum_nil, Nat.add_zero] at h
    by_cases e : i = n
    · subst e
      have : urank (us i) = 0 := by omega
      cases hu : us i <;> rw [hu] at this <;> simp [urank] at this
    · exact ih (by omega) i (by omega)

/-- **Progress**: while some updater is not done, a transition is enabled that decreases the remaining work. -/
theorem progress (s : S) (h : Inv s) (hnd : ∃ i, i < s.n ∧ s.us i ≠ .done) : ∃ l s', step s l = some s' ∧ work s' < work s := by
  cases hl : s.lock with
  | some i =>
    obtain ⟨hi, hh⟩ := h.holder i hl
    cases hu : s.us i with
    | idle => rw [hu] at hh; cases hh
    | done => rw [hu] at hh; cases hh
    | locked =>
      exact ⟨.readBegin i, setU s i .reading, by simp [step, hi, hu], work_lt s _ i .reading hi rfl rfl (by rw [hu]; simp [urank])⟩
    | reading =>
      cases hf : s.file with
      | stable v =>
        exact ⟨.readEnd i, setU s i (.read v), by simp [step, hi, hu, hf], work_lt s _ i (.read v) hi rfl rfl (by rw [hu]; simp [urank])⟩
      | part =>
        exact ⟨.readEnd i, { setU s i (.read []) with partialReads := s.partialReads + 1 }, by simp [step, hi, hu, hf],
          work_lt s _ i (.read []) hi rfl rfl (by rw [hu]; simp [urank])⟩
    | read v =>
      exact ⟨.writeBegin i, { setU s i (.writing (v ++ [i])) with file := .part }, by simp [step, hi, hu],
        work_lt s _ i (.writing (v ++ [i])) hi rfl rfl (by rw [hu]; simp [urank])⟩
    | writing v =>
      exact ⟨.writeEnd i, { setU s i .written with file := .stable v, log := s.log ++ [i] }, by simp [step, hi, hu],
        work_lt s _ i .written hi rfl rfl (by rw [hu]; simp [urank])⟩
    | written =>
      exact ⟨.unlock i, { setU s i .done with lock := none }, by simp [step, hi, hu, hl],
        work_lt s _ i .done hi rfl rfl (by rw [hu]; simp [urank])⟩
  | none =>
    obtain ⟨i, hi, hne⟩ := hnd
    have hidle : s.us i = .idle := by
      cases hu : s.us i with
      | idle => rfl
      | done => exact absurd hu hne
      | _ =>
        have := h.held i hi (by rw [hu]; rfl)
        rw [hl] at this; cases this
    exact ⟨.lock i, { setU s i .locked with lock := some i }, by simp [step, hi, hidle, hl],
      work_lt s _ i .locked hi rfl rfl (by rw [hidle]; simp [urank])⟩

theorem run_cons (s s1 : S) (l : L) (tr : List L) (h : step s l = some s1) : run s (l :: tr) = run s1 tr := by
  simp [run, h]

theorem can_finish_inv : ∀ (m : Nat) (s : S), work s = m → Inv s → ∃ tr s', run s tr = some s' ∧ ∀ i, i < s'.n → s'.us i = .done := by
  intro m
  induction m using Nat.strongRecOn with
  | _ m ih =>
    intro s hm h
    by_cases hnd : ∃ i, i < s.n ∧ s.us i ≠ .done
    · obtain ⟨l, s1, hstep, hlt⟩ := progress s h hnd
      obtain ⟨tr, s', hrun, hdone⟩ := ih (work s1) (by omega) s1 rfl (inv_step s s1 l h hstep)
      exact ⟨l :: tr, s', by rw [run_cons s s1 l tr hstep]; exact hrun, hdone⟩
    · refine ⟨[], s, rfl, ?_⟩
      intro i hi
      by_cases e : s.us i = .done
      · exact e
      · exact absurd ⟨i, hi, e⟩ hnd

theorem run_append : ∀ (t1 t2 : List L) (a b : S), run a t1 = some b → run a (t1 ++ t2) = run b t2 := by
  intro t1
  induction t1 with
  | nil => intro t2 a b h; simp only [run, Option.some.injEq] at h; subst h; rfl
  | cons l ls ih =>
    intro t2 a b h
    simp only [run, List.cons_append] at h ⊢
    cases hst : step a l with
    | none => rw [hst] at h; cases h
    | some z => rw [hst] at h; exact ih t2 z b h

/-- **updates_can_finish** (no deadlock): from every reachable state — any number of updaters of one tile, any
interleaving so far — some continuation lets all of them finish, and then the tile is stable and holds every
contribution exactly once, in lock-acquisition order. -/
theorem updates_can_finish (n : Nat) (s : S) (hr : Reachable n s) :
    ∃ tr s', run s tr = some s' ∧ (∀ i, i < s'.n → s'.us i = .done) ∧
      s'.file = .stable s'.log ∧ s'.log.Nodup ∧ ∀ i, i ∈ s'.log ↔ i < s'.n := by
  obtain ⟨tr, s', hrun, hdone⟩ := can_finish_inv _ s rfl (inv_reachable n s hr)
  have hr' : Reachable n s' := by
    obtain ⟨tr0, h0⟩ := hr
    exact ⟨tr0 ++ tr, by rw [run_append tr0 tr _ s h0]; exact hrun⟩
  exact ⟨tr, s', hrun, hdone, rmw_serialisable n s' hr' hdone⟩

/-! ### Termination of *every* execution

The model has no idle transition (waiting for the lock is not a step): each transition moves one updater one phase on.
So not only can the updaters finish — every execution is at most `6 · n` transitions long, and an execution that cannot
be extended has finished. -/

/-- every transition decreases the remaining work -/
theorem step_decreases (s s' : S) (l : L) (h : step s l = some s') : work s' < work s := by
  cases l with
  | lock i =>
    simp only [step] at h
    split at h
    · rename_i hg
      obtain ⟨hi, hu, _⟩ := hg
      simp only [Option.some.injEq] at h; subst h
      exact work_lt s _ i .locked hi rfl rfl (by rw [hu]; simp [urank])
    · cases h
  | readBegin i =>
    simp only [step] at h
    split at h
    · rename_i hg
      obtain ⟨hi, hu⟩ := hg
      simp only [Option.some.injEq] at h; subst h
      exact work_lt s _ i .reading hi rfl rfl (by rw [hu]; simp [urank])
    · cases h
  | readEnd i =>
    simp only [step] at h
    split at h
    · rename_i hg
      obtain ⟨hi, hu⟩ := hg
      split at h
      · simp only [Option.some.injEq] at h; subst h
        exact work_lt s _ i (.read _) hi rfl rfl (by rw [hu]; simp [urank])
      · simp only [Option.some.injEq] at h; subst h
        exact work_lt s _ i (.read []) hi rfl rfl (by rw [hu]; simp [urank])
    · cases h
  | writeBegin i =>
    simp only [step] at h
    split at h
    · rename_i hi
      split at h
      · rename_i v hu
        simp only [Option.some.injEq] at h; subst h
        exact work_lt s _ i (.writing (v ++ [i])) hi rfl rfl (by rw [hu]; simp [urank])
      · cases h
    · cases h
  | writeEnd i =>
    simp only [step] at h
    split at h
    · rename_i hi
      split at h
      · rename_i v hu
        simp only [Option.some.injEq] at h; subst h
        exact work_lt s _ i .written hi rfl rfl (by rw [hu]; simp [urank])
      · cases h
    · cases h
  | unlock i =>
    simp only [step] at h
    split at h
    · rename_i hg
      obtain ⟨hi, hu, _⟩ := hg
      simp only [Option.some.injEq] at h; subst h
      exact work_lt s _ i .done hi rfl rfl (by rw [hu]; simp [urank])
    · cases h

/-- an execution of `k` transitions uses up at least `k` units of work -/
theorem run_bound : ∀ (tr : List L) (s s' : S), run s tr = some s' → tr.length + work s' ≤ work s := by
  intro tr
  induction tr with
  | nil => intro s s' h; simp only [run, Option.some.injEq] at h; subst h; simp
  | cons l ls ih =>
    intro s s' h
    simp only [run] at h
    cases hst : step s l with
    | none => rw [hst] at h; cases h
    | some z =>
      rw [hst] at h
      have h1 := ih z s' h
      have h2 := step_decreases s z l hst
      simp only [List.length_cons]; omega

theorem work_init (n : Nat) : work (init n) = 6 * n := by
  unfold work init
  simp only [urank]
  induction n with
  | zero => rfl
  | succ n ih =>
    rw [List.range_succ, List.map_append, List.sum_append, ih]
    simp; omega

/-- **every_execution_is_short**: whatever the interleaving, `n` updaters of one tile make at most `6 · n` transitions. -/
theorem every_execution_is_short (n : Nat) (tr : List L) (s : S) (h : run (init n) tr = some s) : tr.length ≤ 6 * n := by
  have := run_bound tr (init n) s h
  rw [work_init] at this; omega

/-- a state without an enabled transition is one in which every updater is done -/
theorem stuck_is_done (s : S) (h : Inv s) (hst : ∀ l, step s l = none) : ∀ i, i < s.n → s.us i = .done := by
  intro i hi
  by_cases e : s.us i = .done
  · exact e
  · obtain ⟨l, s', hs, _⟩ := progress s h ⟨i, hi, e⟩
    rw [hst l] at hs; cases hs

/-- **every_execution_terminates**: an execution that cannot be extended — and every execution reaches such a point
within `6 · n` transitions — ends with all updaters done, the tile stable and holding every contribution exactly once,
in lock-acquisition order.  No fairness assumption is involved: the protocol has no transition that does not advance
an updater. -/
theorem every_execution_terminates (n : Nat) (tr : List L) (s : S) (h : run (init n) tr = some s) (hmax : ∀ l, step s l = none) :
    tr.length ≤ 6 * n ∧ (∀ i, i < s.n → s.us i = .done) ∧
      s.file = .stable s.log ∧ s.log.Nodup ∧ ∀ i, i ∈ s.log ↔ i < s.n := by
  have hr : Reachable n s := ⟨tr, h⟩
  have hd := stuck_is_done s (inv_reachable n s hr) hmax
  exact ⟨every_execution_is_short n tr s h, hd, rmw_serialisable n s hr hd⟩

/-- non-vacuity: the complete execution of two updaters one after the other is maximal -/
example : ∃ s, run (init 2) [.lock 1, .readBegin 1, .readEnd 1, .writeBegin 1, .writeEnd 1, .unlock 1,
    .lock 0, .readBegin 0, .readEnd 0, .writeBegin 0, .writeEnd 0, .unlock 0] = some s ∧ s.file = .stable [1, 0] := ⟨_, rfl, rfl⟩

/-- non-vacuity: three updaters, one of them in the middle of its write -/
example : ∃ tr s', run (init 3) ([.lock 1, .readBegin 1, .readEnd 1, .writeBegin 1] ++ tr) = some s' ∧ ∀ i, i < s'.n → s'.us i = .done := by
  obtain ⟨b, h0⟩ : ∃ b, run (init 3) [.lock 1, .readBegin 1, .readEnd 1, .writeBegin 1] = some b := ⟨_, rfl⟩
  obtain ⟨tr, s', h1, h2, _⟩ := updates_can_finish 3 b ⟨_, h0⟩
  exact ⟨tr, s', by rw [run_append _ tr _ b h0]; exact h1, h2⟩

end C10Live
