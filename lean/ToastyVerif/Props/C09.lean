/-
C09 — tiling images on a common TAN grid equals tiling the assembled mosaic.

For every list of inputs (any number, sizes, integer reference-pixel offsets, overlaps), every pixel
mode and every order of the inputs.
-/
import ToastyVerif.Model.Mosaic
import ToastyVerif.Props.C08
import ToastyVerif.Props.C15
import ToastyVerif.Gen.Plumbing

namespace C09
open Mosaic PixelBase Pixels Gen Gen.StudyTiling

/-! ### Extracted shapes -/

theorem shapes : Gen.MultiTan.bounds_are_running_min_max = true ∧ Gen.MultiTan.rect_loop_shape_ok = true ∧
    Gen.MultiTan.cleans_lockfiles = true ∧ Gen.PIO.clean_covers_level = true ∧ Gen.PIO.update_locked_read_yield_write = true :=
  ⟨rfl, rfl, rfl, rfl, rfl⟩

/-! ### The global pixelisation -/

theorem extend_le (b : Int × Int × Int × Int) (i : Input) :
    (extend b i).1 ≤ b.1 ∧ b.2.1 ≤ (extend b i).2.1 ∧ (extend b i).2.2.1 ≤ b.2.2.1 ∧ b.2.2.2 ≤ (extend b i).2.2.2 ∧
    (extend b i).1 ≤ (ext i).1 ∧ (ext i).2.1 ≤ (extend b i).2.1 ∧ (extend b i).2.2.1 ≤ (ext i).2.2.1 ∧ (ext i).2.2.2 ≤ (extend b i).2.2.2 := by
  simp only [extend]; omega

theorem foldl_extend_mono (l : List Input) (b : Int × Int × Int × Int) :
    (l.foldl extend b).1 ≤ b.1 ∧ b.2.1 ≤ (l.foldl extend b).2.1 ∧ (l.foldl extend b).2.2.1 ≤ b.2.2.1 ∧ b.2.2.2 ≤ (l.foldl extend b).2.2.2 := by
  induction l generalizing b with
  | nil => simp
  | cons i l ih =>
    simp only [List.foldl_cons]
    have := ih (extend b i)
    have := extend_le b i
    omega

theorem foldl_extend_covers (l : List Input) (b : Int × Int × Int × Int) (i : Input) (hi : i ∈ l) :
    (l.foldl extend b).1 ≤ (ext i).1 ∧ (ext i).2.1 ≤ (l.foldl extend b).2.1 ∧
    (l.foldl extend b).2.2.1 ≤ (ext i).2.2.1 ∧ (ext i).2.2.2 ≤ (l.foldl extend b).2.2.2 := by
  induction l generalizing b with
  | nil => cases hi
  | cons j l ih =>
    simp only [List.foldl_cons]
    rcases List.mem_cons.1 hi with rfl | h
    · have := foldl_extend_mono l (extend b i)
      have := extend_le b i
      omega
    · exact ih (extend b j) h

/-- the bounds contain the extent of every input -/
theorem bounds_cover (ins : List Input) (b : Int × Int × Int × Int) (hb : bounds ins = some b) (i : Input) (hi : i ∈ ins) :
    b.1 ≤ (ext i).1 ∧ (ext i).2.1 ≤ b.2.1 ∧ b.2.2.1 ≤ (ext i).2.2.1 ∧ (ext i).2.2.2 ≤ b.2.2.2 := by
  cases ins with
  | nil => cases hb
  | cons j rest =>
    simp only [bounds, Option.some.injEq] at hb
    subst hb
    rcases List.mem_cons.1 hi with rfl | h
    · have := foldl_extend_mono rest (ext i); omega
    · exact foldl_extend_covers rest (ext j) i h

/-- **Every input fits into the mosaic at its offset**, with its own size: `compute_for_subimage` is called with
`(ox, oy, w, h)` where `0 ≤ ox`, `ox + w ≤ W`, `0 ≤ oy`, `oy + h ≤ H`. -/
theorem placement_fits (ins : List Input) (b : Int × Int × Int × Int) (hb : bounds ins = some b) (i : Input) (hi : i ∈ ins) :
    (place b i).2.2.1 = i.w ∧ (place b i).2.2.2 = i.h ∧
    0 ≤ (place b i).1 ∧ (place b i).1 + i.w ≤ (size b).1 ∧ 0 ≤ (place b i).2.1 ∧ (place b i).2.1 + i.h ≤ (size b).2 := by
  have hc := bounds_cover ins b hb i hi
  simp only [ext, Gen.MultiTan.extent] at hc
  obtain ⟨c1, c2, c3, c4⟩ := hc
  refine ⟨?_, ?_, ?_, ?_, ?_, ?_⟩ <;>
    simp only [place, size, ext, Gen.MultiTan.placement, Gen.MultiTan.extent, Gen.MultiTan.mosaic_size] <;> omega

/-- **The astrometric reference pixel does not depend on the order of the inputs**: whichever input comes last,
the CRPIX written for the mosaic is `(1 − gxmin, 1 − gymin)`, and every input's own reference pixel lands on it
(`CRPIX_i + offset_i`). -/
theorem crpix_consistent (b : Int × Int × Int × Int) (i : Input) :
    Gen.MultiTan.global_crpix i.c1 i.c2 (ext i).1 (ext i).2.2.1 b.1 b.2.2.1 = (1 - b.1, 1 - b.2.2.1) ∧
    Gen.MultiTan.global_crpix i.c1 i.c2 (ext i).1 (ext i).2.2.1 b.1 b.2.2.1 = ((i.c1 + 1) + (place b i).1, (i.c2 + 1) + (place b i).2.1) := by
  refine ⟨?_, ?_⟩ <;>
    simp only [Gen.MultiTan.global_crpix, ext, Gen.MultiTan.extent, place, Gen.MultiTan.placement, Prod.mk.injEq] <;>
    refine ⟨?_, ?_⟩ <;> omega

theorem foldl_extend_attained (l : List Input) (b : Int × Int × Int × Int) :
    ((l.foldl extend b).1 = b.1 ∨ ∃ i ∈ l, (l.foldl extend b).1 = (ext i).1) ∧
    ((l.foldl extend b).2.1 = b.2.1 ∨ ∃ i ∈ l, (l.foldl extend b).2.1 = (ext i).2.1) ∧
    ((l.foldl extend b).2.2.1 = b.2.2.1 ∨ ∃ i ∈ l, (l.foldl extend b).2.2.1 = (ext i).2.2.1) ∧
    ((l.foldl extend b).2.2.2 = b.2.2.2 ∨ ∃ i ∈ l, (l.foldl extend b).2.2.2 = (ext i).2.2.2) := by
  induction l generalizing b with
  | nil => simp
  | cons j l ih =>
    simp only [List.foldl_cons]
    obtain ⟨h1, h2, h3, h4⟩ := ih (extend b j)
    have e : (extend b j).1 = min b.1 (ext j).1 ∧ (extend b j).2.1 = max b.2.1 (ext j).2.1 ∧
        (extend b j).2.2.1 = min b.2.2.1 (ext j).2.2.1 ∧ (extend b j).2.2.2 = max b.2.2.2 (ext j).2.2.2 := ⟨rfl, rfl, rfl, rfl⟩
    refine ⟨?_, ?_, ?_, ?_⟩
    · rcases h1 with h | ⟨i, hi, h⟩
      · rw [h, e.1]
        by_cases c : b.1 ≤ (ext j).1
        · left; omega
        · right; exact ⟨j, by simp, by omega⟩
      · right; exact ⟨i, by simp [hi], h⟩
    · rcases h2 with h | ⟨i, hi, h⟩
      · rw [h, e.2.1]
        by_cases c : (ext j).2.1 ≤ b.2.1
        · left; omega
        · right; exact ⟨j, by simp, by omega⟩
      · right; exact ⟨i, by simp [hi], h⟩
    · rcases h3 with h | ⟨i, hi, h⟩
      · rw [h, e.2.2.1]
        by_cases c : b.2.2.1 ≤ (ext j).2.2.1
        · left; omega
        · right; exact ⟨j, by simp, by omega⟩
      · right; exact ⟨i, by simp [hi], h⟩
    · rcases h4 with h | ⟨i, hi, h⟩
      · rw [h, e.2.2.2]
        by_cases c : (ext j).2.2.2 ≤ b.2.2.2
        · left; omega
        · right; exact ⟨j, by simp, by omega⟩
      · right; exact ⟨i, by simp [hi], h⟩

/-- **The mosaic is the bounding box of the inputs**: some input touches each of its four sides. -/
theorem mosaic_tight (ins : List Input) (b : Int × Int × Int × Int) (hb : bounds ins = some b) :
    (∃ i ∈ ins, (place b i).1 = 0) ∧ (∃ i ∈ ins, (place b i).1 + i.w = (size b).1) ∧
    (∃ i ∈ ins, (place b i).2.1 = 0) ∧ (∃ i ∈ ins, (place b i).2.1 + i.h = (size b).2) := by
  cases ins with
  | nil => cases hb
  | cons j rest =>
    simp only [bounds, Option.some.injEq] at hb
    subst hb
    obtain ⟨h1, h2, h3, h4⟩ := foldl_extend_attained rest (ext j)
    have key : ∀ i : Input, (place (rest.foldl extend (ext j)) i).1 = (ext i).1 - (rest.foldl extend (ext j)).1 ∧
        (place (rest.foldl extend (ext j)) i).1 + i.w = (ext i).2.1 - (rest.foldl extend (ext j)).1 + 1 ∧
        (place (rest.foldl extend (ext j)) i).2.1 = (ext i).2.2.1 - (rest.foldl extend (ext j)).2.2.1 ∧
        (place (rest.foldl extend (ext j)) i).2.1 + i.h = (ext i).2.2.2 - (rest.foldl extend (ext j)).2.2.1 + 1 := by
      intro i
      refine ⟨?_, ?_, ?_, ?_⟩ <;> simp only [place, ext, Gen.MultiTan.placement, Gen.MultiTan.extent] <;> omega
    have hs : (size (rest.foldl extend (ext j))).1 = (rest.foldl extend (ext j)).2.1 - (rest.foldl extend (ext j)).1 + 1 ∧
        (size (rest.foldl extend (ext j))).2 = (rest.foldl extend (ext j)).2.2.2 - (rest.foldl extend (ext j)).2.2.1 + 1 := by
      refine ⟨?_, ?_⟩ <;> simp only [size, Gen.MultiTan.mosaic_size] <;> omega
    refine ⟨?_, ?_, ?_, ?_⟩
    · rcases h1 with h | ⟨i, hi, h⟩
      · exact ⟨j, by simp, by rw [(key j).1]; omega⟩
      · exact ⟨i, by simp [hi], by rw [(key i).1]; omega⟩
    · rcases h2 with h | ⟨i, hi, h⟩
      · exact ⟨j, by simp, by rw [(key j).2.1, hs.1]; omega⟩
      · exact ⟨i, by simp [hi], by rw [(key i).2.1, hs.1]; omega⟩
    · rcases h3 with h | ⟨i, hi, h⟩
      · exact ⟨j, by simp, by rw [(key j).2.2.1]; omega⟩
      · exact ⟨i, by simp [hi], by rw [(key i).2.2.1]; omega⟩
    · rcases h4 with h | ⟨i, hi, h⟩
      · exact ⟨j, by simp, by rw [(key j).2.2.2, hs.2]; omega⟩
      · exact ⟨i, by simp [hi], by rw [(key i).2.2.2, hs.2]; omega⟩

/-! ### Sub-tilings address the mosaic's own tiles -/

/-- **A pixel of an input lands where the same pixel of the assembled mosaic lands**: the sub-tiling of an input placed at
`(ox, oy)` sends its pixel `(u, v)` to the tile and in-tile position that the mosaic's tiling gives to `(ox + u, oy + v)`. -/
theorem sub_tiling_position (W H ox oy sw sh : Int) (hw : 1 ≤ W) (hh : 1 ≤ H)
    (hx : 0 ≤ ox ∧ ox + sw ≤ W) (hy : 0 ≤ oy ∧ oy + sh ≤ H) (hsw : 1 ≤ sw) (hsh : 1 ≤ sh) (u v : Int) :
    ∃ t s : StudyTiling, init W H = some t ∧ compute_for_subimage t ox oy sw sh = some s ∧
      image_to_tile s u v = image_to_tile t (ox + u) (oy + v) ∧
      s.img_gx0 = t.img_gx0 + ox ∧ s.img_gy0 = t.img_gy0 + oy ∧ s.tile_levels = t.tile_levels := by
  obtain ⟨t, s, h1, h2, _, hl, _, _, _, gx, gy, _, _⟩ := C08.subimage_spec W H ox oy sw sh hw hh hx hy hsw hsh
  refine ⟨t, s, h1, h2, ?_, gx, gy, hl⟩
  simp only [image_to_tile, gx, gy]
  have e1 : u + (t.img_gx0 + ox) = ox + u + t.img_gx0 := by omega
  have e2 : v + (t.img_gy0 + oy) = oy + v + t.img_gy0 := by omega
  rw [e1, e2]

/-! ### Tiles of the inputs = tiles of the assembled mosaic -/

theorem processAll_pixel (m : ModeSem) (t : StudyTiling) (b : Int × Int × Int × Int) :
    ∀ (ins : List Input) (st : TileStore) (acc : Px) (tx ty px py : Int),
      (∀ i ∈ ins, ∃ s, subTiling t b i = some s ∧ s.img_gx0 = t.img_gx0 + (place b i).1 ∧ s.img_gy0 = t.img_gy0 + (place b i).2.1) →
      0 ≤ px → px < 256 → 0 ≤ py → py < 256 → st tx ty px py = acc →
      processAll m t b st ins tx ty px py =
        ins.foldl (fun a i => if coversPx i (place b i).1 (place b i).2.1 (256 * tx + px - t.img_gx0) (256 * ty + py - t.img_gy0)
          then m.updatePx a (i.img (256 * tx + px - t.img_gx0 - (place b i).1) (256 * ty + py - t.img_gy0 - (place b i).2.1)) else a) acc := by
  intro ins
  induction ins with
  | nil => intro st acc tx ty px py _ _ _ _ _ h; simpa [processAll] using h
  | cons i rest ih =>
    intro st acc tx ty px py hs h1 h2 h3 h4 hacc
    obtain ⟨s, hsub, gx, gy⟩ := hs i (by simp)
    have e : processAll m t b st (i :: rest) = processAll m t b (processInput m s st i) rest := by
      simp only [processAll, List.foldl_cons, hsub]
    rw [e, List.foldl_cons]
    apply ih _ _ tx ty px py (fun j hj => hs j (by simp [hj])) h1 h2 h3 h4
    simp only [processInput, gx, gy]
    have a1 : 256 * tx + px - (t.img_gx0 + (place b i).1) = 256 * tx + px - t.img_gx0 - (place b i).1 := by omega
    have a2 : 256 * ty + py - (t.img_gy0 + (place b i).2.1) = 256 * ty + py - t.img_gy0 - (place b i).2.1 := by omega
    rw [a1, a2, hacc]
    by_cases c : 0 ≤ px ∧ px < 256 ∧ 0 ≤ py ∧ py < 256 ∧ 0 ≤ 256 * tx + px - t.img_gx0 - (place b i).1 ∧
        256 * tx + px - t.img_gx0 - (place b i).1 < i.w ∧ 0 ≤ 256 * ty + py - t.img_gy0 - (place b i).2.1 ∧
        256 * ty + py - t.img_gy0 - (place b i).2.1 < i.h
    · rw [if_pos c]
      have hcov : coversPx i (place b i).1 (place b i).2.1 (256 * tx + px - t.img_gx0) (256 * ty + py - t.img_gy0) = true := by
        simp only [coversPx, Bool.and_eq_true, decide_eq_true_eq]; omega
      rw [if_pos hcov]
    · rw [if_neg c]
      have hcov : ¬ (coversPx i (place b i).1 (place b i).2.1 (256 * tx + px - t.img_gx0) (256 * ty + py - t.img_gy0) = true) := by
        simp only [coversPx, Bool.and_eq_true, decide_eq_true_eq]; omega
      rw [if_neg hcov]

/-- **The deepest-level tiles produced from the separate inputs are the tiles of the assembled mosaic.**
Starting from cleared tiles and merging the inputs one after another through their sub-tilings, pixel `(px, py)` of
tile `(tx, ty)` holds the mosaic pixel at `(256·tx + px − gx0, 256·ty + py − gy0)` — the position the C08 tiling of
the whole mosaic assigns to it — where the mosaic is the inputs pasted in the same order with the same per-pixel
merge (an undefined input pixel never replaces a defined one: C15). -/
theorem multi_equals_mosaic (m : ModeSem) (ins : List Input) (b : Int × Int × Int × Int) (hb : bounds ins = some b)
    (hpos : ∀ i ∈ ins, 1 ≤ i.w ∧ 1 ≤ i.h) (t : StudyTiling) (ht : init (size b).1 (size b).2 = some t)
    (tx ty px py : Int) (h1 : 0 ≤ px) (h2 : px < 256) (h3 : 0 ≤ py) (h4 : py < 256) :
    processAll m t b (fun _ _ _ _ => m.clearPx) ins tx ty px py =
      mosaicPx m b ins (256 * tx + px - t.img_gx0) (256 * ty + py - t.img_gy0) := by
  have hsub : ∀ i ∈ ins, ∃ s, subTiling t b i = some s ∧ s.img_gx0 = t.img_gx0 + (place b i).1 ∧ s.img_gy0 = t.img_gy0 + (place b i).2.1 := by
    intro i hi
    obtain ⟨e1, e2, f1, f2, f3, f4⟩ := placement_fits ins b hb i hi
    obtain ⟨p1, p2⟩ := hpos i hi
    have hW : 1 ≤ (size b).1 := by omega
    have hH : 1 ≤ (size b).2 := by omega
    obtain ⟨t', s, ht', hs', _, gx, gy, _⟩ := sub_tiling_position (size b).1 (size b).2 (place b i).1 (place b i).2.1 (place b i).2.2.1 (place b i).2.2.2
      hW hH ⟨f1, by rw [e1]; exact f2⟩ ⟨f3, by rw [e2]; exact f4⟩ (by rw [e1]; exact p1) (by rw [e2]; exact p2) 0 0
    rw [ht] at ht'
    cases ht'
    exact ⟨s, hs', gx, gy⟩
  rw [processAll_pixel m t b ins _ m.clearPx tx ty px py hsub h1 h2 h3 h4 rfl]
  rfl

/-! ### The order of the inputs -/

/-- two contributed pixels can be merged in either order -/
def Compat (m : ModeSem) (p q : Px) : Prop := ∀ a : Px, m.updatePx (m.updatePx a p) q = m.updatePx (m.updatePx a q) p

/-- for the floating-point modes: an undefined pixel, or equal pixels, are compatible with anything / each other -/
theorem upd32 (a : Px) (p : Ch) : F32.updatePx a [p] = match a with | [] => [] | o :: bs => (if p.isSome then p else o) :: bs := by
  cases a with
  | nil => rfl
  | cons o bs => cases p <;> simp [F32, Gen.Masks.update_px_F32, putmask]

theorem upd64 (a : Px) (p : Ch) : F64.updatePx a [p] = match a with | [] => [] | o :: bs => (if p.isSome then p else o) :: bs := by
  cases a with
  | nil => rfl
  | cons o bs => cases p <;> simp [F64, Gen.Masks.update_px_F64, putmask]

theorem compat_float (p q : Ch) (h : p = none ∨ q = none ∨ p = q) :
    Compat F32 [p] [q] ∧ Compat F64 [p] [q] := by
  constructor <;> intro a <;> cases a <;> cases p <;> cases q <;> simp_all [upd32, upd64]

/-- … and two *different* defined values are not: where overlapping inputs disagree, the later one wins -/
theorem not_compat_float (x y : Int) (h : x ≠ y) : ¬ Compat F32 [some x] [some y] := by
  intro hc
  have := hc [none]
  simp [upd32] at this
  exact h this.symm

theorem foldl_comm_perm {α β : Type} (f : β → α → β) (l1 l2 : List α) (hp : l1.Perm l2)
    (hc : ∀ x ∈ l1, ∀ y ∈ l1, ∀ a, f (f a x) y = f (f a y) x) (a : β) : l1.foldl f a = l2.foldl f a := by
  induction hp generalizing a with
  | nil => rfl
  | cons x _ ih =>
    simp only [List.foldl_cons]
    exact ih (fun u hu v hv => hc u (List.mem_cons_of_mem _ hu) v (List.mem_cons_of_mem _ hv)) _
  | swap x y l =>
    simp only [List.foldl_cons]
    rw [hc y (by simp) x (by simp)]
  | trans h1 _ ih1 ih2 =>
    rw [ih1 hc]
    exact ih2 (fun u hu v hv => hc u (h1.mem_iff.2 hu) v (h1.mem_iff.2 hv)) _

/-- **The result does not depend on the order of the inputs where overlapping inputs agree**: if, at a mosaic pixel,
the pixels contributed by any two inputs covering it are compatible (for float data: one is undefined or they are equal),
any permutation of the inputs gives the same mosaic pixel — hence, by `multi_equals_mosaic`, the same tiles. -/
theorem mosaic_order_independent (m : ModeSem) (b : Int × Int × Int × Int) (ins ins' : List Input) (hp : ins.Perm ins') (gx gy : Int)
    (hc : ∀ i ∈ ins, ∀ j ∈ ins, coversPx i (place b i).1 (place b i).2.1 gx gy = true → coversPx j (place b j).1 (place b j).2.1 gx gy = true →
      Compat m (i.img (gx - (place b i).1) (gy - (place b i).2.1)) (j.img (gx - (place b j).1) (gy - (place b j).2.1))) :
    mosaicPx m b ins gx gy = mosaicPx m b ins' gx gy := by
  unfold mosaicPx
  apply foldl_comm_perm _ _ _ hp
  intro i hi j hj a
  by_cases ci : coversPx i (place b i).1 (place b i).2.1 gx gy = true <;>
    by_cases cj : coversPx j (place b j).1 (place b j).2.1 gx gy = true <;>
    simp only [ci, cj, if_true, if_false, Bool.false_eq_true]
  exact hc i hi j hj ci cj a

/-- bounds do not depend on the order either (so the mosaic size, offsets and CRPIX are those of any permutation) -/
theorem bounds_perm_cover (ins ins' : List Input) (hp : ins.Perm ins') (b b' : Int × Int × Int × Int)
    (hb : bounds ins = some b) (hb' : bounds ins' = some b') : b = b' := by
  have c1 := bounds_cover ins b hb
  have c2 := bounds_cover ins' b' hb'
  have t1 := mosaic_tight ins b hb
  have t2 := mosaic_tight ins' b' hb'
  -- each bound is attained by some input and is a bound for all of them in both lists
  have key : ∀ i : Input, (place b i).1 = (ext i).1 - b.1 ∧ (place b i).1 + i.w = (ext i).2.1 - b.1 + 1 ∧
      (place b i).2.1 = (ext i).2.2.1 - b.2.2.1 ∧ (place b i).2.1 + i.h = (ext i).2.2.2 - b.2.2.1 + 1 := by
    intro i; refine ⟨?_, ?_, ?_, ?_⟩ <;> simp only [place, ext, Gen.MultiTan.placement, Gen.MultiTan.extent] <;> omega
  have key' : ∀ i : Input, (place b' i).1 = (ext i).1 - b'.1 ∧ (place b' i).1 + i.w = (ext i).2.1 - b'.1 + 1 ∧
      (place b' i).2.1 = (ext i).2.2.1 - b'.2.2.1 ∧ (place b' i).2.1 + i.h = (ext i).2.2.2 - b'.2.2.1 + 1 := by
    intro i; refine ⟨?_, ?_, ?_, ?_⟩ <;> simp only [place, ext, Gen.MultiTan.placement, Gen.MultiTan.extent] <;> omega
  have hs : (size b).1 = b.2.1 - b.1 + 1 ∧ (size b).2 = b.2.2.2 - b.2.2.1 + 1 := by refine ⟨?_, ?_⟩ <;> simp only [size, Gen.MultiTan.mosaic_size] <;> omega
  have hs' : (size b').1 = b'.2.1 - b'.1 + 1 ∧ (size b').2 = b'.2.2.2 - b'.2.2.1 + 1 := by refine ⟨?_, ?_⟩ <;> simp only [size, Gen.MultiTan.mosaic_size] <;> omega
  obtain ⟨⟨i1, m1, a1⟩, ⟨i2, m2, a2⟩, ⟨i3, m3, a3⟩, ⟨i4, m4, a4⟩⟩ := t1
  obtain ⟨⟨j1, n1, d1⟩, ⟨j2, n2, d2⟩, ⟨j3, n3, d3⟩, ⟨j4, n4, d4⟩⟩ := t2
  have := c2 i1 (hp.mem_iff.1 m1); have := c2 i2 (hp.mem_iff.1 m2); have := c2 i3 (hp.mem_iff.1 m3); have := c2 i4 (hp.mem_iff.1 m4)
  have := c1 j1 (hp.mem_iff.2 n1); have := c1 j2 (hp.mem_iff.2 n2); have := c1 j3 (hp.mem_iff.2 n3); have := c1 j4 (hp.mem_iff.2 n4)
  have := key i1; have := key i2; have := key i3; have := key i4
  have := key' j1; have := key' j2; have := key' j3; have := key' j4
  obtain ⟨b1, b2, b3, b4⟩ := b
  obtain ⟨b1', b2', b3', b4'⟩ := b'
  simp only [Prod.mk.injEq]
  simp only at *
  omega

/-! ### Bottom-up tiles -/

/-- **Flipped placement.**  For bottom-up (FITS) tiles the image has its rows reversed and the rectangle is re-addressed
with `image_y' = H − (image_y + h)`, `tile_y' = 256 − (tile_y + h)`.  Row `k` of the re-addressed rectangle then pairs
stored image row `H − 1 − v` with stored tile row `255 − (tile_y + (v − image_y))` for `v = image_y + h − 1 − k`: the
bottom-up tile is exactly the row-reversed top-down tile. -/
theorem flipped_placement (H image_y tile_y h v : Int) (hv : image_y ≤ v ∧ v < image_y + h) :
    let k := image_y + h - 1 - v
    0 ≤ k ∧ k < h ∧
    Gen.MultiTan.flip_image_y H image_y h + k = H - 1 - v ∧
    Gen.MultiTan.flip_tile_y tile_y h + k = 255 - (tile_y + (v - image_y)) := by
  simp only [Gen.MultiTan.flip_image_y, Gen.MultiTan.flip_tile_y]
  omega

/-! ### non-vacuity -/

/-- two inputs, 100 × 50 with reference pixel (11, 21) and 40 × 60 with reference pixel (−29, 6): a 100 × 75 mosaic,
the second input at (40, 15), mosaic reference pixel (11, 21) whichever input comes last -/
example :
    let i1 : Input := ⟨10, 20, 100, 50, fun _ _ => []⟩
    let i2 : Input := ⟨-30, 5, 40, 60, fun _ _ => []⟩
    bounds [i1, i2] = some (-10, 89, -20, 54) ∧ size (-10, 89, -20, 54) = (100, 75) ∧
    place (-10, 89, -20, 54) i2 = (40, 15, 40, 60) ∧ bounds [i2, i1] = some (-10, 89, -20, 54) ∧
    Gen.MultiTan.global_crpix i2.c1 i2.c2 (ext i2).1 (ext i2).2.2.1 (-10) (-20) = (11, 21) ∧
    Gen.MultiTan.global_crpix i1.c1 i1.c2 (ext i1).1 (ext i1).2.2.1 (-10) (-20) = (11, 21) := by decide

/-- **entry_points**: the call sites through which this property's workflows reach the modelled functions have, in the source as
it is now, the argument plumbing the model assumes (facts re-extracted on every run, `Gen/Plumbing.lean`) -/
theorem entry_points : Gen.Plumbing.multi_tan_subimage_offsets = true ∧ Gen.Plumbing.multi_tan_worker_updates_into_basis = true := by decide

end C09
