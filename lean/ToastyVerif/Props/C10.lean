/-
C10 — Concurrent updates of one tile never lose a contribution.
-/
import ToastyVerif.Model.Lock
import ToastyVerif.Gen.PIO
import ToastyVerif.Gen.Plumbing

namespace C10
open Lock

structure Inv (s : S) : Prop where
  holder : ∀ i, s.lock = some i → i < s.n ∧ holding (s.us i) = true
  held : ∀ i, i < s.n → holding (s.us i) = true → s.lock = some i
  fileOk : match s.file with
    | .stable v => v = s.log ∧ ∀ i, ∀ w, s.us i ≠ .writing w
    | .part => ∃ i, i < s.n ∧ s.us i = .writing (s.log ++ [i])
  readLog : ∀ i v, s.us i = .read v → v = s.log
  logDone : ∀ i, i ∈ s.log ↔ (i < s.n ∧ (s.us i = .written ∨ s.us i = .done))
  logNodup : s.log.Nodup
  noPartial : s.partialReads = 0
  outside : ∀ i, s.n ≤ i → s.us i = .idle

theorem inv_init (n : Nat) : Inv (init n) := by
  refine ⟨?_, ?_, ?_, ?_, ?_, ?_, rfl, ?_⟩
  · intro i h; simp [init] at h
  · intro i _ h; simp [init, holding] at h
  · simp [init]
  · intro i v h; simp [init] at h
  · intro i; simp [init]
  · simp [init]
  · intro i _; rfl

/-- at most one updater is inside the locked region -/
theorem unique_holder (s : S) (h : Inv s) (i j : Nat) (hi : i < s.n) (hj : j < s.n)
    (a : holding (s.us i) = true) (b : holding (s.us j) = true) : i = j := by
  have h1 := h.held i hi a
  have h2 := h.held j hj b
  rw [h1] at h2
  exact Option.some.inj h2

theorem inv_step (s s' : S) (l : L) (h : Inv s) (hs : step s l = some s') : Inv s' := by
  cases l with
  | lock i =>
    simp only [step] at hs
    split at hs
    · rename_i hg
      obtain ⟨hi, hu, hl⟩ := hg
      cases hs
      refine ⟨?_, ?_, ?_, ?_, ?_, h.logNodup, h.noPartial, ?_⟩
      · intro j hj
        simp only [Option.some.injEq] at hj
        subst hj
        exact ⟨hi, by simp [setU, holding]⟩
      · intro j hj hh
        simp only [setU] at hh ⊢
        by_cases hji : j = i
        · rw [hji]
        · simp only [hji, if_false] at hh
          have := h.held j hj hh
          rw [hl] at this; cases this
      · have := h.fileOk
        simp only [setU]
        cases hf : s.file with
        | stable v =>
          rw [hf] at this
          refine ⟨this.1, ?_⟩
          intro j w
          by_cases hji : j = i
          · simp [hji]
          · simp only [hji, if_false]; exact this.2 j w
        | part =>
          rw [hf] at this
          obtain ⟨j, hj, hw⟩ := this
          refine ⟨j, hj, ?_⟩
          have hji : j ≠ i := by intro e; subst e; rw [hu] at hw; cases hw
          simp only [hji, if_false]; exact hw
      · intro j v hr
        simp only [setU] at hr
        by_cases hji : j = i
        · simp [hji] at hr
        · simp only [hji, if_false] at hr; exact h.readLog j v hr
      · intro j
        simp only [setU]
        by_cases hji : j = i
        · subst hji
          simp only [if_true]
          have := h.logDone j
          rw [hu] at this
          simp only [reduceCtorEq, or_self, and_false, iff_false] at this ⊢
          exact this
        · simp only [hji, if_false]; exact h.logDone j
      · intro j hj
        simp only [setU] at hj ⊢
        have hji : j ≠ i := by omega
        simp only [hji, if_false]; exact h.outside j hj
    · cases hs
  | readBegin i =>
    simp only [step] at hs
    split at hs
    · rename_i hg
      obtain ⟨hi, hu⟩ := hg
      cases hs
      refine ⟨?_, ?_, ?_, ?_, ?_, h.logNodup, h.noPartial, ?_⟩
      · intro j hj
        obtain ⟨a, b⟩ := h.holder j hj
        refine ⟨a, ?_⟩
        simp only [setU]
        by_cases hji : j = i
        · simp [hji, holding]
        · simp only [hji, if_false]; exact b
      · intro j hj hh
        simp only [setU] at hh
        by_cases hji : j = i
        · subst hji; exact h.held j hj (by rw [hu]; rfl)
        · simp only [hji, if_false] at hh; exact h.held j hj hh
      · have := h.fileOk
        simp only [setU]
        cases hf : s.file with
        | stable v =>
          rw [hf] at this
          refine ⟨this.1, ?_⟩
          intro j w
          by_cases hji : j = i
          · simp [hji]
          · simp only [hji, if_false]; exact this.2 j w
        | part =>
          rw [hf] at this
          obtain ⟨j, hj, hw⟩ := this
          refine ⟨j, hj, ?_⟩
          have hji : j ≠ i := by intro e; subst e; rw [hu] at hw; cases hw
          simp only [hji, if_false]; exact hw
      · intro j v hr
        simp only [setU] at hr
        by_cases hji : j = i
        · simp [hji] at hr
        · simp only [hji, if_false] at hr; exact h.readLog j v hr
      · intro j
        simp only [setU]
        by_cases hji : j = i
        · subst hji
          simp only [if_true]
          have := h.logDone j
          rw [hu] at this
          simp only [reduceCtorEq, or_self, and_false, iff_false] at this ⊢
          exact this
        · simp only [hji, if_false]; exact h.logDone j
      · intro j hj
        simp only [setU] at hj ⊢
        have hji : j ≠ i := by omega
        simp only [hji, if_false]; exact h.outside j hj
    · cases hs
  | readEnd i =>
    simp only [step] at hs
    split at hs
    · rename_i hg
      obtain ⟨hi, hu⟩ := hg
      -- the reader holds the lock, so nobody is writing: the file is stable
      have hhold : s.lock = some i := h.held i hi (by rw [hu]; rfl)
      have hstable : ∃ v, s.file = .stable v := by
        cases hf : s.file with
        | stable v => exact ⟨v, rfl⟩
        | part =>
          have := h.fileOk
          rw [hf] at this
          obtain ⟨j, hj, hw⟩ := this
          have hjh : holding (s.us j) = true := by rw [hw]; rfl
          have := h.held j hj hjh
          rw [hhold] at this
          have hij : i = j := Option.some.inj this
          subst hij
          rw [hu] at hw; cases hw
      obtain ⟨v, hf⟩ := hstable
      rw [hf] at hs
      simp only at hs
      cases hs
      have hfo := h.fileOk
      rw [hf] at hfo
      refine ⟨?_, ?_, ?_, ?_, ?_, h.logNodup, h.noPartial, ?_⟩
      · intro j hj
        obtain ⟨a, b⟩ := h.holder j hj
        refine ⟨a, ?_⟩
        simp only [setU]
        by_cases hji : j = i
        · simp [hji, holding]
        · simp only [hji, if_false]; exact b
      · intro j hj hh
        simp only [setU] at hh
        by_cases hji : j = i
        · subst hji; exact hhold
        · simp only [hji, if_false] at hh; exact h.held j hj hh
      · simp only [setU]
        rw [hf]
        refine ⟨hfo.1, ?_⟩
        intro j w
        by_cases hji : j = i
        · simp [hji]
        · simp only [hji, if_false]; exact hfo.2 j w
      · intro j w hr
        simp only [setU] at hr
        by_cases hji : j = i
        · simp only [hji, if_true, U.read.injEq] at hr
          rw [← hr]; exact hfo.1
        · simp only [hji, if_false] at hr; exact h.readLog j w hr
      · intro j
        simp only [setU]
        by_cases hji : j = i
        · subst hji
          simp only [if_true]
          have := h.logDone j
          rw [hu] at this
          simp only [reduceCtorEq, or_self, and_false, iff_false] at this ⊢
          exact this
        · simp only [hji, if_false]; exact h.logDone j
      · intro j hj
        simp only [setU] at hj ⊢
        have hji : j ≠ i := by omega
        simp only [hji, if_false]; exact h.outside j hj
    · cases hs
  | writeBegin i =>
    simp only [step] at hs
    split at hs
    · rename_i hi
      split at hs
      · rename_i v hu
        cases hs
        have hv : v = s.log := h.readLog i v hu
        have hhold : s.lock = some i := h.held i hi (by rw [hu]; rfl)
        refine ⟨?_, ?_, ?_, ?_, ?_, h.logNodup, h.noPartial, ?_⟩
        · intro j hj
          obtain ⟨a, b⟩ := h.holder j hj
          refine ⟨a, ?_⟩
          simp only [setU]
          by_cases hji : j = i
          · simp [hji, holding]
          · simp only [hji, if_false]; exact b
        · intro j hj hh
          simp only [setU] at hh
          by_cases hji : j = i
          · subst hji; exact hhold
          · simp only [hji, if_false] at hh; exact h.held j hj hh
        · simp only [setU]
          exact ⟨i, hi, by simp [hv]⟩
        · intro j w hr
          simp only [setU] at hr
          by_cases hji : j = i
          · simp [hji] at hr
          · simp only [hji, if_false] at hr; exact h.readLog j w hr
        · intro j
          simp only [setU]
          by_cases hji : j = i
          · subst hji
            simp only [if_true]
            have := h.logDone j
            rw [hu] at this
            simp only [reduceCtorEq, or_self, and_false, iff_false] at this ⊢
            exact this
          · simp only [hji, if_false]; exact h.logDone j
        · intro j hj
          simp only [setU] at hj ⊢
          have hji : j ≠ i := by omega
          simp only [hji, if_false]; exact h.outside j hj
      · cases hs
    · cases hs
  | writeEnd i =>
    simp only [step] at hs
    split at hs
    · rename_i hi
      split at hs
      · rename_i v hu
        cases hs
        have hhold : s.lock = some i := h.held i hi (by rw [hu]; rfl)
        -- the file is partial and `i` is the one writing `log ++ [i]`
        have hv : v = s.log ++ [i] := by
          have := h.fileOk
          cases hf : s.file with
          | stable w => rw [hf] at this; exact absurd hu (this.2 i v)
          | part =>
            rw [hf] at this
            obtain ⟨j, hj, hw⟩ := this
            have hij : i = j := unique_holder s h i j hi hj (by rw [hu]; rfl) (by rw [hw]; rfl)
            subst hij
            rw [hu] at hw
            exact U.writing.inj hw
        have hnotin : i ∉ s.log := by
          intro hin
          have := (h.logDone i).mp hin
          rw [hu] at this
          rcases this.2 with e | e <;> cases e
        refine ⟨?_, ?_, ?_, ?_, ?_, ?_, h.noPartial, ?_⟩
        · intro j hj
          obtain ⟨a, b⟩ := h.holder j hj
          refine ⟨a, ?_⟩
          simp only [setU]
          by_cases hji : j = i
          · simp [hji, holding]
          · simp only [hji, if_false]; exact b
        · intro j hj hh
          simp only [setU] at hh
          by_cases hji : j = i
          · subst hji; exact hhold
          · simp only [hji, if_false] at hh; exact h.held j hj hh
        · simp only [setU]
          refine ⟨hv, ?_⟩
          intro j w
          by_cases hji : j = i
          · simp [hji]
          · simp only [hji, if_false]
            intro hw
            have := unique_holder s h i j hi (by
              by_cases hjn : j < s.n
              · exact hjn
              · have := h.outside j (by omega); rw [this] at hw; cases hw) (by rw [hu]; rfl) (by rw [hw]; rfl)
            exact hji this.symm
        · intro j w hr
          simp only [setU] at hr
          by_cases hji : j = i
          · simp [hji] at hr
          · simp only [hji, if_false] at hr
            have hjn : j < s.n := by
              by_cases hjn : j < s.n
              · exact hjn
              · have := h.outside j (by omega); rw [this] at hr; cases hr
            have := unique_holder s h i j hi hjn (by rw [hu]; rfl) (by rw [hr]; rfl)
            exact absurd this.symm hji
        · intro j
          simp only [setU, List.mem_append, List.mem_singleton]
          by_cases hji : j = i
          · subst hji; simp [hi]
          · simp only [hji, if_false, or_false]; exact h.logDone j
        · rw [List.nodup_append]
          refine ⟨h.logNodup, by simp, ?_⟩
          intro a ha b hb
          simp only [List.mem_singleton] at hb
          subst hb
          intro e; subst e; exact hnotin ha
        · intro j hj
          simp only [setU] at hj ⊢
          have hji : j ≠ i := by omega
          simp only [hji, if_false]; exact h.outside j hj
      · cases hs
    · cases hs
  | unlock i =>
    simp only [step] at hs
    split at hs
    · rename_i hg
      obtain ⟨hi, hu, hl⟩ := hg
      cases hs
      refine ⟨?_, ?_, ?_, ?_, ?_, h.logNodup, h.noPartial, ?_⟩
      · intro j hj; cases hj
      · intro j hj hh
        simp only [setU] at hh
        by_cases hji : j = i
        · simp [hji, holding] at hh
        · simp only [hji, if_false] at hh
          have := h.held j hj hh
          rw [hl] at this
          exact absurd (Option.some.inj this).symm hji
      · have := h.fileOk
        simp only [setU]
        cases hf : s.file with
        | stable v =>
          rw [hf] at this
          refine ⟨this.1, ?_⟩
          intro j w
          by_cases hji : j = i
          · simp [hji]
          · simp only [hji, if_false]; exact this.2 j w
        | part =>
          rw [hf] at this
          obtain ⟨j, hj, hw⟩ := this
          refine ⟨j, hj, ?_⟩
          have hji : j ≠ i := by intro e; subst e; rw [hu] at hw; cases hw
          simp only [hji, if_false]; exact hw
      · intro j v hr
        simp only [setU] at hr
        by_cases hji : j = i
        · simp [hji] at hr
        · simp only [hji, if_false] at hr; exact h.readLog j v hr
      · intro j
        simp only [setU]
        by_cases hji : j = i
        · subst hji
          simp only [if_true]
          have := h.logDone j
          rw [hu] at this
          simp only [true_or, and_true, reduceCtorEq, or_true] at this ⊢
          exact this
        · simp only [hji, if_false]; exact h.logDone j
      · intro j hj
        simp only [setU] at hj ⊢
        have hji : j ≠ i := by omega
        simp only [hji, if_false]; exact h.outside j hj
    · cases hs

theorem inv_run : ∀ (tr : List L) (s s' : S), Inv s → run s tr = some s' → Inv s' := by
  intro tr
  induction tr with
  | nil => intro s s' h hr; simp only [run, Option.some.injEq] at hr; subst hr; exact h
  | cons l ls ih =>
    intro s s' h hr
    simp only [run] at hr
    split at hr
    · rename_i s1 hs1; exact ih s1 s' (inv_step s s1 l h hs1) hr
    · cases hr

theorem inv_reachable (n : Nat) (s : S) (hr : Reachable n s) : Inv s := by
  obtain ⟨tr, htr⟩ := hr
  exact inv_run tr _ s (inv_init n) htr

/-- **rmw_serialisable**: in every reachable state in which all `n` updaters are done — any number of
updaters, every interleaving of their lock / read / write / unlock steps — the tile is stable and
holds every contribution exactly once, applied one after another in the order in which the updaters
acquired the lock. -/
theorem rmw_serialisable (n : Nat) (s : S) (hr : Reachable n s) (hdone : ∀ i, i < s.n → s.us i = .done) :
    s.file = .stable s.log ∧ s.log.Nodup ∧ ∀ i, i ∈ s.log ↔ i < s.n := by
  have h := inv_reachable n s hr
  refine ⟨?_, h.logNodup, ?_⟩
  · have := h.fileOk
    cases hf : s.file with
    | stable v => rw [hf] at this; rw [this.1]
    | part =>
      rw [hf] at this
      obtain ⟨j, hj, hw⟩ := this
      rw [hdone j hj] at hw; cases hw
  · intro i
    rw [h.logDone]
    constructor
    · intro a; exact a.1
    · intro a; exact ⟨a, Or.inr (hdone i a)⟩

/-- **no_partial_read_under_lock**: no read ever observes a partially written tile -/
theorem no_partial_read_under_lock (n : Nat) (s : S) (hr : Reachable n s) : s.partialReads = 0 :=
  (inv_reachable n s hr).noPartial

/-- mutual exclusion of the read-modify-write regions -/
theorem mutual_exclusion (n : Nat) (s : S) (hr : Reachable n s) (i j : Nat) (hi : i < s.n) (hj : j < s.n)
    (a : holding (s.us i) = true) (b : holding (s.us j) = true) : i = j :=
  unique_holder s (inv_reachable n s hr) i j hi hj a b

/-- **key_format_indep** and the shape of `update_image`, as extracted from the source now: the lock
wraps read → yield → write and nothing else; its path comes from the tile's default-format path, so
all updaters of a tile agree on it whatever `format` they pass; read and write use one format;
`clean_lockfiles` removes exactly those lock paths for a level. -/
theorem update_image_facts : Gen.PIO.update_locked_read_yield_write = true ∧ Gen.PIO.lock_path_format_independent = true ∧
    Gen.PIO.update_same_format_read_write = true ∧ Gen.PIO.clean_covers_level = true := by decide

/-! non-vacuity: two updaters, the second acquiring the lock first -/
example : ∃ s, run (init 2) [.lock 1, .readBegin 1, .readEnd 1, .writeBegin 1, .writeEnd 1, .unlock 1,
    .lock 0, .readBegin 0, .readEnd 0, .writeBegin 0, .writeEnd 0, .unlock 0] = some s ∧
    s.file = .stable [1, 0] ∧ s.us 0 = .done ∧ s.us 1 = .done := ⟨_, rfl, rfl, rfl, rfl⟩

/-- **entry_points**: the call sites through which this property's workflows reach the modelled functions have, in the source as
it is now, the argument plumbing the model assumes (facts re-extracted on every run, `Gen/Plumbing.lean`) -/
theorem entry_points : Gen.Plumbing.multi_tan_worker_updates_into_basis = true ∧ Gen.Plumbing.update_image_writes_back_plainly = true := by decide

end C10
