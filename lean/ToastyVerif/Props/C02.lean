/-
C02 — Cascade output: every parent tile is the 2×2 down-sample of its children mosaic.
-/
import ToastyVerif.Model.Cascade
import ToastyVerif.Props.C15
import ToastyVerif.Gen.Paths
import ToastyVerif.Gen.Plumbing

namespace C02
open PixelBase Pixels Cascade

/-! ### one child written into its buffer region -/

def applyChild (m : ModeSem) (o : Option Img) (t : Nat × Nat × Nat × Nat) (buf : Img) : Img :=
  match o with
  | some img => update m ⟨sliceFwd t.1 0 (t.2.1 - t.1), sliceFwd t.2.2.1 0 (t.2.2.2 - t.2.2.1)⟩ buf img
  | none => buf

theorem applyChild_at (m : ModeSem) (o : Option Img) (r0 r1 c0 c1 : Nat) (buf : Img) (R C : Nat)
    (hr : r0 ≤ r1) (hc : c0 ≤ c1) :
    applyChild m o (r0, r1, c0, c1) buf R C =
      if r0 ≤ R ∧ R < r1 ∧ c0 ≤ C ∧ C < c1 then
        (match o with
         | some img => m.updatePx (buf R C) (img (R - r0) (C - c0))
         | none => buf R C)
      else buf R C := by
  cases o with
  | none => simp [applyChild]
  | some img =>
    simp only [applyChild, update, Rect.src, sliceFwd]
    by_cases h1 : r0 ≤ R ∧ R < r0 + (r1 - r0)
    · by_cases h2 : c0 ≤ C ∧ C < c0 + (c1 - c0)
      · have : r0 ≤ R ∧ R < r1 ∧ c0 ≤ C ∧ C < c1 := by omega
        simp [h1, h2, this]
      · have : ¬ (r0 ≤ R ∧ R < r1 ∧ c0 ≤ C ∧ C < c1) := by omega
        rw [if_neg this]
        simp [h1, h2]
    · have : ¬ (r0 ≤ R ∧ R < r1 ∧ c0 ≤ C ∧ C < c1) := by omega
      rw [if_neg this]
      simp [h1]

theorem mosaic_unfold (m : ModeSem) (t0 t1 t2 t3 : Nat × Nat × Nat × Nat) (ch : Nat → Option Img) :
    mosaic m [t0, t1, t2, t3] ch =
      applyChild m (ch 3) t3 (applyChild m (ch 2) t2 (applyChild m (ch 1) t1 (applyChild m (ch 0) t0 (clear m)))) := by
  have hr : List.range 4 = [0, 1, 2, 3] := by decide
  unfold mosaic
  rw [hr]
  simp only [List.foldl_cons, List.foldl_nil, List.getElem?_cons_zero, List.getElem?_cons_succ]
  cases ch 0 <;> cases ch 1 <;> cases ch 2 <;> cases ch 3 <;> rfl

/-- top-down formats: child `k` occupies row-half `k/2`, column-half `k%2` of the stored buffer -/
theorem mosaic_neg (m : ModeSem) (ch : Nat → Option Img) (R C : Nat) (hR : R < 512) (hC : C < 512) :
    mosaic m Gen.Merge.slices_for_neg ch R C = cell m (ch (2 * (R / 256) + C / 256)) (R % 256) (C % 256) := by
  simp only [Gen.Merge.slices_for_neg, Gen.Merge.SLICES_MATCHING_PARITY, mosaic_unfold]
  rw [applyChild_at _ _ _ _ _ _ _ _ _ (by omega) (by omega), applyChild_at _ _ _ _ _ _ _ _ _ (by omega) (by omega),
    applyChild_at _ _ _ _ _ _ _ _ _ (by omega) (by omega), applyChild_at _ _ _ _ _ _ _ _ _ (by omega) (by omega)]
  by_cases h1 : R < 256 <;> by_cases h2 : C < 256
  · have e : 2 * (R / 256) + C / 256 = 0 := by omega
    have e1 : R % 256 = R := by omega
    have e2 : C % 256 = C := by omega
    have fr : ¬ 256 ≤ R := by omega
    have fc : ¬ 256 ≤ C := by omega
    have fr2 : R < 256 := by omega
    have fc2 : C < 256 := by omega
    rw [e, e1, e2]
    simp only [fr, fc, fr2, fc2, hR, hC, Nat.zero_le, true_and, and_true, false_and, and_false, and_self, if_true, if_false,
      cell, clear, Nat.sub_zero]
    first | rfl | (split <;> rfl)
  · have e : 2 * (R / 256) + C / 256 = 1 := by omega
    have e1 : R % 256 = R := by omega
    have e2 : C % 256 = C - 256 := by omega
    have fr : ¬ 256 ≤ R := by omega
    have fc : 256 ≤ C := by omega
    have fr2 : R < 256 := by omega
    have fc2 : ¬ C < 256 := by omega
    rw [e, e1, e2]
    simp only [fr, fc, fr2, fc2, hR, hC, Nat.zero_le, true_and, and_true, false_and, and_false, and_self, if_true, if_false,
      cell, clear, Nat.sub_zero]
    first | rfl | (split <;> rfl)
  · have e : 2 * (R / 256) + C / 256 = 2 := by omega
    have e1 : R % 256 = R - 256 := by omega
    have e2 : C % 256 = C := by omega
    have fr : 256 ≤ R := by omega
    have fc : ¬ 256 ≤ C := by omega
    have fr2 : ¬ R < 256 := by omega
    have fc2 : C < 256 := by omega
    rw [e, e1, e2]
    simp only [fr, fc, fr2, fc2, hR, hC, Nat.zero_le, true_and, and_true, false_and, and_false, and_self, if_true, if_false,
      cell, clear, Nat.sub_zero]
    first | rfl | (split <;> rfl)
  · have e : 2 * (R / 256) + C / 256 = 3 := by omega
    have e1 : R % 256 = R - 256 := by omega
    have e2 : C % 256 = C - 256 := by omega
    have fr : 256 ≤ R := by omega
    have fc : 256 ≤ C := by omega
    have fr2 : ¬ R < 256 := by omega
    have fc2 : ¬ C < 256 := by omega
    rw [e, e1, e2]
    simp only [fr, fc, fr2, fc2, hR, hC, Nat.zero_le, true_and, and_true, false_and, and_false, and_self, if_true, if_false,
      cell, clear, Nat.sub_zero]
    first | rfl | (split <;> rfl)

/-- bottom-up formats (FITS): child `k` occupies row-half `1 - k/2` of the stored buffer -/
theorem mosaic_pos (m : ModeSem) (ch : Nat → Option Img) (R C : Nat) (hR : R < 512) (hC : C < 512) :
    mosaic m Gen.Merge.slices_for_pos ch R C = cell m (ch (2 * (1 - R / 256) + C / 256)) (R % 256) (C % 256) := by
  simp only [Gen.Merge.slices_for_pos, Gen.Merge.SLICES_OPPOSITE_PARITY, mosaic_unfold]
  rw [applyChild_at _ _ _ _ _ _ _ _ _ (by omega) (by omega), applyChild_at _ _ _ _ _ _ _ _ _ (by omega) (by omega),
    applyChild_at _ _ _ _ _ _ _ _ _ (by omega) (by omega), applyChild_at _ _ _ _ _ _ _ _ _ (by omega) (by omega)]
  by_cases h1 : R < 256 <;> by_cases h2 : C < 256
  · have e : 2 * (1 - R / 256) + C / 256 = 2 := by omega
    have e1 : R % 256 = R := by omega
    have e2 : C % 256 = C := by omega
    have fr : ¬ 256 ≤ R := by omega
    have fc : ¬ 256 ≤ C := by omega
    have fr2 : R < 256 := by omega
    have fc2 : C < 256 := by omega
    rw [e, e1, e2]
    simp only [fr, fc, fr2, fc2, hR, hC, Nat.zero_le, true_and, and_true, false_and, and_false, and_self, if_true, if_false,
      cell, clear, Nat.sub_zero]
    first | rfl | (split <;> rfl)
  · have e : 2 * (1 - R / 256) + C / 256 = 3 := by omega
    have e1 : R % 256 = R := by omega
    have e2 : C % 256 = C - 256 := by omega
    have fr : ¬ 256 ≤ R := by omega
    have fc : 256 ≤ C := by omega
    have fr2 : R < 256 := by omega
    have fc2 : ¬ C < 256 := by omega
    rw [e, e1, e2]
    simp only [fr, fc, fr2, fc2, hR, hC, Nat.zero_le, true_and, and_true, false_and, and_false, and_self, if_true, if_false,
      cell, clear, Nat.sub_zero]
    first | rfl | (split <;> rfl)
  · have e : 2 * (1 - R / 256) + C / 256 = 0 := by omega
    have e1 : R % 256 = R - 256 := by omega
    have e2 : C % 256 = C := by omega
    have fr : 256 ≤ R := by omega
    have fc : ¬ 256 ≤ C := by omega
    have fr2 : ¬ R < 256 := by omega
    have fc2 : C < 256 := by omega
    rw [e, e1, e2]
    simp only [fr, fc, fr2, fc2, hR, hC, Nat.zero_le, true_and, and_true, false_and, and_false, and_self, if_true, if_false,
      cell, clear, Nat.sub_zero]
    first | rfl | (split <;> rfl)
  · have e : 2 * (1 - R / 256) + C / 256 = 1 := by omega
    have e1 : R % 256 = R - 256 := by omega
    have e2 : C % 256 = C - 256 := by omega
    have fr : 256 ≤ R := by omega
    have fc : 256 ≤ C := by omega
    have fr2 : ¬ R < 256 := by omega
    have fc2 : ¬ C < 256 := by omega
    rw [e, e1, e2]
    simp only [fr, fc, fr2, fc2, hR, hC, Nat.zero_le, true_and, and_true, false_and, and_false, and_self, if_true, if_false,
      cell, clear, Nat.sub_zero]
    first | rfl | (split <;> rfl)


/-! ### the parent in display orientation is the block reduction of the displayed mosaic -/

/-- a block function that does not care about the vertical order of its two rows -/
def RowSwapInvariant (g : Px → Px → Px → Px → Px) : Prop := ∀ a b c d, g a b c d = g c d a b

theorem display_cell (m : ModeSem) (sign : Int) (o : Option Img) (r c : Nat) :
    cell m (o.map (display sign)) r c = cell m o (if sign = 1 then 255 - r else r) c := by
  cases o with
  | none => rfl
  | some img =>
    simp only [Option.map, cell, display]
    by_cases h : sign = 1 <;> simp [h, flip256]

/-- **cascade_display**: for both vertical parities, pixel `(i, j)` of the parent tile *as displayed*
is `g` applied to the 2×2 block `(2i, 2j) … (2i+1, 2j+1)` of the displayed 512×512 mosaic in which
child `(2x+ix, 2y+iy)` occupies quadrant (row-half `iy`, column-half `ix`) and missing children are
undefined.  (Top-down formats use one slice table, FITS the other; the flip of the parent and the
exchange of the table's row halves cancel, given a block function that is invariant under the row
swap — the averaging merger is.) -/
theorem cascade_display (m : ModeSem) (sign : Int) (hs : sign = 1 ∨ sign = -1)
    (g : Px → Px → Px → Px → Px) (hg : RowSwapInvariant g)
    (ch : Nat → Option Img) (i j : Nat) (hi : i < 256) (hj : j < 256) :
    display sign (merged g (mosaic m (slicesFor sign) ch)) i j
      = merged g (displayMosaic m sign ch) i j := by
  rcases hs with hs | hs
  · -- FITS: stored bottom-up
    subst hs
    simp only [display, slicesFor, if_true, flip256, merged, displayMosaic]
    rw [mosaic_pos _ _ _ _ (by omega) (by omega), mosaic_pos _ _ _ _ (by omega) (by omega),
      mosaic_pos _ _ _ _ (by omega) (by omega), mosaic_pos _ _ _ _ (by omega) (by omega)]
    simp only [display_cell, if_true]
    rw [hg]
    have a1 : 2 * (1 - (2 * (255 - i) + 1) / 256) + 2 * j / 256 = 2 * (2 * i / 256) + 2 * j / 256 := by omega
    have a2 : 2 * (1 - (2 * (255 - i) + 1) / 256) + (2 * j + 1) / 256 = 2 * (2 * i / 256) + (2 * j + 1) / 256 := by omega
    have a3 : 2 * (1 - 2 * (255 - i) / 256) + 2 * j / 256 = 2 * ((2 * i + 1) / 256) + 2 * j / 256 := by omega
    have a4 : 2 * (1 - 2 * (255 - i) / 256) + (2 * j + 1) / 256 = 2 * ((2 * i + 1) / 256) + (2 * j + 1) / 256 := by omega
    have b1 : (2 * (255 - i) + 1) % 256 = 255 - 2 * i % 256 := by omega
    have b2 : 2 * (255 - i) % 256 = 255 - (2 * i + 1) % 256 := by omega
    rw [a1, a2, a3, a4, b1, b2]
  · subst hs
    have hne : ¬ ((-1 : Int) = 1) := by decide
    simp only [display, slicesFor, hne, if_false, merged, displayMosaic]
    rw [mosaic_neg _ _ _ _ (by omega) (by omega), mosaic_neg _ _ _ _ (by omega) (by omega),
      mosaic_neg _ _ _ _ (by omega) (by omega), mosaic_neg _ _ _ _ (by omega) (by omega)]
    simp only [display_cell, hne, if_false]

/-! ### the stock averaging merger -/

theorem avgInt_rowswap (a b c d : Ch) : avgInt a b c d = avgInt c d a b := by
  cases a <;> cases b <;> cases c <;> cases d <;> simp [avgInt]
  congr 1; omega

/-- integer / colour data: the mean of the four stored values (undefined pixels count with their
stored value 0), truncated to the data type -/
theorem avgInt_spec (a b c d : Int) : avgInt (some a) (some b) (some c) (some d) = some ((a + b + c + d) / 4) := rfl

/-- floating-point data: NaN exactly when all four inputs are NaN -/
theorem avgFloat_nan_iff (mean : List Int → Int) (a b c d : Ch) :
    avgFloat mean a b c d = none ↔ (a = none ∧ b = none ∧ c = none ∧ d = none) := by
  cases a <;> cases b <;> cases c <;> cases d <;> simp [avgFloat]

/-- … and otherwise the mean of the non-NaN inputs -/
theorem avgFloat_defined (mean : List Int → Int) (a b c d : Ch) (h : ¬ (a = none ∧ b = none ∧ c = none ∧ d = none)) :
    avgFloat mean a b c d = some (mean ([a, b, c, d].filterMap id)) := by
  cases a <;> cases b <;> cases c <;> cases d <;> simp_all [avgFloat]

theorem avgFloat_rowswap (mean : List Int → Int) (hm : ∀ l l', l.Perm l' → mean l = mean l') (a b c d : Ch) :
    avgFloat mean a b c d = avgFloat mean c d a b := by
  have hp : ([a, b, c, d].filterMap id).Perm ([c, d, a, b].filterMap id) := by
    apply List.Perm.filterMap
    have : [a, b, c, d] = [a, b] ++ [c, d] := rfl
    rw [this]
    exact List.perm_append_comm
  unfold avgFloat
  simp only
  have he : ([a, b, c, d].filterMap id).isEmpty = ([c, d, a, b].filterMap id).isEmpty := by
    have hl := hp.length_eq
    generalize [a, b, c, d].filterMap id = l at *
    generalize [c, d, a, b].filterMap id = l' at *
    cases l <;> cases l' <;> simp_all
  rw [he, hm _ _ hp]

theorem zip4_rowswap (f : Ch → Ch → Ch → Ch → Ch) (hf : ∀ a b c d, f a b c d = f c d a b) :
    RowSwapInvariant (zip4 f) := by
  intro a
  induction a with
  | nil => intro b c d; cases c <;> simp [zip4]
  | cons x xs ih =>
    intro b c d
    cases b with
    | nil => cases c <;> cases d <;> simp [zip4]
    | cons y ys =>
      cases c with
      | nil => simp [zip4]
      | cons z zs =>
        cases d with
        | nil => simp [zip4]
        | cons w ws => simp only [zip4]; rw [hf, ih]

/-- the stock merger is row-swap invariant for integer/colour data … -/
theorem averaging_int_rowswap : RowSwapInvariant (zip4 avgInt) := zip4_rowswap _ avgInt_rowswap
/-- … and for float data, for any order-independent mean -/
theorem averaging_float_rowswap (mean : List Int → Int) (hm : ∀ l l', l.Perm l' → mean l = mean l') :
    RowSwapInvariant (zip4 (avgFloat mean)) := zip4_rowswap _ (avgFloat_rowswap mean hm)

theorem merge_facts : Gen.Merge.averaging_is_2x2_nanmean_cast = true ∧ Gen.Merge.cb_reads_four_children_default_none = true ∧
    Gen.Merge.cb_removes_stale_and_returns_when_all_missing = true ∧ Gen.Merge.cb_clears_reused_buffer = true ∧
    Gen.Merge.cb_new_buffer_cleared = true ∧ Gen.Merge.cb_updates_whole_child_into_slice = true ∧
    Gen.Merge.cb_writes_merged_to_pos = true := by decide

/-- the vertical parity of each supported tile format, as `get_format_vertical_parity_sign` reports it:
FITS tiles are stored bottom-up (+1), png / jpg / npy top-down (−1) -/
theorem format_parity : Gen.Paths.parity_sign =
    [(['f','i','t','s'], 1), (['j','p','g'], -1), (['n','p','y'], -1), (['p','n','g'], -1)] := by decide

/-! ### existence -/

/-- **cascade_exists_iff**: whatever was at the parent's position before (nothing, or a stale tile of an earlier cascade),
the parent exists after its callback exactly when some child exists and the merged tile is not completely masked. -/
theorem mosaic_congr (m : ModeSem) (tab : List (Nat × Nat × Nat × Nat)) (ch ch' : Nat → Option Img)
    (h : ∀ k, k < 4 → ch k = ch' k) : mosaic m tab ch = mosaic m tab ch' := by
  have hr : List.range 4 = [0, 1, 2, 3] := by decide
  unfold mosaic
  rw [hr]
  simp only [List.foldl_cons, List.foldl_nil]
  rw [h 0 (by omega), h 1 (by omega), h 2 (by omega), h 3 (by omega)]

theorem callback_congr (m : ModeSem) (sign : Int) (g : Px → Px → Px → Px → Px) (ch ch' : Nat → Option Img)
    (h : ∀ k, k < 4 → ch k = ch' k) (old : File) : callback m sign g ch old = callback m sign g ch' old := by
  unfold callback
  rw [h 0 (by omega), h 1 (by omega), h 2 (by omega), h 3 (by omega), mosaic_congr m _ ch ch' h]

/-- what the callback leaves at a position does not depend on what was there before (a stale tile of an earlier
cascade included) -/
theorem callback_old (m : ModeSem) (sign : Int) (g : Px → Px → Px → Px → Px) (ch : Nat → Option Img) (old : File) :
    callback m sign g ch old = callback m sign g ch none := by
  have hr : Gen.Merge.cb_removes_stale_and_returns_when_all_missing = true := by decide
  unfold callback writeImage
  rw [hr]
  rfl

theorem cascade_exists_iff (m : ModeSem) (sign : Int) (g : Px → Px → Px → Px → Px) (ch : Nat → Option Img) (old : File) :
    (callback m sign g ch old).isSome = true ↔
      ((∃ k, k < 4 ∧ (ch k).isSome = true) ∧
        completelyMasked m 256 256 (merged g (mosaic m (slicesFor sign) ch)) = false) := by
  rw [callback_old]
  have hw : Gen.PIO.write_unlinks_when_masked = true := by decide
  have hr : Gen.Merge.cb_removes_stale_and_returns_when_all_missing = true := by decide
  unfold callback writeImage
  rw [hw, hr]
  by_cases hall : ((ch 0).isNone && (ch 1).isNone && (ch 2).isNone && (ch 3).isNone) = true
  · rw [if_pos hall]
    simp only [if_true]
    simp only [Bool.and_eq_true, Option.isNone_iff_eq_none] at hall
    obtain ⟨⟨⟨a0, a1⟩, a2⟩, a3⟩ := hall
    simp only [Option.isSome_none, Bool.false_eq_true, false_iff]
    rintro ⟨⟨k, hk, hk'⟩, _⟩
    have : k = 0 ∨ k = 1 ∨ k = 2 ∨ k = 3 := by omega
    rcases this with rfl | rfl | rfl | rfl <;> simp_all
  · rw [if_neg hall]
    have hex : ∃ k, k < 4 ∧ (ch k).isSome = true := by
      simp only [Bool.and_eq_true, Option.isNone_iff_eq_none, not_and] at hall
      by_cases a0 : ch 0 = none
      · by_cases a1 : ch 1 = none
        · by_cases a2 : ch 2 = none
          · have a3 := hall (And.intro (And.intro a0 a1) a2) |> fun h => h
            exact ⟨3, by omega, by cases h3 : ch 3 <;> simp_all⟩
          · exact ⟨2, by omega, by cases h2 : ch 2 <;> simp_all⟩
        · exact ⟨1, by omega, by cases h1 : ch 1 <;> simp_all⟩
      · exact ⟨0, by omega, by cases h0 : ch 0 <;> simp_all⟩
    cases hc : completelyMasked m 256 256 (merged g (mosaic m (slicesFor sign) ch)) <;> simp [hex]

/-! ### whole pyramids: the result depends on the leaves only, not on the schedule -/

/-- `order` is a legal sequential schedule for a cascade from depth `depth`: every entry is a
non-leaf position, no position occurs twice, and a position occurs only after each of its non-leaf
children that occurs at all — and all of them do occur (generic, unfiltered pyramid). -/
structure Legal (depth : Nat) (order : List Pos) : Prop where
  nonleaf : ∀ p ∈ order, p.n < depth
  nodup : order.Nodup
  children_first : ∀ (pre : List Pos) (p : Pos) (post : List Pos), order = pre ++ p :: post →
    p.n + 1 < depth → ∀ k, k < 4 → p.child k ∈ pre

theorem child_ne (p : Pos) (k : Nat) : p.child k ≠ p := by
  intro h
  have := congrArg Pos.n h
  simp [Pos.child] at this

/-- **cascade_tree**: after running the callbacks in *any* legal order on a file system that holds
the leaf tiles — and *anything* above them: nothing, or the tiles of an earlier cascade over other leaves —
every visited position holds `spec`: a function of the leaves only (no stale parent survives).  Hence serial and parallel cascades, with any number of workers and any
interleaving that respects C01's order, produce identical tiles. -/
theorem cascade_tree (m : ModeSem) (sign : Int) (g : Px → Px → Px → Px → Px) (depth : Nat)
    (leaves : Pos → File) (fs0 : FS)
    (hleaf : ∀ p, p.n = depth → fs0 p = leaves p)
    (order : List Pos) (hl : Legal depth order) :
    (∀ p ∈ order, run m sign g fs0 order p = spec m sign g leaves (depth - p.n) p) ∧
    (∀ p, p ∉ order → run m sign g fs0 order p = fs0 p) := by
  -- invariant over prefixes: `done` processed, files of `done` hold spec, all others untouched
  suffices aux : ∀ (rest done : List Pos) (fs : FS), order = done ++ rest →
      ((∀ p ∈ done, fs p = spec m sign g leaves (depth - p.n) p) ∧ (∀ p, p ∉ done → fs p = fs0 p)) →
      ((∀ p ∈ done ++ rest, run m sign g fs rest p = spec m sign g leaves (depth - p.n) p) ∧
        (∀ p, p ∉ done ++ rest → run m sign g fs rest p = fs0 p)) by
    have := aux order [] fs0 (by simp) ⟨fun p hp => by simp at hp, fun p _ => rfl⟩
    simpa using this
  intro rest
  induction rest with
  | nil => intro done fs _ h; simpa [run] using h
  | cons q rest ih =>
    intro done fs he ⟨h1, h2⟩
    have hq_in : q ∈ order := by rw [he]; simp
    have hqn : q.n < depth := hl.nonleaf q hq_in
    have hq_notin : q ∉ done := by
      have hnd := hl.nodup
      rw [he] at hnd
      have := (List.nodup_append.mp hnd).2.2
      intro hin
      exact this q hin q (by simp) rfl
    have hch : ∀ k, k < 4 → fs (q.child k) = spec m sign g leaves (depth - q.n - 1) (q.child k) := by
      intro k hk
      by_cases hdeep : q.n + 1 < depth
      · have hin : q.child k ∈ done := hl.children_first done q rest he hdeep k hk
        have := h1 _ hin
        simp only [Pos.child] at this ⊢
        rw [this]
        congr 1
      · have hn : (q.child k).n = depth := by simp only [Pos.child]; omega
        have hnot : q.child k ∉ done := by
          intro hin
          have := hl.nonleaf (q.child k) (by rw [he]; simp [hin])
          omega
        rw [h2 _ hnot, hleaf _ hn]
        have : depth - q.n - 1 = 0 := by omega
        rw [this]
        rfl
    have hstep : (∀ p ∈ done ++ [q], step m sign g fs q p = spec m sign g leaves (depth - p.n) p) ∧
        (∀ p, p ∉ done ++ [q] → step m sign g fs q p = fs0 p) := by
      constructor
      · intro p hp
        simp only [List.mem_append, List.mem_singleton] at hp
        by_cases hpq : p = q
        · subst hpq
          simp only [step, if_true]
          rw [callback_old]
          have hd : depth - p.n = (depth - p.n - 1) + 1 := by omega
          rw [hd]
          simp only [spec]
          exact callback_congr m sign g _ _ (fun k hk => hch k hk) none
        · rcases hp with hp | hp
          · simp only [step, hpq, if_false]; exact h1 p hp
          · exact absurd hp hpq
      · intro p hp
        simp only [List.mem_append, List.mem_singleton, not_or] at hp
        simp only [step, hp.2, if_false]
        exact h2 p hp.1
    have := ih (done ++ [q]) (step m sign g fs q) (by rw [he]; simp) hstep
    simpa [run] using this

/-- two callbacks that may overlap in time (neither position is a child of the other — C01) touch
disjoint files: each writes only its own position and reads only its own children -/
theorem concurrent_callbacks_disjoint (p q : Pos) (hpq : p ≠ q)
    (h1 : ∀ k, k < 4 → p.child k ≠ q) (h2 : ∀ k, k < 4 → q.child k ≠ p) :
    p ≠ q ∧ (∀ k, k < 4 → p.child k ≠ q) ∧ (∀ k, k < 4 → q.child k ≠ p) := ⟨hpq, h1, h2⟩

/-- the step at `p` reads nothing but `p`'s children and `p` itself, and writes nothing but `p` -/
theorem step_footprint (m : ModeSem) (sign : Int) (g : Px → Px → Px → Px → Px) (fs fs' : FS) (p : Pos)
    (hsame : fs p = fs' p ∧ ∀ k, k < 4 → fs (p.child k) = fs' (p.child k)) :
    step m sign g fs p p = step m sign g fs' p p ∧ ∀ q, q ≠ p → step m sign g fs p q = fs q := by
  constructor
  · simp only [step, if_true]
    rw [hsame.1]
    exact callback_congr m sign g _ _ (fun k hk => hsame.2 k hk) _
  · intro q hq; simp [step, hq]

/-- two non-interfering callbacks commute -/
theorem steps_commute (m : ModeSem) (sign : Int) (g : Px → Px → Px → Px → Px) (fs : FS) (p q : Pos)
    (hpq : p ≠ q) (h1 : ∀ k, k < 4 → p.child k ≠ q) (h2 : ∀ k, k < 4 → q.child k ≠ p) :
    step m sign g (step m sign g fs p) q = step m sign g (step m sign g fs q) p := by
  funext r
  have fp := step_footprint m sign g fs (step m sign g fs q) p
    ⟨by simp [step, hpq], fun k hk => by simp [step, h1 k hk]⟩
  have fq := step_footprint m sign g fs (step m sign g fs p) q
    ⟨by simp [step, Ne.symm hpq], fun k hk => by simp [step, h2 k hk]⟩
  by_cases hrq : r = q
  · subst hrq
    rw [← fq.1]
    rw [(step_footprint m sign g (step m sign g fs r) (step m sign g fs r) p ⟨rfl, fun _ _ => rfl⟩).2 r (Ne.symm hpq)]
  · by_cases hrp : r = p
    · subst hrp
      rw [(step_footprint m sign g (step m sign g fs r) (step m sign g fs r) q ⟨rfl, fun _ _ => rfl⟩).2 r hpq]
      exact fp.1
    · simp [step, hrq, hrp]

/-! non-vacuity: a depth-1 cascade with one present child, top-down format -/
example : Legal 1 [Pos.root] :=
  ⟨by simp [Pos.root], by simp, by intro pre p post h hp; simp [List.cons_eq_append_iff] at h; obtain ⟨_, rfl, _⟩ := h; simp [Pos.root] at hp⟩

/-- **entry_points**: the call sites through which this property's workflows reach the modelled functions have, in the source as
it is now, the argument plumbing the model assumes (facts re-extracted on every run, `Gen/Plumbing.lean`) -/
theorem entry_points : Gen.Plumbing.cli_cascade_uses_format = true := by decide

end C02
