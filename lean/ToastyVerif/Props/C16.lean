/-
C16 — Flipping image parity reverses rows but moves no pixel on the sky.

`Gen/Parity.lean` is the symbolic execution of the header assignments in
`_flip_wcs_parity` / `_wcs_to_parity_sign` (toasty/image.py), redone on every run.
The linear part of a FITS celestial WCS maps the 0-based pixel `(x, y)` to the intermediate
world coordinates `CD · ((x+1, y+1) − CRPIX)`; the (non-linear) projection applied afterwards
is untouched by the flip.  All arithmetic is exact (`Rat`).
-/
import ToastyVerif.Gen.Parity

namespace C16
open Gen.Parity

/-- intermediate world coordinates of the 0-based pixel `(x, y)` -/
def world (cd11 cd12 cd21 cd22 crpix1 crpix2 x y : Rat) : Rat × Rat :=
  (cd11 * (x + 1 - crpix1) + cd12 * (y + 1 - crpix2),
   cd21 * (x + 1 - crpix1) + cd22 * (y + 1 - crpix2))

/-- **flip_world**: for every linear WCS (any rotation, scale, skew, reference pixel, either parity),
every height and every pixel, the world coordinates of `(x, y)` before the flip are those of
`(x, height-1-y)` after it. -/
theorem flip_world (cdelt1 cdelt2 pc11 pc12 pc21 pc22 crpix1 crpix2 height x y : Rat) :
    world
      (flip_cd1_1 cdelt1 cdelt2 pc11 pc12 pc21 pc22 crpix1 crpix2 height)
      (flip_cd1_2 cdelt1 cdelt2 pc11 pc12 pc21 pc22 crpix1 crpix2 height)
      (flip_cd2_1 cdelt1 cdelt2 pc11 pc12 pc21 pc22 crpix1 crpix2 height)
      (flip_cd2_2 cdelt1 cdelt2 pc11 pc12 pc21 pc22 crpix1 crpix2 height)
      (flip_crpix1 cdelt1 cdelt2 pc11 pc12 pc21 pc22 crpix1 crpix2 height)
      (flip_crpix2 cdelt1 cdelt2 pc11 pc12 pc21 pc22 crpix1 crpix2 height)
      x (height - 1 - y)
    = world (cdelt1 * pc11) (cdelt1 * pc12) (cdelt2 * pc21) (cdelt2 * pc22) crpix1 crpix2 x y := by
  unfold world flip_cd1_1 flip_cd1_2 flip_cd2_1 flip_cd2_2 flip_crpix1 flip_crpix2
  refine Prod.ext ?_ ?_ <;> simp only <;> grind

/-- the flipped header carries a CD matrix only: no PC/CDELT keyword is left to be combined with it -/
theorem flip_header_clean : flip_leftover = [] := by decide

/-- **flip_det**: the determinant of the flipped CD matrix (re-read as `CDELT = 1, PC = CD`, which is
how a CD-matrix header is interpreted) is the negative of the original determinant. -/
theorem flip_det (cdelt1 cdelt2 pc11 pc12 pc21 pc22 crpix1 crpix2 height : Rat) :
    det 1 1
      (flip_cd1_1 cdelt1 cdelt2 pc11 pc12 pc21 pc22 crpix1 crpix2 height)
      (flip_cd1_2 cdelt1 cdelt2 pc11 pc12 pc21 pc22 crpix1 crpix2 height)
      (flip_cd2_1 cdelt1 cdelt2 pc11 pc12 pc21 pc22 crpix1 crpix2 height)
      (flip_cd2_2 cdelt1 cdelt2 pc11 pc12 pc21 pc22 crpix1 crpix2 height)
    = - det cdelt1 cdelt2 pc11 pc12 pc21 pc22 := by
  unfold det flip_cd1_1 flip_cd1_2 flip_cd2_1 flip_cd2_2
  grind

/-- **the parity sign negates** for every non-singular WCS -/
theorem flip_sign (cdelt1 cdelt2 pc11 pc12 pc21 pc22 crpix1 crpix2 height : Rat)
    (hdet : det cdelt1 cdelt2 pc11 pc12 pc21 pc22 ≠ 0) :
    sign 1 1
      (flip_cd1_1 cdelt1 cdelt2 pc11 pc12 pc21 pc22 crpix1 crpix2 height)
      (flip_cd1_2 cdelt1 cdelt2 pc11 pc12 pc21 pc22 crpix1 crpix2 height)
      (flip_cd2_1 cdelt1 cdelt2 pc11 pc12 pc21 pc22 crpix1 crpix2 height)
      (flip_cd2_2 cdelt1 cdelt2 pc11 pc12 pc21 pc22 crpix1 crpix2 height)
    = - sign cdelt1 cdelt2 pc11 pc12 pc21 pc22 := by
  unfold sign
  rw [flip_det]
  generalize det cdelt1 cdelt2 pc11 pc12 pc21 pc22 = d at *
  by_cases h : d < 0
  · have h' : ¬ (-d < 0) := by grind
    simp [h, h']
  · have h' : -d < 0 := by grind
    simp [h, h']

/-- the sign is `+1` exactly for a negative determinant (`-1` otherwise) -/
theorem sign_spec (cdelt1 cdelt2 pc11 pc12 pc21 pc22 : Rat) :
    (sign cdelt1 cdelt2 pc11 pc12 pc21 pc22 = 1 ↔ det cdelt1 cdelt2 pc11 pc12 pc21 pc22 < 0) ∧
    (sign cdelt1 cdelt2 pc11 pc12 pc21 pc22 = 1 ∨ sign cdelt1 cdelt2 pc11 pc12 pc21 pc22 = -1) := by
  unfold sign
  by_cases h : det cdelt1 cdelt2 pc11 pc12 pc21 pc22 < 0 <;> simp [h]

/-! ### whole images: a linear WCS in CD form plus rows of pixels -/

structure Img (α : Type) where
  cd11 : Rat
  cd12 : Rat
  cd21 : Rat
  cd22 : Rat
  crpix1 : Rat
  crpix2 : Rat
  rows : List α

def Img.sign {α} (w : Img α) : Int := Gen.Parity.sign 1 1 w.cd11 w.cd12 w.cd21 w.cd22
def Img.det {α} (w : Img α) : Rat := Gen.Parity.det 1 1 w.cd11 w.cd12 w.cd21 w.cd22

/-- `Image.flip_parity` (`ImageDescription.flip_parity` is the same without rows) -/
def Img.flip {α} (w : Img α) : Img α :=
  { cd11 := flip_cd1_1 1 1 w.cd11 w.cd12 w.cd21 w.cd22 w.crpix1 w.crpix2 ((w.rows.length : Nat) : Rat)
    cd12 := flip_cd1_2 1 1 w.cd11 w.cd12 w.cd21 w.cd22 w.crpix1 w.crpix2 ((w.rows.length : Nat) : Rat)
    cd21 := flip_cd2_1 1 1 w.cd11 w.cd12 w.cd21 w.cd22 w.crpix1 w.crpix2 ((w.rows.length : Nat) : Rat)
    cd22 := flip_cd2_2 1 1 w.cd11 w.cd12 w.cd21 w.cd22 w.crpix1 w.crpix2 ((w.rows.length : Nat) : Rat)
    crpix1 := flip_crpix1 1 1 w.cd11 w.cd12 w.cd21 w.cd22 w.crpix1 w.crpix2 ((w.rows.length : Nat) : Rat)
    crpix2 := flip_crpix2 1 1 w.cd11 w.cd12 w.cd21 w.cd22 w.crpix1 w.crpix2 ((w.rows.length : Nat) : Rat)
    rows := w.rows.reverse }

def Img.ensureNegative {α} (w : Img α) : Img α := if w.sign = 1 then w.flip else w

theorem extraction_facts : image_flip_uses_height = true ∧ imagedescription_flip_uses_height = true ∧
    image_flip_reverses_rows = true ∧ image_flip_forgets_pil = true ∧ image_ensure_flips_iff_positive = true ∧
    imagedescription_ensure_flips_iff_positive = true := by decide

/-- **flip_rows**: the row that was at index `y` is at index `height-1-y` afterwards -/
theorem flip_rows {α} (w : Img α) (y : Nat) (hy : y < w.rows.length) :
    w.flip.rows[w.rows.length - 1 - y]? = w.rows[y]? := by
  simp only [Img.flip]
  rw [List.getElem?_reverse (by omega)]
  congr 1
  omega

/-- **flip moves no pixel on the sky**: the pixel value found at row `y` before is found at row
`height-1-y` after, and that position has the same world coordinates. -/
theorem flip_moves_no_pixel {α} (w : Img α) (x : Rat) (y : Nat) (hy : y < w.rows.length) :
    w.flip.rows[w.rows.length - 1 - y]? = w.rows[y]? ∧
    world w.flip.cd11 w.flip.cd12 w.flip.cd21 w.flip.cd22 w.flip.crpix1 w.flip.crpix2 x
        (((w.rows.length : Nat) : Rat) - 1 - (y : Nat))
      = world w.cd11 w.cd12 w.cd21 w.cd22 w.crpix1 w.crpix2 x (y : Nat) := by
  refine ⟨flip_rows w y hy, ?_⟩
  have := flip_world 1 1 w.cd11 w.cd12 w.cd21 w.cd22 w.crpix1 w.crpix2 ((w.rows.length : Nat) : Rat) x (y : Nat)
  simp only [Img.flip]
  rw [this]
  simp only [Rat.one_mul]

theorem flip_sign_img {α} (w : Img α) (h : w.det ≠ 0) : w.flip.sign = - w.sign := by
  exact flip_sign 1 1 w.cd11 w.cd12 w.cd21 w.cd22 w.crpix1 w.crpix2 ((w.rows.length : Nat) : Rat) h

/-- **ensure_negative**: always yields parity −1 (non-singular WCS) -/
theorem ensure_negative {α} (w : Img α) (h : w.det ≠ 0) : w.ensureNegative.sign = -1 := by
  unfold Img.ensureNegative
  have hs := (sign_spec 1 1 w.cd11 w.cd12 w.cd21 w.cd22).2
  by_cases h1 : w.sign = 1
  · rw [if_pos h1, flip_sign_img w h, h1]
  · rw [if_neg h1]
    unfold Img.sign at *
    rcases hs with hs | hs
    · exact absurd hs h1
    · exact hs

/-- **ensure_idempotent** -/
theorem ensure_idempotent {α} (w : Img α) (h : w.det ≠ 0) :
    w.ensureNegative.ensureNegative = w.ensureNegative := by
  have hneg := ensure_negative w h
  generalize w.ensureNegative = v at *
  unfold Img.ensureNegative
  rw [if_neg (by rw [hneg]; decide)]

/-! non-vacuity: a rotated, skewed positive-parity image of three rows -/
example : (⟨1/2, 1/4, -1/8, 1, 3/2, -7, ["r0", "r1", "r2"]⟩ : Img String).sign = -1
    ∧ (⟨1/2, 1/4, 1/8, -1, 3/2, -7, ["r0", "r1", "r2"]⟩ : Img String).sign = 1
    ∧ (⟨1/2, 1/4, 1/8, -1, 3/2, -7, ["r0", "r1", "r2"]⟩ : Img String).flip.rows = ["r2", "r1", "r0"]
    ∧ (⟨1/2, 1/4, 1/8, -1, 3/2, -7, ["r0", "r1", "r2"]⟩ : Img String).flip.crpix2 = 11 := by
  decide +kernel

end C16
