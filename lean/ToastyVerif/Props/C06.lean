/-
C06 — TOAST sampling writes the sampler's values at each tile's own pixel centres.

For an arbitrary sampler, arbitrary coordinates, every pixel mode, every set of visited tiles and
every order in which the callbacks run.
-/
import ToastyVerif.Model.Sample
import ToastyVerif.Props.C03
import ToastyVerif.Gen.Plumbing

namespace C06
open Sample PixelBase Pixels

/-! ### Extracted shape and the format/parity decision -/

theorem shape : Gen.Sampling.callback_shape_ok = true ∧ Gen.Sampling.layer_functions_shape_ok = true := ⟨rfl, rfl⟩

/-- FITS is the bottom-up format; the others are top-down -/
theorem bottomUp_table : bottomUp "fits".toList = true ∧ bottomUp "png".toList = false ∧ bottomUp "npy".toList = false ∧
    bottomUp "jpg".toList = false := by decide

/-- **The rows are reversed exactly when the format the tiles are written in is bottom-up** — whether
that format is the pyramid's default or the `format` override. -/
theorem invert_matches_written_format (dflt : List Char) (override : Option (List Char)) :
    invert dflt override = bottomUp (writtenFormat dflt override) := by
  simp [invert, Gen.Sampling.invert_follows_written_format]

/-! ### One callback -/

variable {C : Type} (j : Job C)

theorem revRows_revRows (img : Img) (r c : Nat) : revRows (revRows img) r c = img r c := by
  unfold revRows
  by_cases h : r < 256
  · have h2 : 255 - r < 256 := by omega
    have h3 : 255 - (255 - r) = r := by omega
    simp [h, h2, h3]
  · simp [h]

/-- **Pixel (i, j), in display orientation, is the sampler's value at the coordinates of pixel (i, j)
of that same tile**; in a bottom-up format the stored row `r` is display row `255 − r`. -/
theorem display_oriented (p : Pos) (r c : Nat) :
    display j (oriented j p) r c = j.sampler (j.coords p r c) ∧
    (r < 256 → oriented j p r c = j.sampler (j.coords p (if j.invert then 255 - r else r) c)) := by
  unfold display oriented
  cases hinv : j.invert
  · simp [sampled]
  · simp only [if_true]
    refine ⟨?_, ?_⟩
    · rw [revRows_revRows]; rfl
    · intro h; simp [revRows, h, sampled]

theorem callback_other (st : Store) (p q : Pos) (h : q ≠ p) : callback j st p q = st q := by
  simp [callback, h]

theorem callback_self (st : Store) (p : Pos) : callback j st p p = newFile j (st p) p := by
  simp [callback]

/-- callbacks for different tiles touch different files, so they commute -/
theorem callback_comm (st : Store) (p q : Pos) :
    callback j (callback j st p) q = callback j (callback j st q) p := by
  by_cases hpq : p = q
  · subst hpq; rfl
  · funext x
    have hqp : q ≠ p := fun h => hpq h.symm
    by_cases hx : x = p
    · subst hx
      simp [callback, hpq, hqp]
    · by_cases hy : x = q
      · subst hy
        simp [callback, hpq, hqp]
      · simp [callback, hx, hy]

/-! ### Any order of the visits gives the same pyramid -/

theorem run_perm (st : Store) (l1 l2 : List Pos) (h : l1.Perm l2) : run j st l1 = run j st l2 := by
  unfold run
  induction h generalizing st with
  | nil => rfl
  | cons x _ ih => simp only [List.foldl_cons]; exact ih _
  | swap x y l => simp only [List.foldl_cons]; rw [callback_comm]
  | trans _ _ ih1 ih2 => rw [ih1, ih2]

theorem run_not_mem (st : Store) (l : List Pos) (q : Pos) (h : q ∉ l) : run j st l q = st q := by
  unfold run
  induction l generalizing st with
  | nil => rfl
  | cons p l ih =>
    simp only [List.foldl_cons]
    rw [ih _ (fun hm => h (List.mem_cons_of_mem _ hm))]
    exact callback_other j st p q (fun e => h (by simp [e]))

/-- **What ends up on disk.**  After the callbacks have run for a duplicate-free list of tiles, in any
order: a tile that was visited holds `newFile` of what it held before — in clobbering mode the
sampled image (no file if it is completely masked), in updating mode the sampled image merged into
the previous content — and a tile that was not visited is untouched. -/
theorem run_result (st : Store) (l : List Pos) (hnd : l.Nodup) (q : Pos) :
    run j st l q = if q ∈ l then newFile j (st q) q else st q := by
  induction l generalizing st with
  | nil => simp [run]
  | cons p l ih =>
    have hp : p ∉ l := (List.nodup_cons.1 hnd).1
    have hl : l.Nodup := (List.nodup_cons.1 hnd).2
    have e : run j st (p :: l) = run j (callback j st p) l := rfl
    rw [e, ih _ hl]
    by_cases hq : q = p
    · subst hq
      simp [hp, callback_self]
    · simp [hq, callback_other j st p q hq]

/-- clobbering mode, as used by `sample_layer`: the file of a visited tile is the sampled image in
stored orientation, whatever was there before -/
theorem clobber_result (hc : j.clobber = true) (st : Store) (l : List Pos) (hnd : l.Nodup) (q : Pos) (hq : q ∈ l) :
    run j st l q = writeImage j.m (st q) (oriented j q) := by
  rw [run_result j st l hnd q, if_pos hq]
  simp [newFile, hc]

/-- updating mode, as used by `sample_layer_filtered`: a pixel of the stored tile is the C15 merge of
the previous pixel (cleared if there was no file) with the sampled pixel -/
theorem update_result (hc : j.clobber = false) (st : Store) (l : List Pos) (hnd : l.Nodup) (q : Pos) (hq : q ∈ l)
    (img : Img) (himg : run j st l q = some img) (r c : Nat) (hr : r < 256) (hcl : c < 256) :
    img r c = j.m.updatePx (((st q).getD (clear j.m)) r c) (oriented j q r c) := by
  rw [run_result j st l hnd q, if_pos hq] at himg
  have hfresh : Gen.PIO.read_missing_masked_fresh = true := rfl
  simp only [newFile, hc, Bool.false_eq_true, if_false] at himg
  have hb : readImage j.m (st q) .masked = some ((st q).getD (clear j.m)) := by
    cases h : st q <;> simp [readImage, hfresh]
  rw [hb] at himg
  simp only [writeImage] at himg
  split at himg
  · cases himg
  · cases himg
    simp [update, fullRect, Rect.src, sliceFwd, hr, hcl]

/-! ### The number of worker processes does not matter -/

/-- **Parallel = serial.**  In every reachable state of the hand-off protocol of `visit_leaves` (C03: any
number of workers, any queue capacity, any interleaving) in which the producer has returned, the
tiles' callbacks have run in an order that is a permutation of the leaves; hence the pyramid on disk
is the one the serial visit produces. -/
theorem parallel_equals_serial (leaves : List Pos) (st : Store) (n cap : Nat) (hn : 0 < n) (s : Stage.S)
    (hr : Stage.Reachable n cap true (List.range leaves.length) s) (hret : s.pc = .returned) :
    run j st ((s.processed.map Prod.fst).map (fun i => leaves.getD i Pos.root)) = run j st leaves := by
  have hperm := (C03.stage_no_loss n cap (List.range leaves.length) hn s hr hret).1
  apply run_perm
  have h2 := hperm.map (fun i => leaves.getD i Pos.root)
  refine h2.trans ?_
  have : (List.range leaves.length).map (fun i => leaves.getD i Pos.root) = leaves := by
    apply List.ext_getElem
    · simp
    · intro i h1 h2; simp at h1; simp [h1]
  rw [this]

/-! ### non-vacuity -/

/-- a FITS override on a PNG pyramid reverses the rows; a PNG pyramid without override does not -/
example : invert "png".toList (some "fits".toList) = true ∧ invert "png".toList none = false ∧
    invert "fits".toList (some "npy".toList) = false := by decide

/-- **entry_points**: the call sites through which this property's workflows reach the modelled functions have, in the source as
it is now, the argument plumbing the model assumes (facts re-extracted on every run, `Gen/Plumbing.lean`) -/
theorem entry_points : Gen.Plumbing.builder_toast_base_forwards_coordsys = true ∧ Gen.Plumbing.sample_layer_forwards_coordsys = true ∧ Gen.Plumbing.sample_layer_filtered_forwards_coordsys = true ∧ Gen.Plumbing.cli_allsky_projection_table = true := by decide

end C06
