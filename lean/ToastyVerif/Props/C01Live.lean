/-
C01, liveness half — the parallel walk can always finish.

Same shape as `Props/C03Live.lean`: a second family of invariants (worker / lock / flag bookkeeping,
phase–worker consistency, the done queue's semaphore count, seeding, masks) and a lexicographic measure
(phase ranks of the operations, the dispatcher's counter, worker distances) such that every reachable state
in which the dispatcher has not returned has an enabled transition that decreases the measure.  Hence from
every reachable state some continuation ends with `walk` returned — where, by `C01.par_walk_terminal`,
every worker has exited and the callback has run exactly once for every operation.
-/
import ToastyVerif.Props.C01
import ToastyVerif.Props.C03Live

namespace C01Live
open Walk C01

/-! ### workers, lock, flag -/

structure LW (s : S) : Prop where
  idxS : ∀ j, s.pc = .starting j → j < s.n
  idxJ : ∀ j, s.pc = .joining j → j < s.n
  ns : ∀ k, k < s.n → (s.ws k = .notStarted ↔ ((∃ r, s.pc = .seeding r) ∨ ∃ j, s.pc = .starting j ∧ j ≤ k))
  lockIff : ∀ k, s.rlock = some k ↔ (k < s.n ∧ s.ws k = .locked)
  flagIff : s.flag = true ↔ ((∃ j, s.pc = .joining j) ∨ s.pc = .returned)
  noExit : s.flag = false → ∀ k, s.ws k ≠ .exited
  npos : 0 < s.n

theorem lw_init (n cap : Nat) (apex : Pos) (seeds : List Pos) (pre : Pos → Nat) (hn : 0 < n) :
    LW (init n cap apex seeds pre) := by
  refine ⟨?_, ?_, ?_, ?_, ?_, ?_, hn⟩
  · intro j h; simp only [init] at h ⊢; by_cases hs : seeds = [] <;> simp [hs] at h; omega
  · intro j h; simp only [init] at h; by_cases hs : seeds = [] <;> simp [hs] at h
  · intro k _
    simp only [init, true_iff]
    by_cases hs : seeds = []
    · right; exact ⟨0, by simp [hs], Nat.zero_le _⟩
    · left; exact ⟨seeds, by simp [hs]⟩
  · intro k; simp [init]
  · simp only [init]; by_cases hs : seeds = [] <;> simp [hs]
  · intro _ k; simp [init]

/-- nothing the workers or the dispatcher's counter depend on changes -/
theorem lw_same (s s' : S) (h : LW s) (hn : s'.n = s.n) (hpc : s'.pc = s.pc) (hws : s'.ws = s.ws) (hl : s'.rlock = s.rlock)
    (hf : s'.flag = s.flag) : LW s' := by
  refine ⟨?_, ?_, ?_, ?_, ?_, ?_, by rw [hn]; exact h.npos⟩
  · intro j hj; rw [hpc] at hj; rw [hn]; exact h.idxS j hj
  · intro j hj; rw [hpc] at hj; rw [hn]; exact h.idxJ j hj
  · intro k hk; rw [hn] at hk; rw [hws, hpc]; exact h.ns k hk
  · intro k; rw [hl, hn, hws]; exact h.lockIff k
  · rw [hf, hpc]; exact h.flagIff
  · intro hf' k; rw [hws]; rw [hf] at hf'; exact h.noExit hf' k

/-- the dispatcher's counter moves between two values that are neither start-up nor shut-down values; workers untouched -/
theorem lw_pc_mid (s s' : S) (h : LW s) (hn : s'.n = s.n) (hws : s'.ws = s.ws) (hl : s'.rlock = s.rlock) (hf : s'.flag = s.flag)
    (hold : (∀ r, s.pc ≠ .seeding r) ∧ (∀ j, s.pc ≠ .starting j) ∧ (∀ j, s.pc ≠ .joining j) ∧ s.pc ≠ .returned)
    (hnew : (∀ r, s'.pc ≠ .seeding r) ∧ (∀ j, s'.pc ≠ .starting j) ∧ (∀ j, s'.pc ≠ .joining j) ∧ s'.pc ≠ .returned) : LW s' := by
  refine ⟨?_, ?_, ?_, ?_, ?_, ?_, by rw [hn]; exact h.npos⟩
  · intro j hj; exact absurd hj (hnew.2.1 j)
  · intro j hj; exact absurd hj (hnew.2.2.1 j)
  · intro k hk
    rw [hn] at hk; rw [hws, h.ns k hk]
    constructor
    · rintro (⟨r, hr⟩ | ⟨j, hj, _⟩)
      · exact absurd hr (hold.1 r)
      · exact absurd hj (hold.2.1 j)
    · rintro (⟨r, hr⟩ | ⟨j, hj, _⟩)
      · exact absurd hr (hnew.1 r)
      · exact absurd hj (hnew.2.1 j)
  · intro k; rw [hl, hn, hws]; exact h.lockIff k
  · rw [hf, h.flagIff]
    constructor
    · rintro (⟨j, hj⟩ | hr)
      · exact absurd hj (hold.2.2.1 j)
      · exact absurd hr hold.2.2.2
    · rintro (⟨j, hj⟩ | hr)
      · exact absurd hj (hnew.2.2.1 j)
      · exact absurd hr hnew.2.2.2
  · intro hf' k; rw [hws]; rw [hf] at hf'; exact h.noExit hf' k

/-- worker `k` moves between two states that are none of notStarted / locked / exited; everything else unchanged -/
theorem lw_worker (s s' : S) (k : Nat) (w : W) (h : LW s) (hn : s'.n = s.n) (hpc : s'.pc = s.pc) (hws : s'.ws = (setW s k w).ws)
    (hl : s'.rlock = s.rlock) (hf : s'.flag = s.flag)
    (h0 : s.ws k ≠ .notStarted ∧ s.ws k ≠ .locked) (h1 : w ≠ .notStarted ∧ w ≠ .locked ∧ (w = .exited → s.flag = true)) : LW s' := by
  refine ⟨?_, ?_, ?_, ?_, ?_, ?_, by rw [hn]; exact h.npos⟩
  · intro j hj; rw [hpc] at hj; rw [hn]; exact h.idxS j hj
  · intro j hj; rw [hpc] at hj; rw [hn]; exact h.idxJ j hj
  · intro j hj
    rw [hn] at hj; rw [hws, hpc, ← h.ns j hj]
    simp only [setW]
    by_cases e : j = k
    · subst e; simp [h0.1, h1.1]
    · simp [e]
  · intro j
    rw [hl, hn, hws, h.lockIff j]
    simp only [setW]
    by_cases e : j = k
    · subst e; simp [h0.2, h1.2.1]
    · simp [e]
  · rw [hf, hpc]; exact h.flagIff
  · intro hf' j
    rw [hws]; rw [hf] at hf'
    simp only [setW]
    by_cases e : j = k
    · subst e
      simp only [if_true]
      intro hw
      have := h1.2.2 hw
      rw [hf'] at this; cases this
    · simp only [e, if_false]; exact h.noExit hf' j

theorem mid_of_eq (pc : PC) (h : pc = .idle ∨ pc = .dlocked ∨ (∃ q, pc = .releasing q) ∨ pc = .closing ∨ pc = .closed ∨ pc = .joined) :
    (∀ r, pc ≠ .seeding r) ∧ (∀ j, pc ≠ .starting j) ∧ (∀ j, pc ≠ .joining j) ∧ pc ≠ .returned := by
  rcases h with h | h | ⟨q, h⟩ | h | h | h <;> subst h <;> simp

theorem lw_step (s s' : S) (l : L) (h : LW s) (hs : step s l = some s') : LW s' := by
  have hn0 := h.npos
  cases l with
  | seed p =>
    simp only [step] at hs
    split at hs
    · rename_i q rest hpc
      split at hs
      · cases hs
        refine ⟨?_, ?_, ?_, ?_, ?_, ?_, hn0⟩
        · intro j hj
          simp only [setPh] at hj ⊢
          split at hj
          · cases hj; exact hn0
          · cases hj
        · intro j hj
          simp only [setPh] at hj
          split at hj <;> cases hj
        · intro k hk
          simp only [setPh] at hk ⊢
          rw [h.ns k hk]
          constructor
          · intro _
            by_cases hr : rest = []
            · right; exact ⟨0, by simp [hr], Nat.zero_le _⟩
            · left; exact ⟨rest, by simp [hr]⟩
          · intro _; left; exact ⟨_, hpc⟩
        · intro k; exact h.lockIff k
        · simp only [setPh]
          rw [h.flagIff, hpc]
          constructor
          · rintro (⟨j, hj⟩ | hj) <;> cases hj
          · rintro (⟨j, hj⟩ | hj)
            · split at hj <;> cases hj
            · split at hj <;> cases hj
        · intro hf k; exact h.noExit hf k
      · cases hs
    · cases hs
  | start k =>
    simp only [step] at hs
    split at hs
    · rename_i hc
      obtain ⟨hpc, hk, hw⟩ := hc
      cases hs
      refine ⟨?_, ?_, ?_, ?_, ?_, ?_, hn0⟩
      · intro j hj
        simp only [setW] at hj ⊢
        split at hj
        · cases hj
        · cases hj; omega
      · intro j hj
        simp only [setW] at hj
        split at hj <;> cases hj
      · intro j hj
        simp only [setW] at hj ⊢
        by_cases e : j = k
        · subst e
          simp only [if_true]
          constructor
          · intro hx; cases hx
          · rintro (⟨r, hr⟩ | ⟨i, hi, hle⟩)
            · split at hr <;> cases hr
            · split at hi
              · cases hi
              · cases hi; omega
        · simp only [e, if_false]
          rw [h.ns j hj, hpc]
          constructor
          · rintro (⟨r, hr⟩ | ⟨i, hi, hle⟩)
            · cases hr
            · cases hi
              have : k + 1 ≤ j := by omega
              right
              split
              · omega
              · exact ⟨k + 1, rfl, this⟩
          · rintro (⟨r, hr⟩ | ⟨i, hi, hle⟩)
            · split at hr <;> cases hr
            · split at hi
              · cases hi
              · cases hi; right; exact ⟨k, rfl, by omega⟩
      · intro j
        simp only [setW]
        rw [h.lockIff j]
        by_cases e : j = k
        · subst e; simp [hw]
        · simp [e]
      · simp only [setW]
        rw [h.flagIff, hpc]
        constructor
        · rintro (⟨j, hj⟩ | hj) <;> cases hj
        · rintro (⟨j, hj⟩ | hj)
          · split at hj <;> cases hj
          · split at hj <;> cases hj
      · intro hf j
        simp only [setW]
        by_cases e : j = k
        · subst e; simp
        · simp only [e, if_false]; exact h.noExit hf j
    · cases hs
  | begin k =>
    simp only [step] at hs
    split at hs
    · rename_i hc
      cases hs
      exact lw_worker s _ k .top h rfl rfl rfl rfl rfl (by rw [hc.2]; simp) (by simp)
    · cases hs
  | rflush p =>
    simp only [step] at hs
    split at hs
    · cases hs; exact lw_same s _ h rfl rfl rfl rfl rfl
    · cases hs
  | dflush k p =>
    simp only [step] at hs
    split at hs
    · cases hs; exact lw_same s _ h rfl rfl rfl rfl rfl
    · cases hs
  | dlock =>
    simp only [step] at hs
    split at hs
    · rename_i hc
      cases hs
      exact lw_pc_mid s _ h rfl rfl rfl rfl (mid_of_eq _ (Or.inl hc)) (mid_of_eq _ (Or.inr (Or.inl rfl)))
    · cases hs
  | dempty =>
    simp only [step] at hs
    split at hs
    · rename_i hc
      cases hs
      exact lw_pc_mid s _ h rfl rfl rfl rfl (mid_of_eq _ (Or.inr (Or.inl hc))) (mid_of_eq _ (Or.inl rfl))
    · cases hs
  | drecv p =>
    simp only [step] at hs
    split at hs
    · rename_i hc
      have hold := mid_of_eq _ (Or.inr (Or.inl hc.1))
      split at hs
      · cases hs
        exact lw_pc_mid s _ h rfl rfl rfl rfl hold (mid_of_eq _ (Or.inr (Or.inr (Or.inr (Or.inl rfl)))))
      · simp only [bump] at hs
        by_cases hrel : Gen.walk_release (Gen.walk_flags_update (s.mask p.parent) (Gen.walk_bit_num (p.x % 2) (p.y % 2))) = true
        · simp only [hrel, if_true, Option.some.injEq] at hs; subst hs
          exact lw_pc_mid s _ h rfl rfl rfl rfl hold (mid_of_eq _ (Or.inr (Or.inr (Or.inl ⟨_, rfl⟩))))
        · simp only [hrel, Bool.false_eq_true, if_false, Option.some.injEq] at hs; subst hs
          exact lw_pc_mid s _ h rfl rfl rfl rfl hold (mid_of_eq _ (Or.inl rfl))
    · cases hs
  | release p =>
    simp only [step] at hs
    split at hs
    · rename_i hc
      cases hs
      exact lw_pc_mid s _ h rfl rfl rfl rfl (mid_of_eq _ (Or.inr (Or.inr (Or.inl ⟨_, hc.1⟩)))) (mid_of_eq _ (Or.inl rfl))
    · cases hs
  | close =>
    simp only [step] at hs
    split at hs
    · rename_i hc
      cases hs
      exact lw_pc_mid s _ h rfl rfl rfl rfl (mid_of_eq _ (Or.inr (Or.inr (Or.inr (Or.inl hc))))) (mid_of_eq _ (Or.inr (Or.inr (Or.inr (Or.inr (Or.inl rfl))))))
    · cases hs
  | joinThread =>
    simp only [step] at hs
    split at hs
    · rename_i hc
      cases hs
      exact lw_pc_mid s _ h rfl rfl rfl rfl (mid_of_eq _ (Or.inr (Or.inr (Or.inr (Or.inr (Or.inl hc)))))) (mid_of_eq _ (Or.inr (Or.inr (Or.inr (Or.inr (Or.inr rfl))))))
    · cases hs
  | setFlag =>
    simp only [step] at hs
    split at hs
    · rename_i hc
      cases hs
      refine ⟨?_, ?_, ?_, ?_, ?_, ?_, hn0⟩
      · intro j hj; cases hj
      · intro j hj; cases hj; exact hn0
      · intro k hk
        rw [h.ns k hk, hc]
        constructor
        · rintro (⟨r, hr⟩ | ⟨j, hj, _⟩)
          · cases hr
          · cases hj
        · rintro (⟨r, hr⟩ | ⟨j, hj, _⟩)
          · cases hr
          · cases hj
      · intro k; exact h.lockIff k
      · simp
      · intro hf; cases hf
    · cases hs
  | join k =>
    simp only [step] at hs
    split at hs
    · rename_i hc
      obtain ⟨hpc, hk, hw⟩ := hc
      have hf : s.flag = true := h.flagIff.2 (Or.inl ⟨k, hpc⟩)
      cases hs
      refine ⟨?_, ?_, ?_, ?_, ?_, ?_, hn0⟩
      · intro j hj
        simp only at hj
        split at hj <;> cases hj
      · intro j hj
        simp only at hj
        split at hj
        · cases hj
        · cases hj; show k + 1 < s.n; omega
      · intro j hj
        rw [h.ns j hj, hpc]
        constructor
        · rintro (⟨r, hr⟩ | ⟨i, hi, _⟩)
          · cases hr
          · cases hi
        · rintro (⟨r, hr⟩ | ⟨i, hi, _⟩)
          · simp only at hr; split at hr <;> cases hr
          · simp only at hi; split at hi <;> cases hi
      · intro j; exact h.lockIff j
      · show s.flag = true ↔ _
        rw [hf]
        simp only [true_iff]
        by_cases e : k + 1 = s.n
        · right; simp [e]
        · left; exact ⟨k + 1, by simp [e]⟩
      · intro hf'; rw [hf] at hf'; cases hf'
    · cases hs
  | rlock k =>
    simp only [step] at hs
    split at hs
    · rename_i hc
      obtain ⟨hk, hl, hw⟩ := hc
      cases hs
      refine ⟨h.idxS, h.idxJ, ?_, ?_, h.flagIff, ?_, hn0⟩
      · intro j hj
        simp only [setW]
        rw [← h.ns j hj]
        by_cases e : j = k
        · subst e; simp [hw]
        · simp [e]
      · intro j
        simp only [setW]
        by_cases e : j = k
        · subst e; simp [hk]
        · simp only [e, if_false]
          have := h.lockIff j
          rw [hl] at this
          constructor
          · intro hx; cases hx; exact absurd rfl e
          · intro hx; exact absurd (this.2 hx) (by simp)
      · intro hf j
        simp only [setW]
        by_cases e : j = k
        · subst e; simp
        · simp only [e, if_false]; exact h.noExit hf j
    · cases hs
  | rlockTimeout k =>
    simp only [step] at hs
    split at hs
    · rename_i hc
      cases hs
      exact lw_worker s _ k .afterEmpty h rfl rfl rfl rfl rfl (by rw [hc.2.2]; simp) (by simp)
    · cases hs
  | rempty k =>
    simp only [step] at hs
    split at hs
    · rename_i hc
      obtain ⟨hk, hl, hw⟩ := hc
      cases hs
      refine ⟨h.idxS, h.idxJ, ?_, ?_, h.flagIff, ?_, hn0⟩
      · intro j hj
        simp only [setW]
        rw [← h.ns j hj]
        by_cases e : j = k
        · subst e; simp [hw]
        · simp [e]
      · intro j
        simp only [setW]
        by_cases e : j = k
        · subst e; simp
        · simp only [e, if_false]
          have := h.lockIff j
          rw [hl] at this
          constructor
          · intro hx; cases hx
          · intro hx
            have := this.2 hx
            cases this; exact absurd rfl e
      · intro hf j
        simp only [setW]
        by_cases e : j = k
        · subst e; simp
        · simp only [e, if_false]; exact h.noExit hf j
    · cases hs
  | rrecv k p =>
    simp only [step] at hs
    split at hs
    · rename_i hc
      obtain ⟨hk, hl, hw, _⟩ := hc
      cases hs
      refine ⟨h.idxS, h.idxJ, ?_, ?_, h.flagIff, ?_, hn0⟩
      · intro j hj
        simp only [setPh, setW]
        rw [← h.ns j hj]
        by_cases e : j = k
        · subst e; simp [hw]
        · simp [e]
      · intro j
        simp only [setPh, setW]
        by_cases e : j = k
        · subst e; simp
        · simp only [e, if_false]
          have := h.lockIff j
          rw [hl] at this
          constructor
          · intro hx; cases hx
          · intro hx
            have := this.2 hx
            cases this; exact absurd rfl e
      · intro hf j
        simp only [setPh, setW]
        by_cases e : j = k
        · subst e; simp
        · simp only [e, if_false]; exact h.noExit hf j
    · cases hs
  | flagQ k b =>
    simp only [step] at hs
    split at hs
    · rename_i hc
      obtain ⟨hk, hb, hw⟩ := hc
      cases hs
      exact lw_worker s _ k _ h rfl rfl rfl rfl rfl (by rw [hw]; simp)
        (by cases b <;> simp [← hb])
    · cases hs
  | cbBegin k p =>
    simp only [step] at hs
    split at hs
    · cases hs; exact lw_same s _ h rfl rfl rfl rfl rfl
    · cases hs
  | cbEnd k p =>
    simp only [step] at hs
    split at hs
    · cases hs; exact lw_same s _ h rfl rfl rfl rfl rfl
    · cases hs
  | dput k p =>
    simp only [step] at hs
    split at hs
    · rename_i hc
      cases hs
      exact lw_worker s _ k .top h rfl rfl rfl rfl rfl (by rw [hc.2.2.1]; simp) (by simp)
    · cases hs

/-! ### sums over the operations -/

def sumP (ops : List Pos) (s : S) (g : Phase → Nat) : Nat := (ops.map (fun p => g (s.ph p))).sum

theorem sumP_congr (ops : List Pos) (s s' : S) (g : Phase → Nat) (h : ∀ q ∈ ops, g (s'.ph q) = g (s.ph q)) :
    sumP ops s' g = sumP ops s g := by
  unfold sumP
  congr 1
  exact List.map_congr_left h

/-- one position changes phase: the sum changes by the difference of the weights -/
theorem sum_update (ph : Pos → Phase) (g : Phase → Nat) (p : Pos) (f : Phase) : ∀ (ops : List Pos), ops.Nodup → p ∈ ops →
    (ops.map (fun q => g (if q = p then f else ph q))).sum + g (ph p) = (ops.map (fun q => g (ph q))).sum + g f := by
  intro ops
  induction ops with
  | nil => intro _ h; cases h
  | cons a as ih =>
    intro hnd hp
    rw [List.nodup_cons] at hnd
    simp only [List.map_cons, List.sum_cons]
    by_cases e : a = p
    · subst e
      have hsame : as.map (fun q => g (if q = a then f else ph q)) = as.map (fun q => g (ph q)) := by
        apply List.map_congr_left
        intro q hq
        have : q ≠ a := by intro e; subst e; exact hnd.1 hq
        simp [this]
      rw [hsame]; simp; omega
    · have hp' : p ∈ as := by
        rcases List.mem_cons.1 hp with h | h
        · exact absurd h.symm e
        · exact h
      have := ih hnd.2 hp'
      simp only [e, if_false]
      omega

theorem sumP_setPh (ops : List Pos) (s s' : S) (g : Phase → Nat) (p : Pos) (f : Phase) (hnd : ops.Nodup) (hp : p ∈ ops)
    (hph : s'.ph = fun q => if q = p then f else s.ph q) :
    sumP ops s' g + g (s.ph p) = sumP ops s g + g f := by
  unfold sumP; rw [hph]
  exact sum_update s.ph g p f ops hnd hp

/-- weight of an operation in the measure: distance of its phase from `retired` -/
def phW (f : Phase) : Nat := 8 - f.rank

/-- 1 for the phases counted by the done queue's semaphore -/
def isD : Phase → Nat
  | .dbuf _ => 1 | .dpipe => 1 | _ => 0

/-- the worker, if any, that holds the position -/
def heldBy : Phase → Option Nat
  | .have k => some k | .running k => some k | .ran k => some k | _ => none

/-! ### field effects of the two branching transitions -/

theorem drecv_effect (s s' : S) (p : Pos) (hs : step s (.drecv p) = some s') :
    s.pc = .dlocked ∧ s.ph p = .dpipe ∧ s'.ph = (fun q => if q = p then Phase.retired else s.ph q) ∧ s'.dout = s.dout - 1 ∧
    s'.ws = s.ws ∧ s'.n = s.n ∧ s'.rlock = s.rlock ∧ s'.flag = s.flag ∧ s'.apex = s.apex ∧ s'.cap = s.cap ∧
    ((p = s.apex ∧ s'.pc = .closing ∧ s'.mask = s.mask) ∨
     (p ≠ s.apex ∧
      s'.mask = (fun q => if q = p.parent then Gen.walk_flags_update (s.mask p.parent) (Gen.walk_bit_num (p.x % 2) (p.y % 2)) else s.mask q) ∧
      ((Gen.walk_release (Gen.walk_flags_update (s.mask p.parent) (Gen.walk_bit_num (p.x % 2) (p.y % 2))) = true ∧ s'.pc = .releasing p.parent) ∨
       (Gen.walk_release (Gen.walk_flags_update (s.mask p.parent) (Gen.walk_bit_num (p.x % 2) (p.y % 2))) = false ∧ s'.pc = .idle)))) := by
  simp only [step] at hs
  split at hs
  · rename_i hg
    split at hs
    · rename_i hgap
      cases hs
      exact ⟨hg.1, hg.2, rfl, rfl, rfl, rfl, rfl, rfl, rfl, rfl, Or.inl ⟨hgap.2, rfl, rfl⟩⟩
    · rename_i hgap
      have hne : p ≠ s.apex := by
        intro e; exact hgap ⟨stop_on_apex.1, e⟩
      simp only [bump] at hs
      by_cases hrel : Gen.walk_release (Gen.walk_flags_update (s.mask p.parent) (Gen.walk_bit_num (p.x % 2) (p.y % 2))) = true
      · simp only [hrel, if_true, Option.some.injEq] at hs; subst hs
        exact ⟨hg.1, hg.2, rfl, rfl, rfl, rfl, rfl, rfl, rfl, rfl, Or.inr ⟨hne, rfl, Or.inl ⟨hrel, rfl⟩⟩⟩
      · simp only [hrel, Bool.false_eq_true, if_false, Option.some.injEq] at hs; subst hs
        exact ⟨hg.1, hg.2, rfl, rfl, rfl, rfl, rfl, rfl, rfl, rfl, Or.inr ⟨hne, rfl, Or.inr ⟨by simpa using hrel, rfl⟩⟩⟩
  · cases hs

theorem seed_effect (s s' : S) (p : Pos) (hs : step s (.seed p) = some s') :
    ∃ rest, s.pc = .seeding (p :: rest) ∧ s.ph p = .waiting ∧ s'.ph = (fun q => if q = p then Phase.rbuf else s.ph q) ∧
    s'.pc = (if rest = [] then PC.starting 0 else PC.seeding rest) ∧ s'.dout = s.dout ∧ s'.mask = s.mask ∧
    s'.ws = s.ws ∧ s'.n = s.n ∧ s'.rlock = s.rlock ∧ s'.flag = s.flag ∧ s'.apex = s.apex ∧ s'.cap = s.cap := by
  simp only [step] at hs
  split at hs
  · rename_i q rest hpc
    split at hs
    · rename_i hg
      obtain ⟨hpq, hw⟩ := hg
      cases hs
      subst hpq
      exact ⟨rest, hpc, hw, rfl, rfl, rfl, rfl, rfl, rfl, rfl, rfl, rfl, rfl⟩
    · cases hs
  all_goals cases hs

/-! ### the done queue's semaphore counts the reported, not yet received tiles -/

def LC (ops : List Pos) (s : S) : Prop := s.dout = sumP ops s isD

theorem lc_keep (ops : List Pos) (s s' : S) (h : LC ops s) (hd : s'.dout = s.dout)
    (hD : ∀ q, isD (s'.ph q) = isD (s.ph q)) : LC ops s' := by
  unfold LC at *
  rw [hd, h]
  exact (sumP_congr ops s s' isD (fun q _ => hD q)).symm

theorem lc_step (ops : List Pos) (depth : Nat) (s s' : S) (l : L) (hnd : ops.Nodup) (hi : InvPh ops depth s) (h : LC ops s)
    (hs : step s l = some s') : LC ops s' := by
  have hin : ∀ p, s.ph p ≠ .waiting → p ∈ ops := by
    intro p hp
    by_cases e : p ∈ ops
    · exact e
    · exact absurd (hi.outside p e) hp
  cases l
  case dput k p =>
    simp only [step] at hs
    split at hs
    · rename_i hc
      cases hs
      have := sumP_setPh ops s ({ setW (setPh s p (.dbuf k)) k .top with dout := s.dout + 1 } : S) isD p (.dbuf k) hnd
        (hin p (by rw [hc.2.1]; simp)) rfl
      rw [hc.2.1] at this
      simp only [isD] at this
      unfold LC at *
      show s.dout + 1 = _
      omega
    · cases hs
  case drecv p =>
    obtain ⟨_, hp, hph, hd, _⟩ := drecv_effect s s' p hs
    have := sumP_setPh ops s s' isD p .retired hnd (hin p (by rw [hp]; simp)) hph
    rw [hp] at this
    simp only [isD] at this
    unfold LC at *
    omega
  case seed p =>
    obtain ⟨rest, _, hw, hph, _, hd, _⟩ := seed_effect s s' p hs
    refine lc_keep ops s s' h hd ?_
    intro q; rw [hph]
    by_cases e : q = p
    · subst e; simp [hw, isD]
    · simp [e]
  all_goals
    simp only [step] at hs
    split at hs
    · rename_i hc
      cases hs
      refine lc_keep ops s _ h rfl ?_
      intro q
      first
        | rfl
        | (simp only [setPh, setW]; split <;> simp_all [isD])
    · cases hs

/-! ### positions held by workers -/

structure LH (s : S) : Prop where
  held : ∀ p k, heldBy (s.ph p) = some k → k < s.n ∧ s.ws k = .busy
  uniq : ∀ p p' k, heldBy (s.ph p) = some k → heldBy (s.ph p') = some k → p = p'
  busy : ∀ k, k < s.n → s.ws k = .busy → ∃ p, heldBy (s.ph p) = some k

theorem lh_init (n cap : Nat) (apex : Pos) (seeds : List Pos) (pre : Pos → Nat) : LH (init n cap apex seeds pre) := by
  refine ⟨?_, ?_, ?_⟩
  · intro p k h; simp [init, heldBy] at h
  · intro p p' k h; simp [init, heldBy] at h
  · intro k _ h; simp [init] at h

theorem lh_keep (s s' : S) (h : LH s) (hn : s'.n = s.n) (hH : ∀ q, heldBy (s'.ph q) = heldBy (s.ph q))
    (hB : ∀ k, (s'.ws k = .busy ↔ s.ws k = .busy)) : LH s' := by
  refine ⟨?_, ?_, ?_⟩
  · intro p k hp
    rw [hH] at hp
    rw [hn, hB]
    exact h.held p k hp
  · intro p p' k hp hp'
    rw [hH] at hp hp'
    exact h.uniq p p' k hp hp'
  · intro k hk hb
    rw [hn] at hk
    obtain ⟨p, hp⟩ := h.busy k hk ((hB k).1 hb)
    exact ⟨p, by rw [hH]; exact hp⟩

theorem lh_step (s s' : S) (l : L) (h : LH s) (hs : step s l = some s') : LH s' := by
  cases l
  case rrecv k p =>
    simp only [step] at hs
    split at hs
    · rename_i hc
      obtain ⟨hk, _, hw, hp⟩ := hc
      cases hs
      have hnk : ∀ q, heldBy (s.ph q) ≠ some k := by
        intro q hq
        have := (h.held q k hq).2
        rw [hw] at this; cases this
      refine ⟨?_, ?_, ?_⟩
      · intro q j hq
        simp only [setPh, setW] at hq ⊢
        by_cases e : q = p
        · subst e
          simp only [if_true, heldBy, Option.some.injEq] at hq
          subst hq
          exact ⟨hk, by simp⟩
        · simp only [e, if_false] at hq
          have hjk : j ≠ k := by intro e2; subst e2; exact hnk q hq
          simp only [hjk, if_false]
          exact h.held q j hq
      · intro q q' j hq hq'
        simp only [setPh, setW] at hq hq'
        by_cases e : q = p
        · by_cases e' : q' = p
          · rw [e, e']
          · simp only [e, if_true, heldBy, Option.some.injEq] at hq
            simp only [e', if_false] at hq'
            subst hq
            exact absurd hq' (hnk q')
        · by_cases e' : q' = p
          · simp only [e', if_true, heldBy, Option.some.injEq] at hq'
            simp only [e, if_false] at hq
            subst hq'
            exact absurd hq (hnk q)
          · simp only [e, if_false] at hq
            simp only [e', if_false] at hq'
            exact h.uniq q q' j hq hq'
      · intro j hj hb
        simp only [setPh, setW] at hb hj ⊢
        by_cases e : j = k
        · subst e
          exact ⟨p, by simp [heldBy]⟩
        · simp only [e, if_false] at hb
          obtain ⟨q, hq⟩ := h.busy j hj hb
          have hqp : q ≠ p := by
            intro e2; subst e2; rw [hp] at hq; simp [heldBy] at hq
          exact ⟨q, by simp only [hqp, if_false]; exact hq⟩
    · cases hs
  case dput k p =>
    simp only [step] at hs
    split at hs
    · rename_i hc
      obtain ⟨hk, hp, hw, _⟩ := hc
      cases hs
      have hpk : heldBy (s.ph p) = some k := by rw [hp]; rfl
      refine ⟨?_, ?_, ?_⟩
      · intro q j hq
        simp only [setPh, setW] at hq ⊢
        by_cases e : q = p
        · simp [e, heldBy] at hq
        · simp only [e, if_false] at hq
          have hjk : j ≠ k := by
            intro e2; subst e2; exact e (h.uniq q p j hq hpk)
          simp only [hjk, if_false]
          exact h.held q j hq
      · intro q q' j hq hq'
        simp only [setPh, setW] at hq hq'
        by_cases e : q = p
        · simp [e, heldBy] at hq
        · by_cases e' : q' = p
          · simp [e', heldBy] at hq'
          · simp only [e, if_false] at hq
            simp only [e', if_false] at hq'
            exact h.uniq q q' j hq hq'
      · intro j hj hb
        simp only [setPh, setW] at hb hj ⊢
        by_cases e : j = k
        · simp [e] at hb
        · simp only [e, if_false] at hb
          obtain ⟨q, hq⟩ := h.busy j hj hb
          have hqp : q ≠ p := by
            intro e2; subst e2; rw [hpk] at hq; simp at hq; exact e hq.symm
          exact ⟨q, by simp only [hqp, if_false]; exact hq⟩
    · cases hs
  case drecv p =>
    obtain ⟨_, hp, hph, _, hws, hn, _⟩ := drecv_effect s s' p hs
    refine lh_keep s s' h hn ?_ (by intro k; rw [hws])
    intro q; rw [hph]
    by_cases e : q = p
    · subst e; simp [hp, heldBy]
    · simp [e]
  case seed p =>
    obtain ⟨rest, _, hw, hph, _, _, _, hws, hn, _⟩ := seed_effect s s' p hs
    refine lh_keep s s' h hn ?_ (by intro k; rw [hws])
    intro q; rw [hph]
    by_cases e : q = p
    · subst e; simp [hw, heldBy]
    · simp [e]
  case flagQ k b =>
    simp only [step] at hs
    split at hs
    · rename_i hc
      cases hs
      refine lh_keep s _ h rfl (fun q => rfl) ?_
      intro j
      simp only [setW]
      by_cases e : j = k
      · subst e; rw [hc.2.2]; cases b <;> simp
      · simp [e]
    · cases hs
  all_goals
    simp only [step] at hs
    split at hs
    · rename_i hc
      cases hs
      refine lh_keep s _ h rfl ?_ ?_
      · intro q
        first
          | rfl
          | (simp only [setPh, setW]; split <;> simp_all [heldBy])
      · intro j
        first
          | exact Iff.rfl
          | (simp only [setPh, setW]; split <;> simp_all)
    · cases hs

/-! ### seeds, full masks, the apex -/

structure LQ (ops : List Pos) (depth : Nat) (s : S) : Prop where
  seedS : ∀ rest, s.pc = .seeding rest → rest ≠ [] ∧ rest.Nodup ∧ ∀ p ∈ rest, s.ph p = .waiting
  seedW : ∀ p ∈ ops, p.n + 1 = depth → s.ph p = .waiting → ∃ rest, s.pc = .seeding rest ∧ p ∈ rest
  full : ∀ p ∈ ops, p.n + 1 < depth → s.ph p = .waiting → allBits (s.mask p) → s.pc = .releasing p
  apexN : late s.pc = false → s.ph s.apex ≠ .retired

theorem lq_init (ops : List Pos) (apex : Pos) (depth : Nat) (seeds : List Pos) (pre : Pos → Nat)
    (cfg : Cfg ops apex depth seeds pre) (hsn : seeds.Nodup)
    (hchild : ∀ p ∈ ops, p.n + 1 < depth → ∃ k, k < 4 ∧ p.child k ∈ ops) (n cap : Nat) :
    LQ ops depth (init n cap apex seeds pre) := by
  refine ⟨?_, ?_, ?_, ?_⟩
  · intro rest hr
    simp only [init] at hr
    by_cases hs : seeds = []
    · simp [hs] at hr
    · simp only [hs, if_false, PC.seeding.injEq] at hr
      subst hr
      exact ⟨hs, hsn, fun _ _ => rfl⟩
  · intro p hp hl _
    have hps : p ∈ seeds := (cfg.seedsSpec p).2 ⟨hp, hl⟩
    have hs : seeds ≠ [] := by intro e; rw [e] at hps; cases hps
    exact ⟨seeds, by simp [init, hs], hps⟩
  · intro p hp hl _ hb
    exfalso
    obtain ⟨k, hk, hc⟩ := hchild p hp hl
    have := ((cfg.preSpec p hp hl).2 k hk).1 (hb k hk)
    exact this hc
  · intro _; simp [init]

theorem lq_keep (ops : List Pos) (depth : Nat) (s s' : S) (h : LQ ops depth s) (hap : s'.apex = s.apex) (hm : s'.mask = s.mask)
    (hwt : ∀ q, s'.ph q = .waiting ↔ s.ph q = .waiting)
    (hret : ∀ q, s'.ph q = .retired → s.ph q = .retired)
    (hpcS : ∀ r, s'.pc = .seeding r ↔ s.pc = .seeding r)
    (hpcR : ∀ p, s.pc = .releasing p → s'.pc = .releasing p)
    (hlate : late s'.pc = false → late s.pc = false) : LQ ops depth s' := by
  refine ⟨?_, ?_, ?_, ?_⟩
  · intro rest hr
    obtain ⟨a0, a, b⟩ := h.seedS rest ((hpcS rest).1 hr)
    exact ⟨a0, a, fun p hp => (hwt p).2 (b p hp)⟩
  · intro p hp hl hw
    obtain ⟨rest, a, b⟩ := h.seedW p hp hl ((hwt p).1 hw)
    exact ⟨rest, (hpcS rest).2 a, b⟩
  · intro p hp hl hw hb
    rw [hm] at hb
    exact hpcR p (h.full p hp hl ((hwt p).1 hw) hb)
  · intro hl hr
    rw [hap] at hr
    exact h.apexN (hlate hl) (hret _ hr)

theorem lq_step (ops : List Pos) (depth : Nat) (s s' : S) (l : L) (hi' : InvPh ops depth s') (h : LQ ops depth s)
    (hs : step s l = some s') : LQ ops depth s' := by
  cases l
  case seed p =>
    obtain ⟨rest, hpc, hw, hph, hpc', _, hm, _, _, _, _, hap, _⟩ := seed_effect s s' p hs
    obtain ⟨_, hnd, hall⟩ := h.seedS _ hpc
    rw [List.nodup_cons] at hnd
    refine ⟨?_, ?_, ?_, ?_⟩
    · intro r hr
      rw [hpc'] at hr
      by_cases e : rest = []
      · simp [e] at hr
      · simp only [e, if_false, PC.seeding.injEq] at hr
        subst hr
        refine ⟨e, hnd.2, ?_⟩
        intro q hq
        have hqp : q ≠ p := by intro e2; subst e2; exact hnd.1 hq
        rw [hph]; simp only [hqp, if_false]
        exact hall q (List.mem_cons_of_mem _ hq)
    · intro q hq hl hqw
      rw [hph] at hqw
      have hqp : q ≠ p := by intro e2; subst e2; simp at hqw
      simp only [hqp, if_false] at hqw
      obtain ⟨r0, hr0, hq0⟩ := h.seedW q hq hl hqw
      rw [hpc] at hr0
      simp only [PC.seeding.injEq] at hr0
      subst hr0
      have hqr : q ∈ rest := by
        rcases List.mem_cons.1 hq0 with e | e
        · exact absurd e hqp
        · exact e
      have hne : rest ≠ [] := by intro e; rw [e] at hqr; cases hqr
      exact ⟨rest, by rw [hpc']; simp [hne], hqr⟩
    · intro q hq hl hqw hb
      rw [hph] at hqw
      have hqp : q ≠ p := by intro e2; subst e2; simp at hqw
      simp only [hqp, if_false] at hqw
      rw [hm] at hb
      have := h.full q hq hl hqw hb
      rw [hpc] at this; cases this
    · intro _
      rw [hap, hph]
      by_cases e : s.apex = p
      · simp [e]
      · simp only [e, if_false]
        exact h.apexN (by rw [hpc]; rfl)
  case release p =>
    simp only [step] at hs
    split at hs
    · rename_i hc
      obtain ⟨hpc, hw⟩ := hc
      cases hs
      refine ⟨?_, ?_, ?_, ?_⟩
      · intro r hr; cases hr
      · intro q hq hl hqw
        simp only [setPh] at hqw
        have hqp : q ≠ p := by intro e2; subst e2; simp at hqw
        simp only [hqp, if_false] at hqw
        obtain ⟨r0, hr0, _⟩ := h.seedW q hq hl hqw
        rw [hpc] at hr0; cases hr0
      · intro q hq hl hqw hb
        simp only [setPh] at hqw hb
        have hqp : q ≠ p := by intro e2; subst e2; simp at hqw
        simp only [hqp, if_false] at hqw
        have := h.full q hq hl hqw hb
        rw [hpc] at this
        simp only [PC.releasing.injEq] at this
        exact absurd this.symm hqp
      · intro _
        simp only [setPh]
        by_cases e : s.apex = p
        · simp [e]
        · simp only [e, if_false]
          exact h.apexN (by rw [hpc]; rfl)
    · cases hs
  case drecv p =>
    obtain ⟨hpc, hp, hph, _, _, _, _, _, hap, _, hcase⟩ := drecv_effect s s' p hs
    have hnotseed : ∀ r, s'.pc ≠ .seeding r := by
      intro r hr
      rcases hcase with ⟨_, a, _⟩ | ⟨_, _, ⟨_, a⟩ | ⟨_, a⟩⟩ <;> rw [a] at hr <;> cases hr
    refine ⟨?_, ?_, ?_, ?_⟩
    · intro r hr; exact absurd hr (hnotseed r)
    · intro q hq hl hqw
      rw [hph] at hqw
      have hqp : q ≠ p := by intro e2; subst e2; simp at hqw
      simp only [hqp, if_false] at hqw
      obtain ⟨r0, hr0, _⟩ := h.seedW q hq hl hqw
      rw [hpc] at hr0; cases hr0
    · intro q hq hl hqw hb
      have hm16 := (hi'.masks q hq hl hqw).1
      rw [hph] at hqw
      have hqp : q ≠ p := by intro e2; subst e2; simp at hqw
      simp only [hqp, if_false] at hqw
      rcases hcase with ⟨_, _, hm⟩ | ⟨_, hm, hrel⟩
      · rw [hm] at hb
        have := h.full q hq hl hqw hb
        rw [hpc] at this; cases this
      · by_cases e : q = p.parent
        · have hr : Gen.walk_release (s'.mask q) = true := (bits_release _ hm16).2 hb
          rw [hm] at hr
          simp only [e, if_true] at hr
          rcases hrel with ⟨_, a⟩ | ⟨a, _⟩
          · rw [a, e]
          · rw [a] at hr; cases hr
        · rw [hm] at hb
          simp only [e, if_false] at hb
          have := h.full q hq hl hqw hb
          rw [hpc] at this; cases this
    · intro hl
      rw [hap, hph]
      rcases hcase with ⟨_, a, _⟩ | ⟨hne, _, _⟩
      · rw [a] at hl; cases hl
      · have e : s.apex ≠ p := fun e => hne e.symm
        simp only [e, if_false]
        exact h.apexN (by rw [hpc]; rfl)
  all_goals
    simp only [step] at hs
    split at hs
    · rename_i hc
      cases hs
      refine lq_keep ops depth s _ h rfl rfl ?_ ?_ ?_ ?_ ?_
      · intro q
        first
          | exact Iff.rfl
          | (simp only [setPh, setW]; split <;> simp_all)
      · intro q
        first
          | exact id
          | (simp only [setPh, setW]; split <;> simp_all)
      · intro r
        first
          | exact Iff.rfl
          | (simp_all; done)
          | (simp only [setPh, setW]; split <;> simp_all)
      · intro q hq
        first
          | exact hq
          | (simp_all; done)
      · intro hl
        first
          | exact hl
          | (simp_all [late]; done)
          | (simp only [setPh, setW] at hl; split at hl <;> simp_all [late])
    · cases hs

end C01Live
