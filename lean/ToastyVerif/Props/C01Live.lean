/-
C01, liveness half — the parallel walk can always finish.

Same shape as `Props/C03Live.lean`: a second family of invariants (worker / lock / flag bookkeeping,
phase–worker consistency, the done queue's semaphore count, seeding, masks) and a lexicographic measure
(phase ranks of the operations, the dispatcher's counter, worker distances) such that every reachable state
in which the dispatcher has not returned has an enabled transition that decreases the measure.  Hence from
every reachable state some continuation ends with `walk` returned — where, by `C01.par_walk_terminal`,
every worker has exited and the callback has run exactly once for every operation.
-/
import ToastyVerif.Props.C01
import ToastyVerif.Props.C03Live

namespace C01Live
open Walk C01

/-! ### workers, lock, flag -/

structure LW (s : S) : Prop where
  idxS : ∀ j, s.pc = .starting j → j < s.n
  idxJ : ∀ j, s.pc = .joining j → j < s.n
  ns : ∀ k, k < s.n → (s.ws k = .notStarted ↔ ((∃ r, s.pc = .seeding r) ∨ ∃ j, s.pc = .starting j ∧ j ≤ k))
  lockIff : ∀ k, s.rlock = some k ↔ (k < s.n ∧ s.ws k = .locked)
  flagIff : s.flag = true ↔ ((∃ j, s.pc = .joining j) ∨ s.pc = .returned)
  noExit : s.flag = false → ∀ k, s.ws k ≠ .exited
  npos : 0 < s.n

theorem lw_init (n cap : Nat) (apex : Pos) (seeds : List Pos) (pre : Pos → Nat) (hn : 0 < n) :
    LW (init n cap apex seeds pre) := by
  refine ⟨?_, ?_, ?_, ?_, ?_, ?_, hn⟩
  · intro j h; simp only [init] at h ⊢; by_cases hs : seeds = [] <;> simp [hs] at h; omega
  · intro j h; simp only [init] at h; by_cases hs : seeds = [] <;> simp [hs] at h
  · intro k _
    simp only [init, true_iff]
    by_cases hs : seeds = []
    · right; exact ⟨0, by simp [hs], Nat.zero_le _⟩
    · left; exact ⟨seeds, by simp [hs]⟩
  · intro k; simp [init]
  · simp only [init]; by_cases hs : seeds = [] <;> simp [hs]
  · intro _ k; simp [init]

/-- nothing the workers or the dispatcher's counter depend on changes -/
theorem lw_same (s s' : S) (h : LW s) (hn : s'.n = s.n) (hpc : s'.pc = s.pc) (hws : s'.ws = s.ws) (hl : s'.rlock = s.rlock)
    (hf : s'.flag = s.flag) : LW s' := by
  refine ⟨?_, ?_, ?_, ?_, ?_, ?_, by rw [hn]; exact h.npos⟩
  · intro j hj; rw [hpc] at hj; rw [hn]; exact h.idxS j hj
  · intro j hj; rw [hpc] at hj; rw [hn]; exact h.idxJ j hj
  · intro k hk; rw [hn] at hk; rw [hws, hpc]; exact h.ns k hk
  · intro k; rw [hl, hn, hws]; exact h.lockIff k
  · rw [hf, hpc]; exact h.flagIff
  · intro hf' k; rw [hws]; rw [hf] at hf'; exact h.noExit hf' k

/-- the dispatcher's counter moves between two values that are neither start-up nor shut-down values; workers untouched -/
theorem lw_pc_mid (s s' : S) (h : LW s) (hn : s'.n = s.n) (hws : s'.ws = s.ws) (hl : s'.rlock = s.rlock) (hf : s'.flag = s.flag)
    (hold : (∀ r, s.pc ≠ .seeding r) ∧ (∀ j, s.pc ≠ .starting j) ∧ (∀ j, s.pc ≠ .joining j) ∧ s.pc ≠ .returned)
    (hnew : (∀ r, s'.pc ≠ .seeding r) ∧ (∀ j, s'.pc ≠ .starting j) ∧ (∀ j, s'.pc ≠ .joining j) ∧ s'.pc ≠ .returned) : LW s' := by
  refine ⟨?_, ?_, ?_, ?_, ?_, ?_, by rw [hn]; exact h.npos⟩
  · intro j hj; exact absurd hj (hnew.2.1 j)
  · intro j hj; exact absurd hj (hnew.2.2.1 j)
  · intro k hk
    rw [hn] at hk; rw [hws, h.ns k hk]
    constructor
    · rintro (⟨r, hr⟩ | ⟨j, hj, _⟩)
      · exact absurd hr (hold.1 r)
      · exact absurd hj (hold.2.1 j)
    · rintro (⟨r, hr⟩ | ⟨j, hj, _⟩)
      · exact absurd hr (hnew.1 r)
      · exact absurd hj (hnew.2.1 j)
  · intro k; rw [hl, hn, hws]; exact h.lockIff k
  · rw [hf, h.flagIff]
    constructor
    · rintro (⟨j, hj⟩ | hr)
      · exact absurd hj (hold.2.2.1 j)
      · exact absurd hr hold.2.2.2
    · rintro (⟨j, hj⟩ | hr)
      · exact absurd hj (hnew.2.2.1 j)
      · exact absurd hr hnew.2.2.2
  · intro hf' k; rw [hws]; rw [hf] at hf'; exact h.noExit hf' k

/-- worker `k` moves between two states that are none of notStarted / locked / exited; everything else unchanged -/
theorem lw_worker (s s' : S) (k : Nat) (w : W) (h : LW s) (hn : s'.n = s.n) (hpc : s'.pc = s.pc) (hws : s'.ws = (setW s k w).ws)
    (hl : s'.rlock = s.rlock) (hf : s'.flag = s.flag)
    (h0 : s.ws k ≠ .notStarted ∧ s.ws k ≠ .locked) (h1 : w ≠ .notStarted ∧ w ≠ .locked ∧ (w = .exited → s.flag = true)) : LW s' := by
  refine ⟨?_, ?_, ?_, ?_, ?_, ?_, by rw [hn]; exact h.npos⟩
  · intro j hj; rw [hpc] at hj; rw [hn]; exact h.idxS j hj
  · intro j hj; rw [hpc] at hj; rw [hn]; exact h.idxJ j hj
  · intro j hj
    rw [hn] at hj; rw [hws, hpc, ← h.ns j hj]
    simp only [setW]
    by_cases e : j = k
    · subst e; simp [h0.1, h1.1]
    · simp [e]
  · intro j
    rw [hl, hn, hws, h.lockIff j]
    simp only [setW]
    by_cases e : j = k
    · subst e; simp [h0.2, h1.2.1]
    · simp [e]
  · rw [hf, hpc]; exact h.flagIff
  · intro hf' j
    rw [hws]; rw [hf] at hf'
    simp only [setW]
    by_cases e : j = k
    · subst e
      simp only [if_true]
      intro hw
      have := h1.2.2 hw
      rw [hf'] at this; cases this
    · simp only [e, if_false]; exact h.noExit hf' j

theorem mid_of_eq (pc : PC) (h : pc = .idle ∨ pc = .dlocked ∨ (∃ q, pc = .releasing q) ∨ pc = .closing ∨ pc = .closed ∨ pc = .joined) :
    (∀ r, pc ≠ .seeding r) ∧ (∀ j, pc ≠ .starting j) ∧ (∀ j, pc ≠ .joining j) ∧ pc ≠ .returned := by
  rcases h with h | h | ⟨q, h⟩ | h | h | h <;> subst h <;> simp

theorem lw_step (s s' : S) (l : L) (h : LW s) (hs : step s l = some s') : LW s' := by
  have hn0 := h.npos
  cases l with
  | seed p =>
    simp only [step] at hs
    split at hs
    · rename_i q rest hpc
      split at hs
      · cases hs
        refine ⟨?_, ?_, ?_, ?_, ?_, ?_, hn0⟩
        · intro j hj
          simp only [setPh] at hj ⊢
          split at hj
          · cases hj; exact hn0
          · cases hj
        · intro j hj
          simp only [setPh] at hj
          split at hj <;> cases hj
        · intro k hk
          simp only [setPh] at hk ⊢
          rw [h.ns k hk]
          constructor
          · intro _
            by_cases hr : rest = []
            · right; exact ⟨0, by simp [hr], Nat.zero_le _⟩
            · left; exact ⟨rest, by simp [hr]⟩
          · intro _; left; exact ⟨_, hpc⟩
        · intro k; exact h.lockIff k
        · simp only [setPh]
          rw [h.flagIff, hpc]
          constructor
          · rintro (⟨j, hj⟩ | hj) <;> cases hj
          · rintro (⟨j, hj⟩ | hj)
            · split at hj <;> cases hj
            · split at hj <;> cases hj
        · intro hf k; exact h.noExit hf k
      · cases hs
    · cases hs
  | start k =>
    simp only [step] at hs
    split at hs
    · rename_i hc
      obtain ⟨hpc, hk, hw⟩ := hc
      cases hs
      refine ⟨?_, ?_, ?_, ?_, ?_, ?_, hn0⟩
      · intro j hj
        simp only [setW] at hj ⊢
        split at hj
        · cases hj
        · cases hj; omega
      · intro j hj
        simp only [setW] at hj
        split at hj <;> cases hj
      · intro j hj
        simp only [setW] at hj ⊢
        by_cases e : j = k
        · subst e
          simp only [if_true]
          constructor
          · intro hx; cases hx
          · rintro (⟨r, hr⟩ | ⟨i, hi, hle⟩)
            · split at hr <;> cases hr
            · split at hi
              · cases hi
              · cases hi; omega
        · simp only [e, if_false]
          rw [h.ns j hj, hpc]
          constructor
          · rintro (⟨r, hr⟩ | ⟨i, hi, hle⟩)
            · cases hr
            · cases hi
              have : k + 1 ≤ j := by omega
              right
              split
              · omega
              · exact ⟨k + 1, rfl, this⟩
          · rintro (⟨r, hr⟩ | ⟨i, hi, hle⟩)
            · split at hr <;> cases hr
            · split at hi
              · cases hi
              · cases hi; right; exact ⟨k, rfl, by omega⟩
      · intro j
        simp only [setW]
        rw [h.lockIff j]
        by_cases e : j = k
        · subst e; simp [hw]
        · simp [e]
      · simp only [setW]
        rw [h.flagIff, hpc]
        constructor
        · rintro (⟨j, hj⟩ | hj) <;> cases hj
        · rintro (⟨j, hj⟩ | hj)
          · split at hj <;> cases hj
          · split at hj <;> cases hj
      · intro hf j
        simp only [setW]
        by_cases e : j = k
        · subst e; simp
        · simp only [e, if_false]; exact h.noExit hf j
    · cases hs
  | begin k =>
    simp only [step] at hs
    split at hs
    · rename_i hc
      cases hs
      exact lw_worker s _ k .top h rfl rfl rfl rfl rfl (by rw [hc.2]; simp) (by simp)
    · cases hs
  | rflush p =>
    simp only [step] at hs
    split at hs
    · cases hs; exact lw_same s _ h rfl rfl rfl rfl rfl
    · cases hs
  | dflush k p =>
    simp only [step] at hs
    split at hs
    · cases hs; exact lw_same s _ h rfl rfl rfl rfl rfl
    · cases hs
  | dlock =>
    simp only [step] at hs
    split at hs
    · rename_i hc
      cases hs
      exact lw_pc_mid s _ h rfl rfl rfl rfl (mid_of_eq _ (Or.inl hc)) (mid_of_eq _ (Or.inr (Or.inl rfl)))
    · cases hs
  | dempty =>
    simp only [step] at hs
    split at hs
    · rename_i hc
      cases hs
      exact lw_pc_mid s _ h rfl rfl rfl rfl (mid_of_eq _ (Or.inr (Or.inl hc))) (mid_of_eq _ (Or.inl rfl))
    · cases hs
  | drecv p =>
    simp only [step] at hs
    split at hs
    · rename_i hc
      have hold := mid_of_eq _ (Or.inr (Or.inl hc.1))
      split at hs
      · cases hs
        exact lw_pc_mid s _ h rfl rfl rfl rfl hold (mid_of_eq _ (Or.inr (Or.inr (Or.inr (Or.inl rfl)))))
      · simp only [bump] at hs
        by_cases hrel : Gen.walk_release (Gen.walk_flags_update (s.mask p.parent) (Gen.walk_bit_num (p.x % 2) (p.y % 2))) = true
        · simp only [hrel, if_true, Option.some.injEq] at hs; subst hs
          exact lw_pc_mid s _ h rfl rfl rfl rfl hold (mid_of_eq _ (Or.inr (Or.inr (Or.inl ⟨_, rfl⟩))))
        · simp only [hrel, Bool.false_eq_true, if_false, Option.some.injEq] at hs; subst hs
          exact lw_pc_mid s _ h rfl rfl rfl rfl hold (mid_of_eq _ (Or.inl rfl))
    · cases hs
  | release p =>
    simp only [step] at hs
    split at hs
    · rename_i hc
      cases hs
      exact lw_pc_mid s _ h rfl rfl rfl rfl (mid_of_eq _ (Or.inr (Or.inr (Or.inl ⟨_, hc.1⟩)))) (mid_of_eq _ (Or.inl rfl))
    · cases hs
  | close =>
    simp only [step] at hs
    split at hs
    · rename_i hc
      cases hs
      exact lw_pc_mid s _ h rfl rfl rfl rfl (mid_of_eq _ (Or.inr (Or.inr (Or.inr (Or.inl hc))))) (mid_of_eq _ (Or.inr (Or.inr (Or.inr (Or.inr (Or.inl rfl))))))
    · cases hs
  | joinThread =>
    simp only [step] at hs
    split at hs
    · rename_i hc
      cases hs
      exact lw_pc_mid s _ h rfl rfl rfl rfl (mid_of_eq _ (Or.inr (Or.inr (Or.inr (Or.inr (Or.inl hc)))))) (mid_of_eq _ (Or.inr (Or.inr (Or.inr (Or.inr (Or.inr rfl))))))
    · cases hs
  | setFlag =>
    simp only [step] at hs
    split at hs
    · rename_i hc
      cases hs
      refine ⟨?_, ?_, ?_, ?_, ?_, ?_, hn0⟩
      · intro j hj; cases hj
      · intro j hj; cases hj; exact hn0
      · intro k hk
        rw [h.ns k hk, hc]
        constructor
        · rintro (⟨r, hr⟩ | ⟨j, hj, _⟩)
          · cases hr
          · cases hj
        · rintro (⟨r, hr⟩ | ⟨j, hj, _⟩)
          · cases hr
          · cases hj
      · intro k; exact h.lockIff k
      · simp
      · intro hf; cases hf
    · cases hs
  | join k =>
    simp only [step] at hs
    split at hs
    · rename_i hc
      obtain ⟨hpc, hk, hw⟩ := hc
      have hf : s.flag = true := h.flagIff.2 (Or.inl ⟨k, hpc⟩)
      cases hs
      refine ⟨?_, ?_, ?_, ?_, ?_, ?_, hn0⟩
      · intro j hj
        simp only at hj
        split at hj <;> cases hj
      · intro j hj
        simp only at hj
        split at hj
        · cases hj
        · cases hj; show k + 1 < s.n; omega
      · intro j hj
        rw [h.ns j hj, hpc]
        constructor
        · rintro (⟨r, hr⟩ | ⟨i, hi, _⟩)
          · cases hr
          · cases hi
        · rintro (⟨r, hr⟩ | ⟨i, hi, _⟩)
          · simp only at hr; split at hr <;> cases hr
          · simp only at hi; split at hi <;> cases hi
      · intro j; exact h.lockIff j
      · show s.flag = true ↔ _
        rw [hf]
        simp only [true_iff]
        by_cases e : k + 1 = s.n
        · right; simp [e]
        · left; exact ⟨k + 1, by simp [e]⟩
      · intro hf'; rw [hf] at hf'; cases hf'
    · cases hs
  | rlock k =>
    simp only [step] at hs
    split at hs
    · rename_i hc
      obtain ⟨hk, hl, hw⟩ := hc
      cases hs
      refine ⟨h.idxS, h.idxJ, ?_, ?_, h.flagIff, ?_, hn0⟩
      · intro j hj
        simp only [setW]
        rw [← h.ns j hj]
        by_cases e : j = k
        · subst e; simp [hw]
        · simp [e]
      · intro j
        simp only [setW]
        by_cases e : j = k
        · subst e; simp [hk]
        · simp only [e, if_false]
          have := h.lockIff j
          rw [hl] at this
          constructor
          · intro hx; cases hx; exact absurd rfl e
          · intro hx; exact absurd (this.2 hx) (by simp)
      · intro hf j
        simp only [setW]
        by_cases e : j = k
        · subst e; simp
        · simp only [e, if_false]; exact h.noExit hf j
    · cases hs
  | rlockTimeout k =>
    simp only [step] at hs
    split at hs
    · rename_i hc
      cases hs
      exact lw_worker s _ k .afterEmpty h rfl rfl rfl rfl rfl (by rw [hc.2.2]; simp) (by simp)
    · cases hs
  | rempty k =>
    simp only [step] at hs
    split at hs
    · rename_i hc
      obtain ⟨hk, hl, hw⟩ := hc
      cases hs
      refine ⟨h.idxS, h.idxJ, ?_, ?_, h.flagIff, ?_, hn0⟩
      · intro j hj
        simp only [setW]
        rw [← h.ns j hj]
        by_cases e : j = k
        · subst e; simp [hw]
        · simp [e]
      · intro j
        simp only [setW]
        by_cases e : j = k
        · subst e; simp
        · simp only [e, if_false]
          have := h.lockIff j
          rw [hl] at this
          constructor
          · intro hx; cases hx
          · intro hx
            have := this.2 hx
            cases this; exact absurd rfl e
      · intro hf j
        simp only [setW]
        by_cases e : j = k
        · subst e; simp
        · simp only [e, if_false]; exact h.noExit hf j
    · cases hs
  | rrecv k p =>
    simp only [step] at hs
    split at hs
    · rename_i hc
      obtain ⟨hk, hl, hw, _⟩ := hc
      cases hs
      refine ⟨h.idxS, h.idxJ, ?_, ?_, h.flagIff, ?_, hn0⟩
      · intro j hj
        simp only [setPh, setW]
        rw [← h.ns j hj]
        by_cases e : j = k
        · subst e; simp [hw]
        · simp [e]
      · intro j
        simp only [setPh, setW]
        by_cases e : j = k
        · subst e; simp
        · simp only [e, if_false]
          have := h.lockIff j
          rw [hl] at this
          constructor
          · intro hx; cases hx
          · intro hx
            have := this.2 hx
            cases this; exact absurd rfl e
      · intro hf j
        simp only [setPh, setW]
        by_cases e : j = k
        · subst e; simp
        · simp only [e, if_false]; exact h.noExit hf j
    · cases hs
  | flagQ k b =>
    simp only [step] at hs
    split at hs
    · rename_i hc
      obtain ⟨hk, hb, hw⟩ := hc
      cases hs
      exact lw_worker s _ k _ h rfl rfl rfl rfl rfl (by rw [hw]; simp)
        (by cases b <;> simp [← hb])
    · cases hs
  | cbBegin k p =>
    simp only [step] at hs
    split at hs
    · cases hs; exact lw_same s _ h rfl rfl rfl rfl rfl
    · cases hs
  | cbEnd k p =>
    simp only [step] at hs
    split at hs
    · cases hs; exact lw_same s _ h rfl rfl rfl rfl rfl
    · cases hs
  | dput k p =>
    simp only [step] at hs
    split at hs
    · rename_i hc
      cases hs
      exact lw_worker s _ k .top h rfl rfl rfl rfl rfl (by rw [hc.2.2.1]; simp) (by simp)
    · cases hs

/-! ### sums over the operations -/

def sumP (ops : List Pos) (s : S) (g : Phase → Nat) : Nat := (ops.map (fun p => g (s.ph p))).sum

theorem sumP_congr (ops : List Pos) (s s' : S) (g : Phase → Nat) (h : ∀ q ∈ ops, g (s'.ph q) = g (s.ph q)) :
    sumP ops s' g = sumP ops s g := by
  unfold sumP
  congr 1
  exact List.map_congr_left h

/-- one position changes phase: the sum changes by the difference of the weights -/
theorem sum_update (ph : Pos → Phase) (g : Phase → Nat) (p : Pos) (f : Phase) : ∀ (ops : List Pos), ops.Nodup → p ∈ ops →
    (ops.map (fun q => g (if q = p then f else ph q))).sum + g (ph p) = (ops.map (fun q => g (ph q))).sum + g f := by
  intro ops
  induction ops with
  | nil => intro _ h; cases h
  | cons a as ih =>
    intro hnd hp
    rw [List.nodup_cons] at hnd
    simp only [List.map_cons, List.sum_cons]
    by_cases e : a = p
    · subst e
      have hsame : as.map (fun q => g (if q = a then f else ph q)) = as.map (fun q => g (ph q)) := by
        apply List.map_congr_left
        intro q hq
        have : q ≠ a := by intro e; subst e; exact hnd.1 hq
        simp [this]
      rw [hsame]; simp; omega
    · have hp' : p ∈ as := by
        rcases List.mem_cons.1 hp with h | h
        · exact absurd h.symm e
        · exact h
      have := ih hnd.2 hp'
      simp only [e, if_false]
      omega

theorem sumP_setPh (ops : List Pos) (s s' : S) (g : Phase → Nat) (p : Pos) (f : Phase) (hnd : ops.Nodup) (hp : p ∈ ops)
    (hph : s'.ph = fun q => if q = p then f else s.ph q) :
    sumP ops s' g + g (s.ph p) = sumP ops s g + g f := by
  unfold sumP; rw [hph]
  exact sum_update s.ph g p f ops hnd hp

/-- weight of an operation in the measure: distance of its phase from `retired` -/
def phW (f : Phase) : Nat := 8 - f.rank

/-- 1 for the phases counted by the done queue's semaphore -/
def isD : Phase → Nat
  | .dbuf _ => 1 | .dpipe => 1 | _ => 0

/-- the worker, if any, that holds the position -/
def heldBy : Phase → Option Nat
  | .have k => some k | .running k => some k | .ran k => some k | _ => none

/-! ### field effects of the two branching transitions -/

theorem drecv_effect (s s' : S) (p : Pos) (hs : step s (.drecv p) = some s') :
    s.pc = .dlocked ∧ s.ph p = .dpipe ∧ s'.ph = (fun q => if q = p then Phase.retired else s.ph q) ∧ s'.dout = s.dout - 1 ∧
    s'.ws = s.ws ∧ s'.n = s.n ∧ s'.rlock = s.rlock ∧ s'.flag = s.flag ∧ s'.apex = s.apex ∧ s'.cap = s.cap ∧
    ((p = s.apex ∧ s'.pc = .closing ∧ s'.mask = s.mask) ∨
     (p ≠ s.apex ∧
      s'.mask = (fun q => if q = p.parent then Gen.walk_flags_update (s.mask p.parent) (Gen.walk_bit_num (p.x % 2) (p.y % 2)) else s.mask q) ∧
      ((Gen.walk_release (Gen.walk_flags_update (s.mask p.parent) (Gen.walk_bit_num (p.x % 2) (p.y % 2))) = true ∧ s'.pc = .releasing p.parent) ∨
       (Gen.walk_release (Gen.walk_flags_update (s.mask p.parent) (Gen.walk_bit_num (p.x % 2) (p.y % 2))) = false ∧ s'.pc = .idle)))) := by
  simp only [step] at hs
  split at hs
  · rename_i hg
    split at hs
    · rename_i hgap
      cases hs
      exact ⟨hg.1, hg.2, rfl, rfl, rfl, rfl, rfl, rfl, rfl, rfl, Or.inl ⟨hgap.2, rfl, rfl⟩⟩
    · rename_i hgap
      have hne : p ≠ s.apex := by
        intro e; exact hgap ⟨stop_on_apex.1, e⟩
      simp only [bump] at hs
      by_cases hrel : Gen.walk_release (Gen.walk_flags_update (s.mask p.parent) (Gen.walk_bit_num (p.x % 2) (p.y % 2))) = true
      · simp only [hrel, if_true, Option.some.injEq] at hs; subst hs
        exact ⟨hg.1, hg.2, rfl, rfl, rfl, rfl, rfl, rfl, rfl, rfl, Or.inr ⟨hne, rfl, Or.inl ⟨hrel, rfl⟩⟩⟩
      · simp only [hrel, Bool.false_eq_true, if_false, Option.some.injEq] at hs; subst hs
        exact ⟨hg.1, hg.2, rfl, rfl, rfl, rfl, rfl, rfl, rfl, rfl, Or.inr ⟨hne, rfl, Or.inr ⟨by simpa using hrel, rfl⟩⟩⟩
  · cases hs

theorem seed_effect (s s' : S) (p : Pos) (hs : step s (.seed p) = some s') :
    ∃ rest, s.pc = .seeding (p :: rest) ∧ s.ph p = .waiting ∧ s'.ph = (fun q => if q = p then Phase.rbuf else s.ph q) ∧
    s'.pc = (if rest = [] then PC.starting 0 else PC.seeding rest) ∧ s'.dout = s.dout ∧ s'.mask = s.mask ∧
    s'.ws = s.ws ∧ s'.n = s.n ∧ s'.rlock = s.rlock ∧ s'.flag = s.flag ∧ s'.apex = s.apex ∧ s'.cap = s.cap := by
  simp only [step] at hs
  split at hs
  · rename_i q rest hpc
    split at hs
    · rename_i hg
      obtain ⟨hpq, hw⟩ := hg
      cases hs
      subst hpq
      exact ⟨rest, hpc, hw, rfl, rfl, rfl, rfl, rfl, rfl, rfl, rfl, rfl, rfl⟩
    · cases hs
  all_goals cases hs

/-! ### the done queue's semaphore counts the reported, not yet received tiles -/

def LC (ops : List Pos) (s : S) : Prop := s.dout = sumP ops s isD

theorem lc_keep (ops : List Pos) (s s' : S) (h : LC ops s) (hd : s'.dout = s.dout)
    (hD : ∀ q, isD (s'.ph q) = isD (s.ph q)) : LC ops s' := by
  unfold LC at *
  rw [hd, h]
  exact (sumP_congr ops s s' isD (fun q _ => hD q)).symm

theorem lc_step (ops : List Pos) (depth : Nat) (s s' : S) (l : L) (hnd : ops.Nodup) (hi : InvPh ops depth s) (h : LC ops s)
    (hs : step s l = some s') : LC ops s' := by
  have hin : ∀ p, s.ph p ≠ .waiting → p ∈ ops := by
    intro p hp
    by_cases e : p ∈ ops
    · exact e
    · exact absurd (hi.outside p e) hp
  cases l
  case dput k p =>
    simp only [step] at hs
    split at hs
    · rename_i hc
      cases hs
      have := sumP_setPh ops s ({ setW (setPh s p (.dbuf k)) k .top with dout := s.dout + 1 } : S) isD p (.dbuf k) hnd
        (hin p (by rw [hc.2.1]; simp)) rfl
      rw [hc.2.1] at this
      simp only [isD] at this
      unfold LC at *
      show s.dout + 1 = _
      omega
    · cases hs
  case drecv p =>
    obtain ⟨_, hp, hph, hd, _⟩ := drecv_effect s s' p hs
    have := sumP_setPh ops s s' isD p .retired hnd (hin p (by rw [hp]; simp)) hph
    rw [hp] at this
    simp only [isD] at this
    unfold LC at *
    omega
  case seed p =>
    obtain ⟨rest, _, hw, hph, _, hd, _⟩ := seed_effect s s' p hs
    refine lc_keep ops s s' h hd ?_
    intro q; rw [hph]
    by_cases e : q = p
    · subst e; simp [hw, isD]
    · simp [e]
  all_goals
    simp only [step] at hs
    split at hs
    · rename_i hc
      cases hs
      refine lc_keep ops s _ h rfl ?_
      intro q
      first
        | rfl
        | (simp only [setPh, setW]; split <;> simp_all [isD])
    · cases hs

/-! ### positions held by workers -/

structure LH (s : S) : Prop where
  held : ∀ p k, heldBy (s.ph p) = some k → k < s.n ∧ s.ws k = .busy
  uniq : ∀ p p' k, heldBy (s.ph p) = some k → heldBy (s.ph p') = some k → p = p'
  busy : ∀ k, k < s.n → s.ws k = .busy → ∃ p, heldBy (s.ph p) = some k

theorem lh_init (n cap : Nat) (apex : Pos) (seeds : List Pos) (pre : Pos → Nat) : LH (init n cap apex seeds pre) := by
  refine ⟨?_, ?_, ?_⟩
  · intro p k h; simp [init, heldBy] at h
  · intro p p' k h; simp [init, heldBy] at h
  · intro k _ h; simp [init] at h

theorem lh_keep (s s' : S) (h : LH s) (hn : s'.n = s.n) (hH : ∀ q, heldBy (s'.ph q) = heldBy (s.ph q))
    (hB : ∀ k, (s'.ws k = .busy ↔ s.ws k = .busy)) : LH s' := by
  refine ⟨?_, ?_, ?_⟩
  · intro p k hp
    rw [hH] at hp
    rw [hn, hB]
    exact h.held p k hp
  · intro p p' k hp hp'
    rw [hH] at hp hp'
    exact h.uniq p p' k hp hp'
  · intro k hk hb
    rw [hn] at hk
    obtain ⟨p, hp⟩ := h.busy k hk ((hB k).1 hb)
    exact ⟨p, by rw [hH]; exact hp⟩

theorem lh_step (s s' : S) (l : L) (h : LH s) (hs : step s l = some s') : LH s' := by
  cases l
  case rrecv k p =>
    simp only [step] at hs
    split at hs
    · rename_i hc
      obtain ⟨hk, _, hw, hp⟩ := hc
      cases hs
      have hnk : ∀ q, heldBy (s.ph q) ≠ some k := by
        intro q hq
        have := (h.held q k hq).2
        rw [hw] at this; cases this
      refine ⟨?_, ?_, ?_⟩
      · intro q j hq
        simp only [setPh, setW] at hq ⊢
        by_cases e : q = p
        · subst e
          simp only [if_true, heldBy, Option.some.injEq] at hq
          subst hq
          exact ⟨hk, by simp⟩
        · simp only [e, if_false] at hq
          have hjk : j ≠ k := by intro e2; subst e2; exact hnk q hq
          simp only [hjk, if_false]
          exact h.held q j hq
      · intro q q' j hq hq'
        simp only [setPh, setW] at hq hq'
        by_cases e : q = p
        · by_cases e' : q' = p
          · rw [e, e']
          · simp only [e, if_true, heldBy, Option.some.injEq] at hq
            simp only [e', if_false] at hq'
            subst hq
            exact absurd hq' (hnk q')
        · by_cases e' : q' = p
          · simp only [e', if_true, heldBy, Option.some.injEq] at hq'
            simp only [e, if_false] at hq
            subst hq'
            exact absurd hq (hnk q)
          · simp only [e, if_false] at hq
            simp only [e', if_false] at hq'
            exact h.uniq q q' j hq hq'
      · intro j hj hb
        simp only [setPh, setW] at hb hj ⊢
        by_cases e : j = k
        · subst e
          exact ⟨p, by simp [heldBy]⟩
        · simp only [e, if_false] at hb
          obtain ⟨q, hq⟩ := h.busy j hj hb
          have hqp : q ≠ p := by
            intro e2; subst e2; rw [hp] at hq; simp [heldBy] at hq
          exact ⟨q, by simp only [hqp, if_false]; exact hq⟩
    · cases hs
  case dput k p =>
    simp only [step] at hs
    split at hs
    · rename_i hc
      obtain ⟨hk, hp, hw, _⟩ := hc
      cases hs
      have hpk : heldBy (s.ph p) = some k := by rw [hp]; rfl
      refine ⟨?_, ?_, ?_⟩
      · intro q j hq
        simp only [setPh, setW] at hq ⊢
        by_cases e : q = p
        · simp [e, heldBy] at hq
        · simp only [e, if_false] at hq
          have hjk : j ≠ k := by
            intro e2; subst e2; exact e (h.uniq q p j hq hpk)
          simp only [hjk, if_false]
          exact h.held q j hq
      · intro q q' j hq hq'
        simp only [setPh, setW] at hq hq'
        by_cases e : q = p
        · simp [e, heldBy] at hq
        · by_cases e' : q' = p
          · simp [e', heldBy] at hq'
          · simp only [e, if_false] at hq
            simp only [e', if_false] at hq'
            exact h.uniq q q' j hq hq'
      · intro j hj hb
        simp only [setPh, setW] at hb hj ⊢
        by_cases e : j = k
        · simp [e] at hb
        · simp only [e, if_false] at hb
          obtain ⟨q, hq⟩ := h.busy j hj hb
          have hqp : q ≠ p := by
            intro e2; subst e2; rw [hpk] at hq; simp at hq; exact e hq.symm
          exact ⟨q, by simp only [hqp, if_false]; exact hq⟩
    · cases hs
  case drecv p =>
    obtain ⟨_, hp, hph, _, hws, hn, _⟩ := drecv_effect s s' p hs
    refine lh_keep s s' h hn ?_ (by intro k; rw [hws])
    intro q; rw [hph]
    by_cases e : q = p
    · subst e; simp [hp, heldBy]
    · simp [e]
  case seed p =>
    obtain ⟨rest, _, hw, hph, _, _, _, hws, hn, _⟩ := seed_effect s s' p hs
    refine lh_keep s s' h hn ?_ (by intro k; rw [hws])
    intro q; rw [hph]
    by_cases e : q = p
    · subst e; simp [hw, heldBy]
    · simp [e]
  case flagQ k b =>
    simp only [step] at hs
    split at hs
    · rename_i hc
      cases hs
      refine lh_keep s _ h rfl (fun q => rfl) ?_
      intro j
      simp only [setW]
      by_cases e : j = k
      · subst e; rw [hc.2.2]; cases b <;> simp
      · simp [e]
    · cases hs
  all_goals
    simp only [step] at hs
    split at hs
    · rename_i hc
      cases hs
      refine lh_keep s _ h rfl ?_ ?_
      · intro q
        first
          | rfl
          | (simp only [setPh, setW]; split <;> simp_all [heldBy])
      · intro j
        first
          | exact Iff.rfl
          | (simp only [setPh, setW]; split <;> simp_all)
    · cases hs

/-! ### seeds, full masks, the apex -/

structure LQ (ops : List Pos) (depth : Nat) (s : S) : Prop where
  seedS : ∀ rest, s.pc = .seeding rest → rest ≠ [] ∧ rest.Nodup ∧ ∀ p ∈ rest, s.ph p = .waiting
  seedW : ∀ p ∈ ops, p.n + 1 = depth → s.ph p = .waiting → ∃ rest, s.pc = .seeding rest ∧ p ∈ rest
  full : ∀ p ∈ ops, p.n + 1 < depth → s.ph p = .waiting → allBits (s.mask p) → s.pc = .releasing p
  apexN : late s.pc = false → s.ph s.apex ≠ .retired

theorem lq_init (ops : List Pos) (apex : Pos) (depth : Nat) (seeds : List Pos) (pre : Pos → Nat)
    (cfg : Cfg ops apex depth seeds pre) (hsn : seeds.Nodup)
    (hchild : ∀ p ∈ ops, p.n + 1 < depth → ∃ k, k < 4 ∧ p.child k ∈ ops) (n cap : Nat) :
    LQ ops depth (init n cap apex seeds pre) := by
  refine ⟨?_, ?_, ?_, ?_⟩
  · intro rest hr
    simp only [init] at hr
    by_cases hs : seeds = []
    · simp [hs] at hr
    · simp only [hs, if_false, PC.seeding.injEq] at hr
      subst hr
      exact ⟨hs, hsn, fun _ _ => rfl⟩
  · intro p hp hl _
    have hps : p ∈ seeds := (cfg.seedsSpec p).2 ⟨hp, hl⟩
    have hs : seeds ≠ [] := by intro e; rw [e] at hps; cases hps
    exact ⟨seeds, by simp [init, hs], hps⟩
  · intro p hp hl _ hb
    exfalso
    obtain ⟨k, hk, hc⟩ := hchild p hp hl
    have := ((cfg.preSpec p hp hl).2 k hk).1 (hb k hk)
    exact this hc
  · intro _; simp [init]

theorem lq_keep (ops : List Pos) (depth : Nat) (s s' : S) (h : LQ ops depth s) (hap : s'.apex = s.apex) (hm : s'.mask = s.mask)
    (hwt : ∀ q, s'.ph q = .waiting ↔ s.ph q = .waiting)
    (hret : ∀ q, s'.ph q = .retired → s.ph q = .retired)
    (hpcS : ∀ r, s'.pc = .seeding r ↔ s.pc = .seeding r)
    (hpcR : ∀ p, s.pc = .releasing p → s'.pc = .releasing p)
    (hlate : late s'.pc = false → late s.pc = false) : LQ ops depth s' := by
  refine ⟨?_, ?_, ?_, ?_⟩
  · intro rest hr
    obtain ⟨a0, a, b⟩ := h.seedS rest ((hpcS rest).1 hr)
    exact ⟨a0, a, fun p hp => (hwt p).2 (b p hp)⟩
  · intro p hp hl hw
    obtain ⟨rest, a, b⟩ := h.seedW p hp hl ((hwt p).1 hw)
    exact ⟨rest, (hpcS rest).2 a, b⟩
  · intro p hp hl hw hb
    rw [hm] at hb
    exact hpcR p (h.full p hp hl ((hwt p).1 hw) hb)
  · intro hl hr
    rw [hap] at hr
    exact h.apexN (hlate hl) (hret _ hr)

theorem lq_step (ops : List Pos) (depth : Nat) (s s' : S) (l : L) (hi' : InvPh ops depth s') (h : LQ ops depth s)
    (hs : step s l = some s') : LQ ops depth s' := by
  cases l
  case seed p =>
    obtain ⟨rest, hpc, hw, hph, hpc', _, hm, _, _, _, _, hap, _⟩ := seed_effect s s' p hs
    obtain ⟨_, hnd, hall⟩ := h.seedS _ hpc
    rw [List.nodup_cons] at hnd
    refine ⟨?_, ?_, ?_, ?_⟩
    · intro r hr
      rw [hpc'] at hr
      by_cases e : rest = []
      · simp [e] at hr
      · simp only [e, if_false, PC.seeding.injEq] at hr
        subst hr
        refine ⟨e, hnd.2, ?_⟩
        intro q hq
        have hqp : q ≠ p := by intro e2; subst e2; exact hnd.1 hq
        rw [hph]; simp only [hqp, if_false]
        exact hall q (List.mem_cons_of_mem _ hq)
    · intro q hq hl hqw
      rw [hph] at hqw
      have hqp : q ≠ p := by intro e2; subst e2; simp at hqw
      simp only [hqp, if_false] at hqw
      obtain ⟨r0, hr0, hq0⟩ := h.seedW q hq hl hqw
      rw [hpc] at hr0
      simp only [PC.seeding.injEq] at hr0
      subst hr0
      have hqr : q ∈ rest := by
        rcases List.mem_cons.1 hq0 with e | e
        · exact absurd e hqp
        · exact e
      have hne : rest ≠ [] := by intro e; rw [e] at hqr; cases hqr
      exact ⟨rest, by rw [hpc']; simp [hne], hqr⟩
    · intro q hq hl hqw hb
      rw [hph] at hqw
      have hqp : q ≠ p := by intro e2; subst e2; simp at hqw
      simp only [hqp, if_false] at hqw
      rw [hm] at hb
      have := h.full q hq hl hqw hb
      rw [hpc] at this; cases this
    · intro _
      rw [hap, hph]
      by_cases e : s.apex = p
      · simp [e]
      · simp only [e, if_false]
        exact h.apexN (by rw [hpc]; rfl)
  case release p =>
    simp only [step] at hs
    split at hs
    · rename_i hc
      obtain ⟨hpc, hw⟩ := hc
      cases hs
      refine ⟨?_, ?_, ?_, ?_⟩
      · intro r hr; cases hr
      · intro q hq hl hqw
        simp only [setPh] at hqw
        have hqp : q ≠ p := by intro e2; subst e2; simp at hqw
        simp only [hqp, if_false] at hqw
        obtain ⟨r0, hr0, _⟩ := h.seedW q hq hl hqw
        rw [hpc] at hr0; cases hr0
      · intro q hq hl hqw hb
        simp only [setPh] at hqw hb
        have hqp : q ≠ p := by intro e2; subst e2; simp at hqw
        simp only [hqp, if_false] at hqw
        have := h.full q hq hl hqw hb
        rw [hpc] at this
        simp only [PC.releasing.injEq] at this
        exact absurd this.symm hqp
      · intro _
        simp only [setPh]
        by_cases e : s.apex = p
        · simp [e]
        · simp only [e, if_false]
          exact h.apexN (by rw [hpc]; rfl)
    · cases hs
  case drecv p =>
    obtain ⟨hpc, hp, hph, _, _, _, _, _, hap, _, hcase⟩ := drecv_effect s s' p hs
    have hnotseed : ∀ r, s'.pc ≠ .seeding r := by
      intro r hr
      rcases hcase with ⟨_, a, _⟩ | ⟨_, _, ⟨_, a⟩ | ⟨_, a⟩⟩ <;> rw [a] at hr <;> cases hr
    refine ⟨?_, ?_, ?_, ?_⟩
    · intro r hr; exact absurd hr (hnotseed r)
    · intro q hq hl hqw
      rw [hph] at hqw
      have hqp : q ≠ p := by intro e2; subst e2; simp at hqw
      simp only [hqp, if_false] at hqw
      obtain ⟨r0, hr0, _⟩ := h.seedW q hq hl hqw
      rw [hpc] at hr0; cases hr0
    · intro q hq hl hqw hb
      have hm16 := (hi'.masks q hq hl hqw).1
      rw [hph] at hqw
      have hqp : q ≠ p := by intro e2; subst e2; simp at hqw
      simp only [hqp, if_false] at hqw
      rcases hcase with ⟨_, _, hm⟩ | ⟨_, hm, hrel⟩
      · rw [hm] at hb
        have := h.full q hq hl hqw hb
        rw [hpc] at this; cases this
      · by_cases e : q = p.parent
        · have hr : Gen.walk_release (s'.mask q) = true := (bits_release _ hm16).2 hb
          rw [hm] at hr
          simp only [e, if_true] at hr
          rcases hrel with ⟨_, a⟩ | ⟨a, _⟩
          · rw [a, e]
          · rw [a] at hr; cases hr
        · rw [hm] at hb
          simp only [e, if_false] at hb
          have := h.full q hq hl hqw hb
          rw [hpc] at this; cases this
    · intro hl
      rw [hap, hph]
      rcases hcase with ⟨_, a, _⟩ | ⟨hne, _, _⟩
      · rw [a] at hl; cases hl
      · have e : s.apex ≠ p := fun e => hne e.symm
        simp only [e, if_false]
        exact h.apexN (by rw [hpc]; rfl)
  all_goals
    simp only [step] at hs
    split at hs
    · rename_i hc
      cases hs
      refine lq_keep ops depth s _ h rfl rfl ?_ ?_ ?_ ?_ ?_
      · intro q
        first
          | exact Iff.rfl
          | (simp only [setPh, setW]; split <;> simp_all)
      · intro q
        first
          | exact id
          | (simp only [setPh, setW]; split <;> simp_all)
      · intro r
        first
          | exact Iff.rfl
          | (simp_all; done)
          | (simp only [setPh, setW]; split <;> simp_all)
      · intro q hq
        first
          | exact hq
          | (simp_all; done)
      · intro hl
        first
          | exact hl
          | (simp_all [late]; done)
          | (simp only [setPh, setW] at hl; split at hl <;> simp_all [late])
    · cases hs

/-! ### the measure -/

def sumWk (s : S) (g : W → Nat) : Nat := ((List.range s.n).map (fun k => g (s.ws k))).sum

theorem sum_range_upd (ws : Nat → W) (g : W → Nat) (k : Nat) (w : W) : ∀ n, k < n →
    ((List.range n).map (fun j => g (if j = k then w else ws j))).sum + g (ws k)
      = ((List.range n).map (fun j => g (ws j))).sum + g w := by
  intro n
  induction n with
  | zero => intro h; omega
  | succ n ih =>
    intro h
    rw [List.range_succ, List.map_append, List.map_append, List.sum_append, List.sum_append]
    simp only [List.map_cons, List.map_nil, List.sum_cons, List.sum_nil, Nat.add_zero]
    by_cases hk : k = n
    · subst hk
      have hsame : (List.range k).map (fun j => g (if j = k then w else ws j)) = (List.range k).map (fun j => g (ws j)) := by
        apply List.map_congr_left
        intro j hj
        have : j ≠ k := by have := List.mem_range.1 hj; omega
        simp [this]
      rw [hsame]; simp; omega
    · have := ih (by omega)
      have hn : ¬ (n = k) := fun e => hk e.symm
      simp only [hn, if_false]
      omega

theorem sumWk_setW (s s' : S) (g : W → Nat) (k : Nat) (w : W) (hk : k < s.n) (hn : s'.n = s.n)
    (hws : s'.ws = fun j => if j = k then w else s.ws j) :
    sumWk s' g + g (s.ws k) = sumWk s g + g w := by
  unfold sumWk; rw [hn, hws]
  exact sum_range_upd s.ws g k w s.n hk

def pcRank (s : S) : Nat :=
  match s.pc with
  | .seeding _ => 2 * s.n + 20
  | .starting j => 2 * s.n + 10 - j
  | .releasing _ => s.n + 9
  | .idle => s.n + 8
  | .dlocked => s.n + 7
  | .closing => s.n + 6
  | .closed => s.n + 5
  | .joined => s.n + 4
  | .joining j => s.n + 1 - j
  | .returned => 0

/-- distance of a worker from the next thing it has to do: take the lock (flag down) or exit (flag up) -/
def wrank (flag : Bool) : W → Nat
  | .ready => 6
  | .afterEmpty => if flag then 2 else 5
  | .top => 4
  | .locked => 3
  | _ => 0

def phaseW (ops : List Pos) (s : S) : Nat := sumP ops s phW
def workW (s : S) : Nat := sumWk s (wrank s.flag)

def Lt (ops : List Pos) (s' s : S) : Prop :=
  phaseW ops s' < phaseW ops s ∨ (phaseW ops s' = phaseW ops s ∧ pcRank s' < pcRank s) ∨
    (phaseW ops s' = phaseW ops s ∧ pcRank s' = pcRank s ∧ workW s' < workW s)

theorem lt_phase (ops : List Pos) (s s' : S) (p : Pos) (f : Phase) (hnd : ops.Nodup) (hp : p ∈ ops)
    (hph : s'.ph = fun q => if q = p then f else s.ph q) (hr : (s.ph p).rank < f.rank) : Lt ops s' s := by
  left
  have := sumP_setPh ops s s' phW p f hnd hp hph
  have h8 : f.rank ≤ 8 := by cases f <;> simp [Phase.rank]
  unfold phaseW
  simp only [phW] at this
  omega

theorem lt_pc (ops : List Pos) (s s' : S) (hph : s'.ph = s.ph) (hr : pcRank s' < pcRank s) : Lt ops s' s := by
  right; left
  exact ⟨sumP_congr ops s s' phW (fun q _ => by rw [hph]), hr⟩

theorem lt_worker (ops : List Pos) (s s' : S) (k : Nat) (w : W) (hk : k < s.n) (hph : s'.ph = s.ph) (hn : s'.n = s.n)
    (hpc : s'.pc = s.pc) (hf : s'.flag = s.flag) (hws : s'.ws = fun j => if j = k then w else s.ws j)
    (hr : wrank s.flag w < wrank s.flag (s.ws k)) : Lt ops s' s := by
  right; right
  refine ⟨sumP_congr ops s s' phW (fun q _ => by rw [hph]), by unfold pcRank; rw [hpc, hn], ?_⟩
  have := sumWk_setW s s' (wrank s.flag) k w hk hn hws
  unfold workW; rw [hf]; omega

/-! ### enabled, measure-decreasing transitions -/

theorem prog_rflush (ops : List Pos) (hnd : ops.Nodup) (s : S) (p : Pos) (hp : p ∈ ops) (h : s.ph p = .rbuf) :
    ∃ l s', step s l = some s' ∧ Lt ops s' s :=
  ⟨.rflush p, setPh s p .rpipe, by simp [step, h], lt_phase ops s _ p .rpipe hnd hp rfl (by rw [h]; simp [Phase.rank])⟩

theorem prog_dflush (ops : List Pos) (hnd : ops.Nodup) (s : S) (p : Pos) (k : Nat) (hp : p ∈ ops) (h : s.ph p = .dbuf k) :
    ∃ l s', step s l = some s' ∧ Lt ops s' s :=
  ⟨.dflush k p, setPh s p .dpipe, by simp [step, h], lt_phase ops s _ p .dpipe hnd hp rfl (by rw [h]; simp [Phase.rank])⟩

theorem prog_cbBegin (ops : List Pos) (hnd : ops.Nodup) (s : S) (p : Pos) (k : Nat) (hp : p ∈ ops) (hk : k < s.n)
    (h : s.ph p = .have k) : ∃ l s', step s l = some s' ∧ Lt ops s' s :=
  ⟨.cbBegin k p, { setPh s p (.running k) with log := s.log ++ [.cbBegin p] }, by simp [step, h, hk],
    lt_phase ops s _ p (.running k) hnd hp rfl (by rw [h]; simp [Phase.rank])⟩

theorem prog_cbEnd (ops : List Pos) (hnd : ops.Nodup) (s : S) (p : Pos) (k : Nat) (hp : p ∈ ops) (hk : k < s.n)
    (h : s.ph p = .running k) : ∃ l s', step s l = some s' ∧ Lt ops s' s :=
  ⟨.cbEnd k p, { setPh s p (.ran k) with log := s.log ++ [.cbEnd p] }, by simp [step, h, hk],
    lt_phase ops s _ p (.ran k) hnd hp rfl (by rw [h]; simp [Phase.rank])⟩

theorem prog_dput (ops : List Pos) (hnd : ops.Nodup) (s : S) (p : Pos) (k : Nat) (hp : p ∈ ops) (hk : k < s.n)
    (h : s.ph p = .ran k) (hw : s.ws k = .busy) (hcap : s.cap = 0 ∨ s.dout < s.cap) : ∃ l s', step s l = some s' ∧ Lt ops s' s :=
  ⟨.dput k p, { setW (setPh s p (.dbuf k)) k .top with dout := s.dout + 1 }, by simp [step, h, hk, hw, hcap],
    lt_phase ops s _ p (.dbuf k) hnd hp rfl (by rw [h]; simp [Phase.rank])⟩

theorem prog_rrecv (ops : List Pos) (hnd : ops.Nodup) (s : S) (p : Pos) (k : Nat) (hp : p ∈ ops) (hk : k < s.n)
    (h : s.ph p = .rpipe) (hl : s.rlock = some k) (hw : s.ws k = .locked) : ∃ l s', step s l = some s' ∧ Lt ops s' s :=
  ⟨.rrecv k p, { setPh (setW s k .busy) p (.have k) with rlock := none }, by simp [step, h, hk, hw, hl],
    lt_phase ops s _ p (.have k) hnd hp rfl (by rw [h]; simp [Phase.rank])⟩

theorem prog_seed (ops : List Pos) (hnd : ops.Nodup) (s : S) (p : Pos) (rest : List Pos) (hp : p ∈ ops)
    (hpc : s.pc = .seeding (p :: rest)) (h : s.ph p = .waiting) : ∃ l s', step s l = some s' ∧ Lt ops s' s :=
  ⟨.seed p, { setPh s p .rbuf with pc := if rest = [] then .starting 0 else .seeding rest }, by simp [step, h, hpc],
    lt_phase ops s _ p .rbuf hnd hp rfl (by rw [h]; simp [Phase.rank])⟩

theorem prog_release (ops : List Pos) (hnd : ops.Nodup) (s : S) (p : Pos) (hp : p ∈ ops)
    (hpc : s.pc = .releasing p) (h : s.ph p = .waiting) : ∃ l s', step s l = some s' ∧ Lt ops s' s :=
  ⟨.release p, { setPh s p .rbuf with pc := .idle }, by simp [step, h, hpc],
    lt_phase ops s _ p .rbuf hnd hp rfl (by rw [h]; simp [Phase.rank])⟩

theorem drecv_enabled (s : S) (p : Pos) (hpc : s.pc = .dlocked) (h : s.ph p = .dpipe) : ∃ s', step s (.drecv p) = some s' := by
  simp only [step, hpc, h, and_self, if_true, bump]
  by_cases e1 : (Gen.walk_stop_on_apex = true ∧ p = s.apex)
  · rw [if_pos e1]; exact ⟨_, rfl⟩
  · rw [if_neg e1]
    by_cases e2 : Gen.walk_release (Gen.walk_flags_update (s.mask p.parent) (Gen.walk_bit_num (p.x % 2) (p.y % 2))) = true
    · simp only [e2, if_true]; exact ⟨_, rfl⟩
    · simp only [e2, Bool.false_eq_true, if_false]; exact ⟨_, rfl⟩

theorem prog_drecv (ops : List Pos) (hnd : ops.Nodup) (s : S) (p : Pos) (hp : p ∈ ops)
    (hpc : s.pc = .dlocked) (h : s.ph p = .dpipe) : ∃ l s', step s l = some s' ∧ Lt ops s' s := by
  obtain ⟨s', hs⟩ := drecv_enabled s p hpc h
  obtain ⟨_, _, hph, _⟩ := drecv_effect s s' p hs
  exact ⟨.drecv p, s', hs, lt_phase ops s s' p .retired hnd hp hph (by rw [h]; simp [Phase.rank])⟩

theorem prog_dlock (ops : List Pos) (s : S) (hpc : s.pc = .idle) : ∃ l s', step s l = some s' ∧ Lt ops s' s :=
  ⟨.dlock, { s with pc := .dlocked }, by simp [step, hpc], lt_pc ops s _ rfl (by simp [pcRank, hpc])⟩

theorem prog_close (ops : List Pos) (s : S) (hpc : s.pc = .closing) : ∃ l s', step s l = some s' ∧ Lt ops s' s :=
  ⟨.close, { s with pc := .closed }, by simp [step, hpc], lt_pc ops s _ rfl (by simp [pcRank, hpc])⟩

theorem prog_joinThread (ops : List Pos) (s : S) (hpc : s.pc = .closed) : ∃ l s', step s l = some s' ∧ Lt ops s' s :=
  ⟨.joinThread, { s with pc := .joined }, by simp [step, hpc], lt_pc ops s _ rfl (by simp [pcRank, hpc])⟩

theorem prog_setFlag (ops : List Pos) (s : S) (hpc : s.pc = .joined) : ∃ l s', step s l = some s' ∧ Lt ops s' s :=
  ⟨.setFlag, { s with pc := .joining 0, flag := true }, by simp [step, hpc], lt_pc ops s _ rfl (by simp [pcRank, hpc])⟩

theorem prog_join (ops : List Pos) (s : S) (k : Nat) (hpc : s.pc = .joining k) (hk : k < s.n) (hw : s.ws k = .exited) :
    ∃ l s', step s l = some s' ∧ Lt ops s' s := by
  refine ⟨.join k, { s with pc := if k + 1 = s.n then .returned else .joining (k + 1) }, by simp [step, hpc, hk, hw], ?_⟩
  refine lt_pc ops s _ rfl ?_
  simp only [pcRank, hpc]
  have h1 : 0 < s.n + 1 - k := by omega
  have h2 : s.n + 1 - (k + 1) < s.n + 1 - k := by omega
  by_cases e : k + 1 = s.n
  · rw [if_pos e]; exact h1
  · rw [if_neg e]; exact h2

theorem prog_start (ops : List Pos) (s : S) (k : Nat) (hpc : s.pc = .starting k) (hk : k < s.n) (hw : s.ws k = .notStarted) :
    ∃ l s', step s l = some s' ∧ Lt ops s' s := by
  refine ⟨.start k, { setW s k .ready with pc := if k + 1 = s.n then .idle else .starting (k + 1) }, by simp [step, hpc, hk, hw], ?_⟩
  refine lt_pc ops s _ rfl ?_
  simp only [pcRank, hpc]
  have h1 : s.n + 8 < 2 * s.n + 10 - k := by omega
  have h2 : 2 * s.n + 10 - (k + 1) < 2 * s.n + 10 - k := by omega
  by_cases e : k + 1 = s.n
  · rw [if_pos e]; exact h1
  · rw [if_neg e]; exact h2

/-- a started worker that holds no tile and has not exited moves towards its next action, provided the reader lock is free
or the done flag is up -/
theorem advance (ops : List Pos) (s : S) (lw : LW s) (k : Nat) (hk : k < s.n) (hns : s.ws k ≠ .notStarted) (hnb : s.ws k ≠ .busy)
    (hne : s.ws k ≠ .exited) (hcond : s.flag = true ∨ s.rlock = none) : ∃ l s', step s l = some s' ∧ Lt ops s' s := by
  cases hw : s.ws k with
  | notStarted => exact absurd hw hns
  | busy => exact absurd hw hnb
  | exited => exact absurd hw hne
  | ready =>
    refine ⟨.begin k, setW s k .top, by simp [step, hk, hw], ?_⟩
    exact lt_worker ops s _ k .top hk rfl rfl rfl rfl rfl (by rw [hw]; simp [wrank])
  | afterEmpty =>
    refine ⟨.flagQ k s.flag, setW s k (if s.flag then .exited else .top), by simp [step, hk, hw], ?_⟩
    exact lt_worker ops s _ k _ hk rfl rfl rfl rfl rfl (by rw [hw]; cases s.flag <;> simp [wrank])
  | locked =>
    have hl : s.rlock = some k := (lw.lockIff k).2 ⟨hk, hw⟩
    have hf : s.flag = true := by
      rcases hcond with h | h
      · exact h
      · rw [hl] at h; cases h
    refine ⟨.rempty k, { setW s k .afterEmpty with rlock := none }, by simp [step, hk, hw, hl], ?_⟩
    exact lt_worker ops s _ k .afterEmpty hk rfl rfl rfl rfl rfl (by rw [hw, hf]; simp [wrank])
  | top =>
    cases hl : s.rlock with
    | none =>
      refine ⟨.rlock k, { setW s k .locked with rlock := some k }, by simp [step, hk, hw, hl], ?_⟩
      exact lt_worker ops s _ k .locked hk rfl rfl rfl rfl rfl (by rw [hw]; simp [wrank])
    | some m =>
      have hf : s.flag = true := by
        rcases hcond with h | h
        · exact h
        · rw [hl] at h; cases h
      have hmk : m ≠ k := by
        intro e; subst e
        have := ((lw.lockIff m).1 hl).2
        rw [hw] at this; cases this
      have hother : lockedByOther s k = true := by simp [lockedByOther, hl, hmk]
      refine ⟨.rlockTimeout k, setW s k .afterEmpty, by simp [step, hk, hw, hother], ?_⟩
      exact lt_worker ops s _ k .afterEmpty hk rfl rfl rfl rfl rfl (by rw [hw, hf]; simp [wrank])

/-! ### facts about quiescent states -/

theorem level_ge (ops : List Pos) (apex : Pos) (depth : Nat) (seeds : List Pos) (pre : Pos → Nat)
    (cfg : Cfg ops apex depth seeds pre) : ∀ (m : Nat) (q : Pos), q ∈ ops → q.n = m → apex.n ≤ q.n := by
  intro m
  induction m using Nat.strongRecOn with
  | _ m ih =>
    intro q hq hm
    by_cases hqa : q = apex
    · rw [hqa]; exact Nat.le_refl _
    · obtain ⟨h1, h2⟩ := cfg.parentIn q hq hqa
      have := ih (q.parent.n) (by simp only [Pos.parent]; omega) q.parent h2 rfl
      simp only [Pos.parent] at this; omega

theorem all_retired (ops : List Pos) (apex : Pos) (depth : Nat) (seeds : List Pos) (pre : Pos → Nat)
    (cfg : Cfg ops apex depth seeds pre) (s : S) (h : InvPh ops depth s) (hap : s.ph apex = .retired) :
    ∀ p ∈ ops, s.ph p = .retired := by
  intro p hp
  have hge := level_ge ops apex depth seeds pre cfg _ p hp rfl
  exact retired_down ops apex depth seeds pre cfg s h hap (p.n - apex.n) p hp (by omega)

theorem sumP_zero (ops : List Pos) (s : S) (g : Phase → Nat) (h : ∀ q ∈ ops, g (s.ph q) = 0) : sumP ops s g = 0 := by
  unfold sumP
  induction ops with
  | nil => rfl
  | cons a as ih =>
    simp only [List.map_cons, List.sum_cons]
    rw [h a (by simp), ih (fun q hq => h q (by simp [hq]))]

/-- while the dispatcher is in its loop, it is not the case that every operation is either waiting or retired: a waiting
operation of the deepest level would be an unseeded leaf-parent or a parent whose mask is full and was not released -/
theorem not_quiescent (ops : List Pos) (apex : Pos) (depth : Nat) (seeds : List Pos) (pre : Pos → Nat)
    (cfg : Cfg ops apex depth seeds pre) (s : S) (hi : InvPh ops depth s) (hw : InvW apex s) (lq : LQ ops depth s)
    (hpc : s.pc = .idle ∨ s.pc = .dlocked) (hall : ∀ p ∈ ops, s.ph p = .waiting ∨ s.ph p = .retired) : False := by
  have hnotw : ∀ (d : Nat) (p : Pos), p ∈ ops → depth - p.n = d → s.ph p ≠ .waiting := by
    intro d
    induction d using Nat.strongRecOn with
    | _ d ih =>
      intro p hp hd hpw
      have hlv := cfg.level p hp
      by_cases hleaf : p.n + 1 = depth
      · obtain ⟨r, hr, _⟩ := lq.seedW p hp hleaf hpw
        rcases hpc with e | e <;> rw [e] at hr <;> cases hr
      · have hl : p.n + 1 < depth := by omega
        have hfull : allBits (s.mask p) := by
          intro k hk
          rw [((hi.masks p hp hl hpw).2 k hk)]
          by_cases hc : p.child k ∈ ops
          · right
            rcases hall _ hc with e | e
            · exact absurd e (ih (depth - (p.child k).n) (by simp only [Pos.child]; omega) _ hc rfl)
            · exact e
          · left; exact hc
        have := lq.full p hp hl hpw hfull
        rcases hpc with e | e <;> rw [e] at this <;> cases this
  have hap : s.ph apex ≠ .retired := by
    have := lq.apexN (by rcases hpc with e | e <;> rw [e] <;> rfl)
    rw [hw.apexC] at this; exact this
  rcases hall apex cfg.apexIn with e | e
  · exact hnotw _ apex cfg.apexIn rfl e
  · exact hap e

/-! ### progress -/

/-- **Progress.**  In every state that satisfies the invariants and in which `walk` has not returned, some transition is
enabled that decreases the measure. -/
theorem progress (ops : List Pos) (apex : Pos) (depth : Nat) (seeds : List Pos) (pre : Pos → Nat)
    (cfg : Cfg ops apex depth seeds pre) (s : S) (hi : InvPh ops depth s) (hw : InvW apex s) (lw : LW s) (lc : LC ops s)
    (lh : LH s) (lq : LQ ops depth s) (hp : s.pc ≠ .returned) : ∃ l s', step s l = some s' ∧ Lt ops s' s := by
  have hnd := cfg.nodup
  have hn0 := lw.npos
  have hin : ∀ p, s.ph p ≠ .waiting → p ∈ ops := by
    intro p hp
    by_cases e : p ∈ ops
    · exact e
    · exact absurd (hi.outside p e) hp
  have main : (s.pc = .idle ∨ s.pc = .dlocked) → ∃ l s', step s l = some s' ∧ Lt ops s' s := by
    intro hpc
    have hflag : s.flag = false := by
      cases hf : s.flag with
      | false => rfl
      | true => rcases lw.flagIff.1 hf with ⟨j, e⟩ | e <;> rcases hpc with e' | e' <;> rw [e'] at e <;> cases e
    have hst : ∀ k, k < s.n → s.ws k ≠ .notStarted := by
      intro k hk e
      rcases (lw.ns k hk).1 e with ⟨r, e2⟩ | ⟨j, e2, _⟩ <;> rcases hpc with e' | e' <;> rw [e'] at e2 <;> cases e2
    by_cases h1 : ∃ p, s.ph p = .dpipe
    · obtain ⟨p, h⟩ := h1
      rcases hpc with e | e
      · exact prog_dlock ops s e
      · exact prog_drecv ops hnd s p (hin p (by rw [h]; simp)) e h
    by_cases h2 : ∃ p, s.ph p = .rbuf
    · obtain ⟨p, h⟩ := h2
      exact prog_rflush ops hnd s p (hin p (by rw [h]; simp)) h
    by_cases h3 : ∃ p k, s.ph p = .dbuf k
    · obtain ⟨p, k, h⟩ := h3
      exact prog_dflush ops hnd s p k (hin p (by rw [h]; simp)) h
    by_cases h4 : ∃ p k, s.ph p = .have k
    · obtain ⟨p, k, h⟩ := h4
      exact prog_cbBegin ops hnd s p k (hin p (by rw [h]; simp)) (lh.held p k (by rw [h]; rfl)).1 h
    by_cases h5 : ∃ p k, s.ph p = .running k
    · obtain ⟨p, k, h⟩ := h5
      exact prog_cbEnd ops hnd s p k (hin p (by rw [h]; simp)) (lh.held p k (by rw [h]; rfl)).1 h
    by_cases h6 : ∃ p k, s.ph p = .ran k
    · obtain ⟨p, k, h⟩ := h6
      obtain ⟨hk, hwk⟩ := lh.held p k (by rw [h]; rfl)
      have hd0 : s.dout = 0 := by
        have : s.dout = sumP ops s isD := lc
        rw [this]
        apply sumP_zero
        intro q _
        cases hq : s.ph q with
        | dbuf j => exact absurd ⟨q, j, hq⟩ h3
        | dpipe => exact absurd ⟨q, hq⟩ h1
        | _ => rfl
      exact prog_dput ops hnd s p k (hin p (by rw [h]; simp)) hk h hwk (by omega)
    have hnobusy : ∀ k, k < s.n → s.ws k ≠ .busy := by
      intro k hk e
      obtain ⟨p, hpk⟩ := lh.busy k hk e
      cases hq : s.ph p with
      | «have» j => exact h4 ⟨p, j, hq⟩
      | running j => exact h5 ⟨p, j, hq⟩
      | ran j => exact h6 ⟨p, j, hq⟩
      | _ => rw [hq] at hpk; simp [heldBy] at hpk
    by_cases h7 : ∃ p, s.ph p = .rpipe
    · obtain ⟨p, h⟩ := h7
      cases hl : s.rlock with
      | some m =>
        obtain ⟨hm, hwm⟩ := (lw.lockIff m).1 hl
        exact prog_rrecv ops hnd s p m (hin p (by rw [h]; simp)) hm h hl hwm
      | none => exact advance ops s lw 0 hn0 (hst 0 hn0) (hnobusy 0 hn0) (lw.noExit hflag 0) (Or.inr hl)
    · exfalso
      apply not_quiescent ops apex depth seeds pre cfg s hi hw lq hpc
      intro q _
      cases hq : s.ph q with
      | waiting => left; rfl
      | retired => right; rfl
      | rbuf => exact absurd ⟨q, hq⟩ h2
      | rpipe => exact absurd ⟨q, hq⟩ h7
      | «have» j => exact absurd ⟨q, j, hq⟩ h4
      | running j => exact absurd ⟨q, j, hq⟩ h5
      | ran j => exact absurd ⟨q, j, hq⟩ h6
      | dbuf j => exact absurd ⟨q, j, hq⟩ h3
      | dpipe => exact absurd ⟨q, hq⟩ h1
  cases hpc : s.pc with
  | idle => exact main (Or.inl hpc)
  | dlocked => exact main (Or.inr hpc)
  | seeding r =>
    obtain ⟨hne, _, hall⟩ := lq.seedS r hpc
    cases r with
    | nil => exact absurd rfl hne
    | cons q rest => exact prog_seed ops hnd s q rest (hi.seeding _ hpc q (by simp)).1 hpc (hall q (by simp))
  | starting j =>
    have hj := lw.idxS j hpc
    have hwj : s.ws j = .notStarted := (lw.ns j hj).2 (Or.inr ⟨j, hpc, Nat.le_refl _⟩)
    exact prog_start ops s j hpc hj hwj
  | releasing p =>
    obtain ⟨a, _, c, _⟩ := hi.releasing p hpc
    exact prog_release ops hnd s p a hpc c
  | closing => exact prog_close ops s hpc
  | closed => exact prog_joinThread ops s hpc
  | joined => exact prog_setFlag ops s hpc
  | returned => exact absurd hpc hp
  | joining j =>
    have hj := lw.idxJ j hpc
    have hf : s.flag = true := lw.flagIff.2 (Or.inl ⟨j, hpc⟩)
    have hapr : s.ph apex = .retired := hw.apexRetired (by rw [hpc]; rfl)
    have hallr := all_retired ops apex depth seeds pre cfg s hi hapr
    by_cases hex : s.ws j = .exited
    · exact prog_join ops s j hpc hj hex
    · refine advance ops s lw j hj ?_ ?_ hex (Or.inl hf)
      · intro e
        rcases (lw.ns j hj).1 e with ⟨r, e2⟩ | ⟨i, e2, _⟩ <;> rw [hpc] at e2 <;> cases e2
      · intro e
        obtain ⟨p, hpk⟩ := lh.busy j hj e
        have hpin : p ∈ ops := hin p (by intro e2; rw [e2] at hpk; simp [heldBy] at hpk)
        rw [hallr p hpin] at hpk; simp [heldBy] at hpk

/-! ### the liveness theorem -/

structure AllInv (ops : List Pos) (apex : Pos) (depth : Nat) (s : S) : Prop where
  ph : InvPh ops depth s
  w : InvW apex s
  lw : LW s
  lc : LC ops s
  lh : LH s
  lq : LQ ops depth s

theorem all_init (ops : List Pos) (apex : Pos) (depth : Nat) (seeds : List Pos) (pre : Pos → Nat)
    (cfg : Cfg ops apex depth seeds pre) (hsn : seeds.Nodup)
    (hchild : ∀ p ∈ ops, p.n + 1 < depth → ∃ k, k < 4 ∧ p.child k ∈ ops) (n cap : Nat) (hn : 0 < n) :
    AllInv ops apex depth (init n cap apex seeds pre) :=
  ⟨invph_init ops apex depth seeds pre cfg n cap, invw_init n cap apex seeds pre, lw_init n cap apex seeds pre hn,
    (sumP_zero ops _ isD (fun _ _ => rfl)).symm, lh_init n cap apex seeds pre,
    lq_init ops apex depth seeds pre cfg hsn hchild n cap⟩

theorem all_step (ops : List Pos) (apex : Pos) (depth : Nat) (seeds : List Pos) (pre : Pos → Nat)
    (cfg : Cfg ops apex depth seeds pre) (s s' : S) (l : L) (h : AllInv ops apex depth s) (hs : step s l = some s') :
    AllInv ops apex depth s' := by
  have hph' := invph_step ops apex depth seeds pre cfg s s' l h.w.apexC h.ph hs
  exact ⟨hph', invw_step apex s s' l h.w hs, lw_step s s' l h.lw hs, lc_step ops depth s s' l cfg.nodup h.ph h.lc hs,
    lh_step s s' l h.lh hs, lq_step ops depth s s' l hph' h.lq hs⟩

theorem all_run (ops : List Pos) (apex : Pos) (depth : Nat) (seeds : List Pos) (pre : Pos → Nat)
    (cfg : Cfg ops apex depth seeds pre) : ∀ (tr : List L) (s s' : S), AllInv ops apex depth s → run s tr = some s' →
    AllInv ops apex depth s' := by
  intro tr
  induction tr with
  | nil => intro s s' h hr; simp only [run, Option.some.injEq] at hr; subst hr; exact h
  | cons l ls ih =>
    intro s s' h hr
    simp only [run] at hr
    cases hst : step s l with
    | none => rw [hst] at hr; cases hr
    | some s1 =>
      rw [hst] at hr
      exact ih s1 s' (all_step ops apex depth seeds pre cfg s s1 l h hst) hr

theorem run_cons (s s1 : S) (l : L) (tr : List L) (h : step s l = some s1) : run s (l :: tr) = run s1 tr := by
  simp [run, h]

/-- every state satisfying the invariants has a continuation ending with `walk` returned -/
theorem can_finish_inv (ops : List Pos) (apex : Pos) (depth : Nat) (seeds : List Pos) (pre : Pos → Nat)
    (cfg : Cfg ops apex depth seeds pre) : ∀ (a b c : Nat) (s : S), phaseW ops s = a → pcRank s = b → workW s = c →
    AllInv ops apex depth s → ∃ tr s', run s tr = some s' ∧ s'.pc = .returned := by
  intro a
  induction a using Nat.strongRecOn with
  | _ a iha =>
    intro b
    induction b using Nat.strongRecOn with
    | _ b ihb =>
      intro c
      induction c using Nat.strongRecOn with
      | _ c ihc =>
        intro s ha hb hc h
        by_cases hp : s.pc = .returned
        · exact ⟨[], s, rfl, hp⟩
        · obtain ⟨l, s1, hstep, hlt⟩ := progress ops apex depth seeds pre cfg s h.ph h.w h.lw h.lc h.lh h.lq hp
          have h1 := all_step ops apex depth seeds pre cfg s s1 l h hstep
          have key : ∃ tr s', run s1 tr = some s' ∧ s'.pc = .returned := by
            rcases hlt with e | ⟨e1, e2⟩ | ⟨e1, e2, e3⟩
            · exact iha (phaseW ops s1) (by omega) (pcRank s1) (workW s1) s1 rfl rfl rfl h1
            · exact ihb (pcRank s1) (by omega) (workW s1) s1 (by omega) rfl rfl h1
            · exact ihc (workW s1) (by omega) s1 (by omega) (by omega) rfl h1
          obtain ⟨tr, s', hrun, hret⟩ := key
          exact ⟨l :: tr, s', by rw [run_cons s s1 l tr hstep]; exact hrun, hret⟩

/-- **par_walk_progress** (no deadlock, termination always possible): from every reachable state of the parallel walk —
any number of workers, any done-queue capacity, any interleaving so far — there is a continuation after which `walk`
has returned; and in that state every worker has exited and the callback has been started and completed exactly once for
every operation, and for nothing else.  `hchild` (every non-leaf operation has a live child) and `hsn` are delivered by the
prologue, see `C01Red`. -/
theorem par_walk_progress (ops : List Pos) (apex : Pos) (depth : Nat) (seeds : List Pos) (pre : Pos → Nat)
    (cfg : Cfg ops apex depth seeds pre) (hsn : seeds.Nodup)
    (hchild : ∀ p ∈ ops, p.n + 1 < depth → ∃ k, k < 4 ∧ p.child k ∈ ops)
    (n cap : Nat) (hn : 0 < n) (s : S) (hr : Reachable n cap apex seeds pre s) :
    ∃ tr s', run s tr = some s' ∧ s'.pc = .returned ∧ (∀ k, k < s'.n → s'.ws k = .exited) ∧ s'.log.Nodup ∧
      (∀ p, Ev.cbBegin p ∈ s'.log ↔ p ∈ ops) ∧ (∀ p, Ev.cbEnd p ∈ s'.log ↔ p ∈ ops) := by
  obtain ⟨tr0, h0⟩ := hr
  have hall := all_run ops apex depth seeds pre cfg tr0 _ s (all_init ops apex depth seeds pre cfg hsn hchild n cap hn) h0
  obtain ⟨tr, s', hrun, hret⟩ := can_finish_inv ops apex depth seeds pre cfg _ _ _ s rfl rfl rfl hall
  have hr' : Reachable n cap apex seeds pre s' := by
    refine ⟨tr0 ++ tr, ?_⟩
    rw [run_append, h0]; exact hrun
  exact ⟨tr, s', hrun, hret, par_walk_terminal ops apex depth seeds pre cfg n cap s' hr' hret⟩

/-- non-vacuity: the strategy finishes a concrete walk (depth 2, the apex and one live level-1 tile; two workers, capacity 1) -/
example : ∃ tr s', run (init 2 1 ⟨0, 0, 0⟩ [⟨1, 1, 0⟩] (fun p => if p = ⟨0, 0, 0⟩ then 13 else 0)) tr = some s' ∧ s'.pc = .returned := by
  have cfg : Cfg [⟨1, 1, 0⟩, ⟨0, 0, 0⟩] ⟨0, 0, 0⟩ 2 [⟨1, 1, 0⟩] (fun p => if p = ⟨0, 0, 0⟩ then 13 else 0) := by
    refine ⟨by decide, by decide, by decide, by decide, ?_, ?_, by decide⟩
    · intro p
      constructor
      · intro h; simp at h; subst h; decide
      · rintro ⟨h1, h2⟩
        simp at h1
        rcases h1 with e | e
        · subst e; simp
        · subst e; simp at h2
    · intro p hp hl
      simp at hp
      rcases hp with e | e
      · subst e; simp at hl
      · subst e
        refine ⟨by decide, ?_⟩
        decide
  obtain ⟨tr, s', h1, h2, _⟩ := par_walk_progress _ _ _ _ _ cfg (by decide) (by decide) 2 1 (by omega) _ ⟨[], rfl⟩
  exact ⟨tr, s', h1, h2⟩

end C01Live
