/-
C01, liveness half — the parallel walk can always finish.

Same shape as `Props/C03Live.lean`: a second family of invariants (worker / lock / flag bookkeeping,
phase–worker consistency, the done queue's semaphore count, seeding, masks) and a lexicographic measure
(phase ranks of the operations, the dispatcher's counter, worker distances) such that every reachable state
in which the dispatcher has not returned has an enabled transition that decreases the measure.  Hence from
every reachable state some continuation ends with `walk` returned — where, by `C01.par_walk_terminal`,
every worker has exited and the callback has run exactly once for every operation.
-/
import ToastyVerif.Props.C01
import ToastyVerif.Props.C03Live

namespace C01Live
open Walk C01

/-! ### workers, lock, flag -/

structure LW (s : S) : Prop where
  idxS : ∀ j, s.pc = .starting j → j < s.n
  idxJ : ∀ j, s.pc = .joining j → j < s.n
  ns : ∀ k, k < s.n → (s.ws k = .notStarted ↔ ((∃ r, s.pc = .seeding r) ∨ ∃ j, s.pc = .starting j ∧ j ≤ k))
  lockIff : ∀ k, s.rlock = some k ↔ (k < s.n ∧ s.ws k = .locked)
  flagIff : s.flag = true ↔ ((∃ j, s.pc = .joining j) ∨ s.pc = .returned)
  noExit : s.flag = false → ∀ k, s.ws k ≠ .exited
  npos : 0 < s.n

theorem lw_init (n cap : Nat) (apex : Pos) (seeds : List Pos) (pre : Pos → Nat) (hn : 0 < n) :
    LW (init n cap apex seeds pre) := by
  refine ⟨?_, ?_, ?_, ?_, ?_, ?_, hn⟩
  · intro j h; simp only [init] at h ⊢; by_cases hs : seeds = [] <;> simp [hs] at h; omega
  · intro j h; simp only [init] at h; by_cases hs : seeds = [] <;> simp [hs] at h
  · intro k _
    simp only [init, true_iff]
    by_cases hs : seeds = []
    · right; exact ⟨0, by simp [hs], Nat.zero_le _⟩
    · left; exact ⟨seeds, by simp [hs]⟩
  · intro k; simp [init]
  · simp only [init]; by_cases hs : seeds = [] <;> simp [hs]
  · intro _ k; simp [init]

/-- nothing the workers or the dispatcher's counter depend on changes -/
theorem lw_same (s s' : S) (h : LW s) (hn : s'.n = s.n) (hpc : s'.pc = s.pc) (hws : s'.ws = s.ws) (hl : s'.rlock = s.rlock)
    (hf : s'.flag = s.flag) : LW s' := by
  refine ⟨?_, ?_, ?_, ?_, ?_, ?_, by rw [hn]; exact h.npos⟩
  · intro j hj; rw [hpc] at hj; rw [hn]; exact h.idxS j hj
  · intro j hj; rw [hpc] at hj; rw [hn]; exact h.idxJ j hj
  · intro k hk; rw [hn] at hk; rw [hws, hpc]; exact h.ns k hk
  · intro k; rw [hl, hn, hws]; exact h.lockIff k
  · rw [hf, hpc]; exact h.flagIff
  · intro hf' k; rw [hws]; rw [hf] at hf'; exact h.noExit hf' k

/-- the dispatcher's counter moves between two values that are neither start-up nor shut-down values; workers untouched -/
theorem lw_pc_mid (s s' : S) (h : LW s) (hn : s'.n = s.n) (hws : s'.ws = s.ws) (hl : s'.rlock = s.rlock) (hf : s'.flag = s.flag)
    (hold : (∀ r, s.pc ≠ .seeding r) ∧ (∀ j, s.pc ≠ .starting j) ∧ (∀ j, s.pc ≠ .joining j) ∧ s.pc ≠ .returned)
    (hnew : (∀ r, s'.pc ≠ .seeding r) ∧ (∀ j, s'.pc ≠ .starting j) ∧ (∀ j, s'.pc ≠ .joining j) ∧ s'.pc ≠ .returned) : LW s' := by
  refine ⟨?_, ?_, ?_, ?_, ?_, ?_, by rw [hn]; exact h.npos⟩
  · intro j hj; exact absurd hj (hnew.2.1 j)
  · intro j hj; exact absurd hj (hnew.2.2.1 j)
  · intro k hk
    rw [hn] at hk; rw [hws, h.ns k hk]
    constructor
    · rintro (⟨r, hr⟩ | ⟨j, hj, _⟩)
      · exact absurd hr (hold.1 r)
      · exact absurd hj (hold.2.1 j)
    · rintro (⟨r, hr⟩ | ⟨j, hj, _⟩)
      · exact absurd hr (hnew.1 r)
      · exact absurd hj (hnew.2.1 j)
  · intro k; rw [hl, hn, hws]; exact h.lockIff k
  · rw [hf, h.flagIff]
    constructor
    · rintro (⟨j, hj⟩ | hr)
      · exact absurd hj (hold.2.2.1 j)
      · exact absurd hr hold.2.2.2
    · rintro (⟨j, hj⟩ | hr)
      · exact absurd hj (hnew.2.2.1 j)
      · exact absurd hr hnew.2.2.2
  · intro hf' k; rw [hws]; rw [hf] at hf'; exact h.noExit hf' k

/-- worker `k` moves between two states that are none of notStarted / locked / exited; everything else unchanged -/
theorem lw_worker (s s' : S) (k : Nat) (w : W) (h : LW s) (hn : s'.n = s.n) (hpc : s'.pc = s.pc) (hws : s'.ws = (setW s k w).ws)
    (hl : s'.rlock = s.rlock) (hf : s'.flag = s.flag)
    (h0 : s.ws k ≠ .notStarted ∧ s.ws k ≠ .locked) (h1 : w ≠ .notStarted ∧ w ≠ .locked ∧ (w = .exited → s.flag = true)) : LW s' := by
  refine ⟨?_, ?_, ?_, ?_, ?_, ?_, by rw [hn]; exact h.npos⟩
  · intro j hj; rw [hpc] at hj; rw [hn]; exact h.idxS j hj
  · intro j hj; rw [hpc] at hj; rw [hn]; exact h.idxJ j hj
  · intro j hj
    rw [hn] at hj; rw [hws, hpc, ← h.ns j hj]
    simp only [setW]
    by_cases e : j = k
    · subst e; simp [h0.1, h1.1]
    · simp [e]
  · intro j
    rw [hl, hn, hws, h.lockIff j]
    simp only [setW]
    by_cases e : j = k
    · subst e; simp [h0.2, h1.2.1]
    · simp [e]
  · rw [hf, hpc]; exact h.flagIff
  · intro hf' j
    rw [hws]; rw [hf] at hf'
    simp only [setW]
    by_cases e : j = k
    · subst e
      simp only [if_true]
      intro hw
      have := h1.2.2 hw
      rw [hf'] at this; cases this
    · simp only [e, if_false]; exact h.noExit hf' j

theorem mid_of_eq (pc : PC) (h : pc = .idle ∨ pc = .dlocked ∨ (∃ q, pc = .releasing q) ∨ pc = .closing ∨ pc = .closed ∨ pc = .joined) :
    (∀ r, pc ≠ .seeding r) ∧ (∀ j, pc ≠ .starting j) ∧ (∀ j, pc ≠ .joining j) ∧ pc ≠ .returned := by
  rcases h with h | h | ⟨q, h⟩ | h | h | h <;> subst h <;> simp

theorem lw_step (s s' : S) (l : L) (h : LW s) (hs : step s l = some s') : LW s' := by
  have hn0 := h.npos
  cases l with
  | seed p =>
    simp only [step] at hs
    split at hs
    · rename_i q rest hpc
      split at hs
      · cases hs
        refine ⟨?_, ?_, ?_, ?_, ?_, ?_, hn0⟩
        · intro j hj
          simp only [setPh] at hj ⊢
          split at hj
          · cases hj; exact hn0
          · cases hj
        · intro j hj
          simp only [setPh] at hj
          split at hj <;> cases hj
        · intro k hk
          simp only [setPh] at hk ⊢
          rw [h.ns k hk]
          constructor
          · intro _
            by_cases hr : rest = []
            · right; exact ⟨0, by simp [hr], Nat.zero_le _⟩
            · left; exact ⟨rest, by simp [hr]⟩
          · intro _; left; exact ⟨_, hpc⟩
        · intro k; exact h.lockIff k
        · simp only [setPh]
          rw [h.flagIff, hpc]
          constructor
          · rintro (⟨j, hj⟩ | hj) <;> cases hj
          · rintro (⟨j, hj⟩ | hj)
            · split at hj <;> cases hj
            · split at hj <;> cases hj
        · intro hf k; exact h.noExit hf k
      · cases hs
    · cases hs
  | start k =>
    simp only [step] at hs
    split at hs
    · rename_i hc
      obtain ⟨hpc, hk, hw⟩ := hc
      cases hs
      refine ⟨?_, ?_, ?_, ?_, ?_, ?_, hn0⟩
      · intro j hj
        simp only [setW] at hj ⊢
        split at hj
        · cases hj
        · cases hj; omega
      · intro j hj
        simp only [setW] at hj
        split at hj <;> cases hj
      · intro j hj
        simp only [setW] at hj ⊢
        by_cases e : j = k
        · subst e
          simp only [if_true]
          constructor
          · intro hx; cases hx
          · rintro (⟨r, hr⟩ | ⟨i, hi, hle⟩)
            · split at hr <;> cases hr
            · split at hi
              · cases hi
              · cases hi; omega
        · simp only [e, if_false]
          rw [h.ns j hj, hpc]
          constructor
          · rintro (⟨r, hr⟩ | ⟨i, hi, hle⟩)
            · cases hr
            · cases hi
              have : k + 1 ≤ j := by omega
              right
              split
              · omega
              · exact ⟨k + 1, rfl, this⟩
          · rintro (⟨r, hr⟩ | ⟨i, hi, hle⟩)
            · split at hr <;> cases hr
            · split at hi
              · cases hi
              · cases hi; right; exact ⟨k, rfl, by omega⟩
      · intro j
        simp only [setW]
        rw [h.lockIff j]
        by_cases e : j = k
        · subst e; simp [hw]
        · simp [e]
      · simp only [setW]
        rw [h.flagIff, hpc]
        constructor
        · rintro (⟨j, hj⟩ | hj) <;> cases hj
        · rintro (⟨j, hj⟩ | hj)
          · split at hj <;> cases hj
          · split at hj <;> cases hj
      · intro hf j
        simp only [setW]
        by_cases e : j = k
        · subst e; simp
        · simp only [e, if_false]; exact h.noExit hf j
    · cases hs
  | begin k =>
    simp only [step] at hs
    split at hs
    · rename_i hc
      cases hs
      exact lw_worker s _ k .top h rfl rfl rfl rfl rfl (by rw [hc.2]; simp) (by simp)
    · cases hs
  | rflush p =>
    simp only [step] at hs
    split at hs
    · cases hs; exact lw_same s _ h rfl rfl rfl rfl rfl
    · cases hs
  | dflush k p =>
    simp only [step] at hs
    split at hs
    · cases hs; exact lw_same s _ h rfl rfl rfl rfl rfl
    · cases hs
  | dlock =>
    simp only [step] at hs
    split at hs
    · rename_i hc
      cases hs
      exact lw_pc_mid s _ h rfl rfl rfl rfl (mid_of_eq _ (Or.inl hc)) (mid_of_eq _ (Or.inr (Or.inl rfl)))
    · cases hs
  | dempty =>
    simp only [step] at hs
    split at hs
    · rename_i hc
      cases hs
      exact lw_pc_mid s _ h rfl rfl rfl rfl (mid_of_eq _ (Or.inr (Or.inl hc))) (mid_of_eq _ (Or.inl rfl))
    · cases hs
  | drecv p =>
    simp only [step] at hs
    split at hs
    · rename_i hc
      have hold := mid_of_eq _ (Or.inr (Or.inl hc.1))
      split at hs
      · cases hs
        exact lw_pc_mid s _ h rfl rfl rfl rfl hold (mid_of_eq _ (Or.inr (Or.inr (Or.inr (Or.inl rfl)))))
      · simp only [bump] at hs
        by_cases hrel : Gen.walk_release (Gen.walk_flags_update (s.mask p.parent) (Gen.walk_bit_num (p.x % 2) (p.y % 2))) = true
        · simp only [hrel, if_true, Option.some.injEq] at hs; subst hs
          exact lw_pc_mid s _ h rfl rfl rfl rfl hold (mid_of_eq _ (Or.inr (Or.inr (Or.inl ⟨_, rfl⟩))))
        · simp only [hrel, Bool.false_eq_true, if_false, Option.some.injEq] at hs; subst hs
          exact lw_pc_mid s _ h rfl rfl rfl rfl hold (mid_of_eq _ (Or.inl rfl))
    · cases hs
  | release p =>
    simp only [step] at hs
    split at hs
    · rename_i hc
      cases hs
      exact lw_pc_mid s _ h rfl rfl rfl rfl (mid_of_eq _ (Or.inr (Or.inr (Or.inl ⟨_, hc.1⟩)))) (mid_of_eq _ (Or.inl rfl))
    · cases hs
  | close =>
    simp only [step] at hs
    split at hs
    · rename_i hc
      cases hs
      exact lw_pc_mid s _ h rfl rfl rfl rfl (mid_of_eq _ (Or.inr (Or.inr (Or.inr (Or.inl hc))))) (mid_of_eq _ (Or.inr (Or.inr (Or.inr (Or.inr (Or.inl rfl))))))
    · cases hs
  | joinThread =>
    simp only [step] at hs
    split at hs
    · rename_i hc
      cases hs
      exact lw_pc_mid s _ h rfl rfl rfl rfl (mid_of_eq _ (Or.inr (Or.inr (Or.inr (Or.inr (Or.inl hc)))))) (mid_of_eq _ (Or.inr (Or.inr (Or.inr (Or.inr (Or.inr rfl))))))
    · cases hs
  | setFlag =>
    simp only [step] at hs
    split at hs
    · rename_i hc
      cases hs
      refine ⟨?_, ?_, ?_, ?_, ?_, ?_, hn0⟩
      · intro j hj; cases hj
      · intro j hj; cases hj; exact hn0
      · intro k hk
        rw [h.ns k hk, hc]
        constructor
        · rintro (⟨r, hr⟩ | ⟨j, hj, _⟩)
          · cases hr
          · cases hj
        · rintro (⟨r, hr⟩ | ⟨j, hj, _⟩)
          · cases hr
          · cases hj
      · intro k; exact h.lockIff k
      · simp
      · intro hf; cases hf
    · cases hs
  | join k =>
    simp only [step] at hs
    split at hs
    · rename_i hc
      obtain ⟨hpc, hk, hw⟩ := hc
      have hf : s.flag = true := h.flagIff.2 (Or.inl ⟨k, hpc⟩)
      cases hs
      refine ⟨?_, ?_, ?_, ?_, ?_, ?_, hn0⟩
      · intro j hj
        simp only at hj
        split at hj <;> cases hj
      · intro j hj
        simp only at hj
        split at hj
        · cases hj
        · cases hj; show k + 1 < s.n; omega
      · intro j hj
        rw [h.ns j hj, hpc]
        constructor
        · rintro (⟨r, hr⟩ | ⟨i, hi, _⟩)
          · cases hr
          · cases hi
        · rintro (⟨r, hr⟩ | ⟨i, hi, _⟩)
          · simp only at hr; split at hr <;> cases hr
          · simp only at hi; split at hi <;> cases hi
      · intro j; exact h.lockIff j
      · show s.flag = true ↔ _
        rw [hf]
        simp only [true_iff]
        by_cases e : k + 1 = s.n
        · right; simp [e]
        · left; exact ⟨k + 1, by simp [e]⟩
      · intro hf'; rw [hf] at hf'; cases hf'
    · cases hs
  | rlock k =>
    simp only [step] at hs
    split at hs
    · rename_i hc
      obtain ⟨hk, hl, hw⟩ := hc
      cases hs
      refine ⟨h.idxS, h.idxJ, ?_, ?_, h.flagIff, ?_, hn0⟩
      · intro j hj
        simp only [setW]
        rw [← h.ns j hj]
        by_cases e : j = k
        · subst e; simp [hw]
        · simp [e]
      · intro j
        simp only [setW]
        by_cases e : j = k
        · subst e; simp [hk]
        · simp only [e, if_false]
          have := h.lockIff j
          rw [hl] at this
          constructor
          · intro hx; cases hx; exact absurd rfl e
          · intro hx; exact absurd (this.2 hx) (by simp)
      · intro hf j
        simp only [setW]
        by_cases e : j = k
        · subst e; simp
        · simp only [e, if_false]; exact h.noExit hf j
    · cases hs
  | rlockTimeout k =>
    simp only [step] at hs
    split at hs
    · rename_i hc
      cases hs
      exact lw_worker s _ k .afterEmpty h rfl rfl rfl rfl rfl (by rw [hc.2.2]; simp) (by simp)
    · cases hs
  | rempty k =>
    simp only [step] at hs
    split at hs
    · rename_i hc
      obtain ⟨hk, hl, hw⟩ := hc
      cases hs
      refine ⟨h.idxS, h.idxJ, ?_, ?_, h.flagIff, ?_, hn0⟩
      · intro j hj
        simp only [setW]
        rw [← h.ns j hj]
        by_cases e : j = k
        · subst e; simp [hw]
        · simp [e]
      · intro j
        simp only [setW]
        by_cases e : j = k
        · subst e; simp
        · simp only [e, if_false]
          have := h.lockIff j
          rw [hl] at this
          constructor
          · intro hx; cases hx
          · intro hx
            have := this.2 hx
            cases this; exact absurd rfl e
      · intro hf j
        simp only [setW]
        by_cases e : j = k
        · subst e; simp
        · simp only [e, if_false]; exact h.noExit hf j
    · cases hs
  | rrecv k p =>
    simp only [step] at hs
    split at hs
    · rename_i hc
      obtain ⟨hk, hl, hw, _⟩ := hc
      cases hs
      refine ⟨h.idxS, h.idxJ, ?_, ?_, h.flagIff, ?_, hn0⟩
      · intro j hj
        simp only [setPh, setW]
        rw [← h.ns j hj]
        by_cases e : j = k
        · subst e; simp [hw]
        · simp [e]
      · intro j
        simp only [setPh, setW]
        by_cases e : j = k
        · subst e; simp
        · simp only [e, if_false]
          have := h.lockIff j
          rw [hl] at this
          constructor
          · intro hx; cases hx
          · intro hx
            have := this.2 hx
            cases this; exact absurd rfl e
      · intro hf j
        simp only [setPh, setW]
        by_cases e : j = k
        · subst e; simp
        · simp only [e, if_false]; exact h.noExit hf j
    · cases hs
  | flagQ k b =>
    simp only [step] at hs
    split at hs
    · rename_i hc
      obtain ⟨hk, hb, hw⟩ := hc
      cases hs
      exact lw_worker s _ k _ h rfl rfl rfl rfl rfl (by rw [hw]; simp)
        (by cases b <;> simp [← hb])
    · cases hs
  | cbBegin k p =>
    simp only [step] at hs
    split at hs
    · cases hs; exact lw_same s _ h rfl rfl rfl rfl rfl
    · cases hs
  | cbEnd k p =>
    simp only [step] at hs
    split at hs
    · cases hs; exact lw_same s _ h rfl rfl rfl rfl rfl
    · cases hs
  | dput k p =>
    simp only [step] at hs
    split at hs
    · rename_i hc
      cases hs
      exact lw_worker s _ k .top h rfl rfl rfl rfl rfl (by rw [hc.2.2.1]; simp) (by simp)
    · cases hs

end C01Live
