/-
C01, part 2 — the prologue of the parallel walk delivers what the protocol theorems need.

`Walk.prologue` runs the model of the reduction iterator over the pyramid's generator, exactly as
`_walk_parallel` does, and derives the seeds, the pre-readied masks and the operation count from what
it yields.  `Props/Reducer.lean` proves that the iterator computes the bottom-up fold over the tree
of yielded positions; here that is turned into the configuration `C01.Cfg` the theorems of
`Props/C01.lean` start from, with `ops` = the positions of the serial walk.
-/
import ToastyVerif.Props.Reducer
import ToastyVerif.Props.C01

namespace C01Red
open Pos Pyr Red Walk

/-- the operations of a walk: the yielded non-leaf positions with a leaf of level `depth` below them -/
def opsOf (yld : Pos → Bool) (depth : Nat) (apex : Pos) : List Pos :=
  (trav yld (depth + 1 - apex.n) apex).filter (fun q => !(q.n == depth) && hasLeaf yld depth q)

theorem mem_opsOf (yld : Pos → Bool) (depth : Nat) (apex q : Pos) (hd : apex.n ≤ depth) :
    q ∈ opsOf yld depth apex ↔ (Under q apex ∧ q.n < depth ∧ PathOk yld apex q ∧ hasLeaf yld depth q = true) := by
  unfold opsOf
  rw [List.mem_filter, mem_trav]
  simp only [Bool.and_eq_true, Bool.not_eq_true', beq_eq_false_iff_ne, ne_eq]
  constructor
  · rintro ⟨⟨a, b, c⟩, d, e⟩; exact ⟨a, by omega, c, e⟩
  · rintro ⟨a, b, c, e⟩; exact ⟨⟨a, by omega, c⟩, by omega, e⟩

/-- the live flag computed by the prologue's fold is the walk's flag -/
theorem fOps_fst (yld : Pos → Bool) (depth : Nat) : ∀ (f : Nat) (p : Pos),
    (val yld depth (false, 0) fOps f p).1 = val yld depth false fWalk f p := by
  intro f
  induction f with
  | zero => intro p; rfl
  | succ f ih =>
    intro p
    rw [val_succ, val_succ]
    have hc : ∀ k, (cdata yld depth (false, 0) fOps f p k).1 = cdata yld depth false fWalk f p k := by
      intro k
      unfold cdata
      split
      · exact ih _
      · rfl
    simp only [fOps, fWalk]
    split
    · rfl
    · simp only [hc]

theorem cdata_fOps_fst (yld : Pos → Bool) (depth : Nat) (f : Nat) (p : Pos) (k : Nat) :
    (cdata yld depth (false, 0) fOps f p k).1 = cdata yld depth false fWalk f p k := by
  unfold cdata
  split
  · exact fOps_fst yld depth f _
  · rfl

/-! ### the pre-readied mask -/

theorem preMask_bits (cd : Nat → Bool × Nat) :
    preMask cd < 16 ∧ ∀ k, k < 4 → ((preMask cd).testBit k = true ↔ (cd k).1 = false) := by
  have h4 : List.range 4 = [0, 1, 2, 3] := by decide
  unfold preMask
  rw [h4]
  simp only [List.foldl_cons, List.foldl_nil, Gen.walk_pre_readied_update]
  have key : ∀ b0 b1 b2 b3 : Bool,
      let m := (if b3 then (if b2 then (if b1 then (if b0 then 0 else 0 ||| 1 <<< 0) else (if b0 then 0 else 0 ||| 1 <<< 0) ||| 1 <<< 1)
          else (if b1 then (if b0 then 0 else 0 ||| 1 <<< 0) else (if b0 then 0 else 0 ||| 1 <<< 0) ||| 1 <<< 1) ||| 1 <<< 2)
        else (if b2 then (if b1 then (if b0 then 0 else 0 ||| 1 <<< 0) else (if b0 then 0 else 0 ||| 1 <<< 0) ||| 1 <<< 1)
          else (if b1 then (if b0 then 0 else 0 ||| 1 <<< 0) else (if b0 then 0 else 0 ||| 1 <<< 0) ||| 1 <<< 1) ||| 1 <<< 2) ||| 1 <<< 3)
      m < 16 ∧ (m.testBit 0 = !b0) ∧ (m.testBit 1 = !b1) ∧ (m.testBit 2 = !b2) ∧ (m.testBit 3 = !b3) := by
    decide
  obtain ⟨hlt, h0, h1, h2, h3⟩ := key (cd 0).1 (cd 1).1 (cd 2).1 (cd 3).1
  refine ⟨hlt, ?_⟩
  intro k hk
  have : k = 0 ∨ k = 1 ∨ k = 2 ∨ k = 3 := by omega
  rcases this with rfl | rfl | rfl | rfl
  · rw [h0]; cases (cd 0).1 <;> simp
  · rw [h1]; cases (cd 1).1 <;> simp
  · rw [h2]; cases (cd 2).1 <;> simp
  · rw [h3]; cases (cd 3).1 <;> simp

theorem seed_level_iff (n depth : Nat) : Gen.walk_seed_level (n : Int) (depth : Int) = true ↔ (n : Int) = (depth : Int) - 1 := by
  simp [Gen.walk_seed_level]

/-! ### list plumbing -/

theorem find_map_pair {β : Type} (g : Pos → β) : ∀ (l : List Pos) (p : Pos), p ∈ l →
    (l.map (fun q => (q, g q))).find? (fun e => e.1 == p) = some (p, g p) := by
  intro l
  induction l with
  | nil => intro p h; cases h
  | cons q l ih =>
    intro p h
    simp only [List.map_cons, List.find?_cons]
    by_cases e : q = p
    · subst e; simp
    · have : (q == p) = false := by simpa using e
      simp only [this]
      rcases List.mem_cons.1 h with h | h
      · exact absurd h.symm e
      · exact ih p h

theorem under_parent (q apex : Pos) (h : Under q apex) (hn : apex.n < q.n) : Under q.parent apex := by
  refine ⟨by simp [parent]; omega, ?_⟩
  intro k hk
  have hq := h.2 k hk
  simp only [anc, parent, Pos.mk.injEq, true_and] at hq ⊢
  have e : q.n - k = (q.n - 1 - k) + 1 := by omega
  rw [e, Nat.pow_succ, Nat.mul_comm, ← Nat.div_div_eq_div_mul, ← Nat.div_div_eq_div_mul] at hq
  exact hq

theorem anc_parent (q : Pos) (k : Nat) (hk : k + 1 ≤ q.n) : q.parent.anc k = q.anc k := by
  simp only [anc, parent, Pos.mk.injEq, true_and]
  have e : q.n - k = (q.n - 1 - k) + 1 := by omega
  rw [e, Nat.pow_succ, Nat.mul_comm, ← Nat.div_div_eq_div_mul, ← Nat.div_div_eq_div_mul]
  exact ⟨rfl, rfl⟩

theorem under_trans_child (r q : Pos) (h : Under r q) (h1 : 1 ≤ q.n) : Under r q.parent := by
  refine ⟨by have := h.1; simp [parent]; omega, ?_⟩
  intro k hk
  have hk' : k ≤ q.n := by simp [parent] at hk; omega
  rw [h.2 k hk', anc_parent q k (by simp [parent] at hk; omega)]

/-! ### the configuration handed to the protocol -/

/-- **The prologue delivers `Cfg`.**  For a pyramid whose generator is the post-order of the tree accepted by `yld`
below a valid, non-leaf apex that has a leaf of level `depth` below it, `Walk.prologue` succeeds and its seeds and
pre-readied masks satisfy, with `ops` the positions of the serial walk, every clause of `C01.Cfg`. -/
theorem prologue_cfg (yld : Pos → Bool) (depth : Nat) (apex : Pos) (toast : Option (Pos → Bool))
    (hv : apex.valid) (hd : apex.n < depth) (hy : yld apex = true) (hleaf : hasLeaf yld depth apex = true)
    (rest : List Pos) (hg : generator depth apex toast = trav yld (depth + 1 - apex.n) apex ++ rest) :
    ∃ pr, prologue depth apex toast = .ok pr ∧ C01.Cfg (opsOf yld depth apex) apex depth pr.seeds pr.pre := by
  have hd' : apex.n ≤ depth := Nat.le_of_lt hd
  obtain ⟨sf, hrun, _, _⟩ := run_tree yld depth apex (false, 0) fPro (depth + 1 - apex.n) hv (by simp [live, hy]; omega) rest
  rw [travI_eq_map yld depth (false, 0) fPro _ apex (by omega)] at hrun
  -- the value of fPro on an entry is the fold at that position; its first component is the walk's flag
  have hflag : ∀ q ∈ trav yld (depth + 1 - apex.n) apex,
      (fPro (entry yld depth (false, 0) fPro q).1 (entry yld depth (false, 0) fPro q).2.1 (entry yld depth (false, 0) fPro q).2.2).1
        = hasLeaf yld depth q := by
    intro q hq
    rw [F_entry yld depth (false, 0) fPro q (mem_trav_level yld _ apex q depth (by omega) hq)]
    exact fOps_fst yld depth _ q
  refine ⟨_, by unfold prologue; rw [hg, hrun], ?_⟩
  simp only
  refine ⟨?_, ?_, ?_, ?_, ?_, ?_, ?_⟩
  · -- nodup
    exact (trav_nodup yld _ apex).filter _
  · -- level
    intro p hp
    exact ((mem_opsOf yld depth apex p hd').1 hp).2.1
  · -- the apex is an operation
    rw [mem_opsOf yld depth apex apex hd']
    refine ⟨under_refl _, hd, ?_, hleaf⟩
    intro k h1 h2
    have : k = apex.n := by omega
    subst this; rw [anc_self]; exact hy
  · -- closed under parents, up to the apex
    intro p hp hpa
    obtain ⟨hu, hn, hpath, hl⟩ := (mem_opsOf yld depth apex p hd').1 hp
    have hlt : apex.n < p.n := by
      rcases Nat.lt_or_ge apex.n p.n with h | h
      · exact h
      · exact absurd (under_n_eq p apex hu (by have := hu.1; omega)) hpa
    refine ⟨by omega, ?_⟩
    rw [mem_opsOf yld depth apex p.parent hd']
    have hyp : yld p = true := by have := hpath p.n hu.1 (Nat.le_refl _); rw [anc_self] at this; exact this
    have hypar : yld p.parent = true := by
      have := hpath (p.n - 1) (by omega) (by omega)
      rw [anc_pred p (by omega)] at this; exact this
    refine ⟨under_parent p apex hu hlt, by simp [parent]; omega, ?_, ?_⟩
    · intro k h1 h2
      have hk : k + 1 ≤ p.n := by simp [parent] at h2; omega
      rw [anc_parent p k hk]
      exact hpath k h1 (by omega)
    · -- the leaf below p is below its parent
      rw [hasLeaf_iff yld depth p (by omega) hyp] at hl
      obtain ⟨r, hr, hrn⟩ := hl
      rw [hasLeaf_iff yld depth p.parent (by simp [parent]; omega) hypar]
      refine ⟨r, ?_, hrn⟩
      obtain ⟨ru, rn, rp⟩ := (mem_trav yld _ p r).1 hr
      rw [mem_trav]
      refine ⟨under_trans_child r p ru (by omega), by simp [parent]; omega, ?_⟩
      intro k h1 h2
      by_cases e : k < p.n
      · have hk : k = p.n - 1 := by simp [parent] at h1; omega
        rw [ru.2 k (by omega), hk, anc_pred p (by omega)]; exact hypar
      · exact rp k (by omega) h2
  · -- seeds
    intro p
    simp only [List.filter_map, List.map_map]
    have hid : (Prod.fst ∘ entry yld depth (false, 0) fPro) = id := by funext q; rfl
    rw [hid, List.map_id, List.mem_filter, mem_opsOf yld depth apex p hd', mem_trav]
    constructor
    · rintro ⟨⟨a, b, c⟩, hs⟩
      simp only [Function.comp, Bool.and_eq_true] at hs
      have hm : p ∈ trav yld (depth + 1 - apex.n) apex := (mem_trav yld _ apex p).2 ⟨a, b, c⟩
      rw [hflag p hm] at hs
      have hlvl : p.n + 1 = depth := by
        have := (seed_level_iff p.n depth).1 hs.1
        omega
      exact ⟨⟨a, by omega, c, hs.2⟩, hlvl⟩
    · rintro ⟨⟨a, b, c, e⟩, hlvl⟩
      have hm : p ∈ trav yld (depth + 1 - apex.n) apex := (mem_trav yld _ apex p).2 ⟨a, by omega, c⟩
      refine ⟨⟨a, by omega, c⟩, ?_⟩
      simp only [Function.comp, Bool.and_eq_true]
      rw [hflag p hm]
      refine ⟨?_, e⟩
      exact (seed_level_iff p.n depth).2 (by omega)
  · -- pre-readied masks
    intro p hp hlvl
    obtain ⟨hu, hn, hpath, hl⟩ := (mem_opsOf yld depth apex p hd').1 hp
    have hm : p ∈ trav yld (depth + 1 - apex.n) apex := (mem_trav yld _ apex p).2 ⟨hu, by omega, hpath⟩
    -- the mask list is a function of the position
    have hmasks : ((List.map (entry yld depth (false, 0) fPro) (trav yld (depth + 1 - apex.n) apex)).filter (fun y => !y.2.1)).map
        (fun y => (y.1, preMask y.2.2)) =
        ((trav yld (depth + 1 - apex.n) apex).filter (fun q => !decide (q.n = depth))).map
          (fun q => (q, preMask (cdata yld depth (false, 0) fPro (depth - q.n) q))) := by
      rw [List.filter_map, List.map_map]
      rfl
    rw [hmasks]
    have hin : p ∈ (trav yld (depth + 1 - apex.n) apex).filter (fun q => !decide (q.n = depth)) := by
      rw [List.mem_filter]; exact ⟨hm, by simp; omega⟩
    rw [find_map_pair _ _ p hin]
    simp only
    obtain ⟨hlt, hbits⟩ := preMask_bits (cdata yld depth (false, 0) fPro (depth - p.n) p)
    refine ⟨hlt, ?_⟩
    intro k hk
    rw [hbits k hk]
    -- the flag of child k
    have hfl : (cdata yld depth (false, 0) fPro (depth - p.n) p k).1 = cdata yld depth false fWalk (depth - p.n) p k :=
      cdata_fOps_fst yld depth _ p k
    rw [hfl]
    have hcn : (p.child k).n = p.n + 1 := rfl
    have hfuel : depth - p.n = depth + 1 - (p.child k).n := by rw [hcn]; omega
    have hpk : (p.child k).anc p.n = p := by rw [anc_child p k p.n hk (Nat.le_refl _), anc_self]
    constructor
    · intro hfalse hmem
      obtain ⟨cu, cn, cpath, cl⟩ := (mem_opsOf yld depth apex (p.child k) hd').1 hmem
      have hyc : yld (p.child k) = true := by
        have := cpath (p.child k).n cu.1 (Nat.le_refl _); rw [anc_self] at this; exact this
      unfold cdata at hfalse
      have hlive : live yld (depth - p.n) (p.child k) = true := by simp [live, hyc]; omega
      rw [if_pos ⟨hk, hlive⟩] at hfalse
      unfold hasLeaf valAt at cl
      rw [← hfuel] at cl
      rw [cl] at hfalse; cases hfalse
    · intro hnot
      unfold cdata
      by_cases hlive : live yld (depth - p.n) (p.child k) = true
      · rw [if_pos ⟨hk, hlive⟩]
        have hyc : yld (p.child k) = true := by simp [live] at hlive; exact hlive.2
        cases hval : val yld depth false fWalk (depth - p.n) (p.child k)
        · rfl
        · exfalso
          apply hnot
          rw [mem_opsOf yld depth apex (p.child k) hd']
          refine ⟨?_, by rw [hcn]; omega, ?_, ?_⟩
          · refine ⟨by rw [hcn]; have := hu.1; omega, ?_⟩
            intro j hj
            rw [anc_child p k j hk (by have := hu.1; omega)]
            exact hu.2 j hj
          · intro j h1 h2
            by_cases e : j = p.n + 1
            · subst e; rw [← hcn, anc_self]; exact hyc
            · rw [hcn] at h2
              rw [anc_child p k j hk (by omega)]
              exact hpath j h1 (by omega)
          · unfold hasLeaf valAt
            rw [← hfuel]; exact hval
      · rw [if_neg (fun h => hlive h.2)]
  · -- no operation has the apex as a child
    intro q hq k hk heq
    have := ((mem_opsOf yld depth apex q hd').1 hq).1.1
    have hc : (q.child k).n = q.n + 1 := rfl
    rw [heq] at hc
    omega

/-! ### instances: generic (sub-)pyramids and (filtered) TOAST pyramids -/

theorem hasLeaf_generic (depth : Nat) : ∀ (m : Nat) (q : Pos), q.n + m = depth → hasLeaf (fun _ => true) depth q = true := by
  intro m
  induction m with
  | zero =>
    intro q hq
    rw [hasLeaf_iff _ depth q (by omega) rfl]
    exact ⟨q, by rw [mem_trav]; exact ⟨under_refl q, by omega, fun _ _ _ => rfl⟩, by omega⟩
  | succ m ih =>
    intro q hq
    have hc := ih (q.child 0) (by simp [child]; omega)
    rw [hasLeaf_iff _ depth _ (by simp [child]; omega) rfl] at hc
    obtain ⟨r, hr, hrn⟩ := hc
    rw [hasLeaf_iff _ depth q (by omega) rfl]
    refine ⟨r, ?_, hrn⟩
    rw [mem_trav] at hr ⊢
    exact ⟨under_child r q 0 (by omega) hr.1, by omega, fun _ _ _ => rfl⟩

/-- **Generic pyramids and sub-pyramids**: for every depth and every valid non-leaf apex, the prologue succeeds and
hands the protocol a configuration whose operations are exactly the non-leaf positions below the apex. -/
theorem prologue_generic (depth : Nat) (apex : Pos) (hv : apex.valid) (hd : apex.n < depth) :
    ∃ pr, prologue depth apex none = .ok pr ∧
      C01.Cfg (opsOf (fun _ => true) depth apex) apex depth pr.seeds pr.pre := by
  obtain ⟨rest, hg⟩ := genSub_form depth apex hv (Nat.le_of_lt hd)
  exact prologue_cfg (fun _ => true) depth apex none hv hd rfl (hasLeaf_generic depth (depth - apex.n) apex (by omega)) rest hg

/-- **(Filtered) TOAST pyramids**: whenever the filter leaves at least one tile of the target depth, the prologue
succeeds and the operations are the accepted non-leaf tiles with an accepted leaf below them. -/
theorem prologue_toast (depth : Nat) (acc : Pos → Bool) (hd : 1 ≤ depth)
    (hleaf : hasLeaf (yldRoot acc) depth Pos.root = true) :
    ∃ pr, prologue depth Pos.root (some acc) = .ok pr ∧
      C01.Cfg (opsOf (yldRoot acc) depth Pos.root) Pos.root depth pr.seeds pr.pre := by
  have hg : generator depth Pos.root (some acc) = trav (yldRoot acc) (depth + 1 - Pos.root.n) Pos.root ++ [] := by
    simp only [generator, Pos.root, decide_true, Bool.true_or, Bool.true_and, List.append_nil]
    exact genToast_eq_trav depth acc
  exact prologue_cfg (yldRoot acc) depth Pos.root (some acc) (by simp [valid, Pos.root]) (by simp [Pos.root]; omega)
    (by simp [yldRoot, Pos.root]) hleaf [] hg

/-! ### TOAST sub-pyramids: the enumeration walks down the line of the apex's ancestors -/

/-- the filter of a TOAST sub-pyramid: the user's filter restricted to the apex's line and sub-tree -/
def accSub (apex : Pos) (acc : Pos → Bool) (p : Pos) : Bool := (decide (apex.n = 0) || posFilter apex p) && acc p

theorem anc_anc (p : Pos) (j k : Nat) (hjk : j ≤ k) (hk : k ≤ p.n) : (p.anc k).anc j = p.anc j := by
  simp only [anc, Pos.mk.injEq, true_and]
  have e : p.n - j = (p.n - k) + (k - j) := by omega
  rw [e, Nat.pow_add, ← Nat.div_div_eq_div_mul, ← Nat.div_div_eq_div_mul]
  exact ⟨rfl, rfl⟩

/-- on the line above the apex only the child towards the apex is accepted -/
theorem trav_line (acc : Pos → Bool) (apex : Pos) (hline : ∀ k, 1 ≤ k → k ≤ apex.n → acc (apex.anc k) = true) :
    ∀ (m k f : Nat), k + m = apex.n → ∃ rest,
      trav (yldRoot (accSub apex acc)) (f + m) (apex.anc k) = trav (yldRoot (accSub apex acc)) f apex ++ rest := by
  intro m
  induction m with
  | zero =>
    intro k f hk
    have : k = apex.n := by omega
    subst this
    exact ⟨[], by rw [anc_self]; simp⟩
  | succ m ih =>
    intro k f hk
    have hkn : k < apex.n := by omega
    -- the node is accepted
    have hy : yldRoot (accSub apex acc) (apex.anc k) = true := by
      unfold yldRoot accSub
      by_cases h0 : k = 0
      · subst h0; simp [anc]
      · have hl := hline k (by omega) (by omega)
        have hp : posFilter apex (apex.anc k) = true := by
          unfold posFilter
          have : ¬ ((apex.anc k).n > apex.n) := by simp [anc]; omega
          rw [if_neg this]
          simp [anc]
        simp [hp, hl]
    -- which child is on the line
    have hchild := under_child_of apex (apex.anc k) ⟨by simp [anc]; omega, fun j hj => by
      have hj' : j ≤ k := by simpa [anc] using hj
      rw [anc_anc apex j k hj' (by omega)]⟩ (by simp [anc]; omega)
    obtain ⟨i, hi, _, hci⟩ := hchild
    have hci' : (apex.anc k).child i = apex.anc (k + 1) := by
      rw [← hci]; simp [anc]
    obtain ⟨rest, hrest⟩ := ih (k + 1) f (by omega)
    -- the other children are rejected
    have hoff : ∀ j, j < 4 → j ≠ i → trav (yldRoot (accSub apex acc)) (f + m) ((apex.anc k).child j) = [] := by
      intro j hj hne
      apply trav_of_not_live
      have hcn : ((apex.anc k).child j).n = k + 1 := by simp [child, anc]
      have hneq : (apex.anc k).child j ≠ apex.anc (k + 1) := by
        rw [← hci']
        intro h
        have := (C13.parent_child (apex.anc k) j hj).2.1
        rw [h, (C13.parent_child (apex.anc k) i hi).2.1] at this
        exact hne this.symm
      have hp : posFilter apex ((apex.anc k).child j) = false := by
        unfold posFilter
        rw [if_neg (by rw [hcn]; omega), hcn]
        simp [hneq]
      have h0 : ¬ (apex.n = 0) := by omega
      simp [live, yldRoot, accSub, hp, h0, hcn]
    have e : f + (m + 1) = (f + m) + 1 := by omega
    rw [e]
    simp only [trav, hy, if_true]
    have hi4 : i = 0 ∨ i = 1 ∨ i = 2 ∨ i = 3 := by omega
    rcases hi4 with rfl | rfl | rfl | rfl
    · rw [hoff 1 (by omega) (by omega), hoff 2 (by omega) (by omega), hoff 3 (by omega) (by omega), hci', hrest]
      exact ⟨rest ++ [apex.anc k], by simp⟩
    · rw [hoff 0 (by omega) (by omega), hoff 2 (by omega) (by omega), hoff 3 (by omega) (by omega), hci', hrest]
      exact ⟨rest ++ [apex.anc k], by simp⟩
    · rw [hoff 0 (by omega) (by omega), hoff 1 (by omega) (by omega), hoff 3 (by omega) (by omega), hci', hrest]
      exact ⟨rest ++ [apex.anc k], by simp⟩
    · rw [hoff 0 (by omega) (by omega), hoff 1 (by omega) (by omega), hoff 2 (by omega) (by omega), hci', hrest]
      exact ⟨rest ++ [apex.anc k], by simp⟩

/-- **The generator of a TOAST sub-pyramid** (every tile on the line from level 1 down to the apex accepted by the
filter) is the post-order of the accepted tree below the apex, followed by the line back up to the root. -/
theorem generator_toast_sub (depth : Nat) (apex : Pos) (acc : Pos → Bool) (hv : apex.valid) (h1 : 1 ≤ apex.n) (hd : apex.n ≤ depth)
    (hline : ∀ k, 1 ≤ k → k ≤ apex.n → acc (apex.anc k) = true) :
    ∃ rest, generator depth apex (some acc) = trav (yldRoot acc) (depth + 1 - apex.n) apex ++ rest := by
  have hg : generator depth apex (some acc) = genToast depth (accSub apex acc) := rfl
  rw [hg, genToast_eq_trav]
  have hroot : apex.anc 0 = Pos.root := by
    obtain ⟨hx, hy⟩ := hv
    simp [anc, Pos.root, Nat.div_eq_of_lt hx, Nat.div_eq_of_lt hy]
  obtain ⟨rest, hrest⟩ := trav_line acc apex hline apex.n 0 (depth + 1 - apex.n) (by omega)
  rw [hroot] at hrest
  have e : depth + 1 - apex.n + apex.n = depth + 1 := by omega
  rw [e] at hrest
  refine ⟨rest, ?_⟩
  rw [hrest]
  congr 1
  -- inside the sub-tree the restricted filter is the user's filter
  apply trav_congr
  intro q hq
  have hp : posFilter apex q = true := by
    unfold posFilter
    by_cases hgt : q.n > apex.n
    · rw [if_pos hgt]
    · rw [if_neg hgt]
      have : q = apex := under_n_eq q apex hq (by have := hq.1; omega)
      subst this; simp [anc_self]
  simp [yldRoot, accSub, hp]

theorem prologue_toast_sub (depth : Nat) (apex : Pos) (acc : Pos → Bool) (hv : apex.valid) (h1 : 1 ≤ apex.n) (hd : apex.n < depth)
    (hline : ∀ k, 1 ≤ k → k ≤ apex.n → acc (apex.anc k) = true) (hleaf : hasLeaf (yldRoot acc) depth apex = true) :
    ∃ pr, prologue depth apex (some acc) = .ok pr ∧
      C01.Cfg (opsOf (yldRoot acc) depth apex) apex depth pr.seeds pr.pre := by
  obtain ⟨rest, hg⟩ := generator_toast_sub depth apex acc hv h1 (Nat.le_of_lt hd) hline
  have hy : yldRoot acc apex = true := by
    have := hline apex.n h1 (Nat.le_refl _); rw [anc_self] at this; simp [yldRoot, this]
  exact prologue_cfg (yldRoot acc) depth apex (some acc) hv hd hy hleaf rest hg

/-- **C01 end to end, generic pyramids**: started from the model's own prologue, in every state the parallel walk can
reach — any number of workers, any queue capacity, any interleaving — a callback about to start finds the callbacks of
all its operation children completed; no callback has started twice or for a position that is not an operation; and
when `walk` has returned every worker has exited and the callback has started and completed exactly for the
operations, which are the positions the serial walk visits. -/
theorem par_walk_generic (depth : Nat) (apex : Pos) (hv : apex.valid) (hd : apex.n < depth) :
    ∃ pr, prologue depth apex none = .ok pr ∧
      serialWalk depth apex none = .ok (opsOf (fun _ => true) depth apex) ∧
      ∀ (n cap : Nat) (s : S), C01.Reachable n cap apex pr.seeds pr.pre s →
        (∀ (k : Nat) (p : Pos) (s' : S), step s (.cbBegin k p) = some s' →
            ∀ j, j < 4 → p.child j ∈ opsOf (fun _ => true) depth apex → Ev.cbEnd (p.child j) ∈ s.log) ∧
        s.log.Nodup ∧ (∀ p, (Ev.cbBegin p ∈ s.log ∨ Ev.cbEnd p ∈ s.log) → p ∈ opsOf (fun _ => true) depth apex) ∧
        (s.pc = .returned → (∀ k, k < s.n → s.ws k = .exited) ∧
            (∀ p, Ev.cbBegin p ∈ s.log ↔ p ∈ opsOf (fun _ => true) depth apex) ∧
            (∀ p, Ev.cbEnd p ∈ s.log ↔ p ∈ opsOf (fun _ => true) depth apex)) := by
  obtain ⟨pr, hpr, cfg⟩ := prologue_generic depth apex hv hd
  refine ⟨pr, hpr, serialWalk_generic depth apex hv (Nat.le_of_lt hd), ?_⟩
  intro n cap s hr
  have h1 := C01.par_walk_at_most_once _ apex depth pr.seeds pr.pre cfg n cap s hr
  refine ⟨fun k p s' hs => C01.par_walk_order _ apex depth pr.seeds pr.pre cfg n cap s s' hr k p hs, h1.1, h1.2, ?_⟩
  intro hret
  have h2 := C01.par_walk_terminal _ apex depth pr.seeds pr.pre cfg n cap s hr hret
  exact ⟨h2.1, h2.2.2.1, h2.2.2.2⟩

theorem par_walk_toast (depth : Nat) (acc : Pos → Bool) (hd : 1 ≤ depth) (hleaf : hasLeaf (yldRoot acc) depth Pos.root = true) :
    ∃ pr, prologue depth Pos.root (some acc) = .ok pr ∧
      serialWalk depth Pos.root (some acc) = .ok (opsOf (yldRoot acc) depth Pos.root) ∧
      ∀ (n cap : Nat) (s : S), C01.Reachable n cap Pos.root pr.seeds pr.pre s →
        (∀ (k : Nat) (p : Pos) (s' : S), step s (.cbBegin k p) = some s' →
            ∀ j, j < 4 → p.child j ∈ opsOf (yldRoot acc) depth Pos.root → Ev.cbEnd (p.child j) ∈ s.log) ∧
        s.log.Nodup ∧ (∀ p, (Ev.cbBegin p ∈ s.log ∨ Ev.cbEnd p ∈ s.log) → p ∈ opsOf (yldRoot acc) depth Pos.root) ∧
        (s.pc = .returned → (∀ k, k < s.n → s.ws k = .exited) ∧
            (∀ p, Ev.cbBegin p ∈ s.log ↔ p ∈ opsOf (yldRoot acc) depth Pos.root) ∧
            (∀ p, Ev.cbEnd p ∈ s.log ↔ p ∈ opsOf (yldRoot acc) depth Pos.root)) := by
  obtain ⟨pr, hpr, cfg⟩ := prologue_toast depth acc hd hleaf
  refine ⟨pr, hpr, ?_, ?_⟩
  · have := serialWalk_toast depth acc
    simpa [opsOf, Pos.root] using this
  intro n cap s hr
  have h1 := C01.par_walk_at_most_once _ Pos.root depth pr.seeds pr.pre cfg n cap s hr
  refine ⟨fun k p s' hs => C01.par_walk_order _ Pos.root depth pr.seeds pr.pre cfg n cap s s' hr k p hs, h1.1, h1.2, ?_⟩
  intro hret
  have h2 := C01.par_walk_terminal _ Pos.root depth pr.seeds pr.pre cfg n cap s hr hret
  exact ⟨h2.1, h2.2.2.1, h2.2.2.2⟩

/-- **C01 end to end, TOAST sub-pyramids** (`Pyramid.new_toast_filtered(…).subpyramid(apex)`): with every tile on the line
from level 1 to the apex accepted and some accepted leaf below the apex. -/
theorem par_walk_toast_sub (depth : Nat) (apex : Pos) (acc : Pos → Bool) (hv : apex.valid) (h1 : 1 ≤ apex.n) (hd : apex.n < depth)
    (hline : ∀ k, 1 ≤ k → k ≤ apex.n → acc (apex.anc k) = true) (hleaf : hasLeaf (yldRoot acc) depth apex = true) :
    ∃ pr, prologue depth apex (some acc) = .ok pr ∧
      serialWalk depth apex (some acc) = .ok (opsOf (yldRoot acc) depth apex) ∧
      ∀ (n cap : Nat) (s : S), C01.Reachable n cap apex pr.seeds pr.pre s →
        (∀ (k : Nat) (p : Pos) (s' : S), step s (.cbBegin k p) = some s' →
            ∀ j, j < 4 → p.child j ∈ opsOf (yldRoot acc) depth apex → Ev.cbEnd (p.child j) ∈ s.log) ∧
        s.log.Nodup ∧ (∀ p, (Ev.cbBegin p ∈ s.log ∨ Ev.cbEnd p ∈ s.log) → p ∈ opsOf (yldRoot acc) depth apex) ∧
        (s.pc = .returned → (∀ k, k < s.n → s.ws k = .exited) ∧
            (∀ p, Ev.cbBegin p ∈ s.log ↔ p ∈ opsOf (yldRoot acc) depth apex) ∧
            (∀ p, Ev.cbEnd p ∈ s.log ↔ p ∈ opsOf (yldRoot acc) depth apex)) := by
  obtain ⟨pr, hpr, cfg⟩ := prologue_toast_sub depth apex acc hv h1 hd hline hleaf
  obtain ⟨rest, hg⟩ := generator_toast_sub depth apex acc hv h1 (Nat.le_of_lt hd) hline
  have hy : yldRoot acc apex = true := by
    have := hline apex.n h1 (Nat.le_refl _); rw [anc_self] at this; simp [yldRoot, this]
  refine ⟨pr, hpr, walk_of_run (yldRoot acc) depth apex hv (Nat.le_of_lt hd) hy rest _ hg, ?_⟩
  intro n cap s hr
  have h1' := C01.par_walk_at_most_once _ apex depth pr.seeds pr.pre cfg n cap s hr
  refine ⟨fun k p s' hs => C01.par_walk_order _ apex depth pr.seeds pr.pre cfg n cap s s' hr k p hs, h1'.1, h1'.2, ?_⟩
  intro hret
  have h2 := C01.par_walk_terminal _ apex depth pr.seeds pr.pre cfg n cap s hr hret
  exact ⟨h2.1, h2.2.2.1, h2.2.2.2⟩

/-! ### non-vacuity: a concrete filtered pyramid meets the hypotheses -/

/-- depth 2, filter accepting (1,1,0), its child (2,2,1) and nothing else: one operation chain root → (1,1,0) -/
example : hasLeaf (yldRoot (fun p => p == ⟨1, 1, 0⟩ || p == ⟨2, 2, 1⟩)) 2 Pos.root = true := by decide

example : (opsOf (yldRoot (fun p => p == ⟨1, 1, 0⟩ || p == ⟨2, 2, 1⟩)) 2 Pos.root) = [⟨1, 1, 0⟩, ⟨0, 0, 0⟩] := by decide

end C01Red
