/-
C03 — Parallel stages hand every work item to exactly one worker and then terminate.

Safety for *every* number of workers, queue capacity, item list and interleaving (including
time-outs firing whenever the receive is not possible), by an inductive invariant of
`Model/Stage.lean`; the worker's step order is the extracted fact `Gen.Stage.flag_first`.
-/
import ToastyVerif.Model.Stage
import ToastyVerif.Gen.Stage
import ToastyVerif.Gen.Plumbing

namespace C03
open Stage

/-! ### counting workers in a given control state -/

def numW (s : S) (p : W → Bool) : Nat := ((List.range s.n).filter (fun k => p (s.ws k))).length

theorem filter_range_update (ws : Nat → W) (p : W → Bool) (k : Nat) (w : W) : ∀ n, k < n →
    ((List.range n).filter (fun j => p (if j = k then w else ws j))).length + (if p (ws k) then 1 else 0)
      = ((List.range n).filter (fun j => p (ws j))).length + (if p w then 1 else 0) := by
  intro n
  induction n with
  | zero => intro h; omega
  | succ n ih =>
    intro h
    rw [List.range_succ, List.filter_append, List.filter_append, List.length_append, List.length_append]
    by_cases hk : k = n
    · subst hk
      have same : (List.range k).filter (fun j => p (if j = k then w else ws j)) = (List.range k).filter (fun j => p (ws j)) := by
        apply List.filter_congr
        intro j hj
        have : j ≠ k := by have := List.mem_range.mp hj; omega
        simp [this]
      rw [same]
      simp only [List.filter_cons, List.filter_nil, if_true]
      by_cases h1 : p w <;> by_cases h2 : p (ws k) <;> simp [h1, h2]
    · have hlt : k < n := by omega
      have := ih hlt
      have e : (if n = k then w else ws n) = ws n := by
        have : n ≠ k := fun h => hk h.symm
        simp [this]
      simp only [List.filter_cons, List.filter_nil, e]
      by_cases h3 : p (ws n) <;> simp [h3] <;> omega

theorem numW_setW (s : S) (p : W → Bool) (k : Nat) (w : W) (hk : k < s.n) :
    numW (setW s k w) p + (if p (s.ws k) then 1 else 0) = numW s p + (if p w then 1 else 0) := by
  unfold numW setW
  exact filter_range_update s.ws p k w s.n hk

theorem numW_pos (s : S) (p : W → Bool) : 0 < numW s p ↔ ∃ k, k < s.n ∧ p (s.ws k) = true := by
  unfold numW
  rw [List.length_pos_iff_exists_mem]
  constructor
  · rintro ⟨k, hk⟩
    rw [List.mem_filter, List.mem_range] at hk
    exact ⟨k, hk.1, hk.2⟩
  · rintro ⟨k, hk, hp⟩
    exact ⟨k, by rw [List.mem_filter, List.mem_range]; exact ⟨hk, hp⟩⟩

theorem numW_zero (s : S) (p : W → Bool) : numW s p = 0 ↔ ∀ k, k < s.n → p (s.ws k) = false := by
  constructor
  · intro h k hk
    by_cases hp : p (s.ws k) = true
    · have := (numW_pos s p).mpr ⟨k, hk, hp⟩; omega
    · simpa using hp
  · intro h
    by_cases h0 : numW s p = 0
    · exact h0
    · have : 0 < numW s p := by omega
      obtain ⟨k, hk, hp⟩ := (numW_pos s p).mp this
      rw [h k hk] at hp; cases hp

def isHave (x : Nat) : W → Bool
  | .have i => i == x
  | _ => false
def isLive : W → Bool
  | .exited => false
  | _ => true
def isLocked : W → Bool
  | .locked _ => true
  | _ => false

/-- number of copies of item `x` anywhere in the system -/
def cnt (s : S) (x : Nat) : Nat :=
  (s.processed.map Prod.fst).count x + numW s (isHave x) + s.pipe.count x + s.buf.count x + s.todo.count x

/-! ### the invariant -/

structure Inv (items : List Nat) (s : S) : Prop where
  ff : s.flagFirst = true
  cons : ∀ x, cnt s x = items.count x
  lockHolder : ∀ k, s.rlock = some k → k < s.n ∧ isLocked (s.ws k) = true
  lockedHolds : ∀ k, k < s.n → isLocked (s.ws k) = true → s.rlock = some k
  early : s.flag = false → ∀ k, s.ws k ≠ .exited ∧ s.ws k ≠ .sampled true ∧ s.ws k ≠ .locked true
  drained : s.flag = true → s.todo = [] ∧ s.buf = []
  flagPc : s.flag = true ↔ ((∃ k, s.pc = .joining k) ∨ s.pc = .returned)
  alive : s.flag = true → s.pipe ≠ [] → 0 < numW s isLive
  joinedSoFar : ∀ k, s.pc = .joining k → ∀ j, j < k → s.ws j = .exited
  returnedAll : s.pc = .returned → ∀ j, j < s.n → s.ws j = .exited
  noAfterEmpty : ∀ k, s.ws k ≠ .afterEmpty
  closedTodo : (s.pc = .closed ∨ s.pc = .joined) → s.todo = []
  joinedBuf : s.pc = .joined → s.buf = []
  npos : 0 < s.n

theorem inv_init (n cap : Nat) (items : List Nat) (hn : 0 < n) : Inv items (init n cap true items) := by
  refine ⟨rfl, ?_, ?_, ?_, ?_, ?_, ?_, ?_, ?_, ?_, ?_, ?_, ?_, hn⟩
  · intro x
    have : numW (init n cap true items) (isHave x) = 0 := by
      rw [numW_zero]; intro k _; rfl
    unfold cnt
    rw [this]
    simp [init]
  · intro k h; simp [init] at h
  · intro k _ h; simp [init, isLocked] at h
  · intro _ k; simp [init]
  · intro h; simp [init] at h
  · simp [init]
  · intro h; simp [init] at h
  · intro k h; simp [init] at h
  · intro h; simp [init] at h
  · intro k; simp [init]
  · intro h; simp [init] at h
  · intro h; simp [init] at h


/-! ### preservation, label by label -/

theorem numW_congr (s s' : S) (p : W → Bool) (hn : s'.n = s.n) (hw : s'.ws = s.ws) : numW s' p = numW s p := by
  unfold numW; rw [hn, hw]

theorem inv_put (items : List Nat) (s s' : S) (i : Nat) (h : Inv items s) (hs : step s (.put i) = some s') :
    Inv items s' := by
  simp only [step] at hs
  split at hs
  · rename_i j rest htodo
    split at hs
    · rename_i hg
      obtain ⟨hpc, hij, _⟩ := hg
      cases hs
      subst hij
      have hnf : s.flag = false := by
        cases hf : s.flag with
        | false => rfl
        | true =>
          have := h.flagPc.mp hf
          rw [hpc] at this
          rcases this with ⟨k, hk⟩ | hk <;> cases hk
      refine ⟨h.ff, ?_, h.lockHolder, h.lockedHolds, h.early, ?_, h.flagPc, h.alive, h.joinedSoFar, h.returnedAll,
        h.noAfterEmpty, ?_, ?_, h.npos⟩
      · intro x
        have := h.cons x
        unfold cnt at this ⊢
        rw [htodo] at this
        simp only [List.count_append, List.count_cons, List.count_nil] at this ⊢
        have e : numW { s with todo := rest, buf := s.buf ++ [i], out := s.out + 1 } (isHave x) = numW s (isHave x) :=
          numW_congr _ _ _ rfl rfl
        rw [e]
        omega
      · intro hf; simp only at hf; rw [hnf] at hf; cases hf
      · intro hc; simp only at hc; rw [hpc] at hc; rcases hc with hc | hc <;> cases hc
      · intro hc; simp only at hc; rw [hpc] at hc; cases hc
    · cases hs
  · cases hs


theorem flag_false_of_pc (items : List Nat) (s : S) (h : Inv items s)
    (hpc : (∀ k, s.pc ≠ .joining k) ∧ s.pc ≠ .returned) : s.flag = false := by
  cases hf : s.flag with
  | false => rfl
  | true =>
    rcases h.flagPc.mp hf with ⟨k, hk⟩ | hk
    · exact absurd hk (hpc.1 k)
    · exact absurd hk hpc.2

theorem inv_flush (items : List Nat) (s s' : S) (h : Inv items s) (hs : step s .flush = some s') : Inv items s' := by
  simp only [step] at hs
  split at hs
  · rename_i i rest hbuf
    cases hs
    have hnf : s.flag = false := by
      cases hf : s.flag with
      | false => rfl
      | true => have := (h.drained hf).2; rw [hbuf] at this; cases this
    refine ⟨h.ff, ?_, h.lockHolder, h.lockedHolds, h.early, ?_, h.flagPc, ?_, h.joinedSoFar, h.returnedAll,
      h.noAfterEmpty, h.closedTodo, ?_, h.npos⟩
    · intro x
      have := h.cons x
      unfold cnt at this ⊢
      rw [hbuf] at this
      simp only [List.count_append, List.count_cons, List.count_nil] at this ⊢
      have e : numW { s with buf := rest, pipe := s.pipe ++ [i] } (isHave x) = numW s (isHave x) := numW_congr _ _ _ rfl rfl
      rw [e]; omega
    · intro hf; simp only at hf; rw [hnf] at hf; cases hf
    · intro hf; simp only at hf; rw [hnf] at hf; cases hf
    · intro hc; simp only at hc; have := h.joinedBuf hc; rw [hbuf] at this; cases this
  · cases hs

theorem inv_close (items : List Nat) (s s' : S) (h : Inv items s) (hs : step s .close = some s') : Inv items s' := by
  simp only [step] at hs
  split at hs
  · rename_i hg
    obtain ⟨hpc, htodo⟩ := hg
    cases hs
    have hnf := flag_false_of_pc items s h ⟨(by intro k hk; rw [hpc] at hk; cases hk), (by intro hk; rw [hpc] at hk; cases hk)⟩
    refine ⟨h.ff, ?_, h.lockHolder, h.lockedHolds, h.early, ?_, ?_, ?_, ?_, ?_, h.noAfterEmpty, ?_, ?_, h.npos⟩
    · intro x; have := h.cons x; unfold cnt at this ⊢
      have e : numW { s with pc := PC.closed } (isHave x) = numW s (isHave x) := numW_congr _ _ _ rfl rfl
      rw [e]; exact this
    · intro hf; simp only at hf; rw [hnf] at hf; cases hf
    · simp only; rw [hnf]; constructor
      · intro hf; cases hf
      · rintro (⟨k, hk⟩ | hk) <;> cases hk
    · intro hf; simp only at hf; rw [hnf] at hf; cases hf
    · intro k hk; cases hk
    · intro hk; cases hk
    · intro _; exact htodo
    · intro hk; cases hk
  · cases hs

theorem inv_joinThread (items : List Nat) (s s' : S) (h : Inv items s) (hs : step s .joinThread = some s') : Inv items s' := by
  simp only [step] at hs
  split at hs
  · rename_i hg
    obtain ⟨hpc, hbuf⟩ := hg
    cases hs
    have hnf := flag_false_of_pc items s h ⟨(by intro k hk; rw [hpc] at hk; cases hk), (by intro hk; rw [hpc] at hk; cases hk)⟩
    refine ⟨h.ff, ?_, h.lockHolder, h.lockedHolds, h.early, ?_, ?_, ?_, ?_, ?_, h.noAfterEmpty, ?_, ?_, h.npos⟩
    · intro x; have := h.cons x; unfold cnt at this ⊢
      have e : numW { s with pc := PC.joined } (isHave x) = numW s (isHave x) := numW_congr _ _ _ rfl rfl
      rw [e]; exact this
    · intro hf; simp only at hf; rw [hnf] at hf; cases hf
    · simp only; rw [hnf]; constructor
      · intro hf; cases hf
      · rintro (⟨k, hk⟩ | hk) <;> cases hk
    · intro hf; simp only at hf; rw [hnf] at hf; cases hf
    · intro k hk; cases hk
    · intro hk; cases hk
    · intro _; exact h.closedTodo (Or.inl hpc)
    · intro _; exact hbuf
  · cases hs

theorem inv_setFlag (items : List Nat) (s s' : S) (h : Inv items s) (hs : step s .setFlag = some s') : Inv items s' := by
  simp only [step] at hs
  split at hs
  · rename_i hpc
    cases hs
    have hnf := flag_false_of_pc items s h ⟨(by intro k hk; rw [hpc] at hk; cases hk), (by intro hk; rw [hpc] at hk; cases hk)⟩
    refine ⟨h.ff, ?_, h.lockHolder, h.lockedHolds, ?_, ?_, ?_, ?_, ?_, ?_, h.noAfterEmpty, ?_, ?_, h.npos⟩
    · intro x; have := h.cons x; unfold cnt at this ⊢
      have e : numW { s with pc := PC.joining 0, flag := true } (isHave x) = numW s (isHave x) := numW_congr _ _ _ rfl rfl
      rw [e]; exact this
    · intro hf; cases hf
    · intro _; exact ⟨h.closedTodo (Or.inr hpc), h.joinedBuf hpc⟩
    · simp only; constructor
      · intro _; exact Or.inl ⟨0, rfl⟩
      · intro _; trivial
    · intro _ _
      have e : numW { s with pc := PC.joining 0, flag := true } isLive = numW s isLive := numW_congr _ _ _ rfl rfl
      rw [e, numW_pos]
      refine ⟨0, h.npos, ?_⟩
      have := (h.early hnf 0).1
      cases hw : s.ws 0 <;> simp_all [isLive]
    · intro k hk j hj; simp only [PC.joining.injEq] at hk; omega
    · intro hk; cases hk
    · rintro (hk | hk) <;> cases hk
    · intro hk; cases hk
  · cases hs

theorem inv_join (items : List Nat) (s s' : S) (k : Nat) (h : Inv items s) (hs : step s (.join k) = some s') : Inv items s' := by
  simp only [step] at hs
  split at hs
  · rename_i hg
    obtain ⟨hpc, hk, hex⟩ := hg
    cases hs
    have hf : s.flag = true := h.flagPc.mpr (Or.inl ⟨k, hpc⟩)
    refine ⟨h.ff, ?_, h.lockHolder, h.lockedHolds, h.early, h.drained, ?_, ?_, ?_, ?_, h.noAfterEmpty, ?_, ?_, h.npos⟩
    · intro x; have := h.cons x; unfold cnt at this ⊢
      have e : numW { s with pc := if k + 1 = s.n then PC.returned else PC.joining (k + 1) } (isHave x) = numW s (isHave x) :=
        numW_congr _ _ _ rfl rfl
      rw [e]; exact this
    · simp only; rw [hf]; constructor
      · intro _; by_cases hn : k + 1 = s.n
        · right; simp [hn]
        · left; exact ⟨k + 1, by simp [hn]⟩
      · intro _; rfl
    · intro hf' hp
      have e : numW { s with pc := if k + 1 = s.n then PC.returned else PC.joining (k + 1) } isLive = numW s isLive :=
        numW_congr _ _ _ rfl rfl
      rw [e]; exact h.alive hf' hp
    · intro k' hk' j hj
      simp only at hk'
      by_cases hn : k + 1 = s.n
        <;> simp only [hn, if_true, if_false, PC.joining.injEq] at hk'
      · cases hk'
      · subst hk'
        by_cases hjk : j = k
        · subst hjk; exact hex
        · exact h.joinedSoFar k hpc j (by omega)
    · intro hr j hj
      simp only at hr hj
      by_cases hn : k + 1 = s.n
      · by_cases hjk : j = k
        · subst hjk; exact hex
        · exact h.joinedSoFar k hpc j (by omega)
      · simp [hn] at hr
    · intro hc; simp only at hc
      by_cases hn : k + 1 = s.n <;> simp [hn] at hc
    · intro hc; simp only at hc
      by_cases hn : k + 1 = s.n <;> simp [hn] at hc
  · cases hs


/-! ### worker steps: one worker changes its control state -/

def move (s : S) (k : Nat) (w1 : W) (r' : Option Nat) (p' : List Nat) (o' : Nat) (pr' : List (Nat × Nat)) : S :=
  { setW s k w1 with rlock := r', pipe := p', out := o', processed := pr' }

theorem inv_move (items : List Nat) (s : S) (k : Nat) (w1 : W) (r' : Option Nat) (p' : List Nat) (o' : Nat)
    (pr' : List (Nat × Nat)) (h : Inv items s) (hk : k < s.n)
    (hw0 : s.ws k ≠ .exited)
    (c_cons : ∀ x, (pr'.map Prod.fst).count x + (if isHave x w1 then 1 else 0) + p'.count x
        = (s.processed.map Prod.fst).count x + (if isHave x (s.ws k) then 1 else 0) + s.pipe.count x)
    (c_lock1 : ∀ j, r' = some j → j < s.n ∧ isLocked (if j = k then w1 else s.ws j) = true)
    (c_lock2 : ∀ j, j < s.n → isLocked (if j = k then w1 else s.ws j) = true → r' = some j)
    (c_early : s.flag = false → w1 ≠ .exited ∧ w1 ≠ .sampled true ∧ w1 ≠ .locked true)
    (c_alive : s.flag = true → p' ≠ [] → ∃ j, j < s.n ∧ isLive (if j = k then w1 else s.ws j) = true)
    (c_nae : w1 ≠ .afterEmpty) :
    Inv items (move s k w1 r' p' o' pr') := by
  refine ⟨h.ff, ?_, ?_, ?_, ?_, h.drained, h.flagPc, ?_, ?_, ?_, ?_, h.closedTodo, h.joinedBuf, h.npos⟩
  · intro x
    have hc := h.cons x
    have hm := numW_setW s (isHave x) k w1 hk
    have e : numW (move s k w1 r' p' o' pr') (isHave x) = numW (setW s k w1) (isHave x) := numW_congr _ _ _ rfl rfl
    have := c_cons x
    unfold cnt at hc ⊢
    simp only [move, setW] at e ⊢
    simp only [setW] at hm
    rw [e]
    omega
  · intro j hj; exact c_lock1 j hj
  · intro j hj hl; exact c_lock2 j hj hl
  · intro hf j
    simp only [move, setW]
    by_cases hjk : j = k
    · simp only [hjk, if_true]; exact c_early hf
    · simp only [hjk, if_false]; exact h.early hf j
  · intro hf hp
    simp only [move, setW] at hf hp
    have e : numW (move s k w1 r' p' o' pr') isLive = numW (setW s k w1) isLive := numW_congr _ _ _ rfl rfl
    rw [e, numW_pos]
    obtain ⟨j, hj, hl⟩ := c_alive hf hp
    exact ⟨j, hj, hl⟩
  · intro k0 hk0 j hj
    simp only [move, setW] at hk0 ⊢
    have := h.joinedSoFar k0 hk0 j hj
    by_cases hjk : j = k
    · subst hjk; exact absurd this hw0
    · simp only [hjk, if_false]; exact this
  · intro hr j hj
    simp only [move, setW] at hr hj ⊢
    have := h.returnedAll hr j hj
    by_cases hjk : j = k
    · subst hjk; exact absurd this hw0
    · simp only [hjk, if_false]; exact this
  · intro j
    simp only [move, setW]
    by_cases hjk : j = k
    · simp only [hjk, if_true]; exact c_nae
    · simp only [hjk, if_false]; exact h.noAfterEmpty j


theorem live_of_ne_exited (w : W) (h : w ≠ .exited) : isLive w = true := by
  cases w <;> simp_all [isLive]

/-- some worker other than `k` is not exited, witnessed by the lock holder -/
theorem holder_live (items : List Nat) (s : S) (h : Inv items s) (k j : Nat) (hr : s.rlock = some j) (hjk : j ≠ k) (w1 : W) :
    ∃ j, j < s.n ∧ isLive (if j = k then w1 else s.ws j) = true := by
  obtain ⟨hj, hl⟩ := h.lockHolder j hr
  refine ⟨j, hj, ?_⟩
  simp only [hjk, if_false]
  cases hw : s.ws j <;> simp_all [isLocked, isLive]

theorem inv_begin (items : List Nat) (s s' : S) (k : Nat) (h : Inv items s) (hs : step s (.begin k) = some s') : Inv items s' := by
  simp only [step] at hs
  split at hs
  · rename_i hg
    obtain ⟨hk, hw⟩ := hg
    cases hs
    have : setW s k .top = move s k .top s.rlock s.pipe s.out s.processed := rfl
    rw [this]
    apply inv_move items s k .top _ _ _ _ h hk (by rw [hw]; intro e; cases e)
    · intro x; rw [hw]; simp [isHave]
    · intro j hj
      obtain ⟨a, b⟩ := h.lockHolder j hj
      refine ⟨a, ?_⟩
      by_cases hjk : j = k
      · subst hjk; rw [hw] at b; simp [isLocked] at b
      · simp only [hjk, if_false]; exact b
    · intro j hj hl
      by_cases hjk : j = k
      · simp [hjk, isLocked] at hl
      · simp only [hjk, if_false] at hl; exact h.lockedHolds j hj hl
    · intro _; exact ⟨(by simp), (by simp), (by simp)⟩
    · intro _ _; exact ⟨k, hk, by simp [isLive]⟩
    · intro e; cases e
  · cases hs

theorem inv_start (items : List Nat) (s s' : S) (k : Nat) (h : Inv items s) (hs : step s (.start k) = some s') : Inv items s' := by
  simp only [step] at hs
  split at hs
  · rename_i hg
    obtain ⟨hpc, hk, hw⟩ := hg
    cases hs
    have hnf := flag_false_of_pc items s h ⟨(by intro k hk; rw [hpc] at hk; cases hk), (by intro hk; rw [hpc] at hk; cases hk)⟩
    have hm : Inv items (move s k .ready s.rlock s.pipe s.out s.processed) := by
      apply inv_move items s k .ready _ _ _ _ h hk (by rw [hw]; intro e; cases e)
      · intro x; rw [hw]; simp [isHave]
      · intro j hj
        obtain ⟨a, b⟩ := h.lockHolder j hj
        refine ⟨a, ?_⟩
        by_cases hjk : j = k
        · subst hjk; rw [hw] at b; simp [isLocked] at b
        · simp only [hjk, if_false]; exact b
      · intro j hj hl
        by_cases hjk : j = k
        · simp [hjk, isLocked] at hl
        · simp only [hjk, if_false] at hl; exact h.lockedHolds j hj hl
      · intro _; exact ⟨(by simp), (by simp), (by simp)⟩
      · intro _ _; exact ⟨k, hk, by simp [isLive]⟩
      · intro e; cases e
    -- only the program counter differs from `move …`, and it stays among the pre-flag values
    refine ⟨hm.ff, ?_, hm.lockHolder, hm.lockedHolds, hm.early, ?_, ?_, ?_, ?_, ?_, hm.noAfterEmpty, ?_, ?_, hm.npos⟩
    · intro x
      have := hm.cons x
      unfold cnt at this ⊢
      have e : numW { setW s k .ready with pc := if k + 1 = s.n then PC.putting else PC.starting (k + 1) } (isHave x)
          = numW (move s k .ready s.rlock s.pipe s.out s.processed) (isHave x) := numW_congr _ _ _ rfl rfl
      rw [e]; exact this
    · intro hf; simp only [setW] at hf; rw [hnf] at hf; cases hf
    · simp only [setW]; rw [hnf]; constructor
      · intro hf; cases hf
      · by_cases hn : k + 1 = s.n <;> simp [hn]
    · intro hf; simp only [setW] at hf; rw [hnf] at hf; cases hf
    · intro k' hk'; simp only [setW] at hk'; by_cases hn : k + 1 = s.n <;> simp [hn] at hk'
    · intro hk'; simp only [setW] at hk'; by_cases hn : k + 1 = s.n <;> simp [hn] at hk'
    · intro hk'; simp only [setW] at hk'; by_cases hn : k + 1 = s.n <;> simp [hn] at hk'
    · intro hk'; simp only [setW] at hk'; by_cases hn : k + 1 = s.n <;> simp [hn] at hk'
  · cases hs

theorem inv_flagQ (items : List Nat) (s s' : S) (k : Nat) (b : Bool) (h : Inv items s) (hs : step s (.flagQ k b) = some s') :
    Inv items s' := by
  simp only [step] at hs
  split at hs
  · rename_i hg
    obtain ⟨hk, hb⟩ := hg
    split at hs
    · rename_i hw
      rw [h.ff] at hs
      simp only [if_true] at hs
      cases hs
      have : setW s k (.sampled b) = move s k (.sampled b) s.rlock s.pipe s.out s.processed := rfl
      rw [this]
      apply inv_move items s k (.sampled b) _ _ _ _ h hk (by rw [hw]; intro e; cases e)
      · intro x; rw [hw]; simp [isHave]
      · intro j hj
        obtain ⟨a, c⟩ := h.lockHolder j hj
        refine ⟨a, ?_⟩
        by_cases hjk : j = k
        · subst hjk; rw [hw] at c; simp [isLocked] at c
        · simp only [hjk, if_false]; exact c
      · intro j hj hl
        by_cases hjk : j = k
        · simp [hjk, isLocked] at hl
        · simp only [hjk, if_false] at hl; exact h.lockedHolds j hj hl
      · intro hf; rw [hb, hf]; exact ⟨(by simp), (by simp), (by simp)⟩
      · intro _ _; exact ⟨k, hk, by simp [isLive]⟩
      · intro e; cases e
    · rename_i hw; exact absurd hw (h.noAfterEmpty k)
    · cases hs
  · cases hs

theorem inv_rlock (items : List Nat) (s s' : S) (k : Nat) (h : Inv items s) (hs : step s (.rlock k) = some s') : Inv items s' := by
  simp only [step] at hs
  split at hs
  · rename_i hg
    obtain ⟨hk, hr⟩ := hg
    split at hs
    · rename_i d hw
      rw [h.ff] at hs
      simp only [if_true] at hs
      cases hs
      have : ({ setW s k (.locked d) with rlock := some k } : S) = move s k (.locked d) (some k) s.pipe s.out s.processed := rfl
      rw [this]
      apply inv_move items s k (.locked d) _ _ _ _ h hk (by rw [hw]; intro e; cases e)
      · intro x; rw [hw]; simp [isHave]
      · intro j hj
        simp only [Option.some.injEq] at hj
        subst hj
        exact ⟨hk, by simp [isLocked]⟩
      · intro j hj hl
        by_cases hjk : j = k
        · rw [hjk]
        · simp only [hjk, if_false] at hl
          have := h.lockedHolds j hj hl
          rw [hr] at this; cases this
      · intro hf
        have := (h.early hf k).2.1
        rw [hw] at this
        cases d
        · exact ⟨(by simp), (by simp), (by simp)⟩
        · exact absurd rfl this
      · intro _ _; exact ⟨k, hk, by simp [isLive]⟩
      · intro e; cases e
    · rw [h.ff] at hs; simp only [if_true] at hs; cases hs
    · cases hs
  · cases hs

theorem inv_rlockTimeout (items : List Nat) (s s' : S) (k : Nat) (h : Inv items s) (hs : step s (.rlockTimeout k) = some s') :
    Inv items s' := by
  simp only [step] at hs
  split at hs
  · rename_i hg
    obtain ⟨hk, hlo⟩ := hg
    have hother : ∃ j, s.rlock = some j ∧ j ≠ k := by
      unfold lockedByOther at hlo
      cases hr : s.rlock with
      | none => rw [hr] at hlo; cases hlo
      | some j => rw [hr] at hlo; exact ⟨j, rfl, by simpa using hlo⟩
    obtain ⟨j0, hr0, hj0⟩ := hother
    split at hs
    · rename_i d hw
      rw [h.ff] at hs
      simp only [if_true] at hs
      cases hs
      have : setW s k (if d = true then W.exited else W.top) = move s k (if d = true then W.exited else W.top) s.rlock s.pipe s.out s.processed := rfl
      rw [this]
      apply inv_move items s k _ _ _ _ _ h hk (by rw [hw]; intro e; cases e)
      · intro x; rw [hw]; cases d <;> simp [isHave]
      · intro j hj
        obtain ⟨a, c⟩ := h.lockHolder j hj
        refine ⟨a, ?_⟩
        by_cases hjk : j = k
        · subst hjk; rw [hw] at c; simp [isLocked] at c
        · simp only [hjk, if_false]; exact c
      · intro j hj hl
        by_cases hjk : j = k
        · subst hjk; cases d <;> simp [isLocked] at hl
        · simp only [hjk, if_false] at hl; exact h.lockedHolds j hj hl
      · intro hf
        have := (h.early hf k).2.1
        rw [hw] at this
        cases d
        · exact ⟨(by simp), (by simp), (by simp)⟩
        · exact absurd rfl this
      · intro _ _; exact holder_live items s h k j0 hr0 hj0 _
      · cases d <;> (intro e; cases e)
    · rw [h.ff] at hs; simp only [if_true] at hs; cases hs
    · cases hs
  · cases hs

theorem inv_recv (items : List Nat) (s s' : S) (k i : Nat) (h : Inv items s) (hs : step s (.recv k i) = some s') : Inv items s' := by
  simp only [step] at hs
  split at hs
  · rename_i hg
    obtain ⟨hk, hr⟩ := hg
    split at hs
    · rename_i d j rest hw hp
      split at hs
      · rename_i hij
        cases hs
        subst hij
        have : ({ setW s k (.have i) with pipe := rest, rlock := none, out := s.out - 1 } : S)
            = move s k (.have i) none rest (s.out - 1) s.processed := rfl
        rw [this]
        apply inv_move items s k (.have i) _ _ _ _ h hk (by rw [hw]; intro e; cases e)
        · intro x; rw [hw, hp]
          simp only [isHave, List.count_cons]
          by_cases hx : i = x <;> simp [hx]
          omega
        · intro j hj; cases hj
        · intro j hj hl
          by_cases hjk : j = k
          · simp [hjk, isLocked] at hl
          · simp only [hjk, if_false] at hl
            have := h.lockedHolds j hj hl
            rw [hr] at this
            exact absurd (Option.some.inj this).symm hjk
        · intro _; exact ⟨(by simp), (by simp), (by simp)⟩
        · intro _ _; exact ⟨k, hk, by simp [isLive]⟩
        · intro e; cases e
      · cases hs
    · cases hs
  · cases hs

theorem inv_empty (items : List Nat) (s s' : S) (k : Nat) (h : Inv items s) (hs : step s (.empty k) = some s') : Inv items s' := by
  simp only [step] at hs
  split at hs
  · rename_i hg
    obtain ⟨hk, hr, hp⟩ := hg
    split at hs
    · rename_i d hw
      rw [h.ff] at hs
      simp only [if_true] at hs
      cases hs
      have : ({ setW s k (if d = true then W.exited else W.top) with rlock := none } : S)
          = move s k (if d = true then W.exited else W.top) none s.pipe s.out s.processed := rfl
      rw [this]
      apply inv_move items s k _ _ _ _ _ h hk (by rw [hw]; intro e; cases e)
      · intro x; rw [hw]; cases d <;> simp [isHave]
      · intro j hj; cases hj
      · intro j hj hl
        by_cases hjk : j = k
        · subst hjk; cases d <;> simp [isLocked] at hl
        · simp only [hjk, if_false] at hl
          have := h.lockedHolds j hj hl
          rw [hr] at this
          exact absurd (Option.some.inj this).symm hjk
      · intro hf
        have := (h.early hf k).2.2
        rw [hw] at this
        cases d
        · exact ⟨(by simp), (by simp), (by simp)⟩
        · exact absurd rfl this
      · intro _ hne; exact absurd hp hne
      · cases d <;> (intro e; cases e)
    · cases hs
  · cases hs

theorem inv_cb (items : List Nat) (s s' : S) (k i : Nat) (h : Inv items s) (hs : step s (.cb k i) = some s') : Inv items s' := by
  simp only [step] at hs
  split at hs
  · rename_i hk
    split at hs
    · rename_i j hw
      split at hs
      · rename_i hij
        cases hs
        subst hij
        have : ({ setW s k .top with processed := s.processed ++ [(i, k)] } : S)
            = move s k .top s.rlock s.pipe s.out (s.processed ++ [(i, k)]) := rfl
        rw [this]
        apply inv_move items s k .top _ _ _ _ h hk (by rw [hw]; intro e; cases e)
        · intro x; rw [hw]
          simp only [isHave, List.map_append, List.map_cons, List.map_nil, List.count_append, List.count_cons, List.count_nil]
          by_cases hx : i = x <;> simp [hx]
        · intro j hj
          obtain ⟨a, c⟩ := h.lockHolder j hj
          refine ⟨a, ?_⟩
          by_cases hjk : j = k
          · subst hjk; rw [hw] at c; simp [isLocked] at c
          · simp only [hjk, if_false]; exact c
        · intro j hj hl
          by_cases hjk : j = k
          · simp [hjk, isLocked] at hl
          · simp only [hjk, if_false] at hl; exact h.lockedHolds j hj hl
        · intro _; exact ⟨(by simp), (by simp), (by simp)⟩
        · intro _ _; exact ⟨k, hk, by simp [isLive]⟩
        · intro e; cases e
      · cases hs
    · cases hs
  · cases hs

/-- **the invariant is inductive**: every step of every process preserves it -/
theorem inv_step (items : List Nat) (s s' : S) (l : L) (h : Inv items s) (hs : step s l = some s') : Inv items s' := by
  cases l with
  | start k => exact inv_start items s s' k h hs
  | begin k => exact inv_begin items s s' k h hs
  | put i => exact inv_put items s s' i h hs
  | flush => exact inv_flush items s s' h hs
  | close => exact inv_close items s s' h hs
  | joinThread => exact inv_joinThread items s s' h hs
  | setFlag => exact inv_setFlag items s s' h hs
  | join k => exact inv_join items s s' k h hs
  | flagQ k b => exact inv_flagQ items s s' k b h hs
  | rlock k => exact inv_rlock items s s' k h hs
  | rlockTimeout k => exact inv_rlockTimeout items s s' k h hs
  | recv k i => exact inv_recv items s s' k i h hs
  | empty k => exact inv_empty items s s' k h hs
  | cb k i => exact inv_cb items s s' k i h hs

theorem inv_run (items : List Nat) : ∀ (tr : List L) (s s' : S), Inv items s → run s tr = some s' → Inv items s' := by
  intro tr
  induction tr with
  | nil => intro s s' h hr; simp only [run, Option.some.injEq] at hr; subst hr; exact h
  | cons l ls ih =>
    intro s s' h hr
    simp only [run] at hr
    split at hr
    · rename_i s1 hs1; exact ih s1 s' (inv_step items s s1 l h hs1) hr
    · cases hr

theorem inv_reachable (n cap : Nat) (items : List Nat) (hn : 0 < n) (s : S)
    (hr : Reachable n cap true items s) : Inv items s := by
  obtain ⟨tr, htr⟩ := hr
  exact inv_run items tr _ s (inv_init n cap items hn) htr


/-! ### the property -/

/-- the worker order the theorems are about is the one in the source now -/
theorem code_is_flag_first : Gen.Stage.flag_first = true ∧ Gen.Stage.visit_producer_order_ok = true ∧
    Gen.Stage.transform_producer_order_ok = true ∧ Gen.Stage.multi_tan_producer_order_ok = true ∧
    Gen.Stage.multi_wcs_producer_order_ok = true := by decide

theorem count_processed_le (n cap : Nat) (items : List Nat) (hn : 0 < n) (s : S)
    (hr : Reachable n cap true items s) (x : Nat) : (s.processed.map Prod.fst).count x ≤ items.count x := by
  have := (inv_reachable n cap items hn s hr).cons x
  unfold cnt at this
  omega

/-- **stage_no_dup**: in every reachable state — any number of workers, any capacity, any
interleaving — no item has been handed to the callback more often than it was produced; with
distinct items, each is processed at most once (hence by at most one worker). -/
theorem stage_no_dup (n cap : Nat) (items : List Nat) (hn : 0 < n) (hnd : items.Nodup) (s : S)
    (hr : Reachable n cap true items s) : (s.processed.map Prod.fst).Nodup := by
  rw [List.nodup_iff_count]
  intro x
  have h1 := count_processed_le n cap items hn s hr x
  have h2 := List.nodup_iff_count.mp hnd x
  omega

/-- **returns only after all workers have exited** -/
theorem returned_all_exited (n cap : Nat) (items : List Nat) (hn : 0 < n) (s : S)
    (hr : Reachable n cap true items s) (hret : s.pc = .returned) : ∀ k, k < s.n → s.ws k = .exited :=
  (inv_reachable n cap items hn s hr).returnedAll hret

/-- **stage_no_loss**: whenever the producer has returned, every produced item has been completely
processed (its callback has finished) exactly as often as it was produced: the processed items are a
permutation of the produced ones, nothing is left in the queue and no worker still holds an item. -/
theorem stage_no_loss (n cap : Nat) (items : List Nat) (hn : 0 < n) (s : S)
    (hr : Reachable n cap true items s) (hret : s.pc = .returned) :
    (s.processed.map Prod.fst).Perm items ∧ s.pipe = [] ∧ s.buf = [] ∧ s.todo = [] := by
  have h := inv_reachable n cap items hn s hr
  have hf : s.flag = true := h.flagPc.mpr (Or.inr hret)
  obtain ⟨htodo, hbuf⟩ := h.drained hf
  have hex := h.returnedAll hret
  have hlive : numW s isLive = 0 := by
    rw [numW_zero]; intro k hk; rw [hex k hk]; rfl
  have hpipe : s.pipe = [] := by
    cases hp : s.pipe with
    | nil => rfl
    | cons a l =>
      have := h.alive hf (by rw [hp]; simp)
      omega
  refine ⟨?_, hpipe, hbuf, htodo⟩
  rw [List.perm_iff_count]
  intro x
  have hc := h.cons x
  have hh : numW s (isHave x) = 0 := by
    rw [numW_zero]; intro k hk; rw [hex k hk]; rfl
  unfold cnt at hc
  rw [hh, hpipe, hbuf, htodo] at hc
  simpa using hc

/-- every callback ran in one of the `n` workers -/
theorem processed_by_worker (n cap : Nat) (items : List Nat) : ∀ (tr : List L) (s s' : S),
    (∀ e ∈ s.processed, e.2 < s.n) → run s tr = some s' → s'.n = s.n ∧ ∀ e ∈ s'.processed, e.2 < s.n := by
  intro tr
  induction tr with
  | nil => intro s s' h hr; simp only [run, Option.some.injEq] at hr; subst hr; exact ⟨rfl, h⟩
  | cons l ls ih =>
    intro s s' h hr
    simp only [run] at hr
    split at hr
    · rename_i s1 hs1
      have key : s1.n = s.n ∧ ∀ e ∈ s1.processed, e.2 < s.n := by
        cases l <;> simp only [step] at hs1 <;> (repeat' split at hs1) <;> (try cases hs1) <;>
          first
            | exact ⟨rfl, h⟩
            | (refine ⟨rfl, ?_⟩
               intro e he
               simp only [setW, List.mem_append, List.mem_singleton] at he
               rcases he with he | he
               · exact h e he
               · subst he; simp_all)
      have := ih s1 s' (by intro e he; rw [key.1]; exact key.2 e he) hr
      exact ⟨this.1.trans key.1, by intro e he; have := this.2 e he; rw [key.1] at this; exact this⟩
    · cases hr

/-! ### the original step order loses items -/

/-- With the flag read only *after* an empty poll (the code before `fix: close the shutdown race…`),
one worker and one item: the worker's poll times out on the still-empty pipe; the producer then
enqueues the item, flushes, closes, joins the feeder and raises the flag; the worker reads the flag
and exits.  The stage returns with the item never processed. -/
theorem flag_after_empty_loses_item :
    ∃ s, run (init 1 2 false [7])
        [.start 0, .begin 0, .rlock 0, .empty 0, .put 7, .flush, .close, .joinThread, .setFlag, .flagQ 0 true, .join 0] = some s
      ∧ s.pc = .returned ∧ s.ws 0 = .exited ∧ s.processed = [] ∧ s.pipe = [7] :=
  ⟨_, rfl, rfl, rfl, rfl, rfl⟩

/-! non-vacuity: a complete run with 2 workers, 3 items, capacity 4 -/
example : ∃ s, run (init 2 4 true [0, 1, 2])
    [.start 0, .start 1, .begin 0, .put 0, .put 1, .flush, .flagQ 0 false, .rlock 0, .recv 0 0, .cb 0 0, .begin 1,
     .flagQ 1 false, .rlock 1, .flush, .recv 1 1, .put 2, .close, .flush, .joinThread, .setFlag, .cb 1 1,
     .flagQ 0 true, .rlock 0, .recv 0 2, .cb 0 2, .flagQ 1 true, .rlock 1, .empty 1, .flagQ 0 true, .rlock 0, .empty 0,
     .join 0, .join 1] = some s ∧ s.pc = .returned ∧ s.processed = [(0, 0), (1, 1), (2, 0)] :=
  ⟨_, rfl, rfl, rfl⟩

/-- **entry_points**: the call sites through which this property's workflows reach the modelled functions have, in the source as
it is now, the argument plumbing the model assumes (facts re-extracted on every run, `Gen/Plumbing.lean`) -/
theorem entry_points : Gen.Plumbing.multi_tan_tile_argument_order = true ∧ Gen.Plumbing.multi_wcs_tile_argument_order = true ∧ Gen.Plumbing.visit_leaves_hands_resolved_parallelism = true := by decide

end C03
