/-
C19, liveness half — a failure is *eventually* reported.

`C19.error_visible` says that once the parent has finished it has raised exactly when some callback failed.  Here:
from every reachable state of the stage with failing callbacks in which the parent has not finished yet — any number of
workers, capacity, items, interleaving and failures so far — some continuation lets the parent finish, and it then
raises iff a callback has failed.  (No failure can make the stage hang or lose the error: the failure-free
protocol's liveness theorem `C03Live.stage_progress` lifts along the projection.)
-/
import ToastyVerif.Props.C19
import ToastyVerif.Props.C03Live

namespace C19Live
open Stage C19

/-- a failure-free continuation of the base protocol is a continuation of the protocol with failures -/
theorem lift_run : ∀ (tr : List L) (b0 : S) (f : List Nat) (lf : Bool) (b : S), run b0 tr = some b →
    runE { base := b0, failed := f, loadFailed := lf, outcome := none } (tr.map LE.base) =
      some { base := b, failed := f, loadFailed := lf, outcome := none } := by
  intro tr
  induction tr with
  | nil =>
    intro b0 f lf b h
    simp only [run, Option.some.injEq] at h
    subst h
    rfl
  | cons l ls ih =>
    intro b0 f lf b h
    simp only [run] at h
    cases hst : step b0 l with
    | none => rw [hst] at h; cases h
    | some b1 =>
      rw [hst] at h
      simp only [List.map_cons, runE, stepE, if_true, hst, Option.map_some]
      exact ih b1 f lf b h

theorem runE_append : ∀ (t1 t2 : List LE) (a : SE), runE a (t1 ++ t2) = (runE a t1).bind (fun b => runE b t2) := by
  intro t1
  induction t1 with
  | nil => intro t2 a; rfl
  | cons x xs ih =>
    intro t2 a
    simp only [List.cons_append, runE]
    cases hx : stepE a x with
    | none => rfl
    | some a1 => exact ih t2 a1

/-- **error_reported_eventually**: from every reachable state in which the parent has not finished, there is a
continuation after which it has — with all workers exited — and it has raised exactly when some callback failed
(including the failures that had happened before). -/
theorem error_reported_eventually (n cap : Nat) (items : List Nat) (hn : 0 < n) (tr0 : List LE) (s : SE)
    (hr : runE (initE n cap items) tr0 = some s) (ho : s.outcome = none) :
    ∃ tr s', runE s tr = some s' ∧ s'.failed = s.failed ∧ (∀ k, k < s'.base.n → s'.base.ws k = .exited) ∧
      s'.outcome = some (decide (s.failed ≠ [])) := by
  have hb : Reachable n cap true items s.base := ⟨tr0.flatMap proj, projects tr0 _ s hr⟩
  obtain ⟨tr, b, hrun, hret, hex, _⟩ := C03Live.stage_progress n cap items hn s.base hb
  refine ⟨tr.map LE.base ++ [LE.check], { base := b, failed := s.failed, loadFailed := s.loadFailed, outcome := some (decide (s.failed ≠ [])) }, ?_, rfl, hex, rfl⟩
  obtain ⟨b0, f, lf, o⟩ := s
  simp only at ho
  subst ho
  rw [runE_append, lift_run tr b0 f lf b hrun]
  simp [runE, stepE, hret]

/-- non-vacuity: worker 0 fails on the first item of a 2-worker stage; the stage can still finish, and raises -/
example : ∃ tr s', runE (initE 2 1 [5, 6]) tr = some s' ∧ s'.outcome = some true := by
  obtain ⟨b, h0⟩ : ∃ b, runE (initE 2 1 [5, 6]) [.base (.start 0), .base (.start 1), .base (.put 5), .base .flush, .base (.begin 0),
      .base (.flagQ 0 false), .base (.rlock 0), .base (.recv 0 5), .cbFail 0 5] =
      some { base := b, failed := [5], outcome := none } := ⟨_, rfl⟩
  obtain ⟨tr, s', h1, _, _, h4⟩ := error_reported_eventually 2 1 [5, 6] (by omega) _ _ h0 rfl
  exact ⟨_, s', by rw [runE_append, h0]; exact h1, by simpa using h4⟩

end C19Live
