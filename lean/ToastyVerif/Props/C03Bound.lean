/-
C03, liveness half, second part — in every execution of a hand-off stage only polling can repeat.

`C03Live.stage_progress` shows that a stage can always finish.  Here: of the fourteen kinds of transition, the ten that
do something (start a worker, begin its loop, put / flush / receive an item, run a callback, close, join the feeder, set
the flag, join a worker) happen at most `4·|items| + 4·n + 5` times in ANY execution, whatever the interleaving; the four
others (read the flag, take the reader lock, time out on it, find the pipe empty) are the workers' polling loop and leave
the potential unchanged.  So the only way an execution can be infinite is by polling for ever while — by
`stage_progress` — a useful transition stays possible: exactly the executions a fair scheduler excludes.
-/
import ToastyVerif.Props.C03Live

namespace C03Bound
open Stage C03Live

/-- what a worker still owes: being started (2) and begun (1), or the callback of the item it holds (1) -/
def wgt : W → Nat
  | .notStarted => 2
  | .ready => 1
  | .have _ => 1
  | _ => 0

/-- potential: an item costs 4 before `put`, 3 in the feeder's buffer, 2 in the pipe, 1 in a worker's hands; plus the
producer's remaining program and the workers' start-up -/
def phi (s : S) : Nat := 4 * s.todo.length + 3 * s.buf.length + 2 * s.pipe.length + pcRank s + sumW s wgt

/-- the transitions that are not part of a worker's polling loop -/
def eff : L → Bool
  | .start _ | .begin _ | .put _ | .flush | .close | .joinThread | .setFlag | .join _ | .recv _ _ | .cb _ _ => true
  | .flagQ _ _ | .rlock _ | .rlockTimeout _ | .empty _ => false

theorem sumW_upd (s s' : S) (k : Nat) (w : W) (hk : k < s.n) (hn : s'.n = s.n) (hws : s'.ws = (setW s k w).ws) :
    sumW s' wgt + wgt (s.ws k) = sumW s wgt + wgt w := by
  have := sumW_setW s wgt k w hk
  rw [sumW_congr (setW s k w) s' wgt hn hws]
  exact this

theorem phi_eq (s' : S) (t b p : List Nat) (r x : Nat) (ht : s'.todo = t) (hb : s'.buf = b) (hp : s'.pipe = p)
    (hr : pcRank s' = r) (hx : sumW s' wgt = x) : phi s' = 4 * t.length + 3 * b.length + 2 * p.length + r + x := by
  unfold phi; rw [ht, hb, hp, hr, hx]

/-- a worker moves inside its polling loop (or leaves it): the potential does not change -/
theorem phi_same (s s' : S) (k : Nat) (w : W) (hk : k < s.n) (hn : s'.n = s.n) (hws : s'.ws = (setW s k w).ws)
    (ht : s'.todo = s.todo) (hb : s'.buf = s.buf) (hp : s'.pipe = s.pipe) (hpc : s'.pc = s.pc)
    (h0 : wgt (s.ws k) = 0) (h1 : wgt w = 0) : phi s' = phi s := by
  have e := sumW_upd s s' k w hk hn hws
  have hr : pcRank s' = pcRank s := by unfold pcRank; rw [hpc, hn]
  unfold phi; rw [ht, hb, hp, hr]; omega

theorem phi_bound (s s' : S) (c : Nat) (t b p : List Nat) (ht : s'.todo = t) (hb : s'.buf = b) (hp : s'.pipe = p)
    (harith : 4 * t.length + 3 * b.length + 2 * p.length + pcRank s' + sumW s' wgt + c
      ≤ 4 * s.todo.length + 3 * s.buf.length + 2 * s.pipe.length + pcRank s + sumW s wgt) : phi s' + c ≤ phi s := by
  unfold phi; rw [ht, hb, hp]; exact harith

theorem pcRank_same (s s' : S) (hn : s'.n = s.n) (hpc : s'.pc = s.pc) : pcRank s' = pcRank s := by
  unfold pcRank; rw [hpc, hn]

theorem sumW_same (s s' : S) (hn : s'.n = s.n) (hws : s'.ws = s.ws) : sumW s' wgt = sumW s wgt := sumW_congr s s' wgt hn hws

/-- **phi_step**: no transition increases the potential, and every transition outside the polling loop decreases it -/
theorem phi_step (s s' : S) (l : L) (h : step s l = some s') : phi s' + (if eff l then 1 else 0) ≤ phi s := by
  cases l with
  | start k =>
    simp only [step] at h
    split at h
    · rename_i hg
      obtain ⟨hpc, hk, hw⟩ := hg
      simp only [Option.some.injEq] at h
      have e := sumW_upd s s' k .ready hk (by subst h; rfl) (by subst h; rfl)
      rw [hw] at e
      have hr : pcRank s' + 1 ≤ pcRank s := by
        rw [← h]; unfold pcRank; rw [hpc]
        by_cases e1 : k + 1 = s.n
        · simp only [e1, if_true]; show s.n + 4 + 1 ≤ 2 * s.n + 5 - k; omega
        · simp only [e1, if_false]; show 2 * s.n + 5 - (k + 1) + 1 ≤ 2 * s.n + 5 - k; omega
      have e' : sumW s' wgt + 2 = sumW s wgt + 1 := e
      show phi s' + 1 ≤ phi s
      exact phi_bound s s' 1 s.todo s.buf s.pipe (by subst h; rfl) (by subst h; rfl) (by subst h; rfl) (by omega)
    · cases h
  | begin k =>
    simp only [step] at h
    split at h
    · rename_i hg
      obtain ⟨hk, hw⟩ := hg
      simp only [Option.some.injEq] at h
      have e := sumW_upd s s' k .top hk (by subst h; rfl) (by subst h; rfl)
      rw [hw] at e
      have e' : sumW s' wgt + 1 = sumW s wgt + 0 := e
      have hr := pcRank_same s s' (by subst h; rfl) (by subst h; rfl)
      show phi s' + 1 ≤ phi s
      exact phi_bound s s' 1 s.todo s.buf s.pipe (by subst h; rfl) (by subst h; rfl) (by subst h; rfl) (by omega)
    · cases h
  | put i =>
    simp only [step] at h
    split at h
    · rename_i j rest ht
      split at h
      · simp only [Option.some.injEq] at h
        have hr := pcRank_same s s' (by subst h; rfl) (by subst h; rfl)
        have hx := sumW_same s s' (by subst h; rfl) (by subst h; rfl)
        show phi s' + 1 ≤ phi s
        refine phi_bound s s' 1 rest (s.buf ++ [i]) s.pipe (by subst h; rfl) (by subst h; rfl) (by subst h; rfl) ?_
        rw [ht]; simp only [List.length_cons, List.length_append, List.length_nil]; omega
      · cases h
    · cases h
  | flush =>
    simp only [step] at h
    split at h
    · rename_i i rest hb
      simp only [Option.some.injEq] at h
      have hr := pcRank_same s s' (by subst h; rfl) (by subst h; rfl)
      have hx := sumW_same s s' (by subst h; rfl) (by subst h; rfl)
      show phi s' + 1 ≤ phi s
      refine phi_bound s s' 1 s.todo rest (s.pipe ++ [i]) (by subst h; rfl) (by subst h; rfl) (by subst h; rfl) ?_
      rw [hb]; simp only [List.length_cons, List.length_append, List.length_nil]; omega
    · cases h
  | close =>
    simp only [step] at h
    split at h
    · rename_i hg
      simp only [Option.some.injEq] at h
      have hr : pcRank s' + 1 = pcRank s := by rw [← h]; unfold pcRank; rw [hg.1]
      have hx := sumW_same s s' (by subst h; rfl) (by subst h; rfl)
      show phi s' + 1 ≤ phi s
      exact phi_bound s s' 1 s.todo s.buf s.pipe (by subst h; rfl) (by subst h; rfl) (by subst h; rfl) (by omega)
    · cases h
  | joinThread =>
    simp only [step] at h
    split at h
    · rename_i hg
      simp only [Option.some.injEq] at h
      have hr : pcRank s' + 1 = pcRank s := by rw [← h]; unfold pcRank; rw [hg.1]
      have hx := sumW_same s s' (by subst h; rfl) (by subst h; rfl)
      show phi s' + 1 ≤ phi s
      exact phi_bound s s' 1 s.todo s.buf s.pipe (by subst h; rfl) (by subst h; rfl) (by subst h; rfl) (by omega)
    · cases h
  | setFlag =>
    simp only [step] at h
    split at h
    · rename_i hg
      simp only [Option.some.injEq] at h
      have hr : pcRank s' + 1 = pcRank s := by
        rw [← h]; unfold pcRank; rw [hg]; show s.n + 1 - 0 + 1 = s.n + 2; omega
      have hx := sumW_same s s' (by subst h; rfl) (by subst h; rfl)
      show phi s' + 1 ≤ phi s
      exact phi_bound s s' 1 s.todo s.buf s.pipe (by subst h; rfl) (by subst h; rfl) (by subst h; rfl) (by omega)
    · cases h
  | join k =>
    simp only [step] at h
    split at h
    · rename_i hg
      obtain ⟨hpc, hk, _⟩ := hg
      simp only [Option.some.injEq] at h
      have hr : pcRank s' + 1 ≤ pcRank s := by
        rw [← h]; unfold pcRank; rw [hpc]
        by_cases e1 : k + 1 = s.n
        · simp only [e1, if_true]; show 0 + 1 ≤ s.n + 1 - k; omega
        · simp only [e1, if_false]; show s.n + 1 - (k + 1) + 1 ≤ s.n + 1 - k; omega
      have hx := sumW_same s s' (by subst h; rfl) (by subst h; rfl)
      show phi s' + 1 ≤ phi s
      exact phi_bound s s' 1 s.todo s.buf s.pipe (by subst h; rfl) (by subst h; rfl) (by subst h; rfl) (by omega)
    · cases h
  | flagQ k b =>
    simp only [step] at h
    split at h
    · rename_i hg
      split at h
      · rename_i hw
        split at h
        · simp only [Option.some.injEq] at h
          have := phi_same s s' k (.sampled b) hg.1 (by subst h; rfl) (by subst h; rfl) (by subst h; rfl) (by subst h; rfl) (by subst h; rfl) (by subst h; rfl) (by rw [hw]; rfl) rfl
          show phi s' + 0 ≤ phi s; omega
        · cases h
      · rename_i hw
        split at h
        · cases h
        · simp only [Option.some.injEq] at h
          have := phi_same s s' k (if b then .exited else .top) hg.1 (by subst h; rfl) (by subst h; rfl) (by subst h; rfl) (by subst h; rfl) (by subst h; rfl) (by subst h; rfl) (by rw [hw]; rfl) (by cases b <;> rfl)
          show phi s' + 0 ≤ phi s; omega
      · cases h
    · cases h
  | rlock k =>
    simp only [step] at h
    split at h
    · rename_i hg
      split at h
      · rename_i d hw
        split at h
        · simp only [Option.some.injEq] at h
          have := phi_same s s' k (.locked d) hg.1 (by subst h; rfl) (by subst h; rfl) (by subst h; rfl) (by subst h; rfl) (by subst h; rfl) (by subst h; rfl) (by rw [hw]; rfl) rfl
          show phi s' + 0 ≤ phi s; omega
        · cases h
      · rename_i hw
        split at h
        · cases h
        · simp only [Option.some.injEq] at h
          have := phi_same s s' k (.locked false) hg.1 (by subst h; rfl) (by subst h; rfl) (by subst h; rfl) (by subst h; rfl) (by subst h; rfl) (by subst h; rfl) (by rw [hw]; rfl) rfl
          show phi s' + 0 ≤ phi s; omega
      · cases h
    · cases h
  | rlockTimeout k =>
    simp only [step] at h
    split at h
    · rename_i hg
      split at h
      · rename_i d hw
        split at h
        · simp only [Option.some.injEq] at h
          have := phi_same s s' k (if d then .exited else .top) hg.1 (by subst h; rfl) (by subst h; rfl) (by subst h; rfl) (by subst h; rfl) (by subst h; rfl) (by subst h; rfl) (by rw [hw]; rfl) (by cases d <;> rfl)
          show phi s' + 0 ≤ phi s; omega
        · cases h
      · rename_i hw
        split at h
        · cases h
        · simp only [Option.some.injEq] at h
          have := phi_same s s' k (.afterEmpty) hg.1 (by subst h; rfl) (by subst h; rfl) (by subst h; rfl) (by subst h; rfl) (by subst h; rfl) (by subst h; rfl) (by rw [hw]; rfl) rfl
          show phi s' + 0 ≤ phi s; omega
      · cases h
    · cases h
  | recv k i =>
    simp only [step] at h
    split at h
    · rename_i hg
      split at h
      · rename_i d j rest hw hp
        split at h
        · simp only [Option.some.injEq] at h
          have e := sumW_upd s s' k (.have i) hg.1 (by subst h; rfl) (by subst h; rfl)
          rw [hw] at e
          have e' : sumW s' wgt + 0 = sumW s wgt + 1 := e
          have hr := pcRank_same s s' (by subst h; rfl) (by subst h; rfl)
          show phi s' + 1 ≤ phi s
          refine phi_bound s s' 1 s.todo s.buf rest (by subst h; rfl) (by subst h; rfl) (by subst h; rfl) ?_
          rw [hp]; simp only [List.length_cons]; omega
        · cases h
      · cases h
    · cases h
  | empty k =>
    simp only [step] at h
    split at h
    · rename_i hg
      split at h
      · rename_i d hw
        simp only [Option.some.injEq] at h
        have := phi_same s s' k (if s.flagFirst then (if d then .exited else .top) else .afterEmpty) hg.1 (by subst h; rfl) (by subst h; rfl) (by subst h; rfl) (by subst h; rfl) (by subst h; rfl) (by subst h; rfl) (by rw [hw]; rfl) (by cases s.flagFirst <;> cases d <;> rfl)
        show phi s' + 0 ≤ phi s; omega
      · cases h
    · cases h
  | cb k i =>
    simp only [step] at h
    split at h
    · rename_i hk
      split at h
      · rename_i j hw
        split at h
        · simp only [Option.some.injEq] at h
          have e := sumW_upd s s' k .top hk (by subst h; rfl) (by subst h; rfl)
          rw [hw] at e
          have e' : sumW s' wgt + 1 = sumW s wgt + 0 := e
          have hr := pcRank_same s s' (by subst h; rfl) (by subst h; rfl)
          show phi s' + 1 ≤ phi s
          exact phi_bound s s' 1 s.todo s.buf s.pipe (by subst h; rfl) (by subst h; rfl) (by subst h; rfl) (by omega)
        · cases h
      · cases h
    · cases h

/-- along any execution the transitions outside the polling loop are paid for by the potential -/
theorem run_eff_bound : ∀ (tr : List L) (s s' : S), run s tr = some s' → (tr.filter eff).length + phi s' ≤ phi s := by
  intro tr
  induction tr with
  | nil => intro s s' h; simp only [run, Option.some.injEq] at h; subst h; simp
  | cons l ls ih =>
    intro s s' h
    simp only [run] at h
    cases hst : step s l with
    | none => rw [hst] at h; cases h
    | some z =>
      rw [hst] at h
      have h1 := ih z s' h
      have h2 := phi_step s z l hst
      by_cases he : eff l = true
      · simp only [he, if_true] at h2
        simp only [List.filter_cons, he, if_true, List.length_cons]; omega
      · simp only [he] at h2
        simp only [List.filter_cons, he]; simp only [Bool.false_eq_true, if_false] at h2 ⊢; omega

theorem sum_const (c : Nat) : ∀ n, ((List.range n).map (fun _ => c)).sum = c * n := by
  intro n
  induction n with
  | zero => rfl
  | succ n ih =>
    rw [List.range_succ, List.map_append, List.sum_append, ih]
    simp only [List.map_cons, List.map_nil, List.sum_cons, List.sum_nil]
    rw [Nat.mul_succ]; omega

theorem phi_init (n cap : Nat) (ff : Bool) (items : List Nat) : phi (init n cap ff items) = 4 * items.length + 4 * n + 5 := by
  have h1 : sumW (init n cap ff items) wgt = 2 * n := sum_const 2 n
  have h2 : pcRank (init n cap ff items) = 2 * n + 5 := by show 2 * n + 5 - 0 = 2 * n + 5; omega
  unfold phi; rw [h1, h2]
  show 4 * items.length + 3 * 0 + 2 * 0 + (2 * n + 5) + 2 * n = _
  omega

/-- **effective_steps_bounded**: in ANY execution of a stage with `n` workers over `items` — whatever the interleaving and
however long — at most `4·|items| + 4·n + 5` transitions are not steps of a worker's polling loop (flag read, reader-lock
acquisition, lock time-out, empty poll). -/
theorem effective_steps_bounded (n cap : Nat) (ff : Bool) (items : List Nat) (tr : List L) (s : S)
    (h : run (init n cap ff items) tr = some s) : (tr.filter eff).length ≤ 4 * items.length + 4 * n + 5 := by
  have := run_eff_bound tr _ s h
  rw [phi_init] at this; omega

/-- **only_polling_can_repeat**: every execution prefix, of any length, contains a bounded number of non-polling transitions
AND can still be completed (`stage_progress`): what an unfair scheduler can do to a stage is keep its workers polling, nothing
else; there is no livelock among the transitions that do something and no state from which finishing is impossible. -/
theorem only_polling_can_repeat (n cap : Nat) (items : List Nat) (hn : 0 < n) (tr : List L) (s : S)
    (h : run (init n cap true items) tr = some s) :
    (tr.filter eff).length ≤ 4 * items.length + 4 * n + 5 ∧
      ∃ tr' s', run s tr' = some s' ∧ s'.pc = .returned :=
  ⟨effective_steps_bounded n cap true items tr s h, by
    obtain ⟨tr', s', h1, h2⟩ := stage_progress n cap items hn s ⟨tr, h⟩
    exact ⟨tr', s', h1, h2.1⟩⟩

/-- non-vacuity: a prefix with three polling transitions and three effective ones -/
example : ∃ s, run (init 1 0 true [7]) [.start 0, .begin 0, .flagQ 0 false, .rlock 0, .empty 0, .put 7] = some s ∧
    ([L.start 0, .begin 0, .flagQ 0 false, .rlock 0, .empty 0, .put 7].filter eff).length = 3 := ⟨_, rfl, rfl⟩

end C03Bound
