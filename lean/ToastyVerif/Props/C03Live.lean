/-
C03, liveness half — the hand-off protocol can always finish.

From every reachable state of the stage model (flag read before the poll, as in the code), for any
number of workers, any capacity and any list of items, there is a continuation that ends with the
producer returned.  Together with the safety theorems of `Props/C03.lean` (in a returned state all
workers have exited and every item has been processed exactly once) this says the protocol has no
deadlock and no state from which termination has become impossible; under a fair scheduler, which
eventually takes every continuously enabled step, the constructed continuation is the one that
happens.  (Real executions also interleave useless time-outs; those only delay.)
-/
import ToastyVerif.Props.C03

namespace C03Live
open Stage C03

/-! ### sums over the workers -/

def sumW (s : S) (g : W → Nat) : Nat := ((List.range s.n).map (fun k => g (s.ws k))).sum

theorem sum_range_update (ws : Nat → W) (g : W → Nat) (k : Nat) (w : W) : ∀ n, k < n →
    ((List.range n).map (fun j => g (if j = k then w else ws j))).sum + g (ws k)
      = ((List.range n).map (fun j => g (ws j))).sum + g w := by
  intro n
  induction n with
  | zero => intro h; omega
  | succ n ih =>
    intro h
    rw [List.range_succ, List.map_append, List.map_append, List.sum_append, List.sum_append]
    simp only [List.map_cons, List.map_nil, List.sum_cons, List.sum_nil, Nat.add_zero]
    by_cases hk : k = n
    · subst hk
      have hsame : (List.range k).map (fun j => g (if j = k then w else ws j)) = (List.range k).map (fun j => g (ws j)) := by
        apply List.map_congr_left
        intro j hj
        have : j ≠ k := by have := List.mem_range.1 hj; omega
        simp [this]
      rw [hsame]; simp; omega
    · have := ih (by omega)
      have hn : ¬ (n = k) := fun e => hk e.symm
      simp only [hn, if_false]
      omega

theorem sumW_setW (s : S) (g : W → Nat) (k : Nat) (w : W) (hk : k < s.n) :
    sumW (setW s k w) g + g (s.ws k) = sumW s g + g w := by
  unfold sumW setW
  exact sum_range_update s.ws g k w s.n hk

theorem sumW_congr (s s' : S) (g : W → Nat) (hn : s'.n = s.n) (hw : s'.ws = s.ws) : sumW s' g = sumW s g := by
  unfold sumW; rw [hn, hw]

/-! ### the extra invariant needed for progress -/

structure Live (s : S) : Prop where
  startIdx : ∀ j, s.pc = .starting j → j < s.n
  joinIdx : ∀ j, s.pc = .joining j → j < s.n
  notStarted : ∀ k, k < s.n → (s.ws k = .notStarted ↔ ∃ j, s.pc = .starting j ∧ j ≤ k)
  outCount : s.out = s.buf.length + s.pipe.length

theorem live_init (n cap : Nat) (items : List Nat) (hn : 0 < n) : Live (init n cap true items) := by
  refine ⟨?_, ?_, ?_, rfl⟩
  · intro j h; simp [init] at h ⊢; omega
  · intro j h; simp [init] at h
  · intro k _
    simp only [init, true_iff]
    exact ⟨0, rfl, Nat.zero_le _⟩

/-- a step that changes neither the producer's counter nor any worker into or out of `notStarted` -/
theorem live_of_same (s s' : S) (h : Live s) (hn : s'.n = s.n) (hpc : s'.pc = s.pc)
    (hws : ∀ k, k < s.n → (s'.ws k = .notStarted ↔ s.ws k = .notStarted))
    (hout : s'.out = s'.buf.length + s'.pipe.length) : Live s' := by
  refine ⟨?_, ?_, ?_, hout⟩
  · intro j hj; rw [hpc] at hj; rw [hn]; exact h.startIdx j hj
  · intro j hj; rw [hpc] at hj; rw [hn]; exact h.joinIdx j hj
  · intro k hk
    rw [hn] at hk
    rw [hws k hk, hpc]
    exact h.notStarted k hk

theorem setW_ns (s : S) (k : Nat) (w : W) (hw : w ≠ .notStarted) (hk0 : s.ws k ≠ .notStarted) (j : Nat) :
    ((setW s k w).ws j = .notStarted ↔ s.ws j = .notStarted) := by
  unfold setW
  by_cases e : j = k
  · subst e; simp [hw, hk0]
  · simp [e]

theorem live_step (s s' : S) (l : L) (h : Live s) (hn0 : 0 < s.n) (hs : step s l = some s') : Live s' := by
  cases l with
  | start k =>
    simp only [step] at hs
    split at hs
    · rename_i hc
      obtain ⟨hpc, hk, hw⟩ := hc
      cases hs
      refine ⟨?_, ?_, ?_, h.outCount⟩
      · intro j hj
        simp only [setW] at hj ⊢
        split at hj
        · cases hj
        · cases hj; omega
      · intro j hj
        simp only [setW] at hj
        split at hj <;> cases hj
      · intro j hj
        simp only [setW] at hj ⊢
        by_cases e : j = k
        · subst e
          simp only [if_true]
          constructor
          · intro hx; cases hx
          · rintro ⟨i, hi, hle⟩
            split at hi
            · cases hi
            · cases hi; omega
        · simp only [e, if_false]
          rw [h.notStarted j hj, hpc]
          constructor
          · rintro ⟨i, hi, hle⟩
            cases hi
            have : k + 1 ≤ j := by omega
            split
            · omega
            · exact ⟨k + 1, rfl, this⟩
          · rintro ⟨i, hi, hle⟩
            split at hi
            · cases hi
            · cases hi; exact ⟨k, rfl, by omega⟩
    · cases hs
  | begin k =>
    simp only [step] at hs
    split at hs
    · rename_i hc
      cases hs
      exact live_of_same s _ h rfl rfl (fun j _ => setW_ns s k .top (by simp) (by rw [hc.2]; simp) j) h.outCount
    · cases hs
  | put i =>
    simp only [step] at hs
    split at hs
    · split at hs
      · cases hs
        exact live_of_same s _ h rfl rfl (fun _ _ => Iff.rfl) (by simp [h.outCount]; omega)
      · cases hs
    · cases hs
  | flush =>
    simp only [step] at hs
    split at hs
    · rename_i i rest hb
      cases hs
      exact live_of_same s _ h rfl rfl (fun _ _ => Iff.rfl) (by simp [h.outCount, hb]; omega)
    · cases hs
  | close =>
    simp only [step] at hs
    split at hs
    · rename_i hc
      cases hs
      refine ⟨?_, ?_, ?_, h.outCount⟩
      · intro j hj; cases hj
      · intro j hj; cases hj
      · intro k hk
        rw [h.notStarted k hk, hc.1]
        constructor
        · rintro ⟨j, hj, _⟩; cases hj
        · rintro ⟨j, hj, _⟩; cases hj
    · cases hs
  | joinThread =>
    simp only [step] at hs
    split at hs
    · rename_i hc
      cases hs
      refine ⟨?_, ?_, ?_, h.outCount⟩
      · intro j hj; cases hj
      · intro j hj; cases hj
      · intro k hk
        rw [h.notStarted k hk, hc.1]
        constructor
        · rintro ⟨j, hj, _⟩; cases hj
        · rintro ⟨j, hj, _⟩; cases hj
    · cases hs
  | setFlag =>
    simp only [step] at hs
    split at hs
    · rename_i hc
      cases hs
      refine ⟨?_, ?_, ?_, h.outCount⟩
      · intro j hj; cases hj
      · intro j hj; cases hj; exact hn0
      · intro k hk
        rw [h.notStarted k hk, hc]
        constructor
        · rintro ⟨j, hj, _⟩; cases hj
        · rintro ⟨j, hj, _⟩; cases hj
    · cases hs
  | join k =>
    simp only [step] at hs
    split at hs
    · rename_i hc
      cases hs
      refine ⟨?_, ?_, ?_, h.outCount⟩
      · intro j hj
        simp only at hj
        split at hj <;> cases hj
      · intro j hj
        simp only at hj
        have hk := hc.2.1
        split at hj
        · cases hj
        · cases hj; show k + 1 < s.n; omega
      · intro j hj
        rw [h.notStarted j hj, hc.1]
        constructor
        · rintro ⟨i, hi, _⟩; cases hi
        · rintro ⟨i, hi, _⟩
          simp only at hi
          split at hi <;> cases hi
    · cases hs
  | flagQ k b =>
    simp only [step] at hs
    split at hs
    · split at hs
      · rename_i hw
        split at hs
        · cases hs
          exact live_of_same s _ h rfl rfl (fun j _ => setW_ns s k _ (by simp) (by rw [hw]; simp) j) h.outCount
        · cases hs
      · rename_i hw
        split at hs
        · cases hs
        · cases hs
          exact live_of_same s _ h rfl rfl (fun j _ => setW_ns s k _ (by split <;> simp) (by rw [hw]; simp) j) h.outCount
      · cases hs
    · cases hs
  | rlock k =>
    simp only [step] at hs
    split at hs
    · split at hs
      · rename_i d hw
        split at hs
        · cases hs
          exact live_of_same s _ h rfl rfl (fun j _ => setW_ns s k _ (by simp) (by rw [hw]; simp) j) h.outCount
        · cases hs
      · rename_i hw
        split at hs
        · cases hs
        · cases hs
          exact live_of_same s _ h rfl rfl (fun j _ => setW_ns s k _ (by simp) (by rw [hw]; simp) j) h.outCount
      · cases hs
    · cases hs
  | rlockTimeout k =>
    simp only [step] at hs
    split at hs
    · split at hs
      · rename_i d hw
        split at hs
        · cases hs
          exact live_of_same s _ h rfl rfl (fun j _ => setW_ns s k _ (by split <;> simp) (by rw [hw]; simp) j) h.outCount
        · cases hs
      · rename_i hw
        split at hs
        · cases hs
        · cases hs
          exact live_of_same s _ h rfl rfl (fun j _ => setW_ns s k _ (by simp) (by rw [hw]; simp) j) h.outCount
      · cases hs
    · cases hs
  | recv k i =>
    simp only [step] at hs
    split at hs
    · split at hs
      · rename_i d j rest hw hp
        split at hs
        · cases hs
          have ho := h.outCount
          rw [hp] at ho
          exact live_of_same s _ h rfl rfl (fun j' _ => setW_ns s k _ (by simp) (by rw [hw]; simp) j')
            (by simp only [setW]; simp at ho ⊢; omega)
        · cases hs
      · cases hs
    · cases hs
  | empty k =>
    simp only [step] at hs
    split at hs
    · split at hs
      · rename_i d hw
        cases hs
        exact live_of_same s _ h rfl rfl (fun j _ => setW_ns s k _ (by split <;> (try split) <;> simp) (by rw [hw]; simp) j) h.outCount
      · cases hs
    · cases hs
  | cb k i =>
    simp only [step] at hs
    split at hs
    · split at hs
      · rename_i j hw
        split at hs
        · cases hs
          exact live_of_same s _ h rfl rfl (fun j' _ => setW_ns s k _ (by simp) (by rw [hw]; simp) j') h.outCount
        · cases hs
      · cases hs
    · cases hs

/-! ### the measure -/

def isHaveAny : W → Nat
  | .have _ => 1
  | _ => 0

/-- work left on the items: an item costs 4 while waiting to be put, 3 in the feeder's buffer, 2 in the pipe, 1 in a worker's hands -/
def itemW (s : S) : Nat := 4 * s.todo.length + 3 * s.buf.length + 2 * s.pipe.length + sumW s isHaveAny

def pcRank (s : S) : Nat :=
  match s.pc with
  | .starting k => 2 * s.n + 5 - k
  | .putting => s.n + 4
  | .closed => s.n + 3
  | .joined => s.n + 2
  | .joining k => s.n + 1 - k
  | .returned => 0

/-- distance of a worker from its next useful action, given the value of the flag -/
def wrank (f : Bool) : W → Nat
  | .notStarted => 9
  | .ready => 8
  | .top => if f then 3 else 7
  | .sampled false => if f then 5 else 6
  | .sampled true => 2
  | .locked false => if f then 4 else 5
  | .locked true => 1
  | .have _ => 0
  | .afterEmpty => 0
  | .exited => 0

def workW (s : S) : Nat := sumW s (wrank s.flag)

/-- lexicographic decrease of (item work, producer rank, worker distances) -/
def Lt (s' s : S) : Prop :=
  itemW s' < itemW s ∨ (itemW s' = itemW s ∧ pcRank s' < pcRank s) ∨
    (itemW s' = itemW s ∧ pcRank s' = pcRank s ∧ workW s' < workW s)

theorem itemW_eq (s' : S) (t b p : List Nat) (x : Nat) (ht : s'.todo = t) (hb : s'.buf = b) (hp : s'.pipe = p)
    (hx : sumW s' isHaveAny = x) : itemW s' = 4 * t.length + 3 * b.length + 2 * p.length + x := by
  unfold itemW; rw [ht, hb, hp, hx]

/-- a worker moves closer to its next useful action; nothing else changes -/
theorem lt_worker (s s' : S) (k : Nat) (w : W) (hk : k < s.n)
    (hn : s'.n = s.n) (hws : s'.ws = (setW s k w).ws) (ht : s'.todo = s.todo) (hb : s'.buf = s.buf) (hp : s'.pipe = s.pipe)
    (hpc : s'.pc = s.pc) (hf : s'.flag = s.flag)
    (h0 : isHaveAny (s.ws k) = 0) (h1 : isHaveAny w = 0) (hr : wrank s.flag w < wrank s.flag (s.ws k)) : Lt s' s := by
  have e1 : sumW s' isHaveAny = sumW s isHaveAny := by
    have := sumW_setW s isHaveAny k w hk
    rw [sumW_congr (setW s k w) s' isHaveAny hn hws]
    omega
  have e2 : sumW s' (wrank s.flag) + wrank s.flag (s.ws k) = sumW s (wrank s.flag) + wrank s.flag w := by
    have := sumW_setW s (wrank s.flag) k w hk
    rw [sumW_congr (setW s k w) s' (wrank s.flag) hn hws]
    exact this
  right; right
  refine ⟨by rw [itemW_eq s' _ _ _ _ ht hb hp e1]; rfl, by unfold pcRank; rw [hpc, hn], ?_⟩
  unfold workW; rw [hf]; omega

/-- the producer moves on; item positions and `have` states are unchanged -/
theorem lt_pc (s s' : S) (hhave : sumW s' isHaveAny = sumW s isHaveAny)
    (ht : s'.todo = s.todo) (hb : s'.buf = s.buf) (hp : s'.pipe = s.pipe) (hr : pcRank s' < pcRank s) : Lt s' s := by
  right; left
  exact ⟨by rw [itemW_eq s' _ _ _ _ ht hb hp hhave]; rfl, hr⟩

/-! ### progress -/

/-- some worker holds an item: run its callback -/
theorem prog_cb (s : S) (k i : Nat) (hk : k < s.n) (hw : s.ws k = .have i) :
    ∃ s', step s (.cb k i) = some s' ∧ Lt s' s := by
  refine ⟨{ setW s k .top with processed := s.processed ++ [(i, k)] }, by simp [step, hk, hw], ?_⟩
  left
  have h1 := sumW_setW s isHaveAny k .top hk
  rw [hw] at h1
  simp only [isHaveAny] at h1
  have e := itemW_eq ({ setW s k .top with processed := s.processed ++ [(i, k)] } : S) s.todo s.buf s.pipe
    (sumW (setW s k .top) isHaveAny) rfl rfl rfl (sumW_congr (setW s k .top) _ isHaveAny rfl rfl)
  rw [e]
  unfold itemW
  omega

theorem prog_flush (s : S) (i : Nat) (rest : List Nat) (hb : s.buf = i :: rest) :
    ∃ s', step s .flush = some s' ∧ Lt s' s := by
  refine ⟨{ s with buf := rest, pipe := s.pipe ++ [i] }, by simp [step, hb], ?_⟩
  left
  have e := itemW_eq ({ s with buf := rest, pipe := s.pipe ++ [i] } : S) s.todo rest (s.pipe ++ [i]) (sumW s isHaveAny) rfl rfl rfl
    (sumW_congr s _ isHaveAny rfl rfl)
  rw [e]
  unfold itemW
  rw [hb]; simp
  omega

theorem prog_recv (s : S) (k : Nat) (d : Bool) (j : Nat) (rest : List Nat) (hk : k < s.n) (hl : s.rlock = some k)
    (hw : s.ws k = .locked d) (hp : s.pipe = j :: rest) :
    ∃ s', step s (.recv k j) = some s' ∧ Lt s' s := by
  refine ⟨{ setW s k (.have j) with pipe := rest, rlock := none, out := s.out - 1 }, by simp [step, hk, hl, hw, hp], ?_⟩
  left
  have h1 := sumW_setW s isHaveAny k (.have j) hk
  rw [hw] at h1
  simp only [isHaveAny] at h1
  have e := itemW_eq ({ setW s k (.have j) with pipe := rest, rlock := none, out := s.out - 1 } : S) s.todo s.buf rest
    (sumW (setW s k (.have j)) isHaveAny) rfl rfl rfl (sumW_congr (setW s k (.have j)) _ isHaveAny rfl rfl)
  rw [e]
  unfold itemW
  rw [hp]; simp
  omega

end C03Live
