/-
C03, liveness half — the hand-off protocol can always finish.

From every reachable state of the stage model (flag read before the poll, as in the code), for any
number of workers, any capacity and any list of items, there is a continuation that ends with the
producer returned.  Together with the safety theorems of `Props/C03.lean` (in a returned state all
workers have exited and every item has been processed exactly once) this says the protocol has no
deadlock and no state from which termination has become impossible; under a fair scheduler, which
eventually takes every continuously enabled step, the constructed continuation is the one that
happens.  (Real executions also interleave useless time-outs; those only delay.)
-/
import ToastyVerif.Props.C03

namespace C03Live
open Stage C03

/-! ### sums over the workers -/

def sumW (s : S) (g : W → Nat) : Nat := ((List.range s.n).map (fun k => g (s.ws k))).sum

theorem sum_range_update (ws : Nat → W) (g : W → Nat) (k : Nat) (w : W) : ∀ n, k < n →
    ((List.range n).map (fun j => g (if j = k then w else ws j))).sum + g (ws k)
      = ((List.range n).map (fun j => g (ws j))).sum + g w := by
  intro n
  induction n with
  | zero => intro h; omega
  | succ n ih =>
    intro h
    rw [List.range_succ, List.map_append, List.map_append, List.sum_append, List.sum_append]
    simp only [List.map_cons, List.map_nil, List.sum_cons, List.sum_nil, Nat.add_zero]
    by_cases hk : k = n
    · subst hk
      have hsame : (List.range k).map (fun j => g (if j = k then w else ws j)) = (List.range k).map (fun j => g (ws j)) := by
        apply List.map_congr_left
        intro j hj
        have : j ≠ k := by have := List.mem_range.1 hj; omega
        simp [this]
      rw [hsame]; simp; omega
    · have := ih (by omega)
      have hn : ¬ (n = k) := fun e => hk e.symm
      simp only [hn, if_false]
      omega

theorem sumW_setW (s : S) (g : W → Nat) (k : Nat) (w : W) (hk : k < s.n) :
    sumW (setW s k w) g + g (s.ws k) = sumW s g + g w := by
  unfold sumW setW
  exact sum_range_update s.ws g k w s.n hk

theorem sumW_congr (s s' : S) (g : W → Nat) (hn : s'.n = s.n) (hw : s'.ws = s.ws) : sumW s' g = sumW s g := by
  unfold sumW; rw [hn, hw]

/-! ### the extra invariant needed for progress -/

structure Live (s : S) : Prop where
  startIdx : ∀ j, s.pc = .starting j → j < s.n
  joinIdx : ∀ j, s.pc = .joining j → j < s.n
  notStarted : ∀ k, k < s.n → (s.ws k = .notStarted ↔ ∃ j, s.pc = .starting j ∧ j ≤ k)
  outCount : s.out = s.buf.length + s.pipe.length

theorem live_init (n cap : Nat) (items : List Nat) (hn : 0 < n) : Live (init n cap true items) := by
  refine ⟨?_, ?_, ?_, rfl⟩
  · intro j h; simp [init] at h ⊢; omega
  · intro j h; simp [init] at h
  · intro k _
    simp only [init, true_iff]
    exact ⟨0, rfl, Nat.zero_le _⟩

/-- a step that changes neither the producer's counter nor any worker into or out of `notStarted` -/
theorem live_of_same (s s' : S) (h : Live s) (hn : s'.n = s.n) (hpc : s'.pc = s.pc)
    (hws : ∀ k, k < s.n → (s'.ws k = .notStarted ↔ s.ws k = .notStarted))
    (hout : s'.out = s'.buf.length + s'.pipe.length) : Live s' := by
  refine ⟨?_, ?_, ?_, hout⟩
  · intro j hj; rw [hpc] at hj; rw [hn]; exact h.startIdx j hj
  · intro j hj; rw [hpc] at hj; rw [hn]; exact h.joinIdx j hj
  · intro k hk
    rw [hn] at hk
    rw [hws k hk, hpc]
    exact h.notStarted k hk

theorem setW_ns (s : S) (k : Nat) (w : W) (hw : w ≠ .notStarted) (hk0 : s.ws k ≠ .notStarted) (j : Nat) :
    ((setW s k w).ws j = .notStarted ↔ s.ws j = .notStarted) := by
  unfold setW
  by_cases e : j = k
  · subst e; simp [hw, hk0]
  · simp [e]

theorem live_step (s s' : S) (l : L) (h : Live s) (hn0 : 0 < s.n) (hs : step s l = some s') : Live s' := by
  cases l with
  | start k =>
    simp only [step] at hs
    split at hs
    · rename_i hc
      obtain ⟨hpc, hk, hw⟩ := hc
      cases hs
      refine ⟨?_, ?_, ?_, h.outCount⟩
      · intro j hj
        simp only [setW] at hj ⊢
        split at hj
        · cases hj
        · cases hj; omega
      · intro j hj
        simp only [setW] at hj
        split at hj <;> cases hj
      · intro j hj
        simp only [setW] at hj ⊢
        by_cases e : j = k
        · subst e
          simp only [if_true]
          constructor
          · intro hx; cases hx
          · rintro ⟨i, hi, hle⟩
            split at hi
            · cases hi
            · cases hi; omega
        · simp only [e, if_false]
          rw [h.notStarted j hj, hpc]
          constructor
          · rintro ⟨i, hi, hle⟩
            cases hi
            have : k + 1 ≤ j := by omega
            split
            · omega
            · exact ⟨k + 1, rfl, this⟩
          · rintro ⟨i, hi, hle⟩
            split at hi
            · cases hi
            · cases hi; exact ⟨k, rfl, by omega⟩
    · cases hs
  | begin k =>
    simp only [step] at hs
    split at hs
    · rename_i hc
      cases hs
      exact live_of_same s _ h rfl rfl (fun j _ => setW_ns s k .top (by simp) (by rw [hc.2]; simp) j) h.outCount
    · cases hs
  | put i =>
    simp only [step] at hs
    split at hs
    · split at hs
      · cases hs
        exact live_of_same s _ h rfl rfl (fun _ _ => Iff.rfl) (by simp [h.outCount]; omega)
      · cases hs
    · cases hs
  | flush =>
    simp only [step] at hs
    split at hs
    · rename_i i rest hb
      cases hs
      exact live_of_same s _ h rfl rfl (fun _ _ => Iff.rfl) (by simp [h.outCount, hb]; omega)
    · cases hs
  | close =>
    simp only [step] at hs
    split at hs
    · rename_i hc
      cases hs
      refine ⟨?_, ?_, ?_, h.outCount⟩
      · intro j hj; cases hj
      · intro j hj; cases hj
      · intro k hk
        rw [h.notStarted k hk, hc.1]
        constructor
        · rintro ⟨j, hj, _⟩; cases hj
        · rintro ⟨j, hj, _⟩; cases hj
    · cases hs
  | joinThread =>
    simp only [step] at hs
    split at hs
    · rename_i hc
      cases hs
      refine ⟨?_, ?_, ?_, h.outCount⟩
      · intro j hj; cases hj
      · intro j hj; cases hj
      · intro k hk
        rw [h.notStarted k hk, hc.1]
        constructor
        · rintro ⟨j, hj, _⟩; cases hj
        · rintro ⟨j, hj, _⟩; cases hj
    · cases hs
  | setFlag =>
    simp only [step] at hs
    split at hs
    · rename_i hc
      cases hs
      refine ⟨?_, ?_, ?_, h.outCount⟩
      · intro j hj; cases hj
      · intro j hj; cases hj; exact hn0
      · intro k hk
        rw [h.notStarted k hk, hc]
        constructor
        · rintro ⟨j, hj, _⟩; cases hj
        · rintro ⟨j, hj, _⟩; cases hj
    · cases hs
  | join k =>
    simp only [step] at hs
    split at hs
    · rename_i hc
      cases hs
      refine ⟨?_, ?_, ?_, h.outCount⟩
      · intro j hj
        simp only at hj
        split at hj <;> cases hj
      · intro j hj
        simp only at hj
        have hk := hc.2.1
        split at hj
        · cases hj
        · cases hj; show k + 1 < s.n; omega
      · intro j hj
        rw [h.notStarted j hj, hc.1]
        constructor
        · rintro ⟨i, hi, _⟩; cases hi
        · rintro ⟨i, hi, _⟩
          simp only at hi
          split at hi <;> cases hi
    · cases hs
  | flagQ k b =>
    simp only [step] at hs
    split at hs
    · split at hs
      · rename_i hw
        split at hs
        · cases hs
          exact live_of_same s _ h rfl rfl (fun j _ => setW_ns s k _ (by simp) (by rw [hw]; simp) j) h.outCount
        · cases hs
      · rename_i hw
        split at hs
        · cases hs
        · cases hs
          exact live_of_same s _ h rfl rfl (fun j _ => setW_ns s k _ (by split <;> simp) (by rw [hw]; simp) j) h.outCount
      · cases hs
    · cases hs
  | rlock k =>
    simp only [step] at hs
    split at hs
    · split at hs
      · rename_i d hw
        split at hs
        · cases hs
          exact live_of_same s _ h rfl rfl (fun j _ => setW_ns s k _ (by simp) (by rw [hw]; simp) j) h.outCount
        · cases hs
      · rename_i hw
        split at hs
        · cases hs
        · cases hs
          exact live_of_same s _ h rfl rfl (fun j _ => setW_ns s k _ (by simp) (by rw [hw]; simp) j) h.outCount
      · cases hs
    · cases hs
  | rlockTimeout k =>
    simp only [step] at hs
    split at hs
    · split at hs
      · rename_i d hw
        split at hs
        · cases hs
          exact live_of_same s _ h rfl rfl (fun j _ => setW_ns s k _ (by split <;> simp) (by rw [hw]; simp) j) h.outCount
        · cases hs
      · rename_i hw
        split at hs
        · cases hs
        · cases hs
          exact live_of_same s _ h rfl rfl (fun j _ => setW_ns s k _ (by simp) (by rw [hw]; simp) j) h.outCount
      · cases hs
    · cases hs
  | recv k i =>
    simp only [step] at hs
    split at hs
    · split at hs
      · rename_i d j rest hw hp
        split at hs
        · cases hs
          have ho := h.outCount
          rw [hp] at ho
          exact live_of_same s _ h rfl rfl (fun j' _ => setW_ns s k _ (by simp) (by rw [hw]; simp) j')
            (by simp only [setW]; simp at ho ⊢; omega)
        · cases hs
      · cases hs
    · cases hs
  | empty k =>
    simp only [step] at hs
    split at hs
    · split at hs
      · rename_i d hw
        cases hs
        exact live_of_same s _ h rfl rfl (fun j _ => setW_ns s k _ (by split <;> (try split) <;> simp) (by rw [hw]; simp) j) h.outCount
      · cases hs
    · cases hs
  | cb k i =>
    simp only [step] at hs
    split at hs
    · split at hs
      · rename_i j hw
        split at hs
        · cases hs
          exact live_of_same s _ h rfl rfl (fun j' _ => setW_ns s k _ (by simp) (by rw [hw]; simp) j') h.outCount
        · cases hs
      · cases hs
    · cases hs

/-! ### the measure -/

def isHaveAny : W → Nat
  | .have _ => 1
  | _ => 0

/-- work left on the items: an item costs 4 while waiting to be put, 3 in the feeder's buffer, 2 in the pipe, 1 in a worker's hands -/
def itemW (s : S) : Nat := 4 * s.todo.length + 3 * s.buf.length + 2 * s.pipe.length + sumW s isHaveAny

def pcRank (s : S) : Nat :=
  match s.pc with
  | .starting k => 2 * s.n + 5 - k
  | .putting => s.n + 4
  | .closed => s.n + 3
  | .joined => s.n + 2
  | .joining k => s.n + 1 - k
  | .returned => 0

/-- distance of a worker from its next useful action, given the value of the flag -/
def wrank (f : Bool) : W → Nat
  | .notStarted => 9
  | .ready => 8
  | .top => if f then 3 else 7
  | .sampled false => if f then 5 else 6
  | .sampled true => 2
  | .locked false => if f then 4 else 5
  | .locked true => 1
  | .have _ => 0
  | .afterEmpty => 0
  | .exited => 0

def workW (s : S) : Nat := sumW s (wrank s.flag)

/-- lexicographic decrease of (item work, producer rank, worker distances) -/
def Lt (s' s : S) : Prop :=
  itemW s' < itemW s ∨ (itemW s' = itemW s ∧ pcRank s' < pcRank s) ∨
    (itemW s' = itemW s ∧ pcRank s' = pcRank s ∧ workW s' < workW s)

theorem itemW_eq (s' : S) (t b p : List Nat) (x : Nat) (ht : s'.todo = t) (hb : s'.buf = b) (hp : s'.pipe = p)
    (hx : sumW s' isHaveAny = x) : itemW s' = 4 * t.length + 3 * b.length + 2 * p.length + x := by
  unfold itemW; rw [ht, hb, hp, hx]

/-- a worker moves closer to its next useful action; nothing else changes -/
theorem lt_worker (s s' : S) (k : Nat) (w : W) (hk : k < s.n)
    (hn : s'.n = s.n) (hws : s'.ws = (setW s k w).ws) (ht : s'.todo = s.todo) (hb : s'.buf = s.buf) (hp : s'.pipe = s.pipe)
    (hpc : s'.pc = s.pc) (hf : s'.flag = s.flag)
    (h0 : isHaveAny (s.ws k) = 0) (h1 : isHaveAny w = 0) (hr : wrank s.flag w < wrank s.flag (s.ws k)) : Lt s' s := by
  have e1 : sumW s' isHaveAny = sumW s isHaveAny := by
    have := sumW_setW s isHaveAny k w hk
    rw [sumW_congr (setW s k w) s' isHaveAny hn hws]
    omega
  have e2 : sumW s' (wrank s.flag) + wrank s.flag (s.ws k) = sumW s (wrank s.flag) + wrank s.flag w := by
    have := sumW_setW s (wrank s.flag) k w hk
    rw [sumW_congr (setW s k w) s' (wrank s.flag) hn hws]
    exact this
  right; right
  refine ⟨by rw [itemW_eq s' _ _ _ _ ht hb hp e1]; rfl, by unfold pcRank; rw [hpc, hn], ?_⟩
  unfold workW; rw [hf]; omega

/-- the producer moves on; item positions and `have` states are unchanged -/
theorem lt_pc (s s' : S) (hhave : sumW s' isHaveAny = sumW s isHaveAny)
    (ht : s'.todo = s.todo) (hb : s'.buf = s.buf) (hp : s'.pipe = s.pipe) (hr : pcRank s' < pcRank s) : Lt s' s := by
  right; left
  exact ⟨by rw [itemW_eq s' _ _ _ _ ht hb hp hhave]; rfl, hr⟩

/-! ### progress -/

/-- some worker holds an item: run its callback -/
theorem prog_cb (s : S) (k i : Nat) (hk : k < s.n) (hw : s.ws k = .have i) :
    ∃ s', step s (.cb k i) = some s' ∧ Lt s' s := by
  refine ⟨{ setW s k .top with processed := s.processed ++ [(i, k)] }, by simp [step, hk, hw], ?_⟩
  left
  have h1 := sumW_setW s isHaveAny k .top hk
  rw [hw] at h1
  simp only [isHaveAny] at h1
  have e := itemW_eq ({ setW s k .top with processed := s.processed ++ [(i, k)] } : S) s.todo s.buf s.pipe
    (sumW (setW s k .top) isHaveAny) rfl rfl rfl (sumW_congr (setW s k .top) _ isHaveAny rfl rfl)
  rw [e]
  unfold itemW
  omega

theorem prog_flush (s : S) (i : Nat) (rest : List Nat) (hb : s.buf = i :: rest) :
    ∃ s', step s .flush = some s' ∧ Lt s' s := by
  refine ⟨{ s with buf := rest, pipe := s.pipe ++ [i] }, by simp [step, hb], ?_⟩
  left
  have e := itemW_eq ({ s with buf := rest, pipe := s.pipe ++ [i] } : S) s.todo rest (s.pipe ++ [i]) (sumW s isHaveAny) rfl rfl rfl
    (sumW_congr s _ isHaveAny rfl rfl)
  rw [e]
  unfold itemW
  rw [hb]; simp
  omega

theorem prog_recv (s : S) (k : Nat) (d : Bool) (j : Nat) (rest : List Nat) (hk : k < s.n) (hl : s.rlock = some k)
    (hw : s.ws k = .locked d) (hp : s.pipe = j :: rest) :
    ∃ s', step s (.recv k j) = some s' ∧ Lt s' s := by
  refine ⟨{ setW s k (.have j) with pipe := rest, rlock := none, out := s.out - 1 }, by simp [step, hk, hl, hw, hp], ?_⟩
  left
  have h1 := sumW_setW s isHaveAny k (.have j) hk
  rw [hw] at h1
  simp only [isHaveAny] at h1
  have e := itemW_eq ({ setW s k (.have j) with pipe := rest, rlock := none, out := s.out - 1 } : S) s.todo s.buf rest
    (sumW (setW s k (.have j)) isHaveAny) rfl rfl rfl (sumW_congr (setW s k (.have j)) _ isHaveAny rfl rfl)
  rw [e]
  unfold itemW
  rw [hp]; simp
  omega

theorem prog_put (s : S) (j : Nat) (rest : List Nat) (hpc : s.pc = .putting) (ht : s.todo = j :: rest) (hcap : s.cap = 0 ∨ s.out < s.cap) :
    ∃ s', step s (.put j) = some s' ∧ Lt s' s := by
  refine ⟨{ s with todo := rest, buf := s.buf ++ [j], out := s.out + 1 }, by simp [step, ht, hpc, hcap], ?_⟩
  left
  have e := itemW_eq ({ s with todo := rest, buf := s.buf ++ [j], out := s.out + 1 } : S) rest (s.buf ++ [j]) s.pipe (sumW s isHaveAny) rfl rfl rfl
    (sumW_congr s _ isHaveAny rfl rfl)
  rw [e]
  unfold itemW
  rw [ht]; simp
  omega

theorem prog_close (s : S) (hpc : s.pc = .putting) (ht : s.todo = []) : ∃ s', step s .close = some s' ∧ Lt s' s := by
  refine ⟨{ s with pc := .closed }, by simp [step, hpc, ht], ?_⟩
  exact lt_pc s _ (sumW_congr s _ isHaveAny rfl rfl) rfl rfl rfl (by simp [pcRank, hpc])

theorem prog_joinThread (s : S) (hpc : s.pc = .closed) (hb : s.buf = []) : ∃ s', step s .joinThread = some s' ∧ Lt s' s := by
  refine ⟨{ s with pc := .joined }, by simp [step, hpc, hb], ?_⟩
  exact lt_pc s _ (sumW_congr s _ isHaveAny rfl rfl) rfl rfl rfl (by simp [pcRank, hpc])

theorem prog_setFlag (s : S) (hpc : s.pc = .joined) : ∃ s', step s .setFlag = some s' ∧ Lt s' s := by
  refine ⟨{ s with pc := .joining 0, flag := true }, by simp [step, hpc], ?_⟩
  exact lt_pc s _ (sumW_congr s _ isHaveAny rfl rfl) rfl rfl rfl (by simp [pcRank, hpc])

theorem prog_join (s : S) (k : Nat) (hpc : s.pc = .joining k) (hk : k < s.n) (hw : s.ws k = .exited) :
    ∃ s', step s (.join k) = some s' ∧ Lt s' s := by
  refine ⟨{ s with pc := if k + 1 = s.n then .returned else .joining (k + 1) }, by simp [step, hpc, hk, hw], ?_⟩
  refine lt_pc s _ (sumW_congr s _ isHaveAny rfl rfl) rfl rfl rfl ?_
  simp only [pcRank, hpc]
  have h1 : 0 < s.n + 1 - k := by omega
  have h2 : s.n + 1 - (k + 1) < s.n + 1 - k := by omega
  by_cases e : k + 1 = s.n
  · rw [if_pos e]; exact h1
  · rw [if_neg e]; exact h2

theorem prog_start (s : S) (k : Nat) (hpc : s.pc = .starting k) (hk : k < s.n) (hw : s.ws k = .notStarted) :
    ∃ s', step s (.start k) = some s' ∧ Lt s' s := by
  refine ⟨{ setW s k .ready with pc := if k + 1 = s.n then .putting else .starting (k + 1) }, by simp [step, hpc, hk, hw], ?_⟩
  have hh : sumW (setW s k .ready) isHaveAny = sumW s isHaveAny := by
    have := sumW_setW s isHaveAny k .ready hk
    rw [hw] at this; simp only [isHaveAny] at this; omega
  refine lt_pc s _ ((sumW_congr (setW s k .ready) _ isHaveAny rfl rfl).trans hh) rfl rfl rfl ?_
  simp only [pcRank, hpc]
  show (match (if k + 1 = s.n then PC.putting else PC.starting (k + 1)) with
    | .starting j => 2 * s.n + 5 - j | .putting => s.n + 4 | .closed => s.n + 3 | .joined => s.n + 2
    | .joining j => s.n + 1 - j | .returned => 0) < 2 * s.n + 5 - k
  have h1 : s.n + 4 < 2 * s.n + 5 - k := by omega
  have h2 : 2 * s.n + 5 - (k + 1) < 2 * s.n + 5 - k := by omega
  by_cases e : k + 1 = s.n
  · rw [if_pos e]; exact h1
  · rw [if_neg e]; exact h2

/-- a started, live worker without an item, with the reader lock free, can move closer to its next action -/
theorem advance_free (items : List Nat) (s : S) (hi : Inv items s) (k : Nat) (hk : k < s.n) (hl : s.rlock = none)
    (hns : s.ws k ≠ .notStarted) (hne : s.ws k ≠ .exited) (hnh : ∀ i, s.ws k ≠ .have i) :
    ∃ l s', step s l = some s' ∧ Lt s' s := by
  have hff := hi.ff
  cases hw : s.ws k with
  | notStarted => exact absurd hw hns
  | exited => exact absurd hw hne
  | «have» i => exact absurd hw (hnh i)
  | afterEmpty => exact absurd hw (hi.noAfterEmpty k)
  | locked d =>
    have := hi.lockedHolds k hk (by rw [hw]; rfl)
    rw [hl] at this; cases this
  | ready =>
    refine ⟨.begin k, setW s k .top, by simp [step, hk, hw], ?_⟩
    exact lt_worker s _ k .top hk rfl rfl rfl rfl rfl rfl rfl (by rw [hw]; rfl) rfl (by rw [hw]; cases s.flag <;> simp [wrank])
  | top =>
    refine ⟨.flagQ k s.flag, setW s k (.sampled s.flag), by simp [step, hk, hw, hff], ?_⟩
    exact lt_worker s _ k _ hk rfl rfl rfl rfl rfl rfl rfl (by rw [hw]; rfl) rfl (by rw [hw]; cases s.flag <;> simp [wrank])
  | sampled d =>
    refine ⟨.rlock k, { setW s k (.locked d) with rlock := some k }, by simp [step, hk, hl, hw, hff], ?_⟩
    exact lt_worker s _ k (.locked d) hk rfl rfl rfl rfl rfl rfl rfl (by rw [hw]; rfl) rfl
      (by rw [hw]; cases s.flag <;> cases d <;> simp [wrank])

/-- once the flag is up and the pipe is empty, a started live worker without an item moves towards its exit even when the
reader lock is taken -/
theorem advance_flagged (items : List Nat) (s : S) (hi : Inv items s) (k : Nat) (hk : k < s.n) (j : Nat) (hl : s.rlock = some j)
    (hf : s.flag = true) (hp : s.pipe = [])
    (hns : s.ws k ≠ .notStarted) (hne : s.ws k ≠ .exited) (hnh : ∀ i, s.ws k ≠ .have i) :
    ∃ l s', step s l = some s' ∧ Lt s' s := by
  have hff := hi.ff
  obtain ⟨hj, hjl⟩ := hi.lockHolder j hl
  cases hw : s.ws k with
  | notStarted => exact absurd hw hns
  | exited => exact absurd hw hne
  | «have» i => exact absurd hw (hnh i)
  | afterEmpty => exact absurd hw (hi.noAfterEmpty k)
  | ready =>
    refine ⟨.begin k, setW s k .top, by simp [step, hk, hw], ?_⟩
    exact lt_worker s _ k .top hk rfl rfl rfl rfl rfl rfl rfl (by rw [hw]; rfl) rfl (by rw [hw, hf]; simp [wrank])
  | top =>
    refine ⟨.flagQ k s.flag, setW s k (.sampled s.flag), by simp [step, hk, hw, hff], ?_⟩
    exact lt_worker s _ k _ hk rfl rfl rfl rfl rfl rfl rfl (by rw [hw]; rfl) rfl (by rw [hw, hf]; simp [wrank])
  | sampled d =>
    have hjk : j ≠ k := by
      intro e; subst e; rw [hw] at hjl; cases hjl
    have hother : lockedByOther s k = true := by simp [lockedByOther, hl, hjk]
    refine ⟨.rlockTimeout k, setW s k (if d then .exited else .top), by simp [step, hk, hother, hw, hff], ?_⟩
    exact lt_worker s _ k _ hk rfl rfl rfl rfl rfl rfl rfl (by rw [hw]; rfl) (by cases d <;> rfl)
      (by rw [hw, hf]; cases d <;> simp [wrank])
  | locked d =>
    have hlk := hi.lockedHolds k hk (by rw [hw]; rfl)
    refine ⟨.empty k, { setW s k (if s.flagFirst then (if d then .exited else .top) else .afterEmpty) with rlock := none },
      by simp [step, hk, hlk, hp, hw], ?_⟩
    rw [hff]
    exact lt_worker s _ k (if d then .exited else .top) hk rfl (by simp [hff]) rfl rfl rfl rfl rfl (by rw [hw]; rfl) (by cases d <;> rfl)
      (by rw [hw, hf]; cases d <;> simp [wrank])

/-- an item is in the pipe and some started worker has not exited: either the lock holder receives it, or a worker moves
towards taking the lock -/
theorem recv_or_advance (items : List Nat) (s : S) (hi : Inv items s) (x : Nat) (rest : List Nat) (hpipe : s.pipe = x :: rest)
    (k : Nat) (hk : k < s.n) (hns : s.ws k ≠ .notStarted) (hne : s.ws k ≠ .exited) (hnh : ∀ i, s.ws k ≠ .have i) :
    ∃ l s', step s l = some s' ∧ Lt s' s := by
  cases hlock : s.rlock with
  | some m =>
    obtain ⟨hm, hml⟩ := hi.lockHolder m hlock
    cases hwm : s.ws m with
    | locked d =>
      obtain ⟨s', h1, h2⟩ := prog_recv s m d x rest hm hlock hwm hpipe
      exact ⟨_, s', h1, h2⟩
    | _ => rw [hwm] at hml; cases hml
  | none => exact advance_free items s hi k hk hlock hns hne hnh

/-- **Progress.**  In every state that satisfies the invariants and in which the producer has not returned, some
transition is enabled that decreases the measure. -/
theorem progress (items : List Nat) (s : S) (hi : Inv items s) (hl : Live s) (hp : s.pc ≠ .returned) :
    ∃ l s', step s l = some s' ∧ Lt s' s := by
  have hn := hi.npos
  -- a worker holding an item can always run its callback
  by_cases hhave : ∃ k, k < s.n ∧ ∃ i, s.ws k = .have i
  · obtain ⟨k, hk, i, hw⟩ := hhave
    obtain ⟨s', h1, h2⟩ := prog_cb s k i hk hw
    exact ⟨_, s', h1, h2⟩
  have hnh : ∀ k, k < s.n → ∀ i, s.ws k ≠ .have i := fun k hk i hw => hhave ⟨k, hk, i, hw⟩
  -- the feeder can always flush
  cases hb : s.buf with
  | cons i rest =>
    obtain ⟨s', h1, h2⟩ := prog_flush s i rest hb
    exact ⟨_, s', h1, h2⟩
  | nil =>
  -- once the producer is past the start-up loop every worker has been started
  have hstarted : (∀ j, s.pc ≠ .starting j) → ∀ k, k < s.n → s.ws k ≠ .notStarted := by
    intro hps k hk hw
    obtain ⟨i, hi', _⟩ := (hl.notStarted k hk).1 hw
    exact hps i hi'
  -- before the flag is raised no worker has exited
  have hflag_false : (∀ j, s.pc ≠ .joining j) → s.flag = false := by
    intro hj
    cases hfl : s.flag with
    | false => rfl
    | true =>
      rcases hi.flagPc.1 hfl with ⟨k, hk⟩ | hk
      · exact absurd hk (hj k)
      · exact absurd hk hp
  cases hpc : s.pc with
  | returned => exact absurd hpc hp
  | starting j =>
    have hj := hl.startIdx j hpc
    have hw : s.ws j = .notStarted := (hl.notStarted j hj).2 ⟨j, hpc, Nat.le_refl _⟩
    obtain ⟨s', h1, h2⟩ := prog_start s j hpc hj hw
    exact ⟨_, s', h1, h2⟩
  | joining j =>
    have hf : s.flag = true := hi.flagPc.2 (Or.inl ⟨j, hpc⟩)
    have hj := hl.joinIdx j hpc
    have hst := hstarted (by intro i e; rw [hpc] at e; cases e)
    cases hpipe : s.pipe with
    | cons x rest =>
      have hal := hi.alive hf (by rw [hpipe]; simp)
      obtain ⟨k, hk, hlive⟩ := (numW_pos s isLive).1 hal
      exact recv_or_advance items s hi x rest hpipe k hk (hst k hk) (by intro e; rw [e] at hlive; cases hlive) (hnh k hk)
    | nil =>
      by_cases hex : s.ws j = .exited
      · obtain ⟨s', h1, h2⟩ := prog_join s j hpc hj hex
        exact ⟨_, s', h1, h2⟩
      · cases hlock : s.rlock with
        | none => exact advance_free items s hi j hj hlock (hst j hj) hex (hnh j hj)
        | some m => exact advance_flagged items s hi j hj m hlock hf hpipe (hst j hj) hex (hnh j hj)
  | putting =>
    have hf := hflag_false (by intro i e; rw [hpc] at e; cases e)
    have hst := hstarted (by intro i e; rw [hpc] at e; cases e)
    cases hpipe : s.pipe with
    | cons x rest => exact recv_or_advance items s hi x rest hpipe 0 hn (hst 0 hn) ((hi.early hf 0).1) (hnh 0 hn)
    | nil =>
      cases ht : s.todo with
      | nil =>
        obtain ⟨s', h1, h2⟩ := prog_close s hpc ht
        exact ⟨_, s', h1, h2⟩
      | cons x rest =>
        have hout : s.out = 0 := by rw [hl.outCount, hb, hpipe]; rfl
        obtain ⟨s', h1, h2⟩ := prog_put s x rest hpc ht (by omega)
        exact ⟨_, s', h1, h2⟩
  | closed =>
    have hf := hflag_false (by intro i e; rw [hpc] at e; cases e)
    have hst := hstarted (by intro i e; rw [hpc] at e; cases e)
    cases hpipe : s.pipe with
    | cons x rest => exact recv_or_advance items s hi x rest hpipe 0 hn (hst 0 hn) ((hi.early hf 0).1) (hnh 0 hn)
    | nil =>
      obtain ⟨s', h1, h2⟩ := prog_joinThread s hpc hb
      exact ⟨_, s', h1, h2⟩
  | joined =>
    have hf := hflag_false (by intro i e; rw [hpc] at e; cases e)
    have hst := hstarted (by intro i e; rw [hpc] at e; cases e)
    cases hpipe : s.pipe with
    | cons x rest => exact recv_or_advance items s hi x rest hpipe 0 hn (hst 0 hn) ((hi.early hf 0).1) (hnh 0 hn)
    | nil =>
      obtain ⟨s', h1, h2⟩ := prog_setFlag s hpc
      exact ⟨_, s', h1, h2⟩

/-! ### the liveness theorem -/

theorem run_cons (s s1 : S) (l : L) (tr : List L) (h : step s l = some s1) : run s (l :: tr) = run s1 tr := by
  simp [run, h]

/-- every state satisfying the invariants has a continuation ending with the producer returned -/
theorem can_finish_inv (items : List Nat) : ∀ (a b c : Nat) (s : S), itemW s = a → pcRank s = b → workW s = c →
    Inv items s → Live s → ∃ tr s', run s tr = some s' ∧ s'.pc = .returned := by
  intro a
  induction a using Nat.strongRecOn with
  | _ a iha =>
    intro b
    induction b using Nat.strongRecOn with
    | _ b ihb =>
      intro c
      induction c using Nat.strongRecOn with
      | _ c ihc =>
        intro s ha hb hc hi hl
        by_cases hp : s.pc = .returned
        · exact ⟨[], s, rfl, hp⟩
        · obtain ⟨l, s1, hstep, hlt⟩ := progress items s hi hl hp
          have hi1 := inv_step items s s1 l hi hstep
          have hl1 := live_step s s1 l hl hi.npos hstep
          have key : ∃ tr s', run s1 tr = some s' ∧ s'.pc = .returned := by
            rcases hlt with h | ⟨h1, h2⟩ | ⟨h1, h2, h3⟩
            · exact iha (itemW s1) (by omega) (pcRank s1) (workW s1) s1 rfl rfl rfl hi1 hl1
            · exact ihb (pcRank s1) (by omega) (workW s1) s1 (by omega) rfl rfl hi1 hl1
            · exact ihc (workW s1) (by omega) s1 (by omega) (by omega) rfl hi1 hl1
          obtain ⟨tr, s', hrun, hret⟩ := key
          exact ⟨l :: tr, s', by rw [run_cons s s1 l tr hstep]; exact hrun, hret⟩

/-- **stage_progress** (no deadlock, termination always possible): from every reachable state of the hand-off protocol —
any number of workers, any queue capacity, any list of items, any interleaving so far — there is a continuation
after which the producer has returned; by `C03.stage_no_loss` and `C03.returned_all_exited`, in that state every
worker has exited and every item has been processed exactly once. -/
theorem stage_progress (n cap : Nat) (items : List Nat) (hn : 0 < n) (s : S) (hr : Reachable n cap true items s) :
    ∃ tr s', run s tr = some s' ∧ s'.pc = .returned ∧ (∀ k, k < s'.n → s'.ws k = .exited) ∧
      (s'.processed.map Prod.fst).Perm items := by
  have hi := inv_reachable n cap items hn s hr
  have hl : Live s := by
    obtain ⟨tr, htr⟩ := hr
    have : ∀ (tr : List L) (s0 s1 : S), Inv items s0 → Live s0 → run s0 tr = some s1 → Live s1 := by
      intro tr
      induction tr with
      | nil => intro s0 s1 _ h0 hr; simp only [run, Option.some.injEq] at hr; subst hr; exact h0
      | cons l ls ih =>
        intro s0 s1 hi0 h0 hr
        simp only [run] at hr
        cases hst : step s0 l with
        | none => rw [hst] at hr; cases hr
        | some s2 =>
          rw [hst] at hr
          exact ih s2 s1 (inv_step items s0 s2 l hi0 hst) (live_step s0 s2 l h0 hi0.npos hst) hr
    exact this tr _ s (inv_init n cap items hn) (live_init n cap items hn) htr
  obtain ⟨tr, s', hrun, hret⟩ := can_finish_inv items _ _ _ s rfl rfl rfl hi hl
  have hr' : Reachable n cap true items s' := by
    obtain ⟨tr0, h0⟩ := hr
    refine ⟨tr0 ++ tr, ?_⟩
    have : ∀ (t1 t2 : List L) (x y : S), run x t1 = some y → run x (t1 ++ t2) = run y t2 := by
      intro t1
      induction t1 with
      | nil => intro t2 x y h; simp only [run, Option.some.injEq] at h; subst h; rfl
      | cons l ls ih =>
        intro t2 x y h
        simp only [run, List.cons_append] at h ⊢
        cases hst : step x l with
        | none => rw [hst] at h; cases h
        | some z => rw [hst] at h; exact ih t2 z y h
    rw [this tr0 tr _ s h0]; exact hrun
  exact ⟨tr, s', hrun, hret, returned_all_exited n cap items hn s' hr' hret, (stage_no_loss n cap items hn s' hr' hret).1⟩

/-- non-vacuity: the progress strategy finishes a concrete stage (2 workers, capacity 1, 3 items) -/
example : ∃ tr s', run (init 2 1 true [5, 6, 7]) tr = some s' ∧ s'.pc = .returned := by
  obtain ⟨tr, s', h1, h2, _, _⟩ := stage_progress 2 1 [5, 6, 7] (by omega) _ ⟨[], rfl⟩
  exact ⟨tr, s', h1, h2⟩

end C03Live
