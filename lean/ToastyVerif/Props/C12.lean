/-
C12 — point lookup: the decision logic.

Proved here, for every rational longitude (in turns), every integer number of extra turns, both
coordinate systems, every depth and every outcome of the floating-point containment scores:
  * the level-1 loop always finds a tile scoring 0 (it never falls through to the last tile), and the
    tile it stops at spans the quarter of longitudes that contains the point — in the tile's own
    coordinate system (this is where the planetary system needs its half-turn);
  * adding whole turns to the longitude does not change the answer;
  * the descent picks, at each level, a child with the largest score (the first one scoring 0 if any
    does), the answers for increasing depths are nested, and the tile returned is the `tileAt` tile
    of its position (C04);
  * a clipped edge sum is 0 exactly when the point is on the inner side of all four edges.
Left to the harness (floating-point geometry): that some child of a tile containing the point
contains it, and the accuracy of the fitted pixel position.
-/
import ToastyVerif.Model.Lookup
import ToastyVerif.Lemmas.RatArith
import ToastyVerif.Props.C04
import ToastyVerif.Gen.Plumbing

namespace C12
open Lookup Toast ToastBase

/-! ### Extracted shape facts -/

theorem lookup_shape : Gen.Lookup.lookup_shape_ok = true ∧ Gen.Lookup.score_is_clipped_edge_sum = true ∧
    Gen.Lookup.pixel_stamp_shape_ok = true ∧ Gen.Lookup.planetary_level1_shift = 1 / 2 := by
  refine ⟨rfl, rfl, rfl, ?_⟩
  decide +kernel

/-! ### Level 1 -/

/-- the level-1 loop on a given level-1 longitude -/
def sel1 (pl : Bool) (l1 : Rat) : Nat := firstZero ((level1Table pl).map (fun r => score1 l1 r.1.1 r.1.2))

theorem selectLevel1_eq (pl : Bool) (lon : Rat) : selectLevel1 pl lon = sel1 pl (level1Lon pl (norm lon)) := rfl

/-- both coordinate systems list their level-1 tiles in the same order of positions -/
theorem sel1_pl (l : Rat) : sel1 true l = sel1 false l := rfl

theorem sel1_zones (m : Rat) (h0 : 0 ≤ m) (h1 : m ≤ 1) :
    (m ≤ 1 / 4 → sel1 false m = 1) ∧ (1 / 4 < m → m ≤ 1 / 2 → sel1 false m = 0) ∧
    (1 / 2 < m → m < 3 / 4 → sel1 false m = 2) ∧ (3 / 4 ≤ m → sel1 false m = 3) := by
  refine ⟨?_, ?_, ?_, ?_⟩
  · intro h
    have a : ¬ (1 / 4 < m) := by grind
    have b : ¬ (1 / 2 < m) := by grind
    simp [sel1, firstZero, level1Table, Gen.Toast.level1_astronomical, score1, Gen.Lookup.level1_rules, ruleMatches,
      List.findIdx?_cons, Gen.Lookup.level1_default, h0, h, a, b]
  · intro h h'
    have b : ¬ (1 / 2 < m) := by grind
    simp [sel1, firstZero, level1Table, Gen.Toast.level1_astronomical, score1, Gen.Lookup.level1_rules, ruleMatches,
      List.findIdx?_cons, Gen.Lookup.level1_default, h, h', b]
  · intro h h'
    have a : ¬ (m ≤ 1 / 4) := by grind
    have b : ¬ (m ≤ 1 / 2) := by grind
    have c : ¬ (3 / 4 ≤ m) := by grind
    simp [sel1, firstZero, level1Table, Gen.Toast.level1_astronomical, score1, Gen.Lookup.level1_rules, ruleMatches,
      List.findIdx?_cons, Gen.Lookup.level1_default, h, h', a, b, c]
  · intro h
    have a : ¬ (m ≤ 1 / 4) := by grind
    have b : ¬ (m ≤ 1 / 2) := by grind
    have c : ¬ (m < 3 / 4) := by grind
    simp [sel1, firstZero, level1Table, Gen.Toast.level1_astronomical, score1, Gen.Lookup.level1_rules, ruleMatches,
      List.findIdx?_cons, Gen.Lookup.level1_default, h, h1, a, b, c]

/-- position of the `i`-th level-1 tile -/
def posOf (pl : Bool) (i : Nat) : Nat × Nat := ((level1Table pl).getD i ((0, 0), (.N, .N, .N, .N), false)).1

/-- **The level-1 loop always breaks**: for every level-1 longitude in `[0, 1]` the tile the loop stops at
scores 0 (so the fall-through to the last tile never decides the answer). -/
theorem level1_breaks (pl : Bool) (m : Rat) (h0 : 0 ≤ m) (h1 : m ≤ 1) :
    sel1 pl m < 4 ∧ score1 m (posOf pl (sel1 pl m)).1 (posOf pl (sel1 pl m)).2 = 0 := by
  have z := sel1_zones m h0 h1
  have hp : sel1 pl m = sel1 false m := by cases pl <;> rfl
  have hq : ∀ i, posOf pl i = posOf false i := by
    intro i
    cases pl
    · rfl
    · match i with
      | 0 | 1 | 2 | 3 => rfl
      | _ + 4 => rfl
  rw [hp, hq]
  by_cases c1 : m ≤ 1 / 4
  · rw [z.1 c1]
    refine ⟨by omega, ?_⟩
    simp [posOf, level1Table, Gen.Toast.level1_astronomical, score1, Gen.Lookup.level1_rules, ruleMatches, h0, c1]
  · by_cases c2 : m ≤ 1 / 2
    · have c1' : 1 / 4 < m := by grind
      rw [z.2.1 c1' c2]
      refine ⟨by omega, ?_⟩
      simp [posOf, level1Table, Gen.Toast.level1_astronomical, score1, Gen.Lookup.level1_rules, ruleMatches, c1', c2]
    · by_cases c3 : m < 3 / 4
      · have c2' : 1 / 2 < m := by grind
        rw [z.2.2.1 c2' c3]
        refine ⟨by omega, ?_⟩
        simp [posOf, level1Table, Gen.Toast.level1_astronomical, score1, Gen.Lookup.level1_rules, ruleMatches, c2', c3]
      · have c3' : 3 / 4 ≤ m := by grind
        rw [z.2.2.2 c3']
        refine ⟨by omega, ?_⟩
        simp [posOf, level1Table, Gen.Toast.level1_astronomical, score1, Gen.Lookup.level1_rules, ruleMatches, c3', h1]

theorem ratMod_one_eq (a : Rat) (k : Int) (h1 : (k : Rat) ≤ a) (h2 : a < (k : Rat) + 1) : ratMod a 1 = a - k := by
  unfold ratMod
  have e : a / 1 = a := by grind
  rw [e]
  have f : a.floor = k := by
    have a1 : k ≤ a.floor := Rat.le_floor_iff.2 h1
    have a2 : a.floor < k + 1 := by
      apply Rat.floor_lt_iff.2
      rw [Rat.intCast_add]; simpa using h2
    omega
  rw [f]; grind

theorem norm_range (lon : Rat) : 0 ≤ norm lon ∧ norm lon < 1 := ratMod_one_range lon

/-- **whole turns do not matter**: `lon` and `lon + 2πk` give the same level-1 tile (and, the scores
being computed from the normalised longitude, the same descent) -/
theorem lookup_periodic (pl : Bool) (lon : Rat) (k : Int) : norm (lon + k) = norm lon ∧
    selectLevel1 pl (lon + k) = selectLevel1 pl lon := by
  have h : norm (lon + k) = norm lon := ratMod_one_add_int lon k
  exact ⟨h, by rw [selectLevel1_eq, selectLevel1_eq, h]⟩

/-- the two equatorial vertices bounding the `k`-th quarter of longitudes `[k/4, (k+1)/4]` -/
def quarterVtx : Nat → Vtx × Vtx
  | 0 => (.E0, .E90)
  | 1 => (.E90, .E180)
  | 2 => (.E180, .E270)
  | _ => (.E270, .E0)

/-- the `i`-th level-1 tile of the system has both vertices of quarter `k` among its corners -/
def spansQuarter (pl : Bool) (i k : Nat) : Bool :=
  let c := ((level1Table pl).getD i ((0, 0), (.N, .N, .N, .N), false)).2.1
  let cs := [c.1, c.2.1, c.2.2.1, c.2.2.2]
  cs.contains (quarterVtx k).1 && cs.contains (quarterVtx k).2

theorem spans_table :
    spansQuarter false 1 0 = true ∧ spansQuarter false 0 1 = true ∧ spansQuarter false 2 2 = true ∧ spansQuarter false 3 3 = true ∧
    spansQuarter true 1 2 = true ∧ spansQuarter true 0 3 = true ∧ spansQuarter true 2 0 = true ∧ spansQuarter true 3 1 = true := by
  decide

/-- **The level-1 tile returned contains the point's longitude, in the requested coordinate system.**
With `m = lon mod 1 turn`, the tile the lookup starts from has among its corners the two equatorial
vertices of a quarter `[k/4, (k+1)/4]` containing `m` (longitude 0 also counts as longitude 1). -/
theorem level1_contains (pl : Bool) (lon : Rat) :
    ∃ k, k < 4 ∧ spansQuarter pl (selectLevel1 pl lon) k = true ∧
      (((k : Rat) / 4 ≤ norm lon ∧ norm lon ≤ ((k : Rat) + 1) / 4) ∨ (norm lon = 0 ∧ k = 3)) := by
  obtain ⟨h0, h1⟩ := norm_range lon
  rw [selectLevel1_eq]
  generalize norm lon = m at h0 h1
  have T := spans_table
  cases pl
  · -- astronomical: the level-1 longitude is the longitude
    have z := sel1_zones m h0 (by grind)
    simp only [level1Lon, Bool.false_eq_true, if_false]
    by_cases c1 : m ≤ 1 / 4
    · exact ⟨0, by omega, by rw [z.1 c1]; exact T.1, Or.inl ⟨by grind, by grind⟩⟩
    · by_cases c2 : m ≤ 1 / 2
      · exact ⟨1, by omega, by rw [z.2.1 (by grind) c2]; exact T.2.1, Or.inl ⟨by grind, by grind⟩⟩
      · by_cases c3 : m < 3 / 4
        · exact ⟨2, by omega, by rw [z.2.2.1 (by grind) c3]; exact T.2.2.1, Or.inl ⟨by grind, by grind⟩⟩
        · exact ⟨3, by omega, by rw [z.2.2.2 (by grind)]; exact T.2.2.2.1, Or.inl ⟨by grind, by grind⟩⟩
  · -- planetary: the level-1 test is made half a turn further
    simp only [level1Lon, if_true]
    have hs : Gen.Lookup.planetary_level1_shift = 1 / 2 := lookup_shape.2.2.2
    rw [hs, sel1_pl]
    by_cases hm : m < 1 / 2
    · have e : ratMod (m + 1 / 2) 1 = m + 1 / 2 := by
        have := ratMod_one_eq (m + 1 / 2) 0 (by simp; grind) (by simp; grind)
        rw [this]
        have z0 : ((0 : Int) : Rat) = 0 := by simp
        rw [z0]; grind
      rw [e]
      have z := sel1_zones (m + 1 / 2) (by grind) (by grind)
      by_cases c0 : m = 0
      · refine ⟨3, by omega, ?_, Or.inr ⟨c0, rfl⟩⟩
        rw [z.2.1 (by grind) (by grind)]; exact T.2.2.2.2.2.1
      · by_cases c1 : m < 1 / 4
        · refine ⟨0, by omega, ?_, Or.inl ⟨by grind, by grind⟩⟩
          rw [z.2.2.1 (by grind) (by grind)]; exact T.2.2.2.2.2.2.1
        · refine ⟨1, by omega, ?_, Or.inl ⟨by grind, by grind⟩⟩
          rw [z.2.2.2 (by grind)]; exact T.2.2.2.2.2.2.2
    · have e : ratMod (m + 1 / 2) 1 = m - 1 / 2 := by
        have := ratMod_one_eq (m + 1 / 2) 1 (by simp; grind) (by simp; grind)
        rw [this]; simp; grind
      rw [e]
      have z := sel1_zones (m - 1 / 2) (by grind) (by grind)
      by_cases c1 : m ≤ 3 / 4
      · refine ⟨2, by omega, ?_, Or.inl ⟨by grind, by grind⟩⟩
        rw [z.1 (by grind)]; exact T.2.2.2.2.1
      · refine ⟨3, by omega, ?_, Or.inl ⟨by grind, by grind⟩⟩
        rw [z.2.1 (by grind) (by grind)]; exact T.2.2.2.2.2.1

/-! ### The choice among the four children -/

theorem pickGo_spec : ∀ (l pre : List Int) (cur : Nat) (best : Option Int),
    (∀ x ∈ pre, x ≠ 0) → (∀ x ∈ pre ++ l, x ≤ 0) →
    ((best = none ∧ pre = []) ∨ (∃ b, best = some b ∧ ∃ h : cur < pre.length, pre[cur] = b ∧ ∀ x ∈ pre, x ≤ b)) →
    pre ++ l ≠ [] →
    ∃ h : pickGo l pre.length cur best < (pre ++ l).length,
      (∀ x ∈ pre ++ l, x ≤ (pre ++ l)[pickGo l pre.length cur best]) ∧
      ((∃ x ∈ pre ++ l, x = 0) → (pre ++ l)[pickGo l pre.length cur best] = 0 ∧
        ∀ j (hj : j < (pre ++ l).length), j < pickGo l pre.length cur best → (pre ++ l)[j] ≠ 0) := by
  intro l
  induction l with
  | nil =>
    intro pre cur best hnz hle hb hne
    simp only [List.append_nil] at hle hne ⊢
    rcases hb with ⟨_, rfl⟩ | ⟨b, rfl, hc, hcb, hmax⟩
    · exact absurd rfl hne
    · simp only [pickGo]
      refine ⟨hc, ?_, ?_⟩
      · intro x hx; rw [hcb]; exact hmax x hx
      · rintro ⟨x, hx, rfl⟩; exact absurd rfl (hnz 0 hx)
  | cons s r ih =>
    intro pre cur best hnz hle hb hne
    have hlen : (pre ++ s :: r).length = pre.length + 1 + r.length := by simp; omega
    have happ : pre ++ s :: r = (pre ++ [s]) ++ r := by simp
    have hs : (pre ++ s :: r)[pre.length]'(by rw [hlen]; omega) = s := by simp
    by_cases h0 : s = 0
    · subst h0
      simp only [pickGo, if_true]
      refine ⟨by rw [hlen]; omega, ?_, ?_⟩
      · intro x hx; rw [hs]; exact hle x hx
      · intro _
        refine ⟨hs, ?_⟩
        intro j hj hlt
        rw [List.getElem_append_left hlt]
        exact hnz _ (List.getElem_mem _)
    · have hnz' : ∀ x ∈ pre ++ [s], x ≠ 0 := by
        intro x hx
        rcases List.mem_append.1 hx with h | h
        · exact hnz x h
        · simp at h; subst h; exact h0
      have hle' : ∀ x ∈ (pre ++ [s]) ++ r, x ≤ 0 := by rw [← happ]; exact hle
      have hlen' : (pre ++ [s]).length = pre.length + 1 := by simp
      have key : ∀ cur' best', pickGo (s :: r) pre.length cur best = pickGo r (pre ++ [s]).length cur' best' →
          ((best' = none ∧ pre ++ [s] = []) ∨ (∃ b, best' = some b ∧ ∃ h : cur' < (pre ++ [s]).length, (pre ++ [s])[cur'] = b ∧ ∀ x ∈ pre ++ [s], x ≤ b)) →
          ∃ h : pickGo (s :: r) pre.length cur best < (pre ++ s :: r).length,
            (∀ x ∈ pre ++ s :: r, x ≤ (pre ++ s :: r)[pickGo (s :: r) pre.length cur best]) ∧
            ((∃ x ∈ pre ++ s :: r, x = 0) → (pre ++ s :: r)[pickGo (s :: r) pre.length cur best] = 0 ∧
              ∀ j (hj : j < (pre ++ s :: r).length), j < pickGo (s :: r) pre.length cur best → (pre ++ s :: r)[j] ≠ 0) := by
        intro cur' best' he hb'
        have := ih (pre ++ [s]) cur' best' hnz' hle' hb' (by simp)
        rw [he]
        simp only [happ]
        exact this
      rcases hb with ⟨rfl, rfl⟩ | ⟨b, rfl, hc, hcb, hmax⟩
      · apply key 0 (some s)
        · simp [pickGo, h0]
        · right
          refine ⟨s, rfl, by simp, by simp, ?_⟩
          intro x hx; simp at hx; omega
      · by_cases hgt : s > b
        · apply key pre.length (some s)
          · simp [pickGo, h0, hgt, hlen']
          · right
            refine ⟨s, rfl, by simp, by simp, ?_⟩
            intro x hx
            rcases List.mem_append.1 hx with h | h
            · have := hmax x h; omega
            · simp at h; omega
        · apply key cur (some b)
          · simp [pickGo, h0, hgt, hlen']
          · right
            refine ⟨b, rfl, by rw [hlen']; omega, ?_, ?_⟩
            · rw [List.getElem_append_left hc]; exact hcb
            · intro x hx
              rcases List.mem_append.1 hx with h | h
              · exact hmax x h
              · simp at h; omega

/-- **The child chosen has the largest score; if some child scores 0 (contains the point exactly), the
first such child is chosen.**  (Scores are `≤ 0` by construction of the clipped edge sum.) -/
theorem pick_spec (l : List Int) (hne : l ≠ []) (hle : ∀ x ∈ l, x ≤ 0) :
    ∃ h : pick l < l.length, (∀ x ∈ l, x ≤ l[pick l]) ∧
      ((∃ x ∈ l, x = 0) → l[pick l] = 0 ∧ ∀ j (hj : j < l.length), j < pick l → l[j] ≠ 0) := by
  have := pickGo_spec l [] 0 none (by simp) (by simpa using hle) (Or.inl ⟨rfl, rfl⟩) (by simpa using hne)
  simpa [pick] using this

/-- a clipped edge sum is never positive, and it is 0 exactly when no edge value is negative -/
theorem clippedSum_spec (d : List Rat) : clippedSum d ≤ 0 ∧ (clippedSum d = 0 ↔ ∀ v ∈ d, 0 ≤ v) := by
  induction d with
  | nil => simp [clippedSum]
  | cons a r ih =>
    have e : clippedSum (a :: r) = min a 0 + clippedSum r := by simp [clippedSum]
    rw [e]
    obtain ⟨h1, h2⟩ := ih
    have hm : min a 0 ≤ 0 := by rw [Rat.min_def]; split <;> grind
    have hm' : min a 0 = 0 ↔ 0 ≤ a := by
      rw [Rat.min_def]; split <;> grind
    constructor
    · grind
    · constructor
      · intro h
        have a0 : min a 0 = 0 := by grind
        have r0 : clippedSum r = 0 := by grind
        intro v hv
        rcases List.mem_cons.1 hv with rfl | hv
        · exact hm'.1 a0
        · exact h2.1 r0 v hv
      · intro h
        have a0 : min a 0 = 0 := hm'.2 (h a (by simp))
        have r0 : clippedSum r = 0 := h2.2 (fun v hv => h v (by simp [hv]))
        rw [a0, r0]; grind

/-! ### Nesting and identity of the tile returned -/

variable {P : Type} (mid : P → P → P) (vtx : Vtx → P)

/-- **Answers for increasing depths are nested, and the tile returned is the tile of its position.**
Whatever the scores are, the tile found at depth `1 + k` starting from a level-1 tile `t1` is the C04
tile of its own position, lies `k` levels below `t1` with `t1` as its ancestor, and the answer at
depth `1 + k + 1` is one of its four children. -/
theorem lookup_nested (pl : Bool) (scores : Tile P → List Int) (t1 : Tile P) (h1 : t1 ∈ level1 vtx pl) (k : Nat) :
    C04.Good mid vtx pl (lookup mid scores k t1) ∧
    (lookup mid scores k t1).pos.n = 1 + k ∧
    (lookup mid scores k t1).pos.x / 2 ^ k = t1.pos.x ∧ (lookup mid scores k t1).pos.y / 2 ^ k = t1.pos.y ∧
    lookup mid scores (k + 1) t1 ∈ div4 mid (lookup mid scores k t1) := by
  have g := C04.good_level1 mid vtx pl t1 h1
  have hn : t1.pos.n = 1 := by
    rw [C04.level1_layout] at h1
    simp only [List.mem_cons, List.mem_nil_iff, or_false] at h1
    rcases h1 with h | h | h | h <;> subst h <;> rfl
  obtain ⟨a, b, c, d, _⟩ := C04.descend_good mid vtx pl (fun t => pick (scores t)) k t1 g
  refine ⟨a, by rw [lookup, b, hn], c, d, ?_⟩
  unfold lookup
  rw [C04.descend_succ]
  rw [C04.div4_getD mid _ _ _ (Nat.mod_lt _ (by omega))]
  exact (C04.mem_div4 mid _ _).2 ⟨_, Nat.mod_lt _ (by omega), rfl⟩

/-! ### non-vacuity -/

/-- longitude 3/8 turn (135°): astronomical tile (0,0) — index 0 — spans 90°…180°; in the planetary system the same
longitude is found in tile (1,1) — index 3; five extra turns change nothing -/
example : selectLevel1 false (3 / 8) = 0 ∧ selectLevel1 true (3 / 8) = 3 ∧ selectLevel1 true (3 / 8 + 5) = 3 ∧
    spansQuarter false 0 1 = true ∧ spansQuarter true 3 1 = true := by decide +kernel

/-- the choice rule on concrete scores: first zero wins; otherwise the first maximum -/
example : pick [-3, 0, 0, -2] = 1 ∧ pick [-3, -1, -1, -2] = 1 ∧ pick [-5, -4, -3, -3] = 2 := by decide

/-- **entry_points**: the call sites through which this property's workflows reach the modelled functions have, in the source as
it is now, the argument plumbing the model assumes (facts re-extracted on every run, `Gen/Plumbing.lean`) -/
theorem entry_points : Gen.Plumbing.pixel_lookup_forwards_coordsys = true := by decide

end C12
