/-
C20 — Each input file contributes exactly the HDU and WCS solution the user selected.
Theorems about `Gen/Collection.lean` (re-extracted from collection.py each run) assembled by
`Model/Select.lean`.
-/
import ToastyVerif.Model.Select
import ToastyVerif.Gen.Plumbing

namespace C20
open Select

/-- **scalar_all**: a single index applies to every file: it is both the index reported and the
HDU read, whatever the file's position. -/
theorem scalar_all (k : Int) (i : Nat) :
    Gen.Scan.scalar_reported k i = k ∧ Gen.Scan.scalar_read k i = some k := ⟨rfl, rfl⟩

/-- **list_pointwise**: a list supplies the index for the file at the same list position — for the
reported index *and* for the HDU that is read. -/
theorem list_pointwise (ks : List Int) (i : Nat) (h : i < ks.length) :
    Gen.Scan.list_reported ks i = some ks[i] ∧ Gen.Scan.list_read ks i = some ks[i] := by
  unfold Gen.Scan.list_reported Gen.Scan.list_read
  exact ⟨List.getElem?_eq_getElem h, List.getElem?_eq_getElem h⟩

/-- a list shorter than the collection is an error, never a silent default -/
theorem list_short (ks : List Int) (i : Nat) (h : ks.length ≤ i) (hdus : List HduKind) :
    select (.list ks) i hdus = .indexError := by
  unfold select Gen.Scan.list_reported Gen.Scan.list_read
  simp [List.getElem?_eq_none h]

theorem finish_ok (hdus : List HduKind) (rep rd a b : Int) (h : finish hdus rep rd = .ok a b) :
    a = rep ∧ b = rd := by
  unfold finish at h
  simp only at h
  repeat' split at h
  all_goals first
    | (injection h with h1 h2; exact ⟨h1.symm, h2.symm⟩)
    | cases h

/-- reported and read agree in every branch: what `export_simple()` reports is what is loaded -/
theorem reported_eq_read (spec : HduSpec) (i : Nat) (hdus : List HduKind) (rep rd : Int)
    (h : select spec i hdus = .ok rep rd) : rep = rd := by
  unfold select at h
  cases spec with
  | guess =>
    simp only at h
    split at h
    · have := finish_ok _ _ _ _ _ h; omega
    · cases h
  | scalar k =>
    simp only [Gen.Scan.scalar_read, Gen.Scan.scalar_reported] at h
    have := finish_ok _ _ _ _ _ h; omega
  | list ks =>
    simp only [Gen.Scan.list_read, Gen.Scan.list_reported] at h
    split at h
    · rename_i a b h1 h2
      have hab : a = b := by rw [h1] at h2; exact Option.some.inj h2
      have := finish_ok _ _ _ _ _ h; omega
    · cases h

/-- the guess loop takes an HDU exactly when it has a shape of at least two dimensions and is not a
binary table -/
theorem accepts_iff (h : HduKind) : accepts h = true ↔ (h.hasShape = true ∧ 2 ≤ h.ndim ∧ h.isBinTable = false) := by
  unfold accepts Gen.Scan.guess_accepts
  cases h with | mk a n b =>
  cases a <;> cases b <;> simp <;> omega

/-- **none_first_image**: with no selection, if some HDU holds image data then the one chosen is the
first such HDU. -/
theorem none_first_image (hdus : List HduKind) (hex : ∃ h ∈ hdus, accepts h = true) :
    ∃ j, guessIdx hdus = some j ∧ ∃ hj : j < hdus.length, accepts hdus[j] = true ∧
      ∀ m (hm : m < j), accepts (hdus[m]'(by omega)) = false := by
  obtain ⟨h, hmem, hacc⟩ := hex
  unfold guessIdx
  cases hf : hdus.findIdx? accepts with
  | none =>
    rw [List.findIdx?_eq_none_iff] at hf
    have := hf h hmem
    simp [hacc] at this
  | some j =>
    rw [List.findIdx?_eq_some_iff_getElem] at hf
    obtain ⟨hj, hacc', hmin⟩ := hf
    refine ⟨j, rfl, hj, hacc', ?_⟩
    intro m hm
    have := hmin m hm
    simpa using this

/-- WCS keys: scalar for all, list pointwise, default blank -/
theorem key_spec (k : String) (ks : List String) (i : Nat) (h : i < ks.length) :
    key (.scalar k) i = some k ∧ key (.list ks) i = some ks[i] ∧ key .default i = some " " := by
  unfold key Gen.Scan.wcs_scalar Gen.Scan.wcs_list Gen.Scan.wcs_default
  exact ⟨rfl, List.getElem?_eq_getElem h, rfl⟩

/-- **desc_img_same** (structural facts re-extracted from the source): descriptions and images go
through one loader that iterates one scan, and `export_simple` lists that same scan. -/
theorem desc_img_same : Gen.Scan.desc_and_images_share_scan = true ∧ Gen.Scan.export_uses_scan = true := by
  decide

/-! non-vacuity -/
example : select (.list [2, 1]) 1 [⟨true, 0, false⟩, ⟨true, 2, false⟩, ⟨false, 0, true⟩] = .ok 1 1 := by decide
example : select (.list [2, 1]) 0 [⟨true, 0, false⟩, ⟨true, 2, false⟩, ⟨false, 0, true⟩] = .rejectedTable := by decide
example : select .guess 0 [⟨true, 0, false⟩, ⟨false, 0, true⟩, ⟨true, 2, false⟩, ⟨true, 3, false⟩] = .ok 2 2 := by decide

/-- **entry_points**: the call sites through which this property's workflows reach the modelled functions have, in the source as
it is now, the argument plumbing the model assumes (facts re-extracted on every run, `Gen/Plumbing.lean`) -/
theorem entry_points : Gen.Plumbing.cli_view_passes_paths_through = true ∧ Gen.Plumbing.collection_loader_attributes = true := by decide

end C20
