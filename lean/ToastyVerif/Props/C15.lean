/-
C15 — Undefined pixels stay undefined: mask semantics and tile persistence.

The per-pixel functions are the ones in `Gen/Masks.lean`, translated on every run from the numpy
statements of toasty/image.py.  "Defined" is stated per mode class exactly as the property does:
RGB sources are always defined; RGBA: alpha ≠ 0; floats: not NaN; 3×float16: no channel NaN;
integers: 0 is the undefined value.
-/
import ToastyVerif.Model.Pixels
import ToastyVerif.Gen.Plumbing

namespace C15
open PixelBase Pixels Gen.Masks

/-! ### lifting: what `fill` / `update` do to the addressed and the unaddressed pixels -/

/-- **fill_spec**: after `fill`, a buffer pixel addressed by the rectangle holds the converted source
pixel, every other pixel holds the mode's "outside" value — whatever the buffer held before. -/
theorem fill_spec (m : ModeSem) (rc : Rect) (src : Img) (r c : Nat) :
    (∀ i j, rc.src r c = some (i, j) → fill m rc src r c = m.fillInside (src i j)) ∧
    (rc.src r c = none → fill m rc src r c = m.fillOutside) := by
  unfold fill
  constructor
  · intro i j h; simp [h]
  · intro h; simp [h]

/-- **update_frame**: `update` never changes a pixel outside the addressed rectangle. -/
theorem update_frame (m : ModeSem) (rc : Rect) (buf src : Img) (r c : Nat) (h : rc.src r c = none) :
    update m rc buf src r c = buf r c := by
  unfold update; simp [h]

theorem update_inside (m : ModeSem) (rc : Rect) (buf src : Img) (r c i j : Nat) (h : rc.src r c = some (i, j)) :
    update m rc buf src r c = m.updatePx (buf r c) (src i j) := by
  unfold update; simp [h]

/-! ### the outside value is undefined, per mode -/

/-- the "outside" value of `fill` and the value `clear` writes coincide, and (for the modes that can
be masked at all) it is a masked pixel -/
theorem outside_is_clear : ∀ m ∈ allModes, m.fillOutside = m.clearPx := by decide

theorem outside_masked_RGBA_float : masked_px_RGB fill_outside_RGB = true ∧ masked_px_RGBA fill_outside_RGBA = true ∧
    masked_px_F32 fill_outside_F32 = true ∧ masked_px_F64 fill_outside_F64 = true ∧
    masked_px_F16x3 fill_outside_F16x3 = true := by decide

theorem outside_zero_int : fill_outside_U8 = [some 0] ∧ fill_outside_I16 = [some 0] ∧ fill_outside_I32 = [some 0] := by decide

/-! ### RGB (3 channels into an RGBA buffer): a source pixel is always defined -/

theorem rgb_fill_inside (r g b : Ch) : fill_inside_RGB [r, g, b] = [r, g, b, some 255] := rfl
theorem rgb_inside_defined (r g b : Ch) : masked_px_RGB (fill_inside_RGB [r, g, b]) = false := by
  simp [masked_px_RGB, fill_inside_RGB, chNe0]
/-- a defined source pixel always replaces the old value -/
theorem rgb_update_replaces (old : Px) (r g b : Ch) : update_px_RGB old [r, g, b] = [r, g, b, some 255] := rfl

/-! ### RGBA: defined ⇔ alpha ≠ 0 -/

theorem rgba_fill_inside (r g b a : Ch) : fill_inside_RGBA [r, g, b, a] = [r, g, b, a] := rfl
theorem rgba_update_undefined_keeps (o0 o1 o2 o3 r g b : Ch) :
    update_px_RGBA [o0, o1, o2, o3] [r, g, b, some 0] = [o0, o1, o2, o3] := by
  simp [update_px_RGBA, putmask, chNe0]
theorem rgba_update_defined_replaces (o0 o1 o2 o3 r g b : Ch) (a : Int) (ha : a ≠ 0) :
    update_px_RGBA [o0, o1, o2, o3] [r, g, b, some a] = [r, g, b, some a] := by
  simp [update_px_RGBA, putmask, chNe0, ha]
theorem rgba_masked_iff (r g b : Ch) (a : Int) : masked_px_RGBA [r, g, b, some a] = true ↔ a = 0 := by
  simp [masked_px_RGBA, chNe0]

/-! ### 32/64-bit floats: defined ⇔ not NaN -/

theorem f_update_nan_keeps (o : Ch) : update_px_F32 [o] [none] = [o] ∧ update_px_F64 [o] [none] = [o] := by
  simp [update_px_F32, update_px_F64, putmask]
theorem f_update_defined_replaces (o : Ch) (v : Int) :
    update_px_F32 [o] [some v] = [some v] ∧ update_px_F64 [o] [some v] = [some v] := by
  simp [update_px_F32, update_px_F64, putmask]
theorem f_masked_iff (p : Ch) : (masked_px_F32 [p] = true ↔ p = none) ∧ (masked_px_F64 [p] = true ↔ p = none) := by
  cases p <;> simp [masked_px_F32, masked_px_F64]

/-! ### 3×float16: a pixel is undefined as soon as one channel is NaN -/

theorem f3_update_any_nan_keeps (o0 o1 o2 s0 s1 s2 : Ch) (h : s0 = none ∨ s1 = none ∨ s2 = none) :
    update_px_F16x3 [o0, o1, o2] [s0, s1, s2] = [o0, o1, o2] := by
  cases s0 <;> cases s1 <;> cases s2 <;> simp_all [update_px_F16x3, putmask]
theorem f3_update_defined_replaces (o0 o1 o2 : Ch) (a b c : Int) :
    update_px_F16x3 [o0, o1, o2] [some a, some b, some c] = [some a, some b, some c] := by
  simp [update_px_F16x3, putmask]

/-- the "completely masked" test uses the same per-pixel rule as `update`: any NaN channel -/
theorem f3_masked_iff (a b c : Ch) : masked_px_F16x3 [a, b, c] = true ↔ (a = none ∨ b = none ∨ c = none) := by
  cases a <;> cases b <;> cases c <;> simp [masked_px_F16x3]

/-! ### integers: zero is undefined; the larger of two non-negative values is kept -/

theorem int_update_max (o s : Int) :
    update_px_U8 [some o] [some s] = [some (max o s)] ∧ update_px_I16 [some o] [some s] = [some (max o s)] ∧
    update_px_I32 [some o] [some s] = [some (max o s)] := by
  simp [update_px_U8, update_px_I16, update_px_I32, chMaxV, chMax]
/-- hence: an undefined (zero) source keeps a non-negative old value, and an undefined (zero) old
value takes a non-negative source value -/
theorem int_update_zero (o s : Int) (ho : 0 ≤ o) (hs : 0 ≤ s) :
    update_px_I32 [some o] [some 0] = [some o] ∧ update_px_I32 [some 0] [some s] = [some s] := by
  simp only [update_px_I32, chMaxV, chMax]
  constructor <;> (congr 2; omega)
theorem int_never_masked (p : Px) : masked_px_U8 p = false ∧ masked_px_I16 p = false ∧ masked_px_I32 p = false := by
  simp [masked_px_U8, masked_px_I16, masked_px_I32]

/-! ### whole-image statements used by the tiling and cascade theorems -/

/-- a "defined" source pixel, per mode (as far as `update` is concerned) -/
def srcDefined (m : ModeSem) (s : Px) : Bool :=
  if m.name = "RGB" then true
  else if m.name = "RGBA" then chNe0 (s.getD 3 (some 0))
  else if m.name = "F16x3" then !(s.any Option.isNone)
  else !(s.any Option.isNone)

/-- **update_none_keeps / update_defined_replaces** for float and RGBA pixels of the right shape,
uniformly: the result is the source where it is defined and the old value where it is not. -/
theorem update_px_float (o s : Ch) :
    update_px_F32 [o] [s] = (if s.isSome then [s] else [o]) ∧ update_px_F64 [o] [s] = (if s.isSome then [s] else [o]) := by
  cases s <;> simp [update_px_F32, update_px_F64, putmask]

/-! ### persistence -/

/-- **masked_never_stored**: after a write, the file is absent iff the image written was completely
masked — whatever was there before (an earlier file at that position is removed). -/
theorem masked_never_stored (m : ModeSem) (old : File) (img : Img) :
    (writeImage m old img = none ↔ completelyMasked m 256 256 img = true) ∧
    (completelyMasked m 256 256 img = false → writeImage m old img = some img) := by
  have h : Gen.PIO.write_unlinks_when_masked = true := by decide
  unfold writeImage
  rw [h]
  cases completelyMasked m 256 256 img <;> simp

/-- after any history of writes the file reflects the last write only -/
theorem history_last_write (m : ModeSem) (f0 : File) (imgs : List Img) (last : Img) :
    (imgs ++ [last]).foldl (writeImage m) f0 = writeImage m none last := by
  rw [List.foldl_append]
  simp [writeImage]

/-- **read_default**: a missing tile reads back as absent, or as an all-undefined tile on request;
a present tile reads back as stored. -/
theorem read_default (m : ModeSem) (img : Img) :
    readImage m none .none = none ∧ readImage m none .masked = some (clear m) ∧
    readImage m (some img) .none = some img ∧ readImage m (some img) .masked = some img := by
  have h : Gen.PIO.read_missing_masked_fresh = true := by decide
  simp [readImage, h]

theorem clear_masked : ∀ m ∈ [RGB, RGBA, F32, F64, F16x3], m.maskedPx m.clearPx = true := by decide

theorem pio_facts : Gen.PIO.write_unlinks_when_masked = true ∧ Gen.PIO.write_path_uses_format_or_default = true ∧
    Gen.PIO.read_missing_none = true ∧ Gen.PIO.read_missing_masked_fresh = true := by decide

/-! ### slices are partial injections (no two buffer rows receive the same source row) -/

theorem sliceFwd_spec (b0 s0 len r i : Nat) : sliceFwd b0 s0 len r = some i ↔ (b0 ≤ r ∧ r < b0 + len ∧ i = s0 + (r - b0)) := by
  unfold sliceFwd
  split
  · rename_i h; simp only [Option.some.injEq]; constructor
    · intro e; exact ⟨h.1, h.2, e.symm⟩
    · intro e; exact e.2.2.symm
  · rename_i h; simp only [reduceCtorEq, false_iff]; intro e; exact h ⟨e.1, e.2.1⟩

theorem sliceRev_spec (bs s0 len r i : Nat) : sliceRev bs s0 len r = some i ↔ (r ≤ bs ∧ bs < r + len ∧ i = s0 + (bs - r)) := by
  unfold sliceRev
  split
  · rename_i h; simp only [Option.some.injEq]; constructor
    · intro e; exact ⟨h.1, h.2, e.symm⟩
    · intro e; exact e.2.2.symm
  · rename_i h; simp only [reduceCtorEq, false_iff]; intro e; exact h ⟨e.1, e.2.1⟩

/-! non-vacuity: a 2-row rectangle written bottom-up into a float buffer -/
example : fill F32 ⟨sliceRev 5 0 2, sliceFwd 1 0 1⟩ (fun i _ => [some (i : Int)]) 4 1 = [some 1]
    ∧ fill F32 ⟨sliceRev 5 0 2, sliceFwd 1 0 1⟩ (fun i _ => [some (i : Int)]) 5 1 = [some 0]
    ∧ fill F32 ⟨sliceRev 5 0 2, sliceFwd 1 0 1⟩ (fun i _ => [some (i : Int)]) 3 1 = [none] := by decide

/-- **entry_points**: the call sites through which this property's workflows reach the modelled functions have, in the source as
it is now, the argument plumbing the model assumes (facts re-extracted on every run, `Gen/Plumbing.lean`) -/
theorem entry_points : Gen.Plumbing.update_image_writes_back_plainly = true := by decide

end C15
