/-
C17 — The WTML and the returned data-set description match the files on disk.

`Gen/Paths.lean` is obtained on every run by executing the real `PyramidIO._tile_path_*`,
`get_path_scheme` and `Builder.__init__` on marker strings; `Gen/FitsTiler.lean` records the shape
of the directory-reuse branch of `FitsTiler.tile`.
-/
import ToastyVerif.Gen.Paths
import ToastyVerif.Gen.FitsTiler
import ToastyVerif.Gen.Study
import ToastyVerif.Props.C08
import ToastyVerif.Gen.Plumbing

namespace C17
open PathModel Gen.Paths

/-! ### decimal rendering -/

def ofDigitsRev : List Nat → Nat
  | [] => 0
  | d :: r => d + 10 * ofDigitsRev r

theorem ofDigits_digitsRevF : ∀ (f n : Nat), n < f → ofDigitsRev (digitsRevF f n) = n := by
  intro f
  induction f with
  | zero => intro n h; omega
  | succ f ih =>
    intro n h
    unfold digitsRevF
    by_cases hn : n < 10
    · simp [hn, ofDigitsRev]
    · simp only [hn, if_false, ofDigitsRev]
      rw [ih (n / 10) (by omega)]
      omega

theorem digitsRevF_lt : ∀ (f n : Nat), ∀ d ∈ digitsRevF f n, d < 10 := by
  intro f
  induction f with
  | zero => intro n d h; simp [digitsRevF] at h
  | succ f ih =>
    intro n d h
    unfold digitsRevF at h
    by_cases hn : n < 10
    · simp only [hn, if_true, List.mem_singleton] at h; omega
    · simp only [hn, if_false, List.mem_cons] at h
      rcases h with h | h
      · omega
      · exact ih _ d h

theorem digitsRev_inj (n m : Nat) (h : digitsRev n = digitsRev m) : n = m := by
  have a := ofDigits_digitsRevF (n + 1) n (by omega)
  have b := ofDigits_digitsRevF (m + 1) m (by omega)
  unfold digitsRev at h
  rw [h] at a
  omega

theorem digitChar_inj : ∀ a, a < 10 → ∀ b, b < 10 → digitChar a = digitChar b → a = b := by decide
theorem digitChar_isDigit : ∀ a, a < 10 → (digitChar a).isDigit = true := by decide

theorem map_digitChar_inj : ∀ (l l' : List Nat), (∀ d ∈ l, d < 10) → (∀ d ∈ l', d < 10) →
    l.map digitChar = l'.map digitChar → l = l' := by
  intro l
  induction l with
  | nil => intro l' _ _ h; cases l' with
    | nil => rfl
    | cons _ _ => simp at h
  | cons a l ih =>
    intro l' h1 h2 h
    cases l' with
    | nil => simp at h
    | cons b l' =>
      simp only [List.map_cons, List.cons.injEq] at h
      have := digitChar_inj a (h1 a (by simp)) b (h2 b (by simp)) h.1
      subst this
      rw [ih l' (fun d hd => h1 d (by simp [hd])) (fun d hd => h2 d (by simp [hd])) h.2]

/-- `str` of naturals is injective -/
theorem dec_inj (n m : Nat) (h : dec n = dec m) : n = m := by
  unfold dec at h
  have h' := map_digitChar_inj _ _
    (fun d hd => digitsRevF_lt _ _ d (List.mem_reverse.mp hd))
    (fun d hd => digitsRevF_lt _ _ d (List.mem_reverse.mp hd)) h
  exact digitsRev_inj n m (List.reverse_inj.mp h')

/-- … and yields digits only -/
theorem dec_digits (n : Nat) : ∀ c ∈ dec n, c.isDigit = true := by
  intro c hc
  unfold dec at hc
  obtain ⟨d, hd, rfl⟩ := List.mem_map.mp hc
  exact digitChar_isDigit d (digitsRevF_lt _ _ d (List.mem_reverse.mp hd))

/-- splitting a string at its first non-digit is unambiguous -/
theorem split_digits : ∀ (a a' : List Char) (s s' : Char) (r r' : List Char),
    (∀ c ∈ a, c.isDigit = true) → (∀ c ∈ a', c.isDigit = true) → s.isDigit = false → s'.isDigit = false →
    a ++ s :: r = a' ++ s' :: r' → a = a' ∧ s = s' ∧ r = r' := by
  intro a
  induction a with
  | nil =>
    intro a' s s' r r' _ h2 hs _ h
    cases a' with
    | nil => simp only [List.nil_append, List.cons.injEq] at h; exact ⟨rfl, h.1, h.2⟩
    | cons c a' =>
      simp only [List.nil_append, List.cons_append, List.cons.injEq] at h
      have := h2 c (by simp)
      rw [← h.1] at this
      rw [this] at hs; cases hs
  | cons c a ih =>
    intro a' s s' r r' h1 h2 hs hs' h
    cases a' with
    | nil =>
      simp only [List.nil_append, List.cons_append, List.cons.injEq] at h
      have := h1 c (by simp)
      rw [h.1] at this
      rw [this] at hs'; cases hs'
    | cons c' a' =>
      simp only [List.cons_append, List.cons.injEq] at h
      obtain ⟨e1, e2, e3⟩ := ih a' s s' r r' (fun x hx => h1 x (by simp [hx])) (fun x hx => h2 x (by simp [hx])) hs hs' h.2
      exact ⟨by rw [h.1, e1], e2, e3⟩

/-! ### template expansion = path -/

theorem expand_eq_render (n x y : Nat) : ∀ (t : List Char), expand n x y t = render (parseTemplate t) n x y [] := by
  intro t
  fun_induction parseTemplate t <;> simp_all [expand, render, renderSeg]

theorem render_norm (n x y : Nat) (e : List Char) : ∀ (segs : List Seg),
    render (norm e segs) n x y [] = render segs n x y e := by
  intro segs
  induction segs with
  | nil => rfl
  | cons s r ih =>
    have hlit : ∀ (cs : List Char), render (cs.map (fun c => Seg.lit [c])) n x y [] = cs := by
      intro cs
      induction cs with
      | nil => rfl
      | cons c cs ihc => simp only [render, List.map_cons, renderSeg, List.flatten_cons] at *; rw [ihc]; rfl
    have happ : ∀ a b : List Seg, render (a ++ b) n x y [] = render a n x y [] ++ render b n x y [] := by
      intro a b; simp [render]
    have hcons : ∀ (s : Seg) (l : List Seg) (e' : List Char), render (s :: l) n x y e' = renderSeg n x y e' s ++ render l n x y e' := by
      intro s l e'; simp [render]
    cases s with
    | lit cs => simp only [norm, happ, hlit, ih, hcons, renderSeg]
    | ext => simp only [norm, happ, hlit, ih, hcons, renderSeg]
    | lvl => simp only [norm, hcons, ih, renderSeg]
    | x => simp only [norm, hcons, ih, renderSeg]
    | y => simp only [norm, hcons, ih, renderSeg]

/-- the URL string the Builder records for extension `e` -/
def urlString (url : List Seg) (e : List Char) : List Char := render url 0 0 0 e

/-- symbolic comparison of a recorded URL template with a path builder, per format -/
def templateMatches (url path : List Seg) (e : List Char) : Bool :=
  decide (norm [] (parseTemplate (urlString url e)) = norm e path)

theorem expand_of_matches (url path : List Seg) (e : List Char) (h : templateMatches url path e = true)
    (n x y : Nat) : expand n x y (urlString url e) = render path n x y e := by
  unfold templateMatches at h
  have h' := of_decide_eq_true h
  rw [expand_eq_render, ← render_norm n x y [] (parseTemplate _), h', render_norm]

/-- **template_expands_to_path**: for both naming schemes and every supported format, substituting
`(level, x, y)` into the URL template the Builder records gives exactly the relative path at which
`PyramidIO.tile_path` puts that tile — for all positions. -/
theorem template_expands_to_path (e : List Char) (he : e ∈ supported_formats) (n x y : Nat) :
    expand n x y (urlString url_LsYsYX e) = render path_LsYsYX n x y e ∧
    expand n x y (urlString url_LXY e) = render path_LXY n x y e := by
  have h1 : ∀ e ∈ supported_formats, templateMatches url_LsYsYX path_LsYsYX e = true := by decide
  have h2 : ∀ e ∈ supported_formats, templateMatches url_LXY path_LXY e = true := by decide
  exact ⟨expand_of_matches _ _ e (h1 e he) n x y, expand_of_matches _ _ e (h2 e he) n x y⟩

/-- the recorded URL is the path scheme followed by the recorded file type, and the file type is
"." + the tiles' extension -/
theorem url_is_scheme_plus_filetype (e : List Char) :
    urlString url_LsYsYX e = scheme_LsYsYX ++ render filetype_LsYsYX 0 0 0 e ∧
    urlString url_LXY e = scheme_LXY ++ render filetype_LXY 0 0 0 e ∧
    render filetype_LsYsYX 0 0 0 e = '.' :: e ∧ render filetype_LXY 0 0 0 e = '.' :: e := by
  simp [urlString, render, renderSeg, url_LsYsYX, url_LXY, scheme_LsYsYX, scheme_LXY, filetype_LsYsYX, filetype_LXY]

/-! ### distinct positions, distinct paths -/

theorem path_injective_LsYsYX (e : List Char) (n x y n' x' y' : Nat)
    (h : render path_LsYsYX n x y e = render path_LsYsYX n' x' y' e) : n = n' ∧ x = x' ∧ y = y' := by
  simp only [render, path_LsYsYX, List.map_cons, List.map_nil, renderSeg, List.flatten_cons, List.flatten_nil,
    List.append_nil, List.singleton_append, List.append_assoc, List.cons_append, List.nil_append] at h
  obtain ⟨h1, _, r1⟩ := split_digits _ _ _ _ _ _ (dec_digits n) (dec_digits n') (by decide) (by decide) h
  obtain ⟨h2, _, r2⟩ := split_digits _ _ _ _ _ _ (dec_digits y) (dec_digits y') (by decide) (by decide) r1
  obtain ⟨_, _, r3⟩ := split_digits _ _ _ _ _ _ (dec_digits y) (dec_digits y') (by decide) (by decide) r2
  obtain ⟨h4, _, _⟩ := split_digits _ _ _ _ _ _ (dec_digits x) (dec_digits x') (by decide) (by decide) r3
  exact ⟨dec_inj _ _ h1, dec_inj _ _ h4, dec_inj _ _ h2⟩

theorem path_injective_LXY (e : List Char) (n x y n' x' y' : Nat)
    (h : render path_LXY n x y e = render path_LXY n' x' y' e) : n = n' ∧ x = x' ∧ y = y' := by
  simp only [render, path_LXY, List.map_cons, List.map_nil, renderSeg, List.flatten_cons, List.flatten_nil,
    List.append_nil, List.singleton_append, List.append_assoc, List.cons_append, List.nil_append, List.cons.injEq,
    true_and] at h
  obtain ⟨h1, _, r1⟩ := split_digits _ _ _ _ _ _ (dec_digits n) (dec_digits n') (by decide) (by decide) h
  obtain ⟨h2, _, r2⟩ := split_digits _ _ _ _ _ _ (dec_digits x) (dec_digits x') (by decide) (by decide) r1
  obtain ⟨h3, _, _⟩ := split_digits _ _ _ _ _ _ (dec_digits y) (dec_digits y') (by decide) (by decide) r2
  exact ⟨dec_inj _ _ h1, dec_inj _ _ h2, dec_inj _ _ h3⟩

theorem tile_path_str : tile_path_uses_str = true := by decide

/-! ### tile levels of a study -/

/-- the number of levels recorded for a study (`StudyTiling.tile_levels`, copied by
`apply_to_imageset`) is the depth `j` of the deepest populated layer: `256·2^j` is the padded size. -/
theorem study_levels (w h : Int) (hw : 1 ≤ w) (hh : 1 ≤ h) :
    ∃ (t : Gen.StudyTiling) (j : Nat), Gen.StudyTiling.init w h = some t ∧ t.tile_levels = j ∧ t.p2n = 256 * 2 ^ j := by
  obtain ⟨t, j, hi, _, _, hp, _, _, _, hl, _⟩ := C08.init_spec w h hw hh
  exact ⟨t, j, hi, hl, hp⟩

/-! ### reuse of an output directory by the FITS auto-tiler -/

/-- what `FitsTiler.tile` hands back -/
inductive Returned (D : Type) where
  | default            -- a freshly constructed Builder that nothing was applied to
  | described (d : D)  -- a Builder carrying description `d`
deriving DecidableEq

/-- one call of `tile` on a directory state (`disk = some d`: the directory exists and its
`index_rel.wtml` says `d`); `built` is the description tiling the inputs produces. -/
def tileCall {D : Type} (built : D) (disk : Option D) (override : Bool) : Returned D × Option D :=
  match disk with
  | none => (.described built, some built)
  | some d =>
    if override then
      if Gen.FitsTiler.override_removes_and_retiles then (.described built, some built) else (.default, some d)
    else if Gen.FitsTiler.reuse_restores_from_wtml then (.described d, some d)
    else (.default, some d)

/-- **reuse_agrees**: after every call in every history of calls on the same output directory
(fresh, repeated, repeated with override), the description handed back is the one in the WTML
on disk. -/
theorem reuse_agrees {D : Type} (built : D) (disk : Option D) (override : Bool) :
    ∃ d, tileCall built disk override = (.described d, some d) := by
  unfold tileCall
  have h1 : Gen.FitsTiler.override_removes_and_retiles = true := by decide
  have h2 : Gen.FitsTiler.reuse_restores_from_wtml = true := by decide
  cases disk with
  | none => exact ⟨built, rfl⟩
  | some d =>
    cases override
    · exact ⟨d, by simp [h2]⟩
    · exact ⟨built, by simp [h1]⟩

theorem fitstiler_facts : Gen.FitsTiler.fresh_builder_first = true ∧ Gen.FitsTiler.reuse_returns_early = true ∧
    Gen.FitsTiler.tiling_then_write = true ∧ Gen.FitsTiler.reuse_restores_hips = true := by decide

/-! non-vacuity -/
example : expand 3 5 12 (urlString url_LsYsYX ['p','n','g']) = "3/12/12_5.png".toList := by decide
example : render path_LXY 10 0 1023 ['f','i','t','s'] = "L10X0Y1023.fits".toList := by decide

/-- **entry_points**: the call sites through which this property's workflows reach the modelled functions have, in the source as
it is now, the argument plumbing the model assumes (facts re-extracted on every run, `Gen/Plumbing.lean`) -/
theorem entry_points : Gen.Plumbing.tile_toast_one_depth = true := by decide

end C17
