/-
C08 — Study tiling is a lossless, centred partition of the image into 256-pixel tiles.

All statements are about the definitions in `Gen/Study.lean` and `Gen/Pyramid.lean`,
which are regenerated from `toasty/study.py` / `toasty/pyramid.py` on every run.
-/
import ToastyVerif.Gen.Study
import ToastyVerif.Gen.Plumbing


namespace C08
open Gen Gen.StudyTiling

/-! ### `next_highest_power_of_2` -/

/-- Loop invariant of the `while p < n: p *= 2` loop (fuelled): starting from
`p = 256·2^k` with enough fuel, the loop stops at the least `256·2^j ≥ n`, `j ≥ k`. -/
theorem loop_spec (n : Int) : ∀ (fuel : Nat) (k : Nat) (p : Int),
    p = 256 * 2 ^ k → (k = 0 ∨ p / 2 < n) → n ≤ p + fuel →
    ∃ j : Nat, next_highest_power_of_2.loop1 n fuel p = 256 * 2 ^ j ∧
      n ≤ 256 * 2 ^ j ∧ (j = 0 ∨ (256 * 2 ^ j : Int) / 2 < n) := by
  intro fuel
  induction fuel with
  | zero =>
    intro k p hp hk hf
    refine ⟨k, ?_, ?_, ?_⟩
    · simp [next_highest_power_of_2.loop1, hp]
    · omega
    · rcases hk with hk | hk
      · exact Or.inl hk
      · right; rw [← hp]; exact hk
  | succ f ih =>
    intro k p hp hk hf
    have hpos : (0 : Int) < 2 ^ k := Int.pow_pos (by decide)
    unfold next_highest_power_of_2.loop1
    by_cases hlt : p < n
    · simp only [hlt, if_true]
      have h2 : p * 2 = 256 * 2 ^ (k + 1) := by rw [Int.pow_succ]; omega
      obtain ⟨j, e1, e2, e3⟩ := ih (k + 1) (p * 2) h2 (Or.inr (by omega)) (by omega)
      exact ⟨j, e1, e2, e3⟩
    · simp only [hlt, if_false]
      refine ⟨k, hp, by omega, ?_⟩
      rcases hk with hk | hk
      · exact Or.inl hk
      · right; rw [← hp]; exact hk

/-- **p2n_min**: for every `n`, the result is `256·2^j`, at least `n`, and minimal:
either it is 256 itself or its half is below `n`.  In particular the fuel given
to the generated loop always suffices (the exit condition `¬ p < n` holds). -/
theorem nhp2_spec (n : Int) :
    ∃ j : Nat, next_highest_power_of_2 n = 256 * 2 ^ j ∧ n ≤ 256 * 2 ^ j ∧
      (j = 0 ∨ (256 * 2 ^ j : Int) / 2 < n) := by
  unfold next_highest_power_of_2
  exact loop_spec n (Int.toNat n) 0 256 (by simp) (Or.inl rfl) (by omega)


/-! ### `StudyTiling.__init__` -/

/-- What the constructor computes, for valid sizes. -/
theorem init_eq (w h : Int) (hw : 1 ≤ w) (hh : 1 ≤ h) :
    init w h = some
      { width := w, height := h,
        p2n := max (next_highest_power_of_2 w) (next_highest_power_of_2 h),
        tile_size := max (next_highest_power_of_2 w) (next_highest_power_of_2 h) / 256,
        tile_levels := ilog2 (max (next_highest_power_of_2 w) (next_highest_power_of_2 h) / 256),
        img_gx0 := (max (next_highest_power_of_2 w) (next_highest_power_of_2 h) - w) / 2,
        img_gy0 := (max (next_highest_power_of_2 w) (next_highest_power_of_2 h) - h) / 2 } := by
  simp only [init]
  rw [if_neg (by omega), if_neg (by omega)]

theorem init_rejects (w h : Int) (hbad : w ≤ 0 ∨ h ≤ 0) : init w h = none := by
  simp only [init]
  by_cases h1 : w ≤ 0
  · rw [if_pos h1]
  · rw [if_neg h1, if_pos (by omega)]

theorem two_pow_mono (a b : Nat) (hab : a ≤ b) : (2 : Int) ^ a ≤ 2 ^ b := by
  have := Nat.pow_le_pow_right (n := 2) (by decide) hab
  exact_mod_cast this

theorem ilog2_two_pow (j : Nat) : ilog2 ((2:Int) ^ j) = j := by
  unfold ilog2
  have h1 : ((2:Int) ^ j) = ((2 ^ j : Nat) : Int) := by simp
  rw [h1, Int.toNat_natCast, Nat.log2_two_pow]

/-- **levels / centred**: for every `w, h ≥ 1` the constructor succeeds; the padded size is a power
of two `256·2^j ≥ max w h`, minimal with that property, the number of levels is `j`
(so `2^levels · 256 = p2n`) and the image is centred with offsets rounded down. -/
theorem init_spec (w h : Int) (hw : 1 ≤ w) (hh : 1 ≤ h) :
    ∃ (t : StudyTiling) (j : Nat), init w h = some t ∧ t.width = w ∧ t.height = h ∧
      t.p2n = 256 * 2 ^ j ∧ max w h ≤ t.p2n ∧ (j = 0 ∨ t.p2n / 2 < max w h) ∧
      t.tile_size = 2 ^ j ∧ t.tile_levels = j ∧
      t.img_gx0 = (t.p2n - w) / 2 ∧ t.img_gy0 = (t.p2n - h) / 2 ∧
      0 ≤ t.img_gx0 ∧ 0 ≤ t.img_gy0 ∧ t.img_gx0 + w ≤ t.p2n ∧ t.img_gy0 + h ≤ t.p2n := by
  obtain ⟨jw, ew, lw, mw⟩ := nhp2_spec w
  obtain ⟨jh, eh, lh, mh⟩ := nhp2_spec h
  have pw : (0 : Int) < 2 ^ jw := Int.pow_pos (by decide)
  have ph : (0 : Int) < 2 ^ jh := Int.pow_pos (by decide)
  have hP : ∃ j : Nat, max (next_highest_power_of_2 w) (next_highest_power_of_2 h) = 256 * 2 ^ j ∧
      max w h ≤ 256 * 2 ^ j ∧ (j = 0 ∨ (256 * 2 ^ j : Int) / 2 < max w h) := by
    rw [ew, eh]
    by_cases hj : jw ≤ jh
    · have := two_pow_mono jw jh hj
      refine ⟨jh, by omega, by omega, ?_⟩
      rcases mh with mh | mh
      · exact Or.inl mh
      · right; omega
    · have := two_pow_mono jh jw (by omega)
      refine ⟨jw, by omega, by omega, ?_⟩
      rcases mw with mw | mw
      · exact Or.inl mw
      · right; omega
  obtain ⟨j, eP, lP, mP⟩ := hP
  have pj : (0 : Int) < 2 ^ j := Int.pow_pos (by decide)
  refine ⟨_, j, init_eq w h hw hh, rfl, rfl, ?_⟩
  simp only [eP]
  have hts : (256 * (2:Int) ^ j) / 256 = 2 ^ j := by omega
  rw [hts, ilog2_two_pow]
  have hw' : w ≤ max w h := by omega
  have hh' : h ≤ max w h := by omega
  and_intros
  all_goals first | trivial | rfl | exact lP | exact mP | omega


/-! ### The per-tile rectangles -/

/-- A tiling "in use": positive image size, non-negative offsets (what `init` and
`compute_for_subimage` with a non-empty sub-image produce). -/
structure WF (t : StudyTiling) : Prop where
  w1 : 1 ≤ t.width
  h1 : 1 ≤ t.height
  gx : 0 ≤ t.img_gx0
  gy : 0 ≤ t.img_gy0

abbrev Entry := (Int × Int × Int) × Int × Int × Int × Int × Int × Int
def Entry.tx (e : Entry) : Int := e.1.2.1
def Entry.ty (e : Entry) : Int := e.1.2.2
def Entry.w (e : Entry) : Int := e.2.1
def Entry.h (e : Entry) : Int := e.2.2.1
def Entry.ix (e : Entry) : Int := e.2.2.2.1
def Entry.iy (e : Entry) : Int := e.2.2.2.2.1
def Entry.bx (e : Entry) : Int := e.2.2.2.2.2.1
def Entry.by (e : Entry) : Int := e.2.2.2.2.2.2

/-- image pixel `(u, v)` lies in the image rectangle of entry `e` -/
def covers (e : Entry) (u v : Int) : Prop :=
  e.ix ≤ u ∧ u < e.ix + e.w ∧ e.iy ≤ v ∧ v < e.iy + e.h

/-- The entry generated for tile column `itx`, row `ity` (the loop body, closed form). -/
def entryOf (t : StudyTiling) (ity itx : Int) : Entry :=
  ((t.tile_levels, itx, ity),
   min (itx * 256 + 255) (t.img_gx0 + t.width - 1) - t.img_gx0 + 1 - (max (itx * 256) t.img_gx0 - t.img_gx0),
   min (ity * 256 + 255) (t.img_gy0 + t.height - 1) - t.img_gy0 + 1 - (max (ity * 256) t.img_gy0 - t.img_gy0),
   max (itx * 256) t.img_gx0 - t.img_gx0,
   max (ity * 256) t.img_gy0 - t.img_gy0,
   max (itx * 256) t.img_gx0 - itx * 256,
   max (ity * 256) t.img_gy0 - ity * 256)

/-- Membership in the generated list = the double loop over the tile ranges. -/
theorem mem_rects (t : StudyTiling) (e : Entry) :
    e ∈ generate_populated_positions t ↔
      ∃ ity itx : Int, t.img_gy0 / 256 ≤ ity ∧ ity < (t.img_gy0 + t.height - 1) / 256 + 1 ∧
        t.img_gx0 / 256 ≤ itx ∧ itx < (t.img_gx0 + t.width - 1) / 256 + 1 ∧ e = entryOf t ity itx := by
  simp only [generate_populated_positions, List.mem_flatMap, mem_rangeI, List.mem_cons,
    List.not_mem_nil, or_false, entryOf]
  constructor
  · rintro ⟨ity, ⟨h1, h2⟩, itx, ⟨h3, h4⟩, rfl⟩
    exact ⟨ity, itx, h1, h2, h3, h4, rfl⟩
  · rintro ⟨ity, itx, h1, h2, h3, h4, rfl⟩
    exact ⟨ity, ⟨h1, h2⟩, itx, ⟨h3, h4⟩, rfl⟩

/-- **rects inside**: every yielded rectangle is non-empty, lies inside its 256×256 tile and
inside the image, and image and tile coordinates of its corner differ by the global offset. -/
theorem rects_inside (t : StudyTiling) (hwf : WF t) (e : Entry) (he : e ∈ generate_populated_positions t) :
    1 ≤ e.w ∧ 1 ≤ e.h ∧ 0 ≤ e.bx ∧ e.bx + e.w ≤ 256 ∧ 0 ≤ e.by ∧ e.by + e.h ≤ 256 ∧
    0 ≤ e.ix ∧ e.ix + e.w ≤ t.width ∧ 0 ≤ e.iy ∧ e.iy + e.h ≤ t.height ∧
    e.ix + t.img_gx0 = 256 * e.tx + e.bx ∧ e.iy + t.img_gy0 = 256 * e.ty + e.by ∧
    e.1.1 = t.tile_levels ∧ 0 ≤ e.tx ∧ 0 ≤ e.ty := by
  obtain ⟨ity, itx, h1, h2, h3, h4, rfl⟩ := (mem_rects t e).1 he
  obtain ⟨w1, hh1, gx, gy⟩ := hwf
  simp only [entryOf, Entry.w, Entry.h, Entry.bx, Entry.by, Entry.ix, Entry.iy, Entry.tx, Entry.ty]
  and_intros
  all_goals first | trivial | rfl | omega

/-- **rects partition**: every image pixel belongs to exactly one yielded rectangle, namely the
one of the tile `image_to_tile` names, at the in-tile position `image_to_tile` gives. -/
theorem rects_partition (t : StudyTiling) (hwf : WF t) (u v : Int)
    (hu : 0 ≤ u ∧ u < t.width) (hv : 0 ≤ v ∧ v < t.height) :
    ∃ e : Entry, e ∈ generate_populated_positions t ∧ covers e u v ∧
      image_to_tile t u v = (e.tx, e.ty, e.bx + (u - e.ix), e.by + (v - e.iy)) ∧
      ∀ e' ∈ generate_populated_positions t, covers e' u v → e' = e := by
  obtain ⟨w1, hh1, gx, gy⟩ := hwf
  refine ⟨entryOf t ((v + t.img_gy0) / 256) ((u + t.img_gx0) / 256), ?_, ?_, ?_, ?_⟩
  · rw [mem_rects]
    exact ⟨_, _, by omega, by omega, by omega, by omega, rfl⟩
  · simp only [covers, entryOf, Entry.w, Entry.h, Entry.ix, Entry.iy]
    and_intros
    all_goals first | trivial | rfl | omega
  · simp only [image_to_tile, entryOf, Entry.w, Entry.h, Entry.bx, Entry.by, Entry.ix, Entry.iy, Entry.tx, Entry.ty,
      Prod.mk.injEq]
    and_intros
    all_goals first | trivial | rfl | omega
  · intro e' he' hc
    obtain ⟨ity, itx, h1, h2, h3, h4, rfl⟩ := (mem_rects t e').1 he'
    simp only [covers, entryOf, Entry.w, Entry.h, Entry.ix, Entry.iy] at hc
    have e1 : ity = (v + t.img_gy0) / 256 := by omega
    have e2 : itx = (u + t.img_gx0) / 256 := by omega
    rw [e1, e2]

/-- Distinct entries have disjoint image rectangles (consequence of uniqueness). -/
theorem rects_disjoint (t : StudyTiling) (hwf : WF t) (e e' : Entry)
    (he : e ∈ generate_populated_positions t) (he' : e' ∈ generate_populated_positions t)
    (u v : Int) (hc : covers e u v) (hc' : covers e' u v) : e = e' := by
  have hi := rects_inside t hwf e he
  have hu : 0 ≤ u ∧ u < t.width := by unfold covers at hc; omega
  have hv : 0 ≤ v ∧ v < t.height := by unfold covers at hc; omega
  obtain ⟨e0, _, _, _, huniq⟩ := rects_partition t hwf u v hu hv
  rw [huniq e he hc, huniq e' he' hc']

/-- **count**: the number of yielded rectangles is `count_populated_positions`. -/
theorem rects_count (t : StudyTiling) (hwf : WF t) :
    ((generate_populated_positions t).length : Int) = count_populated_positions t := by
  obtain ⟨w1, hh1, gx, gy⟩ := hwf
  simp only [generate_populated_positions, count_populated_positions, List.length_flatMap,
    List.length_cons, List.length_nil, Nat.zero_add, List.map_const', List.sum_replicate_nat,
    length_rangeI, Nat.mul_one]
  have a : 0 ≤ (t.img_gy0 + t.height - 1) / 256 + 1 - t.img_gy0 / 256 := by omega
  have b : 0 ≤ (t.img_gx0 + t.width - 1) / 256 + 1 - t.img_gx0 / 256 := by omega
  rw [Int.natCast_mul, Int.toNat_of_nonneg a, Int.toNat_of_nonneg b]

/-! ### Sub-images share the parent's geometry -/

/-- `compute_for_subimage` keeps `p2n`, the tile grid and the number of levels of the parent and
shifts the offsets by the sub-image position; it is rejected exactly when the sub-image does not
fit.  The result is again well-formed for non-empty sub-images, so every theorem above applies. -/
theorem subimage_spec (w h ix iy sw sh : Int) (hw : 1 ≤ w) (hh : 1 ≤ h)
    (hx : 0 ≤ ix ∧ ix + sw ≤ w) (hy : 0 ≤ iy ∧ iy + sh ≤ h) (hsw : 1 ≤ sw) (hsh : 1 ≤ sh) :
    ∃ t s : StudyTiling, init w h = some t ∧ compute_for_subimage t ix iy sw sh = some s ∧
      s.p2n = t.p2n ∧ s.tile_levels = t.tile_levels ∧ s.tile_size = t.tile_size ∧
      s.width = sw ∧ s.height = sh ∧ s.img_gx0 = t.img_gx0 + ix ∧ s.img_gy0 = t.img_gy0 + iy ∧
      WF t ∧ WF s := by
  obtain ⟨t, j, hi, e1, e2, _, _, _, _, _, _, _, g1, g2, _, _⟩ := init_spec w h hw hh
  have hc : compute_for_subimage t ix iy sw sh = some
      { t with width := sw, height := sh, img_gx0 := t.img_gx0 + ix, img_gy0 := t.img_gy0 + iy } := by
    simp only [compute_for_subimage, e1, e2]
    rw [if_neg (by omega), if_neg (by omega), if_neg (by omega), if_neg (by omega)]
    first | rw [hi] | rw [e1, e2, hi]
  refine ⟨t, _, hi, hc, rfl, rfl, rfl, rfl, rfl, rfl, rfl, ⟨by omega, by omega, g1, g2⟩, ⟨hsw, hsh, ?_, ?_⟩⟩
  · show 0 ≤ t.img_gx0 + ix; omega
  · show 0 ≤ t.img_gy0 + iy; omega

/-! ### Non-vacuity -/

/-- a 257×3 image: p2n = 512, two populated tiles in one row. -/
example : (init 257 3).map (fun t => (t.p2n, t.tile_levels, t.img_gx0, t.img_gy0,
    (generate_populated_positions t).length)) = some (512, 1, 127, 254, 4) := by decide +kernel

/-- a sub-image at offset (300, 5) of a 700×1025 parent. -/
example : ((init 700 1025).bind (fun t => compute_for_subimage t 300 5 200 700)).map
    (fun s => (s.p2n, s.img_gx0, s.img_gy0, count_populated_positions s)) = some (2048, 974, 516, 6) := by
  decide +kernel

/-- **entry_points**: the call sites through which this property's workflows reach the modelled functions have, in the source as
it is now, the argument plumbing the model assumes (facts re-extracted on every run, `Gen/Plumbing.lean`) -/
theorem entry_points : Gen.Plumbing.builder_execute_uses_given_tiling = true ∧ Gen.Plumbing.multi_tan_subimage_offsets = true := by decide

end C08
