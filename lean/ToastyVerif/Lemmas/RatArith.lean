/-
Facts about the exact-arithmetic helpers of `Basic.lean` (`ratMod`, `roundHE`, `clipI`).
-/
import ToastyVerif.Basic

theorem roundHE_bounds (q : Rat) : q - 1 / 2 ≤ (roundHE q : Rat) ∧ (roundHE q : Rat) ≤ q + 1 / 2 := by
  have h1 := Rat.floor_le q
  have h2 := Rat.lt_floor_add_one q
  have h3 : ((q.floor + 1 : Int) : Rat) = (q.floor : Rat) + 1 := by simp [Rat.intCast_add]
  rw [h3] at h2
  unfold roundHE
  simp only
  split
  · rename_i h; constructor <;> grind
  · split
    · rename_i h h'; rw [Rat.intCast_add]; constructor <;> grind
    · split
      · rename_i h h' _; constructor <;> grind
      · rename_i h h' _; rw [Rat.intCast_add]; constructor <;> grind

/-- strictly inside a cell the rounding is forced -/
theorem roundHE_eq_of_strict (q : Rat) (k : Int) (h1 : (k : Rat) - 1 / 2 < q) (h2 : q < (k : Rat) + 1 / 2) :
    roundHE q = k := by
  have hb := roundHE_bounds q
  have a : ((roundHE q : Int) : Rat) < (k : Rat) + 1 := by grind
  have b : (k : Rat) - 1 < ((roundHE q : Int) : Rat) := by grind
  have a' : roundHE q < k + 1 := by
    have : ((roundHE q : Int) : Rat) < ((k + 1 : Int) : Rat) := by rw [Rat.intCast_add]; simpa using a
    exact Rat.intCast_lt_intCast.mp this
  have b' : k - 1 < roundHE q := by
    have : ((k - 1 : Int) : Rat) < ((roundHE q : Int) : Rat) := by rw [Rat.intCast_sub]; simpa using b
    exact Rat.intCast_lt_intCast.mp this
  omega

theorem ratMod_one_range (a : Rat) : 0 ≤ ratMod a 1 ∧ ratMod a 1 < 1 := by
  unfold ratMod
  have h1 := Rat.floor_le (a / 1)
  have h2 := Rat.lt_floor_add_one (a / 1)
  have h3 : (((a / 1).floor + 1 : Int) : Rat) = ((a / 1).floor : Rat) + 1 := by simp [Rat.intCast_add]
  rw [h3] at h2
  have e : a / 1 = a := by grind
  rw [e] at h1 h2 ⊢
  constructor <;> grind

theorem ratMod_one_add_int (a : Rat) (k : Int) : ratMod (a + k) 1 = ratMod a 1 := by
  unfold ratMod
  have e1 : (a + k) / 1 = a + k := by grind
  have e2 : a / 1 = a := by grind
  rw [e1, e2, Rat.floor_add_intCast, Rat.intCast_add]
  grind

theorem clipI_range (v lo hi : Int) (h : lo ≤ hi) : lo ≤ clipI v lo hi ∧ clipI v lo hi ≤ hi := by
  unfold clipI; split <;> (try split) <;> omega

theorem clipI_cases (v lo hi : Int) (h : lo ≤ hi) :
    (v < lo ∧ clipI v lo hi = lo) ∨ (hi < v ∧ clipI v lo hi = hi) ∨ (lo ≤ v ∧ v ≤ hi ∧ clipI v lo hi = v) := by
  unfold clipI; split <;> (try split) <;> omega
