/-
Shared, hand-written prelude for the generated (`Gen`) and model files.
Core Lean only.
-/

/-- Python `range(lo, hi)` over `Int`. -/
def rangeI (lo hi : Int) : List Int :=
  (List.range (Int.toNat (hi - lo))).map (fun (k : Nat) => lo + (k : Int))

/-- `int(np.log2(x))` for a positive power of two (and, generally, ⌊log₂ x⌋). -/
def ilog2 (x : Int) : Int := (Nat.log2 x.toNat : Nat)

theorem mem_rangeI {lo hi v : Int} : v ∈ rangeI lo hi ↔ lo ≤ v ∧ v < hi := by
  unfold rangeI
  simp only [List.mem_map, List.mem_range]
  constructor
  · rintro ⟨k, hk, rfl⟩; omega
  · intro ⟨h1, h2⟩
    exact ⟨(v - lo).toNat, by omega, by omega⟩

theorem rangeI_nodup (lo hi : Int) : (rangeI lo hi).Nodup := by
  unfold rangeI List.Nodup
  rw [List.pairwise_map]
  exact List.Pairwise.imp (by intro a b h; omega) List.nodup_range

theorem length_rangeI (lo hi : Int) : (rangeI lo hi).length = (hi - lo).toNat := by
  simp [rangeI]

/-! ### exact arithmetic used by the sampler definitions -/

/-- Python float `%` with a positive modulus, exactly: `a - floor(a / b) * b`. -/
def ratMod (a b : Rat) : Rat := a - ((a / b).floor : Int) * b

/-- `np.round` (round half to even) followed by `.astype(int)`. -/
def roundHE (q : Rat) : Int :=
  let f := q.floor
  let r := q - f
  if r < 1 / 2 then f else if 1 / 2 < r then f + 1 else if f % 2 = 0 then f else f + 1

/-- `np.clip` on integers -/
def clipI (v lo hi : Int) : Int := if v < lo then lo else if hi < v then hi else v

/-! ### python list primitives used by generated list code -/

/-- `l.index(v)`; `none` = ValueError -/
def pyIndex (l : List String) (v : String) : Option Nat := l.findIdx? (· == v)

def pyNorm (n : Nat) (i : Int) : Nat := if i < 0 then (i + n).toNat else i.toNat

/-- `l[i]` with python's negative indices (in-range use only) -/
def pyGet (l : List String) (i : Int) : String := l.getD (pyNorm l.length i) ""

/-- `l[i] = v` -/
def pySet (l : List String) (i : Int) (v : String) : List String := l.set (pyNorm l.length i) v
