-- EXTRACTION FAILED: ExtractError: cannot find raise_if_worker_failed
import ToastyVerif.Basic
#eval (show IO Unit from throw (IO.userError "extraction failed for Gen.WalkWorker: ExtractError: cannot find raise_if_worker_failed"))
