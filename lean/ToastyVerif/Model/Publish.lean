/-
Model of `PipelineManager.publish` for one approved image (C18): the transfer list is the
directory listing reordered by `Gen.Publish.reorder`, each file is `put` in list order, the image
directory is renamed into `published/` after the loop; a crash or transfer failure may stop a run
before, inside or after any transfer.  The destination store maps a file name to
absent / partially written / complete.  Whether an interrupted `put` can leave a partial item under
its final name is the extracted fact `Gen.Publish.put_atomic`.
-/
import ToastyVerif.Gen.Publish

namespace Pub

inductive St where
  | absent | part | complete
deriving DecidableEq, Repr

structure World where
  store : String → St
  moved : Bool          -- the image directory has been renamed from approved/ to published/

def World.init : World := { store := fun _ => .absent, moved := false }

/-- One invocation of `publish`: the directory listing it sees, how many transfers completed
(`k`), whether the next transfer was cut off in the middle (`mid`), and, when all transfers
completed, whether the rename happened (`renamed = false`: crash between the loop and the rename). -/
structure Run where
  listing : List String
  k : Nat
  mid : Bool
  renamed : Bool
deriving Repr

/-- store after `k` completed transfers of the list `order` -/
def doneStore (order : List String) (k : Nat) (st : String → St) : String → St :=
  fun f => if f ∈ order.take k then .complete else st f

/-- effect of a transfer of `o` that is cut off in the middle -/
def midStore (atomic : Bool) (s1 : String → St) (o : Option String) : String → St :=
  match o with
  | some g => if atomic then s1 else fun f => if f = g then .part else s1 f
  | none => s1

def applyRun (atomic : Bool) (w : World) (r : Run) : World :=
  if w.moved then w     -- nothing left under approved/: publish does not touch this image
  else
    let order := Gen.Publish.reorder r.listing
    let s1 := doneStore order r.k w.store
    { store := if r.mid then midStore atomic s1 order[r.k]? else s1,
      moved := decide (order.length ≤ r.k) && !r.mid && r.renamed }

def runAll (atomic : Bool) (w : World) (rs : List Run) : World := rs.foldl (applyRun atomic) w

/-- the safety property: an `index.wtml` in the store (in any state) implies every other file of the
image is there and complete -/
def Safe (files : List String) (w : World) : Prop :=
  w.store Gen.Publish.index_name ≠ .absent → ∀ f ∈ files, f ≠ Gen.Publish.index_name → w.store f = .complete

instance (files : List String) (w : World) : Decidable (Safe files w) := by
  unfold Safe; infer_instance

/-- `refresh` skips the image exactly when index.wtml exists in the store -/
def refreshSkips (w : World) : Bool :=
  Gen.Publish.refresh_skips_on_index && decide (w.store Gen.Publish.index_name ≠ .absent)

end Pub
