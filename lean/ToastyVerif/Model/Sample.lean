/-
TOAST sampling (`ToastSampler.visit_callback`, `sample_layer`, `sample_layer_filtered`).

The callback's statement sequence is re-extracted on every run (`Gen.Sampling`), the per-pixel
merge of the updating mode is the C15 model (`Pixels.update`, generated from image.py), persistence
is `Pixels.writeImage` / `readImage` (generated facts of pyramid.py), and the set of tiles visited is
a parameter (the leaves delivered by `visit_leaves`: C13 for the serial order, C03 for the parallel
hand-off).  Coordinates and sampler are abstract: `coords p r c` is the sky position of pixel
(row r, column c) of the tile at `p` (C05), `sampler` any function of it.
-/
import ToastyVerif.Gen.Sampling
import ToastyVerif.Gen.Paths
import ToastyVerif.Model.Pixels
import ToastyVerif.Model.Pyramid

namespace Sample
open PixelBase Pixels

/-- formats whose vertical parity sign is +1 store the bottom row first -/
def bottomUp (fmt : List Char) : Bool := Gen.Paths.parity_sign.lookup fmt == some 1

/-- the format the tiles are written in: the `format` override if given, else the pyramid's default -/
def writtenFormat (dflt : List Char) (override : Option (List Char)) : List Char := override.getD dflt

/-- `ToastSampler._invert_into_tiles` -/
def invert (dflt : List Char) (override : Option (List Char)) : Bool :=
  if Gen.Sampling.invert_follows_written_format then bottomUp (writtenFormat dflt override) else bottomUp dflt

/-- `a[::-1]` on a 256-row array -/
def revRows (img : Img) : Img := fun r c => if r < 256 then img (255 - r) c else img r c

abbrev Store := Pos → File

structure Job (C : Type) where
  m : ModeSem
  invert : Bool
  clobber : Bool
  coords : Pos → Nat → Nat → C
  sampler : C → Px

variable {C : Type}

/-- the sampler's values on the tile's own pixel grid, in display orientation -/
def sampled (j : Job C) (p : Pos) : Img := fun r c => j.sampler (j.coords p r c)

/-- as handed to `Image.from_array`: rows reversed for bottom-up formats -/
def oriented (j : Job C) (p : Pos) : Img := if j.invert then revRows (sampled j p) else sampled j p

/-- the whole-tile indexers `slice(None), slice(None), slice(None), slice(None)` -/
def fullRect : Rect := ⟨sliceFwd 0 0 256, sliceFwd 0 0 256⟩

/-- the new content of the tile file -/
def newFile (j : Job C) (old : File) (p : Pos) : File :=
  if j.clobber then writeImage j.m old (oriented j p)
  else match readImage j.m old .masked with
    | some basis => writeImage j.m old (update j.m fullRect basis (oriented j p))
    | none => old

/-- `ToastSampler.visit_callback(pos, tile)` -/
def callback (j : Job C) (st : Store) (p : Pos) : Store :=
  fun q => if q = p then newFile j (st p) p else st q

/-- the store after the callback has run for the tiles of `visits`, in that order -/
def run (j : Job C) (st : Store) (visits : List Pos) : Store := visits.foldl (callback j) st

/-- back to display orientation -/
def display (j : Job C) (img : Img) : Img := if j.invert then revRows img else img

end Sample
