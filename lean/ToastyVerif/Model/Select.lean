/-
Model of HDU / WCS-key selection in `SimpleFitsCollection._scan_hdus` (C20).
The branch bodies come from `Gen/Collection.lean`; this file only assembles them.
-/
import ToastyVerif.Gen.Collection

namespace Select

inductive HduSpec where
  | guess
  | scalar (k : Int)
  | list (ks : List Int)
deriving Repr, DecidableEq

inductive KeySpec where
  | default
  | scalar (k : String)
  | list (ks : List String)
deriving Repr, DecidableEq

/-- what the guess loop sees of an HDU: `hasattr(hdu,'shape')`, `len(hdu.shape)`, is a BinTableHDU -/
structure HduKind where
  hasShape : Bool
  ndim : Nat
  isBinTable : Bool
deriving Repr, DecidableEq

def accepts (h : HduKind) : Bool :=
  Gen.Scan.guess_accepts (if h.hasShape then 1 else 0) h.ndim (if h.isBinTable then 1 else 0)

/-- `for hdu_index, hdu in enumerate(hdul): if accepts: break` — on exhaustion python keeps the
last loop values. -/
def guessIdx (hdus : List HduKind) : Option Nat :=
  match hdus.findIdx? accepts with
  | some i => some i
  | none => if hdus.isEmpty then none else some (hdus.length - 1)

inductive Outcome where
  | ok (reported : Int) (read : Int)
  | indexError            -- list shorter than the collection / HDU out of range
  | rejectedTable
deriving Repr, DecidableEq

/-- bounds check (python negative indices allowed) and table rejection for the HDU `rd` -/
def finish (hdus : List HduKind) (rep : Int) (rd : Int) : Outcome :=
  let n : Int := hdus.length
  let j := if rd < 0 then rd + n else rd
  if j < 0 ∨ j ≥ n then .indexError
  else if (hdus.getD j.toNat ⟨false, 0, false⟩).isBinTable && Gen.Scan.rejects_bintable then .rejectedTable
  else .ok rep rd

/-- HDU chosen for file number `i` whose HDU list looks like `hdus`. -/
def select (spec : HduSpec) (i : Nat) (hdus : List HduKind) : Outcome :=
  match spec with
  | .scalar k => match Gen.Scan.scalar_read k i with
      | some rd => finish hdus (Gen.Scan.scalar_reported k i) rd
      | none => .indexError
  | .list ks => match Gen.Scan.list_reported ks i, Gen.Scan.list_read ks i with
      | some rep, some rd => finish hdus rep rd
      | _, _ => .indexError
  | .guess => match guessIdx hdus with
      | some j => finish hdus j j
      | none => .indexError

def key (spec : KeySpec) (i : Nat) : Option String :=
  match spec with
  | .default => some Gen.Scan.wcs_default
  | .scalar k => some (Gen.Scan.wcs_scalar k i)
  | .list ks => Gen.Scan.wcs_list ks i

end Select
