/-
Pixel-level model of toasty's maskable buffers (image.py) and tile persistence (pyramid.py).

The per-pixel, per-mode semantics come from `Gen/Masks.lean` (translated on every run from the numpy
statements of `fill_into_maskable_buffer`, `update_into_maskable_buffer`, `clear`,
`is_completely_masked`).  This file lifts them to images addressed through rectangle indexers.
-/
import ToastyVerif.Gen.Masks
import ToastyVerif.Gen.PIO

namespace Pixels
open PixelBase

/-- per-mode semantics, assembled from the generated definitions -/
structure ModeSem where
  name : String
  nsrc : Nat
  nbuf : Nat
  fillOutside : Px
  fillInside : Px → Px
  updatePx : Px → Px → Px
  clearPx : Px
  maskedPx : Px → Bool

open Gen.Masks in
def RGB : ModeSem := ⟨"RGB", nsrc_RGB, nbuf_RGB, fill_outside_RGB, fill_inside_RGB, update_px_RGB, clear_px_RGB, masked_px_RGB⟩
open Gen.Masks in
def RGBA : ModeSem := ⟨"RGBA", nsrc_RGBA, nbuf_RGBA, fill_outside_RGBA, fill_inside_RGBA, update_px_RGBA, clear_px_RGBA, masked_px_RGBA⟩
open Gen.Masks in
def F32 : ModeSem := ⟨"F32", nsrc_F32, nbuf_F32, fill_outside_F32, fill_inside_F32, update_px_F32, clear_px_F32, masked_px_F32⟩
open Gen.Masks in
def F64 : ModeSem := ⟨"F64", nsrc_F64, nbuf_F64, fill_outside_F64, fill_inside_F64, update_px_F64, clear_px_F64, masked_px_F64⟩
open Gen.Masks in
def F16x3 : ModeSem := ⟨"F16x3", nsrc_F16x3, nbuf_F16x3, fill_outside_F16x3, fill_inside_F16x3, update_px_F16x3, clear_px_F16x3, masked_px_F16x3⟩
open Gen.Masks in
def U8 : ModeSem := ⟨"U8", nsrc_U8, nbuf_U8, fill_outside_U8, fill_inside_U8, update_px_U8, clear_px_U8, masked_px_U8⟩
open Gen.Masks in
def I16 : ModeSem := ⟨"I16", nsrc_I16, nbuf_I16, fill_outside_I16, fill_inside_I16, update_px_I16, clear_px_I16, masked_px_I16⟩
open Gen.Masks in
def I32 : ModeSem := ⟨"I32", nsrc_I32, nbuf_I32, fill_outside_I32, fill_inside_I32, update_px_I32, clear_px_I32, masked_px_I32⟩

def allModes : List ModeSem := [RGB, RGBA, F32, F64, F16x3, U8, I16, I32]

/-- an image: pixel vector at (row, col) of the stored array -/
abbrev Img := Nat → Nat → Px

/-- A pair of rectangle indexers `(b[by_idx, bx_idx], i[iy_idx, ix_idx])` as a partial map from
buffer coordinates to source coordinates (slices with step ±1 give such maps; `none` = not addressed). -/
structure Rect where
  rowOf : Nat → Option Nat
  colOf : Nat → Option Nat

def Rect.src (rc : Rect) (r c : Nat) : Option (Nat × Nat) :=
  match rc.rowOf r, rc.colOf c with
  | some i, some j => some (i, j)
  | _, _ => none

/-- `image.fill_into_maskable_buffer(buffer, iy, ix, by, bx)` -/
def fill (m : ModeSem) (rc : Rect) (src : Img) : Img :=
  fun r c => match rc.src r c with
    | some (i, j) => m.fillInside (src i j)
    | none => m.fillOutside

/-- `image.update_into_maskable_buffer(buffer, iy, ix, by, bx)` -/
def update (m : ModeSem) (rc : Rect) (buf src : Img) : Img :=
  fun r c => match rc.src r c with
    | some (i, j) => m.updatePx (buf r c) (src i j)
    | none => buf r c

def clear (m : ModeSem) : Img := fun _ _ => m.clearPx

/-- `is_completely_masked()` of an `h × w` buffer -/
def completelyMasked (m : ModeSem) (h w : Nat) (img : Img) : Bool :=
  (List.range h).all fun r => (List.range w).all fun c => m.maskedPx (img r c)

/-- python slice `start : start+len` (step +1) into the buffer paired with `s0 : s0+len` of the source -/
def sliceFwd (b0 s0 len : Nat) : Nat → Option Nat :=
  fun r => if b0 ≤ r ∧ r < b0 + len then some (s0 + (r - b0)) else none

/-- python slice `start : start-len : -1` (step −1) into the buffer paired with `s0 : s0+len` of the source -/
def sliceRev (bstart s0 len : Nat) : Nat → Option Nat :=
  fun r => if r ≤ bstart ∧ bstart < r + len then some (s0 + (bstart - r)) else none

/-! ### tile persistence -/

/-- a tile file: absent, or present with an image -/
abbrev File := Option Img

/-- `PyramidIO.write_image` for a 256×256 tile -/
def writeImage (m : ModeSem) (_old : File) (img : Img) : File :=
  if Gen.PIO.write_unlinks_when_masked && completelyMasked m 256 256 img then none else some img

/-- `PyramidIO.read_image(default=…)` -/
inductive ReadDefault | none | masked
def readImage (m : ModeSem) (f : File) (d : ReadDefault) : Option Img :=
  match f, d with
  | some img, _ => some img
  | .none, .none => Option.none
  | .none, .masked => if Gen.PIO.read_missing_masked_fresh then some (clear m) else Option.none

end Pixels
