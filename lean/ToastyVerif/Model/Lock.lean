/-
Model of `PyramidIO.update_image` used by several processes on one tile (C10):
`with SoftFileLock(path + ".lock"): img = read_image(...); yield img; write_image(pos, img)`.
One transition per step `vf/simmp.py` records: lock, read-begin, read-end, write-begin, write-end,
unlock.  A tile's content is abstracted to the list of contributions applied to it so far (updater
`i` contributes `i`); writing is not atomic (the file is `partial` between write-begin and write-end).
-/
import ToastyVerif.Basic

namespace Lock

inductive FileSt where
  | stable (v : List Nat)
  | part
deriving DecidableEq, Repr

inductive U where
  | idle
  | locked                  -- holds the lock, has not read yet
  | reading                 -- read-begin done
  | read (v : List Nat)     -- read-end done: has the tile content `v` in memory (and then modifies it)
  | writing (v : List Nat)  -- write-begin done: the file is being rewritten with `v`
  | written                 -- write-end done, lock not yet released
  | done
deriving DecidableEq, Repr

inductive L where
  | lock (i : Nat) | readBegin (i : Nat) | readEnd (i : Nat) | writeBegin (i : Nat) | writeEnd (i : Nat) | unlock (i : Nat)
deriving DecidableEq, Repr

structure S where
  n : Nat
  file : FileSt
  lock : Option Nat
  us : Nat → U
  log : List Nat          -- ghost: updaters whose write has completed, in lock-acquisition order
  partialReads : Nat      -- how many times a read-end observed a partially written file

def init (n : Nat) : S := { n := n, file := .stable [], lock := none, us := fun _ => .idle, log := [], partialReads := 0 }

def setU (s : S) (i : Nat) (u : U) : S := { s with us := fun j => if j = i then u else s.us j }

def step (s : S) : L → Option S
  | .lock i => if i < s.n ∧ s.us i = .idle ∧ s.lock = none then some { setU s i .locked with lock := some i } else none
  | .readBegin i => if i < s.n ∧ s.us i = .locked then some (setU s i .reading) else none
  | .readEnd i =>
    if i < s.n ∧ s.us i = .reading then
      match s.file with
      | .stable v => some (setU s i (.read v))
      | .part => some { setU s i (.read []) with partialReads := s.partialReads + 1 }
    else none
  | .writeBegin i =>
    if i < s.n then
      match s.us i with
      | .read v => some { setU s i (.writing (v ++ [i])) with file := .part }
      | _ => none
    else none
  | .writeEnd i =>
    if i < s.n then
      match s.us i with
      | .writing v => some { setU s i .written with file := .stable v, log := s.log ++ [i] }
      | _ => none
    else none
  | .unlock i => if i < s.n ∧ s.us i = .written ∧ s.lock = some i then some { setU s i .done with lock := none } else none

def run (s : S) : List L → Option S
  | [] => some s
  | l :: ls => match step s l with
    | some s' => run s' ls
    | none => none

def Reachable (n : Nat) (s : S) : Prop := ∃ tr, run (init n) tr = some s

def holding : U → Bool
  | .locked | .reading | .read _ | .writing _ | .written => true
  | _ => false

end Lock
