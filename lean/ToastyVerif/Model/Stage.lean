/-
Model of toasty's "bounded queue + done flag + time-out" hand-off (C03): the producer of
`_visit_leaves_parallel`, `_transform_parallel`, `multi_tan._tile_parallel`,
`multi_wcs._tile_parallel` and their worker loops, at the granularity of the primitives of
`multiprocessing` (DESIGN.md §3).  One transition per label; the labels are exactly the step
names `vf/simmp.py` records when it runs the real functions, so a recorded trace can be replayed
through `step` (trace refinement checked by execution).

`flagFirst` selects where the worker reads the shutdown flag: before polling the queue (the code
as it is now: `Gen.Stage.flag_first`) or only after a poll came back empty (the original code).
-/
import ToastyVerif.Basic

namespace Stage

/-- worker control state -/
inductive W where
  | notStarted
  | ready                 -- `Process.start()` done, target not yet running
  | top                   -- at the head of the `while True` loop
  | sampled (d : Bool)    -- (flag-first order) `done = done_event.is_set()` read `d`
  | locked (d : Bool)     -- holds the queue's reader lock, polling the pipe
  | have (i : Nat)        -- received item `i`, callback not yet run
  | afterEmpty            -- (flag-after-empty order) the poll raised Empty, flag not yet read
  | exited
deriving DecidableEq, Repr

/-- producer program counter -/
inductive PC where
  | starting (k : Nat)    -- about to start worker `k`
  | putting               -- enqueueing `todo`
  | closed                -- `queue.close()` done
  | joined                -- `queue.join_thread()` returned
  | joining (k : Nat)     -- flag set; about to join worker `k`
  | returned
deriving DecidableEq, Repr

inductive L where
  | start (k : Nat) | begin (k : Nat)
  | put (i : Nat) | flush | close | joinThread | setFlag | join (k : Nat)
  | flagQ (k : Nat) (b : Bool)
  | rlock (k : Nat) | rlockTimeout (k : Nat)
  | recv (k : Nat) (i : Nat) | empty (k : Nat)
  | cb (k : Nat) (i : Nat)
deriving DecidableEq, Repr

structure S where
  n : Nat                       -- number of workers (≥ 1)
  cap : Nat                     -- queue capacity, 0 = unbounded
  flagFirst : Bool
  todo : List Nat               -- items not yet `put`
  pc : PC
  buf : List Nat                -- put, not yet flushed by the feeder
  pipe : List Nat               -- flushed, not yet received
  out : Nat                     -- the bounded semaphore's count
  rlock : Option Nat
  flag : Bool
  ws : Nat → W
  processed : List (Nat × Nat)  -- (item, worker) in callback order

def init (n cap : Nat) (flagFirst : Bool) (items : List Nat) : S :=
  { n := n, cap := cap, flagFirst := flagFirst, todo := items, pc := .starting 0, buf := [], pipe := [],
    out := 0, rlock := none, flag := false, ws := fun _ => .notStarted, processed := [] }

def setW (s : S) (k : Nat) (w : W) : S := { s with ws := fun j => if j = k then w else s.ws j }

/-- the lock is held by somebody else -/
def lockedByOther (s : S) (k : Nat) : Bool :=
  match s.rlock with
  | some j => j != k
  | none => false

def step (s : S) : L → Option S
  | .start k =>
    if s.pc = .starting k ∧ k < s.n ∧ s.ws k = .notStarted then
      some { setW s k .ready with pc := if k + 1 = s.n then .putting else .starting (k + 1) }
    else none
  | .begin k => if k < s.n ∧ s.ws k = .ready then some (setW s k .top) else none
  | .put i =>
    match s.todo with
    | j :: rest =>
      if s.pc = .putting ∧ i = j ∧ (s.cap = 0 ∨ s.out < s.cap) then
        some { s with todo := rest, buf := s.buf ++ [i], out := s.out + 1 }
      else none
    | [] => none
  | .flush =>
    match s.buf with
    | i :: rest => some { s with buf := rest, pipe := s.pipe ++ [i] }
    | [] => none
  | .close => if s.pc = .putting ∧ s.todo = [] then some { s with pc := .closed } else none
  | .joinThread => if s.pc = .closed ∧ s.buf = [] then some { s with pc := .joined } else none
  | .setFlag => if s.pc = .joined then some { s with pc := .joining 0, flag := true } else none
  | .join k =>
    if s.pc = .joining k ∧ k < s.n ∧ s.ws k = .exited then
      some { s with pc := if k + 1 = s.n then .returned else .joining (k + 1) }
    else none
  | .flagQ k b =>
    if k < s.n ∧ b = s.flag then
      match s.ws k with
      | .top => if s.flagFirst then some (setW s k (.sampled b)) else none
      | .afterEmpty => if s.flagFirst then none else some (setW s k (if b then .exited else .top))
      | _ => none
    else none
  | .rlock k =>
    if k < s.n ∧ s.rlock = none then
      match s.ws k with
      | .sampled d => if s.flagFirst then some { setW s k (.locked d) with rlock := some k } else none
      | .top => if s.flagFirst then none else some { setW s k (.locked false) with rlock := some k }
      | _ => none
    else none
  | .rlockTimeout k =>
    if k < s.n ∧ lockedByOther s k then
      match s.ws k with
      | .sampled d => if s.flagFirst then some (setW s k (if d then .exited else .top)) else none
      | .top => if s.flagFirst then none else some (setW s k .afterEmpty)
      | _ => none
    else none
  | .recv k i =>
    if k < s.n ∧ s.rlock = some k then
      match s.ws k, s.pipe with
      | .locked _, j :: rest =>
        if i = j then some { setW s k (.have i) with pipe := rest, rlock := none, out := s.out - 1 } else none
      | _, _ => none
    else none
  | .empty k =>
    if k < s.n ∧ s.rlock = some k ∧ s.pipe = [] then
      match s.ws k with
      | .locked d =>
        some { setW s k (if s.flagFirst then (if d then .exited else .top) else .afterEmpty) with rlock := none }
      | _ => none
    else none
  | .cb k i =>
    if k < s.n then
      match s.ws k with
      | .have j => if i = j then some { setW s k .top with processed := s.processed ++ [(i, k)] } else none
      | _ => none
    else none

def run (s : S) : List L → Option S
  | [] => some s
  | l :: ls => match step s l with
    | some s' => run s' ls
    | none => none

/-- reachable from the initial state of a stage with `n` workers over `items` -/
def Reachable (n cap : Nat) (ff : Bool) (items : List Nat) (s : S) : Prop :=
  ∃ tr, run (init n cap ff items) tr = some s

/-- the producer has returned and every worker has exited -/
def terminal (s : S) : Prop := s.pc = .returned ∧ ∀ k, k < s.n → s.ws k = .exited

/-- items currently held by workers (received, callback not finished) -/
def held (s : S) : List Nat :=
  (List.range s.n).filterMap fun k => match s.ws k with
    | .have i => some i
    | _ => none

end Stage
