/-
Vocabulary shared by `Gen/Toast.lean` (tables extracted by running the real code on symbolic points)
and the TOAST model.
-/
import ToastyVerif.Basic

namespace ToastBase

/-- the six vertices of the octahedron: poles and the equator points at longitude 0°, 90°, 180°, 270° -/
inductive Vtx where
  | N | S | E0 | E90 | E180 | E270
deriving DecidableEq, Repr

/-- a corner expression: one of the parent's corners or a great-circle midpoint (argument order as written in the code) -/
inductive CE where
  | ul | ur | lr | ll
  | mid (a b : CE)
deriving DecidableEq, Repr

end ToastBase
