/-
Model of `TileMerger.walk_callback` / `cascade_images` (merge.py) on top of the pixel model.
Slice tables and the table-per-parity choice come from `Gen/Merge.lean` (the real module, run on
every check).
-/
import ToastyVerif.Model.Pixels
import ToastyVerif.Model.Pyramid
import ToastyVerif.Gen.Merge

namespace Cascade
open PixelBase Pixels

/-- vertical flip of a stored 256-row tile -/
def flip256 (img : Img) : Img := fun r c => img (255 - r) c

/-- display orientation (row 0 on top) of a tile stored in a format with vertical parity sign `sign`
(`+1`: FITS, stored bottom-up; `-1`: png/jpg/npy, stored top-down) -/
def display (sign : Int) (img : Img) : Img := if sign = 1 then flip256 img else img

def slicesFor (sign : Int) : List (Nat × Nat × Nat × Nat) :=
  if sign = 1 then Gen.Merge.slices_for_pos else Gen.Merge.slices_for_neg

/-- the loop of `walk_callback`: the (cleared) 512×512 buffer is updated with every present child
through whole-image indexers into the buffer region the table gives for that child -/
def mosaic (m : ModeSem) (tab : List (Nat × Nat × Nat × Nat)) (ch : Nat → Option Img) : Img :=
  (List.range 4).foldl (fun buf k =>
    match ch k, tab[k]? with
    | some img, some (r0, r1, c0, c1) => update m ⟨sliceFwd r0 0 (r1 - r0), sliceFwd c0 0 (c1 - c0)⟩ buf img
    | _, _ => buf) (clear m)

/-- a merger following the Merger Protocol with a 2×2 block function `g` -/
def merged (g : Px → Px → Px → Px → Px) (buf : Img) : Img :=
  fun i j => g (buf (2 * i) (2 * j)) (buf (2 * i) (2 * j + 1)) (buf (2 * i + 1) (2 * j)) (buf (2 * i + 1) (2 * j + 1))

/-- the four child files → what the callback leaves at the parent's position (`none` = no file): when all four
children are missing, any file left there earlier is removed (`Gen.Merge.cb_removes_stale_and_returns_when_all_missing`;
before the repair 3bfca95 it was left in place); otherwise `write_image` of the merged tile -/
def callback (m : ModeSem) (sign : Int) (g : Px → Px → Px → Px → Px) (ch : Nat → Option Img) (old : File) : File :=
  if (ch 0).isNone && (ch 1).isNone && (ch 2).isNone && (ch 3).isNone then
    (if Gen.Merge.cb_removes_stale_and_returns_when_all_missing then none else old)
  else writeImage m old (merged g (mosaic m (slicesFor sign) ch))

/-- one pixel of the mosaic in terms of the child that covers it -/
def cell (m : ModeSem) (o : Option Img) (r c : Nat) : Px :=
  match o with
  | some img => m.updatePx m.clearPx (img r c)
  | none => m.clearPx

/-- the displayed 512×512 mosaic: child `(2x+ix, 2y+iy)` — index `2·iy + ix` — occupies quadrant
row-half `iy`, column-half `ix`, each child in display orientation -/
def displayMosaic (m : ModeSem) (sign : Int) (ch : Nat → Option Img) : Img :=
  fun R C => cell m ((ch (2 * (R / 256) + C / 256)).map (display sign)) (R % 256) (C % 256)

/-! ### the averaging merger on abstract pixels -/

/-- integer / colour channel: mean of the four stored values, truncated (values are non-negative) -/
def avgInt (a b c d : Ch) : Ch :=
  match a, b, c, d with
  | some a, some b, some c, some d => some ((a + b + c + d) / 4)
  | _, _, _, _ => none

/-- float channel: `nanmean` — NaN iff all four are NaN; otherwise `mean` of the non-NaN ones
(`mean` is a parameter: the payloads are abstract) -/
def avgFloat (mean : List Int → Int) (a b c d : Ch) : Ch :=
  let vals := [a, b, c, d].filterMap id
  if vals.isEmpty then none else some (mean vals)

def zip4 (f : Ch → Ch → Ch → Ch → Ch) : Px → Px → Px → Px → Px
  | a :: as, b :: bs, c :: cs, d :: ds => f a b c d :: zip4 f as bs cs ds
  | _, _, _, _ => []

/-! ### whole cascades -/

/-- specification: the tile at `p` as a function of the leaf tiles only (fuel = `depth - p.n`) -/
def spec (m : ModeSem) (sign : Int) (g : Px → Px → Px → Px → Px) (leaves : Pos → File) : Nat → Pos → File
  | 0, p => leaves p
  | f + 1, p => callback m sign g (fun k => spec m sign g leaves f (p.child k)) none

/-- the file system during a cascade: one file per position -/
abbrev FS := Pos → File

/-- run the callback at `p` against the current files -/
def step (m : ModeSem) (sign : Int) (g : Px → Px → Px → Px → Px) (fs : FS) (p : Pos) : FS :=
  fun q => if q = p then callback m sign g (fun k => fs (p.child k)) (fs p) else fs q

def run (m : ModeSem) (sign : Int) (g : Px → Px → Px → Px → Px) (fs : FS) (order : List Pos) : FS :=
  order.foldl (step m sign g) fs

end Cascade
