/-
Per-pixel value domain shared by the generated mask semantics (`Gen/Masks.lean`) and the pixel
models.  A channel is `none` (NaN) or `some v` with an abstract payload `v : Int` (for the integer
modes the payload is the value itself; for floats it stands for an arbitrary non-NaN number — only
identity and NaN-ness matter).
-/
import ToastyVerif.Basic

namespace PixelBase

abbrev Ch := Option Int
abbrev Px := List Ch

/-- numpy `x != 0` on a channel (`nan != 0` is true) -/
def chNe0 : Ch → Bool
  | none => true
  | some v => v != 0

/-- `np.putmask(b, m, s)` on one pixel's channel vector -/
def putmask : Px → List Bool → Px → Px
  | b :: bs, m :: ms, s :: ss => (if m then s else b) :: putmask bs ms ss
  | bs, _, _ => bs

/-- `np.maximum` on integer channels -/
def chMax : Ch → Ch → Ch
  | some a, some b => some (max a b)
  | _, _ => none

def chMaxV : Px → Px → Px
  | b :: bs, s :: ss => chMax b s :: chMaxV bs ss
  | bs, _ => bs

end PixelBase
