/-
Point lookup (`toast_tile_for_point`), the part that is decision logic.

Longitudes are exact rationals in *turns* (2π = 1): the level-1 rules compare the longitude with
0, π/2, π, 3π/2, 2π, extracted into `Gen.Lookup.level1_rules` as 0, 1/4, 1/2, 3/4, 1.  Below level 1
the code chooses among the four children by containment scores — floating-point geometry — and the
model takes the scores as given (`Toast.pick`, `Toast.lookup`).
-/
import ToastyVerif.Gen.Lookup
import ToastyVerif.Model.Toast

namespace Lookup
open Toast ToastBase

abbrev Rule := Bool × Rat × Bool × Rat × Nat × Nat

def ruleMatches (r : Rule) (lon : Rat) (x y : Nat) : Bool :=
  (if r.1 then decide (r.2.1 ≤ lon) else decide (r.2.1 < lon)) &&
  (if r.2.2.1 then decide (lon ≤ r.2.2.2.1) else decide (lon < r.2.2.2.1)) &&
  (x == r.2.2.2.2.1) && (y == r.2.2.2.2.2)

/-- `_toast_tile_containment_score(tile, lat, lon)` for a level-1 tile at `(x, y)` -/
def score1 (lon : Rat) (x y : Nat) : Int :=
  if Gen.Lookup.level1_rules.any (fun r => ruleMatches r lon x y) then 0 else Gen.Lookup.level1_default

/-- `lon % TWOPI` -/
def norm (lon : Rat) : Rat := ratMod lon 1

/-- the longitude handed to the level-1 test -/
def level1Lon (pl : Bool) (lon : Rat) : Rat :=
  if pl then ratMod (lon + Gen.Lookup.planetary_level1_shift) 1 else lon

/-- `for tile in tiles: if score == 0: break` — index of the tile the loop variable is left at -/
def firstZero (scores : List Int) : Nat :=
  match scores.findIdx? (· == 0) with
  | some i => i
  | none => scores.length - 1

/-- index, in the order of `_create_level1_tiles`, of the level-1 tile `toast_tile_for_point` starts from -/
def selectLevel1 (pl : Bool) (lonRaw : Rat) : Nat :=
  let l1 := level1Lon pl (norm lonRaw)
  firstZero ((level1Table pl).map (fun r => score1 l1 r.1.1 r.1.2))

/-- longitude of an equatorial vertex, in turns -/
def vtxLon : Vtx → Option Rat
  | .E0 => some 0 | .E90 => some (1/4) | .E180 => some (1/2) | .E270 => some (3/4)
  | .N => none | .S => none

/-- the longitude interval `[lo, hi]` (in turns, within `[0, 1]`) spanned by the two equatorial corners of a level-1 tile -/
def lonRange (c : Vtx × Vtx × Vtx × Vtx) : Option (Rat × Rat) :=
  match [c.1, c.2.1, c.2.2.1, c.2.2.2].filterMap vtxLon with
  | [a, b] =>
    let lo := min a b
    let hi := max a b
    if hi - lo = 1/4 then some (lo, hi)
    else if lo = 0 ∧ hi = 3/4 then some (3/4, 1)
    else none
  | _ => none

/-- the clipped edge sum of `_toast_tile_containment_score` on given edge values -/
def clippedSum (d : List Rat) : Rat := (d.map (fun v => min v 0)).sum

end Lookup
