/-
TOAST tile geometry over an abstract point type `P` with an abstract midpoint operation `mid`.

What the code computes on floats (`_libtoasty._mid`) is here a parameter, so that everything that
is *structure* — which corners are midpoints of which, which child sits where, which array slot a
recursive call fills — is stated and proved for every midpoint operation at once.  The subdivision
tables (`Gen.Toast.div4_*`, `sub4_*`, `level1_*`) are re-extracted from `toasty/toast.py` and from
the text of `toasty/_libtoasty.pyx` on every run (the real functions executed on symbolic points).

Routes modelled (each compared with the real code run on symbolic points, harness c04/c05):
  * `single`      — `create_single_tile` (loop over bits, most significant first)
  * `generate`    — `generate_tiles_filtered` / `_postfix_corner`
  * `descend`     — the descent of `toast_tile_for_point` for an arbitrary sequence of choices
  * `subsample`   — `_libtoasty._subsample` (recursive quadrant filling)
-/
import ToastyVerif.Gen.Toast
import ToastyVerif.Model.Pyramid

namespace Toast
open ToastBase

structure Quad (P : Type) where
  ul : P
  ur : P
  lr : P
  ll : P
deriving DecidableEq, Repr

structure Tile (P : Type) where
  pos : Pos
  q : Quad P
  inc : Bool
deriving DecidableEq, Repr

section
variable {P : Type}

def evalCE (mid : P → P → P) (q : Quad P) : CE → P
  | .ul => q.ul
  | .ur => q.ur
  | .lr => q.lr
  | .ll => q.ll
  | .mid a b => mid (evalCE mid q a) (evalCE mid q b)

def applyRow (mid : P → P → P) (q : Quad P) (r : CE × CE × CE × CE) : Quad P :=
  ⟨evalCE mid q r.1, evalCE mid q r.2.1, evalCE mid q r.2.2.1, evalCE mid q r.2.2.2⟩

def idRow : CE × CE × CE × CE := (.ul, .ur, .lr, .ll)

def div4Table (inc : Bool) : List (CE × CE × CE × CE) :=
  if inc then Gen.Toast.div4_inc else Gen.Toast.div4_dec

def sub4Table (inc : Bool) : List (CE × CE × CE × CE) :=
  if inc then Gen.Toast.sub4_inc else Gen.Toast.sub4_dec

def subCentre (inc : Bool) : CE :=
  if inc then Gen.Toast.sub_centre_inc else Gen.Toast.sub_centre_dec

/-- corners of child `k` (order of `pos_children`) of a quad, `toast._div4` -/
def childQuad (mid : P → P → P) (inc : Bool) (q : Quad P) (k : Nat) : Quad P :=
  applyRow mid q ((div4Table inc).getD k idRow)

/-- `toast._div4` -/
def div4 (mid : P → P → P) (t : Tile P) : List (Tile P) :=
  [0, 1, 2, 3].map (fun k => ⟨t.pos.child k, childQuad mid t.inc t.q k, t.inc⟩)

/-- coordinate system: `false` = astronomical, `true` = planetary -/
def level1Table (planetary : Bool) : List ((Nat × Nat) × (Vtx × Vtx × Vtx × Vtx) × Bool) :=
  if planetary then Gen.Toast.level1_planetary else Gen.Toast.level1_astronomical

/-- `_create_level1_tiles` -/
def level1 (vtx : Vtx → P) (planetary : Bool) : List (Tile P) :=
  (level1Table planetary).map (fun r =>
    ⟨⟨1, r.1.1, r.1.2⟩, ⟨vtx r.2.1.1, vtx r.2.1.2.1, vtx r.2.1.2.2.1, vtx r.2.1.2.2.2⟩, r.2.2⟩)

def dummy (vtx : Vtx → P) : Tile P := ⟨⟨0, 0, 0⟩, ⟨vtx .N, vtx .N, vtx .N, vtx .N⟩, false⟩

/-! ### Route 1: `create_single_tile` -/

/-- the `while True` loop of `create_single_tile`; `cur` is `cur_n` before the increment -/
def singleLoop (mid : P → P → P) (n x y : Nat) : Nat → Nat → List (Tile P) → Option (Tile P)
  | 0, _, _ => none
  | fuel + 1, cur, children =>
    let cur := cur + 1
    let ix := (x >>> (n - cur)) &&& 1
    let iy := (y >>> (n - cur)) &&& 1
    match children[iy * 2 + ix]? with
    | none => none
    | some t => if cur = n then some t else singleLoop mid n x y fuel cur (div4 mid t)

/-- `create_single_tile(pos, coordsys)`; `none` = ValueError (n = 0) -/
def single (mid : P → P → P) (vtx : Vtx → P) (planetary : Bool) (p : Pos) : Option (Tile P) :=
  if p.n = 0 then none else singleLoop mid p.n p.x p.y p.n 0 (level1 vtx planetary)

/-! ### The specification: the tile at a position, by recursion on the level -/

def tileAt (mid : P → P → P) (vtx : Vtx → P) (planetary : Bool) : Nat → Nat → Nat → Tile P
  | 0, _, _ => dummy vtx
  | 1, x, y => (level1 vtx planetary).getD ((y % 2) * 2 + x % 2) (dummy vtx)
  | n + 2, x, y =>
    (div4 mid (tileAt mid vtx planetary (n + 1) (x / 2) (y / 2))).getD ((y % 2) * 2 + x % 2) (dummy vtx)

/-! ### Route 2/3: `generate_tiles` / `generate_tiles_filtered` -/

/-- `_postfix_corner(tile, depth, filter, bottom_only)` -/
def postfixCorner (mid : P → P → P) (filter : Tile P → Bool) (bottomOnly : Bool) (depth : Nat) :
    Nat → Tile P → List (Tile P)
  | 0, _ => []
  | fuel + 1, t =>
    if t.pos.n > depth then []
    else if t.pos.n > 1 ∧ filter t = false then []
    else
      (div4 mid t).flatMap (postfixCorner mid filter bottomOnly depth fuel)
        ++ (if t.pos.n = depth ∨ bottomOnly = false then [t] else [])

/-- `generate_tiles_filtered(depth, filter, bottom_only, coordsys)` -/
def generate (mid : P → P → P) (vtx : Vtx → P) (planetary : Bool) (filter : Tile P → Bool)
    (bottomOnly : Bool) (depth : Nat) : List (Tile P) :=
  ((level1 vtx planetary).filter filter).flatMap (postfixCorner mid filter bottomOnly depth (depth + 1))

/-! ### Route 4: the descent of `toast_tile_for_point` -/

/-- `toast_tile_for_point` with the level-1 tile `t1` already chosen and the index of the child
taken at each later level supplied by `choose` (in the code: first zero score, else the largest) -/
def descend (mid : P → P → P) (choose : Tile P → Nat) : Nat → Tile P → Tile P
  | 0, t => t
  | k + 1, t => descend mid choose k ((div4 mid t).getD (choose t % 4) t)

/-- the `for child in _div4(tile)` loop of `toast_tile_for_point` on the four containment scores:
a score of exactly 0 wins at once; otherwise the first child with the largest score so far
(`best_score` starts at −∞ = `none`) -/
def pickGo : List Int → Nat → Nat → Option Int → Nat
  | [], _, cur, _ => cur
  | s :: r, i, cur, best =>
    if s = 0 then i
    else match best with
      | none => pickGo r (i + 1) i (some s)
      | some b => if s > b then pickGo r (i + 1) i (some s) else pickGo r (i + 1) cur best

def pick (scores : List Int) : Nat := pickGo scores 0 0 none

/-- the descent with the scores of the four children given per level (`scores t` for the children of `t`) -/
def lookup (mid : P → P → P) (scores : Tile P → List Int) (k : Nat) (t1 : Tile P) : Tile P :=
  descend mid (fun t => pick (scores t)) k t1

/-! ### `_libtoasty._subsample` -/

/-- value written at row `i`, column `j` of the `2^k × 2^k` output arrays -/
def subsample (mid : P → P → P) (inc : Bool) : Nat → Quad P → Nat → Nat → P
  | 0, q, _, _ => evalCE mid q (subCentre inc)
  | k + 1, q, i, j =>
    let h := 2 ^ k
    let r := (if i < h then 0 else 2) + (if j < h then 0 else 1)
    subsample mid inc k (applyRow mid q ((sub4Table inc).getD r idRow)) (i % h) (j % h)

/-- `_level0_coords`: the level-0 tile is the four level-1 tiles sampled at 128 × 128 -/
def level0Coords (mid : P → P → P) (vtx : Vtx → P) (planetary : Bool) (k : Nat) (i j : Nat) : P :=
  let h := 2 ^ k
  let t := (level1 vtx planetary).getD ((i / h) * 2 + j / h) (dummy vtx)
  subsample mid t.inc k t.q (i % h) (j % h)

/-! ### The global vertex grid -/

/-- diagonal orientation of the tiles of a level-1 quadrant: (0,0) and (1,1) increasing -/
def incOf (n x y : Nat) : Bool := (x >>> (n - 1)) == (y >>> (n - 1))

/-- the documented layout of the square at level 1: rows top to bottom, columns left to right -/
def grid1 (planetary : Bool) : Nat → Nat → Vtx
  | 0, 0 => .S
  | 1, 0 => if planetary then .E270 else .E90
  | 2, 0 => .S
  | 0, 1 => if planetary then .E0 else .E180
  | 1, 1 => .N
  | 2, 1 => if planetary then .E180 else .E0
  | 0, 2 => .S
  | 1, 2 => if planetary then .E90 else .E270
  | _, _ => .S

/-- vertex `(i, j)` (column, row; `0 ≤ i, j ≤ 2^n`) of the level-`n` grid -/
def V (mid : P → P → P) (vtx : Vtx → P) (planetary : Bool) : Nat → Nat → Nat → P
  | 0, _, _ => vtx .S
  | 1, i, j => vtx (grid1 planetary i j)
  | n + 2, i, j =>
    let a := i / 2
    let b := j / 2
    let W := V mid vtx planetary (n + 1)
    if i % 2 = 0 then
      if j % 2 = 0 then W a b else mid (W a (b + 1)) (W a b)
    else
      if j % 2 = 0 then mid (W a b) (W (a + 1) b)
      else if incOf (n + 1) a b then mid (W a (b + 1)) (W (a + 1) b) else mid (W a b) (W (a + 1) (b + 1))

def cell (mid : P → P → P) (vtx : Vtx → P) (planetary : Bool) (n x y : Nat) : Quad P :=
  ⟨V mid vtx planetary n x y, V mid vtx planetary n (x + 1) y,
   V mid vtx planetary n (x + 1) (y + 1), V mid vtx planetary n x (y + 1)⟩

end

/-! ### The free algebra: terms, for comparing the model with the code run on symbolic points -/

inductive Term where
  | v (x : Vtx)
  | m (a b : Term)
deriving DecidableEq, Repr

def vtxName : Vtx → String
  | .N => "N" | .S => "S" | .E0 => "E0" | .E90 => "E90" | .E180 => "E180" | .E270 => "E270"

def Term.str : Term → String
  | .v x => vtxName x
  | .m a b => "m(" ++ a.str ++ "," ++ b.str ++ ")"

def Quad.str (q : Quad Term) : String :=
  q.ul.str ++ " " ++ q.ur.str ++ " " ++ q.lr.str ++ " " ++ q.ll.str

def Tile.str (t : Tile Term) : String :=
  s!"({t.pos.n},{t.pos.x},{t.pos.y}) {if t.inc then "inc" else "dec"} {t.q.str}"

end Toast
