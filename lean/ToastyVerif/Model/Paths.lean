/-
Tile paths and WTML URL templates (C17).  Paths are `List Char`.
-/
import ToastyVerif.Basic

namespace PathModel

inductive Seg where
  | lit (s : List Char)
  | lvl | x | y | ext
deriving DecidableEq, Repr

/-- decimal digits of `n`, least significant first, with fuel -/
def digitsRevF : Nat → Nat → List Nat
  | 0, _ => []
  | f + 1, n => if n < 10 then [n] else (n % 10) :: digitsRevF f (n / 10)

/-- least-significant-first decimal digits (`n + 1` is always enough fuel) -/
def digitsRev (n : Nat) : List Nat := digitsRevF (n + 1) n

def digitChar (d : Nat) : Char := Char.ofNat (48 + d)

/-- python `str(n)` for a natural number -/
def dec (n : Nat) : List Char := (digitsRev n).reverse.map digitChar

def renderSeg (n x y : Nat) (e : List Char) : Seg → List Char
  | .lit s => s
  | .lvl => dec n
  | .x => dec x
  | .y => dec y
  | .ext => e

/-- the path for tile `(n, x, y)` with extension `e` -/
def render (segs : List Seg) (n x y : Nat) (e : List Char) : List Char :=
  (segs.map (renderSeg n x y e)).flatten

/-- WWT's template expansion: `{1}` → level, `{2}` → x, `{3}` → y; everything else literal -/
def expand (n x y : Nat) : List Char → List Char
  | '{' :: '1' :: '}' :: r => dec n ++ expand n x y r
  | '{' :: '2' :: '}' :: r => dec x ++ expand n x y r
  | '{' :: '3' :: '}' :: r => dec y ++ expand n x y r
  | c :: r => c :: expand n x y r
  | [] => []

/-- a template as segments: used to compare a template with a path builder symbolically -/
def parseTemplate : List Char → List Seg
  | '{' :: '1' :: '}' :: r => .lvl :: parseTemplate r
  | '{' :: '2' :: '}' :: r => .x :: parseTemplate r
  | '{' :: '3' :: '}' :: r => .y :: parseTemplate r
  | c :: r => .lit [c] :: parseTemplate r
  | [] => []

/-- normal form of a segment list: literals exploded into single characters, the extension
substituted -/
def norm (e : List Char) : List Seg → List Seg
  | [] => []
  | .lit s :: r => s.map (fun c => Seg.lit [c]) ++ norm e r
  | .ext :: r => e.map (fun c => Seg.lit [c]) ++ norm e r
  | s :: r => s :: norm e r

end PathModel
