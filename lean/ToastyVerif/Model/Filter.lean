/-
The latitude/longitude bounding-box tile filter (`_libtoasty._tile_intersects_latlon_bbox`) in exact
arithmetic.  `tau` stands for the code's `TWOPI` and `pi` for `np.pi`; latitudes are compared with the
code's pole threshold `poleLat` (1.5707963).  Hand-written from the .pyx text; executed differentially
against the compiled function and the transliterated .pyx (harness c07).
-/
import ToastyVerif.Basic

namespace Filter

structure L4 where
  a : Rat
  b : Rat
  c : Rat
  d : Rat
deriving DecidableEq, Repr

def L4.get (l : L4) : Nat → Rat
  | 0 => l.a | 1 => l.b | 2 => l.c | _ => l.d

def L4.set (l : L4) (i : Nat) (v : Rat) : L4 :=
  match i with
  | 0 => { l with a := v } | 1 => { l with b := v } | 2 => { l with c := v } | _ => { l with d := v }

/-- `_order_pair_1d(arr, i, j)` -/
def orderPair (l : L4) (i j : Nat) : L4 :=
  if l.get i > l.get j then (l.set j (l.get i)).set i (l.get j) else l

/-- the five-comparator sorting network -/
def sort4 (l : L4) : L4 :=
  orderPair (orderPair (orderPair (orderPair (orderPair l 0 2) 1 3) 0 1) 2 3) 1 2

/-- one pass of the `while lons[3] - lons[0] > pi` loop: the smallest longitude goes up by a turn and is
re-inserted in order (the `for … else` loop) -/
def shuffleStep (tau : Rat) (l : L4) : L4 :=
  let u := l.a + tau
  if l.b > u then ⟨u, l.b, l.c, l.d⟩
  else if l.c > u then ⟨l.b, u, l.c, l.d⟩
  else if l.d > u then ⟨l.b, l.c, u, l.d⟩
  else ⟨l.b, l.c, l.d, u⟩

def shuffle (tau pi : Rat) : Nat → L4 → Option L4
  | 0, _ => none
  | f + 1, l => if l.d - l.a > pi then shuffle tau pi f (shuffleStep tau l) else some l

/-- `while tile_lon_min < bbox_lon_min: … += TWOPI` -/
def raiseLoop (tau bmin : Rat) : Nat → Rat × Rat → Option (Rat × Rat)
  | 0, _ => none
  | f + 1, t => if t.1 < bmin then raiseLoop tau bmin f (t.1 + tau, t.2 + tau) else some t

/-- `while tile_lon_min - bbox_lon_min > TWOPI: … -= TWOPI` -/
def lowerLoop (tau bmin : Rat) : Nat → Rat × Rat → Option (Rat × Rat)
  | 0, _ => none
  | f + 1, t => if t.1 - bmin > tau then lowerLoop tau bmin f (t.1 - tau, t.2 - tau) else some t

/-- steps 3 and 4 on an unwrapped tile longitude range -/
def lonOverlap (tau : Rat) (fuel : Nat) (t : Rat × Rat) (bmin bmax : Rat) : Option Bool :=
  match raiseLoop tau bmin fuel t with
  | none => none
  | some t1 => match lowerLoop tau bmin fuel t1 with
    | none => none
    | some t2 => some (decide (t2.1 < bmax) || decide (t2.2 > bmin + tau))

structure BBox where
  lonMin : Rat
  lonMax : Rat
  latMin : Rat
  latMax : Rat

def min4 (l : L4) : Rat := min (min l.a l.b) (min l.c l.d)
def max4 (l : L4) : Rat := max (max l.a l.b) (max l.c l.d)

/-- `_tile_intersects_latlon_bbox(corners, bbox)`; `none` = a loop ran out of fuel -/
def intersects (tau pi poleLat : Rat) (fuel : Nat) (lons lats : L4) (bb : BBox) : Option Bool :=
  let tLatMin := min4 lats
  let tLatMax := max4 lats
  if bb.latMin > tLatMax then some false
  else if bb.latMax < tLatMin then some false
  else if tLatMax > poleLat ∨ tLatMin < -poleLat then some true
  else match shuffle tau pi fuel (sort4 lons) with
    | none => none
    | some l => lonOverlap tau fuel (l.a, l.d) bb.lonMin bb.lonMax

end Filter
