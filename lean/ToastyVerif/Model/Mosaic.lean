/-
Multi-TAN mosaics (`toasty/multi_tan.py`): the global pixelisation and the per-pixel outcome of merging
the inputs into the deepest tiles.  Arithmetic from `Gen.MultiTan` (re-extracted each run), tiling from
`Gen` study tiling (C08), the per-pixel merge from the C15 definitions.
-/
import ToastyVerif.Gen.MultiTan
import ToastyVerif.Gen.Study
import ToastyVerif.Model.Pixels

namespace Mosaic
open PixelBase Pixels

structure Input where
  c1 : Int          -- CRPIX1 − 1
  c2 : Int          -- CRPIX2 − 1
  w : Int
  h : Int
  img : Int → Int → Px     -- pixel (u, v), top-down

def ext (i : Input) : Int × Int × Int × Int := Gen.MultiTan.extent i.c1 i.c2 i.w i.h

/-- the running bounds of `compute_global_pixelization` after the inputs seen so far -/
def extend (b : Int × Int × Int × Int) (i : Input) : Int × Int × Int × Int :=
  (min b.1 (ext i).1, max b.2.1 (ext i).2.1, min b.2.2.1 (ext i).2.2.1, max b.2.2.2 (ext i).2.2.2)

def bounds : List Input → Option (Int × Int × Int × Int)
  | [] => none
  | i :: rest => some (rest.foldl extend (ext i))

/-- offset and size handed to `compute_for_subimage` for input `i` -/
def place (b : Int × Int × Int × Int) (i : Input) : Int × Int × Int × Int :=
  Gen.MultiTan.placement (ext i).1 (ext i).2.1 (ext i).2.2.1 (ext i).2.2.2 b.1 b.2.2.1

def size (b : Int × Int × Int × Int) : Int × Int := Gen.MultiTan.mosaic_size b.1 b.2.1 b.2.2.1 b.2.2.2

/-- does input `i`, placed at `(ox, oy)`, cover mosaic pixel `(gx, gy)`? -/
def coversPx (i : Input) (ox oy gx gy : Int) : Bool :=
  decide (ox ≤ gx) && decide (gx < ox + i.w) && decide (oy ≤ gy) && decide (gy < oy + i.h)

/-- pasting the inputs, in order, into one large image: each pixel is the C15 merge of the pixels the inputs contribute -/
def mosaicPx (m : ModeSem) (b : Int × Int × Int × Int) (ins : List Input) (gx gy : Int) : Px :=
  ins.foldl (fun acc i => if coversPx i (place b i).1 (place b i).2.1 gx gy
    then m.updatePx acc (i.img (gx - (place b i).1) (gy - (place b i).2.1)) else acc) m.clearPx

/-- the content of the deepest-level tiles as a function of (tile x, tile y, pixel x, pixel y), top-down -/
abbrev TileStore := Int → Int → Int → Int → Px

/-- merging one input into the tiles through its sub-tiling `s` (closed form of the rectangle loop: C08 `rects_partition`) -/
def processInput (m : ModeSem) (s : Gen.StudyTiling) (st : TileStore) (i : Input) : TileStore :=
  fun tx ty px py =>
    let u := 256 * tx + px - s.img_gx0
    let v := 256 * ty + py - s.img_gy0
    if 0 ≤ px ∧ px < 256 ∧ 0 ≤ py ∧ py < 256 ∧ 0 ≤ u ∧ u < i.w ∧ 0 ≤ v ∧ v < i.h
    then m.updatePx (st tx ty px py) (i.img u v) else st tx ty px py

/-- the sub-tiling the code computes for input `i` -/
def subTiling (t : Gen.StudyTiling) (b : Int × Int × Int × Int) (i : Input) : Option Gen.StudyTiling :=
  Gen.StudyTiling.compute_for_subimage t (place b i).1 (place b i).2.1 (place b i).2.2.1 (place b i).2.2.2

def processAll (m : ModeSem) (t : Gen.StudyTiling) (b : Int × Int × Int × Int) (st : TileStore) (ins : List Input) : TileStore :=
  ins.foldl (fun acc i => match subTiling t b i with
    | some s => processInput m s acc i
    | none => acc) st

end Mosaic
