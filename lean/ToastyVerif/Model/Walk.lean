/-
Model of `Pyramid._walk_parallel` + `_mp_walk_worker` (C01): a dispatcher that hands "ready" tiles to
workers over one queue, learns of finished tiles over another, keeps a 4-bit readiness mask per
waiting parent and releases a parent when its mask reaches `0xF`.

The state is phase-based: every position is in exactly one phase (waiting, in the ready queue's
buffer or pipe, held by a worker before / during / after its callback, in the done queue's buffer or
pipe, retired).  FIFO order inside the queues is abstracted away (a receive may take any item in the
pipe phase): this over-approximates the real behaviours, so safety proved here holds for them, and
every step `vf/simmp.py` records when it runs the real code is a step of this system (trace replay).

The bit formulas and the release test are `Gen.walk_bit_num`, `Gen.walk_flags_update`,
`Gen.walk_release` (extracted from the source on every run).
-/
import ToastyVerif.Model.Pyramid
import ToastyVerif.Gen.Pyramid

namespace Walk

inductive Phase where
  | waiting
  | rbuf | rpipe                 -- in the ready queue (dispatcher's buffer / shared pipe)
  | have (k : Nat)               -- received by worker k, callback not started
  | running (k : Nat)            -- callback running in worker k
  | ran (k : Nat)                -- callback finished, `done_queue.put` not yet done
  | dbuf (k : Nat) | dpipe       -- in the done queue (worker k's buffer / shared pipe)
  | retired                      -- received by the dispatcher
deriving DecidableEq, Repr

def Phase.rank : Phase → Nat
  | .waiting => 0 | .rbuf => 1 | .rpipe => 2 | .have _ => 3 | .running _ => 4 | .ran _ => 5
  | .dbuf _ => 6 | .dpipe => 7 | .retired => 8

inductive W where
  | notStarted | ready | top | locked | busy | afterEmpty | exited
deriving DecidableEq, Repr

inductive PC where
  | seeding (rest : List Pos)   -- prologue: seeds still to be put on the ready queue
  | starting (k : Nat)
  | idle                        -- top of the dispatch loop
  | dlocked                     -- holds the done queue's reader lock
  | releasing (pp : Pos)        -- a parent reached 0xF: about to `ready_queue.put(ppos)`
  | closing                     -- the apex was reported: about to close the ready queue
  | closed | joined
  | joining (k : Nat)
  | returned
deriving DecidableEq, Repr

inductive Ev where
  | cbBegin (p : Pos) | cbEnd (p : Pos)
deriving DecidableEq, Repr

inductive L where
  | seed (p : Pos)                       -- `ready_queue.put(pos)` in the prologue
  | start (k : Nat) | begin (k : Nat)
  | rflush (p : Pos)                     -- ready-queue feeder
  | dflush (k : Nat) (p : Pos)           -- worker k's done-queue feeder
  | dlock | dempty | drecv (p : Pos)     -- dispatcher polls the done queue
  | release (p : Pos)                    -- `ready_queue.put(ppos)`
  | close | joinThread | setFlag | join (k : Nat)
  | rlock (k : Nat) | rlockTimeout (k : Nat) | rempty (k : Nat) | rrecv (k : Nat) (p : Pos)
  | flagQ (k : Nat) (b : Bool)
  | cbBegin (k : Nat) (p : Pos) | cbEnd (k : Nat) (p : Pos)
  | dput (k : Nat) (p : Pos)
deriving DecidableEq, Repr

structure S where
  n : Nat
  cap : Nat                     -- capacity of the done queue (2 * parallel)
  apex : Pos
  pc : PC
  ph : Pos → Phase
  mask : Pos → Nat
  rlock : Option Nat
  dout : Nat
  flag : Bool
  ws : Nat → W
  log : List Ev

def setPh (s : S) (p : Pos) (f : Phase) : S := { s with ph := fun q => if q = p then f else s.ph q }
def setW (s : S) (k : Nat) (w : W) : S := { s with ws := fun j => if j = k then w else s.ws j }

def lockedByOther (s : S) (k : Nat) : Bool :=
  match s.rlock with
  | some j => j != k
  | none => false

/-- the dispatcher's bookkeeping when tile `p ≠ apex` is reported done: returns the parent and
its new mask -/
def bump (s : S) (p : Pos) : Pos × Nat :=
  (p.parent, Gen.walk_flags_update (s.mask p.parent) (Gen.walk_bit_num (p.x % 2) (p.y % 2)))

def step (s : S) : L → Option S
  | .seed p =>
    match s.pc with
    | .seeding (q :: rest) =>
      if p = q ∧ s.ph p = .waiting then some { setPh s p .rbuf with pc := if rest = [] then .starting 0 else .seeding rest } else none
    | _ => none
  | .start k =>
    if s.pc = .starting k ∧ k < s.n ∧ s.ws k = .notStarted then
      some { setW s k .ready with pc := if k + 1 = s.n then .idle else .starting (k + 1) }
    else none
  | .begin k => if k < s.n ∧ s.ws k = .ready then some (setW s k .top) else none
  | .rflush p => if s.ph p = .rbuf then some (setPh s p .rpipe) else none
  | .dflush k p => if s.ph p = .dbuf k then some (setPh s p .dpipe) else none
  | .dlock => if s.pc = .idle then some { s with pc := .dlocked } else none
  | .dempty => if s.pc = .dlocked then some { s with pc := .idle } else none
  | .drecv p =>
    if s.pc = .dlocked ∧ s.ph p = .dpipe then
      let s1 := { setPh s p .retired with dout := s.dout - 1 }
      if Gen.walk_stop_on_apex ∧ p = s.apex then some { s1 with pc := .closing }
      else
        let (pp, m) := bump s p
        if Gen.walk_release m then some { s1 with pc := .releasing pp, mask := fun q => if q = pp then m else s.mask q }
        else some { s1 with pc := .idle, mask := fun q => if q = pp then m else s.mask q }
    else none
  | .release p => if s.pc = .releasing p ∧ s.ph p = .waiting then some { setPh s p .rbuf with pc := .idle } else none
  | .close => if s.pc = .closing then some { s with pc := .closed } else none
  | .joinThread => if s.pc = .closed then some { s with pc := .joined } else none
  | .setFlag => if s.pc = .joined then some { s with pc := .joining 0, flag := true } else none
  | .join k =>
    if s.pc = .joining k ∧ k < s.n ∧ s.ws k = .exited then
      some { s with pc := if k + 1 = s.n then .returned else .joining (k + 1) }
    else none
  | .rlock k => if k < s.n ∧ s.rlock = none ∧ s.ws k = .top then some { setW s k .locked with rlock := some k } else none
  | .rlockTimeout k => if k < s.n ∧ lockedByOther s k ∧ s.ws k = .top then some (setW s k .afterEmpty) else none
  | .rempty k => if k < s.n ∧ s.rlock = some k ∧ s.ws k = .locked then some { setW s k .afterEmpty with rlock := none } else none
  | .rrecv k p =>
    if k < s.n ∧ s.rlock = some k ∧ s.ws k = .locked ∧ s.ph p = .rpipe then
      some { setPh (setW s k .busy) p (.have k) with rlock := none }
    else none
  | .flagQ k b =>
    if k < s.n ∧ b = s.flag ∧ s.ws k = .afterEmpty then some (setW s k (if b then .exited else .top)) else none
  | .cbBegin k p => if k < s.n ∧ s.ph p = .have k then some { setPh s p (.running k) with log := s.log ++ [.cbBegin p] } else none
  | .cbEnd k p => if k < s.n ∧ s.ph p = .running k then some { setPh s p (.ran k) with log := s.log ++ [.cbEnd p] } else none
  | .dput k p =>
    if k < s.n ∧ s.ph p = .ran k ∧ s.ws k = .busy ∧ (s.cap = 0 ∨ s.dout < s.cap) then
      some { setW (setPh s p (.dbuf k)) k .top with dout := s.dout + 1 }
    else none

/-- the state the prologue leaves: seeds to put, pre-readied masks -/
def init (n cap : Nat) (apex : Pos) (seeds : List Pos) (pre : Pos → Nat) : S :=
  { n := n, cap := cap, apex := apex, pc := if seeds = [] then .starting 0 else .seeding seeds,
    ph := fun _ => .waiting, mask := pre, rlock := none, dout := 0, flag := false,
    ws := fun _ => .notStarted, log := [] }

def run (s : S) : List L → Option S
  | [] => some s
  | l :: ls => match step s l with
    | some s' => run s' ls
    | none => none

/-! ### the prologue of `_walk_parallel`, through the reduction iterator -/

/-- data of the prologue's reduction: `(is_live, ops)` as in the code -/
def fPro : Pos → Bool → (Nat → Bool × Nat) → Bool × Nat := Pyr.fOps

/-- mask computed for a yielded non-leaf tile from its children's data:
`for i in range(4): if not data[i][0]: pre_readied |= 1 << i` -/
def preMask (cd : Nat → Bool × Nat) : Nat :=
  (List.range 4).foldl (fun m i => if (cd i).1 then m else Gen.walk_pre_readied_update m i) 0

structure Prologue where
  seeds : List Pos
  pre : Pos → Nat
  total : Nat

def prologue (depth : Nat) (apex : Pos) (toast : Option (Pos → Bool)) : Except Pyr.RErr Prologue :=
  match Pyr.runRed depth apex (false, 0) fPro (Pyr.generator depth apex toast) (Pyr.RState.init (false, 0)) with
  | .error e => .error e
  | .ok (ys, sf) =>
    let seeds := (ys.filter fun y => Gen.walk_seed_level (y.1.n : Int) (depth : Int) && (fPro y.1 y.2.1 y.2.2).1).map (·.1)
    let masks := (ys.filter fun y => !y.2.1).map fun y => (y.1, preMask y.2.2)
    .ok { seeds := seeds,
          pre := fun p => match masks.find? (fun e => e.1 == p) with
            | some e => e.2
            | none => 0,
          total := sf.final.2 }

end Walk
