/-
Model of toasty/pyramid.py's quadtree positions, post-order generators and the
explicit-stack reduction iterator (`PyramidReductionIterator`).  Core Lean only; executable.

Tie to the code: `Gen/Pyramid.lean` (pos_parent, pos_children, slot formula — re-extracted on
every run and related to these definitions by the bridge lemmas in `Props/C13.lean`) and
differential execution of `genPos`/`genSub`/`genToast`/`runRed` against the real
`generate_pos`, `Pyramid._generator` and `PyramidReductionIterator` (harness c13/c01).
-/
import ToastyVerif.Basic

structure Pos where
  n : Nat
  x : Nat
  y : Nat
deriving DecidableEq, Repr

namespace Pos

def root : Pos := ⟨0, 0, 0⟩
def parent (p : Pos) : Pos := ⟨p.n - 1, p.x / 2, p.y / 2⟩
/-- child `k` in the order of `pos_children`: 0 = (2x,2y), 1 = (2x+1,2y), 2 = (2x,2y+1), 3 = (2x+1,2y+1). -/
def child (p : Pos) (k : Nat) : Pos := ⟨p.n + 1, 2 * p.x + k % 2, 2 * p.y + k / 2⟩
def children (p : Pos) : List Pos := [p.child 0, p.child 1, p.child 2, p.child 3]
/-- index of `p` among its parent's children (`2*iy + ix`) -/
def slot (p : Pos) : Nat := 2 * (p.y % 2) + p.x % 2
def valid (p : Pos) : Prop := p.x < 2 ^ p.n ∧ p.y < 2 ^ p.n
/-- ancestor of `p` at level `k ≤ p.n` -/
def anc (p : Pos) (k : Nat) : Pos := ⟨k, p.x / 2 ^ (p.n - k), p.y / 2 ^ (p.n - k)⟩
def toI (p : Pos) : Int × Int × Int := (p.n, p.x, p.y)

/-- Python `is_subtile(deeper, shallower)` (recursive on the depth difference); `none` = ValueError. -/
def isSubFuel : Nat → Pos → Pos → Option Bool
  | 0, d, s => if d.n < s.n then none else if d.n = s.n then some (d.x = s.x ∧ d.y = s.y) else none
  | f + 1, d, s =>
    if d.n < s.n then none
    else if d.n = s.n then some (d.x = s.x ∧ d.y = s.y)
    else isSubFuel f d.parent s
def isSub (d s : Pos) : Option Bool := isSubFuel d.n d s

end Pos

namespace Pyr
open Pos

/-- `_postfix_pos` with fuel `depth + 1 - p.n`. -/
def postorder : Nat → Pos → List Pos
  | 0, _ => []
  | f + 1, p =>
    postorder f (p.child 0) ++ postorder f (p.child 1) ++ postorder f (p.child 2) ++ postorder f (p.child 3) ++ [p]

/-- `generate_pos(depth)` -/
def genPos (depth : Nat) : List Pos := postorder (depth + 1) Pos.root

/-- chain of proper ancestors of `p`, nearest first, down to the root (the `while True` loop of `_generator`). -/
def ancestorsUp : Nat → Pos → List Pos
  | 0, _ => []
  | f + 1, p => p.parent :: ancestorsUp f p.parent

/-- `Pyramid._generator` for a generic pyramid restricted to the sub-pyramid under `apex`
(`apex.n ≤ depth` is checked by `subpyramid`). -/
def genSub (depth : Nat) (apex : Pos) : List Pos :=
  if apex.n = 0 then genPos depth
  else
    (genPos (depth - apex.n)).map (fun p => ⟨p.n + apex.n, p.x + apex.x * 2 ^ p.n, p.y + apex.y * 2 ^ p.n⟩)
      ++ ancestorsUp apex.n apex

/-- `toast._postfix_corner` (positions only; the filter is a function of the tile, which is a
function of its position — C04), fuel `depth + 1 - p.n`. -/
def postorderT (acc : Pos → Bool) : Nat → Pos → List Pos
  | 0, _ => []
  | f + 1, p =>
    if p.n > 1 ∧ acc p = false then []
    else
      postorderT acc f (p.child 0) ++ postorderT acc f (p.child 1) ++ postorderT acc f (p.child 2)
        ++ postorderT acc f (p.child 3) ++ [p]

def level1 : List Pos := [⟨1, 0, 0⟩, ⟨1, 1, 0⟩, ⟨1, 0, 1⟩, ⟨1, 1, 1⟩]

/-- `Pyramid._generator` for a TOAST pyramid: `generate_tiles_filtered(depth, filter, bottom_only=False)`
followed by the level-0 position. -/
def genToast (depth : Nat) (acc : Pos → Bool) : List Pos :=
  (level1.filter acc).flatMap (postorderT acc depth) ++ [Pos.root]

/-- `_make_position_filter(apex)` -/
def posFilter (apex p : Pos) : Bool :=
  if p.n > apex.n then true else decide (p = apex.anc p.n)

/-! ### The reduction iterator -/

structure Lvl (α : Type) where
  x : Nat
  y : Nat
  data : Nat → α

structure RState (α : Type) where
  len : Nat
  lv : Nat → Lvl α
  active : Bool
  final : α

inductive RErr where
  | assertLen | assertXY | assertParentXY
deriving Repr, DecidableEq

def RState.init {α} (d : α) : RState α :=
  { len := 1, lv := fun _ => ⟨0, 0, fun _ => d⟩, active := true, final := d }

/-- `_ensure_levels(pos)`: when `pos.n ≥ len`, levels `len … pos.n` are (re)created with the
coordinates of `pos`'s ancestors and default data. -/
def ensureLevels {α} (d : α) (s : RState α) (p : Pos) : RState α :=
  if p.n < s.len then s
  else { s with len := p.n + 1,
                lv := fun k => if s.len ≤ k ∧ k ≤ p.n then ⟨(p.anc k).x, (p.anc k).y, fun _ => d⟩ else s.lv k }

/-- one `__next__` + the caller's `set_data(f …)`.
Result: `none` = StopIteration; otherwise the new state and what was yielded. -/
def redStep {α} (depth : Nat) (apex : Pos) (d : α) (f : Pos → Bool → (Nat → α) → α)
    (s : RState α) (p : Pos) : Except RErr (Option (RState α × (Pos × Bool × (Nat → α)))) :=
  if s.active = false then .ok none
  else if p.n < apex.n then .ok none
  else
    let s1 := ensureLevels d s p
    if s1.len ≠ p.n + 1 then .error .assertLen
    else if (s1.lv p.n).x ≠ p.x ∨ (s1.lv p.n).y ≠ p.y then .error .assertXY
    else
      let cd := (s1.lv p.n).data
      let s2 := { s1 with len := p.n }            -- pop
      let isLeaf := decide (p.n = depth)
      let v := f p isLeaf cd
      if p = apex then
        .ok (some ({ s2 with active := false, final := v }, (p, isLeaf, cd)))
      else
        let pp := p.parent
        if (s2.lv pp.n).x ≠ pp.x ∨ (s2.lv pp.n).y ≠ pp.y then .error .assertParentXY
        else
          let l := s2.lv pp.n
          let l' : Lvl α := { l with data := fun k => if k = p.slot then v else l.data k }
          .ok (some ({ s2 with lv := fun k => if k = pp.n then l' else s2.lv k }, (p, isLeaf, cd)))

/-- Drive the iterator over a generator's output. Returns the yields and the final state. -/
def runRed {α} (depth : Nat) (apex : Pos) (d : α) (f : Pos → Bool → (Nat → α) → α) :
    List Pos → RState α → Except RErr (List (Pos × Bool × (Nat → α)) × RState α)
  | [], s => .ok ([], s)
  | p :: ps, s =>
    match redStep depth apex d f s p with
    | .error e => .error e
    | .ok none => .ok ([], { s with active := false })
    | .ok (some (s', y)) =>
      match runRed depth apex d f ps s' with
      | .error e => .error e
      | .ok (ys, sf) => .ok (y :: ys, sf)

/-! ### The three counters and the serial walk, as data functions of the iterator -/

def fLeaf : Pos → Bool → (Nat → Nat) → Nat :=
  fun _ isLeaf data => if isLeaf then 1 else data 0 + data 1 + data 2 + data 3

def fLive : Pos → Bool → (Nat → Nat) → Nat :=
  fun _ isLeaf data =>
    if isLeaf then 1 else
      let c := data 0 + data 1 + data 2 + data 3
      if c ≠ 0 then c + 1 else c

def fOps : Pos → Bool → (Nat → Bool × Nat) → Bool × Nat :=
  fun _ isLeaf data =>
    if isLeaf then (true, 0) else
      let live := (data 0).1 || (data 1).1 || (data 2).1 || (data 3).1
      let ops := (data 0).2 + (data 1).2 + (data 2).2 + (data 3).2
      (live, if live then ops + 1 else ops)

def fWalk : Pos → Bool → (Nat → Bool) → Bool :=
  fun _ isLeaf data => if isLeaf then true else data 0 || data 1 || data 2 || data 3

/-- The generator a `Pyramid` object uses. `toast = none`: generic pyramid. -/
def generator (depth : Nat) (apex : Pos) (toast : Option (Pos → Bool)) : List Pos :=
  match toast with
  | none => genSub depth apex
  | some acc => genToast depth (fun p => (apex.n = 0 || posFilter apex p) && acc p)

/-- serial `walk`: positions the callback is invoked on, in order. -/
def serialWalk (depth : Nat) (apex : Pos) (toast : Option (Pos → Bool)) : Except RErr (List Pos) :=
  match runRed depth apex false fWalk (generator depth apex toast) (RState.init false) with
  | .error e => .error e
  | .ok (ys, _) => .ok ((ys.filter (fun y => !y.2.1 && fWalk y.1 y.2.1 y.2.2)).map (·.1))

/-- serial `visit_leaves`: leaf positions in order. -/
def serialLeaves (depth : Nat) (apex : Pos) (toast : Option (Pos → Bool)) : Except RErr (List Pos) :=
  match runRed depth apex () (fun _ _ _ => ()) (generator depth apex toast) (RState.init ()) with
  | .error e => .error e
  | .ok (ys, _) => .ok ((ys.filter (fun y => y.2.1)).map (·.1))

end Pyr
