/-
Line-protocol driver for the executable models and the generated (`Gen`) definitions.
One request per input line, one canonical answer per line.  Unknown or malformed
requests answer `bad-op` (never a default value).

  lake env lean --run Driver.lean < requests.txt
-/
import ToastyVerif.Driver.Ops

partial def loop (h : IO.FS.Stream) : IO Unit := do
  let line ← h.getLine
  if line.isEmpty then return ()
  let toks := (line.trimAscii.toString.splitOn " ").filter (· ≠ "")
  IO.println (Driver.handle toks)
  loop h

def main : IO Unit := do loop (← IO.getStdin)
