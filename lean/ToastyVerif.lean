import ToastyVerif.Basic
import ToastyVerif.Gen.Pyramid
import ToastyVerif.Gen.Study
