#!/usr/bin/env python3
"""Entry point: python3 check.py <ID> [--tier quick|thorough] [--replay FILE]"""
import os
import sys

sys.path.insert(0, os.path.dirname(os.path.abspath(__file__)))
from vf.runner import main  # noqa: E402

if __name__ == "__main__":
    sys.exit(main())
