"""Runtime / symbolic extraction of tables from the real toasty modules (runs under /venv/bin/python).
Writes lean/ToastyVerif/Gen/Tables.lean and Gen/STATUS_tables.json."""
import json
import os
import sys
import traceback

HERE = os.path.dirname(os.path.abspath(__file__))
GEN_DIR = os.path.normpath(os.path.join(HERE, "..", "..", "lean", "ToastyVerif", "Gen"))

TABLE_MODULES = {}


def main():
    from .gen import write_if_changed, FAILED_MARK
    try:
        from . import tables_more  # noqa: F401  registers TABLE_MODULES
    except ImportError:
        pass
    status = {}
    for mod, fn in TABLE_MODULES.items():
        path = os.path.join(GEN_DIR, mod + ".lean")
        try:
            text = fn()
            status[mod] = {"ok": True}
        except Exception as e:
            err = f"{type(e).__name__}: {e}"
            status[mod] = {"ok": False, "error": err, "trace": traceback.format_exc()[-1500:]}
            text = FAILED_MARK.format(err=err.replace("\n", " "), mod=mod, err1=err.replace('"', "'").replace("\n", " ")[:300])
        status[mod]["changed"] = write_if_changed(path, text)
    with open(os.path.join(GEN_DIR, "STATUS_tables.json"), "w") as f:
        json.dump(status, f, indent=1, sort_keys=True)
    return 0


if __name__ == "__main__":
    from vf.extract import tables as _t  # registry lives in the imported module
    sys.exit(_t.main())
