"""further Gen modules register themselves into gen.MODULES"""
import ast
import re

from .gen import MODULES, HEADER, parse, find_def, ExtractError
from .py2lean import Translator


# ------------------------------------------------------------------ Collection (C20)
def _branch_assigns(stmts):
    out = {}
    for s in stmts:
        if isinstance(s, ast.Assign) and len(s.targets) == 1 and isinstance(s.targets[0], ast.Name):
            out[s.targets[0].id] = s.value
    return out


def _sel_expr(e, env, hdul_ok):
    """Translate the tiny expression language of _scan_hdus' selection branches into Lean.
    env: python source text -> (lean term, type in {'Int','List','OptInt','Str','ListStr','OptStr'})"""
    src = ast.unparse(e)
    if src in env:
        return env[src]
    if isinstance(e, ast.Subscript):
        base, tb = _sel_expr(e.value, env, hdul_ok)
        idx, ti = _sel_expr(e.slice, env, hdul_ok)
        if tb == "Hdul":
            if not hdul_ok:
                raise ExtractError("nested hdul subscript")
            # reading HDU number idx of the file: idx must be an integer (or optional integer)
            if ti == "Int":
                return (f"(some {idx})", "OptInt")
            if ti == "OptInt":
                return (idx, "OptInt")
            # a list used as an index: keep it, Lean will reject the definition (type error) —
            # that is the proof obligation breaking, the harness then searches for the failing input
            return (idx, ti)
        if tb == "List" and ti == "Nat":
            return (f"{base}[{idx}]?", "OptInt")
        if tb == "ListStr" and ti == "Nat":
            return (f"{base}[{idx}]?", "OptStr")
        raise ExtractError(f"unsupported subscript {src}")
    if isinstance(e, ast.Constant) and isinstance(e.value, str):
        return (f"\"{e.value}\"", "Str")
    raise ExtractError(f"unsupported selection expression {src}")


def gen_collection():
    tree = parse("toasty/collection.py")
    fn = find_def(tree, "SimpleFitsCollection._scan_hdus")
    out = HEADER.format(src="toasty/collection.py") + "namespace Gen\nnamespace Scan\n\n"
    # locate the `if isinstance(self._hdu_index, int): ... elif self._hdu_index is not None: ... else: for ...`
    chain = None
    for node in ast.walk(fn):
        if isinstance(node, ast.If) and ast.unparse(node.test) == "isinstance(self._hdu_index, int)":
            chain = node
    if chain is None:
        raise ExtractError("scalar branch of the HDU selection not found")
    if not (len(chain.orelse) == 1 and isinstance(chain.orelse[0], ast.If) and ast.unparse(chain.orelse[0].test) == "self._hdu_index is not None"):
        raise ExtractError("list branch of the HDU selection not found")
    lst = chain.orelse[0]
    sc = _branch_assigns(chain.body)
    li = _branch_assigns(lst.body)
    for br, name in ((sc, "scalar"), (li, "list")):
        if set(br) != {"hdu_index", "hdu"}:
            raise ExtractError(f"{name} branch assigns {sorted(br)}")
    # scalar branch: self._hdu_index : Int
    env = {"self._hdu_index": ("k", "Int"), "hdul": ("hdul", "Hdul"), "path_index": ("i", "Nat")}
    rep, t = _sel_expr(sc["hdu_index"], env, True)
    env2 = dict(env, hdu_index=(rep, t))
    rd, t2 = _sel_expr(sc["hdu"], env2, True)
    out += f"/-- scalar `hdu_index = k`: the index reported for file `i` -/\ndef scalar_reported (k : Int) (i : Nat) : Int := {rep}\n"
    out += f"/-- scalar `hdu_index = k`: the HDU actually read from file `i` -/\ndef scalar_read (k : Int) (i : Nat) : Option Int := {rd}\n\n"
    env = {"self._hdu_index": ("ks", "List"), "hdul": ("hdul", "Hdul"), "path_index": ("i", "Nat")}
    rep, t = _sel_expr(li["hdu_index"], env, True)
    env2 = dict(env, hdu_index=(rep, t))
    rd, t2 = _sel_expr(li["hdu"], env2, True)
    out += f"/-- list `hdu_index = ks`: the index reported for file `i` -/\ndef list_reported (ks : List Int) (i : Nat) : Option Int := {rep}\n"
    out += f"/-- list `hdu_index = ks`: the HDU actually read from file `i` -/\ndef list_read (ks : List Int) (i : Nat) : Option Int := {rd}\n\n"
    # guess branch: for hdu_index, hdu in enumerate(hdul): if COND: break
    if not (len(lst.orelse) == 1 and isinstance(lst.orelse[0], ast.For)):
        raise ExtractError("guess branch is not a single for loop")
    loop = lst.orelse[0]
    if ast.unparse(loop.target) != "(hdu_index, hdu)" or ast.unparse(loop.iter) != "enumerate(hdul)":
        raise ExtractError("guess loop header changed: " + ast.unparse(loop.target) + " in " + ast.unparse(loop.iter))
    if not (len(loop.body) == 1 and isinstance(loop.body[0], ast.If) and len(loop.body[0].body) == 1 and isinstance(loop.body[0].body[0], ast.Break) and not loop.orelse):
        raise ExtractError("guess loop body is not `if COND: break`")
    cond = ast.unparse(loop.body[0].test)
    c2 = cond.replace("hasattr(hdu, 'shape')", "(has_shape != 0)").replace("len(hdu.shape)", "ndim")
    c2 = re.sub(r"type\(hdu\) is not fits\.hdu\.table\.BinTableHDU", "(is_bintable == 0)", c2)
    tr = Translator("Int")
    e = ast.parse(c2, mode="eval").body
    body = tr.cond(e, {"vars": {"has_shape", "ndim", "is_bintable"}, "objs": {}, "poss": set()})
    out += ("/-- guess branch: an HDU is taken (loop `break`s) when this holds; arguments are\n"
            "`hasattr(hdu,'shape')`, `len(hdu.shape)`, `type(hdu) is BinTableHDU` (0/1) -/\n"
            f"def guess_accepts (has_shape ndim is_bintable : Int) : Bool :=\n  decide {body}\n\n")
    # rejection after the selection
    rej = [n for n in ast.walk(fn) if isinstance(n, ast.If) and ast.unparse(n.test) == "type(hdu) is fits.hdu.table.BinTableHDU" and isinstance(n.body[0], ast.Raise)]
    out += f"/-- a selected BinTableHDU is rejected with an exception -/\ndef rejects_bintable : Bool := {'true' if len(rej) == 1 else 'false'}\n\n"
    # WCS key
    wchain = None
    for node in ast.walk(fn):
        if isinstance(node, ast.If) and ast.unparse(node.test) == "isinstance(self._wcs_key, str)":
            wchain = node
    if wchain is None or not (len(wchain.orelse) == 1 and isinstance(wchain.orelse[0], ast.If) and ast.unparse(wchain.orelse[0].test) == "self._wcs_key is not None"):
        raise ExtractError("wcs-key selection chain changed")
    wl = wchain.orelse[0]
    a1, a2, a3 = _branch_assigns(wchain.body), _branch_assigns(wl.body), _branch_assigns(wl.orelse)
    if not (set(a1) == set(a2) == set(a3) == {"wcs_key"}):
        raise ExtractError("wcs-key branches assign something else")
    r1, _ = _sel_expr(a1["wcs_key"], {"self._wcs_key": ("k", "Str"), "path_index": ("i", "Nat")}, False)
    r2, _ = _sel_expr(a2["wcs_key"], {"self._wcs_key": ("ks", "ListStr"), "path_index": ("i", "Nat")}, False)
    r3, _ = _sel_expr(a3["wcs_key"], {}, False)
    out += f"def wcs_scalar (k : String) (i : Nat) : String := {r1}\n"
    out += f"def wcs_list (ks : List String) (i : Nat) : Option String := {r2}\n"
    out += f"def wcs_default : String := {r3}\n\n"
    # the yield and the shared loader
    ys = [n for n in ast.walk(fn) if isinstance(n, ast.Yield)]
    if len(ys) != 1 or ast.unparse(ys[0].value) != "(fits_path, hdu_index, hdu, wcs_key)":
        raise ExtractError("_scan_hdus yield changed")
    cls = None
    for n in tree.body:
        if isinstance(n, ast.ClassDef) and n.name == "SimpleFitsCollection":
            cls = n
    meth = {m.name: m for m in cls.body if isinstance(m, ast.FunctionDef)}
    shared = (ast.unparse(meth["descriptions"].body[-1]) == "return self._load(False)"
              and ast.unparse(meth["images"].body[-1]) == "return self._load(True)")
    loops = [n for n in ast.walk(meth["_load"]) if isinstance(n, ast.For) and ast.unparse(n.iter) == "self._scan_hdus()"]
    shared = shared and len(loops) == 1 and ast.unparse(loops[0].target) == "(fits_path, _hdu_index, hdu, wcs_key)"
    exp = ast.unparse(meth["export_simple"].body[-1]) == "return [(t[0], t[1]) for t in self._scan_hdus()]"
    out += ("/-- `descriptions()` and `images()` are `_load(False)` / `_load(True)`, and `_load` iterates\n`_scan_hdus()` once, using the HDU and key it yields -/\n"
            f"def desc_and_images_share_scan : Bool := {'true' if shared else 'false'}\n"
            f"/-- `export_simple()` lists `(path, hdu_index)` from the same `_scan_hdus()` -/\ndef export_uses_scan : Bool := {'true' if exp else 'false'}\n\n")
    out += "end Scan\nend Gen\n"
    return out


MODULES["Collection"] = gen_collection


# ------------------------------------------------------------------ Parity (C16)
HDR_SYMS = {"CDELT1": "cdelt1", "CDELT2": "cdelt2", "PC1_1": "pc11", "PC1_2": "pc12", "PC2_1": "pc21", "PC2_2": "pc22",
            "CRPIX1": "crpix1", "CRPIX2": "crpix2"}
PC_DEFAULTS = {"PC1_1": 1.0, "PC1_2": 0.0, "PC2_1": 0.0, "PC2_2": 1.0}


def _rat_expr(e, hdr, names):
    """expression over header reads -> Lean Rat term.  hdr: current symbolic header (key -> Lean term)."""
    if isinstance(e, ast.Constant) and isinstance(e.value, (int, float)) and not isinstance(e.value, bool):
        v = e.value
        if float(v) != int(v):
            raise ExtractError(f"non-integral constant {v}")
        return f"({int(v)} : Rat)"
    if isinstance(e, ast.UnaryOp) and isinstance(e.op, ast.USub):
        return f"(-{_rat_expr(e.operand, hdr, names)})"
    if isinstance(e, ast.Name):
        if e.id in names:
            return names[e.id]
        raise ExtractError(f"unknown name {e.id}")
    if isinstance(e, ast.BinOp):
        a, b = _rat_expr(e.left, hdr, names), _rat_expr(e.right, hdr, names)
        op = {ast.Add: "+", ast.Sub: "-", ast.Mult: "*"}.get(type(e.op))
        if op is None:
            raise ExtractError("unsupported operator in header arithmetic")
        return f"({a} {op} {b})"
    if isinstance(e, ast.Subscript) and isinstance(e.value, ast.Name) and e.value.id == "h" and isinstance(e.slice, ast.Constant):
        k = e.slice.value
        if k not in hdr:
            raise ExtractError(f"read of header key {k} which is absent")
        return hdr[k]
    if (isinstance(e, ast.Call) and isinstance(e.func, ast.Attribute) and e.func.attr in ("setdefault", "get")
            and isinstance(e.func.value, ast.Name) and e.func.value.id == "h"):
        k, dflt = e.args[0].value, e.args[1].value
        if PC_DEFAULTS.get(k) != dflt:
            raise ExtractError(f"default of {k} is {dflt}, the FITS standard says {PC_DEFAULTS.get(k)}")
        if k not in hdr:
            raise ExtractError(f"read of header key {k} which is absent")
        return hdr[k]
    raise ExtractError("unsupported header expression " + ast.unparse(e))


def _run_header_fn(fn, names):
    hdr = {k: v for k, v in HDR_SYMS.items()}
    deleted = []
    ret = None
    for s in fn.body:
        if isinstance(s, (ast.ImportFrom, ast.Import)):
            continue
        if isinstance(s, ast.Expr) and isinstance(s.value, ast.Constant):
            continue
        if isinstance(s, ast.Assign) and len(s.targets) == 1:
            t = s.targets[0]
            if isinstance(t, ast.Name) and t.id == "h" and ast.unparse(s.value) == "wcs.to_header()":
                continue
            if isinstance(t, ast.Subscript) and isinstance(t.value, ast.Name) and t.value.id == "h":
                hdr[t.slice.value] = _rat_expr(s.value, hdr, names)
                continue
            if isinstance(t, ast.Name):
                names[t.id] = _rat_expr(s.value, hdr, names)
                continue
        if isinstance(s, ast.AugAssign) and isinstance(s.target, ast.Subscript) and ast.unparse(s.target.value) == "h":
            k = s.target.slice.value
            new = ast.BinOp(left=ast.Subscript(value=ast.Name("h"), slice=ast.Constant(k)), op=s.op, right=s.value)
            hdr[k] = _rat_expr(new, hdr, names)
            continue
        if isinstance(s, ast.For) and ast.unparse(s.target) == "hn" and len(s.body) == 1 and ast.unparse(s.body[0]) == "del h[hn]":
            keys = ast.literal_eval(s.iter.func.value) .split() if isinstance(s.iter, ast.Call) else None
            if keys is None:
                raise ExtractError("deletion loop shape")
            for k in keys:
                hdr.pop(k, None)
                deleted.append(k)
            continue
        if isinstance(s, ast.Return):
            ret = ast.unparse(s.value)
            continue
        if isinstance(s, ast.If):
            return hdr, deleted, ("if", s), names
        raise ExtractError("unsupported statement in header function: " + ast.unparse(s)[:60])
    return hdr, deleted, ret, names


def gen_parity():
    tree = parse("toasty/image.py")
    out = HEADER.format(src="toasty/image.py") + "namespace Gen\nnamespace Parity\n\n"
    args = "(cdelt1 cdelt2 pc11 pc12 pc21 pc22 : Rat)"
    # parity sign
    fn = find_def(tree, "_wcs_to_parity_sign")
    hdr, _del, tail, names = _run_header_fn(fn, {})
    if "det" not in names or not (isinstance(tail, tuple) and tail[0] == "if"):
        raise ExtractError("_wcs_to_parity_sign shape changed")
    ifn = tail[1]
    test = ast.unparse(ifn.test)
    m = re.fullmatch(r"det (<|<=|>|>=) 0", test)
    if not m or not isinstance(ifn.body[0], ast.Return):
        raise ExtractError("parity test changed: " + test)
    after = fn.body[fn.body.index(ifn) + 1]
    r_then, r_else = ast.literal_eval(ast.unparse(ifn.body[0].value)), ast.literal_eval(ast.unparse(after.value))
    sym = {"<": "<", "<=": "≤", ">": ">", ">=": "≥"}[m.group(1)]
    out += f"/-- determinant as computed by `_wcs_to_parity_sign` -/\ndef det {args} : Rat :=\n  {names['det']}\n\n"
    out += f"/-- `_wcs_to_parity_sign` -/\ndef sign {args} : Int :=\n  if det cdelt1 cdelt2 pc11 pc12 pc21 pc22 {sym} 0 then {r_then} else {r_else}\n\n"
    # flip
    fn = find_def(tree, "_flip_wcs_parity")
    hdr, deleted, ret, _n = _run_header_fn(fn, {"image_height": "height"})
    if ret != "WCS(h)":
        raise ExtractError("_flip_wcs_parity no longer returns WCS(h)")
    fargs = "(cdelt1 cdelt2 pc11 pc12 pc21 pc22 crpix1 crpix2 height : Rat)"
    for k in ("CD1_1", "CD1_2", "CD2_1", "CD2_2", "CRPIX1", "CRPIX2"):
        if k not in hdr:
            raise ExtractError(f"flipped header lacks {k}")
        out += f"def flip_{k.lower()} {fargs} : Rat :=\n  {hdr[k]}\n\n"
    leftover = sorted(k for k in hdr if k.startswith(("PC", "CDELT")))
    out += f"/-- PC/CDELT keywords still present next to the CD matrix in the flipped header (must be none) -/\ndef flip_leftover : List String := {json_list(leftover)}\n\n"
    # row reversal in Image.flip_parity, and the height handed to the WCS flip
    for cls in ("Image", "ImageDescription"):
        m = find_def(tree, f"{cls}.flip_parity")
        src = ast.unparse(m)
        hcall = "_flip_wcs_parity(self._wcs, self.height)" if cls == "Image" else "_flip_wcs_parity(self.wcs, self.height)"
        out += f"def {cls.lower()}_flip_uses_height : Bool := {'true' if hcall in src else 'false'}\n"
    rows = "self._array = self.asarray()[::-1]" in ast.unparse(find_def(tree, "Image.flip_parity"))
    out += f"/-- `Image.flip_parity` replaces the array by `asarray()[::-1]` (rows reversed) -/\ndef image_flip_reverses_rows : Bool := {'true' if rows else 'false'}\n"
    fbody = [ast.unparse(x) for x in find_def(tree, "Image.flip_parity").body if not (isinstance(x, ast.Expr) and isinstance(x.value, ast.Constant))]
    forgets = (fbody[-3:] == ["self._array = self.asarray()[::-1]", "self._pil = None", "return self"])
    out += ("/-- after reversing the array `Image.flip_parity` forgets the PIL object the image was loaded from (`self._pil = None`), so that\n"
            "`aspil()`, `save()` to a PIL format and the thumbnail are produced from the reversed array (before the repair a6b180b they kept the\n"
            f"original row order) -/\ndef image_flip_forgets_pil : Bool := {'true' if forgets else 'false'}\n")
    for cls in ("Image", "ImageDescription"):
        m = find_def(tree, f"{cls}.ensure_negative_parity")
        ok = ast.unparse(m.body[-2]) == "if self.get_parity_sign() == 1:\n    self.flip_parity()"
        out += f"def {cls.lower()}_ensure_flips_iff_positive : Bool := {'true' if ok else 'false'}\n"
    out += "\nend Parity\nend Gen\n"
    return out


def json_list(xs):
    return "[" + ", ".join('"%s"' % x for x in xs) + "]"


MODULES["Parity"] = gen_parity


# ------------------------------------------------------------------ Samplers (C11)
ANGLE_CONSTS = {"TWOPI": "(1 : Rat)", "HALFPI": "((1 : Rat) / 4)", "np.pi": "((1 : Rat) / 2)"}


class RatTr:
    """Expressions of the plate-carree samplers, with angles measured in turns (TWOPI = 1)."""

    def __init__(self):
        self.ty = {}

    def expr(self, e, want="Rat"):
        src = ast.unparse(e)
        if src in ANGLE_CONSTS:
            return ANGLE_CONSTS[src], "Rat"
        if isinstance(e, ast.Constant):
            v = e.value
            if isinstance(v, bool) or not isinstance(v, (int, float)):
                raise ExtractError(f"constant {v!r}")
            from fractions import Fraction
            f = Fraction(v).limit_denominator(1 << 20)
            if float(f) != float(v):
                raise ExtractError(f"inexact constant {v!r}")
            if isinstance(v, int):
                return (f"({v} : Int)" if v >= 0 else f"(-{-v} : Int)"), "Int"
            return f"(({f.numerator} : Rat) / {f.denominator})", "Rat"
        if isinstance(e, ast.Name):
            if e.id not in self.ty:
                raise ExtractError(f"unknown name {e.id}")
            return e.id, self.ty[e.id]
        if isinstance(e, ast.UnaryOp) and isinstance(e.op, ast.USub):
            a, t = self.expr(e.operand)
            return f"(-{a})", t
        if isinstance(e, ast.BinOp):
            a, ta = self.expr(e.left)
            b, tb = self.expr(e.right)
            if isinstance(e.op, ast.Div) or "Rat" in (ta, tb):
                a, b = self.cast(a, ta), self.cast(b, tb)
                t = "Rat"
            else:
                t = "Int"
            if isinstance(e.op, ast.Add):
                return f"({a} + {b})", t
            if isinstance(e.op, ast.Sub):
                return f"({a} - {b})", t
            if isinstance(e.op, ast.Mult):
                return f"({a} * {b})", t
            if isinstance(e.op, ast.Div):
                return f"({a} / {b})", "Rat"
            if isinstance(e.op, ast.Mod):
                if t != "Rat":
                    raise ExtractError("integer % in sampler")
                return f"(ratMod {a} {b})", "Rat"
            raise ExtractError("operator " + type(e.op).__name__)
        if isinstance(e, ast.Call):
            f = ast.unparse(e.func)
            if f.endswith(".astype") and ast.unparse(e.args[0]) == "int" and isinstance(e.func.value, ast.Call) and ast.unparse(e.func.value.func) == "np.round":
                a, t = self.expr(e.func.value.args[0])
                return f"(roundHE {self.cast(a, t)})", "Int"
            if f == "np.clip":
                a, ta = self.expr(e.args[0])
                lo, tl = self.expr(e.args[1])
                hi, th = self.expr(e.args[2])
                if (ta, tl, th) != ("Int", "Int", "Int"):
                    raise ExtractError("clip on non-integers")
                return f"(clipI {a} {lo} {hi})", "Int"
        raise ExtractError("sampler expression " + src)

    @staticmethod
    def cast(a, t):
        return a if t == "Rat" else f"(({a} : Int) : Rat)"


SAMPLERS = [
    ("sky", "plate_carree_sampler", False),
    ("zeroright", "plate_carree_zeroright_sampler", False),
    ("planet", "plate_carree_planet_sampler", False),
    ("zeroleft", "plate_carree_planet_zeroleft_sampler", False),
    ("galactic", "plate_carree_galactic_sampler", ("gal", "Galactic", "l", "b")),
    ("ecliptic", "plate_carree_ecliptic_sampler", ("ecl", "Ecliptic", "lon", "lat")),
]


def gen_samplers():
    tree = parse("toasty/samplers.py")
    out = HEADER.format(src="toasty/samplers.py") + (
        "/-! Angles are measured in *turns*: the code's `TWOPI`, `np.pi`, `HALFPI` become 1, 1/2, 1/4.\n"
        "Every expression below is homogeneous in the angle unit, so this is a change of units, not of meaning. -/\n\nnamespace Gen\nnamespace Sampler\n\n")
    for short, fname, rotated in SAMPLERS:
        fn = find_def(tree, fname)
        tr = RatTr()
        tr.ty = {"nx": "Int", "ny": "Int"}
        lets = []
        inner = None
        for s in fn.body:
            if isinstance(s, ast.Expr) and isinstance(s.value, ast.Constant):
                continue
            if isinstance(s, (ast.Import, ast.ImportFrom)):
                continue
            if isinstance(s, ast.Assign) and ast.unparse(s) in ("data = np.asarray(data)", "(ny, nx) = data.shape[:2]", "ny, nx = data.shape[:2]"):
                continue
            if isinstance(s, ast.Assign) and isinstance(s.targets[0], ast.Name):
                v, t = tr.expr(s.value)
                tr.ty[s.targets[0].id] = t
                lets.append((s.targets[0].id, t, v))
                continue
            if isinstance(s, ast.FunctionDef):
                inner = s
                continue
            if isinstance(s, ast.Return) and inner is not None and ast.unparse(s.value) == inner.name:
                continue
            raise ExtractError(f"{fname}: unexpected statement {ast.unparse(s)[:60]}")
        if inner is None or [a.arg for a in inner.args.args] != ["lon", "lat"]:
            raise ExtractError(f"{fname}: inner sampler function changed")
        tr.ty["lon"] = "Rat"
        tr.ty["lat"] = "Rat"
        body = list(inner.body)
        rot = False
        if rotated:
            var, frame, la, lb = rotated
            a, b = ast.unparse(body[0]), ast.unparse(body[1])
            a_ok = a in (f"{var} = ICRS(lon * u.rad, lat * u.rad).transform_to({frame})", f"{var} = ICRS(lon * u.rad, lat * u.rad).transform_to({frame}())")
            b_ok = b in (f"(lon, lat) = ({var}.{la}.rad, {var}.{lb}.rad)", f"lon, lat = ({var}.{la}.rad, {var}.{lb}.rad)")
            if not (a_ok and b_ok):
                raise ExtractError(f"{fname}: rotation prologue changed: {a} / {b}")
            body = body[2:]
            rot = True
        for s in body:
            if isinstance(s, ast.Assign) and isinstance(s.targets[0], ast.Name):
                v, t = tr.expr(s.value)
                tr.ty[s.targets[0].id] = t
                lets.append((s.targets[0].id, t, v))
                continue
            if isinstance(s, ast.Return):
                if ast.unparse(s.value) != "data[iy, ix]":
                    raise ExtractError(f"{fname}: returns {ast.unparse(s.value)}")
                continue
            raise ExtractError(f"{fname}: unexpected statement {ast.unparse(s)[:60]}")
        if tr.ty.get("ix") != "Int" or tr.ty.get("iy") != "Int":
            raise ExtractError(f"{fname}: indices are not rounded to integers")
        text = f"/-- `{fname}`: `(iy, ix)` used to index the map" + (f" (after the ICRS→{rotated[1]} rotation, which is applied to `lon`, `lat` first)" if rot else "") + " -/\n"
        text += f"def {short} (nx ny : Int) (lon lat : Rat) : Int × Int :=\n"
        for (n, t, v) in lets:
            text += f"  let {n} : {t} := {v}\n"
        text += "  (iy, ix)\n\n"
        out += text
    out += "end Sampler\nend Gen\n"
    return out


MODULES["Samplers"] = gen_samplers


# ------------------------------------------------------------------ Publish (C18)
def _list_expr(e, env):
    """expressions over a python list of strings -> Lean (term, type)"""
    if isinstance(e, ast.Constant) and isinstance(e.value, str):
        return f"\"{e.value}\"", "Str"
    if isinstance(e, ast.Constant) and isinstance(e.value, int):
        return f"({e.value} : Int)", "Int"
    if isinstance(e, ast.UnaryOp) and isinstance(e.op, ast.USub) and isinstance(e.operand, ast.Constant):
        return f"(-{e.operand.value} : Int)", "Int"
    if isinstance(e, ast.Name):
        if e.id not in env:
            raise ExtractError(f"unknown name {e.id}")
        return e.id, env[e.id]
    if isinstance(e, ast.Subscript):
        b, tb = _list_expr(e.value, env)
        i, ti = _list_expr(e.slice, env)
        if tb != "List":
            raise ExtractError("subscript of non-list")
        if ti == "Nat":
            i = f"(({i} : Nat) : Int)"
        elif ti != "Int":
            raise ExtractError("bad index type")
        return f"(pyGet {b} {i})", "Str"
    raise ExtractError("list expression " + ast.unparse(e))


def _list_block(stmts, env, lst):
    out = ""
    for s in stmts:
        if isinstance(s, ast.Pass):
            continue
        if isinstance(s, ast.Assign) and len(s.targets) == 1:
            t = s.targets[0]
            v, tv = _list_expr(s.value, env)
            if isinstance(t, ast.Name):
                env[t.id] = tv
                out += f"    let {t.id} := {v}\n"
                continue
            if isinstance(t, ast.Subscript) and isinstance(t.value, ast.Name) and env.get(t.value.id) == "List" and tv == "Str":
                i, ti = _list_expr(t.slice, env)
                if ti == "Nat":
                    i = f"(({i} : Nat) : Int)"
                out += f"    let {t.value.id} := pySet {t.value.id} {i} {v}\n"
                continue
        raise ExtractError("unsupported statement in the publish reorder: " + ast.unparse(s)[:80])
    return out + f"    {lst}\n"


def gen_publish():
    tree = parse("toasty/pipeline/__init__.py")
    fn = find_def(tree, "PipelineManager.publish")
    out = HEADER.format(src="toasty/pipeline/__init__.py, toasty/pipeline/local_io.py, toasty/pipeline/cli.py") + "namespace Gen\nnamespace Publish\n\n"
    loop = [s for s in fn.body if isinstance(s, ast.For)]
    if len(loop) != 1 or ast.unparse(loop[0].iter) != "os.listdir(todo_dir)":
        raise ExtractError("publish: outer loop over approved/ changed")
    body = loop[0].body
    # filenames = os.listdir(...)
    k = [i for i, s in enumerate(body) if isinstance(s, ast.Assign) and ast.unparse(s.targets[0]) == "filenames"]
    if len(k) != 1 or ast.unparse(body[k[0]].value) != "os.listdir(os.path.join(todo_dir, uniq_id))":
        raise ExtractError("publish: file listing changed")
    rest = body[k[0] + 1:]
    tr = rest[0]
    if not isinstance(tr, ast.Try) or len(tr.body) != 1 or len(tr.handlers) != 1 or ast.unparse(tr.handlers[0].type) != "ValueError" or tr.finalbody:
        raise ExtractError("publish: the reorder is no longer a try/except ValueError/else block")
    a = tr.body[0]
    if not (isinstance(a, ast.Assign) and isinstance(a.value, ast.Call) and ast.unparse(a.value.func) == "filenames.index" and len(a.value.args) == 1):
        raise ExtractError("publish: try body is not `x = filenames.index(...)`")
    idxvar = a.targets[0].id
    needle, _ = _list_expr(a.value.args[0], {})
    exc = _list_block(tr.handlers[0].body, {"filenames": "List"}, "filenames")
    els = _list_block(tr.orelse, {"filenames": "List", idxvar: "Nat"}, "filenames")
    out += ("/-- the reordering of the transfer list in `PipelineManager.publish` -/\n"
            "def reorder (filenames : List String) : List String :=\n"
            f"  match pyIndex filenames {needle} with\n  | none =>\n{exc}  | some {idxvar} =>\n{els}\n")
    out += f"def index_name : String := {needle}\n\n"
    # the transfer loop and the rename
    after = [s for s in rest[1:] if not (isinstance(s, ast.Expr) and isinstance(s.value, ast.Call) and ast.unparse(s.value.func) == "print")]
    ok_loop = (len(after) == 2 and isinstance(after[0], ast.For) and ast.unparse(after[0].iter) == "filenames" and ast.unparse(after[0].target) == "filename"
               and "self._pipeio.put_item(*sub_components[1:], source=f)" in ast.unparse(after[0])
               and "sub_components = [todo_dir, uniq_id, filename]" in ast.unparse(after[0])
               and not any(isinstance(n, (ast.Break, ast.Continue, ast.Try)) for n in ast.walk(after[0])))
    ok_rename = len(after) == 2 and ast.unparse(after[1]) == "os.rename(os.path.join(todo_dir, uniq_id), os.path.join(done_dir, uniq_id))"
    out += f"/-- every file of the (reordered) list is transferred, in list order, errors propagate -/\ndef transfers_in_list_order : Bool := {'true' if ok_loop else 'false'}\n"
    out += f"/-- the image is renamed into published/ by the statement following the transfer loop -/\ndef rename_after_loop : Bool := {'true' if ok_rename else 'false'}\n\n"
    # local store writes
    lt = parse("toasty/pipeline/local_io.py")
    put = find_def(lt, "LocalPipelineIo.put_item")
    src = ast.unparse(put)
    conditional = any(isinstance(n, (ast.If, ast.Return, ast.Try)) for n in ast.walk(put))
    direct = "with open(fpath, 'wb') as f:" in src and "shutil.copyfileobj(source, f)" in src
    atomic = ("os.replace(" in src or "os.rename(" in src) and not direct
    out += ("/-- `LocalPipelineIo.put_item` always (re)writes the item: no early return / existence test -/\n"
            f"def put_unconditional : Bool := {'true' if not conditional or atomic and not any(isinstance(n, (ast.If, ast.Return)) for n in ast.walk(put)) else 'false'}\n"
            "/-- the item appears under its final name only when completely written (temp file + rename);\n`false`: it is opened with 'wb' in place, so an interrupted transfer leaves a truncated item -/\n"
            f"def put_atomic : Bool := {'true' if atomic else 'false'}\n\n")
    # refresh
    ct = parse("toasty/pipeline/cli.py")
    rf = ast.unparse(find_def(ct, "refresh_impl"))
    skip = "if mgr._pipeio.check_exists(uniq_id, 'index.wtml'):\n            n_done += 1\n            continue" in rf
    out += f"/-- `refresh` treats a candidate as done exactly when `<id>/index.wtml` exists in the store -/\ndef refresh_skips_on_index : Bool := {'true' if skip else 'false'}\n\n"
    out += "end Publish\nend Gen\n"
    return out


MODULES["Publish"] = gen_publish


# ------------------------------------------------------------------ FitsTiler reuse (C17)
def gen_fitstiler():
    tree = parse("toasty/fits_tiler.py")
    fn = find_def(tree, "FitsTiler.tile")
    out = HEADER.format(src="toasty/fits_tiler.py") + "namespace Gen\nnamespace FitsTiler\n\n"
    top = [n for n in fn.body if isinstance(n, ast.If) and ast.unparse(n.test) == "os.path.isdir(self.out_dir)"]
    if len(top) != 1:
        raise ExtractError("`if os.path.isdir(self.out_dir)` not found in FitsTiler.tile")
    top = top[0]
    if not (len(top.body) == 1 and isinstance(top.body[0], ast.If) and ast.unparse(top.body[0].test) == "override"):
        raise ExtractError("the existing-directory branch is no longer `if override: … else: …`")
    ov, reuse = top.body[0].body, top.body[0].orelse
    rm = "shutil.rmtree(self.out_dir)" in ast.unparse(ast.Module(body=ov, type_ignores=[]))
    falls = not any(isinstance(n, ast.Return) for s in ov for n in ast.walk(s))
    rsrc = ast.unparse(ast.Module(body=reuse, type_ignores=[]))
    returns = isinstance(reuse[-1], ast.Return)
    restores = ("self._restore_builder_from_wtml(" in rsrc and "index_rel.wtml" in rsrc)
    hips = "self._copy_hips_properties_to_builder()" in rsrc
    # fresh builder before the branch; write after tiling
    pre = ast.unparse(ast.Module(body=fn.body[:fn.body.index(top)], type_ignores=[]))
    fresh = "self.builder = builder.Builder(pio)" in pre
    post = ast.unparse(ast.Module(body=fn.body[fn.body.index(top) + 1:], type_ignores=[]))
    writes = "self.builder.write_index_rel_wtml(" in post
    tiles = all(s in post for s in ("self._tile_hips(", "self._tile_toast(", "self._tile_tan("))
    out += f"/-- a fresh default `Builder` is created before the directory test -/\ndef fresh_builder_first : Bool := {'true' if fresh else 'false'}\n"
    out += f"/-- `override=True` on an existing directory: the directory is removed and tiling proceeds as for a fresh one -/\ndef override_removes_and_retiles : Bool := {'true' if rm and falls else 'false'}\n"
    out += f"/-- reuse (directory exists, no override): returns early … -/\ndef reuse_returns_early : Bool := {'true' if returns else 'false'}\n"
    out += f"/-- … after restoring the builder from `index_rel.wtml` when that file exists (HiPS: from `properties`) -/\ndef reuse_restores_from_wtml : Bool := {'true' if restores else 'false'}\ndef reuse_restores_hips : Bool := {'true' if hips else 'false'}\n"
    out += f"/-- the tiling paths are followed by `write_index_rel_wtml` of the same builder -/\ndef tiling_then_write : Bool := {'true' if writes and tiles else 'false'}\n"
    out += "\nend FitsTiler\nend Gen\n"
    return out


MODULES["FitsTiler"] = gen_fitstiler


# ------------------------------------------------------------------ PyramidIO persistence facts (C15, C10)
def gen_pyramidio():
    tree = parse("toasty/pyramid.py")
    out = HEADER.format(src="toasty/pyramid.py") + "namespace Gen\nnamespace PIO\n\n"
    wi = find_def(tree, "PyramidIO.write_image")
    ifs = [n for n in wi.body if isinstance(n, ast.If)]
    ok = False
    if len(ifs) == 1 and ast.unparse(ifs[0].test) == "image.is_completely_masked()":
        b = ifs[0].body
        unl = len(b) == 1 and isinstance(b[0], ast.Try) and ast.unparse(b[0].body[0]) == "os.unlink(p)"
        sv = len(ifs[0].orelse) == 1 and ast.unparse(ifs[0].orelse[0]).startswith("image.save(p,")
        ok = unl and sv
    out += f"/-- `write_image`: a completely masked image is not written and any existing file is unlinked; otherwise the image is saved -/\ndef write_unlinks_when_masked : Bool := {'true' if ok else 'false'}\n"
    p_assign = [ast.unparse(n.value) for n in wi.body if isinstance(n, ast.Assign) and ast.unparse(n.targets[0]) == "p"]
    out += f"def write_path_uses_format_or_default : Bool := {'true' if p_assign == ['self.tile_path(pos, format=format or self._default_format)'] else 'false'}\n"
    ri = find_def(tree, "PyramidIO.read_image")
    src = ast.unparse(ri)
    none_ok = "if default == 'none':\n            return None" in src
    masked_ok = ("buf = masked_mode.make_maskable_buffer(256, 256)" in src and "buf.clear()" in src and "return buf" in src)
    enoent = "if e.errno != 2:\n            raise" in src
    out += f"/-- `read_image`: a missing file (ENOENT only) gives `None` for default='none' … -/\ndef read_missing_none : Bool := {'true' if none_ok and enoent else 'false'}\n"
    out += f"/-- … and a freshly made, cleared 256×256 maskable buffer for default='masked' -/\ndef read_missing_masked_fresh : Bool := {'true' if masked_ok else 'false'}\n"
    # update_image: lock around read .. yield .. write; lock path from the default-format path
    ui = find_def(tree, "PyramidIO.update_image")
    withs = [n for n in ast.walk(ui) if isinstance(n, ast.With)]
    lock_ok = False
    order_ok = False
    if len(withs) == 1 and ast.unparse(withs[0].items[0].context_expr) == "SoftFileLock(p + '.lock')":
        lock_ok = True
        body = withs[0].body
        kinds = []
        for s in body:
            t = ast.unparse(s)
            if "self.read_image(" in t:
                kinds.append("read")
            elif t.startswith("yield"):
                kinds.append("yield")
            elif "self.write_image(" in t:
                kinds.append("write")
            else:
                kinds.append("other")
        order_ok = kinds == ["read", "yield", "write"]
    lock_path = [ast.unparse(n.value) for n in ui.body if isinstance(n, ast.Assign) and ast.unparse(n.targets[0]) == "p"]
    out += f"/-- `update_image` holds `SoftFileLock(<path>.lock)` around read, yield, write, in that order, and nothing else -/\ndef update_locked_read_yield_write : Bool := {'true' if lock_ok and order_ok else 'false'}\n"
    out += f"/-- the lock path is derived from `tile_path(pos)` with the *default* format, independent of the `format` argument -/\ndef lock_path_format_independent : Bool := {'true' if lock_path == ['self.tile_path(pos)'] else 'false'}\n"
    wr = [ast.unparse(s) for s in (withs[0].body if withs else [])]
    fmt_ok = any("format=format or self._default_format" in t and "read_image" in t for t in wr) and any("self.write_image(pos, img, format=format or self._default_format)" in t for t in wr)
    out += f"/-- read and write inside the lock use the same format (`format or default`) -/\ndef update_same_format_read_write : Bool := {'true' if fmt_ok else 'false'}\n"
    cl = ast.unparse(find_def(tree, "PyramidIO.clean_lockfiles"))
    clean_ok = ("for x in range(0, 2 ** level):" in cl and "for y in range(0, 2 ** level):" in cl and "p = self.tile_path(pos, makedirs=False) + '.lock'" in cl and "os.unlink(p)" in cl)
    out += f"/-- `clean_lockfiles(level)` unlinks `tile_path(pos) + '.lock'` for every position of that level -/\ndef clean_covers_level : Bool := {'true' if clean_ok else 'false'}\n"
    out += "\nend PIO\nend Gen\n"
    return out


MODULES["PIO"] = gen_pyramidio


# ------------------------------------------------------------------ hand-off stages (C03, C19)
STAGES = [
    ("visit", "toasty/pyramid.py", "Pyramid._visit_leaves_parallel", "_mp_visit_worker", "ready_queue"),
    ("transform", "toasty/transform.py", "_transform_parallel", "_transform_mp_worker", "queue"),
    ("multi_tan", "toasty/multi_tan.py", "MultiTanProcessor._tile_parallel", "_mp_tile_worker", "queue"),
    ("multi_wcs", "toasty/multi_wcs.py", "MultiWcsProcessor._tile_parallel", "_mp_tile_worker", "queue"),
]


def _stmt_index(stmts, pred):
    for i, s in enumerate(stmts):
        if pred(ast.unparse(s)):
            return i
    return None


def _worker_shape(fn, qname):
    """returns 'flag-first' | 'flag-after-empty' for `while True: … get … except Empty …` loops"""
    loops = [n for n in fn.body if isinstance(n, ast.While) and ast.unparse(n.test) == "True"]
    if len(loops) != 1:
        raise ExtractError(f"{fn.name}: expected one `while True` loop")
    body = loops[0].body
    tries = [i for i, s in enumerate(body) if isinstance(s, ast.Try)]
    if len(tries) not in (1, 2):
        raise ExtractError(f"{fn.name}: expected the polling try block (and at most the error-reporting one) in the loop")
    ti = tries[0]
    tr = body[ti]
    if f"{qname}.get(True, timeout=" not in ast.unparse(ast.Module(body=tr.body, type_ignores=[])):
        raise ExtractError(f"{fn.name}: the try block does not poll {qname}.get(True, timeout=…)")
    if len(tr.handlers) != 1 or ast.unparse(tr.handlers[0].type) != "Empty":
        raise ExtractError(f"{fn.name}: handler is not `except Empty`")
    hb = [ast.unparse(s) for s in tr.handlers[0].body]
    pre = [ast.unparse(s) for s in body[:ti]]
    if pre == ["done = done_event.is_set()"] and hb == ["if done:\n    break", "continue"]:
        return "flag-first"
    if pre == [] and hb == ["if done_event.is_set():\n    break", "continue"]:
        return "flag-after-empty"
    raise ExtractError(f"{fn.name}: unrecognised shutdown test: before get {pre}, on Empty {hb}")


def gen_stage():
    out = HEADER.format(src=", ".join(s[1] for s in STAGES)) + "namespace Gen\nnamespace Stage\n\n"
    shapes = {}
    for short, path, prod, work, qname in STAGES:
        tree = parse(path)
        p = find_def(tree, prod)
        w = find_def(tree, work)
        stmts = p.body
        iq = _stmt_index(stmts, lambda t: t.startswith(f"{qname} = mp.Queue("))
        if iq is None:
            raise ExtractError(f"{prod}: queue creation not found")
        cap = ast.unparse(stmts[iq].value)
        m = re.fullmatch(r"mp\.Queue\(maxsize=(\d+) \* parallel\)", cap)
        if not m:
            raise ExtractError(f"{prod}: queue capacity is {cap}")
        ic = _stmt_index(stmts, lambda t: t == f"{qname}.close()")
        ij = _stmt_index(stmts, lambda t: t == f"{qname}.join_thread()")
        is_ = _stmt_index(stmts, lambda t: t == "done_event.set()")
        iw = _stmt_index(stmts, lambda t: t == "for w in workers:\n    w.join()")
        iput = None
        for i, s in enumerate(stmts):
            if f"{qname}.put(" in ast.unparse(s):
                iput = i
        istart = _stmt_index(stmts, lambda t: t.startswith("for _ in range(parallel):") and "w.start()" in t and "workers.append(w)" in t)
        tail_src = [ast.unparse(x) for x in stmts[iw + 1:]] if iw is not None else None
        reports = tail_src == ["from .par_util import raise_if_worker_failed", "raise_if_worker_failed(error_event)"]
        order_ok = None not in (ic, ij, is_, iw, iput, istart) and istart < iput < ic < ij < is_ < iw and (iw == len(stmts) - 1 or reports)
        # the worker: the per-item work is wrapped in `try: … except Exception: … error_event.set()` and the loop goes on
        wloop = [n for n in w.body if isinstance(n, ast.While)][0]
        after_get = wloop.body[[i for i, x in enumerate(wloop.body) if isinstance(x, ast.Try)][0] + 1:]
        wraps = (len(after_get) == 1 and isinstance(after_get[0], ast.Try) and len(after_get[0].handlers) == 1
                 and ast.unparse(after_get[0].handlers[0].type) == "Exception"
                 and ast.unparse(after_get[0].handlers[0].body[-1]) == "error_event.set()"
                 and not any(isinstance(n, (ast.Break, ast.Return, ast.Raise)) for n in ast.walk(after_get[0].handlers[0])))
        ev_created = any(ast.unparse(x) == "error_event = mp.Event()" for x in stmts)
        # the parent has no exception handler of its own: an error raised by the item source (an input that cannot be
        # loaded, a failing generator) propagates to the caller
        unguarded = not any(isinstance(n, (ast.Try, ast.ExceptHandler)) for x in stmts for n in ast.walk(x))
        nput = sum(ast.unparse(s).count(f"{qname}.put(") for s in stmts)
        shape = _worker_shape(w, qname)
        shapes[short] = shape
        out += f"/-- {path}:{prod} — workers started, every item `put`, then `close(); join_thread(); done_event.set()`, then all workers joined, and nothing after -/\n"
        out += f"def {short}_producer_order_ok : Bool := {'true' if order_ok and nput == 1 else 'false'}\n"
        out += f"def {short}_capacity_per_worker : Nat := {m.group(1)}\n"
        out += f"/-- {work}: where the shutdown flag is read relative to the queue poll -/\ndef {short}_flag_first : Bool := {'true' if shape == 'flag-first' else 'false'}\n"
        out += (f"/-- {work} catches an exception from the per-item work, sets the shared error event and continues its loop;\n{prod} raises after joining the workers when the event is set -/\n"
                f"def {short}_reports_errors : Bool := {'true' if (wraps and reports and ev_created) else 'false'}\n"
                f"/-- {prod} contains no `try`: an exception raised while it obtains the next item (e.g. an input image that cannot be loaded) reaches the caller -/\n"
                f"def {short}_producer_unguarded : Bool := {'true' if unguarded else 'false'}\n\n")
    allff = all(v == "flag-first" for v in shapes.values())
    out += f"/-- all four hand-off workers read the flag *before* polling the queue and act on that reading when the poll comes back empty -/\ndef flag_first : Bool := {'true' if allff else 'false'}\n"
    out += "\nend Stage\nend Gen\n"
    return out


MODULES["Stage"] = gen_stage


# ------------------------------------------------------------------ walk worker / error reporting (C01, C19)
def gen_walkworker():
    tree = parse("toasty/pyramid.py")
    out = HEADER.format(src="toasty/pyramid.py") + "namespace Gen\nnamespace WalkWorker\n\n"
    w = find_def(tree, "_mp_walk_worker")
    loops = [n for n in w.body if isinstance(n, ast.While) and ast.unparse(n.test) == "True"]
    if len(loops) != 1:
        raise ExtractError("_mp_walk_worker: expected one `while True` loop")
    body = loops[0].body
    tr = body[0]
    shape_ok = (isinstance(tr, ast.Try) and ast.unparse(tr.body[0]) == "pos = ready_queue.get(True, timeout=1)" and len(tr.handlers) == 1
                and ast.unparse(tr.handlers[0].type) == "Empty"
                and [ast.unparse(x) for x in tr.handlers[0].body] == ["if done_event.is_set():\n    break", "continue"])
    rest = body[1:]
    rest_src = [ast.unparse(x) for x in rest]
    plain = rest_src == ["callback(pos)", "done_queue.put(pos)"]
    wrapped = (len(rest) == 2 and isinstance(rest[0], ast.Try) and [ast.unparse(x) for x in rest[0].body] == ["callback(pos)"]
               and len(rest[0].handlers) == 1 and ast.unparse(rest[0].handlers[0].type) == "Exception"
               and ast.unparse(rest[0].handlers[0].body[-1]) == "error_event.set()" and rest_src[1] == "done_queue.put(pos)")
    out += ("/-- `_mp_walk_worker`: poll the ready queue (1 s); on Empty leave iff the done flag is set, else poll again;\n"
            "on an item: run the callback exactly once, then report the tile on the done queue, then loop -/\n"
            f"def loop_shape_ok : Bool := {'true' if shape_ok and (plain or wrapped) else 'false'}\n")
    wp = find_def(tree, "Pyramid._walk_parallel")
    tail = [ast.unparse(x) for x in wp.body[-3:]]
    parent_raises = tail[-2:] == ["from .par_util import raise_if_worker_failed", "raise_if_worker_failed(error_event)"]
    out += ("/-- a failing callback is caught in the worker, recorded in the shared error event, the tile is still reported;\n"
            "`_walk_parallel` raises after joining the workers when the event is set -/\n"
            f"def reports_errors : Bool := {'true' if wrapped and parent_raises else 'false'}\n")
    pu = parse("toasty/par_util.py")
    rf = ast.unparse(find_def(pu, "raise_if_worker_failed"))
    out += f"def raise_helper_raises_when_set : Bool := {'true' if 'if error_event.is_set():' in rf and 'raise RuntimeError(' in rf else 'false'}\n"
    out += "\nend WalkWorker\nend Gen\n"
    return out


MODULES["WalkWorker"] = gen_walkworker


# ------------------------------------------------------------------ point lookup (C12)
_TURN = {"0": "0", "HALFPI": "1/4", "np.pi": "1/2", "THREEHALFPI": "3/4", "TWOPI": "1"}


def gen_lookup():
    tree = parse("toasty/toast.py")
    out = HEADER.format(src="toasty/toast.py") + "namespace Gen\nnamespace Lookup\n\n"
    consts = {ast.unparse(n.targets[0]): ast.unparse(n.value) for n in tree.body if isinstance(n, ast.Assign) and len(n.targets) == 1}
    want = {"HALFPI": "0.5 * np.pi", "THREEHALFPI": "1.5 * np.pi", "TWOPI": "2 * np.pi"}
    for k, v in want.items():
        if consts.get(k) != v:
            raise ExtractError(f"toast.py: {k} = {consts.get(k)} (expected {v})")
    sc = find_def(tree, "_toast_tile_containment_score")
    body = [s for s in sc.body if not (isinstance(s, ast.Expr) and isinstance(s.value, ast.Constant))]
    if ast.unparse(body[0]) != "if tile.pos.n == 0:\n    return 0":
        raise ExtractError("_toast_tile_containment_score: level-0 case not recognised")
    l1 = body[1]
    if not (isinstance(l1, ast.If) and ast.unparse(l1.test) == "tile.pos.n == 1" and not l1.orelse):
        raise ExtractError("_toast_tile_containment_score: level-1 block not recognised")
    rules = []
    for s in l1.body[:-1]:
        if not (isinstance(s, ast.If) and isinstance(s.test, ast.BoolOp) and isinstance(s.test.op, ast.And) and not s.orelse
                and ast.unparse(s.body[0]) == "return 0" and len(s.body) == 1 and len(s.test.values) == 4):
            raise ExtractError(f"level-1 rule not recognised: {ast.unparse(s)[:80]}")
        lo = hi = x = y = None
        for c in s.test.values:
            if not (isinstance(c, ast.Compare) and len(c.ops) == 1):
                raise ExtractError(f"level-1 condition not recognised: {ast.unparse(c)}")
            left, op, right = ast.unparse(c.left), c.ops[0], ast.unparse(c.comparators[0])
            if left == "lon" and isinstance(op, (ast.Gt, ast.GtE)) and right in _TURN:
                lo = ("true" if isinstance(op, ast.GtE) else "false", _TURN[right])
            elif left == "lon" and isinstance(op, (ast.Lt, ast.LtE)) and right in _TURN:
                hi = ("true" if isinstance(op, ast.LtE) else "false", _TURN[right])
            elif left == "tile.pos.x" and isinstance(op, ast.Eq) and right in ("0", "1"):
                x = right
            elif left == "tile.pos.y" and isinstance(op, ast.Eq) and right in ("0", "1"):
                y = right
            else:
                raise ExtractError(f"level-1 condition not recognised: {ast.unparse(c)}")
        if None in (lo, hi, x, y):
            raise ExtractError(f"level-1 rule incomplete: {ast.unparse(s.test)}")
        rules.append(f"({lo[0]}, ({lo[1]} : Rat), {hi[0]}, ({hi[1]} : Rat), {x}, {y})")
    last = ast.unparse(l1.body[-1])
    m = re.fullmatch(r"return (-?\d+)", last)
    if not m or int(m.group(1)) == 0:
        raise ExtractError(f"level-1 default is `{last}`")
    out += ("/-- `_toast_tile_containment_score`, level-1 branch: (lower bound inclusive?, lower bound, upper bound inclusive?, upper bound, x, y) —\n"
            "score 0 when the longitude (in turns: HALFPI = 1/4, π = 1/2, THREEHALFPI = 3/4, TWOPI = 1) is in the interval and the tile is (1, x, y) -/\n")
    out += "def level1_rules : List (Bool × Rat × Bool × Rat × Nat × Nat) := [" + ", ".join(rules) + "]\n"
    out += f"def level1_default : Int := {m.group(1)}\n\n"
    # the geometric score: sum of four clipped half-space scores, each min(dot(cross(a, b), p), 0)
    hs = find_def(tree, "_left_of_half_space_score")
    hs_ok = ast.unparse(hs.body[-1]) == "return min(np.dot(np.cross(point_a, point_b), test_point), 0)"
    tail = [ast.unparse(s) for s in body[-5:]]
    sum_ok = tail == ["upper = _left_of_half_space_score(ul, ur, test_point)", "right = _left_of_half_space_score(ur, lr, test_point)",
                      "lower = _left_of_half_space_score(lr, ll, test_point)", "left = _left_of_half_space_score(ll, ul, test_point)",
                      "return upper + right + lower + left"]
    out += ("/-- deeper levels: the score is `upper + right + lower + left`, each term `min(dot(cross(a, b), p), 0)` for the edges\n"
            "ul→ur, ur→lr, lr→ll, ll→ul — so it is ≤ 0, and 0 exactly when the point is on the inner side of all four edges -/\n")
    out += f"def score_is_clipped_edge_sum : Bool := {'true' if hs_ok and sum_ok else 'false'}\n\n"
    # toast_tile_for_point
    fp = find_def(tree, "toast_tile_for_point")
    b = [s for s in fp.body if not (isinstance(s, ast.Expr) and isinstance(s.value, ast.Constant))]
    src = [ast.unparse(s) for s in b]
    if len(src) != 6:
        raise ExtractError(f"toast_tile_for_point: {len(src)} statements, expected 6")
    norm = src[0] == "lon = lon % TWOPI"
    d0 = src[1] == "if depth == 0:\n    return Tile(Pos(n=0, x=0, y=0), (None, None, None, None), False)"
    shift = src[2] == "if coordsys == ToastCoordinateSystem.PLANETARY:\n    level1_lon = (lon + np.pi) % TWOPI\nelse:\n    level1_lon = lon"
    l1loop = src[3] == "for tile in _create_level1_tiles(coordsys):\n    if _toast_tile_containment_score(tile, lat, level1_lon) == 0.0:\n        break"
    desc = src[4] == ("while tile.pos.n < depth:\n    best_score = -np.inf\n    for child in _div4(tile):\n        score = _toast_tile_containment_score(child, lat, lon)\n"
                      "        if score == 0.0:\n            tile = child\n            break\n        if score > best_score:\n            tile = child\n            best_score = score")
    ret = src[5] == "return tile"
    if not (norm and d0 and shift and l1loop and desc and ret):
        bad = [n for n, ok in (("lon normalisation", norm), ("depth 0", d0), ("planetary shift", shift), ("level-1 loop", l1loop), ("descent loop", desc), ("return", ret)) if not ok]
        raise ExtractError("toast_tile_for_point: not in the recognised shape: " + ", ".join(bad))
    out += ("/-- `toast_tile_for_point`: `lon = lon % TWOPI`; depth 0 returns the root; the level-1 tile is the first tile of\n"
            "`_create_level1_tiles(coordsys)` whose level-1 score at `level1_lon` is 0 (the last tile if none is); `level1_lon` is\n"
            "`(lon + π) % TWOPI` for the planetary system and `lon` otherwise; below level 1 the loop takes the first child whose score\n"
            "is 0, else the first child with the largest score (scores computed at `lon`, in the tile's own coordinate system) -/\n")
    out += "def lookup_shape_ok : Bool := true\ndef planetary_level1_shift : Rat := 1/2\n\n"
    # toast_pixel_for_point: the stamp and the returned offsets
    pp = find_def(tree, "toast_pixel_for_point")
    psrc = [ast.unparse(s) for s in pp.body]
    need = ["tile = toast_tile_for_point(depth, lat, lon, coordsys=coordsys)", "(lons, lats) = toast_tile_get_coords(tile)",
            "lons = lon + ((lons - lon + np.pi) % TWOPI - np.pi)", "dist2 = (lons - lon) ** 2 + (lats - lat) ** 2",
            "(min_y, min_x) = np.unravel_index(np.argmin(dist2), (256, 256))", "halfsize = 4",
            "x0 = max(min_x - halfsize, 0)", "y0 = max(min_y - halfsize, 0)", "x1 = min(min_x + halfsize + 1, 256)", "y1 = min(min_y + halfsize + 1, 256)",
            "return (tile, x0 + x, y0 + y)"]
    def _norm(t):
        return t.replace("(lons, lats) =", "lons, lats =").replace("(min_y, min_x) =", "min_y, min_x =")
    psrc = [_norm(t) for t in psrc]
    missing = [n for n in need if _norm(n) not in psrc]
    out += ("/-- `toast_pixel_for_point`: nearest pixel centre by squared (lon, lat) distance on the branch of the query longitude, a stamp of\n"
            "half-size 4 clipped to the tile, the fitted position returned relative to the clipped stamp origin (x0, y0) -/\n")
    out += f"def pixel_stamp_shape_ok : Bool := {'true' if not missing else 'false'}\n"
    out += "\nend Lookup\nend Gen\n"
    return out


MODULES["Lookup"] = gen_lookup


# ------------------------------------------------------------------ TOAST sampling (C06)
def gen_sampling():
    tree = parse("toasty/toast.py")
    out = HEADER.format(src="toasty/toast.py") + "namespace Gen\nnamespace Sampling\n\n"
    init = find_def(tree, "ToastSampler.__init__")
    isrc = [ast.unparse(s) for s in init.body]
    inv_default = "self._invert_into_tiles = pio.get_default_vertical_parity_sign() == 1" in isrc
    inv_format = ("if format is None:\n    self._invert_into_tiles = pio.get_default_vertical_parity_sign() == 1\nelse:\n"
                  "    self._invert_into_tiles = get_format_vertical_parity_sign(format) == 1") in isrc
    if not (inv_default or inv_format) or "self._format = format" not in isrc or "self._clobber = clobber" not in isrc:
        raise ExtractError("ToastSampler.__init__: source of _invert_into_tiles / _format / _clobber not recognised")
    cb = find_def(tree, "ToastSampler.visit_callback")
    b = [s for s in cb.body if not (isinstance(s, ast.Expr) and isinstance(s.value, ast.Constant))]
    src = [ast.unparse(s) for s in b]
    want = [
        "if tile is None:\n    lon, lat = _level0_coords(self._coordsys)\nelse:\n    lon, lat = toast_tile_get_coords(tile)",
        "sampled_data = self._sampler(lon, lat)",
        "if self._invert_into_tiles:\n    sampled_data = sampled_data[::-1]",
        "img = Image.from_array(sampled_data)",
        "if self._clobber:\n    self._pio.write_image(pos, img, format=self._format)\nelse:\n    with self._pio.update_image(pos, masked_mode=img.mode, default='masked') as basis:\n"
        "        img.update_into_maskable_buffer(basis, slice(None), slice(None), slice(None), slice(None))",
    ]

    def _n(t):
        return t.replace("(lon, lat) =", "lon, lat =")
    if [_n(t) for t in src] != want:
        k = next((i for i, (a, c) in enumerate(zip([_n(t) for t in src], want)) if a != c), min(len(src), len(want)))
        raise ExtractError(f"ToastSampler.visit_callback: statement {k} not in the recognised shape: {src[k][:120] if k < len(src) else '(missing)'}")
    out += ("/-- `ToastSampler.visit_callback(pos, tile)`: coordinates of the tile's own pixel grid (`_level0_coords` for the level-0 tile), the sampler\n"
            "applied to them, the rows reversed iff `_invert_into_tiles`, then `write_image` (clobber) or a locked read–merge–write\n"
            "`update_image(…, default='masked')` + `update_into_maskable_buffer` over the whole tile -/\n")
    out += "def callback_shape_ok : Bool := true\n"
    out += ("/-- `_invert_into_tiles` is decided by the parity of the format the tiles are written in (the `format` override when given,\n"
            "the pyramid's default format otherwise); `false`: by the pyramid's default format whatever the override -/\n")
    out += f"def invert_follows_written_format : Bool := {'true' if inv_format else 'false'}\n"
    sl = find_def(tree, "sample_layer")
    slb = [ast.unparse(s) for s in sl.body if not (isinstance(s, ast.Expr) and isinstance(s.value, ast.Constant))]
    ok1 = slb == ["from .pyramid import Pyramid", "p = Pyramid.new_toast(depth, coordsys=coordsys)",
                  "proc = ToastSampler(pio, sampler, True, format=format, coordsys=coordsys)",
                  "p.visit_leaves(proc.visit_callback, parallel=parallel, cli_progress=cli_progress)"]
    sf = find_def(tree, "sample_layer_filtered")
    sfb = [ast.unparse(s) for s in sf.body if not (isinstance(s, ast.Expr) and isinstance(s.value, ast.Constant))]
    ok2 = (len(sfb) == 4 and sfb[1] == "p = Pyramid.new_toast_filtered(depth, tile_filter, coordsys=coordsys)"
           and sfb[2] in ("proc = ToastSampler(pio, sampler, False, format=format, coordsys=coordsys)", "proc = ToastSampler(pio, sampler, False, coordsys=coordsys)",
                          "proc = ToastSampler(pio, sampler, False, format=None, coordsys=coordsys)")
           and sfb[3] == "p.visit_leaves(proc.visit_callback, parallel=parallel, cli_progress=cli_progress)")
    if not (ok1 and ok2):
        raise ExtractError("sample_layer / sample_layer_filtered: not in the recognised shape")
    out += ("/-- `sample_layer`: `Pyramid.new_toast(depth)`, clobbering sampler, `visit_leaves`; `sample_layer_filtered`:\n"
            "`Pyramid.new_toast_filtered(depth, tile_filter)`, updating sampler, `visit_leaves` -/\n")
    out += "def layer_functions_shape_ok : Bool := true\n"
    fargs = [a.arg for a in sf.args.args]
    out += ("/-- `sample_layer_filtered` has no `format` parameter: the name `format` in its body is the Python builtin, which the updating\n"
            "sampler never uses (update_image is called without a format) -/\n")
    out += f"def filtered_has_format_parameter : Bool := {'true' if 'format' in fargs else 'false'}\n"
    out += "\nend Sampling\nend Gen\n"
    return out


MODULES["Sampling"] = gen_sampling


# ------------------------------------------------------------------ tile filters, chunked maps (C07)
class RatTr2(RatTr):
    """RatTr plus integer floor division / modulus by a positive divisor, min/max, attribute aliases"""

    def __init__(self, alias=None):
        super().__init__()
        self.alias = alias or {}

    def expr(self, e, want="Rat"):
        src = ast.unparse(e)
        if src in self.alias:
            n = self.alias[src]
            return n, self.ty[n]
        if isinstance(e, ast.BinOp) and isinstance(e.op, (ast.FloorDiv, ast.Mod)):
            a, ta = self.expr(e.left)
            b, tb = self.expr(e.right)
            if ta == "Int" and tb == "Int":
                return (f"({a} / {b})" if isinstance(e.op, ast.FloorDiv) else f"({a} % {b})"), "Int"
        if isinstance(e, ast.Call) and ast.unparse(e.func) in ("min", "max") and len(e.args) == 2:
            a, ta = self.expr(e.args[0])
            b, tb = self.expr(e.args[1])
            if ta != tb:
                a, b, ta = self.cast(a, ta), self.cast(b, tb), "Rat"
            return f"({ast.unparse(e.func)} {a} {b})", ta
        return super().expr(e, want)


def _lets(tr, stmts, stop_at=None):
    lets = []
    for s in stmts:
        if isinstance(s, ast.Expr) and isinstance(s.value, ast.Constant):
            continue
        if stop_at is not None and stop_at(s):
            break
        if isinstance(s, ast.Assign) and isinstance(s.targets[0], ast.Name):
            v, t = tr.expr(s.value)
            tr.ty[s.targets[0].id] = t
            lets.append((s.targets[0].id, t, v))
            continue
        raise ExtractError(f"unexpected statement {ast.unparse(s)[:70]}")
    return lets


def gen_filter():
    out = HEADER.format(src="toasty/samplers.py, toasty/jpeg2000.py") + (
        "/-! Angles in turns (TWOPI = 1, np.pi = 1/2, HALFPI = 1/4). -/\n\nnamespace Gen\nnamespace Filter\n\n")
    # ---- chunk_spec
    jt = parse("toasty/jpeg2000.py")
    cs = find_def(jt, "ChunkedJPEG2000Reader.chunk_spec")
    body = [s for s in cs.body if not (isinstance(s, ast.Expr) and isinstance(s.value, ast.Constant))]
    guard = ast.unparse(body[0])
    if not guard.startswith("if ichunk < 0 or ichunk >= self.n_chunks:\n    raise ValueError("):
        raise ExtractError("chunk_spec: range check not recognised")
    unpack = [ast.unparse(s).replace("(th, tw)", "th, tw").replace("(gh, gw)", "gh, gw") for s in body[1:3]]
    if unpack != ["th, tw = self._tile_shape", "gh, gw = self._jp2.shape[:2]"]:
        raise ExtractError("chunk_spec: shape unpacking not recognised")
    tr = RatTr2()
    tr.ty = {k: "Int" for k in ("th", "tw", "gh", "gw", "ichunk")}
    lets = _lets(tr, body[3:], stop_at=lambda s: isinstance(s, ast.Return))
    ret = ast.unparse(body[-1])
    if ret not in ("return (x0, y0, chunk_width, chunk_height)", "return x0, y0, chunk_width, chunk_height"):
        raise ExtractError(f"chunk_spec: returns {ret}")
    out += "/-- `ChunkedJPEG2000Reader.chunk_spec(ichunk)` for a `gw × gh` image with `tw × th` tiles: (x, y, width, height) -/\n"
    out += "def chunk_spec (gw gh tw th ichunk : Int) : Int × Int × Int × Int :=\n"
    for n, t, v in lets:
        out += f"  let {n} : {t} := {v}\n"
    out += "  (x0, y0, chunk_width, chunk_height)\n\n"
    nc = find_def(jt, "ChunkedJPEG2000Reader.n_chunks")
    nb = [ast.unparse(s).replace("(th, tw)", "th, tw") for s in nc.body if not (isinstance(s, ast.Expr) and isinstance(s.value, ast.Constant))]
    if nb != ["th, tw = self._tile_shape", "return (self._jp2.shape[0] + th - 1) // th * ((self._jp2.shape[1] + tw - 1) // tw)"]:
        raise ExtractError(f"n_chunks: not recognised: {nb}")
    out += "/-- `n_chunks` -/\ndef n_chunks (gw gh tw th : Int) : Int := ((gh + th - 1) / th) * ((gw + tw - 1) / tw)\n\n"
    cd = find_def(jt, "ChunkedJPEG2000Reader.chunk_data")
    cdsrc = ast.unparse(cd)
    slice_ok = ("(x0, y0, w, h) = self.chunk_spec(ichunk)" in cdsrc or "x0, y0, w, h = self.chunk_spec(ichunk)" in cdsrc) and "self._jp2[y0:y0 + h, x0:x0 + w]" in cdsrc
    out += f"/-- `chunk_data(ichunk)` is the sub-array `[y0:y0+h, x0:x0+w]` of the image -/\ndef chunk_data_is_subarray : Bool := {'true' if slice_ok else 'false'}\n\n"
    # ---- ChunkedPlateCarreeSampler
    st = parse("toasty/samplers.py")
    init = find_def(st, "ChunkedPlateCarreeSampler.__init__")
    isrc = [ast.unparse(s) for s in init.body]
    if "self.sx = TWOPI / self._image.shape[1]" not in isrc or "self.sy = np.pi / self._image.shape[0]" not in isrc:
        raise ExtractError("ChunkedPlateCarreeSampler.__init__: pixel scales not recognised")
    cb = find_def(st, "ChunkedPlateCarreeSampler._chunk_bounds")
    b = [s for s in cb.body if not (isinstance(s, ast.Expr) and isinstance(s.value, ast.Constant))]
    if ast.unparse(b[0]).replace("(cx, cy, cw, ch)", "cx, cy, cw, ch") != "cx, cy, cw, ch = self._image.chunk_spec(ichunk)":
        raise ExtractError("_chunk_bounds: chunk_spec unpacking not recognised")
    tr = RatTr2(alias={"self.sx": "sx", "self.sy": "sy"})
    tr.ty = {k: "Int" for k in ("cx", "cy", "cw", "ch", "gw", "gh")}
    tr.ty.update({"sx": "Rat", "sy": "Rat"})
    lets = _lets(tr, b[1:], stop_at=lambda s: isinstance(s, ast.Return))
    ret = ast.unparse(b[-1])
    if ret not in ("return (lon_l, lon_r, lat_d, lat_u)", "return lon_l, lon_r, lat_d, lat_u"):
        raise ExtractError(f"_chunk_bounds: returns {ret}")
    out += "/-- `ChunkedPlateCarreeSampler._chunk_bounds`: (lon_min, lon_max, lat_min, lat_max) of the chunk at (cx, cy) of size cw × ch in a gw × gh map -/\n"
    out += "def chunk_bounds (gw gh cx cy cw ch : Int) : Rat × Rat × Rat × Rat :=\n"
    out += "  let sx : Rat := (1 : Rat) / ((gw : Int) : Rat)\n  let sy : Rat := ((1 : Rat) / 2) / ((gh : Int) : Rat)\n"
    for n, t, v in lets:
        out += f"  let {n} : {t} := {v}\n"
    out += "  (lon_l, lon_r, lat_d, lat_u)\n\n"
    # the sampler
    sm = find_def(st, "ChunkedPlateCarreeSampler.sampler")
    sb = [s for s in sm.body if not (isinstance(s, ast.Expr) and isinstance(s.value, ast.Constant)) and not isinstance(s, (ast.Import, ast.ImportFrom))]
    ssrc = [ast.unparse(s) for s in sb]
    pre_ok = (ssrc[0].replace("(chunk_lon_min, chunk_lon_max, chunk_lat_min, chunk_lat_max)", "chunk_lon_min, chunk_lon_max, chunk_lat_min, chunk_lat_max")
              == "chunk_lon_min, chunk_lon_max, chunk_lat_min, chunk_lat_max = self._chunk_bounds(ichunk)"
              and ssrc[1] == "data = self._image.chunk_data(ichunk)" and ssrc[2] == "data_img = Image.from_array(data)"
              and ssrc[3] == "buffer = data_img.mode.make_maskable_buffer(256, 256)"
              and ssrc[4].replace("(biy, bix)", "biy, bix") == "biy, bix = np.indices((256, 256))"
              and ssrc[5].replace("(ny, nx)", "ny, nx") == "ny, nx = data.shape[:2]")
    if not pre_ok:
        raise ExtractError("ChunkedPlateCarreeSampler.sampler: prologue not recognised")
    tr = RatTr2()
    tr.ty = {"nx": "Int", "ny": "Int", "chunk_lon_min": "Rat", "chunk_lon_max": "Rat", "chunk_lat_min": "Rat", "chunk_lat_max": "Rat"}
    inner = [s for s in sb if isinstance(s, ast.FunctionDef)]
    if len(inner) != 1 or [a.arg for a in inner[0].args.args] != ["lon", "lat"]:
        raise ExtractError("ChunkedPlateCarreeSampler.sampler: inner function not recognised")
    lets = _lets(tr, sb[6:], stop_at=lambda s: isinstance(s, ast.FunctionDef))
    tr.ty["lon"] = "Rat"
    tr.ty["lat"] = "Rat"
    ib = inner[0].body
    isrc = [ast.unparse(s) for s in ib]
    want_shape = ["lon = (lon + np.pi) % TWOPI - np.pi", "ix = (lon - lon0) * dx", "ix = np.round(ix).astype(int)", "ok = (ix >= 0) & (ix < nx)",
                  "iy = (lat0 - lat) * dy", "iy = np.round(iy).astype(int)", "ok &= (iy >= 0) & (iy < ny)",
                  "data_img.fill_into_maskable_buffer(buffer, iy[ok], ix[ok], biy[ok], bix[ok])", "return buffer.asarray()"]
    if isrc != want_shape:
        k = next((i for i, (a, c) in enumerate(zip(isrc, want_shape)) if a != c), min(len(isrc), len(want_shape)))
        raise ExtractError(f"chunk sampler: statement {k} not in the recognised shape: {isrc[k] if k < len(isrc) else '(missing)'}")
    out += ("/-- the chunk sampler: `(iy, ix, ok)` — the chunk-local array index a sky position is mapped to and whether it is kept;\n"
            "`nx × ny` is the chunk's size and the four bounds are `_chunk_bounds` -/\n")
    out += "def chunk_index (nx ny : Int) (chunk_lon_min chunk_lon_max chunk_lat_min chunk_lat_max lon lat : Rat) : Int × Int × Bool :=\n"
    for n, t, v in lets:
        out += f"  let {n} : {t} := {v}\n"
    out += "  let lon : Rat := ((ratMod (lon + ((1 : Rat) / 2)) (1 : Rat)) - ((1 : Rat) / 2))\n"
    out += "  let ix : Int := roundHE ((lon - lon0) * dx)\n  let iy : Int := roundHE ((lat0 - lat) * dy)\n"
    out += "  (iy, ix, decide (0 ≤ ix) && decide (ix < nx) && decide (0 ≤ iy) && decide (iy < ny))\n\n"
    # ---- filter factories
    def _ret(qual):
        fn = find_def(st, qual)
        return ast.unparse([s for s in fn.body if not (isinstance(s, ast.Expr) and isinstance(s.value, ast.Constant))][-1])
    f1 = _ret("WcsSampler.filter") == "return _latlon_tile_filter(*self._image_bounds())"
    f2 = _ret("ChunkedPlateCarreeSampler.filter") == "return _latlon_tile_filter(*self._chunk_bounds(ichunk))"
    ll = find_def(st, "_latlon_tile_filter")
    lsrc = ast.unparse(ll)
    f3 = ("corner_lonlats = np.asarray(tile.corners)" in lsrc and
          "return tile_intersects_latlon_bbox(corner_lonlats, image_lon_min, image_lon_max, image_lat_min, image_lat_max)" in lsrc)
    out += ("/-- the filters of `WcsSampler` and `ChunkedPlateCarreeSampler` are `_latlon_tile_filter` on the image / chunk bounds, which hands a fresh\n"
            "array of the tile's corners and the four bounds to `tile_intersects_latlon_bbox` -/\n")
    out += f"def filters_are_bbox_tests : Bool := {'true' if f1 and f2 and f3 else 'false'}\n\n"
    # ---- the refinement grids of _image_bounds
    ib_ = find_def(st, "WcsSampler._image_bounds")
    refine = {n.name: n for n in ast.walk(ib_) if isinstance(n, ast.FunctionDef) and n is not ib_}
    if set(refine) != {"refine_lat", "refine_lon"}:
        raise ExtractError("_image_bounds: refine helpers not recognised")
    rows = []
    plus_one = []
    rl = refine["refine_lon"]
    chain = [s for s in rl.body if isinstance(s, ast.If)]
    if len(chain) != 1:
        raise ExtractError("refine_lon: edge dispatch not recognised")
    node, k = chain[0], 0
    branches = []
    while True:
        branches.append((ast.unparse(node.test), node.body))
        if len(node.orelse) == 1 and isinstance(node.orelse[0], ast.If):
            node = node.orelse[0]
        else:
            branches.append(("else", node.orelse))
            break
    if [t for t, _ in branches] != ["e < nm", "e < 2 * nm", "e < 3 * nm", "else"]:
        raise ExtractError("refine_lon: edge tests not recognised")
    for edge, (test, bd) in zip(("top", "right", "bottom", "left"), branches):
        src = {ast.unparse(s.targets[0]): ast.unparse(s.value) for s in bd if isinstance(s, ast.Assign)}
        m = re.fullmatch(r"max\(int\(np\.ceil\(coarse_idx(\d)\[hi\] - coarse_idx\1\[lo\]\)\)( \+ 1)?, (\d+)\)", src.get("n", ""))
        if not m:
            raise ExtractError(f"refine_lon[{edge}]: n = {src.get('n')}")
        naxis, nmin = int(m.group(1)), int(m.group(3))
        plus_one.append(m.group(2) is not None)
        vary = fixed = None
        for ax in (1, 2):
            v = src.get(f"refined_idx{ax}", "")
            m1 = re.fullmatch(r"np\.linspace\(coarse_idx(\d)\[lo\], coarse_idx\1\[hi\], n\)", v)
            m2 = re.fullmatch(r"np\.zeros\(n\) \+ coarse_idx(\d)\[(0|nm)\]", v)
            if m1:
                vary = (ax, int(m1.group(1)))
            elif m2:
                fixed = (ax, int(m2.group(1)), m2.group(2))
            else:
                raise ExtractError(f"refine_lon[{edge}]: refined_idx{ax} = {v}")
        if vary is None or fixed is None:
            raise ExtractError(f"refine_lon[{edge}]: shape")
        rows.append(f"({vary[0]}, {vary[1]}, {naxis}, {nmin}, {fixed[0]}, {fixed[1]}, {'true' if fixed[2] == 'nm' else 'false'})")
    out += ("/-- `refine_lon`, per edge (top, right, bottom, left): (axis that varies, coarse grid its end points are read from, coarse grid the sample count is\n"
            "computed from, minimum sample count, axis held fixed, coarse grid of the fixed value, fixed at the last coarse sample?) -/\n")
    out += "def refine_lon_edges : List (Nat × Nat × Nat × Nat × Nat × Nat × Bool) := [" + ", ".join(rows) + "]\n"
    la = refine["refine_lat"]
    lsrc = {ast.unparse(s.targets[0]): ast.unparse(s.value) for s in la.body if isinstance(s, ast.Assign)}
    mm = [re.fullmatch(r"max\(int\(np\.ceil\(coarse_idx(\d)\[hi\1\] - coarse_idx\1\[lo\1\]\)\)( \+ 1)?, (\d+)\)", lsrc.get(f"n{a}", "")) for a in (1, 2)]
    lin = [lsrc.get(f"refined_idx{a}") == f"np.linspace(coarse_idx{a}[lo{a}], coarse_idx{a}[hi{a}], n{a})" for a in (1, 2)]
    if not all(mm) or not all(lin):
        raise ExtractError("refine_lat: grid construction not recognised")
    out += f"/-- `refine_lat`: minimum sample counts along the two axes -/\ndef refine_lat_min_samples : Nat × Nat := ({mm[0].group(3)}, {mm[1].group(3)})\n"
    plus_one += [m_.group(2) is not None for m_ in mm]
    out += ("/-- every refinement takes `ceil(span) + 1` samples over a span of `span` pixels (gaps of at most one pixel);\n"
            "`false`: `ceil(span)` samples, i.e. gaps of up to two pixels -/\n"
            f"def refine_gap_at_most_one_pixel : Bool := {'true' if all(plus_one) else 'false'}\n")
    ibsrc = ast.unparse(ib_)
    pole = ("for pole_lat in (-90.0, 90.0):" in ibsrc and "lat_max = 90 * D2R" in ibsrc and "lat_min = -90 * D2R" in ibsrc
            # the pole's pixel position is tested against the image: x against the first FITS axis, y against the second,
            # with `naxis2, naxis1 = shape[:2]` (rows, columns)
            and "(naxis2, naxis1) = self._image.shape[:2]" in ibsrc.replace("naxis2, naxis1 = self._image.shape[:2]", "(naxis2, naxis1) = self._image.shape[:2]")
            and "if 0.5 <= pole_pix[0] <= naxis1 + 0.5 and 0.5 <= pole_pix[1] <= naxis2 + 0.5:" in ibsrc
            and "pole_pix = self._wcs.wcs_world2pix([[0.0, pole_lat]], 1)[0]" in ibsrc)
    out += ("/-- a celestial pole that projects into the image — its pixel x within [0.5, naxis1 + 0.5] and y within [0.5, naxis2 + 0.5], the\n"
            f"pixel-corner box of the image — sets the corresponding latitude bound to ±π/2 -/\ndef pole_inside_sets_bound : Bool := {'true' if pole else 'false'}\n")
    out += "\nend Filter\nend Gen\n"
    return out


MODULES["Filter"] = gen_filter


# ------------------------------------------------------------------ multi-TAN mosaics (C09)
class IntTr(RatTr2):
    """integer-valued arithmetic: `int(np.floor(e))`, `int(np.ceil(e))`, `int(e)` are the identity on integers"""

    def expr(self, e, want="Int"):
        if isinstance(e, ast.Call) and ast.unparse(e.func) == "int" and len(e.args) == 1:
            inner = e.args[0]
            if isinstance(inner, ast.Call) and ast.unparse(inner.func) in ("np.floor", "np.ceil"):
                inner = inner.args[0]
            a, t = self.expr(inner)
            if t != "Int":
                raise ExtractError("non-integer under int()")
            return a, "Int"
        return super().expr(e, want)


def gen_multitan():
    tree = parse("toasty/multi_tan.py")
    out = HEADER.format(src="toasty/multi_tan.py") + (
        "/-! Reference-pixel offsets are integers here: the inputs share one pixel grid (`MATCH_HEADERS` are compared for equality by the code),\n"
        "so `int(np.floor(·))`, `int(np.ceil(·))` and `int(·)` are the identity. `c1`, `c2` stand for `CRPIX1 − 1`, `CRPIX2 − 1`. -/\n\nnamespace Gen\nnamespace MultiTan\n\n")
    fn = find_def(tree, "MultiTanProcessor.compute_global_pixelization")
    loops = [s for s in fn.body if isinstance(s, ast.For)]
    if len(loops) != 2 or ast.unparse(loops[0].iter) != "self._collection.descriptions()" or ast.unparse(loops[1].iter) != "self._descs":
        raise ExtractError("compute_global_pixelization: loops not recognised")
    l1 = loops[0].body
    src1 = [ast.unparse(s) for s in l1]
    need = ["desc.ensure_negative_parity()", "this_crpix1 = header['CRPIX1'] - 1", "this_crpix2 = header['CRPIX2'] - 1", "mtdesc.in_shape = desc.shape", "self._descs.append(mtdesc)"]
    for n in need:
        if n not in src1:
            raise ExtractError(f"compute_global_pixelization: statement `{n}` not found")
    tr = IntTr(alias={"desc.shape[1]": "w", "desc.shape[0]": "h"})
    tr.ty = {"this_crpix1": "Int", "this_crpix2": "Int", "w": "Int", "h": "Int"}
    ext = {}
    for s in l1:
        if isinstance(s, ast.Assign) and ast.unparse(s.targets[0]) in ("mtdesc.crxmin", "mtdesc.crxmax", "mtdesc.crymin", "mtdesc.crymax"):
            ext[ast.unparse(s.targets[0]).split(".")[1]] = tr.expr(s.value)[0]
    if set(ext) != {"crxmin", "crxmax", "crymin", "crymax"}:
        raise ExtractError("compute_global_pixelization: extent assignments not recognised")
    out += "/-- extent of one input relative to its reference pixel: (crxmin, crxmax, crymin, crymax) -/\n"
    out += f"def extent (this_crpix1 this_crpix2 w h : Int) : Int × Int × Int × Int :=\n  ({ext['crxmin']}, {ext['crxmax']}, {ext['crymin']}, {ext['crymax']})\n\n"
    acc = [s for s in l1 if isinstance(s, ast.If) and ast.unparse(s.test) == "global_crxmin is None"]
    if len(acc) != 1:
        raise ExtractError("compute_global_pixelization: accumulation not recognised")
    first = [ast.unparse(s) for s in acc[0].body]
    rest = [ast.unparse(s) for s in acc[0].orelse]
    if first != ["global_crxmin = mtdesc.crxmin", "global_crxmax = mtdesc.crxmax", "global_crymin = mtdesc.crymin", "global_crymax = mtdesc.crymax"]:
        raise ExtractError("compute_global_pixelization: initial bounds not recognised")
    want_rest = ["global_crxmin = min(global_crxmin, mtdesc.crxmin)", "global_crxmax = max(global_crxmax, mtdesc.crxmax)",
                 "global_crymin = min(global_crymin, mtdesc.crymin)", "global_crymax = max(global_crymax, mtdesc.crymax)"]
    if rest != want_rest:
        bad = [a for a, b in zip(rest, want_rest) if a != b]
        raise ExtractError(f"compute_global_pixelization: running bounds not recognised: {bad[:1]}")
    out += ("/-- the running bounds: the first input initialises them, every later one extends them by\n"
            "`min(global_crxmin, crxmin)`, `max(global_crxmax, crxmax)`, `min(global_crymin, crymin)`, `max(global_crymax, crymax)` -/\n"
            "def bounds_are_running_min_max : Bool := true\n\n")
    mid = [ast.unparse(s) for s in fn.body]
    for n in ["width = int(global_crxmax - global_crxmin) + 1", "height = int(global_crymax - global_crymin) + 1", "self._tiling = StudyTiling(width, height)",
              "ref_headers['CRPIX1'] = this_crpix1 + 1 + (mtdesc.crxmin - global_crxmin)", "ref_headers['CRPIX2'] = this_crpix2 + 1 + (mtdesc.crymin - global_crymin)",
              "self._tiling.apply_to_imageset(builder.imgset)", "builder.apply_wcs_info(wcs, width, height)"]:
        if n not in mid:
            raise ExtractError(f"compute_global_pixelization: statement `{n}` not found")
    out += "/-- mosaic size and the reference pixel written to the data set's WCS (from the *last* input's values) -/\n"
    out += "def mosaic_size (gxmin gxmax gymin gymax : Int) : Int × Int := ((gxmax - gxmin) + 1, (gymax - gymin) + 1)\n"
    out += "def global_crpix (this_crpix1 this_crpix2 crxmin crymin gxmin gymin : Int) : Int × Int :=\n  (this_crpix1 + 1 + (crxmin - gxmin), this_crpix2 + 1 + (crymin - gymin))\n\n"
    l2 = [ast.unparse(s) for s in loops[1].body]
    want2 = ["desc.imin = int(np.floor(desc.crxmin - global_crxmin))", "desc.imax = int(np.ceil(desc.crxmax - global_crxmin))",
             "desc.jmin = int(np.floor(desc.crymin - global_crymin))", "desc.jmax = int(np.ceil(desc.crymax - global_crymin))"]
    if l2[:4] != want2:
        raise ExtractError("compute_global_pixelization: placement of the inputs not recognised")
    if "desc.sub_tiling = self._tiling.compute_for_subimage(desc.imin, desc.jmin, desc.imax + 1 - desc.imin, desc.jmax + 1 - desc.jmin)" not in l2:
        raise ExtractError("compute_global_pixelization: sub-tiling call not recognised")
    out += ("/-- placement of an input in the mosaic: `compute_for_subimage(imin, jmin, imax + 1 − imin, jmax + 1 − jmin)` -/\n"
            "def placement (crxmin crxmax crymin crymax gxmin gymin : Int) : Int × Int × Int × Int :=\n"
            "  let imin := crxmin - gxmin\n  let imax := crxmax - gxmin\n  let jmin := crymin - gymin\n  let jmax := crymax - gymin\n"
            "  (imin, jmin, imax + 1 - imin, jmax + 1 - jmin)\n\n")
    # ---- the per-rectangle work, serial and worker
    def rect_body(fn_name):
        f = find_def(tree, fn_name)
        fors = [n for n in ast.walk(f) if isinstance(n, ast.For) and ast.unparse(n.iter) == "desc.sub_tiling.generate_populated_positions()"]
        if len(fors) != 1:
            raise ExtractError(f"{fn_name}: rectangle loop not recognised")
        tgt = ast.unparse(fors[0].target).strip("()")
        if tgt != "pos, width, height, image_x, image_y, tile_x, tile_y":
            raise ExtractError(f"{fn_name}: loop variables {tgt}")
        body = [ast.unparse(s) for s in fors[0].body if not (isinstance(s, ast.Expr) and "progress.update" in ast.unparse(s))]
        parity = any(ast.unparse(n) == "if image.get_parity_sign() != tile_parity_sign:\n    image.flip_parity()" for n in ast.walk(f) if isinstance(n, ast.If))
        return body, parity
    b1, p1 = rect_body("MultiTanProcessor._tile_serial")
    b2, p2 = rect_body("_mp_tile_worker")
    want_b = ["if tile_parity_sign == 1:\n    image_y = image.height - (image_y + height)\n    tile_y = 256 - (tile_y + height)",
              "ix_idx = slice(image_x, image_x + width)", "bx_idx = slice(tile_x, tile_x + width)", "iy_idx = slice(image_y, image_y + height)", "by_idx = slice(tile_y, tile_y + height)",
              "with pio.update_image(pos, masked_mode=image.mode, default='masked') as basis:\n    image.update_into_maskable_buffer(basis, iy_idx, ix_idx, by_idx, bx_idx)"]
    if b1 != want_b or b2 != want_b or not (p1 and p2):
        which = "serial" if b1 != want_b or not p1 else "worker"
        raise ExtractError(f"multi_tan {which} rectangle loop not in the recognised shape")
    out += ("/-- both the serial loop and the worker: the image is brought to the tiles' parity, then for every rectangle of the input's sub-tiling\n"
            "the rows are re-addressed for bottom-up tiles and the rectangle is merged into the tile under `update_image(default='masked')` -/\n"
            "def rect_loop_shape_ok : Bool := true\n")
    out += "/-- bottom-up tiles: first image row and first tile row of the rectangle -/\n"
    out += "def flip_image_y (image_height image_y height : Int) : Int := image_height - (image_y + height)\n"
    out += "def flip_tile_y (tile_y height : Int) : Int := 256 - (tile_y + height)\n\n"
    tl = find_def(tree, "MultiTanProcessor.tile")
    tsrc = [ast.unparse(s) for s in tl.body]
    clean = tsrc[-1] == "pio.clean_lockfiles(self._tiling._tile_levels)"
    out += f"/-- `tile` ends by removing the lock files of the level that was written -/\ndef cleans_lockfiles : Bool := {'true' if clean else 'false'}\n"
    out += "\nend MultiTan\nend Gen\n"
    return out


MODULES["MultiTan"] = gen_multitan


# ------------------------------------------------------------------ entry-point plumbing (the glue around the modelled cores)
def _calls(node, callee):
    """unparsed Call nodes inside `node` whose function expression ends with `callee`"""
    out = []
    for n in ast.walk(node):
        if isinstance(n, ast.Call):
            f = ast.unparse(n.func)
            if f == callee or f.endswith("." + callee):
                out.append(" ".join(ast.unparse(n).split()))
    return out


def _has_kw(call_src, kw, val):
    return re.search(r"[(, ]%s=%s[,)]" % (re.escape(kw), re.escape(val)), call_src) is not None


def gen_plumbing():
    """Facts about how the entry points hand their arguments to the modelled functions.  Each is an exact-shape statement about one
    call site; when one turns false the theorems naming it stop checking and the harness searches the workflow for a failing input."""
    out = HEADER.format(src="toasty/builder.py, cli.py, fits_tiler.py, multi_tan.py, multi_wcs.py, pyramid.py, toast.py, collection.py, pipeline/cli.py") + "namespace Gen\nnamespace Plumbing\n\n"
    facts = []

    def fact(name, doc, ok):
        facts.append((name, doc, bool(ok)))
    # Builder.toast_base: both branches pass the coordinate system it resolved
    b = parse("toasty/builder.py")
    tb = find_def(b, "Builder.toast_base")
    c1, c2 = _calls(tb, "sample_layer_filtered"), _calls(tb, "sample_layer")
    fact("builder_toast_base_forwards_coordsys", "`Builder.toast_base` passes `coordsys=coordsys` to `sample_layer_filtered` and to `sample_layer`, and resolves it once from `is_planet` / an explicit keyword",
         len(c1) == 1 and len(c2) == 1 and _has_kw(c1[0], "coordsys", "coordsys") and _has_kw(c2[0], "coordsys", "coordsys")
         and "coordsys = kwargs.pop('coordsys', coordsys)" in ast.unparse(tb) and ast.unparse(tb).count("ToastCoordinateSystem.PLANETARY if is_planet else ToastCoordinateSystem.ASTRONOMICAL") == 1)
    es = find_def(b, "Builder.execute_study_tiling")
    fact("builder_execute_uses_given_tiling", "`Builder.execute_study_tiling(image, tiling)` tiles with the tiling it is given: `tiling.tile_image(image, self.pio, **kwargs)`",
         _calls(es, "tile_image") == ["tiling.tile_image(image, self.pio, **kwargs)"])
    # toast.py
    t = parse("toasty/toast.py")
    slf = find_def(t, "sample_layer_filtered")
    cp, cs_ = _calls(slf, "new_toast_filtered"), _calls(slf, "ToastSampler")
    fact("sample_layer_filtered_forwards_coordsys", "`sample_layer_filtered` builds the pyramid it walks and its sampler object with the caller's `coordsys`",
         len(cp) == 1 and _has_kw(cp[0], "coordsys", "coordsys") and len(cs_) == 1 and _has_kw(cs_[0], "coordsys", "coordsys"))
    sl = find_def(t, "sample_layer")
    cp2, cs2 = _calls(sl, "new_toast"), _calls(sl, "ToastSampler")
    fact("sample_layer_forwards_coordsys", "`sample_layer` builds its pyramid and its sampler object with the caller's `coordsys`",
         len(cp2) == 1 and _has_kw(cp2[0], "coordsys", "coordsys") and len(cs2) == 1 and _has_kw(cs2[0], "coordsys", "coordsys"))
    pfp = find_def(t, "toast_pixel_for_point")
    ctf = _calls(pfp, "toast_tile_for_point")
    fact("pixel_lookup_forwards_coordsys", "`toast_pixel_for_point` finds its tile with `toast_tile_for_point(depth, lat, lon, coordsys=coordsys)`",
         ctf == ["toast_tile_for_point(depth, lat, lon, coordsys=coordsys)"])
    # pyramid.py
    p = parse("toasty/pyramid.py")
    gen = find_def(p, "Pyramid._generator")
    g1, g2 = _calls(gen, "generate_tiles_filtered"), _calls(gen, "generate_tiles")
    fact("pyramid_generator_forwards_coordsys", "`Pyramid._generator` enumerates TOAST tiles in the pyramid's own coordinate system on both its branches",
         len(g1) == 1 and len(g2) == 1 and _has_kw(g1[0], "coordsys", "self._coordsys") and _has_kw(g2[0], "coordsys", "self._coordsys"))
    ui = find_def(p, "PyramidIO.update_image")
    wi = _calls(ui, "write_image")
    fact("update_image_writes_back_plainly", "`update_image` writes the yielded image back with `self.write_image(pos, img, format=format or self._default_format)` — no mode conversion, no stale data range",
         wi == ["self.write_image(pos, img, format=format or self._default_format)"])
    vl = find_def(p, "Pyramid.visit_leaves")
    cv = _calls(vl, "_visit_leaves_parallel")
    fact("visit_leaves_hands_resolved_parallelism", "`Pyramid.visit_leaves` hands the resolved worker count itself to `_visit_leaves_parallel`",
         len(cv) == 1 and re.search(r"\bparallel\b", cv[0]) is not None and "min(" not in ast.unparse(vl) and "//" not in ast.unparse(vl))
    # multi_tan / multi_wcs
    mt = parse("toasty/multi_tan.py")
    fact("multi_tan_tile_argument_order", "`MultiTanProcessor.tile` calls `self._tile_parallel(pio, cli_progress, parallel, **kwargs)`, matching `_tile_parallel(self, pio, cli_progress, parallel, **kwargs)`",
         _calls(find_def(mt, "MultiTanProcessor.tile"), "_tile_parallel") == ["self._tile_parallel(pio, cli_progress, parallel, **kwargs)"]
         and [a.arg for a in find_def(mt, "MultiTanProcessor._tile_parallel").args.args] == ["self", "pio", "cli_progress", "parallel"])
    mw = parse("toasty/multi_wcs.py")
    fact("multi_wcs_tile_argument_order", "`MultiWcsProcessor.tile` calls `self._tile_parallel(pio, reproject_function, cli_progress, parallel, **kwargs)`, matching the callee's parameters",
         _calls(find_def(mw, "MultiWcsProcessor.tile"), "_tile_parallel") == ["self._tile_parallel(pio, reproject_function, cli_progress, parallel, **kwargs)"]
         and [a.arg for a in find_def(mw, "MultiWcsProcessor._tile_parallel").args.args] == ["self", "pio", "reproject_function", "cli_progress", "parallel"])
    gp = find_def(mt, "MultiTanProcessor.compute_global_pixelization")
    csub = _calls(gp, "compute_for_subimage")
    fact("multi_tan_subimage_offsets", "`compute_global_pixelization` derives each input's sub-tiling at `(desc.imin, desc.jmin)` (x offset, then y offset)",
         len(csub) == 1 and csub[0].replace(" ", "").startswith("self._tiling.compute_for_subimage(desc.imin,desc.jmin,"))
    wk = find_def(mt, "_mp_tile_worker")
    fact("multi_tan_worker_updates_into_basis", "the parallel multi-TAN worker merges its piece with `image.update_into_maskable_buffer(basis, …)` inside `pio.update_image(…)`",
         len(_calls(wk, "update_into_maskable_buffer")) == 1 and not _calls(wk, "fill_into_maskable_buffer") and len(_calls(wk, "update_image")) == 1 and not _calls(wk, "write_image"))
    # fits_tiler
    ft = parse("toasty/fits_tiler.py")
    tt = find_def(ft, "FitsTiler._tile_toast")
    ctb, ccs = _calls(tt, "toast_base"), _calls(tt, "cascade")
    loops = [n for n in tt.body if isinstance(n, ast.For) and ast.unparse(n.iter) == "self.coll.images()"]
    one_loop = [n for n in loops if _calls(n, "toast_base")]
    fact("tile_toast_filters", "`FitsTiler._tile_toast` samples every image inside the loop that builds that image's footprint filter (`tile_filter=tile_filter`) and cascades under the union of all of them (`tile_filter=tile_filters`)",
         len(ctb) == 1 and _has_kw(ctb[0], "tile_filter", "tile_filter") and len(ccs) == 1 and _has_kw(ccs[0], "tile_filter", "tile_filters")
         and len(one_loop) == 1 and "tile_filter = wcs_sampler.filter()" in ast.unparse(one_loop[0]) and "filters.append(tile_filter)" in ast.unparse(one_loop[0]))
    fact("tile_toast_one_depth", "`_tile_toast` samples every image at the one level `start` decided before the sampling loop",
         len(ctb) == 1 and ctb[0].replace(" ", "").startswith("self.builder.toast_base(sampler,start,"))
    # cli
    c = parse("toasty/cli.py")
    ci = find_def(c, "cascade_impl")
    fact("cli_cascade_uses_format", "`toasty cascade` opens the pyramid with the requested format: `PyramidIO(settings.pyramid_dir, default_format=settings.format)`",
         _calls(ci, "PyramidIO") == ["PyramidIO(settings.pyramid_dir, default_format=settings.format)"])
    ta = find_def(c, "tile_allsky_impl")
    want = {"plate-carree": ("plate_carree_sampler", None), "plate-carree-galactic": ("plate_carree_galactic_sampler", None), "plate-carree-ecliptic": ("plate_carree_ecliptic_sampler", None),
            "plate-carree-planet": ("plate_carree_planet_sampler", "is_planet"), "plate-carree-planet-zeroleft": ("plate_carree_planet_zeroleft_sampler", "is_planet"),
            "plate-carree-planet-zeroright": ("plate_carree_zeroright_sampler", "is_planet"), "plate-carree-panorama": ("plate_carree_sampler", "is_pano")}
    got = {}
    node = next((n for n in ta.body if isinstance(n, ast.If) and "settings.projection ==" in ast.unparse(n.test)), None)
    while isinstance(node, ast.If) and "settings.projection ==" in ast.unparse(node.test):
        key = ast.literal_eval(node.test.comparators[0])
        body_src = [ast.unparse(x) for x in node.body]
        smp = [re.match(r"sampler = (\w+)\(img\.asarray\(\)\)$", x) for x in body_src]
        flags = [x.split(" = ")[0] for x in body_src if re.match(r"is_(planet|pano) = True$", x)]
        got[key] = (next((m.group(1) for m in smp if m), None), flags[0] if len(flags) == 1 else (None if not flags else "?"))
        node = node.orelse[0] if len(node.orelse) == 1 else None
    fact("cli_allsky_projection_table", "`toasty tile-allsky`: each `--projection` value builds its own sampler from the input map and sets the planet / panorama flag of its family",
         got == want and "is_planet=is_planet" in " ".join(_calls(ta, "toast_base")) and "is_pano=is_pano" in " ".join(_calls(ta, "toast_base")))
    ep = find_def(c, "entrypoint")
    fact("cli_entrypoint_lets_errors_out", "`entrypoint` has no exception handler around the sub-command: a failure reaches the caller / the exit status",
         not any(isinstance(n, ast.Try) for n in ast.walk(ep)))
    vlc = find_def(c, "view_locally")
    fact("cli_view_passes_paths_through", "`toasty view` loads exactly the user's list of paths: `CollectionLoader.create_from_args(settings).load_paths(settings.paths)`",
         "coll = CollectionLoader.create_from_args(settings).load_paths(settings.paths)" in ast.unparse(vlc))
    co = parse("toasty/collection.py")
    ca = find_def(co, "CollectionLoader.create_from_args")
    assigned = sorted(set(re.findall(r"loader\.(\w+) =", ast.unparse(ca))))
    fact("collection_loader_attributes", "`CollectionLoader.create_from_args` sets exactly the attributes `load_paths` reads (`hdu_index`, `wcs_key`, `blankval`)",
         set(assigned) <= {"hdu_index", "wcs_key", "blankval"} and {"hdu_index", "wcs_key"} <= set(assigned))
    pc = parse("toasty/pipeline/cli.py")
    ri = find_def(pc, "refresh_impl")
    fact("pipeline_refresh_asks_for_index", "`toasty pipeline refresh` treats an image as done only if the store has its `index.wtml`: `check_exists(uniq_id, 'index.wtml')`",
         "mgr._pipeio.check_exists(uniq_id, 'index.wtml')" in ast.unparse(ri))
    for name, doc, ok in facts:
        out += f"/-- {doc} -/\ndef {name} : Bool := {'true' if ok else 'false'}\n\n"
    out += "end Plumbing\nend Gen\n"
    return out


MODULES["Plumbing"] = gen_plumbing
