"""further Gen modules register themselves into gen.MODULES"""
import ast
import re

from .gen import MODULES, HEADER, parse, find_def, ExtractError
from .py2lean import Translator


# ------------------------------------------------------------------ Collection (C20)
def _branch_assigns(stmts):
    out = {}
    for s in stmts:
        if isinstance(s, ast.Assign) and len(s.targets) == 1 and isinstance(s.targets[0], ast.Name):
            out[s.targets[0].id] = s.value
    return out


def _sel_expr(e, env, hdul_ok):
    """Translate the tiny expression language of _scan_hdus' selection branches into Lean.
    env: python source text -> (lean term, type in {'Int','List','OptInt','Str','ListStr','OptStr'})"""
    src = ast.unparse(e)
    if src in env:
        return env[src]
    if isinstance(e, ast.Subscript):
        base, tb = _sel_expr(e.value, env, hdul_ok)
        idx, ti = _sel_expr(e.slice, env, hdul_ok)
        if tb == "Hdul":
            if not hdul_ok:
                raise ExtractError("nested hdul subscript")
            # reading HDU number idx of the file: idx must be an integer (or optional integer)
            if ti == "Int":
                return (f"(some {idx})", "OptInt")
            if ti == "OptInt":
                return (idx, "OptInt")
            # a list used as an index: keep it, Lean will reject the definition (type error) —
            # that is the proof obligation breaking, the harness then searches for the failing input
            return (idx, ti)
        if tb == "List" and ti == "Nat":
            return (f"{base}[{idx}]?", "OptInt")
        if tb == "ListStr" and ti == "Nat":
            return (f"{base}[{idx}]?", "OptStr")
        raise ExtractError(f"unsupported subscript {src}")
    if isinstance(e, ast.Constant) and isinstance(e.value, str):
        return (f"\"{e.value}\"", "Str")
    raise ExtractError(f"unsupported selection expression {src}")


def gen_collection():
    tree = parse("toasty/collection.py")
    fn = find_def(tree, "SimpleFitsCollection._scan_hdus")
    out = HEADER.format(src="toasty/collection.py") + "namespace Gen\nnamespace Scan\n\n"
    # locate the `if isinstance(self._hdu_index, int): ... elif self._hdu_index is not None: ... else: for ...`
    chain = None
    for node in ast.walk(fn):
        if isinstance(node, ast.If) and ast.unparse(node.test) == "isinstance(self._hdu_index, int)":
            chain = node
    if chain is None:
        raise ExtractError("scalar branch of the HDU selection not found")
    if not (len(chain.orelse) == 1 and isinstance(chain.orelse[0], ast.If) and ast.unparse(chain.orelse[0].test) == "self._hdu_index is not None"):
        raise ExtractError("list branch of the HDU selection not found")
    lst = chain.orelse[0]
    sc = _branch_assigns(chain.body)
    li = _branch_assigns(lst.body)
    for br, name in ((sc, "scalar"), (li, "list")):
        if set(br) != {"hdu_index", "hdu"}:
            raise ExtractError(f"{name} branch assigns {sorted(br)}")
    # scalar branch: self._hdu_index : Int
    env = {"self._hdu_index": ("k", "Int"), "hdul": ("hdul", "Hdul"), "path_index": ("i", "Nat")}
    rep, t = _sel_expr(sc["hdu_index"], env, True)
    env2 = dict(env, hdu_index=(rep, t))
    rd, t2 = _sel_expr(sc["hdu"], env2, True)
    out += f"/-- scalar `hdu_index = k`: the index reported for file `i` -/\ndef scalar_reported (k : Int) (i : Nat) : Int := {rep}\n"
    out += f"/-- scalar `hdu_index = k`: the HDU actually read from file `i` -/\ndef scalar_read (k : Int) (i : Nat) : Option Int := {rd}\n\n"
    env = {"self._hdu_index": ("ks", "List"), "hdul": ("hdul", "Hdul"), "path_index": ("i", "Nat")}
    rep, t = _sel_expr(li["hdu_index"], env, True)
    env2 = dict(env, hdu_index=(rep, t))
    rd, t2 = _sel_expr(li["hdu"], env2, True)
    out += f"/-- list `hdu_index = ks`: the index reported for file `i` -/\ndef list_reported (ks : List Int) (i : Nat) : Option Int := {rep}\n"
    out += f"/-- list `hdu_index = ks`: the HDU actually read from file `i` -/\ndef list_read (ks : List Int) (i : Nat) : Option Int := {rd}\n\n"
    # guess branch: for hdu_index, hdu in enumerate(hdul): if COND: break
    if not (len(lst.orelse) == 1 and isinstance(lst.orelse[0], ast.For)):
        raise ExtractError("guess branch is not a single for loop")
    loop = lst.orelse[0]
    if ast.unparse(loop.target) != "(hdu_index, hdu)" or ast.unparse(loop.iter) != "enumerate(hdul)":
        raise ExtractError("guess loop header changed: " + ast.unparse(loop.target) + " in " + ast.unparse(loop.iter))
    if not (len(loop.body) == 1 and isinstance(loop.body[0], ast.If) and len(loop.body[0].body) == 1 and isinstance(loop.body[0].body[0], ast.Break) and not loop.orelse):
        raise ExtractError("guess loop body is not `if COND: break`")
    cond = ast.unparse(loop.body[0].test)
    c2 = cond.replace("hasattr(hdu, 'shape')", "(has_shape != 0)").replace("len(hdu.shape)", "ndim")
    c2 = re.sub(r"type\(hdu\) is not fits\.hdu\.table\.BinTableHDU", "(is_bintable == 0)", c2)
    tr = Translator("Int")
    e = ast.parse(c2, mode="eval").body
    body = tr.cond(e, {"vars": {"has_shape", "ndim", "is_bintable"}, "objs": {}, "poss": set()})
    out += ("/-- guess branch: an HDU is taken (loop `break`s) when this holds; arguments are\n"
            "`hasattr(hdu,'shape')`, `len(hdu.shape)`, `type(hdu) is BinTableHDU` (0/1) -/\n"
            f"def guess_accepts (has_shape ndim is_bintable : Int) : Bool :=\n  decide {body}\n\n")
    # rejection after the selection
    rej = [n for n in ast.walk(fn) if isinstance(n, ast.If) and ast.unparse(n.test) == "type(hdu) is fits.hdu.table.BinTableHDU" and isinstance(n.body[0], ast.Raise)]
    out += f"/-- a selected BinTableHDU is rejected with an exception -/\ndef rejects_bintable : Bool := {'true' if len(rej) == 1 else 'false'}\n\n"
    # WCS key
    wchain = None
    for node in ast.walk(fn):
        if isinstance(node, ast.If) and ast.unparse(node.test) == "isinstance(self._wcs_key, str)":
            wchain = node
    if wchain is None or not (len(wchain.orelse) == 1 and isinstance(wchain.orelse[0], ast.If) and ast.unparse(wchain.orelse[0].test) == "self._wcs_key is not None"):
        raise ExtractError("wcs-key selection chain changed")
    wl = wchain.orelse[0]
    a1, a2, a3 = _branch_assigns(wchain.body), _branch_assigns(wl.body), _branch_assigns(wl.orelse)
    if not (set(a1) == set(a2) == set(a3) == {"wcs_key"}):
        raise ExtractError("wcs-key branches assign something else")
    r1, _ = _sel_expr(a1["wcs_key"], {"self._wcs_key": ("k", "Str"), "path_index": ("i", "Nat")}, False)
    r2, _ = _sel_expr(a2["wcs_key"], {"self._wcs_key": ("ks", "ListStr"), "path_index": ("i", "Nat")}, False)
    r3, _ = _sel_expr(a3["wcs_key"], {}, False)
    out += f"def wcs_scalar (k : String) (i : Nat) : String := {r1}\n"
    out += f"def wcs_list (ks : List String) (i : Nat) : Option String := {r2}\n"
    out += f"def wcs_default : String := {r3}\n\n"
    # the yield and the shared loader
    ys = [n for n in ast.walk(fn) if isinstance(n, ast.Yield)]
    if len(ys) != 1 or ast.unparse(ys[0].value) != "(fits_path, hdu_index, hdu, wcs_key)":
        raise ExtractError("_scan_hdus yield changed")
    cls = None
    for n in tree.body:
        if isinstance(n, ast.ClassDef) and n.name == "SimpleFitsCollection":
            cls = n
    meth = {m.name: m for m in cls.body if isinstance(m, ast.FunctionDef)}
    shared = (ast.unparse(meth["descriptions"].body[-1]) == "return self._load(False)"
              and ast.unparse(meth["images"].body[-1]) == "return self._load(True)")
    loops = [n for n in ast.walk(meth["_load"]) if isinstance(n, ast.For) and ast.unparse(n.iter) == "self._scan_hdus()"]
    shared = shared and len(loops) == 1 and ast.unparse(loops[0].target) == "(fits_path, _hdu_index, hdu, wcs_key)"
    exp = ast.unparse(meth["export_simple"].body[-1]) == "return [(t[0], t[1]) for t in self._scan_hdus()]"
    out += ("/-- `descriptions()` and `images()` are `_load(False)` / `_load(True)`, and `_load` iterates\n`_scan_hdus()` once, using the HDU and key it yields -/\n"
            f"def desc_and_images_share_scan : Bool := {'true' if shared else 'false'}\n"
            f"/-- `export_simple()` lists `(path, hdu_index)` from the same `_scan_hdus()` -/\ndef export_uses_scan : Bool := {'true' if exp else 'false'}\n\n")
    out += "end Scan\nend Gen\n"
    return out


MODULES["Collection"] = gen_collection
