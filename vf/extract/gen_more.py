"""further Gen modules register themselves into gen.MODULES"""
