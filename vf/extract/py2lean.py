"""py2lean: translate a small, integer-only subset of Python (as found in
toasty's index-arithmetic kernels) into Lean 4 definitions.

Supported: straight-line assignments (incl. augmented and tuple targets),
`if/elif/else`, `return` (ints, tuples, `Pos(...)`, lists of those), `raise`
(makes the function `Option`-valued), `while <cond>` (becomes a fuelled
structural recursion; the fuel expression is supplied by the caller and the
property theorems prove that it suffices), generator functions made of nested
`for v in range(a, b)` loops with `continue`/`yield` (become `List.flatMap`
over `rangeI`), attribute reads/writes on a record (`self._x`), calls to other
translated functions, `max`/`min`/`int`/`abs`, `np.floor(e).astype(int)`,
`int(np.log2(e))`.

Integers are Lean `Int` (unbounded, like Python's).  `//` and `%` by a positive
literal become `/` and `%` (Euclidean = floor for a positive divisor, and
`omega` understands them); by anything else `Int.fdiv` / `Int.fmod`.  In `Nat`
mode (bit kernels) `-` is refused.

Anything else raises ExtractError: the caller records an extraction failure
for the properties that consume the fact.
"""
import ast
import textwrap


class ExtractError(Exception):
    pass


LEAN_KEYWORDS = {
    "at", "from", "end", "in", "do", "then", "else", "if", "fun", "let", "have",
    "show", "match", "with", "where", "def", "theorem", "open", "namespace",
    "section", "variable", "by", "instance", "structure", "class", "import",
    "mut", "for", "return", "Type", "Prop", "Sort", "local", "private", "deriving",
}


def lname(n):
    n = n.lstrip("_") or n
    if n in LEAN_KEYWORDS:
        return n + "'"
    return n


def find_def(tree, qualname):
    """Locate a (possibly nested Class.method) FunctionDef in a module AST."""
    parts = qualname.split(".")
    body = tree.body
    node = None
    for p in parts:
        node = None
        for s in body:
            if isinstance(s, (ast.FunctionDef, ast.ClassDef)) and s.name == p:
                node = s
                break
        if node is None:
            raise ExtractError(f"cannot find {qualname}")
        body = node.body
    if not isinstance(node, ast.FunctionDef):
        raise ExtractError(f"{qualname} is not a function")
    return node


class Record:
    """Description of a Python object translated to a Lean structure."""

    def __init__(self, lean_name, fields):
        self.lean_name = lean_name
        self.fields = fields  # python attr name -> lean field name


class FnSpec:
    def __init__(self, lean_name, kind="fn", partial=False, ret_struct=None):
        self.lean_name = lean_name
        self.kind = kind
        self.partial = partial  # returns Option
        self.ret_struct = ret_struct


class Translator:
    def __init__(self, mode="Int"):
        self.mode = mode  # "Int" or "Nat"
        self.records = {}  # python class name -> Record
        self.known = {}  # python callable name -> FnSpec
        self.aux = []  # auxiliary defs (loops)
        self.consts = {}  # python constant names -> value

    # ---------------------------------------------------------------- exprs
    def ty(self):
        return self.mode

    def lit(self, v):
        if isinstance(v, bool):
            return "true" if v else "false"
        if isinstance(v, int):
            if v < 0:
                if self.mode == "Nat":
                    raise ExtractError("negative literal in Nat mode")
                return f"(-{-v})"
            return str(v)
        raise ExtractError(f"unsupported literal {v!r}")

    def is_pos_lit(self, node):
        return isinstance(node, ast.Constant) and isinstance(node.value, int) and not isinstance(node.value, bool) and node.value > 0

    def expr(self, e, env):
        m = self.mode
        if isinstance(e, ast.Constant):
            return self.lit(e.value)
        if isinstance(e, ast.Name):
            if e.id in env["vars"] or e.id in env["objs"] or e.id in env.get("poss", ()):
                return lname(e.id)
            if e.id in self.consts:
                return self.lit(self.consts[e.id])
            raise ExtractError(f"unknown name {e.id}")
        if isinstance(e, ast.Attribute):
            # obj._field
            if isinstance(e.value, ast.Name) and e.value.id in env["objs"]:
                rec = env["objs"][e.value.id]
                if e.attr not in rec.fields:
                    raise ExtractError(f"unknown field {e.attr}")
                return f"{lname(e.value.id)}.{rec.fields[e.attr]}"
            # namedtuple-like access pos.n / pos.x / pos.y on a Pos variable
            if isinstance(e.value, ast.Name) and e.value.id in env.get("poss", ()):
                idx = {"n": "1", "x": "2.1", "y": "2.2"}.get(e.attr)
                if idx is None:
                    raise ExtractError(f"unknown Pos attr {e.attr}")
                return f"{lname(e.value.id)}.{idx}"
            raise ExtractError(f"unsupported attribute {ast.dump(e)}")
        if isinstance(e, ast.UnaryOp):
            if isinstance(e.op, ast.USub):
                if m == "Nat":
                    raise ExtractError("unary minus in Nat mode")
                return f"(-{self.expr(e.operand, env)})"
            if isinstance(e.op, ast.UAdd):
                return self.expr(e.operand, env)
            raise ExtractError("unsupported unary op in int context")
        if isinstance(e, ast.BinOp):
            a = self.expr(e.left, env)
            b = self.expr(e.right, env)
            op = e.op
            if isinstance(op, ast.Add):
                return f"({a} + {b})"
            if isinstance(op, ast.Sub):
                if m == "Nat":
                    raise ExtractError("subtraction in Nat mode")
                return f"({a} - {b})"
            if isinstance(op, ast.Mult):
                return f"({a} * {b})"
            if isinstance(op, ast.FloorDiv):
                if m == "Nat" or self.is_pos_lit(e.right):
                    return f"({a} / {b})"
                return f"(Int.fdiv {a} {b})"
            if isinstance(op, ast.Mod):
                if m == "Nat" or self.is_pos_lit(e.right):
                    return f"({a} % {b})"
                return f"(Int.fmod {a} {b})"
            if isinstance(op, ast.Pow):
                if m == "Nat":
                    return f"({a} ^ {b})"
                return f"({a} ^ (Int.toNat {b}))"
            if isinstance(op, ast.LShift):
                if m == "Nat":
                    return f"({a} <<< {b})"
                return f"({a} * 2 ^ (Int.toNat {b}))"
            if isinstance(op, ast.RShift):
                if m == "Nat":
                    return f"({a} >>> {b})"
                return f"({a} / 2 ^ (Int.toNat {b}))"
            if isinstance(op, ast.BitOr):
                if m == "Nat":
                    return f"({a} ||| {b})"
                raise ExtractError("| on Int")
            if isinstance(op, ast.BitAnd):
                if m == "Nat":
                    return f"({a} &&& {b})"
                if isinstance(e.right, ast.Constant) and e.right.value == 1:
                    return f"({a} % 2)"
                raise ExtractError("& on Int")
            raise ExtractError(f"unsupported binop {type(op).__name__}")
        if isinstance(e, ast.IfExp):
            return f"(if {self.cond(e.test, env)} then {self.expr(e.body, env)} else {self.expr(e.orelse, env)})"
        if isinstance(e, ast.Call):
            return self.call(e, env)
        if isinstance(e, ast.Tuple):
            return "(" + ", ".join(self.expr(x, env) for x in e.elts) + ")"
        if isinstance(e, ast.List):
            return "[" + ", ".join(self.expr(x, env) for x in e.elts) + "]"
        raise ExtractError(f"unsupported expression {ast.dump(e)[:80]}")

    def call(self, e, env):
        f = e.func
        # np.floor(X).astype(int)  ->  X
        if (
            isinstance(f, ast.Attribute)
            and f.attr == "astype"
            and isinstance(f.value, ast.Call)
            and isinstance(f.value.func, ast.Attribute)
            and f.value.func.attr == "floor"
        ):
            return self.expr(f.value.args[0], env)
        if isinstance(f, ast.Name):
            if f.id in ("max", "min") and len(e.args) == 2:
                return f"({f.id} {self.expr(e.args[0], env)} {self.expr(e.args[1], env)})"
            if f.id == "int" and len(e.args) == 1:
                a = e.args[0]
                # int(np.log2(X)) -> ilog2 X
                if (
                    isinstance(a, ast.Call)
                    and isinstance(a.func, ast.Attribute)
                    and a.func.attr == "log2"
                ):
                    return f"(ilog2 {self.expr(a.args[0], env)})"
                return self.expr(a, env)
            if f.id == "abs" and len(e.args) == 1:
                if self.mode == "Nat":
                    return self.expr(e.args[0], env)
                return f"(Int.ofNat (Int.natAbs {self.expr(e.args[0], env)}))"
            if f.id == "Pos":
                args = {}
                for i, a in enumerate(e.args):
                    args["nxy"[i]] = self.expr(a, env)
                for kw in e.keywords:
                    args[kw.arg] = self.expr(kw.value, env)
                return f"({args['n']}, {args['x']}, {args['y']})"
            if f.id in self.known:
                spec = self.known[f.id]
                if spec.partial:
                    raise ExtractError(f"partial call {f.id} must be bound by an assignment")
                return "(" + " ".join([spec.lean_name] + [self.expr(a, env) for a in e.args]) + ")"
        raise ExtractError(f"unsupported call {ast.dump(e)[:80]}")

    def cond(self, e, env):
        if isinstance(e, ast.BoolOp):
            op = " ∧ " if isinstance(e.op, ast.And) else " ∨ "
            return "(" + op.join(self.cond(v, env) for v in e.values) + ")"
        if isinstance(e, ast.UnaryOp) and isinstance(e.op, ast.Not):
            return f"(¬ {self.cond(e.operand, env)})"
        if isinstance(e, ast.Compare):
            parts = []
            left = e.left
            for op, right in zip(e.ops, e.comparators):
                sym = {
                    ast.Lt: "<", ast.LtE: "≤", ast.Gt: ">", ast.GtE: "≥",
                    ast.Eq: "=", ast.NotEq: "≠",
                }.get(type(op))
                if sym is None:
                    raise ExtractError("unsupported comparison")
                if isinstance(right, ast.Constant) and right.value is None:
                    raise ExtractError("comparison with None")
                parts.append(f"{self.expr(left, env)} {sym} {self.expr(right, env)}")
                left = right
            return "(" + " ∧ ".join(parts) + ")"
        if isinstance(e, ast.Constant) and isinstance(e.value, bool):
            return "True" if e.value else "False"
        # truthiness of an integer
        return f"({self.expr(e, env)} ≠ 0)"

    # ------------------------------------------------------------ statements
    @staticmethod
    def terminates(stmts):
        if not stmts:
            return False
        s = stmts[-1]
        if isinstance(s, (ast.Return, ast.Raise, ast.Continue)):
            return True
        if isinstance(s, ast.If):
            return Translator.terminates(s.body) and Translator.terminates(s.orelse)
        return False

    @staticmethod
    def assigned(stmts):
        out = []

        def add(n):
            if n not in out:
                out.append(n)

        for s in stmts:
            for node in ast.walk(s):
                if isinstance(node, (ast.Assign,)):
                    for t in node.targets:
                        for n in ast.walk(t):
                            if isinstance(n, ast.Name):
                                add(n.id)
                elif isinstance(node, ast.AugAssign) and isinstance(node.target, ast.Name):
                    add(node.target.id)
        return out

    def block(self, stmts, env, tail, ctx):
        """Translate a statement list; `tail(env)` gives the expression used
        when control falls off the end."""
        if not stmts:
            return tail(env)
        s, rest = stmts[0], stmts[1:]
        ind = "\n"
        if isinstance(s, ast.Expr):
            if isinstance(s.value, ast.Constant):  # docstring
                return self.block(rest, env, tail, ctx)
            if isinstance(s.value, ast.Yield):
                if ctx.get("kind") != "gen":
                    raise ExtractError("yield outside generator translation")
                return f"({self.expr(s.value.value, env)}) :: ({self.block(rest, env, tail, ctx)})"
            raise ExtractError("unsupported expression statement")
        if isinstance(s, ast.Assign):
            if len(s.targets) != 1:
                raise ExtractError("multiple targets")
            t = s.targets[0]
            return self.assign(t, s.value, rest, env, tail, ctx)
        if isinstance(s, ast.AugAssign):
            new = ast.BinOp(left=self._load(s.target), op=s.op, right=s.value)
            return self.assign(s.target, new, rest, env, tail, ctx)
        if isinstance(s, ast.If):
            c = self.cond(s.test, env)
            b1 = list(s.body) + ([] if self.terminates(s.body) else rest)
            b2 = list(s.orelse) + ([] if self.terminates(s.orelse) else rest)
            e1 = self.block(b1, self._copy(env), tail, ctx)
            e2 = self.block(b2, self._copy(env), tail, ctx)
            return f"if {c} then{ind}{textwrap.indent(e1, '  ')}{ind}else{ind}{textwrap.indent(e2, '  ')}"
        if isinstance(s, ast.Return):
            if ctx.get("kind") == "loop":
                raise ExtractError("return inside loop")
            v = self.expr(s.value, env) if s.value is not None else "()"
            return f"some ({v})" if ctx.get("partial") else v
        if isinstance(s, ast.Raise):
            if not ctx.get("partial"):
                raise ExtractError("raise in total function")
            return "none"
        if isinstance(s, ast.Continue):
            if ctx.get("kind") != "gen":
                raise ExtractError("continue outside generator")
            return "[]"
        if isinstance(s, ast.While):
            return self.while_(s, rest, env, tail, ctx)
        if isinstance(s, ast.For):
            if ctx.get("kind") != "gen":
                raise ExtractError("for loop outside generator translation")
            return self.for_gen(s, rest, env, tail, ctx)
        if isinstance(s, ast.Pass):
            return self.block(rest, env, tail, ctx)
        raise ExtractError(f"unsupported statement {type(s).__name__}")

    @staticmethod
    def _load(t):
        t2 = ast.parse(ast.unparse(t), mode="eval").body
        return t2

    @staticmethod
    def _copy(env):
        return {k: (set(v) if isinstance(v, set) else dict(v)) for k, v in env.items()}

    def assign(self, t, value, rest, env, tail, ctx):
        if isinstance(t, ast.Name):
            # constructor / partial call?
            if isinstance(value, ast.Call) and isinstance(value.func, ast.Name) and value.func.id in self.known:
                spec = self.known[value.func.id]
                args = " ".join(self.expr(a, env) for a in value.args)
                if spec.ret_struct:
                    env["objs"][t.id] = self.records[spec.ret_struct]
                else:
                    env["vars"].add(t.id)
                if spec.partial:
                    if not ctx.get("partial"):
                        raise ExtractError("partial call in total function")
                    k = self.block(rest, env, tail, ctx)
                    return f"match {spec.lean_name} {args} with\n| none => none\n| some {lname(t.id)} =>\n{textwrap.indent(k, '  ')}"
                k = self.block(rest, env, tail, ctx)
                return f"let {lname(t.id)} := {spec.lean_name} {args}\n{k}"
            v = self.expr(value, env)
            is_pos = isinstance(value, ast.Call) and isinstance(value.func, ast.Name) and value.func.id == "Pos"
            if is_pos:
                env.setdefault("poss", set()).add(t.id)
                k = self.block(rest, env, tail, ctx)
                return f"let {lname(t.id)} : {self.ty()} × {self.ty()} × {self.ty()} := {v}\n{k}"
            env["vars"].add(t.id)
            k = self.block(rest, env, tail, ctx)
            return f"let {lname(t.id)} : {self.ty()} := {v}\n{k}"
        if isinstance(t, ast.Attribute) and isinstance(t.value, ast.Name) and t.value.id in env["objs"]:
            rec = env["objs"][t.value.id]
            if t.attr not in rec.fields:
                raise ExtractError(f"unknown field {t.attr}")
            v = self.expr(value, env)
            o = lname(t.value.id)
            k = self.block(rest, env, tail, ctx)
            return f"let {o} : {rec.lean_name} := {{ {o} with {rec.fields[t.attr]} := {v} }}\n{k}"
        if isinstance(t, ast.Tuple) and all(isinstance(x, ast.Name) for x in t.elts):
            if isinstance(value, ast.Tuple) and len(value.elts) == len(t.elts):
                vals = [self.expr(x, env) for x in value.elts]
                tmp = [f"t{i}'" for i in range(len(vals))]
                out = "".join(f"let {a} : {self.ty()} := {v}\n" for a, v in zip(tmp, vals))
                for x, a in zip(t.elts, tmp):
                    env["vars"].add(x.id)
                    out += f"let {lname(x.id)} : {self.ty()} := {a}\n"
                return out + self.block(rest, env, tail, ctx)
            if isinstance(value, ast.Attribute) or isinstance(value, ast.Name):
                # n, x, y = pos.n, ... handled above; `a, b, c = pos` for Pos variable
                if isinstance(value, ast.Name) and value.id in env.get("poss", ()):
                    names = [x.id for x in t.elts]
                    for n in names:
                        env["vars"].add(n)
                    pat = ", ".join(lname(n) for n in names)
                    return f"let ({pat}) := {lname(value.id)}\n" + self.block(rest, env, tail, ctx)
        raise ExtractError(f"unsupported assignment target {ast.dump(t)[:60]}")

    def while_(self, s, rest, env, tail, ctx):
        if s.orelse:
            raise ExtractError("while-else")
        fuel = ctx.get("fuel")
        if not fuel:
            raise ExtractError("while loop without a fuel annotation")
        fuel_expr = fuel.pop(0)
        mod = [n for n in self.assigned(s.body)]
        for n in mod:
            if n not in env["vars"]:
                raise ExtractError(f"loop variable {n} not initialised before loop")
        free = sorted(v for v in env["vars"] if v not in mod)
        name = f"{ctx['fname']}.loop{len(self.aux) + 1}"
        tup = ", ".join(lname(n) for n in mod) if len(mod) > 1 else lname(mod[0])
        tupty = " × ".join([self.ty()] * len(mod))
        lenv = self._copy(env)
        body = self.block(list(s.body), lenv, lambda e: f"{name} {' '.join(lname(v) for v in free)} fuel ({tup})".replace("  ", " "), dict(ctx, kind="loop"))
        c = self.cond(s.test, env)
        params = " ".join(f"({lname(v)} : {self.ty()})" for v in free)
        aux = (
            f"def {name} {params} : Nat → {tupty} → {tupty}\n"
            f"  | 0, s => s\n"
            f"  | fuel + 1, ({tup}) =>\n"
            f"    if {c} then\n{textwrap.indent(body, '      ')}\n    else ({tup})\n"
        )
        self.aux.append(aux)
        k = self.block(rest, env, tail, ctx)
        call = f"{name} {' '.join(lname(v) for v in free)} ({fuel_expr}) ({tup})".replace("  ", " ")
        return f"let ({tup}) := {call}\n{k}" if len(mod) > 1 else f"let {tup} := {call}\n{k}"

    def for_gen(self, s, rest, env, tail, ctx):
        if not (isinstance(s.iter, ast.Call) and isinstance(s.iter.func, ast.Name) and s.iter.func.id == "range"):
            raise ExtractError("for over non-range")
        if not isinstance(s.target, ast.Name):
            raise ExtractError("for target")
        a = s.iter.args
        if len(a) == 1:
            lo, hi = "0", self.expr(a[0], env)
        elif len(a) == 2:
            lo, hi = self.expr(a[0], env), self.expr(a[1], env)
        else:
            raise ExtractError("range with step")
        lenv = self._copy(env)
        lenv["vars"].add(s.target.id)
        body = self.block(list(s.body), lenv, lambda e: "[]", ctx)
        k = self.block(rest, env, tail, ctx)
        head = f"(rangeI {lo} {hi}).flatMap (fun {lname(s.target.id)} =>\n{textwrap.indent(body, '  ')})"
        if k == "[]":
            return head
        return f"({head}) ++ ({k})"

    # --------------------------------------------------------------- drivers
    def function(self, node, lean_name, params=None, selfrec=None, ret=None, partial=None,
                 fuel=None, kind="fn", poss=(), init_struct=None, skip_stmts=0, doc=""):
        """Translate FunctionDef `node` into a Lean def called `lean_name`."""
        argnames = [a.arg for a in node.args.args]
        env = {"vars": set(), "objs": {}, "poss": set(poss)}
        plist = []
        for a in argnames:
            if a == "self":
                if init_struct:
                    continue
                if selfrec is None:
                    continue
                env["objs"]["self"] = self.records[selfrec]
                plist.append(f"(self : {self.records[selfrec].lean_name})")
            elif a in poss:
                plist.append(f"({lname(a)} : {self.ty()} × {self.ty()} × {self.ty()})")
            else:
                env["vars"].add(a)
                plist.append(f"({lname(a)} : {self.ty()})")
        has_raise = any(isinstance(n, ast.Raise) for n in ast.walk(node))
        if partial is None:
            partial = has_raise
        ctx = {"fname": lean_name, "partial": partial, "fuel": list(fuel or []), "kind": kind}
        stmts = list(node.body)[skip_stmts:]
        pre = ""
        if init_struct:
            rec = self.records[init_struct]
            env["objs"]["self"] = rec
            zero = ", ".join(f"{f} := 0" for f in rec.fields.values())
            pre = f"let self : {rec.lean_name} := {{ {zero} }}\n"

            def tail(e):
                return "some self" if partial else "self"
        elif kind == "gen":
            def tail(e):
                return "[]"
        else:
            def tail(e):
                raise ExtractError(f"{lean_name}: control falls off the end")
        n_aux_before = len(self.aux)
        body = pre + self.block(stmts, env, tail, ctx)
        if ret is None:
            ret = "_"
        rty = f"Option ({ret})" if partial and ret != "_" else ret
        sig = f"def {lean_name} {' '.join(plist)}" + (f" : {rty}" if rty != "_" else "")
        d = f"/-- {doc} -/\n" if doc else ""
        text = "".join(self.aux[n_aux_before:]) and "\n".join(self.aux[n_aux_before:]) + "\n"
        text += f"{d}{sig} :=\n{textwrap.indent(body, '  ')}\n"
        return text


PRELUDE = """/-- Python `range(lo, hi)` over `Int`. -/
def rangeI (lo hi : Int) : List Int :=
  (List.range (Int.toNat (hi - lo))).map (fun k => lo + (k : Int))

/-- `int(np.log2(x))` for a positive power of two (and, generally, ⌊log₂ x⌋). -/
def ilog2 (x : Int) : Int := (Nat.log2 x.toNat : Nat)
"""
