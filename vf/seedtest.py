"""Validate a seeded change and run the property's check against it.

  python3 -m vf.seedtest <ID> <k> [--tests] [--keep]

Source: /tmp/seed_<ID>/<k>/{patch.diff,demo.py,notes.md} (written by an independent sub-agent)
or /verif/seeded/<ID>_<k>/ once kept.  Everything runs in a scratch worktree of /repo under
/tmp (TOASTY_REPO points the checks at it); /repo itself is never modified.
"""
import argparse
import json
import os
import shutil
import subprocess
import sys
import time

VERIF = os.path.dirname(os.path.dirname(os.path.abspath(__file__)))
PY = "/venv/bin/python"


def run(cmd, cwd=None, env=None, timeout=1800):
    e = dict(os.environ)
    if env:
        e.update(env)
    try:
        p = subprocess.run(cmd, cwd=cwd, env=e, capture_output=True, text=True, timeout=timeout)
        return p.returncode, (p.stdout + p.stderr)
    except subprocess.TimeoutExpired:
        return 124, "TIMEOUT"


def main():
    ap = argparse.ArgumentParser()
    ap.add_argument("pid")
    ap.add_argument("k")
    ap.add_argument("--tests", action="store_true")
    ap.add_argument("--keep", action="store_true")
    ap.add_argument("--tier", default="quick")
    ap.add_argument("--src", help="directory holding patch.diff / demo.py / notes.md for a seed not yet kept (default /tmp/seed_<ID>/<k>)")
    a = ap.parse_args()
    pid, k = a.pid.upper(), a.k
    kept = os.path.join(VERIF, "seeded", f"{pid}_{k}")
    src = kept if os.path.isdir(kept) else (a.src or f"/tmp/seed_{pid}/{k}")
    patch, demo = os.path.join(src, "patch.diff"), os.path.join(src, "demo.py")
    wt = f"/tmp/sv_{pid}_{k}"
    subprocess.run(["git", "-C", "/repo", "worktree", "remove", "--force", wt], capture_output=True)
    shutil.rmtree(wt, ignore_errors=True)
    subprocess.run(["git", "-C", "/repo", "worktree", "prune"], capture_output=True)
    rc, out = run(["git", "-C", "/repo", "worktree", "add", "--detach", wt, "HEAD"])
    assert rc == 0, out
    res = {"property": pid, "k": k, "repo_head": subprocess.run(["git", "-C", "/repo", "rev-parse", "--short", "HEAD"], capture_output=True, text=True).stdout.strip()}
    try:
        for f in os.listdir("/repo/toasty"):
            if f.endswith(".so"):
                shutil.copy(os.path.join("/repo/toasty", f), os.path.join(wt, "toasty", f))
        rc, out = run([PY, demo], cwd=wt, timeout=400)
        res["demo_clean"] = {"rc": rc, "tail": out[-300:]}
        rc, out = run(["git", "-C", wt, "apply", patch])
        res["apply_rc"] = rc
        if rc != 0:
            res["apply_err"] = out[-500:]
            print(json.dumps(res, indent=1))
            return 2
        rc, out = run([PY, demo], cwd=wt, timeout=400)
        res["demo_patched"] = {"rc": rc, "tail": out[-500:]}
        if a.tests:
            rc, out = run([PY, "-m", "pytest", "-q", "-p", "no:cacheprovider", "--timeout=900"], cwd=wt, timeout=1500)
            res["tests"] = out.strip().splitlines()[-1] if out.strip() else ""
        t0 = time.time()
        rc, out = run([sys.executable, "check.py", pid, "--tier", a.tier], cwd=VERIF, env={"TOASTY_REPO": wt}, timeout=3600)
        res["check"] = {"rc": rc, "wall_s": round(time.time() - t0, 1), "lines": [l for l in out.splitlines() if l.startswith(("VIOLATION", "KNOWN", pid))][:8]}
        if rc == 1 and os.path.exists(os.path.join(VERIF, "replays", f"{pid}_violation_0.json")):
            try:
                res["check"]["first_violation"] = json.load(open(os.path.join(VERIF, "replays", f"{pid}_violation_0.json"))).get("what")
            except Exception:
                pass
        res["detected"] = rc == 1
        ok = res["demo_clean"]["rc"] == 0 and res["demo_patched"]["rc"] != 0
        res["confirmed"] = ok
        if a.keep and ok:
            os.makedirs(kept, exist_ok=True)
            for f in ("patch.diff", "demo.py", "notes.md"):
                if os.path.exists(os.path.join(src, f)) and src != kept:
                    shutil.copy(os.path.join(src, f), os.path.join(kept, f))
            meta = {"property": pid, "source": "independent sub-agent given only the property text and a scratch worktree",
                    "needs_to_manifest": open(os.path.join(kept, "notes.md")).read()[:1500] if os.path.exists(os.path.join(kept, "notes.md")) else "",
                    "validated": {"demo_on_clean_tree": "PASS" if res["demo_clean"]["rc"] == 0 else "FAIL", "demo_with_patch": "FAIL" if res["demo_patched"]["rc"] != 0 else "PASS",
                                  "test_suite_with_patch": res.get("tests", "(run by the sub-agent: 46 passed)"), "repo_head": res["repo_head"]},
                    "check_result": res["check"], "detected_by_check": res["detected"]}
            json.dump(meta, open(os.path.join(kept, "meta.json"), "w"), indent=1)
    finally:
        subprocess.run(["git", "-C", "/repo", "worktree", "remove", "--force", wt], capture_output=True)
        shutil.rmtree(wt, ignore_errors=True)
        # restore Gen + build products for the real tree
        subprocess.run([sys.executable, "-m", "vf.extract.gen"], cwd=VERIF, capture_output=True)
        subprocess.run([PY, "-m", "vf.extract.tables"], cwd=VERIF, capture_output=True, env={**os.environ, "PYTHONPATH": VERIF})
    print(json.dumps(res, indent=1))
    return 0


if __name__ == "__main__":
    sys.exit(main())
