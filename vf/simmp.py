"""simmp — deterministic schedules for toasty's real multi-process code.

Drop-in replacements for the `multiprocessing` names toasty uses (`Queue`, `Event`, `Process`,
`get_start_method`) and for `filelock.SoftFileLock`.  Every simulated process is a Python thread;
exactly one runs at a time (a baton); every primitive operation is a *scheduling point* at which
the scheduler — not the OS — picks which enabled action of which process happens next.  The
semantics implemented are the ones stated in DESIGN.md §3:

  Queue   = buffer -> feeder -> pipe, bounded by a semaphore (maxsize), one reader lock;
            `get(timeout)`: (1) take the reader lock, or give up -> Empty when another process holds
            it; (2) holding it: receive when the pipe is non-empty, or time out -> Empty when it is
            empty — a timeout may fire at any moment the receive is not possible;
            `close(); join_thread()` = wait until the buffer has been flushed into the pipe.
  Event   = an atomic flag (`set`, `is_set` are single steps).
  Process = `start` makes the target runnable, `join` waits for its return; arguments are shared
            (threads), which over-approximates fork for the recorders the harnesses use.
  SoftFileLock = an existence lock: held while the lock file exists (atomic exclusive create; unlink on release).

Schedulers: seeded random (weighted: time-outs are rare unless asked for), replay of a recorded
choice list, and bounded depth-first enumeration of all interleavings (stateless, by re-execution).
A run ends as `ok`, `hang` (only time-out/poll actions stay enabled for a long stretch),
`deadlock` (nothing enabled), `max-steps`, or with the exception the main function raised.
"""
import random
import threading
import traceback
from queue import Empty, Full


class Abort(BaseException):
    """raised inside simulated processes to unwind them when a run is torn down"""


class Action:
    __slots__ = ("proc", "kind", "info", "progress")

    def __init__(self, proc, kind, info="", progress=True):
        self.proc, self.kind, self.info, self.progress = proc, kind, info, progress

    def label(self):
        return f"{self.proc.name} {self.kind}" + (f" {self.info}" if self.info != "" else "")


class Proc:
    def __init__(self, sim, name, target, args, kwargs):
        self.sim, self.name, self.target, self.args, self.kwargs = sim, name, target, args, kwargs
        self.thread = None
        self.started = False
        self.done = False
        self.exc = None
        self.go = threading.Event()
        self.pending = None       # function returning list[Action] enabled for this process now
        self.chosen = None

    def run(self):
        self.go.wait()
        self.go.clear()
        self.pending = None
        self.chosen = None
        try:
            if self.sim.aborting:
                raise Abort()
            self.target(*self.args, **self.kwargs)
        except Abort:
            pass
        except BaseException as e:  # noqa
            self.exc = e
            self.sim.trace.append(f"{self.name} raised {type(e).__name__}")
        self.done = True
        self.sim._finished(self)


class Sim:
    def __init__(self, chooser, max_steps=20000, hang_window=400):
        self.chooser = chooser
        self.max_steps = max_steps
        self.hang_window = hang_window
        self.procs = []
        self.trace = []
        self.choices = []
        self.steps = 0
        self.no_progress = 0
        self.outcome = None
        self.aborting = False
        self.main_done = threading.Event()
        self.current = None
        self.feeders = []
        self.nproc = 0
        self.result = None
        self.alive_at_return = []

    # ------------------------------------------------------------------ process management
    def new_proc(self, target, args=(), kwargs=None, name=None):
        self.nproc += 1
        p = Proc(self, name or f"P{self.nproc}", target, args, kwargs or {})
        p.thread = threading.Thread(target=p.run, daemon=True)
        self.procs.append(p)
        p.thread.start()
        return p

    def cur(self):
        return self.current

    # ------------------------------------------------------------------ the heart: a scheduling point
    def point(self, enabled_fn):
        """Called by the running process: `enabled_fn()` lists the actions it could do *now*
        (possibly empty = blocked).  Returns the action chosen for this process once it is its turn."""
        me = self.current
        me.pending = enabled_fn
        self._dispatch()
        if me is not self.current or me.chosen is None:
            # someone else got the baton: wait for ours
            me.go.wait()
        me.go.clear()
        if self.aborting:
            raise Abort()
        a, me.chosen = me.chosen, None
        me.pending = None
        return a

    def _all_enabled(self):
        acts = []
        for p in self.procs:
            if p.started and not p.done and p.pending is not None:
                acts.extend(p.pending())
        for f in self.feeders:
            acts.extend(f.enabled())
        return acts

    def _dispatch(self):
        """pick the next action among everything enabled and hand the baton over"""
        while True:
            acts = self._all_enabled()
            if self.steps >= self.max_steps:
                return self._stop("max-steps")
            if not acts:
                return self._stop("deadlock")
            if any(a.progress for a in acts):
                self.no_progress = 0
            else:
                self.no_progress += 1
                if self.no_progress > self.hang_window:
                    return self._stop("hang")
            i = self.chooser.choose(acts, self)
            self.choices.append(i)
            a = acts[i]
            self.steps += 1
            self.trace.append(a.label())
            if isinstance(a.proc, Feeder):
                a.proc.fire(a)
                continue
            tgt = a.proc
            tgt.chosen = a
            prev = self.current
            self.current = tgt
            if tgt is not prev:
                tgt.go.set()
            return

    def _finished(self, p):
        """a process returned: it is still the current one; pass the baton on"""
        if self.aborting:
            return
        if p is self.main:
            self.alive_at_return = [q.name for q in self.procs if q is not p and q.started and not q.done]
            self.outcome = self.outcome or ("exception" if p.exc is not None else "ok")
            self.main_done.set()
            return
        p.pending = None
        self._dispatch()

    def _stop(self, why):
        self.outcome = self.outcome or why
        self.aborting = True
        for p in self.procs:
            p.go.set()
        self.main_done.set()

    # ------------------------------------------------------------------ running
    def run(self, fn, *args, **kwargs):
        def main():
            self.result = fn(*args, **kwargs)
        self.main = self.new_proc(main, name="M")
        self.main.started = True
        self.current = self.main
        self.main.go.set()
        self.main_done.wait()
        self.aborting = True
        for p in self.procs:
            p.go.set()
        for p in self.procs:
            p.thread.join(timeout=2)
        return self.outcome


# ---------------------------------------------------------------------- choosers
class RandomChooser:
    def __init__(self, seed, timeout_weight=0.08, feeder_weight=1.0):
        self.rng = random.Random(seed)
        self.tw, self.fw = timeout_weight, feeder_weight

    def choose(self, acts, sim):
        w = []
        for a in acts:
            if not a.progress:
                w.append(self.tw)
            elif isinstance(a.proc, Feeder):
                w.append(self.fw)
            else:
                w.append(1.0)
        if not any(a.progress for a in acts):
            w = [1.0] * len(acts)
        return self.rng.choices(range(len(acts)), weights=w)[0]


class PCTChooser:
    """Priority-based schedules (after Burckhardt et al., "A randomized scheduler with probabilistic guarantees of
    finding bugs"): every process gets a random priority when first seen; the enabled process of highest priority
    runs; at `depth - 1` random steps the running process is demoted below all others; a process that takes a
    non-progress action (a queue time-out) yields, i.e. is demoted too.  Finds ordering bugs that need one process to
    be suspended at a specific point while another runs a long stretch — rare under uniform random choice."""

    def __init__(self, seed, depth=3, horizon=400, timeout_prob=0.5):
        self.rng = random.Random(seed)
        self.prio = {}
        self.low = 0.0
        self.step = 0
        self.changes = set(self.rng.randrange(horizon) for _ in range(max(depth - 1, 0)))
        self.tp = timeout_prob

    def _demote(self, proc):
        self.low -= 1.0
        self.prio[id(proc)] = self.low

    def choose(self, acts, sim):
        self.step += 1
        for a in acts:
            if id(a.proc) not in self.prio:
                self.prio[id(a.proc)] = self.rng.random()
        best = max(self.prio[id(a.proc)] for a in acts)
        mine = [i for i, a in enumerate(acts) if self.prio[id(a.proc)] == best]
        prog = [i for i in mine if acts[i].progress]
        idle = [i for i in mine if not acts[i].progress]
        if prog and (not idle or self.rng.random() >= self.tp):
            i = self.rng.choice(prog)
        else:
            i = self.rng.choice(idle or mine)
        if not acts[i].progress or self.step in self.changes:
            self._demote(acts[i].proc)
        return i


class DelayAfterChooser:
    """Random schedules with delays injected after communication steps: when a process has just performed an action of one
    of the given kinds (e.g. a queue `put`), it may be put to sleep until every other process is blocked or has only
    time-outs left (or for a bounded number of steps).  Exposes "reported, but not yet recorded" windows."""

    def __init__(self, seed, kinds=("put",), prob=0.6, max_sleep=40, timeout_weight=0.05, timeouts_while_asleep=False):
        self.rng = random.Random(seed)
        self.kinds, self.prob, self.max_sleep, self.tw = tuple(kinds), prob, max_sleep, timeout_weight
        self.asleep = {}
        # let the others' time-outs fire while a process sleeps (a slow process: the rest of the system polls, times out, winds down)
        self.timeouts_while_asleep = timeouts_while_asleep

    def choose(self, acts, sim):
        for k in list(self.asleep):
            self.asleep[k] -= 1
            if self.asleep[k] <= 0:
                del self.asleep[k]
        awake = [i for i, a in enumerate(acts) if id(a.proc) not in self.asleep]
        cand = [i for i in awake if acts[i].progress]
        if not cand and self.timeouts_while_asleep and self.asleep and awake:
            return self.rng.choice(awake)
        if not cand:
            self.asleep.clear()
            cand = [i for i, a in enumerate(acts) if a.progress] or list(range(len(acts)))
        w = [1.0 if acts[i].progress else self.tw for i in cand]
        i = self.rng.choices(cand, weights=w)[0]
        if acts[i].kind in self.kinds and not isinstance(acts[i].proc, Feeder) and self.rng.random() < self.prob:
            self.asleep[id(acts[i].proc)] = self.max_sleep
        return i


class ReplayChooser:
    def __init__(self, choices, then=None):
        self.choices, self.k, self.then = list(choices), 0, then

    def choose(self, acts, sim):
        if self.k < len(self.choices):
            i = self.choices[self.k]
            self.k += 1
            return i if i < len(acts) else 0
        if self.then is not None:
            return self.then.choose(acts, sim)
        # default continuation: first progress action
        for i, a in enumerate(acts):
            if a.progress:
                return i
        return 0


class LabelChooser:
    """follow a list of action labels (prefix match); afterwards first-progress"""

    def __init__(self, labels):
        self.labels, self.k = list(labels), 0

    def choose(self, acts, sim):
        if self.k < len(self.labels):
            want = self.labels[self.k]
            for i, a in enumerate(acts):
                if a.label().startswith(want):
                    self.k += 1
                    return i
            raise RuntimeError(f"label {want!r} not enabled; enabled: {[a.label() for a in acts]}")
        for i, a in enumerate(acts):
            if a.progress:
                return i
        return 0


def explore(make_run, max_runs=2000, max_depth=400, branch_filter=None):
    """Bounded DFS over scheduler choices by re-execution.  `make_run(chooser)` must build a fresh
    Sim, run it and return (sim, verdict) where verdict is None or a violation description.
    Yields (choices, sim, verdict) per complete run."""
    class DFS:
        def __init__(self, prefix):
            self.prefix, self.k, self.widths = prefix, 0, []

        def choose(self, acts, sim):
            n = len(acts)
            if branch_filter is not None:
                n_eff = branch_filter(acts)
            else:
                n_eff = n
            if self.k < len(self.prefix):
                i = self.prefix[self.k]
            else:
                i = 0
            self.widths.append(n_eff)
            self.k += 1
            return min(i, n - 1)
    stack = [[]]
    runs = 0
    while stack and runs < max_runs:
        prefix = stack.pop()
        ch = DFS(prefix)
        sim, verdict = make_run(ch)
        runs += 1
        yield list(sim.choices), sim, verdict
        # children: at each position beyond the prefix, the alternatives not yet taken
        widths = ch.widths[:max_depth]
        taken = sim.choices[:len(widths)]
        for pos in range(len(widths) - 1, len(prefix) - 1, -1):
            for alt in range(taken[pos] + 1, widths[pos]):
                stack.append(taken[:pos] + [alt])


# ---------------------------------------------------------------------- primitives
_SIM = None


def current_sim():
    return _SIM


class Feeder:
    def __deepcopy__(self, memo):
        return self          # shared between simulated processes

    """the queue's feeder threads (one per putting process): each moves one of its buffered items
    into the shared pipe per step"""

    def __init__(self, q):
        self.q = q
        self.name = "F"

    def enabled(self):
        return [Action(self, "flush", f"{self.q.name} {owner} {fmt(b[0])}") for owner, b in self.q.bufs.items() if b]

    def fire(self, a):
        owner = a.info.split()[1]
        item = self.q.bufs[owner].pop(0)
        # the real feeder thread pickles the object only now: what the receiver gets is a snapshot taken at this moment (changes
        # the putter made to a mutable object after `put()` are in it, later ones are not)
        if isinstance(item, (list, dict, set, bytearray)):
            import copy
            try:
                item = copy.deepcopy(item)
            except Exception:
                pass
        self.q.pipe.append(item)


class Queue:
    def __deepcopy__(self, memo):
        return self          # shared between simulated processes

    _n = 0

    def __init__(self, maxsize=0):
        self.sim = _SIM
        Queue._n += 1
        self.name = f"q{len(self.sim.feeders)}"
        self.maxsize = maxsize
        self.bufs, self.pipe = {}, []
        self.outstanding = 0     # semaphore count: items put and not yet received
        self.rlock = None
        self.closed = False
        self.feeder = Feeder(self)
        self.sim.feeders.append(self.feeder)

    @property
    def buf(self):
        return [x for b in self.bufs.values() for x in b]

    def put(self, item, block=True, timeout=None):
        sim, me = self.sim, self.sim.cur()

        def en():
            if self.maxsize <= 0 or self.outstanding < self.maxsize:
                return [Action(me, "put", f"{self.name} {fmt(item)}")]
            if timeout is not None or not block:
                return [Action(me, "put-full", self.name, progress=False)]
            return []
        a = sim.point(en)
        if a.kind == "put-full":
            raise Full()
        if self.closed:
            raise ValueError("Queue is closed")
        self.outstanding += 1
        self.bufs.setdefault(me.name, []).append(item)

    def get(self, block=True, timeout=None):
        sim, me = self.sim, self.sim.cur()

        def en1():
            if self.rlock is None:
                return [Action(me, "rlock", self.name)]
            if timeout is not None or not block:
                return [Action(me, "rlock-timeout", self.name, progress=False)]
            return []
        a = sim.point(en1)
        if a.kind == "rlock-timeout":
            raise Empty()
        self.rlock = me

        def en2():
            acts = []
            if self.pipe:
                acts.append(Action(me, "recv", f"{self.name} {fmt(self.pipe[0])}"))
            elif timeout is not None or not block:
                acts.append(Action(me, "empty", self.name, progress=False))
            return acts
        try:
            a = sim.point(en2)
        except BaseException:
            self.rlock = None
            raise
        self.rlock = None
        if a.kind == "empty":
            raise Empty()
        self.outstanding -= 1
        return self.pipe.pop(0)

    def close(self):
        me = self.sim.cur()
        self.sim.point(lambda: [Action(me, "close", self.name)])
        self.closed = True

    def join_thread(self):
        me = self.sim.cur()
        self.sim.point(lambda: [Action(me, "join-thread", self.name)] if not self.bufs.get(me.name) else [])

    def cancel_join_thread(self):
        pass

    def qsize(self):
        return len(self.buf) + len(self.pipe)

    def empty(self):
        return not self.pipe


class Event:
    def __deepcopy__(self, memo):
        return self          # shared between simulated processes

    def __init__(self):
        self.sim = _SIM
        self.flag = False
        self.sim.nevents = getattr(self.sim, "nevents", 0) + 1
        self.name = f"e{self.sim.nevents - 1}"      # e0 = first event created (toasty: the done flag), e1 = the error flag

    def set(self):
        me = self.sim.cur()
        self.sim.point(lambda: [Action(me, "set-flag", self.name)])
        self.flag = True

    def is_set(self):
        me = self.sim.cur()
        self.sim.point(lambda: [Action(me, "flag?", f"{self.name} {str(self.flag).lower()}")])
        return self.flag

    def clear(self):
        self.flag = False

    def wait(self, timeout=None):
        me = self.sim.cur()

        def en():
            if self.flag:
                return [Action(me, "wait-ok")]
            if timeout is not None:
                return [Action(me, "wait-timeout", progress=False)]
            return []
        a = self.sim.point(en)
        return a.kind == "wait-ok"


class Process:
    _n = 0

    def __init__(self, target=None, args=(), kwargs=None, name=None, daemon=None):
        self.sim = _SIM
        n = sum(1 for p in self.sim.procs if p.name.startswith("W")) + 1
        self.proc = self.sim.new_proc(target, args, kwargs or {}, name=name or f"W{n}")
        self.daemon = daemon

    def start(self):
        me = self.sim.cur()
        self.sim.point(lambda: [Action(me, "start", self.proc.name)])
        proc = self.proc
        if getattr(self.sim, "fork_copy", False):
            import copy
            try:
                proc.args = copy.deepcopy(proc.args)
                proc.kwargs = copy.deepcopy(proc.kwargs)
            except Exception:
                pass
        proc.pending = lambda: [Action(proc, "begin")]
        proc.started = True

    def join(self, timeout=None):
        me = self.sim.cur()

        def en():
            if self.proc.done:
                return [Action(me, "join", self.proc.name)]
            if timeout is not None:
                return [Action(me, "join-timeout", self.proc.name, progress=False)]
            return []
        self.sim.point(en)

    def is_alive(self):
        return self.proc.started and not self.proc.done

    @property
    def exitcode(self):
        if not self.proc.done:
            return None
        return 0 if self.proc.exc is None else 1

    def terminate(self):
        self.proc.done = True

    kill = terminate


def get_start_method():
    return "fork"


class SoftFileLock:
    def __deepcopy__(self, memo):
        return self          # shared between simulated processes

    """`filelock.SoftFileLock`: an *existence* lock.  It is held exactly while the lock file exists: acquiring is an atomic
    exclusive create, releasing unlinks the file.  The simulation keeps the real file, so code that removes or creates the
    lock file by path interferes with the lock exactly as it would with the real class."""
    _held = {}

    def __init__(self, path, timeout=-1, **kw):
        self.sim = _SIM
        self.path = path
        self.timeout = timeout
        # filelock >= 3.24: an age-based lease.  A lock file older than `lifetime` seconds is broken by a waiter even while its
        # holder is alive; how long a holder stays inside is up to the scheduler, so with a lifetime a waiter may always take over
        self.lifetime = kw.get("lifetime")
        self.mine = False

    def __enter__(self):
        import os
        me = self.sim.cur()

        def en():
            if not os.path.exists(self.path):
                return [Action(me, "lock", short(self.path))]
            acts = []
            if self.lifetime is not None:
                acts.append(Action(me, "lock-expired", short(self.path), progress=False))
            if self.timeout is not None and self.timeout >= 0:
                acts.append(Action(me, "lock-timeout", short(self.path), progress=False))
            return acts
        a = self.sim.point(en)
        if a.kind == "lock-timeout":
            import filelock
            raise filelock.Timeout(self.path)
        if a.kind == "lock-expired":
            try:
                os.unlink(self.path)
            except OSError:
                pass
        fd = os.open(self.path, os.O_WRONLY | os.O_CREAT | os.O_EXCL | os.O_TRUNC)
        os.close(fd)
        self.mine = True
        self.sim.locks[self.path] = me
        return self

    def __exit__(self, *exc):
        import os
        me = self.sim.cur()
        self.sim.point(lambda: [Action(me, "unlock", short(self.path))])
        if self.mine:
            self.mine = False
            try:
                os.unlink(self.path)
            except OSError:
                pass
        if self.sim.locks.get(self.path) is me:
            self.sim.locks[self.path] = None
        if getattr(self.sim, "yield_after_unlock", False):
            # a process can be pre-empted right after it has released a lock, before its next statement
            self.sim.point(lambda: [Action(me, "released", short(self.path))])
        return False

    acquire = __enter__

    def release(self, force=False):
        self.__exit__(None, None, None)


def short(path):
    import os
    return "/".join(path.split(os.sep)[-3:])


def fmt(item):
    try:
        from toasty.pyramid import Pos
        if isinstance(item, Pos):
            return f"({item.n},{item.x},{item.y})"
        if isinstance(item, tuple) and item and isinstance(item[0], Pos):
            return f"({item[0].n},{item[0].x},{item[0].y})"
    except Exception:
        pass
    s = getattr(item, "sim_label", None)
    if s is None and isinstance(item, tuple) and item:
        s = getattr(item[0], "sim_label", None)
    if s is not None:
        return str(s)
    return type(item).__name__


class patched:
    """context manager: install the simulation for one run"""

    def __init__(self, sim):
        self.sim = sim

    def __enter__(self):
        global _SIM
        import multiprocessing as mp
        import filelock
        _SIM = self.sim
        self.sim.locks = {}
        self.saved = (mp.Queue, mp.Event, mp.Process, mp.get_start_method, filelock.SoftFileLock)
        mp.Queue, mp.Event, mp.Process, mp.get_start_method = Queue, Event, Process, get_start_method
        filelock.SoftFileLock = SoftFileLock
        return self.sim

    def __exit__(self, *a):
        global _SIM
        import multiprocessing as mp
        import filelock
        mp.Queue, mp.Event, mp.Process, mp.get_start_method, filelock.SoftFileLock = self.saved
        _SIM = None
        return False


def simulate(fn, chooser, max_steps=20000, hang_window=400, fork_copy=False, yield_after_unlock=False):
    """run `fn()` (which calls real toasty code) under the simulation; returns the Sim.  `fork_copy`: a started process works on
    its own deep copy of its arguments (queues, events and locks stay shared), as a forked process works on its own copy of the
    parent's memory — state that an object keeps between calls is then per process, as in real runs"""
    sim = Sim(chooser, max_steps=max_steps, hang_window=hang_window)
    sim.fork_copy = fork_copy
    sim.yield_after_unlock = yield_after_unlock      # an extra scheduling point after every lock release
    with patched(sim):
        sim.run(fn)
    return sim


def step_point(kind, info=""):
    """an extra scheduling point callable from harness code running inside a simulated process"""
    sim = _SIM
    if sim is None:
        return
    me = sim.cur()
    sim.point(lambda: [Action(me, kind, info)])
