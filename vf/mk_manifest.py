"""Write MANIFEST.json from vf/props.py (run: python3 -m vf.mk_manifest)."""
import json
import os
import subprocess

from .props import PROPS, LEVEL_TEXT

VERIF = os.path.dirname(os.path.dirname(os.path.abspath(__file__)))
ALL = [json.loads(l)["id"] for l in open(os.path.join(VERIF, "properties.jsonl"))]


def main():
    try:
        commits = subprocess.run(["git", "-C", "/repo", "log", "--format=%h %s", "28acb99..HEAD"], capture_output=True, text=True).stdout.strip().splitlines()
    except Exception:
        commits = []
    checks = []
    for pid in ALL:
        if pid not in PROPS:
            continue
        cfg = PROPS[pid]
        lt = LEVEL_TEXT[pid]
        checks.append({
            "property_id": pid,
            "quick_cmd": f"python3 check.py {pid} --tier quick",
            "thorough_cmd": f"python3 check.py {pid} --tier thorough",
            "evidence_file": f"evidence/{pid}.json",
            "replay_cmd_template": f"python3 check.py {pid} --replay {{path}}",
            "engine": "lean4-proof+correspondence",
            "level_claimed": {"category": "proof", "text": lt["text"], "design_ref": f"DESIGN.md §5 {pid}"},
            "level_note": lt["note"],
            "technique": lt["technique"],
        })
    na = [{"property_id": pid, "reason": "no check registered yet in this revision (machinery for it is not built); not claimed"} for pid in ALL if pid not in PROPS]
    m = {
        "version": 1,
        "setup_cmd": "cd lean && lake build ToastyVerif",
        "hooks": {
            "guard": "TOASTY_VERIF",
            "enable": "none needed: no source hooks; harnesses patch multiprocessing/filelock/os.listdir from outside and subclass PyramidIO/PipelineIo",
            "baseline_off_cmd": "cd /repo && /venv/bin/python -m pytest -ra -q -p no:cacheprovider --timeout=900 --continue-on-collection-errors",
            "source_commits": [],
            "add_only": True,
        },
        "engines": [{
            "name": "lean4-proof+correspondence", "path": "lean/ (theorems), vf/extract (source→Lean translator), vf/harness (correspondence + failing-input search)",
            "serves_properties": [c["property_id"] for c in checks],
            "kind_free_text": "Lean 4 theorems over definitions regenerated from /repo's source on every run (Gen) and hand-written executable models tied to the code by differential execution through a line-protocol driver",
        }],
        "checks": checks,
        "not_applicable": na,
        "notes": "fix: commits in /repo (genuine defects found by these checks, see known_findings.json): " + "; ".join(commits),
    }
    with open(os.path.join(VERIF, "MANIFEST.json"), "w") as f:
        json.dump(m, f, indent=1)
    print(f"{len(checks)} checks, {len(na)} not claimed")


if __name__ == "__main__":
    main()
