"""python3-vt -m vf.validate : validate MANIFEST.json and evidence/*.json against the schemas."""
import glob, json, sys, os
import jsonschema
V = os.path.dirname(os.path.dirname(os.path.abspath(__file__)))
ok = True
try:
    jsonschema.validate(json.load(open(f"{V}/MANIFEST.json")), json.load(open("/root/.vp/MANIFEST.schema.json")))
except Exception as e:
    ok = False; print("MANIFEST:", str(e)[:300])
es = json.load(open("/root/.vp/EVIDENCE.schema.json"))
for p in sorted(glob.glob(f"{V}/evidence/*.json")):
    try:
        jsonschema.validate(json.load(open(p)), es)
    except Exception as e:
        ok = False; print(p, str(e)[:300])
print("valid" if ok else "INVALID")
sys.exit(0 if ok else 1)
