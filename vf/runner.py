"""Runner shared by every property check.

    python3 check.py <ID> [--tier quick|thorough] [--replay FILE]

Steps (DESIGN.md §4.8):
  1. regenerate lean/ToastyVerif/Gen from /repo's working tree (extractor);
  2. `lake build ToastyVerif.Props.<ID>`; kernel re-checks every theorem against
     what the code says now;
  3. axiom / forbidden-token audit of the property theorems;
  4. correspondence harness (`/venv/bin/python -m vf.harness.<id>`): runs the
     real toasty code and the executable Lean model on the same inputs;
  5. if 1-3 or the model/implementation correspondence broke: failing-input
     search result decides between `VIOLATION … replay=<input>` and
     `VIOLATION … no-failing-input-found`;
  6. evidence file.

Exit 0 / exit 1 with VIOLATION lines / exit 2 for infrastructure trouble.
"""
import argparse
import fcntl
import json
import os
import re
import subprocess
import sys
import time

VERIF = os.path.dirname(os.path.dirname(os.path.abspath(__file__)))
LEAN = os.path.join(VERIF, "lean")
REPO = os.environ.get("TOASTY_REPO", "/repo")
VENV_PY = os.environ.get("TOASTY_PYTHON", "/venv/bin/python")
ALLOWED_AXIOMS = {"propext", "Classical.choice", "Quot.sound"}
FORBIDDEN = re.compile(r"\b(sorry|admit|native_decide|bv_decide|implemented_by|unsafe)\b|^\s*axiom\s|maxHeartbeats\s+0")


def sh(cmd, timeout=None, cwd=None, env=None, input=None):
    e = dict(os.environ)
    if env:
        e.update(env)
    p = subprocess.run(cmd, cwd=cwd, env=e, input=input, capture_output=True, text=True, timeout=timeout)
    return p.returncode, p.stdout, p.stderr


class Lock:
    def __init__(self):
        self.f = None

    def __enter__(self):
        self.f = open(os.path.join(VERIF, ".runlock"), "w")
        fcntl.flock(self.f, fcntl.LOCK_EX)
        return self

    def __exit__(self, *a):
        fcntl.flock(self.f, fcntl.LOCK_UN)
        self.f.close()


def strip_comments(text):
    text = re.sub(r"/-.*?-/", "", text, flags=re.S)
    text = re.sub(r"--.*", "", text)
    return text


def lean_files_of(mod_files):
    return [os.path.join(LEAN, f) for f in mod_files]


def theorems_in(path):
    txt = strip_comments(open(path).read())
    ns = None
    out = []
    # honour a single top-level namespace per file (our convention)
    m = re.search(r"^namespace\s+(\S+)", txt, flags=re.M)
    if m:
        ns = m.group(1)
    for m in re.finditer(r"^\s*theorem\s+([A-Za-z_][A-Za-z0-9_.']*)", txt, flags=re.M):
        out.append((ns + "." if ns else "") + m.group(1))
    return out


def regen(prop_cfg):
    """Step 1.  Returns (ok, info)."""
    t0 = time.time()
    rc, out, err = sh([sys.executable, "-m", "vf.extract.gen"], cwd=VERIF, timeout=300)
    info = {"rc": rc, "wall_s": round(time.time() - t0, 2)}
    try:
        info["status"] = json.load(open(os.path.join(LEAN, "ToastyVerif", "Gen", "STATUS.json")))
    except Exception as e:  # pragma: no cover
        info["status"] = {}
        info["error"] = str(e)
    # runtime tables need toasty importable
    pp = [VERIF] + ([REPO] if os.path.realpath(REPO) != "/repo" else []) + [os.environ.get("PYTHONPATH", "")]
    rc2, out2, err2 = sh([VENV_PY, "-m", "vf.extract.tables"], cwd=VERIF, timeout=300,
                         env={"PYTHONPATH": os.pathsep.join(x for x in pp if x), "TOASTY_REPO": REPO})
    info["tables_rc"] = rc2
    if rc2 != 0:
        info["tables_err"] = (out2 + err2)[-2000:]
    try:
        info["status"].update(json.load(open(os.path.join(LEAN, "ToastyVerif", "Gen", "STATUS_tables.json"))))
    except Exception:
        pass
    bad = {m: s for m, s in info["status"].items() if not s.get("ok") and m in prop_cfg.get("gen", [])}
    for m, s in bad.items():
        s.pop("trace", None)
    info["failed_modules"] = bad
    for s in info["status"].values():
        s.pop("trace", None)
    return (rc == 0 and rc2 == 0 and not bad), info


def lake_build(target, timeout=1500):
    t0 = time.time()
    rc, out, err = sh(["lake", "build", target], cwd=LEAN, timeout=timeout)
    if rc != 0:
        # a second lake process working in the same directory can make a build fail transiently;
        # a genuine failure fails again
        time.sleep(1.0)
        rc, out, err = sh(["lake", "build", target], cwd=LEAN, timeout=timeout)
    txt = out + err
    errors = [l for l in txt.splitlines() if l.startswith("error:")]
    return rc == 0, {"rc": rc, "wall_s": round(time.time() - t0, 2), "errors": errors[:40], "tail": txt[-3000:] if rc else ""}


def audit(prop_id, cfg):
    """Step 3: #print axioms on every theorem of Props/<ID>.lean + token grep over
    every hand-written Lean file."""
    files = cfg.get("props_files", [prop_id])
    thms = []
    for f in files:
        thms += theorems_in(os.path.join(LEAN, "ToastyVerif", "Props", f + ".lean"))
    src = "".join(f"import ToastyVerif.Props.{f}\n" for f in files) + "".join(f"#print axioms {t}\n" for t in thms)
    tmp = os.path.join(LEAN, f".audit_{prop_id}.lean")
    with open(tmp, "w") as f:
        f.write(src)
    try:
        rc, out, err = sh(["lake", "env", "lean", tmp], cwd=LEAN, timeout=900)
    finally:
        try:
            os.unlink(tmp)
        except OSError:
            pass
    txt = out + err
    results = {}
    # "'X' depends on axioms: [a, b]" or "'X' does not depend on any axioms"
    for m in re.finditer(r"'([^']+(?:'[^' ]*)*)' (depends on axioms: \[([^\]]*)\]|does not depend on any axioms)", txt):
        name = m.group(1)
        axs = [a.strip() for a in (m.group(3) or "").replace("\n", " ").split(",") if a.strip()]
        results[name] = axs
    bad_axioms = {t: a for t, a in results.items() if set(a) - ALLOWED_AXIOMS}
    missing = [t for t in thms if t not in results]
    # forbidden tokens anywhere in the library
    hits = []
    for root, _d, files in os.walk(os.path.join(LEAN, "ToastyVerif")):
        for fn in files:
            if fn.endswith(".lean"):
                p = os.path.join(root, fn)
                for i, line in enumerate(strip_comments(open(p).read()).splitlines(), 1):
                    if FORBIDDEN.search(line):
                        hits.append(f"{os.path.relpath(p, LEAN)}:{i}: {line.strip()[:100]}")
    ok = rc == 0 and not bad_axioms and not missing and not hits
    return ok, {
        "theorems": thms, "axioms": results, "bad_axioms": bad_axioms, "missing": missing,
        "forbidden_tokens": hits, "rc": rc, "tail": txt[-1500:] if rc else "",
    }


def load_known():
    p = os.path.join(VERIF, "known_findings.json")
    try:
        return json.load(open(p))
    except FileNotFoundError:
        return {"findings": [], "fixed": []}


def run_harness(prop_id, tier, seed, mode="check", replay=None, timeout=None):
    mod = f"vf.harness.{prop_id.lower()}"
    outp = os.path.join(VERIF, "replays", f".harness_{prop_id}_{os.getpid()}.json")
    cmd = [VENV_PY, "-m", mod, "--tier", tier, "--seed", str(seed), "--mode", mode, "--out", outp]
    if replay:
        cmd += ["--replay", replay]
    t0 = time.time()
    pp = [VERIF] + ([REPO] if os.path.realpath(REPO) != "/repo" else []) + [os.environ.get("PYTHONPATH", "")]
    env = {"PYTHONPATH": os.pathsep.join(x for x in pp if x), "TOASTY_VERIF_DIR": VERIF, "TOASTY_REPO": REPO}
    try:
        p = subprocess.run(cmd, cwd=VERIF, env={**os.environ, **env}, capture_output=True, text=True, timeout=timeout)
        rc, out, err = p.returncode, p.stdout, p.stderr
    except subprocess.TimeoutExpired as e:
        return None, {"timeout": True, "wall_s": round(time.time() - t0, 1), "stderr": str(e)[-500:]}
    res = None
    try:
        res = json.load(open(outp))
    except Exception:
        pass
    finally:
        try:
            os.unlink(outp)
        except OSError:
            pass
    return res, {"rc": rc, "wall_s": round(time.time() - t0, 1), "stderr": err[-3000:], "stdout": out[-1500:]}


def write_replay(prop_id, name, payload):
    d = os.path.join(VERIF, "replays")
    os.makedirs(d, exist_ok=True)
    p = os.path.join(d, f"{prop_id}_{name}.json")
    with open(p, "w") as f:
        json.dump(payload, f, indent=1, sort_keys=True, default=str)
    return p


def main(argv=None):
    with Lock():
        return _main(argv)


def _main(argv=None):
    from .props import PROPS
    ap = argparse.ArgumentParser()
    ap.add_argument("prop")
    ap.add_argument("--tier", default=os.environ.get("VERIF_TIER", "quick"), choices=["quick", "thorough"])
    ap.add_argument("--replay")
    args = ap.parse_args(argv)
    pid = args.prop.upper()
    if pid not in PROPS:
        print(f"unknown property {pid}", file=sys.stderr)
        return 2
    cfg = PROPS[pid]
    seed = int(os.environ.get("VERIF_SEED", "0") or 0)
    t0 = time.time()

    if args.replay:
        res, hinfo = run_harness(pid, args.tier, seed, mode="replay", replay=args.replay, timeout=3600)
        print(json.dumps(res, indent=1, default=str) if res else hinfo)
        if res and res.get("violations"):
            print(f"VIOLATION property={pid} replay={args.replay}")
            return 1
        return 0 if res else 2

    import glob
    for old in glob.glob(os.path.join(VERIF, "replays", f"{pid}_*.json")):
        os.unlink(old)
    broken = []  # list of (what, detail)
    if True:
        ok_gen, gen_info = regen(cfg)
        if not ok_gen:
            if gen_info.get("failed_modules"):
                broken.append(("extraction", gen_info["failed_modules"]))
            elif gen_info["rc"] != 0 or gen_info.get("tables_rc"):
                broken.append(("extraction", {"error": gen_info.get("tables_err", "extractor crashed")}))
        ok_build, build_info = True, {"wall_s": 0, "errors": [], "tail": ""}
        for f in cfg.get("props_files", [pid]):
            okb, bi = lake_build(f"ToastyVerif.Props.{f}")
            ok_build = ok_build and okb
            build_info["wall_s"] += bi["wall_s"]
            build_info["errors"] += bi["errors"]
            build_info["tail"] += bi["tail"]
        # the driver must be compiled against the Gen definitions of *this* run
        ok_drv, drv_info = lake_build("ToastyVerif.Driver.Ops")
        if not ok_drv and ok_build:
            broken.append(("driver-build", {"errors": drv_info["errors"][:10]}))
        if not ok_build:
            broken.append(("proof", {"errors": build_info["errors"], "tail": build_info["tail"][-1500:]}))
            audit_info = {"theorems": [t for f in cfg.get("props_files", [pid]) for t in theorems_in(os.path.join(LEAN, "ToastyVerif", "Props", f + ".lean"))], "axioms": {}}
            ok_audit = False
        else:
            ok_audit, audit_info = audit(pid, cfg)
            if not ok_audit:
                broken.append(("audit", {k: audit_info[k] for k in ("bad_axioms", "missing", "forbidden_tokens", "tail")}))
        if args.tier == "thorough" and ok_build:
            rc, out, err = sh(["lake", "env", "leanchecker", f"ToastyVerif.Props.{pid}"], cwd=LEAN, timeout=3000)
            audit_info["leanchecker_rc"] = rc
            if rc != 0:
                broken.append(("leanchecker", {"tail": (out + err)[-1500:]}))

    # Step 4 (and 5): the harness both checks correspondence and evaluates the
    # property's executable oracle against the real code; when the proof side
    # broke it is asked to search harder.
    mode = "search" if broken else "check"
    tmo = cfg.get("timeout", {}).get(args.tier, 1500 if args.tier == "quick" else 7200)
    res, hinfo = run_harness(pid, args.tier, seed, mode=mode, timeout=tmo)
    if res is None:
        if hinfo.get("timeout"):
            print(f"harness for {pid} timed out: {hinfo}", file=sys.stderr)
            return 2
        # The correspondence check could not be carried out against this source (the harness, which drives the real
        # code, ended with an exception): the correspondence no longer checks.  Reported like any other broken
        # obligation for which no failing input was produced; the traceback goes into the replay.
        print(f"harness for {pid} did not produce a result: {hinfo}", file=sys.stderr)
        res = {"property": pid, "evaluations": 0, "distinct_nontrivial": 0, "rule": "(the harness ended with an exception before producing a result)",
               "samples": [], "violations": [], "correspondence_failures": [{"stream": "harness-run", "detail": {"error": (hinfo.get("stderr") or "")[-2500:]}, "explained_by": None}],
               "distribution": {}, "correspondence": {}, "traces_validated": 0, "assumptions": [], "exhaustive": None, "wall_s": hinfo.get("wall_s", 0)}

    known = load_known()
    known_keys = {(k["property"], k["key"]): k for k in known.get("findings", [])}
    violations = []
    known_hit = []
    for v in res.get("violations", []):
        kk = (pid, v.get("key"))
        if kk in known_keys:
            known_hit.append((v, known_keys[kk]))
        else:
            violations.append(v)
    for c in res.get("correspondence_failures", []):
        broken.append(("correspondence", c))

    lines = []
    for v, k in known_hit:
        lines.append(f"KNOWN-FINDING: property={pid} {k.get('what', v.get('what', ''))}")
    seen = set()
    for v, _k in known_hit:
        seen.add(v.get("key"))
    out_viol = 0
    for i, v in enumerate(violations[:5]):
        rp = write_replay(pid, f"violation_{i}", {"property": pid, "kind": "failing-input", **v,
                                                   "replay_cmd": f"python3 check.py {pid} --replay <this file>"})
        lines.append(f"VIOLATION property={pid} replay={rp}")
        out_viol += 1
    if broken and not violations:
        # a break that is fully explained by known findings is not reported again
        unexplained = [b for b in broken if not (b[0] == "correspondence" and b[1].get("explained_by") in seen)]
        if unexplained:
            rp = write_replay(pid, "unchecked", {
                "property": pid, "kind": "no-failing-input-found",
                "broken": [{"what": w, "detail": d} for w, d in unexplained],
                "note": "the theorem / correspondence named here no longer checks against the current source; the failing-input search found no concrete counterexample",
                "search": {k: res.get(k) for k in ("evaluations", "distinct_nontrivial")},
            })
            lines.append(f"VIOLATION property={pid} replay={rp} no-failing-input-found")
            out_viol += 1

    thms = audit_info.get("theorems", [])
    discharged = len([t for t in thms if t in audit_info.get("axioms", {}) and not (set(audit_info["axioms"][t]) - ALLOWED_AXIOMS)]) if ok_build else 0
    cov = {
        "obligations": len(thms),
        "discharged": discharged,
        "checker_cmd": f"cd lean && lake build ToastyVerif.Props.{pid} && lake env lean <#print axioms for every theorem of Props/{pid}.lean>" + (" && lake env leanchecker ToastyVerif.Props." + pid if args.tier == "thorough" else ""),
        "trusted_base": cfg.get("trusted_base", []) + [
            "Lean 4.33.0 kernel; axioms allowed: propext, Classical.choice, Quot.sound (audited per theorem below)",
            "vf/extract (py2lean translator + runtime table extraction) — every generated definition is also executed differentially against the Python original",
            "vf/harness correspondence + oracles; vf/simmp multiprocessing model where used",
        ],
        "theorems": {t: audit_info.get("axioms", {}).get(t) for t in thms},
        "gen_status": {m: s.get("ok") for m, s in gen_info.get("status", {}).items()},
        "evaluations": int(res.get("evaluations", 0)),
        "distinct_nontrivial": int(res.get("distinct_nontrivial", 0)),
        "rule": res.get("rule", ""),
        "samples": res.get("samples", [])[:8] or ["(none)"],
        "traces_validated_against_impl": int(res.get("traces_validated", 0)),
        "distribution": res.get("distribution", {}),
        "correspondence": res.get("correspondence", {}),
        "partial": cfg.get("partial", ""),
        "broken": [{"what": w, "detail": d} for w, d in broken],
        "known_findings_hit": [v.get("key") for v, _ in known_hit],
        "harness_wall_s": hinfo.get("wall_s"),
        "build": {"gen_s": gen_info.get("wall_s"), "lake_s": build_info.get("wall_s")},
    }
    if res.get("exhaustive") is not None:
        cov["exhaustive"] = bool(res["exhaustive"])
    ev = {
        "property_id": pid, "tier": args.tier, "seed": seed, "level": "proof",
        "coverage": cov,
        "assumptions": cfg.get("assumptions", []) + res.get("assumptions", []),
        "wall_s": round(time.time() - t0, 2),
        "violations": out_viol,
    }
    os.makedirs(os.path.join(VERIF, "evidence"), exist_ok=True)
    # runs against a scratch tree (seed validation) must not overwrite the evidence of the real tree
    ev_path = os.path.join(VERIF, "evidence", pid + ".json") if os.path.realpath(REPO) == "/repo" else os.path.join(VERIF, "replays", f"scratch_evidence_{pid}.json")
    with open(ev_path, "w") as f:
        json.dump(ev, f, indent=1, sort_keys=True, default=str)
    for l in lines:
        print(l)
    print(f"{pid}: theorems {discharged}/{len(thms)} checked, harness {res.get('evaluations', 0)} evaluations, "
          f"{len(res.get('correspondence_failures', []))} correspondence failures, {out_viol} violations, {round(time.time() - t0, 1)}s")
    return 1 if out_viol else 0
