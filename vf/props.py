"""Per-property configuration for the runner."""

COMMON_ASSUME = [
    "toasty is imported from /repo's working tree (editable install in /venv); _libtoasty.pyx cannot be rebuilt here (no Cython): the shipped .so runs, the .pyx text is checked through a transliteration",
]

PROPS = {
    "C08": {
        "props_files": ["C08", "C08Px"],
        "gen": ["Pyramid", "Study", "Masks", "PIO"],
        "trusted_base": ["numpy slicing / np.ndarray.fill / PIL, astropy.io.fits, np.save codecs are exercised, not modelled"],
        "assumptions": COMMON_ASSUME + ["sub-images are non-empty (width, height >= 1); the code also admits empty ones, which tile nothing"],
        "partial": "",
    },
}

PROPS["C13"] = {
    "gen": ["Pyramid"],
    "trusted_base": ["a tile filter is a deterministic function of the tile's position (tiles are functions of positions: C04)"],
    "assumptions": COMMON_ASSUME,
    "partial": "",
    "props_files": ["C13", "Reducer"],
}

PROPS["C20"] = {
    "gen": ["Collection"],
    "trusted_base": ["astropy.io.fits / astropy.wcs (HDU lists, alternate WCS keys) are exercised, not modelled"],
    "assumptions": COMMON_ASSUME + ["--hdu-index / --wcs-key strings are canonical decimal integers / single letters (python's int() also accepts whitespace, '+', '_')"],
    "partial": "",
}

PROPS["C16"] = {
    "gen": ["Parity"],
    "trusted_base": ["astropy WCS: header <-> object conversion (a CD-matrix header is read as CDELT=1, PC=CD) and the non-linear projection applied after the linear part; exercised (pixel->world before/after within 1e-9 deg), not modelled"],
    "assumptions": COMMON_ASSUME + ["the WCS is non-singular (det CD != 0) for the statements about the parity sign"],
    "partial": "projection (library)",
}

PROPS["C11"] = {
    "gen": ["Samplers"],
    "trusted_base": ["IEEE double evaluation of the same expressions agrees with exact evaluation at points strictly inside a cell (harness discards points within 1e-7 px of a boundary)", "astropy ICRS->Galactic rotation (library)"],
    "assumptions": COMMON_ASSUME + ["plate_carree_ecliptic_sampler is outside the stated layouts and is not checked"],
    "partial": "Galactic rotation (library)",
}

PROPS["C18"] = {
    "gen": ["Publish"],
    "trusted_base": ["file-system semantics: os.replace is atomic; an interrupted in-place write leaves a truncated file; directory listing order is arbitrary (modelled as any permutation)",
                     "Azure blob store (azure_io.py) is not exercised; its put is a single upload_blob(overwrite=True) call"],
    "assumptions": COMMON_ASSUME,
    "partial": "OS file semantics",
}

PROPS["C17"] = {
    "gen": ["Paths", "FitsTiler", "Study", "Pyramid"],
    "trusted_base": ["wwt_data_formats XML (de)serialisation of ImageSet/Place; the WWT client's template expansion is modelled as replacing {1},{2},{3} by decimal level, x, y",
                     "python str(int) = the model's decimal rendering (differentially executed)"],
    "assumptions": COMMON_ASSUME + ["HiPS output (external hipsgen) is not exercised"],
    "partial": "",
}

PROPS["C15"] = {
    "gen": ["Masks", "PIO"],
    "trusted_base": ["numpy view semantics: b[by, bx] with slice indexers is a view, so in-place operations on it write into the buffer and nowhere else (index *arrays* would give a copy; toasty passes slices only)",
                     "PIL / astropy.io.fits / np.save codecs (exercised by read-back)"],
    "assumptions": COMMON_ASSUME + ["float payloads are abstract tokens: only NaN-ness and identity matter for mask semantics", "png holds RGB/RGBA only; fits all modes but F16x3; npy all (capability table probed on the real code)"],
    "partial": "codecs",
}

PROPS["C02"] = {
    "gen": ["Merge", "Masks", "PIO", "Pyramid", "Paths"],
    "trusted_base": ["numpy reshape/nanmean/astype implement the 2x2 block mean of the Merger Protocol (structure re-checked textually; values exercised with dyadic data so float sums are exact)",
                     "callbacks that overlap in time are atomic with respect to the files they share: none (proved: disjoint footprints), given the order of C01"],
    "assumptions": COMMON_ASSUME + ["the pyramid holds nothing above the start level before the cascade (a stale parent whose children are all missing is left alone by the code)",
                                     "float mean is order-independent (exact on the generated dyadic data)"],
    "partial": "float mean order (dyadic data)",
}

PROPS["C14"] = {
    "gen": ["Range", "Merge"],
    "trusted_base": ["astropy.io.fits header round trip of float values; np.nanmin/np.nanmax + isfinite guard give the finite range", "the order of callbacks (C01) and the pixel result of the cascade (C02)"],
    "assumptions": COMMON_ASSUME + ["leaf values are finite or NaN (±inf excluded)", "averaging non-NaN data gives non-NaN data (a parent exists iff a child exists)"],
    "partial": "",
}

PROPS["C03"] = {
    "gen": ["Stage", "Pyramid"],
    "trusted_base": ["the multiprocessing model of DESIGN.md §3 (Queue = buffer→feeder→pipe with one reader lock and a bounded semaphore; a get times out only when it cannot take the lock or the pipe is empty; Event = atomic flag; join returns after the target returned) — vf/simmp.py implements exactly this and the Lean model has one transition per simmp step",
                     "liveness is proved in the form `from every reachable state some continuation returns` (Props/C03Live: no deadlock, termination never becomes impossible); and (Props/C03Bound: `effective_steps_bounded`, `only_polling_can_repeat`) in ANY execution at most 4·|items|+4·n+5 transitions are not steps of a worker's polling loop, so the only infinite executions are those that poll for ever while a useful transition stays possible; that a *fair* scheduler excludes exactly those is the remaining, unformalised step; hangs of the real code are detected by the simulator"],
    "assumptions": COMMON_ASSUME + ["callbacks do not raise (C19 covers failures)"],
    "partial": "",
    "props_files": ["C03", "C03Live", "C03Bound"],
}

PROPS["C10"] = {
    "gen": ["PIO"],
    "trusted_base": ["SoftFileLock gives mutual exclusion per lock path (atomic exclusive create) and is released on exit; tile writes are not atomic (modelled as begin/end) — simmp implements exactly this",
                     "real file-system behaviour under concurrent processes is only sampled (stress run)"],
    "assumptions": COMMON_ASSUME + ["updaters do not crash inside the locked region (a SoftFileLock marker left by a crash is outside the property)"],
    "partial": "OS file semantics",
    "props_files": ["C10", "C10Live"],
}

PROPS["C01"] = {
    "gen": ["Pyramid", "WalkWorker"],
    "trusted_base": ["the multiprocessing model of DESIGN.md §3 (as for C03); queue FIFO order is abstracted away in the proof model (a receive may take any item in the pipe), which over-approximates the real behaviours",
                     "a tile filter is a deterministic function of the tile's position",
                     "liveness is proved in the form `from every reachable state some continuation returns` (C01Live.par_walk_progress, C01LiveRed.par_walk_live_*): no deadlock and no state from which termination has become impossible; and (C01Bound.effective_steps_bounded / only_polling_can_repeat) at most 8·|ops|+4·n+11 transitions of ANY execution lie outside the dispatcher's and the workers' polling loops, so an execution can only be infinite by polling for ever; that the operating system's scheduler is fair (so that the continuation is the one that happens) is assumed, and hangs of the real code are detected by the simulator's watchdog"],
    "assumptions": COMMON_ASSUME + ["callbacks do not raise (C19)"],
    "partial": "the reducer / prologue refinement is proved for generic (sub-)pyramids, whole TOAST pyramids and TOAST sub-pyramids with an accepted ancestor line and a leaf (Props/Reducer, Props/C01Red); the degenerate nothing-to-do configurations are covered by differential execution only; scheduler fairness is an assumption of the liveness reading",
    "props_files": ["C01", "Reducer", "C01Red", "C01Live", "C01LiveRed", "C01Bound"],
}

PROPS["C19"] = {
    "gen": ["Stage", "WalkWorker"],
    "props_files": ["C19", "C19Live", "C19Bound"],
    "trusted_base": ["the multiprocessing model of DESIGN.md §3; a worker that is killed from outside (not: raises) is outside the property",
                     "that a failing item leaves the worker's control flow identical to a successful one is read off the source (try/except around the per-item work, no break/return/raise in the handler)"],
    "assumptions": COMMON_ASSUME + ["the failure is an Exception raised by the callback / per-item work (BaseException such as KeyboardInterrupt is not caught by design)"],
    "partial": "",
}

PROPS["C04"] = {
    "gen": ["Toast"],
    "trusted_base": ["`_libtoasty._mid` on IEEE doubles is a parameter of the model: the theorems hold for every midpoint operation, commutativity being the only hypothesis (and only for statements relating two different tiles); that the float routine is the great-circle midpoint and commutes to rounding is measured, not proved",
                     "spherical areas (toast_tile_area) are float trigonometry: summed and compared numerically (4π per level, parent = Σ children), not proved"],
    "assumptions": COMMON_ASSUME + ["a tile filter is a deterministic function of the tile"],
    "partial": "areas and great-circle geometry of `_mid` (floating point)",
}

PROPS["C05"] = {
    "gen": ["Toast"],
    "trusted_base": ["`_mid` is a parameter (commutativity is the only hypothesis); numpy sub-array views `x[:n2, n2:]` are modelled as index arithmetic (row half, column half)",
                     "containment of a pixel centre in its tile and in the corners' latitude range is a float-geometry statement: measured on all 65536 pixels of sampled tiles, not proved"],
    "assumptions": COMMON_ASSUME,
    "partial": "containment / latitude range (floating point)",
}

PROPS["C12"] = {
    "gen": ["Toast", "Lookup"],
    "trusted_base": ["the containment scores below level 1 (`_equ_to_xyz`, cross/dot products on doubles) are inputs of the model: the theorems hold for every outcome of the scores; that some child of a tile containing the point scores (nearly) 0 is measured, not proved",
                     "longitudes in the level-1 theorems are exact rationals in turns; the float comparisons against 0.5π, π, 1.5π, 2π are exercised at the module's own constants",
                     "the least-squares fit of toast_pixel_for_point (numpy lstsq) is exercised (within 2 px of the nearest centre), not modelled"],
    "assumptions": COMMON_ASSUME + ["lat and lon are finite numbers"],
    "partial": "containment below level 1 and pixel accuracy (floating point)",
}

PROPS["C06"] = {
    "gen": ["Sampling", "Paths", "Masks", "PIO", "Stage"],
    "trusted_base": ["coordinates and sampler are parameters of the model (any function); the coordinates the real callback uses are those of C05",
                     "file codecs (np.save, astropy.io.fits, PIL) are exercised by independent read-back, not modelled",
                     "the set and order of leaves delivered by visit_leaves is the subject of C13 (serial) and C03 (parallel hand-off); here it is any duplicate-free list"],
    "assumptions": COMMON_ASSUME + ["the sampler is a deterministic function of the coordinates"],
    "partial": "",
}

PROPS["C07"] = {
    "gen": ["Filter", "Samplers", "Toast"],
    "trusted_base": ["that a tile's pixel centres lie inside its corner bounding box (latitude range of the corners; longitudes within the unwrapped corner range) is float geometry: measured by brute force over all 65536 centres of every tile to depth 4-5, not proved",
                     "astropy WCS evaluations inside _image_bounds (pixel -> world) are library calls; the bounds are compared with a dense evaluation of the same WCS (tolerance 0.1 image pixel, the accuracy of sampling a curved edge at pixel resolution)",
                     "the bbox model works in exact arithmetic with tau = the double TWOPI; the compiled function rounds `lon + TWOPI`: disagreements that flip under a 1e-9 nudge are counted, not reported"],
    "assumptions": COMMON_ASSUME + ["bounding boxes have lon_min < lon_max and lat_min < lat_max (asserted by _latlon_tile_filter)",
                                    "chunked maps: sky positions exactly on a pixel boundary of the map may round either way (half-to-even in chunk-local vs global coordinates)"],
    "partial": "pixel centres within the corner box; WCS library (floating point)",
}

PROPS["C09"] = {
    "gen": ["MultiTan", "Study", "Masks", "PIO", "Stage"],
    "trusted_base": ["astropy: FITS I/O, WCS header round trip, `ensure_negative_parity` / `flip_parity` on the header (C16) are exercised, not modelled",
                     "reference-pixel offsets between inputs are integers (the code compares the grid-defining headers for equality); `int(np.floor/ceil)` are the identity there",
                     "cross-process exclusion on a shared tile is the C10 theorem (SoftFileLock protocol), the hand-off of inputs to workers the C03 theorem"],
    "assumptions": COMMON_ASSUME + ["inputs are non-empty images on one TAN grid"],
    "partial": "",
}

LEVEL_TEXT = {
    "C09": {
        "text": "The extent / running-bounds / size / CRPIX / placement arithmetic of compute_global_pixelization and the rectangle loop of the serial path and of the worker (flip formulas, update_image with default='masked') are re-extracted each run. Kernel-checked for every list of inputs: the bounds contain every input and are attained on all four sides (the mosaic is the bounding box), each input is placed inside it with its own size, the CRPIX written is the same whichever input comes last and coincides with every input's own reference pixel; an input's sub-tiling sends its pixel (u,v) to the tile and in-tile position the mosaic's tiling gives to (ox+u, oy+v) (C08); hence merging the inputs one after another into cleared tiles yields, pixel for pixel, the tiles of the mosaic assembled with the same merge (undefined never replaces defined: C15); where overlapping inputs are compatible (float data: one undefined or both equal) any permutation of the inputs gives the same mosaic and the same bounds, and two different defined values are not compatible; for bottom-up tiles the re-addressed rectangle stores row 255 - r of the top-down tile. Real MultiTanProcessor runs (1-6 overlapping inputs with undefined borders, stored top-down / bottom-up / mixed, fits / npy output, 1 and 3 workers, shuffled order) are read back tile by tile against the assembled mosaic, against the real code's single-image run incl. the astrometric description, and checked for leftover lock files; each run's global pixelisation is replayed through the model.",
        "note": "trusted: Lean kernel; extraction (gen_more.gen_multitan); the harness. Interleaving safety is inherited from C03/C10, not re-proved here.",
        "technique": "Lean 4 proof (fold / permutation arguments over extracted arithmetic, composed with the C08 and C15 theorems) + differential read-back of real runs",
    },
    "C07": {
        "text": "Kernel-checked in exact arithmetic, for every corner set and every box (any longitude origin, any width incl. > 2π, wrap-around): the five-comparator network sorts and permutes; the unwrapping loop, when it ends, leaves a sorted range at most π wide containing every corner longitude up to whole turns; steps 3-4 answer true whenever a longitude strictly inside that range coincides mod 2π with a longitude of the box; hence the bbox test has no false negatives w.r.t. the tile's own corner box, and pole tiles whose latitude range meets the box are accepted. Chunk arithmetic re-extracted from jpeg2000.py / samplers.py each run: every map pixel lies in exactly one chunk; a chunk's sampler maps a sky position (not on a pixel boundary) to the chunk-local index of the same pixel the whole-map sampler (C11) reads, and keeps it iff that pixel is in the chunk; a chunk's bounds strictly contain all its pixel centres. The refinement of _image_bounds samples along the right axis of each edge, at gaps of at most one pixel, and a pole inside the image sets the latitude bound. The compiled bbox test, the transliterated .pyx and the model are run on the same exact inputs; boxes, WCS images and chunks are checked by brute force over all pixel centres of all tiles to depth 4-5 incl. ancestors; filtered vs full sampling and chunk-by-chunk vs whole-map sampling are compared pixel by pixel.",
        "note": "trusted: Lean kernel; extraction (gen_more.gen_filter, pyx2py); the harness. The link from a tile's pixel centres to its corner box and the WCS library are validated numerically only.",
        "technique": "Lean 4 proof (exact-arithmetic model of the interval logic and chunk arithmetic, extracted from source) + differential and brute-force numeric execution",
    },
    "C06": {
        "text": "The statement sequence of ToastSampler.visit_callback / __init__ and of sample_layer[_filtered] is re-extracted each run; the per-pixel merge and the persistence rules are the generated C15 definitions. Kernel-checked for every sampler, coordinate function, pixel mode, set of visited tiles and order of visits: the image handed to the writer is, in display orientation, the sampler at the coordinates of the same tile and pixel; rows are reversed exactly when the format the tiles are written in (default or override) is bottom-up (FITS); callbacks of different tiles commute, so any permutation of a duplicate-free visit list leaves the same pyramid; a visited tile holds the sampled image (clobber; no file when completely masked) or the C15 merge into its previous content (update), an unvisited tile is untouched; composed with the C03 theorem: in every returned state of the parallel hand-off, for any number of workers and any interleaving, the pyramid equals the serial one. Real sample_layer / sample_layer_filtered runs (depth 0-3, both systems, npy/fits/png with and without a format override, masked scalar and RGB samplers, clobber over existing tiles, two-pass updates, 1 and 3 workers) are read back file by file with independent decoders.",
        "note": "trusted: Lean kernel; AST extraction (gen_more.gen_sampling); the harness and its independent decoders.",
        "technique": "Lean 4 proof (commutation / permutation invariance over an abstract sampler, composed with the C03 protocol theorem) + differential read-back of real runs",
    },
    "C12": {
        "text": "The level-1 rules of _toast_tile_containment_score and the statement shape of toast_tile_for_point / toast_pixel_for_point are re-extracted every run. Kernel-checked for every rational longitude (turns), every number of whole extra turns, both coordinate systems, every depth and every outcome of the floating-point scores: the level-1 loop always stops at a tile scoring 0 and that tile has among its corners, in the requested coordinate system, the two equatorial vertices of a quarter of longitudes containing the point; whole turns do not change the answer; at each level the child chosen has the largest score, the first zero-scoring child if there is one; answers for increasing depths are nested and the tile returned is the C04 tile of its position; a clipped edge sum is 0 iff the point is on the inner side of all four edges. The real lookup is run against the model at quarter-turn boundaries, interior rationals and scripted scores, and on floats (random and special points, tile features, both systems, depths 0-12) for containment, nesting and 2π-periodicity; pixel positions are compared with the nearest pixel centre.",
        "note": "trusted: Lean kernel; the AST extraction (gen_more.gen_lookup); the harness. Containment below level 1 and the pixel fit are floating-point geometry: validated numerically only.",
        "technique": "Lean 4 proof (decision logic over exact rationals, rules extracted from source) + differential and numeric execution",
    },
    "C04": {
        "text": "The level-1 table, `_div4` and `_subsample` are re-extracted on every run by executing the real functions on symbolic points. Over an arbitrary point type and an arbitrary midpoint operation, kernel-checked for every depth, position and coordinate system: create_single_tile, (filtered) enumeration and the point-lookup descent (for every sequence of choices) all return `tileAt pos` — one tile per position; the filtered enumeration is a sublist of the unfiltered one, which visits every valid position of levels 1..depth exactly once (4^n per level) in the order of the pyramid model; under commutativity of the midpoint the tiles of a level are the cells of one vertex grid, so neighbours share corners and edges, each tile is tiled by its four children whose new corners are the parent's edge midpoints and diagonal midpoint, vertices persist to all deeper levels, and the outer edges of the square are glued pairwise; the level-1 cells are the documented layout (N centre, S corners, longitude 0 right / left); the planetary grid is the astronomical one under the half-turn. The real routes are run on symbolic points against the term model, and on floats (compiled extension and transliterated .pyx) against each other; midpoint, commutativity, areas (4π per level, parent = Σ children) and shared corners are validated numerically.",
        "note": "trusted: Lean kernel; the symbolic extraction (tables_more.gen_toast, pyx2py); the harness. Areas and the great-circle nature of `_mid` are outside the model (numerical only).",
        "technique": "Lean 4 proof over an abstract midpoint algebra (tables extracted from source) + symbolic and numeric differential execution",
    },
    "C05": {
        "text": "Kernel-checked for every grid size 2^k, every tile, pixel, orientation and coordinate system: the value `_subsample` (tables extracted from the .pyx text each run) writes at row i, column j of the tile at (n,x,y) is the centre of the `_div4` tile at (n+k, 2^k x+j, 2^k y+i); with k=8 this is the statement of the property; the value is the vertex (2(256x+j)+1, 2(256y+i)+1) of the level-(n+9) grid (one global pixelisation); the level-0 tile's pixels are the level-8 centres. The .pyx recursion is run on symbolic points against the Lean model; toast_tile_get_coords and _level0_coords are compared with centres of deep tiles from create_single_tile; containment and latitude range of pixel centres are measured.",
        "note": "trusted: Lean kernel; pyx2py transliteration; the harness. Hypothesis: the midpoint commutes (the two subdivisions write mid(ul,ll) vs mid(ll,ul)); measured to hold within 1e-9 rad on floats.",
        "technique": "Lean 4 proof (induction on the subdivision depth, tables extracted from source) + symbolic and numeric differential execution",
    },
    "C19": {
        "text": "How the five parallel code paths treat a failing item is re-extracted each run (worker: try/except around the per-item work, set the shared error event, continue the loop; parent: raise after joining when the event is set). Theorems over the hand-off protocol extended with failing callbacks: every execution with failures projects onto a failure-free execution, so the C03 results (all workers exit, queues drained, every item handed to a callback exactly once) carry over; once the parent has finished it has raised exactly when some callback failed or an input could not be loaded (the parent's own iteration raising, `loadFail`) — for all workers, items, interleavings and failure sets; and (Props/C19Live, lifting C03Live.stage_progress along the projection) from every reachable state some continuation lets the parent finish and raise iff a callback failed, so no failure can make a stage hang or lose the error; and (Props/C19Bound.failing_effective_steps_bounded, through the same projection and C03Bound) an execution with failures contains at most 4·|items|+4·n+6 transitions outside the workers' polling loop, whatever fails and whenever. The real walk / visit_leaves / transform / multi_tan / multi_wcs are run with a failing item under a deterministic scheduler, with real processes under a watchdog, and serially.",
        "note": "trusted: Lean kernel; multiprocessing semantics; simmp; the source-shape extraction. For the walk, the tile whose callback failed is still reported to the dispatcher, so the protocol of C01 is unchanged.",
        "technique": "Lean 4 proof (simulation onto the failure-free protocol) + fault injection under deterministic schedules",
    },
    "C01": {
        "text": "Bit/slot formulas, the release test, the seeding level and the stop test of _walk_parallel are re-extracted each run. A phase-based transition system (every tile waiting / in the ready queue / held, running, finished in a worker / in the done queue / retired; dispatcher with 4-bit readiness masks) is proved, for every number of workers and every interleaving, to keep an invariant relating masks to retired children; corollaries: whenever a callback is about to start, the callbacks of all live non-leaf children have completed (also as an ordering statement on the callback log); callbacks start at most once and only for live non-leaf tiles of the sub-pyramid; when walk has returned all workers have exited and the set of started = completed callbacks is exactly the live non-leaf tiles. The real Pyramid.walk is run serially, under a deterministic scheduler (2-4 workers, biased random schedules) and with real processes on generated pyramids (all depth-1 filters, gappy filters, sub-pyramids); every simulated trace is replayed through the Lean transition function starting from the model's own prologue (its reduction iterator), and every callback log is checked against the property.",
        "note": "trusted: Lean kernel; the multiprocessing semantics; simmp; fact extraction. Props/Reducer proves that the reduction iterator computes the bottom-up fold over the tree of yielded positions (no assertion trips, every node is shown exactly the values of its accepted children); Props/C01Red derives from it that the model's prologue delivers Cfg with ops = the positions of the serial walk, for generic (sub-)pyramids, whole (filtered) TOAST pyramids and TOAST sub-pyramids, and states the protocol theorems end to end (par_walk_generic, par_walk_toast, par_walk_toast_sub). Props/C01Live proves liveness (second invariant family + lexicographic measure: every reachable non-returned state has an enabled measure-decreasing transition, hence a continuation to `returned`), Props/C01LiveRed discharges its two side conditions for the real prologue (par_walk_live_generic / _toast / _toast_sub).",
        "technique": "Lean 4 proof (inductive invariants over all interleavings, progress measure) + trace refinement checked by execution",
    },
    "C10": {
        "text": "The shape of update_image (lock wraps read → yield → write and nothing else; lock path from the default-format tile path; one format for read and write) is re-extracted each run. A transition system with one transition per lock/read/write step is proved, for any number of updaters and every interleaving, to keep an 8-clause invariant; corollaries: when all updaters are done the tile is stable and holds every contribution exactly once in lock-acquisition order (serialisability), no read ever observes a partially written tile, at most one updater is inside the region; and (Props/C10Live, updates_can_finish) from every reachable state some continuation lets every updater finish — the locked region never deadlocks — and (every_execution_terminates) the model has no transition that does not advance an updater, so EVERY execution, fair or not, is at most 6·n transitions long and one that cannot be extended has all updaters done with the serialisable result. The real update_image runs under a deterministic scheduler (random and bounded-exhaustive schedules, 2-4 updaters) with traced reads/writes; traces are replayed through the Lean model and the final tile content is checked; a real-process stress run.",
        "note": "trusted: Lean kernel; the lock/file semantics of DESIGN.md §3; simmp; fact extraction.",
        "technique": "Lean 4 proof (inductive invariant over all interleavings) + trace refinement checked by execution",
    },
    "C03": {
        "text": "The producer statement order, queue capacities and the workers' shutdown test are re-extracted from the four stage implementations each run. A transition system with one transition per multiprocessing primitive models producer, feeder and n workers; a 14-clause invariant is proved inductive for every number of workers, capacity, item list and interleaving (time-outs firing whenever a receive is impossible). Corollaries: no item is processed more often than produced (exactly-one worker for distinct items); when the producer has returned all workers have exited, queue and buffers are empty and the processed items are a permutation of the produced ones. The original step order (flag read after an empty poll) is refuted by an 11-step witness. Liveness (Props/C03Live): with a second invariant and a lexicographic measure (item positions, producer counter, worker distances) every non-returned reachable state has an enabled transition that decreases the measure, hence a continuation that returns (`stage_progress`); a potential function that no transition increases and every non-polling transition decreases bounds the number of non-polling transitions of any execution by 4·|items|+4·n+5 (Props/C03Bound). The real visit_leaves / transform / multi_tan / multi_wcs run under a deterministic scheduler (random, biased, and bounded-exhaustive schedules) and every trace is replayed through the Lean transition function; real-process smoke runs.",
        "note": "trusted: Lean kernel; the multiprocessing semantics stated in DESIGN.md; simmp; fact extraction from the stage sources.",
        "technique": "Lean 4 proof (inductive invariant over all interleavings) + trace refinement checked by execution",
    },
    "C14": {
        "text": "How the data range travels is re-extracted from the source each run (save: explicit range else the array's finite range; load: header -> data_min/max; merger: min of the children's mins / max of their maxes over children that exist and carry one; Builder copies the root's). Theorem, by induction over the tile tree with an arbitrary fallback for range-less children: every stored tile records exactly the min and max over all finite leaf values beneath it, and a tile is absent exactly when there are none (all-NaN leaves contribute nothing). Real FITS pyramids (sparse, NaN-laden, exact-zero extremes, leaves built by repeated update_image passes; serial and 3 workers) are cascaded and every header compared with the leaves' float32 range and with the model.",
        "note": "trusted: Lean kernel; textual extraction of the plumbing; astropy FITS headers. Schedule independence is inherited from C02 (cascade_tree).",
        "technique": "Lean 4 proof (structural induction over the pyramid) + header read-back",
    },
    "C02": {
        "text": "Slice tables, table-per-parity choice and the callback's structure come from running/reading merge.py each run; per-pixel update semantics from image.py (C15). Theorems: closed form of the 512x512 mosaic for both tables; for both vertical parities the displayed parent pixel (i,j) is the block function of the displayed mosaic with child (2x+ix,2y+iy) in quadrant (iy,ix) and missing children undefined (flip and table row-halves cancel for row-swap-invariant mergers; the averaging merger is one); NaN iff all four NaN / floor mean of four stored values; parent exists iff some child exists and the merged tile is not completely masked; for every legal schedule (C01 order) every tile equals a function of the leaves only, and non-interfering callbacks commute, so serial and parallel results coincide. Real cascades (8 format/mode kinds, serial and 3 workers) are compared with an independent numpy statement of the property and with the Lean index map applied to the real child files.",
        "note": "trusted: Lean kernel; table/idiom extraction; numpy block-mean structure; dyadic test data for float exactness.",
        "technique": "Lean 4 proof (index algebra + induction over schedules) + differential execution against real cascades",
    },
    "C15": {
        "text": "The numpy statements of fill_into_maskable_buffer / update_into_maskable_buffer / clear / is_completely_masked are translated per mode into per-pixel Lean functions on every run (a small numpy-idiom translator: putmask, isnan, any(axis=2), broadcast_to, maximum, slice assignment). Theorems per mode class: fill defines exactly the rectangle, update never touches the frame nor a pixel whose source is undefined, defined sources replace (RGB/RGBA/float/3xfloat16), integer update is the max, masked-ness uses the same per-pixel rule, write_image stores a tile iff not completely masked after any write history, read defaults. The model is run against the real Image methods on all modes x slice indexers x mask densities, and against PyramidIO write histories and round trips.",
        "note": "trusted: Lean kernel; the numpy-idiom translator; numpy's slice-view semantics; codecs.",
        "technique": "Lean 4 proof over per-pixel semantics translated from the numpy source + differential execution",
    },
    "C17": {
        "text": "The two path builders, the scheme strings and the Builder's Url/FileType are obtained on every run by executing the real PyramidIO/Builder on marker strings. Theorems: for both schemes and every supported format, expanding the recorded template at (level,x,y) is exactly the tile path, for all positions; paths are injective in (level,x,y) (decimal rendering injective, digits vs separators); Url = scheme + FileType, FileType = '.'+extension; a study's TileLevels is log2(p2n/256) (from C08); the reuse branch of FitsTiler.tile (shape re-extracted from the source) returns the description in index_rel.wtml in every call history. Every workflow that writes index_rel.wtml is run and its directory tree compared with the expanded template both ways; tile_fits is run through fresh/repeated/override histories.",
        "note": "trusted: Lean kernel; marker-string extraction; wwt_data_formats; the harness. The history theorem is over a three-branch model of FitsTiler.tile whose branch facts are re-extracted; that the restored Builder equals the written one field-by-field is checked by execution.",
        "technique": "Lean 4 proof over runtime-extracted path tables + workflow execution",
    },
    "C18": {
        "text": "The reorder statements of PipelineManager.publish are translated from the source on every run; theorems: for every listing containing index.wtml the transfer list is a permutation with index.wtml last; for every file set, every sequence of publish invocations (any listing order each, interrupted before/inside/after any transfer or before the rename) the store never holds an index.wtml whose companions are missing or incomplete, a moved image is completely stored, an uninterrupted re-run completes, refresh never skips a partially published image. The same theorem for in-place writes is refuted by a two-interruption witness (the defect fixed in e99729d). The model is run against the real PipelineManager + LocalPipelineIo under fault injection over all listing orders.",
        "note": "trusted: Lean kernel; the list-statement translator; the fault-injection harness (faults = exceptions raised around put_item, a half-delivered source, a failing rename); OS atomicity of os.replace.",
        "technique": "Lean 4 proof (invariant over all fault histories) + fault-injection correspondence",
    },
    "C11": {
        "text": "The index computations of the six sampler variants (sky, zero-right, planet, planet zero-left, Galactic, ecliptic) are translated from samplers.py on every run into exact rational Lean functions (angles in turns). Theorems, for all map shapes >=1x1, all rational longitudes and latitudes in [-1/4,1/4] turn: the returned (iy, ix) is in range and its closed cell contains the point's position under the documented layout of the variant; the result is 1-periodic in longitude; strictly inside a cell the answer is unique; the Galactic variant indexes like the sky variant and the ecliptic variant like the zero-right variant (each after its rotation, which is astropy's). The real samplers are run on exact rational points strictly inside cells and compared with the model and with an independent floor-based oracle.",
        "note": "trusted: Lean kernel; the expression translator (np.pi -> 1/2 turn etc.: a change of units because every expression is homogeneous in the angle unit); double rounding away from boundaries; astropy's rotation.",
        "technique": "Lean 4 proof over source-translated rational functions + exact-point differential execution",
    },
    "C16": {
        "text": "The header assignments of _flip_wcs_parity and _wcs_to_parity_sign are symbolically executed from image.py on every run into exact rational Lean definitions; theorems (all CD, CRPIX, heights, pixels): world(x,y) before = world(x,H-1-y) after, det negates, parity sign negates, rows reversed, ensure_negative_parity yields -1 and is idempotent, for images and data-less descriptions. Real Image (array- and PIL-backed) and ImageDescription objects with dyadic WCS are compared header-for-header with the model and checked on the sky through astropy.",
        "note": "trusted: Lean kernel; the symbolic executor for the header fragment; astropy's WCS parsing and projection.",
        "technique": "Lean 4 proof (ring identities over Rat) over symbolically executed source + exact differential execution",
    },
    "C20": {
        "text": "The selection branches of SimpleFitsCollection._scan_hdus (scalar / per-file list / guess; WCS key scalar / list / default) are re-extracted from collection.py as typed Lean definitions on every run; theorems: a scalar applies to every file, a list is applied pointwise to both the reported index and the HDU read, reported = read in every branch, the guess takes the first HDU with >=2-D non-table data, short lists are errors; structural facts: descriptions/images/export_simple share one scan. The assembled model is run against collection.load / create_from_args / tile_fits on generated multi-extension collections.",
        "note": "trusted: Lean kernel; the extractor for this fragment (AST pattern + typed expression translation: a list used where an index is needed makes the generated definition ill-typed, which is reported as a broken obligation); astropy.",
        "technique": "Lean 4 proof over source-extracted selection branches + differential execution",
    },
    "C13": {
        "text": "Kernel-checked theorems for every depth and position: parent/child/slot inverses, is_subtile = shift relation = iterated parent (incl. its ValueError case), generate_pos is duplicate-free, yields exactly the in-scope positions, every position after its four children, and has the code's closed-form counts (depth2tiles / tiles_at_depth, incl. depth2tiles(-1)=0). pos_parent / pos_children / slot and bit formulas are re-extracted from pyramid.py each run and bridged to the model by lemmas. The executable model of the generators and of PyramidReductionIterator is run against the real classes (yield sequence incl. child data, results, visits) on every accept-set of depth 1 and random hierarchical accept-sets x apexes.",
        "note": "trusted: Lean kernel; py2lean; the harness. A filter is modelled as a function of the position. Props/Reducer (kernel-checked): the reduction iterator never trips an assertion on a generator's output and yields every node with the values of its accepted children; serial visit_leaves = the yielded positions of the target level, serial walk = the yielded non-leaf positions with a leaf below, both in post-order, for generic (sub-)pyramids and whole TOAST pyramids.",
        "technique": "Lean 4 proof (induction over the quadtree) + differential execution of the model",
    },
    "C08": {
        "text": "Kernel-checked theorems (all widths/heights/sub-images, no bound) about the StudyTiling arithmetic as translated from study.py on every run: smallest power-of-two square >= 256, centring, every image pixel in exactly one in-tile rectangle, rectangles inside tiles and image, count = length, image_to_tile agreement, sub-images share geometry. The translation is executed differentially against the Python functions, and the real tiler's files are read back and reassembled for every format/mode class.",
        "note": "trusted: Lean kernel; py2lean translator (differentially executed); numpy slice assignment and the codecs (exercised by read-back, not modelled). Props/C08Px states the pixel level: what every written tile shows at each display position for every mode and both parities (`tile_display_pixel`), and that the tiles reassemble to the image centred in the square with everything else undefined (`reassemble`), over the generated fill semantics of C15 and the extracted row formulas.",
        "technique": "Lean 4 proof over source-extracted definitions + differential execution",
    },
}


# entry-point plumbing facts (Gen/Plumbing.lean) are part of these properties' proof obligations
for _pid in ("C02", "C03", "C04", "C05", "C06", "C07", "C08", "C09", "C10", "C12", "C13", "C14", "C15", "C17", "C18", "C19", "C20"):
    if "Plumbing" not in PROPS[_pid].setdefault("gen", []):
        PROPS[_pid]["gen"] = list(PROPS[_pid]["gen"]) + ["Plumbing"]

COMMON_NOTE_PLUMBING = (" The file ends with `entry_points`: the argument plumbing at the call sites through which this property's workflows reach "
                        "the modelled functions (Gen/Plumbing.lean, re-extracted each run) is what the model assumes.")
for _pid in ("C02", "C03", "C04", "C05", "C06", "C07", "C08", "C09", "C10", "C12", "C13", "C14", "C15", "C17", "C18", "C19", "C20"):
    if _pid in LEVEL_TEXT and COMMON_NOTE_PLUMBING not in LEVEL_TEXT[_pid].get("note", ""):
        LEVEL_TEXT[_pid]["note"] = LEVEL_TEXT[_pid].get("note", "") + COMMON_NOTE_PLUMBING
