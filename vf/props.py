"""Per-property configuration for the runner."""

COMMON_ASSUME = [
    "toasty is imported from /repo's working tree (editable install in /venv); _libtoasty.pyx cannot be rebuilt here (no Cython): the shipped .so runs, the .pyx text is checked through a transliteration",
]

PROPS = {
    "C08": {
        "gen": ["Pyramid", "Study"],
        "trusted_base": ["numpy slicing / np.ndarray.fill / PIL, astropy.io.fits, np.save codecs are exercised, not modelled"],
        "assumptions": COMMON_ASSUME + ["sub-images are non-empty (width, height >= 1); the code also admits empty ones, which tile nothing"],
        "partial": "",
    },
}

LEVEL_TEXT = {
    "C08": {
        "text": "Kernel-checked theorems (all widths/heights/sub-images, no bound) about the StudyTiling arithmetic as translated from study.py on every run: smallest power-of-two square >= 256, centring, every image pixel in exactly one in-tile rectangle, rectangles inside tiles and image, count = length, image_to_tile agreement, sub-images share geometry. The translation is executed differentially against the Python functions, and the real tiler's files are read back and reassembled for every format/mode class.",
        "note": "trusted: Lean kernel; py2lean translator (differentially executed); numpy slice assignment and the codecs (exercised by read-back, not modelled). The pixel-level 'reassemble' statement rests on the fill model of Model/Pixels (C15) plus the row formulas extracted from tile_image.",
        "technique": "Lean 4 proof over source-extracted definitions + differential execution",
    },
}
