"""pyx2py: transliterate the restricted Cython dialect of toasty/_libtoasty.pyx into plain Python.

No Cython is available in this sandbox, so the compiled extension cannot be rebuilt from the .pyx a
user of this tree would build.  The checks therefore treat the .pyx *text* as the source of truth:
this module turns it into Python on every run (line-oriented rewriting of the constructs the file
uses: `cimport`, `ctypedef`, `cdef struct`, typed arguments and locals, pointer out-parameters,
memory views, decorators), so that the kernels can be executed (a) on floats, to compare with the
loaded `.so`, and (b) on symbolic points, to extract their structure.

Anything outside the dialect raises Pyx2PyError.
"""
import math
import re


class Pyx2PyError(Exception):
    pass


C_TYPES = r"(?:DTYPE_t|int|double|float|bint|Point|np\.ndarray\[[^\]]*\]|DTYPE_t\s*\[[:,\s]*\])"


def _split_top(s):
    parts, depth, cur = [], 0, ""
    for ch in s:
        if ch in "([":
            depth += 1
        if ch in ")]":
            depth -= 1
        if ch == "," and depth == 0:
            parts.append(cur.strip())
            cur = ""
        else:
            cur += ch
    if cur.strip():
        parts.append(cur.strip())
    return parts


def transliterate(src):
    lines = src.splitlines()
    out = []
    i = 0
    outparam = None        # name of the pointer out-parameter of the current function
    func_indent = None
    struct_names = set()

    def flush_func():
        nonlocal outparam, func_indent
        if outparam is not None:
            out.append(" " * (func_indent + 4) + f"return {outparam}")
        outparam, func_indent = None, None

    while i < len(lines):
        line = lines[i]
        stripped = line.strip()
        indent = len(line) - len(line.lstrip())
        # end of a function body?
        if func_indent is not None and stripped and indent <= func_indent and not stripped.startswith(("#", '"""', "'")):
            flush_func()
        if re.match(r"(from libc\S* cimport|cimport )", stripped) or stripped in ("np.import_array()",) or stripped.startswith("@cython"):
            i += 1
            continue
        if stripped.startswith("ctypedef "):
            i += 1
            continue
        if stripped.startswith("DEF "):
            out.append(" " * indent + stripped[4:])
            i += 1
            continue
        m = re.match(r"cdef struct (\w+):", stripped)
        if m:
            name = m.group(1)
            struct_names.add(name)
            fields = []
            i += 1
            while i < len(lines) and lines[i].strip() and (len(lines[i]) - len(lines[i].lstrip())) > indent:
                fm = re.match(rf"\s*{C_TYPES}\s+(\w+)\s*$", lines[i])
                if not fm:
                    raise Pyx2PyError(f"struct field: {lines[i]!r}")
                fields.append(fm.group(1))
                i += 1
            out.append(f"class {name}:")
            out.append(f"    __slots__ = {tuple(fields)!r}")
            out.append(f"    def __init__(self, {', '.join(f + '=None' for f in fields)}):")
            for f in fields:
                out.append(f"        self.{f} = {f}")
            continue
        m = re.match(r"(cdef|cpdef)\s+(?:inline\s+)?(\w+)\s+(\w+)\((.*)\)\s*:\s*$", stripped) or re.match(r"(def)\s+()(\w+)\((.*)\)\s*:\s*$", stripped)
        if m:
            flush_func()
            kind, _rt, fname, args = m.groups()
            # arguments may continue on following lines
            while args.count("(") != args.count(")") or (not stripped.endswith(":")):
                i += 1
                stripped += " " + lines[i].strip()
                m2 = re.match(r".*\((.*)\)\s*:\s*$", stripped)
                args = m2.group(1) if m2 else args
            new_args = []
            op = None
            for a in _split_top(args):
                pm = re.match(rf"{C_TYPES}\s*\*\s*(\w+)$", a)
                if pm:
                    op = pm.group(1)
                    continue
                am = re.match(rf"{C_TYPES}\s+(\w+)$", a)
                new_args.append(am.group(1) if am else a)
            out.append(" " * indent + f"def {fname}({', '.join(new_args)}):")
            func_indent = indent
            outparam = op
            if op is not None:
                out.append(" " * (indent + 4) + f"{op} = Point()")
            i += 1
            continue
        # multi-line def header (def foo(a, b,\n   c):)
        if re.match(r"(cdef|def)\s+.*\($", stripped) or (re.match(r"(cdef|def)\s+\w*\s*\w+\(", stripped) and not stripped.endswith(":")):
            j = i
            joined = stripped
            while not joined.endswith(":"):
                j += 1
                joined += " " + lines[j].strip()
            lines[i] = " " * indent + joined
            del lines[i + 1:j + 1]
            continue
        if stripped.startswith("cdef "):
            body = stripped[5:]
            # declaration with initialisers:  cdef int n = x.shape[0]   /  cdef Point l = Point(..), m = Point(..), n
            tm = re.match(rf"{C_TYPES}\s+(.*)$", body)
            if not tm:
                raise Pyx2PyError(f"cdef line: {stripped!r}")
            decl = tm.group(1)
            # split on top-level commas
            parts, depth, cur = [], 0, ""
            for ch in decl:
                if ch in "([":
                    depth += 1
                if ch in ")]":
                    depth -= 1
                if ch == "," and depth == 0:
                    parts.append(cur.strip())
                    cur = ""
                else:
                    cur += ch
            if cur.strip():
                parts.append(cur.strip())
            for p in parts:
                if "=" in p:
                    out.append(" " * indent + p)
                elif body.startswith("Point"):
                    out.append(" " * indent + f"{p} = Point()")
            i += 1
            continue
        # calls with &out
        cm = re.match(r"(\w+)\((.*),\s*&(\w+)\)\s*$", stripped)
        if cm:
            out.append(" " * indent + f"{cm.group(3)} = {cm.group(1)}({cm.group(2)})")
            i += 1
            continue
        if stripped == "return" and outparam is not None:
            out.append(" " * indent + f"return {outparam}")
            i += 1
            continue
        out.append(line)
        i += 1
    flush_func()
    text = "\n".join(out) + "\n"
    return text


PRELUDE = "import numpy as np\nfrom math import sin, cos, atan2, hypot\nDTYPE = np.float64\n"


def load(pyx_path, mid_override=None, array_dtype=None):
    """exec the transliteration; returns the namespace.  `mid_override(a, b)` replaces `_mid`
    (for symbolic runs); `array_dtype=object` makes `subsample` allocate object arrays."""
    src = open(pyx_path).read()
    py = PRELUDE + transliterate(src)
    if array_dtype is not None:
        py = py.replace("np.zeros((npix, npix), dtype=DTYPE)", "np.empty((npix, npix), dtype=object)")
        py = py.replace("Point(DTYPE(ul[0]), DTYPE(ul[1]))", "ul").replace("Point(DTYPE(ur[0]), DTYPE(ur[1]))", "ur")
        py = py.replace("Point(DTYPE(lr[0]), DTYPE(lr[1]))", "lr").replace("Point(DTYPE(ll[0]), DTYPE(ll[1]))", "ll")
    ns = {}
    exec(compile(py, pyx_path + ".py", "exec"), ns)
    if mid_override is not None:
        ns["_mid"] = mid_override
    ns["__source__"] = py
    return ns
